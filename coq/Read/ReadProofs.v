(** Reader proofs, part 1: the stream invariant of comp_read for unit-decoded (zstd) files
    and its consequences (T2.1, T2.2, T15.1, T2.3 for zstd files; every file, every buffer
    size sequence, every fuel). *)
From ZV Require Import Base.Bytes Gen.GenConsts Format.Compint Format.Header Format.ParseProofs
                       Read.ReadSpec Read.CompRead Read.ReadLemmas.
Local Open Scope N_scope.
Ltac Zify.zify_post_hook ::= Z.to_euclidean_division_equations.

Ltac dst st :=
  destruct st as [rest data loc idx eof dc dcloc chash fhash dict started err];
  cbn [r_rest r_data r_loc r_idx r_eof r_dc r_dcloc r_chash r_fhash r_dict r_started r_err] in *.
Ltac rsimpl :=
  cbn [r_rest r_data r_loc r_idx r_eof r_dc r_dcloc r_chash r_fhash r_dict r_started r_err
       set_rest set_data set_idx set_eof set_dc set_chash set_fhash set_dict set_started set_err
       add_to_dc] in *.

Section Proofs.
Variable H : N -> bytes -> bytes.
Variable zdecomp : option bytes -> bytes -> N -> option bytes.
Variable hd : header.
Variable f : bytes.

Notation cks := (h_chunks hd).
Notation b := (body hd f).

Hypothesis Hstarts : starts_ok 0 (h_chunks hd).
Hypothesis Hsizes : data_total (h_chunks hd) < two64.
Hypothesis Hz : is_zstd hd = true.
Hypothesis Hnonempty : h_chunks hd <> [].

Definition skip0 (c : chunk) : bool := (c_clen c =? 0) && (c_ulen c =? 0).

(** decoded data of one entry as the reader obtains it: the empty first entry is skipped *)
Definition dec1 (first : bool) (dictv : option bytes) (c : chunk) : option bytes :=
  if first && skip0 c then Some []
  else decode_chunk zdecomp (is_zstd hd) (if first then None else dictv) c (stored b c).

(** checksum-verified and decoded prefix of the chunk table: the concatenated data *)
Fixpoint ver (first : bool) (dictv : option bytes) (pre : list chunk) : option bytes :=
  match pre with
  | [] => Some []
  | c :: t =>
      if chunk_ok H hd b first c then
        match dec1 first dictv c, ver false dictv t with
        | Some d, Some r => Some (d ++ r)
        | _, _ => None
        end
      else None
  end.

Definition hflag (first : bool) (pre : list chunk) : bool := match pre with [] => first | _ => false end.

Lemma ver_snoc first dv pre c S d :
  ver first dv pre = Some S -> chunk_ok H hd b (hflag first pre) c = true ->
  dec1 (hflag first pre) dv c = Some d -> ver first dv (pre ++ [c]) = Some (S ++ d).
Proof.
  revert first S. induction pre as [|p pre IH]; intros first S HS Hok Hd; cbn [app hflag] in *.
  - cbn [ver] in *. rewrite Hok, Hd. injection HS as <-. now rewrite app_nil_r.
  - cbn [ver] in *. destruct (chunk_ok H hd b first p); [|discriminate].
    destruct (dec1 first dv p) as [dp|]; [|discriminate].
    destruct (ver false dv pre) as [r|] eqn:Er; [|discriminate].
    injection HS as <-. rewrite (IH false r Er).
    + now rewrite app_assoc.
    + destruct pre; exact Hok.
    + destruct pre; exact Hd.
Qed.

Lemma ver_first_dict dv dv' c : ver true dv [c] = ver true dv' [c].
Proof. reflexivity. Qed.

Lemma ver_chunks_ok first dv cs S :
  ver first dv cs = Some S ->
  match cs with [] => True | c0 :: t => chunk_ok H hd b first c0 = true /\ forallb (chunk_ok H hd b false) t = true end.
Proof.
  revert first S. induction cs as [|c cs IH]; intros first S E; [exact I|].
  cbn [ver] in E. destruct (chunk_ok H hd b first c) eqn:Ec; [|discriminate]. split; [reflexivity|].
  destruct (dec1 first dv c); [|discriminate]. destruct (ver false dv cs) as [r|] eqn:Er; [|discriminate].
  specialize (IH false r Er). destruct cs as [|c1 t]; [reflexivity|]. cbn [forallb]. destruct IH as [-> ->]. reflexivity.
Qed.

Lemma ver_decode_all dv cs S :
  ver false dv cs = Some S -> decode_all zdecomp (is_zstd hd) dv b cs = Some S.
Proof.
  revert S. induction cs as [|c cs IH]; intros S E; cbn [ver decode_all] in *; [exact E|].
  destruct (chunk_ok H hd b false c); [|discriminate]. unfold dec1 in E. cbn [andb] in E.
  destruct (decode_chunk zdecomp (is_zstd hd) dv c (stored b c)) as [d|]; [|discriminate].
  destruct (ver false dv cs) as [r|] eqn:Er; [|discriminate]. now rewrite (IH r eq_refl).
Qed.

Lemma decode_zstd_len dv c s d : decode_chunk zdecomp true dv c s = Some d -> len d = c_ulen c.
Proof.
  unfold decode_chunk. destruct (zdecomp dv s (c_ulen c)) as [x|]; [|discriminate].
  destruct (N.eqb_spec (len x) (c_ulen c)); [|discriminate]. congruence.
Qed.

(** ** the stream invariant *)
Definition NS (del : bytes) (st : rstate) : Prop :=
  r_idx st = [] /\ r_eof st = false /\ r_loc st = 0 /\ r_data st = [] /\ r_dc st = [] /\ del = [] /\
  r_rest st = b /\ (uflag hd = false -> r_fhash st = Some []) /\ r_dict st = None.

Definition cur_clen (st : rstate) : N := match r_idx st with c :: _ => c_clen c | [] => 0 end.

Definition RUN (imp : bool) (del : bytes) (st : rstate) : Prop :=
  exists pre, cks = pre ++ r_idx st /\
    (r_eof st = true <-> r_idx st = []) /\
    ver true (r_dict st) pre = Some (del ++ r_dc st) /\
    r_loc st <= cur_clen st /\
    data_total pre + r_loc st <= len b /\
    r_rest st = dropN (data_total pre + r_loc st) b /\
    r_data st = sub b (data_total pre) (r_loc st) /\
    r_chash st = Some (sub b (data_total pre) (r_loc st)) /\
    (uflag hd = false -> r_fhash st = Some (takeN (data_total pre + r_loc st) b)) /\
    (pre = [] -> r_dict st = None) /\
    (imp = true -> r_dict st = None /\ (length pre <= 1)%nat) /\
    (imp = false -> pre <> [] ->
       if first_ulen hd =? 0 then r_dict st = None
       else exists d0 r, del ++ r_dc st = d0 ++ r /\ len d0 = first_ulen hd /\ r_dict st = Some d0).

Definition Jz (imp : bool) (del : bytes) (st : rstate) : Prop :=
  r_err st = 0 /\ r_started st = true /\ (NS del st \/ RUN imp del st).

Definition finished (st : rstate) : Prop :=
  (r_eof st = true /\ r_dc st = []) \/
  (exists c0, cks = [c0] /\ skip0 c0 = true /\ r_idx st = [] /\ r_eof st = false).

Lemma zstd_true : zstd hd = true.
Proof. exact Hz. Qed.

Lemma chunk_sizes pre c rest : cks = pre ++ c :: rest -> data_total pre + c_clen c < two64 /\ c_start c = data_total pre.
Proof.
  intros E. split.
  - pose proof Hsizes as Hs. rewrite E, data_total_app, data_total_cons in Hs. lia.
  - pose proof Hstarts as Hs. rewrite E in Hs. apply starts_ok_app in Hs. lia.
Qed.

Lemma hash_update_some acc msg : msg <> [] -> hash_update (Some acc) msg = Some (Some (acc ++ msg)).
Proof. destruct msg; [congruence|reflexivity]. Qed.
Lemma hash_update_nil acc : hash_update acc [] = None.
Proof. reflexivity. Qed.

(** closing a chunk / reading one block, from a running state whose decompressed buffer is empty *)
Lemma chunk_inv imp n del st out1 frd c next :
  0 < n -> r_err st = 0 -> r_started st = true -> RUN imp del st -> r_dc st = [] -> r_idx st = c :: next ->
  (imp = true -> len del < first_ulen hd) ->
  (imp = false -> first_ulen hd = 0 \/ r_dict st <> None) ->
  match step_chunk H zdecomp hd (negb imp) n st out1 frd with
  | SCont st' out' _ => out' = out1 /\ Jz imp del st' /\ r_dict st' = r_dict st
  | SDone (ROk _) _ => False
  | SDone (RErr _) st' => 0 < r_err st'
  | SDone RFuel _ => True
  end.
Proof.
  intros Hn He Hst (pre & Hck & Heof & Hver & Hloc & Hb & Hrest & Hdata & Hch & Hfh & Hpd & Himp & Husr) Hdc Hidx Hil Hu.
  dst st. subst idx dc err started. unfold cur_clen in Hloc. rsimpl.
  destruct (chunk_sizes pre c next Hck) as [Hlt Hstart].
  set (off := data_total pre) in *.
  unfold step_chunk. rsimpl.
  destruct (N.eqb_spec loc (c_clen c)) as [Hend|Hmid].
  - (* end of chunk *)
    subst loc. unfold end_dchunk, validate_current. rsimpl. rewrite Hch.
    assert (Hsto : stored b c = sub b off (c_clen c)) by (unfold stored; now rewrite Hstart).
    match goal with |- context [if ?ok then Some _ else None] => destruct ok eqn:Hok end; [|rsimpl; lia].
    assert (Hcok : forall fl, chunk_ok H hd b fl c = true).
    { intros fl. unfold chunk_ok. rewrite Hstart. fold off. apply andb_true_iff. split; [apply N.leb_le; exact Hb|].
      rewrite Hsto. destruct (c_clen c =? 0); [rewrite Hok; apply orb_true_r|exact Hok]. }
    unfold backend_end_dchunk. rewrite zstd_true. rsimpl.
    set (dict' := if negb imp then dict else None).
    assert (Hd' : dict' = if hflag true pre then None else dict).
    { unfold dict'. destruct pre as [|p0 pre0]; cbn [hflag].
      - rewrite (Hpd eq_refl). now destruct imp.
      - destruct imp; cbn [negb]; [|reflexivity]. now destruct (Himp eq_refl) as [-> _]. }
    destruct (zdecomp dict' data (c_ulen c)) as [d|] eqn:Ez; [|rsimpl; lia].
    destruct (N.eqb_spec (len d) (c_ulen c)) as [Hld|Hld]; [|rsimpl; lia].
    assert (Hdec : dec1 (hflag true pre) dict c = Some d).
    { unfold dec1. destruct (hflag true pre && skip0 c) eqn:Hsk.
      - apply andb_true_iff in Hsk. destruct Hsk as [_ Hsk]. unfold skip0 in Hsk. apply andb_true_iff in Hsk.
        destruct Hsk as [_ Hu0]. apply N.eqb_eq in Hu0. rewrite Hu0 in Hld. now rewrite (len_0_nil d Hld).
      - unfold decode_chunk. rewrite Hz, Hsto, <- Hdata, <- Hd', Ez. destruct (N.eqb_spec (len d) (c_ulen c)); [reflexivity|contradiction]. }
    assert (Hpre0 : imp = true -> pre = []).
    { intros Hi. destruct pre as [|p0 pre0]; [reflexivity|exfalso].
      destruct (Himp Hi) as [Hdn Hlen]. destruct pre0; [|cbn in Hlen; lia].
      specialize (Hil Hi). cbn [ver] in Hver. rewrite app_nil_r in Hver.
      destruct (chunk_ok H hd b true p0); [|discriminate].
      unfold dec1 in Hver. cbn [andb] in Hver.
      assert (Hfu : first_ulen hd = c_ulen p0) by (unfold first_ulen; now rewrite Hck).
      destruct (skip0 p0) eqn:Hsk.
      + unfold skip0 in Hsk. apply andb_true_iff in Hsk. destruct Hsk as [_ Hu0]. apply N.eqb_eq in Hu0. lia.
      + rewrite Hz in Hver. destruct (decode_chunk zdecomp true None p0 (stored b p0)) as [d0|] eqn:Ed0; [|discriminate].
        apply decode_zstd_len in Ed0. injection Hver as Hv. rewrite app_nil_r in Hv. subst d0. lia. }
    assert (Hnew : forall eof', (eof' = true <-> next = []) ->
              Jz imp del (mkR rest [] 0 next eof' ([] ++ d) 0 (Some []) fhash dict true 0)).
    { intros eof' Heof'. split; [reflexivity|]. split; [reflexivity|]. right. exists (pre ++ [c]). rsimpl.
      unfold cur_clen. rsimpl.
      rewrite data_total_app, data_total_cons. cbn [data_total fold_right]. fold off.
      replace (off + (c_clen c + 0) + 0) with (off + c_clen c) by lia.
      replace (off + (c_clen c + 0)) with (off + c_clen c) by lia.
      split; [now rewrite <- app_assoc|]. split; [exact Heof'|].
      split; [rewrite (ver_snoc true dict pre c _ d Hver (Hcok _) Hdec); now rewrite !app_nil_r|].
      split; [lia|]. split; [exact Hb|]. split; [exact Hrest|]. split; [reflexivity|]. split; [reflexivity|].
      split; [exact Hfh|]. split; [intros E; destruct pre; discriminate|].
      split.
      - intros Hi. split; [now destruct (Himp Hi)|]. rewrite (Hpre0 Hi). cbn. lia.
      - intros Hi _. destruct pre as [|p0 pre0].
        + rewrite (Hpd eq_refl) in *. destruct (Hu Hi) as [->|Hc]; [reflexivity|congruence].
        + specialize (Husr Hi ltac:(discriminate)). destruct (first_ulen hd =? 0); [exact Husr|].
          destruct Husr as (d0 & r & E1 & E2 & E3). exists d0, (r ++ d). rewrite app_nil_r in E1. cbn [app].
          rewrite E1, <- app_assoc. repeat split; assumption. }
    destruct next as [|c1 next1]; rsimpl; (split; [reflexivity|]); (split; [|reflexivity]); apply Hnew.
    + split; reflexivity.
    + destruct eof; [|split; discriminate]. destruct Heof as [Hx _]. specialize (Hx eq_refl). discriminate.
  - (* inside the chunk *)
    destruct frd; [rsimpl; lia|].
    cbv zeta. rsimpl. rewrite Hch.
    set (rs := if c_clen c <? loc + n then u64 (c_clen c + two64 - loc) else n).
    assert (Hrs : 0 < rs /\ rs <= c_clen c - loc).
    { unfold rs. destruct (N.ltb_spec (c_clen c) (loc + n)).
      - assert (Hl : c_clen c < two64) by lia. unfold u64, two64 in *. lia.
      - lia. }
    fold rs.
    remember (takeN rs rest) as src eqn:Esrc.
    assert (Hls : len src <= rs /\ data_total pre + loc + len src <= len b).
    { subst src rest. rewrite len_takeN, len_dropN. fold off. lia. }
    assert (Hfin : src <> [] ->
              Jz imp del (mkR (dropN rs rest) (data ++ src) (loc + len src) (c :: next) eof [] dcloc
                              (Some (sub b off loc ++ src))
                              (if uflag hd then fhash else Some (takeN (off + loc) b ++ src)) dict true 0)).
    { intros Hne. split; [reflexivity|]. split; [reflexivity|]. right. exists pre. rsimpl. unfold cur_clen. rsimpl. fold off.
      assert (E1 : dropN rs rest = dropN (off + (loc + len src)) b).
      { subst src rest. rewrite dropN_extend. f_equal. lia. }
      assert (E2 : sub b off loc ++ src = sub b off (loc + len src)).
      { subst src rest. apply sub_extend. }
      assert (E3 : takeN (off + loc) b ++ src = takeN (off + (loc + len src)) b).
      { subst src rest. rewrite takeN_extend. f_equal. lia. }
      split; [exact Hck|]. split; [exact Heof|]. split; [exact Hver|]. split; [lia|]. split; [lia|].
      split; [exact E1|]. split; [rewrite Hdata; exact E2|]. split; [now rewrite E2|].
      split; [intros Huf; rewrite Huf; now rewrite E3|].
      split; [exact Hpd|]. split; [exact Himp|exact Husr]. }
    destruct src as [|x src'].
    { destruct (uflag hd); cbn [hash_update]; rsimpl; lia. }
    specialize (Hfin ltac:(discriminate)).
    destruct (uflag hd) eqn:Huf.
    + cbn [hash_update]. rsimpl. split; [reflexivity|]. split; [exact Hfin|reflexivity].
    + rewrite (Hfh eq_refl) in *. cbn [hash_update]. rsimpl. split; [reflexivity|]. split; [exact Hfin|reflexivity].
Qed.

Lemma takeN_nil n : takeN n ([] : bytes) = [].
Proof. unfold takeN. apply firstn_nil. Qed.
Lemma dropN_nil n : dropN n ([] : bytes) = [].
Proof. unfold dropN. apply skipn_nil. Qed.

Lemma Jz_take imp del st dl x :
  Jz imp del st -> Jz imp (del ++ takeN dl (r_dc st)) (set_dc st (dropN dl (r_dc st)) x).
Proof.
  intros (He & Hs & HJ). split; [exact He|]. split; [exact Hs|]. destruct HJ as [HN|HR].
  - left. destruct HN as (A1 & A2 & A3 & A4 & A5 & A6 & A7 & A8 & A9). dst st. subst.
    rewrite takeN_nil, dropN_nil. repeat split; try reflexivity; assumption.
  - right. destruct HR as (pre & B1 & B2 & B3 & B4 & B5 & B6 & B7 & B8 & B9 & B10 & B11 & B12).
    exists pre. dst st. unfold cur_clen in *. rsimpl.
    rewrite <- app_assoc, take_drop. repeat split; try assumption; try apply B2; try apply B11; try assumption.
Qed.

Lemma step_inv imp n del0 st out frd :
  0 < n -> len out < n ->
  (imp = true -> n = first_ulen hd /\ del0 = []) ->
  (imp = false -> first_ulen hd = 0 \/ r_dict st <> None) ->
  Jz imp (del0 ++ out) st ->
  match comp_step H zdecomp hd (negb imp) n st out frd with
  | SCont st' out' _ => Jz imp (del0 ++ out') st' /\ len out' < n /\ r_dict st' = r_dict st
  | SDone (ROk o) st' => Jz imp (del0 ++ o) st' /\ r_dict st' = r_dict st /\ (len o < n -> finished st')
  | SDone (RErr _) st' => 0 < r_err st'
  | SDone RFuel _ => True
  end.
Proof.
  intros Hn Hlo Hi Hu HJ.
  unfold comp_step. cbv zeta.
  set (dl := N.min (n - len out) (len (r_dc st))).
  pose proof (Jz_take imp (del0 ++ out) st dl (r_dcloc st + dl) HJ) as HJ1.
  rewrite <- app_assoc in HJ1.
  set (out1 := out ++ takeN dl (r_dc st)) in *.
  set (st1 := set_dc st (dropN dl (r_dc st)) (r_dcloc st + dl)) in *.
  assert (Hd1 : r_dict st1 = r_dict st) by reflexivity.
  assert (Hl1 : len out1 <= n).
  { unfold out1. rewrite len_app, len_takeN. fold dl. lia. }
  destruct (N.eqb_spec (len out1) n) as [Hfull|Hnf].
  { split; [exact HJ1|]. split; [exact Hd1|]. lia. }
  destruct (N.ltb_spec 0 dl) as [Hdl|Hdl].
  { split; [exact HJ1|]. split; [lia|exact Hd1]. }
  assert (Hdc : r_dc st = []).
  { apply len_0_nil. unfold dl in Hdl. lia. }
  assert (Hdc1 : r_dc st1 = []) by (unfold st1; rsimpl; rewrite Hdc; apply dropN_nil).
  destruct (r_eof st1) eqn:Heof1.
  { split; [exact HJ1|]. split; [exact Hd1|]. intros _. left. split; assumption. }
  assert (Hdec : (if 0 <? len (r_data st1) then decompress hd st1 else st1) = st1).
  { unfold decompress. rewrite zstd_true. now destruct (0 <? len (r_data st1)). }
  rewrite Hdec. rewrite !N.eqb_refl. cbn [negb orb].
  rewrite <- Hd1 in Hu. rewrite <- Hd1.
  assert (Hil : imp = true -> len (del0 ++ out1) < first_ulen hd).
  { intros E. destruct (Hi E) as [-> ->]. cbn [app]. lia. }
  clearbody st1 out1. clear HJ Hdc Hdec Hd1 dl Hdl st.
  destruct HJ1 as (He & Hs & [HN|HR]).
  - (* not started: the first entry *)
    destruct HN as (A1 & A2 & A3 & A4 & A5 & A6 & A7 & A8 & A9).
    dst st1. subst idx eof loc data dc rest dict err started.
    unfold step_init. rsimpl.
    assert (Hex : exists c0 cs, h_chunks hd = c0 :: cs).
    { pose proof Hnonempty as Hq. destruct (h_chunks hd) as [|c0 cs]; [congruence|eauto]. }
    destruct Hex as (c0 & cs & Eck). rewrite Eck.
    apply app_eq_nil in A6. destruct A6 as [-> ->].
    change (0 <? 0) with false. cbv iota.
    destruct (chunk_sizes [] c0 cs Eck) as [_ Hst0]. cbn in Hst0.
    fold (skip0 c0).
    remember (if skip0 c0 then cs else c0 :: cs) as idx0 eqn:Eidx.
    set (pre := if skip0 c0 then [c0] else []).
    unfold set_chash, set_idx. rsimpl.
    set (st3 := mkR b [] 0 idx0 false [] dcloc (Some []) fhash None true 0).
    destruct idx0 as [|c next].
    { (* only an empty dictionary entry: return 0 *)
      unfold step_chunk. subst st3. rsimpl.
      destruct (skip0 c0) eqn:Hsk; [|discriminate]. subst cs.
      split; [|split; [reflexivity|]].
      - split; [reflexivity|]. split; [reflexivity|]. left. repeat split; try reflexivity. exact A8.
      - intros _. right. exists c0. repeat split; reflexivity || assumption. }
    assert (HR : RUN imp [] st3).
    { exists pre. subst st3. rsimpl. unfold cur_clen. rsimpl.
      assert (Ht : data_total pre = 0).
      { unfold pre. destruct (skip0 c0) eqn:Hsk; [|reflexivity]. unfold skip0 in Hsk. apply andb_true_iff in Hsk.
        destruct Hsk as [Hc0 _]. apply N.eqb_eq in Hc0. cbn. lia. }
      rewrite Ht. cbn [N.add].
      split. { rewrite Eidx, Eck. unfold pre. destruct (skip0 c0); reflexivity. }
      split. { split; discriminate. }
      split.
      { unfold pre. destruct (skip0 c0) eqn:Hsk; [|reflexivity]. cbn [ver]. unfold dec1. rewrite Hsk. cbn [andb].
        unfold chunk_ok. rewrite Hst0. unfold skip0 in Hsk. apply andb_true_iff in Hsk. destruct Hsk as [Hc0 Hu0].
        rewrite Hc0, Hu0. apply N.eqb_eq in Hc0. rewrite Hc0. cbn [N.add andb orb].
        destruct (N.leb_spec 0 (len b)); [reflexivity|lia]. }
      split; [lia|]. split; [lia|]. split; [reflexivity|]. split; [reflexivity|]. split; [reflexivity|].
      split; [exact A8|]. split; [reflexivity|]. split.
      - intros _. split; [reflexivity|]. unfold pre. destruct (skip0 c0); cbn; lia.
      - intros _ Hp. unfold pre in Hp. destruct (skip0 c0) eqn:Hsk; [|congruence].
        unfold skip0 in Hsk. apply andb_true_iff in Hsk. destruct Hsk as [_ Hu0].
        unfold first_ulen. rewrite Eck, Hu0. reflexivity. }
    pose proof (chunk_inv imp n [] st3 [] frd c next Hn eq_refl eq_refl HR eq_refl eq_refl) as Hc.
    cbn [app] in Hil. specialize (Hc Hil Hu).
    destruct (step_chunk H zdecomp hd (negb imp) n st3 [] frd) as [st' out' frd'|[o| |] st']; try exact Hc.
    + destruct Hc as (-> & Hc1 & Hc2). split; [exact Hc1|]. split; [lia|exact Hc2].
    + contradiction.
  - (* running *)
    assert (Hcopy := HR).
    destruct HR as (pre & B1 & B2 & _).
    destruct (r_idx st1) as [|c next] eqn:Eidx.
    { destruct B2 as [_ B2]. rewrite (B2 eq_refl) in Heof1. discriminate. }
    unfold step_init. rewrite Eidx.
    pose proof (chunk_inv imp n (del0 ++ out1) st1 out1 frd c next Hn He Hs Hcopy Hdc1 Eidx Hil Hu) as Hc.
    destruct (step_chunk H zdecomp hd (negb imp) n st1 out1 frd) as [st' out' frd'|[o| |] st']; try exact Hc.
    + destruct Hc as (-> & Hc1 & Hc2). split; [exact Hc1|]. split; [lia|exact Hc2].
    + contradiction.
Qed.

Lemma loop_inv imp n del0 fuel : forall st out frd,
  0 < n -> len out < n ->
  (imp = true -> n = first_ulen hd /\ del0 = []) ->
  (imp = false -> first_ulen hd = 0 \/ r_dict st <> None) ->
  Jz imp (del0 ++ out) st ->
  match comp_loop H zdecomp hd fuel (negb imp) n st out frd with
  | (ROk o, st') => Jz imp (del0 ++ o) st' /\ r_dict st' = r_dict st /\ (len o < n -> finished st')
  | (RErr _, st') => 0 < r_err st'
  | (RFuel, _) => True
  end.
Proof.
  induction fuel as [|fuel IH]; intros st out frd Hn Hlo Hi Hu HJ; cbn [comp_loop]; [exact I|].
  pose proof (step_inv imp n del0 st out frd Hn Hlo Hi Hu HJ) as Hs.
  destruct (comp_step H zdecomp hd (negb imp) n st out frd) as [st' out' frd'|[o| |] st']; try exact Hs.
  destruct Hs as (HJ' & Hlo' & Hd').
  assert (Hu' : imp = false -> first_ulen hd = 0 \/ r_dict st' <> None) by (rewrite Hd'; exact Hu).
  pose proof (IH st' out' frd' Hn Hlo' Hi Hu' HJ') as Hr.
  destruct (comp_loop H zdecomp hd fuel (negb imp) n st' out' frd') as [[o| |] st'']; try exact Hr.
  destruct Hr as (R1 & R2 & R3). split; [exact R1|]. split; [congruence|exact R3].
Qed.

Definition dpart (st : rstate) : bytes := match r_dict st with Some d => d | None => [] end.

(** between calls: nothing read yet, or a running stream whose released bytes are the
    dictionary part followed by what the user got *)
Definition CI (uout : bytes) (st : rstate) : Prop :=
  r_err st = 0 /\ r_started st = true /\
  ((NS [] st /\ uout = []) \/
   (RUN false (dpart st ++ uout) st /\ (first_ulen hd = 0 \/ r_dict st <> None))).

Lemma NS_any_imp imp st : Jz false [] st -> NS [] st -> Jz imp [] st.
Proof. intros (A & B & _) HN. split; [exact A|]. split; [exact B|]. now left. Qed.

Lemma import_inv fuel st :
  r_err st = 0 -> r_started st = true -> NS [] st -> 0 < first_ulen hd ->
  match import_dict H zdecomp hd fuel st with
  | (true, st') => exists d, r_dict st' = Some d /\ RUN false d st' /\ r_err st' = 0 /\ r_started st' = true
  | (false, st') => 0 < r_err st'
  end.
Proof.
  intros He Hs HN Hfu. unfold import_dict. rewrite He. change (0 <? 0) with false. cbv iota.
  destruct (N.eqb_spec (first_ulen hd) 0) as [E|_]; [lia|].
  unfold comp_read_nd. rewrite He, Hs. change (0 <? 0) with false. cbn [negb]. cbv iota.
  destruct (N.eqb_spec (first_ulen hd) 0) as [E|_]; [lia|].
  assert (HJ : Jz true ([] ++ []) st) by (split; [exact He|split; [exact Hs|now left]]).
  pose proof (loop_inv true (first_ulen hd) [] fuel st [] false Hfu ltac:(cbn; lia) ltac:(intros _; split; reflexivity)
                ltac:(intros; discriminate) HJ) as Hl.
  cbn [negb] in Hl.
  destruct (comp_loop H zdecomp hd fuel false (first_ulen hd) st [] false) as [[d| |] st1]; rsimpl; try lia.
  destruct Hl as (HJ1 & Hd1 & _). cbn [app] in HJ1.
  destruct (N.eqb_spec (len d) (first_ulen hd)) as [Hld|Hld]; [|rsimpl; lia].
  destruct HJ1 as (He1 & Hs1 & [HN1|HR1]).
  { destruct HN1 as (_ & _ & _ & _ & _ & Hd0 & _). subst d. cbn in Hld. lia. }
  unfold comp_reset, comp_init. rsimpl. rewrite He1. change (0 <? 0) with false. cbv iota. rsimpl.
  rewrite He1. change (0 <? 0) with false. cbv iota.
  exists d. rsimpl. split; [reflexivity|]. split; [|split; reflexivity].
  destruct HR1 as (pre & B1 & B2 & B3 & B4 & B5 & B6 & B7 & B8 & B9 & B10 & B11 & B12).
  destruct (B11 eq_refl) as [Hdn Hlp].
  (* exactly the dictionary entry has been consumed, and nothing is left in the buffer *)
  destruct pre as [|p0 pre0].
  { cbn [ver] in B3. injection B3 as B3. symmetry in B3. apply app_eq_nil in B3. destruct B3 as [-> _]. cbn in Hld. lia. }
  destruct pre0; [|cbn in Hlp; lia].
  assert (Hfu0 : first_ulen hd = c_ulen p0) by (unfold first_ulen; now rewrite B1).
  assert (Hdc : r_dc st1 = [] /\ ver true (Some d) [p0] = Some (d ++ [])).
  { rewrite Hdn in B3. rewrite (ver_first_dict (Some d) None). cbn [ver] in B3 |- *.
    destruct (chunk_ok H hd b true p0); [|discriminate]. unfold dec1 in *. cbn [andb] in *.
    destruct (skip0 p0) eqn:Hsk.
    - unfold skip0 in Hsk. apply andb_true_iff in Hsk. destruct Hsk as [_ Hu0]. apply N.eqb_eq in Hu0. lia.
    - rewrite Hz in *. destruct (decode_chunk zdecomp true None p0 (stored b p0)) as [d0|] eqn:Ed0; [|discriminate].
      apply decode_zstd_len in Ed0. injection B3 as B3. rewrite app_nil_r in B3.
      assert (Hl : len d0 = len d + len (r_dc st1)) by (rewrite B3, len_app; reflexivity).
      assert (Hdc0 : r_dc st1 = []) by (apply len_0_nil; lia).
      rewrite Hdc0, app_nil_r in B3. subst d0. split; [exact Hdc0|now rewrite !app_nil_r]. }
  destruct Hdc as [Hdc Hver].
  exists [p0]. dst st1. unfold cur_clen in *. rsimpl. subst dc.
  repeat split; try assumption; try apply B2; try (intros; discriminate).
  intros _ _. destruct (N.eqb_spec (first_ulen hd) 0) as [E|_]; [lia|].
  exists d, []. split; [reflexivity|]. split; [exact Hld|reflexivity].
Qed.

Lemma read_inv fuel st n uout :
  0 < n -> CI uout st ->
  match zck_read H zdecomp hd fuel st n with
  | (ROk o, st') => CI (uout ++ o) st' /\ (len o < n -> finished st')
  | (RErr _, st') => 0 < r_err st'
  | (RFuel, _) => True
  end.
Proof.
  intros Hn (He & Hs & HC). unfold zck_read, comp_read. rewrite He, Hs. change (0 <? 0) with false. cbn [negb]. cbv iota.
  destruct (N.eqb_spec n 0) as [E|_]; [lia|]. cbn [andb].
  destruct ((0 <? first_ulen hd) && match r_dict st with None => true | Some _ => false end) eqn:Hcond.
  - (* the dictionary is imported first *)
    apply andb_true_iff in Hcond. destruct Hcond as [Hfu Hdn]. apply N.ltb_lt in Hfu.
    destruct (r_dict st) eqn:Ed; [discriminate|].
    destruct HC as [[HN ->]|[_ [Hc|Hc]]]; [|lia|congruence].
    pose proof (import_inv fuel st He Hs HN Hfu) as Hi.
    destruct (import_dict H zdecomp hd fuel st) as [[|] st1]; [|exact Hi].
    destruct Hi as (d & Hd & HR & He1 & Hs1).
    assert (HJ : Jz false (d ++ []) st1) by (rewrite app_nil_r; split; [exact He1|split; [exact Hs1|now right]]).
    pose proof (loop_inv false n d fuel st1 [] false Hn ltac:(cbn; lia) ltac:(intros; discriminate)
                  ltac:(intros _; right; congruence) HJ) as Hl.
    cbn [negb] in Hl.
    destruct (comp_loop H zdecomp hd fuel true n st1 [] false) as [[o| |] st2]; try exact Hl.
    destruct Hl as ((He2 & Hs2 & HJ2) & Hd2 & Hf). split; [|exact Hf].
    split; [exact He2|]. split; [exact Hs2|]. right.
    destruct HJ2 as [HN2|HR2].
    { destruct HN2 as (_ & _ & _ & _ & _ & _ & _ & _ & Hx). congruence. }
    unfold dpart. rewrite Hd2, Hd. cbn [app]. split; [exact HR2|right; congruence].
  - (* plain read *)
    assert (Hu : false = false -> first_ulen hd = 0 \/ r_dict st <> None).
    { intros _. apply andb_false_iff in Hcond. destruct Hcond as [Hc|Hc].
      - left. apply N.ltb_ge in Hc. lia.
      - right. destruct (r_dict st); [discriminate|discriminate]. }
    assert (HJ : Jz false ((dpart st ++ uout) ++ []) st).
    { rewrite app_nil_r. split; [exact He|]. split; [exact Hs|]. destruct HC as [[HN ->]|[HR _]].
      - left. destruct HN as (A1 & A2 & A3 & A4 & A5 & A6 & A7 & A8 & A9). unfold dpart. rewrite A9.
        repeat split; assumption.
      - now right. }
    pose proof (loop_inv false n (dpart st ++ uout) fuel st [] false Hn ltac:(cbn; lia) ltac:(intros; discriminate) Hu HJ) as Hl.
    cbn [negb] in Hl.
    destruct (comp_loop H zdecomp hd fuel true n st [] false) as [[o| |] st2]; try exact Hl.
    destruct Hl as ((He2 & Hs2 & HJ2) & Hd2 & Hf). split; [|exact Hf].
    split; [exact He2|]. split; [exact Hs2|].
    destruct HJ2 as [HN2|HR2].
    + left. destruct HN2 as (A1 & A2 & A3 & A4 & A5 & A6 & A7 & A8 & A9).
      apply app_eq_nil in A6. destruct A6 as [A6 ->]. apply app_eq_nil in A6. destruct A6 as [_ ->].
      split; [|reflexivity]. repeat split; assumption.
    + right. unfold dpart in *. rewrite Hd2. rewrite <- app_assoc in HR2. split; [exact HR2|].
      now apply Hu.
Qed.

Lemma read_all_inv fuel : forall sizes st acc out st',
  Forall (fun n => 0 < n) sizes -> CI acc st ->
  read_all H zdecomp hd fuel st sizes acc = (out, Some true, st') -> CI out st' /\ finished st'.
Proof.
  induction sizes as [|n sizes IH]; intros st acc out st' Hpos HC E; cbn [read_all] in E; [discriminate|].
  inversion Hpos as [|? ? Hn Hpos']; subst.
  pose proof (read_inv fuel st n acc Hn HC) as Hr.
  destruct (zck_read H zdecomp hd fuel st n) as [[o| |] st1]; try discriminate.
  destruct Hr as [HC1 Hf]. destruct o as [|x o].
  - injection E as <- <-. rewrite app_nil_r in HC1. split; [exact HC1|]. apply Hf. cbn. exact Hn.
  - apply (IH st1 (acc ++ x :: o) out st' Hpos' HC1 E).
Qed.

Lemma open_CI : CI [] (open_state hd f).
Proof.
  split; [reflexivity|]. split; [reflexivity|]. left. split; [|reflexivity].
  unfold NS, open_state. rsimpl. repeat split; reflexivity.
Qed.

(** what a finished stream and a successful close say about the file *)
Lemma final_spec out st st2 :
  CI out st -> finished st -> zck_close H hd st = (true, st2) ->
  spec_verify H hd f = true /\ spec_decode zdecomp hd f = Some out.
Proof.
  intros (He & Hs & HC) Hfin Hcl.
  unfold zck_close in Hcl. rewrite He in Hcl. change (0 <? 0) with false in Hcl. cbv iota in Hcl.
  destruct HC as [[HN ->]|[HR Hu]].
  - (* nothing was ever read: the table is one empty dictionary entry *)
    destruct HN as (A1 & A2 & A3 & A4 & A5 & A6 & A7 & A8 & A9).
    destruct Hfin as [[Hx _]|(c0 & Eck & Hsk & _)]; [congruence|].
    destruct (chunk_sizes [] c0 [] Eck) as [_ Hst0]. cbn in Hst0.
    unfold skip0 in Hsk. apply andb_true_iff in Hsk. destruct Hsk as [Hc0 Hu0].
    unfold spec_verify, chunks_ok, data_ok, spec_decode, spec_dict. rewrite Eck. cbn [forallb tl data_total fold_right decode_all].
    unfold chunk_ok. rewrite Hst0, Hc0, Hu0. apply N.eqb_eq in Hc0. rewrite Hc0. cbn [N.add andb orb].
    split; [|reflexivity].
    destruct (N.leb_spec 0 (len b)); [|lia]. cbn [andb].
    destruct (uflag hd) eqn:Huf; [reflexivity|]. cbn [orb]. rewrite (A8 eq_refl) in Hcl. injection Hcl as Hcl _. exact Hcl.
  - destruct Hfin as [[Heof Hdc]|(c0 & _ & _ & Hidx & Heof)].
    2:{ destruct HR as (pre & _ & B2 & _). destruct B2 as [_ B2]. rewrite (B2 Hidx) in Heof. discriminate. }
    destruct HR as (pre & B1 & B2 & B3 & B4 & B5 & B6 & B7 & B8 & B9 & B10 & B11 & B12).
    destruct B2 as [B2 _]. specialize (B2 Heof). rewrite B2, app_nil_r in B1. subst pre.
    unfold cur_clen in B4. rewrite B2 in B4. assert (Hl0 : r_loc st = 0) by lia. rewrite Hl0, N.add_0_r in *.
    rewrite Hdc, app_nil_r in B3, B12.
    assert (Hex : exists c0 cs, h_chunks hd = c0 :: cs).
    { pose proof Hnonempty as Hq. destruct (h_chunks hd) as [|c0 cs]; [congruence|eauto]. }
    destruct Hex as (c0 & cs & Eck).
    pose proof (ver_chunks_ok true (r_dict st) cks _ B3) as Hok. rewrite Eck in Hok, B3.
    assert (Hdat : data_ok H hd b = true).
    { unfold data_ok. apply andb_true_iff. split; [apply N.leb_le; exact B5|].
      destruct (uflag hd) eqn:Huf; [reflexivity|]. cbn [orb]. rewrite (B9 eq_refl) in Hcl. injection Hcl as Hcl _. exact Hcl. }
    split.
    { unfold spec_verify, chunks_ok. rewrite Eck. destruct Hok as [-> ->]. exact Hdat. }
    unfold spec_decode, spec_dict. rewrite Eck. cbn [tl].
    cbn [ver] in B3. destruct (chunk_ok H hd b true c0); [|discriminate].
    destruct (dec1 true (r_dict st) c0) as [d0|] eqn:Ed0; [|discriminate].
    destruct (ver false (r_dict st) cs) as [r|] eqn:Er; [|discriminate].
    injection B3 as B3. apply ver_decode_all in Er.
    assert (Hfu0 : first_ulen hd = c_ulen c0) by (unfold first_ulen; now rewrite Eck).
    assert (Hpne : c0 :: cs <> []) by discriminate. rewrite <- Eck in Hpne.
    specialize (B12 eq_refl Hpne).
    unfold dec1 in Ed0. cbn [andb] in Ed0. fold (skip0 c0). destruct (skip0 c0) eqn:Hsk.
    + injection Ed0 as <-. unfold skip0 in Hsk. apply andb_true_iff in Hsk. destruct Hsk as [_ Hu0].
      rewrite Hfu0, Hu0 in B12. unfold dpart in B3. rewrite B12 in *. cbn [app] in B3. now subst r.
    + rewrite Hz in *. rewrite Ed0. pose proof (decode_zstd_len _ _ _ _ Ed0) as Hl.
      rewrite Hfu0 in B12. destruct (N.eqb_spec (c_ulen c0) 0) as [E0|E0].
      * rewrite B12 in *. unfold dpart in B3. rewrite B12 in B3. cbn [app] in B3.
        rewrite E0 in Hl. rewrite (len_0_nil d0 Hl) in B3. cbn [app] in B3. now subst r.
      * destruct B12 as (d1 & r1 & E1 & E2 & E3). unfold dpart in B3, E1. rewrite E3 in B3, E1, Er.
        assert (d1 = d0 /\ out = r).
        { assert (Hd : takeN (c_ulen c0) (d1 ++ out) = takeN (c_ulen c0) (d0 ++ r)) by (now rewrite B3).
          rewrite !takeN_app_exact in Hd by assumption. subst d1. split; [reflexivity|].
          now apply app_inv_head in B3. }
        destruct H0 as [-> ->]. exact Er.
Qed.

(** ** T2.1 (unit-decoded files) *)
Theorem read_close_zstd fuel sizes out st' st2 :
  Forall (fun n => 0 < n) sizes ->
  read_all H zdecomp hd fuel (open_state hd f) sizes [] = (out, Some true, st') ->
  zck_close H hd st' = (true, st2) ->
  spec_verify H hd f = true /\ spec_decode zdecomp hd f = Some out.
Proof.
  intros Hpos Er Hc. destruct (read_all_inv fuel sizes _ _ _ _ Hpos open_CI Er) as [HC Hf].
  exact (final_spec out st' st2 HC Hf Hc).
Qed.

(** ** T2.3 the unzck loop *)
Theorem unzck_zstd fuel calls vdc out :
  (forall v st', vdc (open_state hd f) = (v, st') -> (1 <= v)%Z -> st' = open_state hd f) ->
  unzck_model H zdecomp hd f fuel calls vdc = (0, Some out) ->
  spec_verify H hd f = true /\ spec_decode zdecomp hd f = Some out.
Proof.
  intros Hv E. unfold unzck_model in E. destruct (vdc (open_state hd f)) as [v st1] eqn:Ev.
  destruct (Z.ltb_spec v 1); [discriminate|]. rewrite (Hv v st1 eq_refl ltac:(lia)) in E.
  destruct (read_all H zdecomp hd fuel (open_state hd f) (repeat BUF_SIZE calls) []) as [[o [[|]|]] st2] eqn:Er; try discriminate.
  destruct (zck_close H hd st2) as [[|] st3] eqn:Ec; [|discriminate]. injection E as <-.
  apply (read_close_zstd fuel (repeat BUF_SIZE calls) o st2 st3); [|exact Er|exact Ec].
  apply Forall_forall. intros x Hx. apply repeat_spec in Hx. subst x. reflexivity.
Qed.

(** ** T15.1 only verified chunks are released; a failed read is final *)
Definition VP (uout : bytes) : Prop :=
  exists dv pre rest dp more, cks = pre ++ rest /\ ver true dv pre = Some (dp ++ uout ++ more).

Lemma CI_VP uout st : CI uout st -> VP uout.
Proof.
  intros (_ & _ & [[HN ->]|[(pre & B1 & _ & B3 & _) _]]).
  - exists None, [], cks, [], []. split; reflexivity.
  - exists (r_dict st), pre, (r_idx st), (dpart st), (r_dc st). split; [exact B1|]. now rewrite <- app_assoc in B3.
Qed.

Fixpoint sticky (rs : list rres) : Prop :=
  match rs with
  | [] => True
  | RErr _ :: t => Forall (fun r => r = RErr (-1)) t
  | _ :: t => sticky t
  end.

Lemma reads_err fuel : forall sizes st rs st',
  0 < r_err st -> reads H zdecomp hd fuel st sizes = (rs, st') ->
  Forall (fun r => r = RErr (-1)) rs /\ outs rs = [].
Proof.
  induction sizes as [|n sizes IH]; intros st rs st' He E; cbn [reads] in E.
  - injection E as <- <-. split; [constructor|reflexivity].
  - unfold zck_read, comp_read in E. apply N.ltb_lt in He. rewrite He in E. apply N.ltb_lt in He.
    destruct (reads H zdecomp hd fuel st sizes) as [rs1 st1] eqn:Er. injection E as <- <-.
    destruct (IH st rs1 st1 He Er) as [F1 F2]. split; [constructor; [reflexivity|exact F1]|exact F2].
Qed.

Lemma reads_inv fuel : forall sizes st uout rs st',
  Forall (fun n => 0 < n) sizes -> CI uout st ->
  reads H zdecomp hd fuel st sizes = (rs, st') -> ~ In RFuel rs ->
  VP (uout ++ outs rs) /\ sticky rs.
Proof.
  induction sizes as [|n sizes IH]; intros st uout rs st' Hpos HC E Hnf; cbn [reads] in E.
  - injection E as <- <-. cbn [outs]. rewrite app_nil_r. split; [exact (CI_VP _ _ HC)|exact I].
  - inversion Hpos as [|? ? Hn Hpos']; subst.
    pose proof (read_inv fuel st n uout Hn HC) as Hr.
    destruct (zck_read H zdecomp hd fuel st n) as [r st1].
    destruct (reads H zdecomp hd fuel st1 sizes) as [rs1 st2] eqn:Er. injection E as <- <-.
    destruct r as [o| |].
    + destruct Hr as [HC1 _]. cbn [outs sticky]. rewrite app_assoc.
      apply (IH st1 (uout ++ o) rs1 st2 Hpos' HC1 Er). intros Hin. apply Hnf. now right.
    + destruct (reads_err fuel sizes st1 rs1 st2 Hr Er) as [F1 F2]. cbn [outs sticky]. rewrite F2, app_nil_r.
      split; [exact (CI_VP _ _ HC)|exact F1].
    + exfalso. apply Hnf. now left.
Qed.

Lemma ver_hashes first dv pre S :
  ver first dv pre = Some S ->
  Forall (fun c => c_clen c <> 0 -> H (h_chash hd) (stored b c) = c_digest c) pre.
Proof.
  revert first S. induction pre as [|c pre IH]; intros first S E; [constructor|].
  cbn [ver] in E. destruct (chunk_ok H hd b first c) eqn:Ec; [|discriminate].
  destruct (dec1 first dv c); [|discriminate]. destruct (ver false dv pre) as [r|] eqn:Er; [|discriminate].
  constructor; [|exact (IH false r Er)].
  intros Hc. unfold chunk_ok in Ec. apply andb_true_iff in Ec. destruct Ec as [_ Ec].
  destruct (N.eqb_spec (c_clen c) 0); [contradiction|]. now apply bytes_eqb_eq.
Qed.

Theorem verified_before_release fuel sizes rs st' :
  Forall (fun n => 0 < n) sizes ->
  reads H zdecomp hd fuel (open_state hd f) sizes = (rs, st') -> ~ In RFuel rs ->
  VP (outs rs) /\ sticky rs.
Proof. intros Hp E Hnf. exact (reads_inv fuel sizes _ [] rs st' Hp open_CI E Hnf). Qed.
End Proofs.

(** what the header layer (property C13) guarantees about an accepted header *)
Lemma header_facts H p f h :
  wf_bytes f -> Format.ParseImpl.parse_impl H p f = Format.ParseImpl.POk h ->
  starts_ok 0 (h_chunks h) /\ data_total (h_chunks h) < two64 /\ h_chunks h <> [].
Proof.
  intros Hwf E. destruct (parse_impl_count_starts H p f h Hwf E) as (A1 & A2 & A3 & A4 & _).
  split; [exact A3|]. split.
  - unfold SSIZE_MAX, two64 in *. lia.
  - intros Hn. rewrite Hn in A1. cbn in A1. lia.
Qed.

(** T2.2 on the specification side: a decodable table has every entry decode to its declared size *)
Lemma decode_all_sizes zdecomp zs dict bb cs r :
  decode_all zdecomp zs dict bb cs = Some r ->
  Forall (fun c => exists d, decode_chunk zdecomp zs dict c (stored bb c) = Some d /\
                             (if zs then len d = c_ulen c else c_ulen c = c_clen c /\ d = stored bb c)) cs.
Proof.
  revert r. induction cs as [|c cs IH]; intros r E; [constructor|]. cbn [decode_all] in E.
  destruct (decode_chunk zdecomp zs dict c (stored bb c)) as [d|] eqn:Ed; [|discriminate].
  destruct (decode_all zdecomp zs dict bb cs) as [r'|] eqn:Er; [|discriminate].
  constructor; [|exact (IH r' eq_refl)]. exists d. split; [exact Ed|].
  unfold decode_chunk in Ed. destruct zs.
  - destruct (zdecomp dict (stored bb c) (c_ulen c)) as [x|]; [|discriminate].
    destruct (N.eqb_spec (len x) (c_ulen c)); [|discriminate]. congruence.
  - destruct (N.eqb_spec (c_ulen c) (c_clen c)); [|discriminate]. split; [assumption|congruence].
Qed.
