(** Reader side, IMPLEMENTATION model: a transcription of the read path of
    src/lib/comp/comp.c (comp_read and its helpers, zck_read, zck_get_chunk_data,
    zck_get_chunk_comp_data), src/lib/zck.c (import_dict, zck_close in read mode),
    src/lib/hash/hash.c (validate_chunk, validate_file), src/lib/comp/zstd/zstd.c and
    nocomp.c (decompress / end_dchunk) and src/lib/io.c (read_data, seek_data), as the
    code stands after the reader fixes.  Definitions only.

    Conventions.  The file descriptor is the list of bytes from the current position on
    ([r_rest]); seeking recomputes it from the whole file.  [comp.data] (with
    data_size = its length; NULL = empty), the unread part of [dc_data] together with
    [dc_data_loc], the chunk list suffix standing for the [data_idx] pointer (NULL = []),
    the two running hashes as the bytes fed so far ([None] = no context), the dictionary,
    [comp.started] and [error_state] make up the state.  Reads are fault free: a request
    returns min(requested, available) bytes (I/O faults belong to property C12).
    Not modelled: allocation failure, zstd context creation failure.
    The per-chunk [valid] mark (zckChunk.valid) is NOT part of the state: nothing on the read
    path reads it (validate_chunk only writes it), so the calls that set it without reading
    through this path - zck_find_matching_chunks, zck_find_valid_chunks, zck_validate_checksums -
    leave the reader state of the model as it is (the correspondence run pairs contexts and
    runs these calls before reads and requests to check exactly that). *)
From ZV Require Import Base.Bytes Gen.GenConsts Format.Compint Format.Header Read.ReadSpec.
Local Open Scope N_scope.

Record rstate := mkR {
  r_rest : bytes;            (* file content from the current offset on *)
  r_data : bytes;            (* comp.data / data_size *)
  r_loc : N;                 (* comp.data_loc *)
  r_idx : list chunk;        (* comp.data_idx: the entries from the pointer on; [] = NULL *)
  r_eof : bool;              (* comp.data_eof *)
  r_dc : bytes;              (* dc_data + dc_data_loc .. dc_data + dc_data_size *)
  r_dcloc : N;               (* dc_data_loc *)
  r_chash : option bytes;    (* check_chunk_hash *)
  r_fhash : option bytes;    (* check_full_hash *)
  r_dict : option bytes;     (* comp.dict (dict_size > 0) *)
  r_started : bool;          (* comp.started *)
  r_err : N                  (* error_state *)
}.

Definition set_rest st v := mkR v (r_data st) (r_loc st) (r_idx st) (r_eof st) (r_dc st) (r_dcloc st) (r_chash st) (r_fhash st) (r_dict st) (r_started st) (r_err st).
Definition set_data st v l := mkR (r_rest st) v l (r_idx st) (r_eof st) (r_dc st) (r_dcloc st) (r_chash st) (r_fhash st) (r_dict st) (r_started st) (r_err st).
Definition set_idx st v := mkR (r_rest st) (r_data st) (r_loc st) v (r_eof st) (r_dc st) (r_dcloc st) (r_chash st) (r_fhash st) (r_dict st) (r_started st) (r_err st).
Definition set_eof st v := mkR (r_rest st) (r_data st) (r_loc st) (r_idx st) v (r_dc st) (r_dcloc st) (r_chash st) (r_fhash st) (r_dict st) (r_started st) (r_err st).
Definition set_dc st v l := mkR (r_rest st) (r_data st) (r_loc st) (r_idx st) (r_eof st) v l (r_chash st) (r_fhash st) (r_dict st) (r_started st) (r_err st).
Definition set_chash st v := mkR (r_rest st) (r_data st) (r_loc st) (r_idx st) (r_eof st) (r_dc st) (r_dcloc st) v (r_fhash st) (r_dict st) (r_started st) (r_err st).
Definition set_fhash st v := mkR (r_rest st) (r_data st) (r_loc st) (r_idx st) (r_eof st) (r_dc st) (r_dcloc st) (r_chash st) v (r_dict st) (r_started st) (r_err st).
Definition set_dict st v := mkR (r_rest st) (r_data st) (r_loc st) (r_idx st) (r_eof st) (r_dc st) (r_dcloc st) (r_chash st) (r_fhash st) v (r_started st) (r_err st).
Definition set_started st v := mkR (r_rest st) (r_data st) (r_loc st) (r_idx st) (r_eof st) (r_dc st) (r_dcloc st) (r_chash st) (r_fhash st) (r_dict st) v (r_err st).
(** set_error: error_state = 1 (also when it was 2); set_fatal_error: 2 *)
Definition set_err st v := mkR (r_rest st) (r_data st) (r_loc st) (r_idx st) (r_eof st) (r_dc st) (r_dcloc st) (r_chash st) (r_fhash st) (r_dict st) (r_started st) v.

(** result of a read-like call: bytes handed out (return value = their number), an
    error return value, or the model's loop fuel ran out *)
Inductive rres := ROk (out : bytes) | RErr (code : Z) | RFuel.

(** one iteration of the while loop of comp_read *)
Inductive sres := SCont (st : rstate) (out : bytes) (finished_rd : bool) | SDone (r : rres) (st : rstate).

Section Impl.
Variable H : N -> bytes -> bytes.
Variable zdecomp : option bytes -> bytes -> N -> option bytes.
Variable hd : header.
Variable f : bytes.

Definition data_offset : N := h_lead hd + h_hlen hd.
Definition zstd : bool := is_zstd hd.

(** seek_data(zck, off, SEEK_SET) *)
Definition seek (st : rstate) (off : N) : rstate := set_rest st (dropN off f).

(** hash_update(zck, hash, msg, size) with a non-NULL msg: size 0 is an error, so is a
    missing context; returns the new accumulator *)
Definition hash_update (acc : option bytes) (msg : bytes) : option (option bytes) :=
  match msg, acc with
  | [], _ => None
  | _, Some a => Some (Some (a ++ msg))
  | _, None => None
  end.

(** comp_add_to_dc *)
Definition add_to_dc (st : rstate) (src : bytes) : rstate := set_dc st (r_dc st ++ src) 0.

(** comp.decompress: nocomp hands comp.data over to the decompressed side, zstd waits
    for the end of the chunk *)
Definition decompress (st : rstate) : rstate :=
  if zstd then st else add_to_dc (set_data st [] (r_loc st)) (r_data st).

(** validate_current_chunk + the set_error of comp_end_dchunk: Some st' = verified *)
Definition validate_current (st : rstate) (c : chunk) : option rstate :=
  match r_chash st with
  | None => None                                  (* "Hash hasn't been initialized" *)
  | Some acc =>
      let ok := if c_clen c =? 0 then all_zero (c_digest c)
                else bytes_eqb (H (h_chash hd) acc) (c_digest c) in
      if ok then Some (set_chash st None) else None
  end.

(** comp.end_dchunk: (Some st', _) = success, (None, st') = (fatal) error; the zstd backend
    has given up comp.data in both cases *)
Definition backend_end_dchunk (st : rstate) (use_dict : bool) (fd_size : N) : option rstate * rstate :=
  if zstd then
    let st0 := set_data st [] (r_loc st) in
    match zdecomp (if use_dict then r_dict st else None) (r_data st) fd_size with
    | Some d => if len d =? fd_size then (Some (add_to_dc st0 d), st0) else (None, st0)
    | None => (None, st0)
    end
  else if r_loc st =? fd_size then (Some st, st) else (None, st).

(** comp_end_dchunk: verify, decompress, advance *)
Definition end_dchunk (st : rstate) (use_dict : bool) (c : chunk) (next : list chunk) : option rstate * rstate :=
  match validate_current st c with
  | None => (None, set_err (set_chash st None) 1)
  | Some st1 =>
      match backend_end_dchunk st1 use_dict (c_ulen c) with
      | (None, ste) => (None, set_err ste 2)
      | (Some st2, _) => (Some (set_chash (set_idx (set_data st2 (r_data st2) 0) next) (Some [])), st2)
      end
  end.

(** the "data_idx == NULL" block: start with the first entry; inl = go on, inr = hash error *)
Definition step_init (st2 : rstate) : rstate + rstate :=
  match r_idx st2 with
  | _ :: _ => inl st2
  | [] =>
      let idx0 := match h_chunks hd with
                  | c0 :: cs => if (c_clen c0 =? 0) && (c_ulen c0 =? 0) then cs else c0 :: cs
                  | [] => []
                  end in
      let st3 := set_chash (set_idx st2 idx0) (Some []) in
      if 0 <? r_loc st3 then
        match r_data st3 with
        | [] => inr st3                            (* hash_update(NULL, n > 0) *)
        | _ => let blk := takeN (r_loc st3) (r_data st3) in
               match (if uflag hd then Some (r_fhash st3) else hash_update (r_fhash st3) blk) with
               | Some fh => match hash_update (r_chash st3) blk with
                            | Some ch => inl (set_chash (set_fhash st3 fh) ch)
                            | None => inr (set_fhash st3 fh)
                            end
               | None => inr st3
               end
        end
      else inl st3
  end.

(** the rest of the loop body: end of chunk, or one bounded read from the file *)
Definition step_chunk (use_dict : bool) (dst_size : N) (st3 : rstate) (out1 : bytes) (frd : bool) : sres :=
  match r_idx st3 with
  | [] => SDone (ROk []) st3                      (* return 0 *)
  | c :: next =>
    if r_loc st3 =? c_clen c then
      match end_dchunk st3 use_dict c next with
      | (None, ste) => SDone (RErr (-1)) ste
      | (Some st4, _) => SCont (match next with [] => set_eof st4 true | _ => st4 end) out1 frd
      end
    else if frd then SDone (RErr (-1)) (set_err st3 1)       (* file ended inside the chunk *)
    else
      (* bounded read from the file *)
      let rs := if c_clen c <? r_loc st3 + dst_size then u64 (c_clen c + two64 - r_loc st3) else dst_size in
      let src := takeN rs (r_rest st3) in
      let st4 := set_rest st3 (dropN rs (r_rest st3)) in
      let frd' := len src <? rs in
      let st5 := match r_chash st4 with None => set_chash st4 (Some []) | Some _ => st4 end in
      match (if uflag hd then Some (r_fhash st5) else hash_update (r_fhash st5) src) with
      | None => SDone (RErr (-1)) (set_err st5 1)
      | Some fh =>
          let st6 := set_fhash st5 fh in
          match hash_update (r_chash st6) src with
          | None => SDone (RErr (-1)) (set_err st6 1)
          | Some ch =>
              let st7 := set_chash st6 ch in
              (* comp_add_to_data *)
              SCont (set_data st7 (r_data st7 ++ src) (r_loc st7 + len src)) out1 frd'
          end
      end
  end.

Definition comp_step (use_dict : bool) (dst_size : N) (st : rstate) (out : bytes) (frd : bool) : sres :=
  (* comp_read_from_dc *)
  let need := dst_size - len out in
  let dl := N.min need (len (r_dc st)) in
  let st1 := set_dc st (dropN dl (r_dc st)) (r_dcloc st + dl) in
  let out1 := out ++ takeN dl (r_dc st) in
  if len out1 =? dst_size then SDone (ROk out1) st1
  else if 0 <? dl then SCont st1 out1 frd
  else if r_eof st1 then SDone (ROk out1) st1
  else
  (* decompress what is buffered *)
  let st2 := if 0 <? len (r_data st1) then decompress st1 else st1 in
  if negb (r_dcloc st2 + len (r_dc st2) =? r_dcloc st1 + len (r_dc st1)) || negb (r_dcloc st2 =? r_dcloc st1)
  then SCont st2 out1 frd
  else
  match step_init st2 with
  | inr ste => SDone (RErr (-2)) (set_err ste 1)
  | inl st3 => step_chunk use_dict dst_size st3 out1 frd
  end.

Fixpoint comp_loop (fuel : nat) (use_dict : bool) (dst_size : N) (st : rstate) (out : bytes) (frd : bool)
  : rres * rstate :=
  match fuel with
  | O => (RFuel, st)
  | S k =>
      match comp_step use_dict dst_size st out frd with
      | SDone r st' => (r, st')
      | SCont st' out' frd' => comp_loop k use_dict dst_size st' out' frd'
      end
  end.

(** comp_read without the dictionary import (use_dict = 0, or nothing to import) *)
Definition comp_read_nd (fuel : nat) (st : rstate) (dst_size : N) (use_dict : bool) : rres * rstate :=
  if 0 <? r_err st then (RErr (-1), st)
  else if negb (r_started st) then (RErr (-1), set_err st 1)
  else if dst_size =? 0 then (ROk [], st)
  else comp_loop fuel use_dict dst_size st [] false.

(** comp_reset; comp_init in read mode *)
Definition comp_reset (st : rstate) : rstate := set_dc (set_started st false) [] 0.
Definition comp_init (st : rstate) : option rstate :=
  if 0 <? r_err st then None
  else if r_started st then None
  else Some (set_started st true).

Definition first_ulen : N := match h_chunks hd with c0 :: _ => c_ulen c0 | [] => 0 end.

(** import_dict: (true, st') = success *)
Definition import_dict (fuel : nat) (st : rstate) : bool * rstate :=
  if 0 <? r_err st then (false, st)
  else if first_ulen =? 0 then (true, st)
  else match comp_read_nd fuel st first_ulen false with
       | (ROk d, st1) =>
           if len d =? first_ulen then
             let st2 := comp_reset st1 in
             if 0 <? r_err st2 then (false, st2)          (* comp_soption: VALIDATE_BOOL *)
             else match comp_init (set_dict st2 (Some d)) with
                  | Some st3 => (true, st3)
                  | None => (false, set_dict st2 (Some d))
                  end
           else (false, set_err st1 1)
       | (_, st1) => (false, set_err st1 1)
       end.

Definition comp_read (fuel : nat) (st : rstate) (dst_size : N) (use_dict : bool) : rres * rstate :=
  if 0 <? r_err st then (RErr (-1), st)
  else if negb (r_started st) then (RErr (-1), set_err st 1)
  else if dst_size =? 0 then (ROk [], st)
  else if use_dict && (0 <? first_ulen) && (match r_dict st with None => true | Some _ => false end) then
    match import_dict fuel st with
    | (true, st1) => comp_loop fuel use_dict dst_size st1 [] false
    | (false, st1) => (RErr (-1), st1)
    end
  else comp_loop fuel use_dict dst_size st [] false.

Definition zck_read (fuel : nat) (st : rstate) (dst_size : N) : rres * rstate :=
  comp_read fuel st dst_size true.

(** comp_reset_comp_data *)
Definition reset_comp_data (st : rstate) : rstate := set_eof (set_idx (set_data st [] 0) []) false.

(** zck_get_chunk_data(chunk k, dst, dst_size) *)
Definition zck_get_chunk_data (fuel : nat) (st : rstate) (k : nat) (dst_size : N) : rres * rstate :=
  match skipn k (h_chunks hd) with
  | [] => (RErr (-1), st)                           (* not a chunk of this context *)
  | c :: next =>
      if 0 <? r_err st then (RErr (-1), st)
      else if c_ulen c =? 0 then (ROk [], st)
      else
        let r1 :=
          if (0 <? first_ulen) && (match r_dict st with None => true | Some _ => false end) then
            match comp_init (comp_reset (seek st data_offset)) with
            | Some st1 => import_dict fuel st1
            | None => (false, comp_reset (seek st data_offset))
            end
          else (true, st) in
        match r1 with
        | (false, st1) => (RErr (-1), st1)
        | (true, st1) =>
            match comp_init (comp_reset (reset_comp_data st1)) with
            | None => (RErr (-1), comp_reset (reset_comp_data st1))
            | Some st2 =>
                (* seek, fresh chunk checksum, data_idx = idx *)
                let st3 := set_idx (set_chash (seek st2 (data_offset + c_start c)) (Some [])) (c :: next) in
                let ud := match k with O => false | _ => true end in
                match comp_read fuel st3 dst_size ud with
                | (ROk o, st4) =>
                    (* the whole declared size was asked for and the chunk is still open
                       (data_idx == idx: the same position in the table): finish it *)
                    if (c_ulen c <=? dst_size) && Nat.eqb (length (r_idx st4)) (length (c :: next)) then
                      if (r_loc st4 =? c_clen c) && (match r_dc st4 with [] => true | _ => false end) then
                        if 0 <? r_err st4 then (RErr (-1), st4)
                        else match end_dchunk st4 ud c next with
                             | (None, ste) => (RErr (-1), ste)
                             | (Some st5, _) => (ROk o, match next with [] => set_eof st5 true | _ => st5 end)
                             end
                      else (RErr (-1), set_err st4 1)
                    else (ROk o, st4)
                | r => r
                end
            end
        end
  end.

(** zck_get_chunk_comp_data(chunk k, dst, dst_size) *)
Definition zck_get_chunk_comp_data (st : rstate) (k : nat) (dst_size : N) : rres * rstate :=
  match skipn k (h_chunks hd) with
  | [] => (RErr (-1), st)
  | c :: _ =>
      if 0 <? r_err st then (RErr (-1), st)
      else if c_clen c =? 0 then (ROk [], st)
      else let st1 := seek st (data_offset + c_start c) in
           (ROk (takeN dst_size (r_rest st1)), set_rest st1 (dropN dst_size (r_rest st1)))
  end.

(** zck_close in read mode: validate_file *)
Definition zck_close (st : rstate) : bool * rstate :=
  if 0 <? r_err st then (false, st)
  else if uflag hd then (true, st)
  else match r_fhash st with
       | None => (false, set_err st 1)
       | Some acc => (bytes_eqb (H (h_hash hd) acc) (h_ddigest hd), set_fhash st None)
       end.

(** the context right after zck_init_read succeeded *)
Definition open_state : rstate :=
  mkR (dropN data_offset f) [] 0 [] false [] 0 None (Some []) None true 0.

(** reading to the end of the stream: one zck_read per buffer size in [sizes] until a call
    returns 0 bytes or fails; result: the bytes handed out by the successful calls, and
    how it ended (Some true = a call returned 0, Some false = a call failed, None = the
    size list was used up first) *)
Fixpoint read_all (fuel : nat) (st : rstate) (sizes : list N) (acc : bytes) : bytes * option bool * rstate :=
  match sizes with
  | [] => (acc, None, st)
  | n :: sizes' =>
      match zck_read fuel st n with
      | (ROk [], st') => (acc, Some true, st')
      | (ROk o, st') => read_all fuel st' sizes' (acc ++ o)
      | (_, st') => (acc, Some false, st')
      end
  end.

(** all reads of a size sequence, whatever their results (for statements about what
    happens after a failed call) *)
Fixpoint reads (fuel : nat) (st : rstate) (sizes : list N) : list rres * rstate :=
  match sizes with
  | [] => ([], st)
  | n :: sizes' =>
      let (r, st1) := zck_read fuel st n in
      let (rs, st2) := reads fuel st1 sizes' in (r :: rs, st2)
  end.
Fixpoint outs (rs : list rres) : bytes :=
  match rs with
  | [] => []
  | ROk o :: t => o ++ outs t
  | _ :: t => outs t
  end.

(** chunk requests with buffers of the declared sizes *)
Inductive req := ReqData (k : nat) | ReqStored (k : nat).
Fixpoint run_reqs (fuel : nat) (st : rstate) (rq : list req) : list rres :=
  match rq with
  | [] => []
  | ReqData k :: t =>
      let n := match skipn k (h_chunks hd) with c :: _ => c_ulen c | [] => 0 end in
      let (r, st') := zck_get_chunk_data fuel st k n in r :: run_reqs fuel st' t
  | ReqStored k :: t =>
      let n := match skipn k (h_chunks hd) with c :: _ => c_clen c | [] => 0 end in
      let (r, st') := zck_get_chunk_comp_data st k n in r :: run_reqs fuel st' t
  end.

(** src/unzck.c main, extraction of the whole file: zck_validate_data_checksum first
    ([vdc], owned by property C09: its result and the state it leaves), then zck_read with a
    BUF_SIZE buffer until it returns 0, then zck_close; on any failure the output file is
    unlinked.  Result: exit status and the output file ([None] = no file left).
    [calls] bounds the number of loop iterations of the model (status 2 = bound hit). *)
Definition unzck_model (fuel calls : nat) (vdc : rstate -> Z * rstate) : N * option bytes :=
  let (v, st1) := vdc open_state in
  if (v <? 1)%Z then (1, None)
  else match read_all fuel st1 (repeat BUF_SIZE calls) [] with
       | (out, Some true, st2) =>
           match zck_close st2 with
           | (true, _) => (0, Some out)
           | (false, _) => (1, None)
           end
       | (_, Some false, _) => (1, None)
       | (_, None, _) => (2, None)
       end.
End Impl.
