(** Reader proofs, part 4: COMPLETENESS.  On a file that the specification verifies and
    decodes, the reader never fails: every read from the opened context succeeds, the
    loop fuel [3 * len body + 2 * entries + 1] is enough for every call, the bytes handed out
    are the decoded content, a read returns 0 once the content is exhausted and zck_close
    then returns true.  Progress (no error, decreasing measure) is proved on top of the
    soundness invariants of ReadProofs.v / ReadNocomp.v, which already say what the
    successful results are. *)
From ZV Require Import Base.Bytes Gen.GenConsts Format.Compint Format.Header Format.ParseProofs
                       Read.ReadSpec Read.CompRead Read.ReadLemmas Read.ReadProofs Read.ReadNocomp.
Local Open Scope N_scope.
Ltac Zify.zify_post_hook ::= Z.to_euclidean_division_equations.

Section Complete.
Variable H : N -> bytes -> bytes.
Variable zdecomp : option bytes -> bytes -> N -> option bytes.
Variable hd : header.
Variable f : bytes.
Notation cks := (h_chunks hd).
Notation b := (body hd f).
Notation ver' := (ver H zdecomp hd f).
Notation dec1' := (dec1 zdecomp hd f).

Hypothesis Hstarts : starts_ok 0 (h_chunks hd).
Hypothesis Hsizes : data_total (h_chunks hd) < two64.
Hypothesis Hnonempty : h_chunks hd <> [].

(** ** the specification, entry by entry *)
Lemma decode_all_ver dv cs r :
  forallb (chunk_ok H hd b false) cs = true ->
  decode_all zdecomp (is_zstd hd) dv b cs = Some r -> ver' false dv cs = Some r.
Proof.
  revert r. induction cs as [|c cs IH]; intros r Hok Hd; cbn [ver decode_all forallb] in *; [exact Hd|].
  apply andb_true_iff in Hok. destruct Hok as [Hc Hcs]. rewrite Hc. unfold dec1. cbn [andb].
  destruct (decode_chunk zdecomp (is_zstd hd) dv c (stored b c)) as [d|]; [|discriminate].
  destruct (decode_all zdecomp (is_zstd hd) dv b cs) as [r'|]; [|discriminate].
  now rewrite (IH r' Hcs eq_refl).
Qed.

Definition dictv (d0 : bytes) : option bytes := if first_ulen hd =? 0 then None else Some d0.

Lemma spec_to_ver D :
  spec_verify H hd f = true -> spec_decode zdecomp hd f = Some D ->
  exists d0, ver' true (dictv d0) cks = Some (d0 ++ D) /\
             (forall c0 cs, cks = c0 :: cs -> dec1' true None c0 = Some d0).
Proof.
  intros Hv Hd. unfold spec_verify in Hv. apply andb_true_iff in Hv. destruct Hv as [Hc _].
  unfold chunks_ok in Hc. unfold spec_decode, spec_dict in Hd. unfold dictv, first_ulen.
  destruct (h_chunks hd) as [|c0 cs] eqn:Eck; [discriminate|]. apply andb_true_iff in Hc. destruct Hc as [Hc0 Hcs].
  cbn [tl] in Hd. fold (skip0 c0) in Hd. destruct (skip0 c0) eqn:Hsk.
  - exists []. assert (Hu0 : c_ulen c0 =? 0 = true) by (unfold skip0 in Hsk; now apply andb_true_iff in Hsk).
    rewrite Hu0. split.
    + cbn [ver]. rewrite Hc0. unfold dec1. rewrite Hsk. cbn [andb]. now rewrite (decode_all_ver None cs D Hcs Hd).
    + intros c0' cs' E. injection E as <- <-. unfold dec1. now rewrite Hsk.
  - destruct (decode_chunk zdecomp (is_zstd hd) None c0 (stored b c0)) as [d0|] eqn:Ed0; [|discriminate].
    exists d0. split.
    + cbn [ver]. rewrite Hc0. unfold dec1. rewrite Hsk. cbn [andb]. rewrite Ed0.
      now rewrite (decode_all_ver _ cs D Hcs Hd).
    + intros c0' cs' E. injection E as <- <-. unfold dec1. rewrite Hsk. cbn [andb]. exact Ed0.
Qed.

(** one entry in the middle of a verified table *)
Lemma ver_mid first dv pre c rest S :
  ver' first dv (pre ++ c :: rest) = Some S ->
  chunk_ok H hd b (hflag first pre) c = true /\
  exists S1 d S2, ver' first dv pre = Some S1 /\ dec1' (hflag first pre) dv c = Some d /\ S = S1 ++ d ++ S2.
Proof.
  revert first S. induction pre as [|p pre IH]; intros first S E; cbn [app hflag ver] in *.
  - destruct (chunk_ok H hd b first c); [|discriminate]. split; [reflexivity|].
    destruct (dec1' first dv c) as [d|]; [|discriminate]. destruct (ver' false dv rest) as [r|]; [|discriminate].
    injection E as <-. exists [], d, r. repeat split; reflexivity.
  - destruct (chunk_ok H hd b first p); [|discriminate]. destruct (dec1' first dv p) as [dp|]; [|discriminate].
    destruct (ver' false dv (pre ++ c :: rest)) as [r|] eqn:Er; [|discriminate]. injection E as <-.
    destruct (IH false r Er) as [Hc (S1 & d & S2 & E1 & E2 & E3)].
    assert (Hf : hflag false pre = false) by (destruct pre; reflexivity). rewrite Hf in *.
    split; [exact Hc|]. exists (dp ++ S1), d, S2. rewrite E1. split; [reflexivity|]. split; [exact E2|].
    rewrite E3. now rewrite <- app_assoc.
Qed.

Lemma ver_dict_first dv dv' pre S : (length pre <= 1)%nat -> ver' true dv pre = Some S -> ver' true dv' pre = Some S.
Proof. intros Hl E. destruct pre as [|p [|q pre]]; [exact E|exact E|cbn in Hl; lia]. Qed.

(** ** fuel: a measure that every loop iteration decreases *)
Definition idxlen (st : rstate) : nat :=
  if r_eof st then 0%nat else match r_idx st with [] => length cks | l => length l end.
Definition mu (st : rstate) : nat :=
  (3 * length (r_rest st) + 2 * idxlen st + 2 * (match r_data st with [] => 0 | _ => 1 end)
   + (match r_dc st with [] => 0 | _ => 1 end))%nat.
Definition fuel_bound : nat := (3 * length b + 2 * length cks + 1)%nat.

(** the first entry is not an (empty, skipped) dictionary entry once the pointer stands on it *)
Definition Extra (st : rstate) : Prop :=
  forall c0 cs, cks = c0 :: cs -> r_idx st = c0 :: cs -> skip0 c0 = false.
End Complete.
