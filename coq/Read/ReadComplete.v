(** Reader proofs, part 4: COMPLETENESS.  On a file that the specification verifies and
    decodes, the reader never fails: every read from the opened context succeeds, the
    loop fuel [3 * len body + 2 * entries + 1] is enough for every call, the bytes handed out
    are the decoded content, a read returns 0 once the content is exhausted and zck_close
    then returns true.  Progress (no error, decreasing measure) is proved on top of the
    soundness invariants of ReadProofs.v / ReadNocomp.v, which already say what the
    successful results are. *)
From ZV Require Import Base.Bytes Gen.GenConsts Format.Compint Format.Header Format.ParseProofs
                       Read.ReadSpec Read.CompRead Read.ReadLemmas Read.ReadProofs Read.ReadNocomp.
Local Open Scope N_scope.
Ltac Zify.zify_post_hook ::= Z.to_euclidean_division_equations.

Section Complete.
Variable H : N -> bytes -> bytes.
Variable zdecomp : option bytes -> bytes -> N -> option bytes.
Variable hd : header.
Variable f : bytes.
Notation cks := (h_chunks hd).
Notation b := (body hd f).
Notation ver' := (ver H zdecomp hd f).
Notation dec1' := (dec1 zdecomp hd f).

Hypothesis Hstarts : starts_ok 0 (h_chunks hd).
Hypothesis Hsizes : data_total (h_chunks hd) < two64.
Hypothesis Hnonempty : h_chunks hd <> [].

(** ** the specification, entry by entry *)
Lemma decode_all_ver dv cs r :
  forallb (chunk_ok H hd b false) cs = true ->
  decode_all zdecomp (is_zstd hd) dv b cs = Some r -> ver' false dv cs = Some r.
Proof.
  revert r. induction cs as [|c cs IH]; intros r Hok Hd; cbn [ver decode_all forallb] in *; [exact Hd|].
  apply andb_true_iff in Hok. destruct Hok as [Hc Hcs]. rewrite Hc. unfold dec1. cbn [andb].
  destruct (decode_chunk zdecomp (is_zstd hd) dv c (stored b c)) as [d|]; [|discriminate].
  destruct (decode_all zdecomp (is_zstd hd) dv b cs) as [r'|]; [|discriminate].
  now rewrite (IH r' Hcs eq_refl).
Qed.

Definition dictv (d0 : bytes) : option bytes := if first_ulen hd =? 0 then None else Some d0.

Lemma spec_to_ver D :
  spec_verify H hd f = true -> spec_decode zdecomp hd f = Some D ->
  exists d0, ver' true (dictv d0) cks = Some (d0 ++ D) /\
             (forall c0 cs, cks = c0 :: cs -> dec1' true None c0 = Some d0).
Proof.
  intros Hv Hd. unfold spec_verify in Hv. apply andb_true_iff in Hv. destruct Hv as [Hc _].
  unfold chunks_ok in Hc. unfold spec_decode, spec_dict in Hd. unfold dictv, first_ulen.
  destruct (h_chunks hd) as [|c0 cs] eqn:Eck; [discriminate|]. apply andb_true_iff in Hc. destruct Hc as [Hc0 Hcs].
  cbn [tl] in Hd. fold (skip0 c0) in Hd. destruct (skip0 c0) eqn:Hsk.
  - exists []. assert (Hu0 : c_ulen c0 =? 0 = true) by (unfold skip0 in Hsk; now apply andb_true_iff in Hsk).
    rewrite Hu0. split.
    + cbn [ver]. rewrite Hc0. unfold dec1. rewrite Hsk. cbn [andb]. now rewrite (decode_all_ver None cs D Hcs Hd).
    + intros c0' cs' E. injection E as <- <-. unfold dec1. now rewrite Hsk.
  - destruct (decode_chunk zdecomp (is_zstd hd) None c0 (stored b c0)) as [d0|] eqn:Ed0; [|discriminate].
    exists d0. split.
    + cbn [ver]. rewrite Hc0. unfold dec1. rewrite Hsk. cbn [andb]. rewrite Ed0.
      now rewrite (decode_all_ver _ cs D Hcs Hd).
    + intros c0' cs' E. injection E as <- <-. unfold dec1. rewrite Hsk. cbn [andb]. exact Ed0.
Qed.

(** one entry in the middle of a verified table *)
Lemma ver_mid first dv pre c rest S :
  ver' first dv (pre ++ c :: rest) = Some S ->
  chunk_ok H hd b (hflag first pre) c = true /\
  exists S1 d S2, ver' first dv pre = Some S1 /\ dec1' (hflag first pre) dv c = Some d /\ S = S1 ++ d ++ S2.
Proof.
  revert first S. induction pre as [|p pre IH]; intros first S E; cbn [app hflag ver] in *.
  - destruct (chunk_ok H hd b first c); [|discriminate]. split; [reflexivity|].
    destruct (dec1' first dv c) as [d|]; [|discriminate]. destruct (ver' false dv rest) as [r|]; [|discriminate].
    injection E as <-. exists [], d, r. repeat split; reflexivity.
  - destruct (chunk_ok H hd b first p); [|discriminate]. destruct (dec1' first dv p) as [dp|]; [|discriminate].
    destruct (ver' false dv (pre ++ c :: rest)) as [r|] eqn:Er; [|discriminate]. injection E as <-.
    destruct (IH false r Er) as [Hc (S1 & d & S2 & E1 & E2 & E3)].
    assert (Hf : hflag false pre = false) by (destruct pre; reflexivity). rewrite Hf in *.
    split; [exact Hc|]. exists (dp ++ S1), d, S2. rewrite E1. split; [reflexivity|]. split; [exact E2|].
    rewrite E3. now rewrite <- app_assoc.
Qed.

Lemma ver_dict_first dv dv' pre S : (length pre <= 1)%nat -> ver' true dv pre = Some S -> ver' true dv' pre = Some S.
Proof. intros Hl E. destruct pre as [|p [|q pre]]; [exact E|exact E|cbn in Hl; lia]. Qed.

(** ** fuel: a measure that every loop iteration decreases *)
Definition idxlen (st : rstate) : N :=
  if r_eof st then 0 else match r_idx st with [] => N.of_nat (length cks) | l => N.of_nat (length l) end.
Definition mu (st : rstate) : N :=
  3 * len (r_rest st) + 2 * idxlen st + 2 * (match r_data st with [] => 0 | _ => 1 end)
  + (match r_dc st with [] => 0 | _ => 1 end).
Definition fuel_bound : nat := N.to_nat (3 * len b + 2 * N.of_nat (length cks) + 1).

(** the first entry is not an (empty, skipped) dictionary entry once the pointer stands on it *)
Definition Extra (st : rstate) : Prop :=
  forall c0 cs, cks = c0 :: cs -> r_idx st = c0 :: cs -> skip0 c0 = false.

Lemma suffix_shorter (pre : list chunk) c next : pre ++ c :: next <> next.
Proof. intros E. apply (f_equal (@length chunk)) in E. rewrite app_length in E. cbn in E. lia. Qed.

Lemma open_mu : mu (open_state hd f) < N.of_nat fuel_bound.
Proof. unfold mu, idxlen, fuel_bound, open_state. rsimpl. rewrite N2Nat.id. unfold body, data_offset. lia. Qed.

Lemma open_Extra : Extra (open_state hd f).
Proof. intros c0 cs _ E. discriminate. Qed.

Lemma Extra_set_dc st v x : Extra st -> Extra (set_dc st v x).
Proof. intros He c0 cs E1 E2. exact (He c0 cs E1 E2). Qed.

Lemma mu_take st dl x :
  mu (set_dc st (dropN dl (r_dc st)) x) <= mu st /\
  (0 < len (r_dc st) -> len (r_dc st) <= dl -> mu (set_dc st (dropN dl (r_dc st)) x) < mu st).
Proof.
  unfold mu, idxlen. dst st. rsimpl. split.
  - destruct dc as [|y dc]; [rewrite dropN_nil; lia|]. destruct (dropN dl (y :: dc)); lia.
  - intros Hd Hl. rewrite dropN_all by exact Hl. destruct dc as [|y dc]; [cbn in Hd; lia|lia].
Qed.

Lemma ver_prefix first dv pre rest S :
  ver' first dv (pre ++ rest) = Some S -> exists S1 S2, ver' first dv pre = Some S1 /\ S = S1 ++ S2.
Proof.
  revert first S. induction pre as [|p pre IH]; intros first S E; cbn [app ver] in *.
  - exists [], S. split; reflexivity.
  - destruct (chunk_ok H hd b first p); [|discriminate]. destruct (dec1' first dv p) as [dp|]; [|discriminate].
    destruct (ver' false dv (pre ++ rest)) as [r|] eqn:Er; [|discriminate]. injection E as <-.
    destruct (IH false r Er) as (S1 & S2 & E1 & ->). rewrite E1. exists (dp ++ S1), S2. split; [reflexivity|now rewrite app_assoc].
Qed.

Section ProgressZ.
Hypothesis Hz : is_zstd hd = true.
Variable d0 D : bytes.
Hypothesis Hspec : ver' true (dictv d0) cks = Some (d0 ++ D).
Hypothesis Hfirst : forall c0 cs, cks = c0 :: cs -> dec1' true None c0 = Some d0.

Lemma d0_len c0 cs : cks = c0 :: cs -> len d0 = c_ulen c0.
Proof.
  intros E. specialize (Hfirst c0 cs E). unfold dec1 in Hfirst. cbn [andb] in Hfirst. destruct (skip0 c0) eqn:Hsk.
  - injection Hfirst as <-. unfold skip0 in Hsk. apply andb_true_iff in Hsk. destruct Hsk as [_ Hu]. apply N.eqb_eq in Hu. now rewrite Hu.
  - rewrite Hz in Hfirst. now apply decode_zstd_len in Hfirst.
Qed.

Notation RUNz := (RUN H zdecomp hd f).
Notation Jz' := (Jz H zdecomp hd f).

Lemma chunk_prog_z imp n del st out1 c next :
  0 < n -> r_err st = 0 -> r_started st = true -> RUNz imp del st -> r_dc st = [] -> r_idx st = c :: next ->
  Extra st ->
  (imp = true -> len del < first_ulen hd) ->
  (imp = false -> first_ulen hd = 0 \/ r_dict st <> None) ->
  match step_chunk H zdecomp hd (negb imp) n st out1 false with
  | SCont st' out' frd' => frd' = false /\ mu st' < mu st /\ Extra st'
  | SDone (ROk _) _ => False
  | SDone (RErr _) _ => False
  | SDone RFuel _ => False
  end.
Proof.
  intros Hpos He Hst (pre & Hck & Heof & Hver & Hloc & Hb & Hrest & Hdata & Hch & Hfh & Hpd & Himp & Husr) Hdc Hidx Hex Hil Hu.
  dst st. subst idx dc err started. unfold cur_clen in Hloc. rsimpl.
  destruct (chunk_sizes H zdecomp hd f Hstarts Hsizes pre c next Hck) as [Hlt Hstart].
  set (off := data_total pre) in *.
  assert (Heo : eof = false).
  { destruct eof; [|reflexivity]. destruct Heof as [Hx _]. specialize (Hx eq_refl). discriminate. }
  subst eof.
  pose proof Hspec as Hsp. rewrite Hck in Hsp. destruct (ver_mid true (dictv d0) pre c next _ Hsp) as [Hcok (S1 & d & S2 & Hs1 & Hdec & HS)].
  assert (Hsto : stored b c = sub b off (c_clen c)) by (unfold stored; now rewrite Hstart).
  assert (Hbound : off + c_clen c <= len b).
  { unfold chunk_ok in Hcok. apply andb_true_iff in Hcok. destruct Hcok as [Hb1 _]. apply N.leb_le in Hb1. lia. }
  assert (Hnoskip : hflag true pre && skip0 c = false).
  { destruct pre as [|p0 pre0]; [|reflexivity]. cbn [hflag andb]. apply (Hex c next); [exact Hck|reflexivity]. }
  unfold step_chunk. rsimpl.
  destruct (N.eqb_spec loc (c_clen c)) as [Hend|Hmid].
  - subst loc. unfold end_dchunk, validate_current. rsimpl. rewrite Hch.
    assert (Hok : (if c_clen c =? 0 then all_zero (c_digest c)
                   else bytes_eqb (H (h_chash hd) (sub b off (c_clen c))) (c_digest c)) = true).
    { unfold chunk_ok in Hcok. apply andb_true_iff in Hcok. destruct Hcok as [_ Hh]. rewrite Hsto in Hh.
      destruct (N.eqb_spec (c_clen c) 0) as [Hc0|]; [|exact Hh].
      apply orb_true_iff in Hh. destruct Hh as [Hh|Hh]; [|exact Hh]. exfalso.
      apply andb_true_iff in Hh. destruct Hh as [Hfl Hu0]. rewrite Hfl in Hnoskip. cbn [andb] in Hnoskip.
      unfold skip0 in Hnoskip. rewrite Hu0, Hc0 in Hnoskip. discriminate. }
    rewrite Hok. unfold backend_end_dchunk. rewrite zstd_true by exact Hz. unfold set_chash. rsimpl.
    (* the dictionary the code uses is the one the specification uses *)
    unfold dec1 in Hdec. rewrite Hnoskip in Hdec.
    assert (Hdd : (if negb imp then dict else None) = (if hflag true pre then None else dictv d0)).
    { destruct pre as [|p0 pre0]; cbn [hflag].
      - rewrite (Hpd eq_refl). now destruct imp.
      - assert (Hp0 : exists cs0, cks = p0 :: cs0) by (rewrite Hck; cbn; eauto). destruct Hp0 as (cs0 & Ep0).
        pose proof (d0_len p0 cs0 Ep0) as Hl0. assert (Hfu : first_ulen hd = c_ulen p0) by (unfold first_ulen; now rewrite Ep0).
        cbn [ver] in Hver. rewrite app_nil_r in Hver.
        destruct (chunk_ok H hd b true p0); [|discriminate].
        assert (Hdp : dec1' true dict p0 = Some d0) by (rewrite <- (Hfirst p0 cs0 Ep0); reflexivity).
        rewrite Hdp in Hver. destruct (ver' false dict pre0) as [r0|]; [|discriminate]. injection Hver as Hv.
        destruct imp; cbn [negb].
        + exfalso. specialize (Hil eq_refl). destruct (Himp eq_refl) as [_ Hlen]. destruct pre0; [|cbn in Hlen; lia].
          rewrite <- Hv, len_app in Hil. lia.
        + specialize (Husr eq_refl ltac:(discriminate)). unfold dictv.
          destruct (N.eqb_spec (first_ulen hd) 0) as [E0|E0]; [exact Husr|].
          destruct Husr as (d1 & r1 & E1 & E2 & E3). rewrite E3. f_equal. rewrite app_nil_r in E1.
          assert (Ht : takeN (first_ulen hd) (d1 ++ r1) = takeN (first_ulen hd) (d0 ++ r0)) by (now rewrite <- E1, Hv).
          rewrite !takeN_app_exact in Ht by congruence. exact Ht. }
    rewrite Hdd. unfold decode_chunk in Hdec. rewrite Hz, Hsto, <- Hdata in Hdec.
    destruct (zdecomp (if hflag true pre then None else dictv d0) data (c_ulen c)) as [x|]; [|discriminate].
    destruct (N.eqb_spec (len x) (c_ulen c)) as [Hlx|]; [|discriminate].
    unfold set_data, set_idx, set_chash. rsimpl.
    assert (Hmu : forall eof', (eof' = true <-> next = []) ->
       mu (mkR rest [] 0 next eof' ([] ++ x) 0 (Some []) fhash dict true 0) <
       mu (mkR rest data (c_clen c) (c :: next) false [] dcloc (Some (sub b off (c_clen c))) fhash dict true 0)).
    { intros eof' He'. unfold mu, idxlen. rsimpl. cbn [length].
      destruct eof'.
      - destruct (x); destruct data; cbn [app]; lia.
      - destruct next as [|c1 nx]; [destruct He' as [_ Hx]; specialize (Hx eq_refl); discriminate|].
        cbn [length]. destruct x; destruct data; cbn [app]; lia. }
    assert (Hext : forall eof', Extra (mkR rest [] 0 next eof' ([] ++ x) 0 (Some []) fhash dict true 0)).
    { intros eof' c0 cs E1 E2. rsimpl. exfalso. rewrite Hck in E1. rewrite <- E2 in E1. exact (suffix_shorter pre c next E1). }
    destruct next as [|c1 next1]; rsimpl; (split; [reflexivity|]); split.
    + apply Hmu. split; reflexivity.
    + apply Hext.
    + apply Hmu. split; discriminate.
    + apply Hext.
  - cbv zeta. rsimpl. rewrite Hch.
    set (rs := if c_clen c <? loc + n then u64 (c_clen c + two64 - loc) else n).
    assert (Hrs : 0 < rs /\ rs <= c_clen c - loc).
    { unfold rs. destruct (N.ltb_spec (c_clen c) (loc + n)).
      - assert (Hl : c_clen c < two64) by lia. unfold u64, two64 in *. lia.
      - lia. }
    fold rs.
    remember (takeN rs rest) as src eqn:Esrc.
    assert (Hls : len src = rs).
    { subst src rest. rewrite len_takeN, len_dropN. fold off. lia. }
    assert (Hne : src <> []) by (intros ->; cbn in Hls; lia).
    rewrite Hls, N.ltb_irrefl.
    assert (Hfin : forall ch fh,
              mu (mkR (dropN rs rest) (data ++ src) (loc + rs) (c :: next) false [] dcloc ch fh dict true 0) <
              mu (mkR rest data loc (c :: next) false [] dcloc (Some (sub b off loc)) fhash dict true 0) /\
              Extra (mkR (dropN rs rest) (data ++ src) (loc + rs) (c :: next) false [] dcloc ch fh dict true 0)).
    { intros ch fh. split.
      - unfold mu, idxlen. rsimpl. rewrite len_dropN.
        assert (Hlr : rs <= len rest) by (rewrite <- Hls, Esrc, len_takeN; lia).
        destruct data; destruct src; cbn [app]; try congruence; lia.
      - intros c0 cs E1 E2. rsimpl. apply (Hex c0 cs E1 E2). }
    destruct (uflag hd) eqn:Huf.
    + rsimpl. rewrite (hash_update_some _ src Hne). rsimpl. split; [reflexivity|]. apply Hfin.
    + rewrite (Hfh eq_refl). rsimpl. repeat (rewrite (hash_update_some _ src Hne); rsimpl). split; [reflexivity|]. apply Hfin.
Qed.

Lemma step_prog_z imp n del0 st out :
  0 < n -> len out < n ->
  (imp = true -> n = first_ulen hd /\ del0 = []) ->
  (imp = false -> first_ulen hd = 0 \/ r_dict st <> None) ->
  Jz' imp (del0 ++ out) st -> Extra st ->
  match comp_step H zdecomp hd (negb imp) n st out false with
  | SCont st' out' frd' => frd' = false /\ mu st' < mu st /\ Extra st'
  | SDone (ROk o) st' => mu st' <= mu st /\ Extra st' /\ len o <= n
  | SDone (RErr _) _ => False
  | SDone RFuel _ => False
  end.
Proof.
  intros Hpos Hlo Hi Hu HJ Hex.
  unfold comp_step. cbv zeta.
  set (dl := N.min (n - len out) (len (r_dc st))).
  pose proof (Jz_take H zdecomp hd f imp (del0 ++ out) st dl (r_dcloc st + dl) HJ) as HJ1.
  rewrite <- app_assoc in HJ1.
  pose proof (mu_take st dl (r_dcloc st + dl)) as [Hmu1 Hmu2].
  pose proof (Extra_set_dc st (dropN dl (r_dc st)) (r_dcloc st + dl) Hex) as Hex1.
  set (out1 := out ++ takeN dl (r_dc st)) in *.
  set (st1 := set_dc st (dropN dl (r_dc st)) (r_dcloc st + dl)) in *.
  assert (Hd1 : r_dict st1 = r_dict st) by reflexivity.
  assert (Hlo1 : len out1 = len out + dl).
  { unfold out1. rewrite len_app, len_takeN. fold dl. unfold dl. lia. }
  destruct (N.eqb_spec (len out1) n) as [Hfull|Hnf].
  { split; [assumption|]. split; [assumption|lia]. }
  destruct (N.ltb_spec 0 dl) as [Hdl|Hdl].
  { split; [reflexivity|]. split; [|exact Hex1]. apply Hmu2; unfold dl in *; lia. }
  assert (Hdc : r_dc st = []).
  { apply len_0_nil. unfold dl in Hdl. lia. }
  assert (Hdc1 : r_dc st1 = []) by (unfold st1; rsimpl; rewrite Hdc; apply dropN_nil).
  destruct (r_eof st1) eqn:Heof1.
  { split; [assumption|]. split; [assumption|unfold dl in *; lia]. }
  assert (Hdec : (if 0 <? len (r_data st1) then decompress hd st1 else st1) = st1).
  { unfold decompress. rewrite zstd_true by exact Hz. now destruct (0 <? len (r_data st1)). }
  rewrite Hdec. rewrite !N.eqb_refl. cbn [negb orb].
  rewrite <- Hd1 in Hu.
  assert (Hil : imp = true -> len (del0 ++ out1) < first_ulen hd).
  { intros E. destruct (Hi E) as [-> ->]. cbn [app]. lia. }
  clearbody st1 out1. clear HJ Hdc Hdec Hd1 dl Hdl Hmu2 Hlo1.
  destruct HJ1 as (He & Hs & [HN|HR]).
  - destruct HN as (A1 & A2 & A3 & A4 & A5 & A6 & A7 & A8 & A9).
    dst st1. subst idx eof loc data dc rest dict err started.
    unfold step_init. rsimpl.
    assert (Hexc : exists c0 cs, h_chunks hd = c0 :: cs).
    { pose proof Hnonempty as Hq. destruct (h_chunks hd) as [|c0 cs]; [congruence|eauto]. }
    destruct Hexc as (c0 & cs & Eck). rewrite Eck.
    apply app_eq_nil in A6. destruct A6 as [-> ->].
    change (0 <? 0) with false. cbv iota.
    destruct (chunk_sizes H zdecomp hd f Hstarts Hsizes [] c0 cs Eck) as [_ Hst0]. cbn in Hst0.
    fold (skip0 c0).
    remember (if skip0 c0 then cs else c0 :: cs) as idx0 eqn:Eidx.
    set (pre := if skip0 c0 then [c0] else []).
    unfold set_chash, set_idx. rsimpl.
    set (st3 := mkR b [] 0 idx0 false [] dcloc (Some []) fhash None true 0).
    assert (Hmu3 : mu st3 <= mu st).
    { etransitivity; [|exact Hmu1]. unfold mu, idxlen, st3. rsimpl. rewrite Eck.
      destruct idx0 as [|ci nx]; [lia|]. destruct (skip0 c0); [subst cs|injection Eidx as <- <-]; cbn [length]; lia. }
    assert (Hex3 : Extra st3).
    { intros c0' cs' E1 E2. unfold st3 in E2. rsimpl. rewrite Eck in E1. injection E1 as <- <-.
      destruct (skip0 c0); [|reflexivity]. exfalso. apply (f_equal (@length chunk)) in E2. rewrite Eidx in E2. cbn in E2. lia. }
    destruct idx0 as [|c next].
    { unfold step_chunk. subst st3. rsimpl. split; [assumption|]. split; [assumption|cbn; lia]. }
    assert (HRz : RUNz imp [] st3).
    { exists pre. subst st3. rsimpl. unfold cur_clen. rsimpl.
      assert (Ht : data_total pre = 0).
      { unfold pre. destruct (skip0 c0) eqn:Hsk; [|reflexivity]. unfold skip0 in Hsk. apply andb_true_iff in Hsk.
        destruct Hsk as [Hc0 _]. apply N.eqb_eq in Hc0. cbn. lia. }
      rewrite Ht. cbn [N.add].
      split. { rewrite Eidx, Eck. unfold pre. destruct (skip0 c0); reflexivity. }
      split. { split; discriminate. }
      split.
      { unfold pre. destruct (skip0 c0) eqn:Hsk; [|reflexivity]. cbn [ver]. unfold dec1. rewrite Hsk. cbn [andb].
        unfold chunk_ok. rewrite Hst0. unfold skip0 in Hsk. apply andb_true_iff in Hsk. destruct Hsk as [Hc0 Hu0].
        rewrite Hc0, Hu0. apply N.eqb_eq in Hc0. rewrite Hc0. cbn [N.add andb orb].
        destruct (N.leb_spec 0 (len b)); [reflexivity|lia]. }
      split; [lia|]. split; [lia|]. split; [reflexivity|]. split; [reflexivity|]. split; [reflexivity|].
      split; [exact A8|]. split; [reflexivity|]. split.
      - intros _. split; [reflexivity|]. unfold pre. destruct (skip0 c0); cbn; lia.
      - intros _ Hp. unfold pre in Hp. destruct (skip0 c0) eqn:Hsk; [|congruence].
        unfold skip0 in Hsk. apply andb_true_iff in Hsk. destruct Hsk as [_ Hu0].
        unfold first_ulen. rewrite Eck, Hu0. reflexivity. }
    pose proof (chunk_prog_z imp n [] st3 [] c next Hpos eq_refl eq_refl HRz eq_refl eq_refl Hex3) as Hc.
    cbn [app] in Hil. specialize (Hc Hil Hu).
    destruct (step_chunk H zdecomp hd (negb imp) n st3 [] false) as [st' out' frd'|[o| |] st']; try exact Hc; try contradiction.
    destruct Hc as (-> & Hc1 & Hc2). split; [reflexivity|]. split; [lia|exact Hc2].
  - assert (Hcopy := HR).
    destruct HR as (pre & B1 & B2 & _).
    destruct (r_idx st1) as [|c next] eqn:Eidx.
    { destruct B2 as [_ B2]. rewrite (B2 eq_refl) in Heof1. discriminate. }
    unfold step_init. rewrite Eidx.
    pose proof (chunk_prog_z imp n (del0 ++ out1) st1 out1 c next Hpos He Hs Hcopy Hdc1 Eidx Hex1 Hil Hu) as Hc.
    destruct (step_chunk H zdecomp hd (negb imp) n st1 out1 false) as [st' out' frd'|[o| |] st']; try exact Hc; try contradiction.
    destruct Hc as (-> & Hc1 & Hc2). split; [reflexivity|]. split; [lia|exact Hc2].
Qed.

Lemma loop_prog_z imp n del0 : forall fuel st out,
  mu st < N.of_nat fuel ->
  0 < n -> len out < n ->
  (imp = true -> n = first_ulen hd /\ del0 = []) ->
  (imp = false -> first_ulen hd = 0 \/ r_dict st <> None) ->
  Jz' imp (del0 ++ out) st -> Extra st ->
  match comp_loop H zdecomp hd fuel (negb imp) n st out false with
  | (ROk o, st') => Jz' imp (del0 ++ o) st' /\ r_dict st' = r_dict st /\ (len o < n -> finished hd st') /\
                    mu st' <= mu st /\ Extra st' /\ len o <= n
  | (RErr _, _) => False
  | (RFuel, _) => False
  end.
Proof.
  induction fuel as [|fuel IH]; intros st out Hmu Hpos Hlo Hi Hu HJ Hex; [lia|]. cbn [comp_loop].
  pose proof (step_inv H zdecomp hd f Hstarts Hsizes Hz Hnonempty imp n del0 st out false Hpos Hlo Hi Hu HJ) as Hs.
  pose proof (step_prog_z imp n del0 st out Hpos Hlo Hi Hu HJ Hex) as Hp.
  destruct (comp_step H zdecomp hd (negb imp) n st out false) as [st' out' frd'|[o| |] st']; try contradiction.
  - destruct Hs as (HJ' & Hlo' & Hd'). destruct Hp as (-> & Hm' & Hex').
    assert (Hu' : imp = false -> first_ulen hd = 0 \/ r_dict st' <> None) by (rewrite Hd'; exact Hu).
    pose proof (IH st' out' ltac:(lia) Hpos Hlo' Hi Hu' HJ' Hex') as Hr.
    destruct (comp_loop H zdecomp hd fuel (negb imp) n st' out' false) as [[o| |] st'']; try contradiction.
    destruct Hr as (R1 & R2 & R3 & R4 & R5 & R6). split; [exact R1|]. split; [congruence|]. split; [exact R3|]. split; [lia|]. split; [exact R5|exact R6].
  - destruct Hs as (R1 & R2 & R3). destruct Hp as (P1 & P2 & P3).
    split; [exact R1|]. split; [exact R2|]. split; [exact R3|]. split; [exact P1|]. split; [exact P2|exact P3].
Qed.

Notation CIz := (CI H zdecomp hd f).

Lemma import_prog_z fuel st :
  mu st < N.of_nat fuel ->
  r_err st = 0 -> r_started st = true -> NS hd f [] st -> 0 < first_ulen hd -> Extra st ->
  match import_dict H zdecomp hd fuel st with
  | (true, st') => mu st' <= mu st /\ Extra st'
  | (false, _) => False
  end.
Proof.
  intros Hmu He Hs HN Hfu Hex. unfold import_dict. rewrite He. change (0 <? 0) with false. cbv iota.
  destruct (N.eqb_spec (first_ulen hd) 0) as [E|_]; [lia|].
  unfold comp_read_nd. rewrite He, Hs. change (0 <? 0) with false. cbn [negb]. cbv iota.
  destruct (N.eqb_spec (first_ulen hd) 0) as [E|_]; [lia|].
  assert (HJ : Jz' true ([] ++ []) st) by (split; [exact He|split; [exact Hs|now left]]).
  pose proof (loop_prog_z true (first_ulen hd) [] fuel st [] Hmu Hfu ltac:(cbn; lia) ltac:(intros _; split; reflexivity)
                ltac:(intros; discriminate) HJ Hex) as Hl.
  cbn [negb] in Hl.
  destruct (comp_loop H zdecomp hd fuel false (first_ulen hd) st [] false) as [[d| |] st1]; try contradiction.
  destruct Hl as (HJ1 & Hd1 & Hf & Hm1 & Hex1 & Hle). cbn [app] in HJ1.
  assert (Hex0 : exists c0 cs, h_chunks hd = c0 :: cs).
  { pose proof Hnonempty as Hq. destruct (h_chunks hd) as [|c0 cs]; [congruence|eauto]. }
  destruct Hex0 as (c0 & cs & Eck).
  assert (Hfu0 : first_ulen hd = c_ulen c0) by (unfold first_ulen; now rewrite Eck).
  destruct (N.eqb_spec (len d) (first_ulen hd)) as [Hld|Hld].
  - destruct HJ1 as (He1 & Hs1 & _). unfold comp_reset, comp_init. rsimpl. rewrite He1. change (0 <? 0) with false. cbv iota. rsimpl.
    split.
    + etransitivity; [|exact Hm1]. unfold mu, idxlen. dst st1. unfold set_started, set_dict, set_dc. rsimpl. destruct dc; lia.
    + intros a l E1 E2. exact (Hex1 a l E1 E2).
  - exfalso. assert (Hlt : len d < first_ulen hd) by lia.
    specialize (Hf Hlt). destruct HJ1 as (_ & _ & [HN1|HR1]).
    + destruct Hf as [[Hx _]|(c0' & Eck' & Hsk & _)].
      * destruct HN1 as (_ & Hx2 & _). congruence.
      * rewrite Eck in Eck'. injection Eck' as <- _. unfold skip0 in Hsk. apply andb_true_iff in Hsk. destruct Hsk as [_ Hu0].
        apply N.eqb_eq in Hu0. lia.
    + destruct HR1 as (pre & B1 & B2 & B3 & B4 & B5 & B6 & B7 & B8 & B9 & B10 & B11 & B12).
      destruct Hf as [[Heof Hdc]|(c0' & _ & _ & Hidx & Heof)].
      2:{ destruct B2 as [_ B2]. rewrite (B2 Hidx) in Heof. discriminate. }
      destruct B2 as [B2 _]. specialize (B2 Heof). rewrite B2, app_nil_r in B1.
      destruct (B11 eq_refl) as [_ Hlp]. rewrite <- B1, Eck in Hlp. destruct cs; [|cbn in Hlp; lia].
      rewrite <- B1, Eck, Hdc, app_nil_r in B3. cbn [ver] in B3.
      destruct (chunk_ok H hd b true c0); [|discriminate].
      assert (Hdp : dec1' true (r_dict st1) c0 = Some d0) by (rewrite <- (Hfirst c0 [] Eck); reflexivity).
      rewrite Hdp in B3. injection B3 as B3. rewrite app_nil_r in B3. subst d.
      rewrite (d0_len c0 [] Eck) in Hlt. lia.
Qed.

Lemma read_prog_z fuel st n uout :
  mu st < N.of_nat fuel -> 0 < n -> CIz uout st -> Extra st ->
  match zck_read H zdecomp hd fuel st n with
  | (ROk o, st') => CIz (uout ++ o) st' /\ (len o < n -> finished hd st') /\ mu st' <= mu st /\ Extra st' /\ len o <= n
  | (RErr _, _) => False
  | (RFuel, _) => False
  end.
Proof.
  intros Hmu Hpos (He & Hs & HC) Hex. unfold zck_read, comp_read. rewrite He, Hs. change (0 <? 0) with false. cbn [negb]. cbv iota.
  destruct (N.eqb_spec n 0) as [E|_]; [lia|]. cbn [andb].
  destruct ((0 <? first_ulen hd) && match r_dict st with None => true | Some _ => false end) eqn:Hcond.
  - apply andb_true_iff in Hcond. destruct Hcond as [Hfu Hdn]. apply N.ltb_lt in Hfu.
    destruct (r_dict st) eqn:Ed; [discriminate|].
    destruct HC as [[HN ->]|[_ [Hc|Hc]]]; [|lia|congruence].
    pose proof (import_inv H zdecomp hd f Hstarts Hsizes Hz Hnonempty fuel st He Hs HN Hfu) as Hi.
    pose proof (import_prog_z fuel st Hmu He Hs HN Hfu Hex) as Hp.
    destruct (import_dict H zdecomp hd fuel st) as [[|] st1]; [|contradiction].
    destruct Hi as (d & Hd & HR & He1 & Hs1). destruct Hp as [Hm1 Hex1].
    assert (HJ : Jz' false (d ++ []) st1) by (rewrite app_nil_r; split; [exact He1|split; [exact Hs1|now right]]).
    pose proof (loop_prog_z false n d fuel st1 [] ltac:(lia) Hpos ltac:(cbn; lia) ltac:(intros; discriminate)
                  ltac:(intros _; right; congruence) HJ Hex1) as Hl.
    cbn [negb] in Hl.
    destruct (comp_loop H zdecomp hd fuel true n st1 [] false) as [[o| |] st2]; try contradiction.
    destruct Hl as ((He2 & Hs2 & HJ2) & Hd2 & Hf & Hm2 & Hex2 & Hle).
    split; [|split; [exact Hf|split; [lia|split; [exact Hex2|exact Hle]]]].
    split; [exact He2|]. split; [exact Hs2|]. right.
    destruct HJ2 as [HN2|HR2].
    { destruct HN2 as (_ & _ & _ & _ & _ & _ & _ & _ & Hx). congruence. }
    unfold dpart. rewrite Hd2, Hd. cbn [app]. split; [exact HR2|right; congruence].
  - assert (Hu : false = false -> first_ulen hd = 0 \/ r_dict st <> None).
    { intros _. apply andb_false_iff in Hcond. destruct Hcond as [Hc|Hc].
      - left. apply N.ltb_ge in Hc. lia.
      - right. destruct (r_dict st); [discriminate|discriminate]. }
    assert (HJ : Jz' false ((dpart st ++ uout) ++ []) st).
    { rewrite app_nil_r. split; [exact He|]. split; [exact Hs|]. destruct HC as [[HN ->]|[HR _]].
      - left. destruct HN as (A1 & A2 & A3 & A4 & A5 & A6 & A7 & A8 & A9). unfold dpart. rewrite A9.
        repeat split; assumption.
      - now right. }
    pose proof (loop_prog_z false n (dpart st ++ uout) fuel st [] Hmu Hpos ltac:(cbn; lia) ltac:(intros; discriminate) Hu HJ Hex) as Hl.
    cbn [negb] in Hl.
    destruct (comp_loop H zdecomp hd fuel true n st [] false) as [[o| |] st2]; try contradiction.
    destruct Hl as ((He2 & Hs2 & HJ2) & Hd2 & Hf & Hm2 & Hex2 & Hle).
    split; [|split; [exact Hf|split; [exact Hm2|split; [exact Hex2|exact Hle]]]].
    split; [exact He2|]. split; [exact Hs2|].
    destruct HJ2 as [HN2|HR2].
    + left. destruct HN2 as (A1 & A2 & A3 & A4 & A5 & A6 & A7 & A8 & A9).
      apply app_eq_nil in A6. destruct A6 as [A6 ->]. apply app_eq_nil in A6. destruct A6 as [_ ->].
      split; [|reflexivity]. repeat split; assumption.
    + right. unfold dpart in *. rewrite Hd2. rewrite <- app_assoc in HR2. split; [exact HR2|]. now apply Hu.
Qed.

(** the dictionary in use is the specification's once the first entry is closed *)
Lemma CIz_bound uout st : CIz uout st -> len uout <= len D.
Proof.
  intros (_ & _ & [[_ ->]|[(pre & B1 & B2 & B3 & B4 & B5 & B6 & B7 & B8 & B9 & B10 & B11 & B12) _]]); [cbn; lia|].
  destruct pre as [|p0 pre0].
  { cbn [ver] in B3. injection B3 as B3. symmetry in B3. apply app_eq_nil in B3. destruct B3 as [B3 _].
    apply app_eq_nil in B3. destruct B3 as [_ ->]. cbn. lia. }
  assert (Hp0 : exists cs0, cks = p0 :: cs0) by (rewrite B1; cbn; eauto). destruct Hp0 as (cs0 & Ep0).
  pose proof (d0_len p0 cs0 Ep0) as Hl0. assert (Hfu : first_ulen hd = c_ulen p0) by (unfold first_ulen; now rewrite Ep0).
  specialize (B12 eq_refl ltac:(discriminate)).
  (* first component of both decodings is d0 *)
  pose proof Hspec as Hsp. rewrite B1 in Hsp.
  assert (Hdv : r_dict st = dictv d0 /\ len (dpart st) = len d0).
  { cbn [ver] in B3. destruct (chunk_ok H hd b true p0); [|discriminate].
    assert (Hdp : dec1' true (r_dict st) p0 = Some d0) by (rewrite <- (Hfirst p0 cs0 Ep0); reflexivity).
    rewrite Hdp in B3. destruct (ver' false (r_dict st) pre0) as [r0|]; [|discriminate]. injection B3 as Hv.
    unfold dictv, dpart. destruct (N.eqb_spec (first_ulen hd) 0) as [E0|E0].
    - rewrite B12. split; [reflexivity|]. cbn. lia.
    - destruct B12 as (d1 & r1 & E1 & E2 & E3). rewrite E3.
      assert (Ht : takeN (first_ulen hd) (d1 ++ r1) = takeN (first_ulen hd) (d0 ++ r0)) by (now rewrite <- E1, Hv).
      rewrite !takeN_app_exact in Ht by congruence. subst d1. split; reflexivity. }
  destruct Hdv as [Hdv Hlp]. rewrite Hdv in B3.
  assert (Hpre : forall first dv pre rest S, ver' first dv (pre ++ rest) = Some S ->
                   exists S1 S2, ver' first dv pre = Some S1 /\ S = S1 ++ S2).
  { clear. intros first dv pre. revert first. induction pre as [|p pre IH]; intros first rest S E; cbn [app ver] in *.
    - exists [], S. split; reflexivity.
    - destruct (chunk_ok H hd b first p); [|discriminate]. destruct (dec1' first dv p) as [dp|]; [|discriminate].
      destruct (ver' false dv (pre ++ rest)) as [r|] eqn:Er; [|discriminate]. injection E as <-.
      destruct (IH false rest r Er) as (S1 & S2 & E1 & ->). rewrite E1. exists (dp ++ S1), S2. split; [reflexivity|now rewrite app_assoc]. }
  destruct (Hpre true (dictv d0) (p0 :: pre0) (r_idx st) _ Hsp) as (S1 & S2 & E1 & E2).
  rewrite E1 in B3. injection B3 as B3. apply (f_equal len) in E2. rewrite B3, !len_app in E2. lia.
Qed.

Hypothesis Hdok : data_ok H hd b = true.
Hypothesis Hdec : spec_decode zdecomp hd f = Some D.

Lemma close_true_z out st : CIz out st -> finished hd st -> fst (zck_close H hd st) = true.
Proof.
  intros (He & Hs & HC) Hfin. unfold zck_close. rewrite He. change (0 <? 0) with false. cbv iota.
  destruct (uflag hd) eqn:Huf; [reflexivity|].
  pose proof Hdok as Hd. unfold data_ok in Hd. rewrite Huf in Hd. apply andb_true_iff in Hd. destruct Hd as [_ Hd]. cbn [orb] in Hd.
  destruct HC as [[HN _]|[HR _]].
  - destruct HN as (A1 & A2 & A3 & A4 & A5 & A6 & A7 & A8 & A9). rewrite (A8 Huf). cbn [fst].
    destruct Hfin as [[Hx _]|(c0 & Eck & Hsk & _)]; [congruence|].
    rewrite Eck in Hd. unfold skip0 in Hsk. apply andb_true_iff in Hsk. destruct Hsk as [Hc0 _]. apply N.eqb_eq in Hc0.
    cbn [data_total fold_right] in Hd. rewrite Hc0 in Hd. exact Hd.
  - destruct HR as (pre & B1 & B2 & B3 & B4 & B5 & B6 & B7 & B8 & B9 & B10 & B11 & B12).
    destruct Hfin as [[Heof Hdc]|(c0 & _ & _ & Hidx & Heof)].
    2:{ destruct B2 as [_ B2]. rewrite (B2 Hidx) in Heof. discriminate. }
    destruct B2 as [B2 _]. specialize (B2 Heof). rewrite B2, app_nil_r in B1. subst pre.
    unfold cur_clen in B4. rewrite B2 in B4. assert (Hl0 : r_loc st = 0) by lia. rewrite Hl0, N.add_0_r in *.
    rewrite (B9 Huf). cbn [fst]. exact Hd.
Qed.

Lemma read_all_prog_z fuel : forall sizes st acc,
  Forall (fun n => 0 < n) sizes -> CIz acc st -> Extra st -> mu st < N.of_nat fuel ->
  match read_all H zdecomp hd fuel st sizes acc with
  | (out, e, st') =>
      e <> Some false /\ (e = Some true -> CIz out st' /\ finished hd st') /\
      (len D + 1 <= len acc + N.of_nat (length sizes) -> e = Some true)
  end.
Proof.
  induction sizes as [|n sizes IH]; intros st acc Hpos HC Hex Hmu; cbn [read_all].
  - split; [discriminate|]. split; [discriminate|]. intros Hl. pose proof (CIz_bound acc st HC). cbn in Hl. lia.
  - inversion Hpos as [|? ? Hn0 Hpos']; subst.
    pose proof (read_prog_z fuel st n acc Hmu Hn0 HC Hex) as Hr.
    destruct (zck_read H zdecomp hd fuel st n) as [[o| |] st1]; try contradiction.
    destruct Hr as (HC1 & Hf & Hm1 & Hex1 & _). destruct o as [|x o].
    + rewrite app_nil_r in HC1. split; [discriminate|]. split; [|reflexivity]. intros _. split; [exact HC1|]. apply Hf. cbn. exact Hn0.
    + specialize (IH st1 (acc ++ x :: o) Hpos' HC1 Hex1 ltac:(lia)).
      destruct (read_all H zdecomp hd fuel st1 sizes (acc ++ x :: o)) as [[out e] st'].
      destruct IH as (I1 & I2 & I3). split; [exact I1|]. split; [exact I2|]. intros Hl. apply I3.
      rewrite len_app, len_cons. cbn [length] in Hl. lia.
Qed.

Theorem read_complete_z fuel sizes :
  (fuel_bound <= fuel)%nat -> Forall (fun n => 0 < n) sizes ->
  match read_all H zdecomp hd fuel (open_state hd f) sizes [] with
  | (out, e, st') =>
      e <> Some false /\
      (e = Some true -> out = D /\ fst (zck_close H hd st') = true) /\
      (len D < N.of_nat (length sizes) -> e = Some true)
  end.
Proof.
  intros Hfuel Hpos.
  pose proof (read_all_prog_z fuel sizes (open_state hd f) [] Hpos
                (open_CI H zdecomp hd f) open_Extra ltac:(pose proof open_mu; lia)) as Hr.
  destruct (read_all H zdecomp hd fuel (open_state hd f) sizes []) as [[out e] st'].
  destruct Hr as (R1 & R2 & R3). split; [exact R1|]. split.
  - intros He. destruct (R2 He) as [HC Hf]. pose proof (close_true_z out st' HC Hf) as Hcl. split; [|exact Hcl].
    destruct (zck_close H hd st') as [cl st2] eqn:Ecl. cbn [fst] in Hcl. subst cl.
    destruct (final_spec H zdecomp hd f Hstarts Hsizes Hz Hnonempty out st' st2 HC Hf Ecl) as [_ Hd]. congruence.
  - intros Hl. apply R3. cbn. lia.
Qed.
End ProgressZ.

(** ** compression type 0 *)
Section ProgressN.
Hypothesis Hn : is_zstd hd = false.
Variable d0 D : bytes.
Hypothesis Hspec : ver' true (dictv d0) cks = Some (d0 ++ D).
Hypothesis Hfirst : forall c0 cs, cks = c0 :: cs -> dec1' true None c0 = Some d0.

Notation RUNn' := (RUNn H zdecomp hd f).
Notation Jn' := (Jn H zdecomp hd f).
Notation CIn' := (CIn H zdecomp hd f).

Lemma ver_nodict first dv dv' l : ver' first dv l = ver' first dv' l.
Proof.
  revert first. induction l as [|c l IH]; intros first; [reflexivity|]. cbn [ver].
  rewrite (IH false). unfold dec1, decode_chunk. rewrite Hn. reflexivity.
Qed.

Lemma chunk_prog_n imp n del st out1 c next :
  0 < n -> r_err st = 0 -> r_started st = true -> RUNn' imp false del st ->
  r_dc st = [] -> r_data st = [] -> r_idx st = c :: next -> Extra st ->
  (imp = true -> len del < n /\ n = first_ulen hd) ->
  match step_chunk H zdecomp hd (negb imp) n st out1 false with
  | SCont st' out' frd' => frd' = false /\ mu st' < mu st /\ Extra st'
  | SDone _ _ => False
  end.
Proof.
  intros Hpos He Hst (pre & Hck & Heof & Hver & Hpos' & Hloc & Hb & Hrest & Hch & Hfh & Hid & Himp) Hdc Hdata Hidx Hex Hil.
  dst st. subst idx dc data err started. unfold cur_clen in *. rsimpl.
  destruct (chunk_sizes H zdecomp hd f Hstarts Hsizes pre c next Hck) as [Hlt Hstart].
  set (off := data_total pre) in *.
  rewrite app_nil_r in Hpos'.
  assert (Hld : len del = off + loc) by (rewrite Hpos', len_takeN; lia).
  assert (Heo : eof = false).
  { destruct eof; [|reflexivity]. destruct Heof as [Hx _]. specialize (Hx eq_refl). discriminate. }
  subst eof.
  pose proof Hspec as Hsp. rewrite Hck in Hsp. destruct (ver_mid true (dictv d0) pre c next _ Hsp) as [Hcok (S1 & d & S2 & Hs1 & Hdec & HS)].
  assert (Hsto : stored b c = sub b off (c_clen c)) by (unfold stored; now rewrite Hstart).
  assert (Hbound : off + c_clen c <= len b).
  { unfold chunk_ok in Hcok. apply andb_true_iff in Hcok. destruct Hcok as [Hb1 _]. apply N.leb_le in Hb1. lia. }
  assert (Hnoskip : hflag true pre && skip0 c = false).
  { destruct pre as [|p0 pre0]; [|reflexivity]. cbn [hflag andb]. apply (Hex c next); [exact Hck|reflexivity]. }
  unfold step_chunk. rsimpl.
  destruct (N.eqb_spec loc (c_clen c)) as [Hend|Hmid].
  - subst loc. unfold end_dchunk, validate_current. rsimpl. rewrite Hch.
    assert (Hok : (if c_clen c =? 0 then all_zero (c_digest c)
                   else bytes_eqb (H (h_chash hd) (sub b off (c_clen c))) (c_digest c)) = true).
    { unfold chunk_ok in Hcok. apply andb_true_iff in Hcok. destruct Hcok as [_ Hh]. rewrite Hsto in Hh.
      destruct (N.eqb_spec (c_clen c) 0) as [Hc0|]; [|exact Hh].
      apply orb_true_iff in Hh. destruct Hh as [Hh|Hh]; [|exact Hh]. exfalso.
      apply andb_true_iff in Hh. destruct Hh as [Hfl Hu0]. rewrite Hfl in Hnoskip. cbn [andb] in Hnoskip.
      unfold skip0 in Hnoskip. rewrite Hu0, Hc0 in Hnoskip. discriminate. }
    rewrite Hok. unfold backend_end_dchunk. rewrite nozstd by exact Hn. unfold set_chash. rsimpl.
    unfold dec1 in Hdec. rewrite Hnoskip in Hdec. unfold decode_chunk in Hdec. rewrite Hn in Hdec.
    destruct (N.eqb_spec (c_ulen c) (c_clen c)) as [Hcu|]; [|discriminate].
    rewrite <- Hcu, N.eqb_refl.
    assert (Hnimp : imp = false).
    { destruct imp; [exfalso|reflexivity]. destruct (Hil eq_refl) as [Hl1 Hl2].
      destruct (Himp eq_refl) as (_ & Hp & Hcase). subst pre. cbn in off. subst off.
      assert (Hfu : first_ulen hd = c_ulen c) by (unfold first_ulen; now rewrite Hck).
      destruct Hcase as [[Hc0 _]|[Hc1|[Hc2 _]]]; lia. }
    subst imp. cbn [negb]. unfold set_data, set_idx, set_chash. rsimpl.
    assert (Hmu : forall eof', (eof' = true <-> next = []) ->
       mu (mkR rest [] 0 next eof' [] dcloc (Some []) fhash dict true 0) <
       mu (mkR rest [] (c_ulen c) (c :: next) false [] dcloc (Some (sub b off (c_ulen c))) fhash dict true 0)).
    { intros eof' He'. unfold mu, idxlen. rsimpl. cbn [length].
      destruct eof'; [lia|].
      destruct next as [|c1 nx]; [destruct He' as [_ Hx]; specialize (Hx eq_refl); discriminate|]. cbn [length]. lia. }
    assert (Hext : forall eof', Extra (mkR rest [] 0 next eof' [] dcloc (Some []) fhash dict true 0)).
    { intros eof' c0 cs E1 E2. rsimpl. exfalso. rewrite Hck in E1. rewrite <- E2 in E1. exact (suffix_shorter pre c next E1). }
    destruct next as [|c1 next1]; rsimpl; (split; [reflexivity|]); split.
    + apply Hmu. split; reflexivity.
    + apply Hext.
    + apply Hmu. split; discriminate.
    + apply Hext.
  - cbv zeta. rsimpl. rewrite Hch.
    set (rs := if c_clen c <? loc + n then u64 (c_clen c + two64 - loc) else n).
    assert (Hrs : 0 < rs /\ rs <= c_clen c - loc).
    { unfold rs. destruct (N.ltb_spec (c_clen c) (loc + n)).
      - assert (Hl : c_clen c < two64) by lia. unfold u64, two64 in *. lia.
      - lia. }
    fold rs.
    remember (takeN rs rest) as src eqn:Esrc.
    assert (Hls : len src = rs).
    { subst src rest. rewrite len_takeN, len_dropN. fold off. lia. }
    assert (Hne : src <> []) by (intros ->; cbn in Hls; lia).
    rewrite Hls, N.ltb_irrefl.
    assert (Hfin : forall ch fh,
              mu (mkR (dropN rs rest) ([] ++ src) (loc + rs) (c :: next) false [] dcloc ch fh dict true 0) <
              mu (mkR rest [] loc (c :: next) false [] dcloc (Some (sub b off loc)) fhash dict true 0) /\
              Extra (mkR (dropN rs rest) ([] ++ src) (loc + rs) (c :: next) false [] dcloc ch fh dict true 0)).
    { intros ch fh. split.
      - unfold mu, idxlen. rsimpl. rewrite len_dropN.
        assert (Hlr : rs <= len rest) by (rewrite <- Hls, Esrc, len_takeN; lia).
        destruct src; cbn [app]; try congruence; lia.
      - intros c0 cs E1 E2. rsimpl. apply (Hex c0 cs E1 E2). }
    destruct (uflag hd) eqn:Huf.
    + rsimpl. rewrite (hash_update_some _ src Hne). rsimpl. split; [reflexivity|]. apply Hfin.
    + rewrite (Hfh eq_refl). rsimpl. repeat (rewrite (hash_update_some _ src Hne); rsimpl). split; [reflexivity|]. apply Hfin.
Qed.

Lemma step_prog_n imp n del0 st out :
  0 < n -> len out < n ->
  (imp = true -> n = first_ulen hd /\ del0 = []) ->
  Jn' imp false (del0 ++ out) st -> Extra st ->
  match comp_step H zdecomp hd (negb imp) n st out false with
  | SCont st' out' frd' => frd' = false /\ mu st' < mu st /\ Extra st'
  | SDone (ROk o) st' => mu st' <= mu st /\ Extra st' /\ len o <= n
  | SDone (RErr _) _ => False
  | SDone RFuel _ => False
  end.
Proof.
  intros Hpos Hlo Hi HJ Hex.
  unfold comp_step. cbv zeta.
  set (dl := N.min (n - len out) (len (r_dc st))).
  pose proof (Jn_take H zdecomp hd f imp false (del0 ++ out) st dl (r_dcloc st + dl) HJ) as HJ1.
  rewrite <- app_assoc in HJ1.
  pose proof (mu_take st dl (r_dcloc st + dl)) as [Hmu1 Hmu2].
  pose proof (Extra_set_dc st (dropN dl (r_dc st)) (r_dcloc st + dl) Hex) as Hex1.
  set (out1 := out ++ takeN dl (r_dc st)) in *.
  set (st1 := set_dc st (dropN dl (r_dc st)) (r_dcloc st + dl)) in *.
  assert (Hlo1 : len out1 = len out + dl).
  { unfold out1. rewrite len_app, len_takeN. fold dl. unfold dl. lia. }
  destruct (N.eqb_spec (len out1) n) as [Hfull|Hnf].
  { split; [assumption|]. split; [assumption|lia]. }
  destruct (N.ltb_spec 0 dl) as [Hdl|Hdl].
  { split; [reflexivity|]. split; [|exact Hex1]. apply Hmu2; unfold dl in *; lia. }
  assert (Hdc : r_dc st = []).
  { apply len_0_nil. unfold dl in Hdl. lia. }
  assert (Hdc1 : r_dc st1 = []) by (unfold st1; rsimpl; rewrite Hdc; apply dropN_nil).
  destruct (r_eof st1) eqn:Heof1.
  { split; [assumption|]. split; [assumption|unfold dl in *; lia]. }
  assert (Hil : imp = true -> len (del0 ++ out1) < n /\ n = first_ulen hd).
  { intros E. destruct (Hi E) as [-> ->]. cbn [app]. split; [lia|reflexivity]. }
  clearbody st1 out1. clear HJ Hdc dl Hdl Hmu2 Hlo1.
  destruct (r_data st1) as [|x dat] eqn:Edata.
  2:{ destruct HJ1 as (He & Hs & _).
    dst st1. subst dc data eof.
    change (0 <? len (x :: dat)) with (0 <? N.of_nat (S (length dat))).
    destruct (N.ltb_spec 0 (N.of_nat (S (length dat)))) as [_|Hx]; [|lia].
    unfold decompress. rewrite nozstd by exact Hn. unfold set_data, add_to_dc, set_dc. rsimpl.
    assert (Hchg : negb (0 + len ([] ++ x :: dat) =? dcloc + len []) || negb (0 =? dcloc) = true).
    { destruct (N.eqb_spec 0 dcloc) as [<-|Hne]; [|apply orb_true_r]. cbn [negb orb]. rewrite orb_false_r.
      cbn [app]. rewrite len_cons. change (len []) with 0.
      destruct (N.eqb_spec (0 + (1 + len dat)) (0 + 0)); [lia|reflexivity]. }
    rewrite Hchg. split; [reflexivity|]. split.
    - eapply N.lt_le_trans; [|exact Hmu1]. unfold mu, idxlen. rsimpl. cbn [app]. lia.
    - intros c0 cs E1 E2. exact (Hex1 c0 cs E1 E2). }
  change (0 <? len []) with false. cbv iota. rewrite !N.eqb_refl. cbn [negb orb].
  destruct HJ1 as (He & Hs & [HN|HR]).
  - destruct HN as (A1 & A2 & A3 & A4 & A5 & A6 & A7 & A8 & A9).
    dst st1. subst idx eof loc data dc rest dict err started.
    unfold step_init. rsimpl.
    assert (Hexc : exists c0 cs, h_chunks hd = c0 :: cs).
    { pose proof Hnonempty as Hq. destruct (h_chunks hd) as [|c0 cs]; [congruence|eauto]. }
    destruct Hexc as (c0 & cs & Eck). rewrite Eck.
    apply app_eq_nil in A6. destruct A6 as [-> ->].
    change (0 <? 0) with false. cbv iota.
    destruct (chunk_sizes H zdecomp hd f Hstarts Hsizes [] c0 cs Eck) as [_ Hst0]. cbn in Hst0.
    fold (skip0 c0).
    remember (if skip0 c0 then cs else c0 :: cs) as idx0 eqn:Eidx.
    set (pre := if skip0 c0 then [c0] else []).
    unfold set_chash, set_idx. rsimpl.
    set (st3 := mkR b [] 0 idx0 false [] dcloc (Some []) fhash None true 0).
    assert (Hmu3 : mu st3 <= mu st).
    { etransitivity; [|exact Hmu1]. unfold mu, idxlen, st3. rsimpl. rewrite Eck.
      destruct idx0 as [|ci nx]; [lia|]. destruct (skip0 c0); [subst cs|injection Eidx as <- <-]; cbn [length]; lia. }
    assert (Hex3 : Extra st3).
    { intros c0' cs' E1 E2. unfold st3 in E2. rsimpl. rewrite Eck in E1. injection E1 as <- <-.
      destruct (skip0 c0); [|reflexivity]. exfalso. apply (f_equal (@length chunk)) in E2. rewrite Eidx in E2. cbn in E2. lia. }
    destruct idx0 as [|c next].
    { unfold step_chunk. subst st3. rsimpl. split; [assumption|]. split; [assumption|cbn; lia]. }
    assert (HRn : RUNn' imp false [] st3).
    { exists pre. subst st3. rsimpl. unfold cur_clen. rsimpl.
      assert (Ht : data_total pre = 0).
      { unfold pre. destruct (skip0 c0) eqn:Hsk; [|reflexivity]. unfold skip0 in Hsk. apply andb_true_iff in Hsk.
        destruct Hsk as [Hc0 _]. apply N.eqb_eq in Hc0. cbn. lia. }
      rewrite Ht. cbn [N.add]. rewrite takeN_0.
      split. { rewrite Eidx, Eck. unfold pre. destruct (skip0 c0); reflexivity. }
      split. { split; discriminate. }
      split.
      { unfold pre. destruct (skip0 c0) eqn:Hsk; [|reflexivity]. cbn [ver]. unfold dec1. rewrite Hsk. cbn [andb].
        unfold chunk_ok. rewrite Hst0. unfold skip0 in Hsk. apply andb_true_iff in Hsk. destruct Hsk as [Hc0 Hu0].
        rewrite Hc0, Hu0. apply N.eqb_eq in Hc0. rewrite Hc0. cbn [N.add andb orb].
        destruct (N.leb_spec 0 (len b)); [reflexivity|lia]. }
      split; [reflexivity|]. split; [lia|]. split; [lia|]. split; [reflexivity|]. split; [reflexivity|].
      split; [exact A8|]. split; [intros; reflexivity|].
      intros E. split; [reflexivity|]. split.
      - unfold pre. destruct (skip0 c0) eqn:Hsk; [|reflexivity]. exfalso.
        unfold skip0 in Hsk. apply andb_true_iff in Hsk. destruct Hsk as [_ Hu0]. apply N.eqb_eq in Hu0.
        destruct (Hi E) as [Hn1 _]. unfold first_ulen in Hn1. rewrite Eck in Hn1. lia.
      - left. split; reflexivity. }
    pose proof (chunk_prog_n imp n [] st3 [] c next Hpos eq_refl eq_refl HRn eq_refl eq_refl eq_refl Hex3) as Hc.
    cbn [app] in Hil. specialize (Hc Hil).
    destruct (step_chunk H zdecomp hd (negb imp) n st3 [] false) as [st' out' frd'|r st']; [|contradiction].
    destruct Hc as (-> & Hc1 & Hc2). split; [reflexivity|]. split; [lia|exact Hc2].
  - assert (Hcopy := HR).
    destruct HR as (pre & B1 & B2 & _).
    destruct (r_idx st1) as [|c next] eqn:Eidx.
    { destruct B2 as [_ B2]. rewrite (B2 eq_refl) in Heof1. discriminate. }
    unfold step_init. rewrite Eidx.
    pose proof (chunk_prog_n imp n (del0 ++ out1) st1 out1 c next Hpos He Hs Hcopy Hdc1 Edata Eidx Hex1 Hil) as Hc.
    destruct (step_chunk H zdecomp hd (negb imp) n st1 out1 false) as [st' out' frd'|r st']; [|contradiction].
    destruct Hc as (-> & Hc1 & Hc2). split; [reflexivity|]. split; [lia|exact Hc2].
Qed.

Lemma loop_prog_n imp n del0 : forall fuel st out,
  mu st < N.of_nat fuel ->
  0 < n -> len out < n ->
  (imp = true -> n = first_ulen hd /\ del0 = []) ->
  Jn' imp false (del0 ++ out) st -> Extra st ->
  match comp_loop H zdecomp hd fuel (negb imp) n st out false with
  | (ROk o, st') => Jn' imp false (del0 ++ o) st' /\ r_dict st' = r_dict st /\ (len o < n -> finished hd st') /\
                    mu st' <= mu st /\ Extra st' /\ len o <= n
  | (RErr _, _) => False
  | (RFuel, _) => False
  end.
Proof.
  induction fuel as [|fuel IH]; intros st out Hmu Hpos Hlo Hi HJ Hex; [lia|]. cbn [comp_loop].
  pose proof (step_inv_n H zdecomp hd f Hstarts Hsizes Hn Hnonempty imp n del0 st out false Hpos Hlo Hi HJ) as Hs.
  pose proof (step_prog_n imp n del0 st out Hpos Hlo Hi HJ Hex) as Hp.
  destruct (comp_step H zdecomp hd (negb imp) n st out false) as [st' out' frd'|[o| |] st']; try contradiction.
  - destruct Hs as (HJ' & Hlo' & Hd'). destruct Hp as (-> & Hm' & Hex').
    pose proof (IH st' out' ltac:(lia) Hpos Hlo' Hi HJ' Hex') as Hr.
    destruct (comp_loop H zdecomp hd fuel (negb imp) n st' out' false) as [[o| |] st'']; try contradiction.
    destruct Hr as (R1 & R2 & R3 & R4 & R5 & R6). split; [exact R1|]. split; [congruence|]. split; [exact R3|]. split; [lia|]. split; [exact R5|exact R6].
  - destruct Hs as (R1 & R2 & R3). destruct Hp as (P1 & P2 & P3).
    split; [exact R1|]. split; [exact R2|]. split; [exact R3|]. split; [exact P1|]. split; [exact P2|exact P3].
Qed.

Lemma import_prog_n fuel st :
  mu st < N.of_nat fuel ->
  r_err st = 0 -> r_started st = true -> NS hd f [] st -> 0 < first_ulen hd -> Extra st ->
  match import_dict H zdecomp hd fuel st with
  | (true, st') => mu st' <= mu st /\ Extra st'
  | (false, _) => False
  end.
Proof.
  intros Hmu He Hs HN Hfu Hex. unfold import_dict. rewrite He. change (0 <? 0) with false. cbv iota.
  destruct (N.eqb_spec (first_ulen hd) 0) as [E|_]; [lia|].
  unfold comp_read_nd. rewrite He, Hs. change (0 <? 0) with false. cbn [negb]. cbv iota.
  destruct (N.eqb_spec (first_ulen hd) 0) as [E|_]; [lia|].
  assert (HJ : Jn' true false ([] ++ []) st) by (split; [exact He|split; [exact Hs|now left]]).
  pose proof (loop_prog_n true (first_ulen hd) [] fuel st [] Hmu Hfu ltac:(cbn; lia) ltac:(intros _; split; reflexivity) HJ Hex) as Hl.
  cbn [negb] in Hl.
  destruct (comp_loop H zdecomp hd fuel false (first_ulen hd) st [] false) as [[d| |] st1]; try contradiction.
  destruct Hl as (HJ1 & Hd1 & Hf & Hm1 & Hex1 & Hle). cbn [app] in HJ1.
  destruct (N.eqb_spec (len d) (first_ulen hd)) as [Hld|Hld].
  - destruct HJ1 as (He1 & Hs1 & _). unfold comp_reset, comp_init. rsimpl. rewrite He1. change (0 <? 0) with false. cbv iota. rsimpl.
    split.
    + etransitivity; [|exact Hm1]. unfold mu, idxlen. dst st1. unfold set_started, set_dict, set_dc. rsimpl. destruct dc; lia.
    + intros a l E1 E2. exact (Hex1 a l E1 E2).
  - exfalso. assert (Hlt : len d < first_ulen hd) by lia. specialize (Hf Hlt).
    assert (Hex0 : exists c0 cs, h_chunks hd = c0 :: cs).
    { pose proof Hnonempty as Hq. destruct (h_chunks hd) as [|c0 cs]; [congruence|eauto]. }
    destruct Hex0 as (c0 & cs & Eck).
    destruct HJ1 as (_ & _ & [HN1|HR1]).
    + destruct Hf as [[Hx _]|(c0' & Eck' & Hsk & _)].
      * destruct HN1 as (_ & Hx2 & _). congruence.
      * rewrite Eck in Eck'. injection Eck' as <- _. unfold skip0 in Hsk. apply andb_true_iff in Hsk. destruct Hsk as [_ Hu0].
        apply N.eqb_eq in Hu0. unfold first_ulen in Hfu. rewrite Eck in Hfu. lia.
    + destruct HR1 as (pre & B1 & B2 & B3 & B4 & B5 & B6 & B7 & B8 & B9 & B10 & B11).
      destruct Hf as [[Heof Hdc]|(c0' & _ & _ & Hidx & Heof)].
      2:{ destruct B2 as [_ B2]. rewrite (B2 Hidx) in Heof. discriminate. }
      destruct B2 as [B2 _]. specialize (B2 Heof). destruct (B11 eq_refl) as (_ & -> & _).
      rewrite B2 in B1. cbn in B1. congruence.
Qed.

Lemma read_prog_n fuel st n uout :
  mu st < N.of_nat fuel -> 0 < n -> CIn' uout st -> Extra st ->
  match zck_read H zdecomp hd fuel st n with
  | (ROk o, st') => CIn' (uout ++ o) st' /\ (len o < n -> finished hd st') /\ mu st' <= mu st /\ Extra st' /\ len o <= n
  | (RErr _, _) => False
  | (RFuel, _) => False
  end.
Proof.
  intros Hmu Hpos (He & Hs & HC) Hex. unfold zck_read, comp_read. rewrite He, Hs. change (0 <? 0) with false. cbn [negb]. cbv iota.
  destruct (N.eqb_spec n 0) as [E|_]; [lia|]. cbn [andb].
  destruct ((0 <? first_ulen hd) && match r_dict st with None => true | Some _ => false end) eqn:Hcond.
  - apply andb_true_iff in Hcond. destruct Hcond as [Hfu Hdn]. apply N.ltb_lt in Hfu.
    destruct (r_dict st) eqn:Ed; [discriminate|].
    destruct HC as [[HN ->]|[_ Hc]].
    2:{ unfold dpart in Hc. rewrite Ed in Hc. cbn in Hc. lia. }
    pose proof (import_inv_n H zdecomp hd f Hstarts Hsizes Hn Hnonempty fuel st He Hs HN Hfu) as Hi.
    pose proof (import_prog_n fuel st Hmu He Hs HN Hfu Hex) as Hp.
    destruct (import_dict H zdecomp hd fuel st) as [[|] st1]; [|contradiction].
    destruct Hi as (d & Hd & Hld & HR & He1 & Hs1). destruct Hp as [Hm1 Hex1].
    assert (HJ : Jn' false false (d ++ []) st1) by (rewrite app_nil_r; split; [exact He1|split; [exact Hs1|now right]]).
    pose proof (loop_prog_n false n d fuel st1 [] ltac:(lia) Hpos ltac:(cbn; lia) ltac:(intros; discriminate) HJ Hex1) as Hl.
    cbn [negb] in Hl.
    destruct (comp_loop H zdecomp hd fuel true n st1 [] false) as [[o| |] st2]; try contradiction.
    destruct Hl as ((He2 & Hs2 & HJ2) & Hd2 & Hf & Hm2 & Hex2 & Hle).
    split; [|split; [exact Hf|split; [lia|split; [exact Hex2|exact Hle]]]].
    split; [exact He2|]. split; [exact Hs2|]. right.
    destruct HJ2 as [HN2|HR2].
    { destruct HN2 as (_ & _ & _ & _ & _ & _ & _ & _ & Hx). congruence. }
    unfold dpart. rewrite Hd2, Hd. cbn [app]. split; [exact HR2|exact Hld].
  - assert (HJ : Jn' false false ((dpart st ++ uout) ++ []) st).
    { rewrite app_nil_r. split; [exact He|]. split; [exact Hs|]. destruct HC as [[HN ->]|[HR _]].
      - left. destruct HN as (A1 & A2 & A3 & A4 & A5 & A6 & A7 & A8 & A9). unfold dpart. rewrite A9.
        repeat split; assumption.
      - now right. }
    pose proof (loop_prog_n false n (dpart st ++ uout) fuel st [] Hmu Hpos ltac:(cbn; lia) ltac:(intros; discriminate) HJ Hex) as Hl.
    cbn [negb] in Hl.
    destruct (comp_loop H zdecomp hd fuel true n st [] false) as [[o| |] st2]; try contradiction.
    destruct Hl as ((He2 & Hs2 & HJ2) & Hd2 & Hf & Hm2 & Hex2 & Hle).
    split; [|split; [exact Hf|split; [exact Hm2|split; [exact Hex2|exact Hle]]]].
    split; [exact He2|]. split; [exact Hs2|].
    destruct HJ2 as [HN2|HR2].
    + left. destruct HN2 as (A1 & A2 & A3 & A4 & A5 & A6 & A7 & A8 & A9).
      apply app_eq_nil in A6. destruct A6 as [A6 ->]. apply app_eq_nil in A6. destruct A6 as [_ ->].
      split; [|reflexivity]. repeat split; assumption.
    + right. unfold dpart in *. rewrite Hd2. rewrite <- app_assoc in HR2. split; [exact HR2|].
      destruct HC as [[HN ->]|[_ Hc]]; [|exact Hc].
      destruct HN as (_ & _ & _ & _ & _ & _ & _ & _ & A9). rewrite A9 in *. cbn.
      apply andb_false_iff in Hcond. destruct Hcond as [Hc|Hc]; [apply N.ltb_ge in Hc; lia|discriminate].
Qed.

Lemma d0_len_n c0 cs : cks = c0 :: cs -> len d0 = c_ulen c0.
Proof.
  intros E. pose proof (Hfirst c0 cs E) as Hf. unfold dec1 in Hf. cbn [andb] in Hf. destruct (skip0 c0) eqn:Hsk.
  - injection Hf as Hf. rewrite <- Hf. unfold skip0 in Hsk. apply andb_true_iff in Hsk. destruct Hsk as [_ Hu]. apply N.eqb_eq in Hu. now rewrite Hu.
  - unfold decode_chunk in Hf. rewrite Hn in Hf. destruct (N.eqb_spec (c_ulen c0) (c_clen c0)) as [Hcu|]; [|discriminate].
    injection Hf as Hf. rewrite <- Hf. pose proof Hspec as Hsp. rewrite E in Hsp.
    destruct (ver_mid true (dictv d0) [] c0 cs _ Hsp) as [Hc _]. unfold chunk_ok in Hc. apply andb_true_iff in Hc.
    destruct Hc as [Hb _]. apply N.leb_le in Hb. unfold stored. rewrite len_sub by exact Hb. now rewrite Hcu.
Qed.

Lemma CIn_bound uout st : CIn' uout st -> len uout <= len D.
Proof.
  intros (_ & _ & [[_ ->]|[(pre & B1 & B2 & B3 & B4 & B5 & B6 & B7 & B8 & B9 & B10 & B11) Hdp]]); [cbn; lia|].
  assert (Hex0 : exists c0 cs, h_chunks hd = c0 :: cs).
  { pose proof Hnonempty as Hq. destruct (h_chunks hd) as [|c0 cs]; [congruence|eauto]. }
  destruct Hex0 as (c0 & cs & Eck).
  assert (Hfu : first_ulen hd = c_ulen c0) by (unfold first_ulen; now rewrite Eck).
  pose proof (d0_len_n c0 cs Eck) as Hl0.
  assert (Hall : data_total pre + r_loc st <= len d0 + len D).
  { pose proof Hspec as Hsp. rewrite (ver_nodict true (dictv d0) None) in Hsp. rewrite B1 in Hsp.
    destruct (r_idx st) as [|c next] eqn:Eidx.
    - rewrite app_nil_r in Hsp. rewrite B3 in Hsp. injection Hsp as Hsp. unfold cur_clen in B5. rewrite Eidx in B5.
      apply (f_equal len) in Hsp. rewrite len_takeN, len_app in Hsp. lia.
    - destruct (ver_mid true None pre c next _ Hsp) as [Hc (S1 & d & S2 & E1 & E2 & E3)].
      rewrite B3 in E1. injection E1 as <-.
      destruct (chunk_sizes H zdecomp hd f Hstarts Hsizes pre c next B1) as [_ Hstart].
      unfold chunk_ok in Hc. apply andb_true_iff in Hc. destruct Hc as [Hb _]. apply N.leb_le in Hb. rewrite Hstart in Hb.
      unfold cur_clen in B5. rewrite Eidx in B5.
      assert (Hld : r_loc st <= len d).
      { unfold dec1 in E2. destruct (hflag true pre && skip0 c) eqn:Hsk.
        - apply andb_true_iff in Hsk. destruct Hsk as [_ Hsk]. unfold skip0 in Hsk. apply andb_true_iff in Hsk.
          destruct Hsk as [Hc0 _]. apply N.eqb_eq in Hc0. lia.
        - unfold decode_chunk in E2. rewrite Hn in E2. destruct (c_ulen c =? c_clen c); [|discriminate]. injection E2 as <-.
          unfold stored. rewrite Hstart, len_sub by exact Hb. exact B5. }
      apply (f_equal len) in E3. rewrite !len_app, len_takeN in E3. lia. }
  apply (f_equal len) in B4. rewrite !len_app, len_takeN in B4. lia.
Qed.

Hypothesis Hdok : data_ok H hd b = true.
Hypothesis Hdec : spec_decode zdecomp hd f = Some D.

Lemma close_true_n out st : CIn' out st -> finished hd st -> fst (zck_close H hd st) = true.
Proof.
  intros (He & Hs & HC) Hfin. unfold zck_close. rewrite He. change (0 <? 0) with false. cbv iota.
  destruct (uflag hd) eqn:Huf; [reflexivity|].
  pose proof Hdok as Hd. unfold data_ok in Hd. rewrite Huf in Hd. apply andb_true_iff in Hd. destruct Hd as [_ Hd]. cbn [orb] in Hd.
  destruct HC as [[HN _]|[HR _]].
  - destruct HN as (A1 & A2 & A3 & A4 & A5 & A6 & A7 & A8 & A9). rewrite (A8 Huf). cbn [fst].
    destruct Hfin as [[Hx _]|(c0 & Eck & Hsk & _)]; [congruence|].
    rewrite Eck in Hd. unfold skip0 in Hsk. apply andb_true_iff in Hsk. destruct Hsk as [Hc0 _]. apply N.eqb_eq in Hc0.
    cbn [data_total fold_right] in Hd. rewrite Hc0 in Hd. exact Hd.
  - destruct HR as (pre & B1 & B2 & B3 & B4 & B5 & B6 & B7 & B8 & B9 & B10 & B11).
    destruct Hfin as [[Heof Hdc]|(c0 & _ & _ & Hidx & Heof)].
    2:{ destruct B2 as [_ B2]. rewrite (B2 Hidx) in Heof. discriminate. }
    destruct B2 as [B2 _]. specialize (B2 Heof). rewrite B2, app_nil_r in B1. subst pre.
    unfold cur_clen in B5. rewrite B2 in B5. assert (Hl0 : r_loc st = 0) by lia. rewrite Hl0, N.add_0_r in *.
    rewrite (B9 Huf). cbn [fst]. exact Hd.
Qed.

Lemma read_all_prog_n fuel : forall sizes st acc,
  Forall (fun n => 0 < n) sizes -> CIn' acc st -> Extra st -> mu st < N.of_nat fuel ->
  match read_all H zdecomp hd fuel st sizes acc with
  | (out, e, st') =>
      e <> Some false /\ (e = Some true -> CIn' out st' /\ finished hd st') /\
      (len D + 1 <= len acc + N.of_nat (length sizes) -> e = Some true)
  end.
Proof.
  induction sizes as [|n sizes IH]; intros st acc Hpos HC Hex Hmu; cbn [read_all].
  - split; [discriminate|]. split; [discriminate|]. intros Hl. pose proof (CIn_bound acc st HC). cbn in Hl. lia.
  - inversion Hpos as [|? ? Hn0 Hpos']; subst.
    pose proof (read_prog_n fuel st n acc Hmu Hn0 HC Hex) as Hr.
    destruct (zck_read H zdecomp hd fuel st n) as [[o| |] st1]; try contradiction.
    destruct Hr as (HC1 & Hf & Hm1 & Hex1 & _). destruct o as [|x o].
    + rewrite app_nil_r in HC1. split; [discriminate|]. split; [|reflexivity]. intros _. split; [exact HC1|]. apply Hf. cbn. exact Hn0.
    + specialize (IH st1 (acc ++ x :: o) Hpos' HC1 Hex1 ltac:(lia)).
      destruct (read_all H zdecomp hd fuel st1 sizes (acc ++ x :: o)) as [[out e] st'].
      destruct IH as (I1 & I2 & I3). split; [exact I1|]. split; [exact I2|]. intros Hl. apply I3.
      rewrite len_app, len_cons. cbn [length] in Hl. lia.
Qed.

Theorem read_complete_n fuel sizes :
  (fuel_bound <= fuel)%nat -> Forall (fun n => 0 < n) sizes ->
  match read_all H zdecomp hd fuel (open_state hd f) sizes [] with
  | (out, e, st') =>
      e <> Some false /\
      (e = Some true -> out = D /\ fst (zck_close H hd st') = true) /\
      (len D < N.of_nat (length sizes) -> e = Some true)
  end.
Proof.
  intros Hfuel Hpos.
  pose proof (read_all_prog_n fuel sizes (open_state hd f) [] Hpos
                (open_CIn H zdecomp hd f) open_Extra ltac:(pose proof open_mu; lia)) as Hr.
  destruct (read_all H zdecomp hd fuel (open_state hd f) sizes []) as [[out e] st'].
  destruct Hr as (R1 & R2 & R3). split; [exact R1|]. split.
  - intros He. destruct (R2 He) as [HC Hf]. pose proof (close_true_n out st' HC Hf) as Hcl. split; [|exact Hcl].
    destruct (zck_close H hd st') as [cl st2] eqn:Ecl. cbn [fst] in Hcl. subst cl.
    destruct (final_spec_n H zdecomp hd f Hstarts Hsizes Hn Hnonempty out st' st2 HC Hf Ecl) as [_ Hd]. congruence.
  - intros Hl. apply R3. cbn. lia.
Qed.
End ProgressN.
End Complete.

(** ** reader completeness, both compression types.
    [read_all] performs one zck_read per buffer size until a call returns 0 bytes
    ([Some true]), a call fails ([Some false]) or the size list is used up ([None]).
    On a file the specification verifies and decodes to [D]: no call ever fails; if a call
    returned 0 the bytes handed out before are exactly [D] and zck_close returns true; and a
    call does return 0 as soon as the list has more than [len D] sizes (every earlier call
    hands out at least one byte).  Fuel: [fuel_bound] = 3 * body length + 2 * entries + 1 loop
    iterations per call.  No other side condition: an entry with no stored bytes and a
    non-zero declared size is handled (zstd) or excluded by spec_decode itself (type 0). *)
Theorem read_complete H zdecomp hd f D fuel sizes :
  starts_ok 0 (h_chunks hd) -> data_total (h_chunks hd) < two64 -> h_chunks hd <> [] ->
  spec_verify H hd f = true -> spec_decode zdecomp hd f = Some D ->
  (fuel_bound hd f <= fuel)%nat -> Forall (fun n => 0 < n) sizes ->
  match read_all H zdecomp hd fuel (open_state hd f) sizes [] with
  | (out, e, st') =>
      e <> Some false /\
      (e = Some true -> out = D /\ fst (zck_close H hd st') = true) /\
      (len D < N.of_nat (length sizes) -> e = Some true)
  end.
Proof.
  intros Hst Hsz Hne Hv Hd Hfuel Hpos.
  destruct (spec_to_ver H zdecomp hd f Hst Hsz Hne D Hv Hd) as (d0 & Hspec & Hfirst).
  assert (Hdok : data_ok H hd (body hd f) = true).
  { unfold spec_verify in Hv. apply andb_true_iff in Hv. tauto. }
  destruct (is_zstd hd) eqn:Hz.
  - exact (read_complete_z H zdecomp hd f Hst Hsz Hne Hz d0 D Hspec Hfirst Hdok Hd fuel sizes Hfuel Hpos).
  - exact (read_complete_n H zdecomp hd f Hst Hsz Hne Hz d0 D Hspec Hfirst Hdok Hd fuel sizes Hfuel Hpos).
Qed.
