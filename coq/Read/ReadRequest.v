(** Reader proofs, part 6: SOUNDNESS of the chunk-request API on ARBITRARY files.
    If zck_get_chunk_data of entry k with a buffer of at least the declared size succeeds,
    the first [declared size] bytes returned are the content the specification decodes from
    that entry, and the stored bytes match the index checksum - both compression types,
    whatever the rest of the file looks like. *)
From ZV Require Import Base.Bytes Gen.GenConsts Format.Compint Format.Header Format.ParseProofs
                       Read.ReadSpec Read.CompRead Read.ReadLemmas Read.ReadProofs Read.ReadAccess Read.ReadAccess2.
Local Open Scope N_scope.
Ltac Zify.zify_post_hook ::= Z.to_euclidean_division_equations.

Section Request.
Variable H : N -> bytes -> bytes.
Variable zdecomp : option bytes -> bytes -> N -> option bytes.
Variable hd : header.
Variable f : bytes.
Notation cks := (h_chunks hd).
Notation b := (body hd f).
Notation zs := (is_zstd hd).

(** the requested entry [c] (followed by [next]) is stored at [off]; [dict'] is the
    dictionary the loop decodes it with *)
Variable c : chunk.
Variable next : list chunk.
Variable off : N.
Variable dict' : option bytes.
Hypothesis Hcl : off + c_clen c < two64.

Definition vok : Prop :=
  (0 < c_clen c -> off + c_clen c <= len b) /\
  (if c_clen c =? 0 then all_zero (c_digest c)
   else bytes_eqb (H (h_chash hd) (sub b off (c_clen c))) (c_digest c)) = true.

Definition total (st : rstate) (out : bytes) : bytes :=
  out ++ r_dc st ++ (if zs then [] else r_data st).

Definition RQopen (st : rstate) (out : bytes) : Prop :=
  r_idx st = c :: next /\ r_eof st = false /\ r_loc st <= c_clen c /\ (0 < r_loc st -> off + r_loc st <= len b) /\
  r_rest st = dropN (off + r_loc st) b /\ r_chash st = Some (sub b off (r_loc st)) /\
  (if zs then r_data st = sub b off (r_loc st) /\ out = [] /\ r_dc st = []
   else out ++ r_dc st ++ r_data st = sub b off (r_loc st) /\ (r_dc st = [] \/ r_data st = [])).

Definition RQclosed (st : rstate) (out : bytes) : Prop :=
  exists d x, vok /\ decode_chunk zdecomp zs dict' c (sub b off (c_clen c)) = Some d /\
    total st out = d ++ x /\ (length (r_idx st) < length (c :: next))%nat /\
    (r_idx st = [] -> r_eof st = true) /\ (zs = false -> r_eof st = true -> r_data st = []).

Definition RQ (st : rstate) (out : bytes) : Prop := RQopen st out \/ RQclosed st out.

Lemma RQ_take st out dl x :
  RQ st out -> RQ (set_dc st (dropN dl (r_dc st)) x) (out ++ takeN dl (r_dc st)).
Proof.
  intros [HO|HC].
  - left. destruct HO as (A1 & A2 & A3 & A4 & A5 & A6 & A7). dst st. unfold RQopen. rsimpl.
    repeat (split; [assumption|]). destruct zs.
    + destruct A7 as (B1 & B2 & B3). subst. rewrite takeN_nil, dropN_nil. repeat split; reflexivity.
    + destruct A7 as [B1 B2]. split.
      * rewrite <- B1, <- !app_assoc. f_equal. rewrite app_assoc, take_drop. reflexivity.
      * destruct B2 as [-> | ->]; [left; apply dropN_nil|now right].
  - right. destruct HC as (d & y & C1 & C2 & C3 & C4 & C5 & C6). exists d, y. dst st. unfold total in *. rsimpl.
    split; [exact C1|]. split; [exact C2|]. split; [|repeat split; assumption].
    rewrite <- C3, <- !app_assoc. f_equal. rewrite app_assoc, take_drop. reflexivity.
Qed.

(** what a successful end-of-chunk and a bounded read do to the buffers, on any state *)
Lemma end_dchunk_some st ud ci nexti st4 ste :
  end_dchunk H zdecomp hd st ud ci nexti = (Some st4, ste) ->
  r_idx st4 = nexti /\ r_eof st4 = r_eof st /\ r_dict st4 = r_dict st /\
  (if zs then r_data st4 = [] /\ exists d', r_dc st4 = r_dc st ++ d'
   else r_data st4 = r_data st /\ r_dc st4 = r_dc st).
Proof.
  unfold end_dchunk, validate_current. destruct (r_chash st) as [acc|]; [|discriminate].
  match goal with |- context [if ?ok then Some _ else None] => destruct ok end; [|discriminate].
  unfold backend_end_dchunk, zstd. destruct zs.
  - rsimpl. destruct (zdecomp _ _ _) as [d|]; [|discriminate]. destruct (len d =? c_ulen ci); [|discriminate].
    intros E. injection E as <- _. unfold set_chash, set_idx, set_data, add_to_dc, set_dc. rsimpl.
    repeat split; try reflexivity. now exists d.
  - rsimpl. destruct (r_loc st =? c_ulen ci); [|discriminate].
    intros E. injection E as <- _. unfold set_chash, set_idx, set_data. rsimpl. repeat split; reflexivity.
Qed.

Lemma step_chunk_read ud n st out ci nexti :
  r_idx st = ci :: nexti -> r_loc st <> c_clen ci ->
  match step_chunk H zdecomp hd ud n st out false with
  | SCont st' out' _ => out' = out /\ r_idx st' = r_idx st /\ r_eof st' = r_eof st /\ r_dc st' = r_dc st /\
                        r_dict st' = r_dict st /\ exists src, r_data st' = r_data st ++ src
  | SDone (ROk _) _ => False
  | _ => True
  end.
Proof.
  intros Hidx Hne. unfold step_chunk. destruct (r_idx st) as [|c1 n1] eqn:E; [discriminate|]. injection Hidx as -> ->.
  destruct (N.eqb_spec (r_loc st) (c_clen ci)); [contradiction|].
  cbv zeta.
  match goal with |- context [match ?fh with Some _ => _ | None => SDone _ _ end] => destruct fh as [fh'|] end; [|exact I].
  match goal with |- context [match ?ch with Some _ => _ | None => SDone _ _ end] => destruct ch as [ch'|] end; [|exact I].
  unfold set_data, set_chash, set_fhash, set_rest. destruct (r_chash st); rsimpl; repeat split; try reflexivity; try exact E; eexists; reflexivity.
Qed.

Lemma RQ_chunk (ud : bool) n st out (frd : bool) ci nexti :
  0 < n -> RQ st out -> r_dc st = [] -> (zs = false -> r_data st = []) -> r_eof st = false ->
  r_idx st = ci :: nexti -> (if ud then r_dict st else None) = dict' ->
  match step_chunk H zdecomp hd ud n st out frd with
  | SCont st' out' _ => out' = out /\ RQ st' out /\ r_dict st' = r_dict st
  | SDone (ROk _) _ => False
  | _ => True
  end.
Proof.
  intros Hn [HO|HC] Hdc Hdat Heof Hidx Hdict.
  - (* the requested entry is still open *)
    destruct HO as (A1 & A2 & A3 & A4 & A5 & A6 & A7). rewrite A1 in Hidx. injection Hidx as <- <-.
    dst st. subst idx eof dc rest chash. unfold step_chunk. rsimpl.
    destruct (N.eqb_spec loc (c_clen c)) as [Hend|Hmid].
    + subst loc. unfold end_dchunk, validate_current. rsimpl.
      match goal with |- context [if ?ok then Some _ else None] => destruct ok eqn:Hok end; [|exact I].
      unfold backend_end_dchunk, zstd. destruct zs eqn:Ez.
      * destruct A7 as (B1 & B2 & B3). subst data out. unfold set_chash. rsimpl. rewrite Hdict.
        destruct (zdecomp dict' (sub b off (c_clen c)) (c_ulen c)) as [d|] eqn:Ezd; [|exact I].
        destruct (N.eqb_spec (len d) (c_ulen c)) as [Hld|]; [|exact I].
        unfold set_data, set_idx, set_chash, add_to_dc, set_dc. rsimpl.
        assert (Hcl' : RQclosed (mkR (dropN (off + c_clen c) b) [] 0 next (match next with [] => true | _ => false end)
                                  ([] ++ d) 0 (Some []) fhash dict started err) []).
        { exists d, []. split; [split; [exact A4|exact Hok]|]. split.
          - unfold decode_chunk. rewrite Ez, Ezd, Hld, N.eqb_refl. reflexivity.
          - unfold total. rsimpl. rewrite Ez. split; [now rewrite !app_nil_r|]. split; [cbn; lia|].
            split; [intros ->; reflexivity|intros; discriminate]. }
        destruct next; rsimpl; (split; [reflexivity|]); (split; [right; exact Hcl'|reflexivity]).
      * specialize (Hdat eq_refl). subst data. destruct A7 as [B1 _]. rewrite !app_nil_r in B1. subst out.
        unfold set_chash. rsimpl. destruct (N.eqb_spec (c_clen c) (c_ulen c)) as [Hcu|]; [|exact I].
        unfold set_data, set_idx, set_chash. rsimpl.
        assert (Hcl' : forall e, (next = [] -> e = true) ->
                  RQclosed (mkR (dropN (off + c_clen c) b) [] 0 next e [] dcloc (Some []) fhash dict started err) (sub b off (c_clen c))).
        { intros e He. exists (sub b off (c_clen c)), []. split; [split; [exact A4|exact Hok]|]. split.
          - unfold decode_chunk. rewrite Ez, <- Hcu, N.eqb_refl. reflexivity.
          - unfold total. rsimpl. rewrite Ez. split; [now rewrite !app_nil_r|]. split; [cbn; lia|].
            split; [exact He|intros; reflexivity]. }
        destruct next; rsimpl; (split; [reflexivity|]); (split; [right; apply Hcl'|reflexivity]); [reflexivity|discriminate].
    + destruct frd; [exact I|].
      cbv zeta. rsimpl.
      set (rs := if c_clen c <? loc + n then u64 (c_clen c + two64 - loc) else n).
      assert (Hrs : 0 < rs /\ rs <= c_clen c - loc).
      { unfold rs. destruct (N.ltb_spec (c_clen c) (loc + n)).
        - assert (Hl : c_clen c < two64) by lia. unfold u64, two64 in *. lia.
        - lia. }
      remember (takeN rs (dropN (off + loc) b)) as src eqn:Esrc.
      assert (Hls : len src <= rs /\ (0 < len src -> off + loc + len src <= len b)).
      { subst src. rewrite len_takeN, len_dropN. lia. }
      assert (E1 : dropN rs (dropN (off + loc) b) = dropN (off + (loc + len src)) b).
      { subst src. rewrite dropN_extend. f_equal. lia. }
      assert (E2 : sub b off loc ++ src = sub b off (loc + len src)).
      { subst src. apply sub_extend. }
      match goal with |- context [match ?fh with Some _ => _ | None => SDone _ _ end] => destruct fh as [fh'|] end; [|exact I].
      destruct src as [|x0 src']; [cbn [hash_update]; exact I|].
      assert (Hsl : 0 < len (x0 :: src')) by (rewrite len_cons; lia).
      cbn [hash_update]. unfold set_data, set_chash, set_fhash, set_rest. rsimpl.
      split; [reflexivity|]. split; [|reflexivity]. left. unfold RQopen. rsimpl.
      split; [reflexivity|]. split; [reflexivity|]. split; [lia|]. split; [lia|]. split; [exact E1|]. split; [now rewrite E2|].
      destruct zs eqn:Ez.
      * destruct A7 as (B1 & B2 & B3). split; [rewrite B1; exact E2|]. split; assumption.
      * specialize (Hdat eq_refl). subst data. destruct A7 as [B1 _]. rewrite !app_nil_r in B1. cbn [app]. split; [|now left].
        rewrite B1. exact E2.
  - (* it has been closed and verified: later entries only append *)
    destruct HC as (d & x & C1 & C2 & C3 & C4 & C5 & C6).
    destruct (N.eq_dec (r_loc st) (c_clen ci)) as [Hend|Hmid].
    + unfold step_chunk. rewrite Hidx, Hend, N.eqb_refl.
      destruct (end_dchunk H zdecomp hd st ud ci nexti) as [[st4|] ste] eqn:Ee; [|exact I].
      apply end_dchunk_some in Ee. destruct Ee as (E1 & E2 & E3 & E4).
      assert (Hgoal : forall st5, r_idx st5 = nexti -> (nexti = [] -> r_eof st5 = true) -> r_dict st5 = r_dict st ->
                        r_dc st5 = r_dc st4 -> r_data st5 = r_data st4 -> RQ st5 out /\ r_dict st5 = r_dict st).
      { intros st5 F1 F2 F3 F4 F5. split; [|exact F3]. right. unfold RQclosed, total in *. rewrite Hdc in C3.
        destruct zs eqn:Ez.
        - destruct E4 as [G1 (d' & G2)]. exists d, (x ++ d'). split; [exact C1|]. split; [exact C2|].
          rewrite F4, G2, Hdc. cbn [app] in *. rewrite app_nil_r in C3. rewrite app_nil_r, C3, app_assoc.
          split; [reflexivity|]. rewrite F1, Hidx in *. split; [cbn in *; lia|]. split; [exact F2|intros; discriminate].
        - destruct E4 as [G1 G2]. exists d, x. split; [exact C1|]. split; [exact C2|].
          rewrite F4, F5, G1, G2, Hdc. split; [exact C3|]. rewrite F1, Hidx in *. split; [cbn in *; lia|].
          split; [exact F2|]. intros _ _. now apply Hdat. }
      destruct nexti as [|c1 n1].
      * split; [reflexivity|]. apply Hgoal; unfold set_eof; rsimpl; try assumption; try reflexivity.
      * split; [reflexivity|]. apply Hgoal; try assumption; try reflexivity. discriminate.
    + destruct frd.
      { unfold step_chunk. rewrite Hidx. destruct (N.eqb_spec (r_loc st) (c_clen ci)); [contradiction|exact I]. }
      pose proof (step_chunk_read ud n st out ci nexti Hidx Hmid) as Hr.
      destruct (step_chunk H zdecomp hd ud n st out false) as [st' out' frd'|[o| |] st']; try exact I; try contradiction.
      destruct Hr as (-> & R1 & R2 & R3 & R4 & (src & R5)). split; [reflexivity|]. split; [|exact R4].
      right. unfold RQclosed, total in *. destruct zs eqn:Ez.
      * exists d, x. split; [exact C1|]. split; [exact C2|]. rewrite R3. split; [exact C3|]. rewrite R1, R2.
        split; [exact C4|]. split; [exact C5|intros; discriminate].
      * exists d, (x ++ src). split; [exact C1|]. split; [exact C2|]. rewrite R3, R5, (Hdat eq_refl) in *.
        rewrite Hdc in *. cbn [app] in *. rewrite app_nil_r in C3. subst out. rewrite <- app_assoc.
        split; [reflexivity|]. rewrite R1, R2. split; [exact C4|]. split; [exact C5|]. intros _ E. rewrite Heof in E. discriminate.
Qed.

Lemma RQ_excl st out o : RQclosed st out -> RQopen st o -> False.
Proof.
  intros (d & x & _ & _ & _ & C4 & _) (A1 & _). rewrite A1 in C4. lia.
Qed.

Lemma RQ_step (ud : bool) n st out (frd : bool) :
  0 < n -> len out < n -> RQ st out -> (if ud then r_dict st else None) = dict' ->
  match comp_step H zdecomp hd ud n st out frd with
  | SCont st' out' _ => RQ st' out' /\ len out' < n /\ r_dict st' = r_dict st
  | SDone (ROk o) st' => RQ st' o /\ r_dict st' = r_dict st /\
                         (len o = n \/ (r_eof st' = true /\ r_dc st' = [])) /\
                         (zs = false -> RQopen st' o -> r_data st' = [])
  | _ => True
  end.
Proof.
  intros Hn Hlo HQ Hdict.
  unfold comp_step. cbv zeta.
  set (dl := N.min (n - len out) (len (r_dc st))).
  pose proof (RQ_take st out dl (r_dcloc st + dl) HQ) as HQ1.
  set (out1 := out ++ takeN dl (r_dc st)) in *.
  set (st1 := set_dc st (dropN dl (r_dc st)) (r_dcloc st + dl)) in *.
  assert (Hd1 : r_dict st1 = r_dict st) by reflexivity.
  assert (Hl1 : len out1 = len out + dl).
  { unfold out1. rewrite len_app, len_takeN. fold dl. unfold dl. lia. }
  assert (Hopen_data : zs = false -> 0 < dl -> forall o, RQopen st1 o -> r_data st1 = []).
  { intros Ez Hdl o Ho. destruct HQ as [HO|HC]; [|exfalso; exact (RQ_excl st1 out1 o ltac:(destruct HQ1 as [X|X]; [exfalso; destruct X as (X1 & _); destruct HC as (d & x & _ & _ & _ & C4 & _); unfold st1 in X1; rsimpl; rewrite X1 in C4; lia|exact X]) Ho)].
    destruct HO as (_ & _ & _ & _ & _ & _ & A7). rewrite Ez in A7. destruct A7 as [_ [B|B]]; [|exact B].
    unfold dl in Hdl. rewrite B in Hdl. change (len []) with 0 in Hdl. rewrite N.min_0_r in Hdl. lia. }
  destruct (N.eqb_spec (len out1) n) as [Hfull|Hnf].
  { split; [exact HQ1|]. split; [exact Hd1|]. split; [now left|]. intros Ez Ho. apply (Hopen_data Ez ltac:(lia) out1 Ho). }
  destruct (N.ltb_spec 0 dl) as [Hdl|Hdl].
  { split; [exact HQ1|]. split; [unfold dl in *; lia|exact Hd1]. }
  assert (Hdc : r_dc st = []).
  { apply len_0_nil. unfold dl in Hdl. lia. }
  assert (Hdc1 : r_dc st1 = []) by (unfold st1; rsimpl; rewrite Hdc; apply dropN_nil).
  destruct (r_eof st1) eqn:Heof1.
  { split; [exact HQ1|]. split; [exact Hd1|]. split; [right; split; assumption|].
    intros _ (_ & A2 & _). congruence. }
  rewrite <- Hd1 in Hdict. rewrite <- Hd1.
  assert (Hlo1 : len out1 < n) by (unfold dl in *; lia).
  clearbody st1 out1. clear HQ Hdc Hd1 dl Hdl Hl1 Hopen_data st.
  assert (Hidx : exists ci nexti, r_idx st1 = ci :: nexti).
  { destruct (r_idx st1) as [|ci nexti] eqn:E; [|eauto]. exfalso. destruct HQ1 as [(A1 & _)|(d & x & _ & _ & _ & _ & C5 & _)]; [congruence|].
    rewrite (C5 E) in Heof1. discriminate. }
  destruct Hidx as (ci & nexti & Hidx).
  destruct zs eqn:Ez.
  - assert (Hdec : (if 0 <? len (r_data st1) then decompress hd st1 else st1) = st1).
    { unfold decompress, zstd. rewrite Ez. now destruct (0 <? len (r_data st1)). }
    rewrite Hdec. rewrite !N.eqb_refl. cbn [negb orb].
    unfold step_init. rewrite Hidx.
    pose proof (RQ_chunk ud n st1 out1 frd ci nexti Hn HQ1 Hdc1 ltac:(rewrite Ez; discriminate) Heof1 Hidx Hdict) as Hc.
    destruct (step_chunk H zdecomp hd ud n st1 out1 frd) as [st' out' frd'|[o| |] st']; try exact I; try contradiction.
    destruct Hc as (-> & Hc1 & Hc2). split; [exact Hc1|]. split; [exact Hlo1|exact Hc2].
  - destruct (r_data st1) as [|x0 dat] eqn:Edata.
    + change (0 <? len []) with false. cbv iota. rewrite !N.eqb_refl. cbn [negb orb].
      unfold step_init. rewrite Hidx.
      pose proof (RQ_chunk ud n st1 out1 frd ci nexti Hn HQ1 Hdc1 ltac:(intros _; exact Edata) Heof1 Hidx Hdict) as Hc.
      destruct (step_chunk H zdecomp hd ud n st1 out1 frd) as [st' out' frd'|[o| |] st']; try exact I; try contradiction.
      destruct Hc as (-> & Hc1 & Hc2). split; [exact Hc1|]. split; [exact Hlo1|exact Hc2].
    + (* buffered bytes go to the decompressed side *)
      change (0 <? len (x0 :: dat)) with (0 <? N.of_nat (S (length dat))).
      destruct (N.ltb_spec 0 (N.of_nat (S (length dat)))) as [_|Hx]; [|lia].
      unfold decompress, zstd. rewrite Ez. dst st1. subst dc data idx eof.
      unfold set_data, add_to_dc, set_dc. rsimpl.
      match goal with |- match (if ?cnd then _ else _) with _ => _ end => assert (Hchg : cnd = true) end.
      { destruct (N.eqb_spec 0 dcloc) as [<-|Hne]; [|apply orb_true_r]. cbn [negb orb]. rewrite orb_false_r.
        cbn [app]. rewrite len_cons. change (len []) with 0.
        destruct (N.eqb_spec (0 + (1 + len dat)) (0 + 0)); [lia|reflexivity]. }
      rewrite Hchg. split; [|split; [exact Hlo1|reflexivity]].
      destruct HQ1 as [HO|HC].
      * left. destruct HO as (A1 & A2 & A3 & A4 & A5 & A6 & A7). unfold RQopen in *. rsimpl. rewrite Ez in *.
        repeat (split; [assumption|]). destruct A7 as [B1 _]. cbn [app] in *. split; [now rewrite app_nil_r|now right].
      * right. destruct HC as (d & x & C1 & C2 & C3 & C4 & C5 & C6). exists d, x. unfold total in *. rsimpl. rewrite Ez in *.
        split; [exact C1|]. split; [exact C2|]. cbn [app] in *. split; [now rewrite app_nil_r|]. split; [exact C4|].
        split; [exact C5|]. intros; reflexivity.
Qed.

Lemma RQ_loop (ud : bool) n fuel : forall st out (frd : bool),
  0 < n -> len out < n -> RQ st out -> (if ud then r_dict st else None) = dict' ->
  match comp_loop H zdecomp hd fuel ud n st out frd with
  | (ROk o, st') => RQ st' o /\ r_dict st' = r_dict st /\
                    (len o = n \/ (r_eof st' = true /\ r_dc st' = [])) /\
                    (zs = false -> RQopen st' o -> r_data st' = [])
  | _ => True
  end.
Proof.
  induction fuel as [|fuel IH]; intros st out frd Hn Hlo HQ Hdict; cbn [comp_loop]; [exact I|].
  pose proof (RQ_step ud n st out frd Hn Hlo HQ Hdict) as Hs.
  destruct (comp_step H zdecomp hd ud n st out frd) as [st' out' frd'|[o| |] st']; try exact I.
  - destruct Hs as (HQ' & Hlo' & Hd').
    assert (Hdict' : (if ud then r_dict st' else None) = dict') by (rewrite Hd'; exact Hdict).
    pose proof (IH st' out' frd' Hn Hlo' HQ' Hdict') as Hr.
    destruct (comp_loop H zdecomp hd fuel ud n st' out' frd') as [[o| |] st'']; try exact I.
    destruct Hr as (R1 & R2 & R3 & R4). split; [exact R1|]. split; [congruence|]. split; assumption.
  - exact Hs.
Qed.

(** what the state of an entry that the loop has left says about the bytes handed out *)
Lemma takeN_app_le n (a r : bytes) : n <= len a -> takeN n (a ++ r) = takeN n a.
Proof.
  intros Hl. unfold takeN. rewrite firstn_app. unfold len in Hl.
  replace (N.to_nat n - length a)%nat with 0%nat by lia. cbn. apply app_nil_r.
Qed.

Lemma RQ_closed_result st o n :
  RQclosed st o -> (len o = n \/ (r_eof st = true /\ r_dc st = [])) -> c_ulen c <= n ->
  vok /\ decode_chunk zdecomp zs dict' c (sub b off (c_clen c)) = Some (takeN (c_ulen c) o).
Proof.
  intros (d & x & C1 & C2 & C3 & C4 & C5 & C6) Hex Hn. split; [exact C1|]. rewrite C2. f_equal.
  assert (Hld : len d = c_ulen c).
  { unfold decode_chunk in C2. destruct zs.
    - destruct (zdecomp dict' (sub b off (c_clen c)) (c_ulen c)) as [y|]; [|discriminate].
      destruct (N.eqb_spec (len y) (c_ulen c)); [|discriminate]. congruence.
    - destruct (N.eqb_spec (c_ulen c) (c_clen c)) as [Hnc|]; [|discriminate]. injection C2 as <-. destruct C1 as [Hb _].
      rewrite Hnc. destruct (N.eq_dec (c_clen c) 0) as [E0|E0]; [rewrite E0; reflexivity|].
      apply len_sub. apply Hb. lia. }
  unfold total in C3.
  assert (E : takeN (c_ulen c) (o ++ r_dc st ++ (if zs then [] else r_data st)) = d).
  { rewrite C3. now apply takeN_app_exact. }
  destruct Hex as [Hlo|[He Hdc]].
  - rewrite takeN_app_le in E by lia. now symmetry.
  - rewrite Hdc in E. cbn [app] in E. destruct zs.
    + rewrite app_nil_r in E. now symmetry.
    + rewrite (C6 eq_refl He), app_nil_r in E. now symmetry.
Qed.
End Request.

Section RequestAPI.
Variable H : N -> bytes -> bytes.
Variable zdecomp : option bytes -> bytes -> N -> option bytes.
Variable hd : header.
Variable f : bytes.
Notation cks := (h_chunks hd).
Notation b := (body hd f).
Notation zs := (is_zstd hd).
Hypothesis Hstarts : starts_ok 0 (h_chunks hd).
Hypothesis Hsizes : data_total (h_chunks hd) < two64.

(** the stored bytes of an entry match its index checksum (as validate_chunk decides it) *)
Definition digest_ok (c : chunk) : Prop :=
  (if c_clen c =? 0 then all_zero (c_digest c)
   else bytes_eqb (H (h_chash hd) (stored b c)) (c_digest c)) = true.

(** the dictionary of a context is either not loaded yet (and comp_read has not started a
    chunk, when one will have to be loaded) or the verified, decoded first entry *)
Definition dict_fact (st : rstate) : Prop :=
  (first_ulen hd = 0 /\ r_dict st = None) \/
  (0 < first_ulen hd /\ exists d0, r_dict st = Some d0 /\
     (zs = true -> exists c0 cs, cks = c0 :: cs /\ digest_ok c0 /\
                                 decode_chunk zdecomp true None c0 (stored b c0) = Some d0)).
Definition DI (st : rstate) : Prop :=
  dict_fact st \/ (0 < first_ulen hd /\ r_dict st = None /\ fresh st).

(** the part of zck_get_chunk_data after the dictionary import *)
Definition gcd_main (fuel : nat) (s : rstate) (k : nat) (dst_size : N) (c : chunk) (next : list chunk) : rres * rstate :=
  match comp_init (comp_reset (reset_comp_data s)) with
  | None => (RErr (-1), comp_reset (reset_comp_data s))
  | Some st2 =>
      let st3 := set_idx (set_chash (seek f st2 (data_offset hd + c_start c)) (Some [])) (c :: next) in
      let ud := match k with O => false | _ => true end in
      match comp_read H zdecomp hd fuel st3 dst_size ud with
      | (ROk o, st4) =>
          if (c_ulen c <=? dst_size) && Nat.eqb (length (r_idx st4)) (length (c :: next)) then
            if (r_loc st4 =? c_clen c) && (match r_dc st4 with [] => true | _ => false end) then
              if 0 <? r_err st4 then (RErr (-1), st4)
              else match end_dchunk H zdecomp hd st4 ud c next with
                   | (None, ste) => (RErr (-1), ste)
                   | (Some st5, _) => (ROk o, match next with [] => set_eof st5 true | _ => st5 end)
                   end
            else (RErr (-1), set_err st4 1)
          else (ROk o, st4)
      | r => r
      end
  end.

Lemma chunk_at k c next : skipn k cks = c :: next -> c_start c + c_clen c < two64.
Proof.
  intros Hsk. assert (E : cks = firstn k cks ++ c :: next) by (rewrite <- Hsk; symmetry; apply firstn_skipn).
  destruct (chunk_sizes H zdecomp hd f Hstarts Hsizes _ c next E) as [Hlt Hst]. lia.
Qed.

Lemma gcd_main_sound fuel s k n c next o st' :
  skipn k cks = c :: next -> c_ulen c <> 0 -> dict_fact s ->
  gcd_main fuel s k n c next = (ROk o, st') ->
  r_dict st' = r_dict s /\
  (c_ulen c <= n -> digest_ok c /\
     decode_chunk zdecomp zs (match k with O => None | _ => r_dict s end) c (stored b c) = Some (takeN (c_ulen c) o)).
Proof.
  intros Hsk Hu0 Hdf E. unfold gcd_main in E.
  pose proof (chunk_at k c next Hsk) as Hcl.
  unfold comp_init, comp_reset, reset_comp_data in E. rsimpl.
  destruct (0 <? r_err s) eqn:Her; [discriminate|]. cbv iota in E. rsimpl.
  set (ud := match k with O => false | _ => true end) in *.
  match type of E with context [comp_read H zdecomp hd fuel ?x n ud] => set (st3 := x) in * end.
  assert (Hd3 : r_dict st3 = r_dict s) by reflexivity.
  destruct (comp_read H zdecomp hd fuel st3 n ud) as [[o'| |] st4] eqn:Ecr; try discriminate.
  (* comp_read is the loop: no import at this point *)
  assert (Hs3 : r_started st3 = true) by reflexivity.
  assert (He3 : r_err st3 = r_err s) by reflexivity.
  unfold comp_read in Ecr. rewrite He3, Her, Hs3, Hd3 in Ecr. cbn [negb] in Ecr. cbv iota in Ecr.
  destruct (N.eqb_spec n 0) as [En0|En0].
  { injection Ecr as <- <-. unfold st3 in E. rsimpl. rewrite En0 in E.
    destruct (N.leb_spec (c_ulen c) 0) as [Hle|_]; [lia|]. cbn [andb] in E. injection E as <- <-.
    split; [reflexivity|]. intros Hle. lia. }
  assert (Hnoimp : ud && (0 <? first_ulen hd) && match r_dict s with None => true | Some _ => false end = false).
  { destruct Hdf as [[E0 _]|[_ (d0 & E1 & _)]].
    - rewrite E0. change (0 <? 0) with false. rewrite andb_false_r. reflexivity.
    - rewrite E1. apply andb_false_r. }
  rewrite Hnoimp in Ecr.
  set (dict' := if ud then r_dict st3 else None).
  assert (HQ0 : RQ H zdecomp hd f c next (c_start c) dict' st3 []).
  { left. unfold RQopen, st3, seek, set_idx, set_chash, set_rest. rsimpl.
    split; [reflexivity|]. split; [reflexivity|]. split; [lia|]. split; [lia|].
    split; [unfold body, data_offset; rewrite dropN_dropN; f_equal; lia|]. split; [reflexivity|].
    destruct zs; [repeat split; reflexivity|split; [reflexivity|now left]]. }
  pose proof (RQ_loop H zdecomp hd f c next (c_start c) dict' Hcl ud n fuel st3 [] false ltac:(lia) ltac:(cbn; lia) HQ0 eq_refl) as Hl.
  rewrite Ecr in Hl. destruct Hl as (HQ4 & Hd4 & Hex & Hnd).
  assert (Hdd : dict' = match k with O => None | _ => r_dict s end).
  { unfold dict', ud. destruct k; [reflexivity|exact Hd3]. }
  assert (Hsub : sub b (c_start c) (c_clen c) = stored b c) by reflexivity.
  destruct ((c_ulen c <=? n) && Nat.eqb (length (r_idx st4)) (length (c :: next))) eqn:Hcond.
  - (* the requested entry was still open: the request finishes it *)
    apply andb_true_iff in Hcond. destruct Hcond as [Hle Hlen]. apply N.leb_le in Hle. apply Nat.eqb_eq in Hlen.
    destruct HQ4 as [HO|HC].
    2:{ exfalso. destruct HC as (d & x & _ & _ & _ & C4 & _). lia. }
    destruct ((r_loc st4 =? c_clen c) && match r_dc st4 with [] => true | _ => false end) eqn:Hc2; [|discriminate].
    apply andb_true_iff in Hc2. destruct Hc2 as [Hloc Hdc]. apply N.eqb_eq in Hloc.
    assert (Hdc' : r_dc st4 = []) by (destruct (r_dc st4); [reflexivity|discriminate]).
    destruct (0 <? r_err st4); [discriminate|].
    destruct (end_dchunk H zdecomp hd st4 ud c next) as [[st5|] ste] eqn:Ee; [|discriminate].
    injection E as <- <-.
    destruct HO as (A1 & A2 & A3 & A4 & A5 & A6 & A7).
    destruct zs eqn:Ez.
    { exfalso. destruct A7 as (_ & -> & _). destruct Hex as [Hx|[Hx _]]; [cbn in Hx; lia|congruence]. }
    pose proof (end_dchunk_some H zdecomp hd st4 ud c next st5 ste Ee) as (F1 & F2 & F3 & F4).
    split.
    { destruct next; unfold set_eof; rsimpl; congruence. }
    intros _.
    assert (Hdat : r_data st4 = []).
    { apply Hnd; [reflexivity|]. unfold RQopen. rewrite Ez. repeat (split; [assumption|]). exact A7. }
    destruct A7 as [B1 _]. rewrite Hdc', Hdat, !app_nil_r, Hloc in B1.
    (* the end-of-chunk verification passed *)
    unfold end_dchunk, validate_current in Ee. rewrite A6, Hloc in Ee.
    match type of Ee with context [if ?ok then Some _ else None] => destruct ok eqn:Hok end; [|discriminate].
    unfold backend_end_dchunk, zstd in Ee. rewrite Ez in Ee. unfold set_chash in Ee. rsimpl. rewrite Hloc in Ee.
    destruct (N.eqb_spec (c_clen c) (c_ulen c)) as [Hcu|]; [|discriminate].
    split; [unfold digest_ok; rewrite <- Hsub; exact Hok|].
    unfold decode_chunk. rewrite <- Hcu, N.eqb_refl. f_equal. rewrite <- Hsub, <- B1.
    symmetry. apply takeN_all. rewrite B1, sub_as, len_takeN. lia.
  - injection E as <- <-. split; [congruence|]. intros Hle.
    apply andb_false_iff in Hcond. destruct Hcond as [Hc|Hc]; [apply N.leb_gt in Hc; lia|].
    destruct HQ4 as [HO|HC].
    { exfalso. destruct HO as (A1 & _). rewrite A1, Nat.eqb_refl in Hc. discriminate. }
    destruct (RQ_closed_result H zdecomp hd f c next (c_start c) dict' Hcl st4 o' n HC Hex Hle) as [(V1 & V2) Hdecode].
    rewrite Hsub, Hdd in Hdecode. split; [unfold digest_ok; rewrite <- Hsub; exact V2|exact Hdecode].
Qed.

(** the dictionary import of the first request: what a success establishes *)
Lemma import_sound fuel st st1 :
  r_err st = 0 -> fresh st -> r_dict st = None -> 0 < first_ulen hd ->
  import_dict H zdecomp hd fuel (set_started (comp_reset (seek f st (data_offset hd))) true) = (true, st1) ->
  dict_fact st1.
Proof.
  intros He (F1 & F2 & F3 & F4) Hdn Hfu E.
  assert (Hex : exists c0 cs, cks = c0 :: cs).
  { unfold first_ulen in Hfu. destruct (h_chunks hd) as [|c0 cs]; [lia|eauto]. }
  destruct Hex as (c0 & cs & Eck).
  assert (Hfu0 : first_ulen hd = c_ulen c0) by (unfold first_ulen; now rewrite Eck).
  assert (Hsk : skip0 c0 = false).
  { unfold skip0. destruct (N.eqb_spec (c_ulen c0) 0); [lia|apply andb_false_r]. }
  destruct (chunk_sizes H zdecomp hd f Hstarts Hsizes [] c0 cs Eck) as [Hlt Hst0]. cbn in Hst0, Hlt.
  unfold import_dict in E. unfold comp_reset, seek in E. rsimpl. rewrite He in E. change (0 <? 0) with false in E. cbv iota in E.
  destruct (N.eqb_spec (first_ulen hd) 0) as [E0|_]; [lia|].
  unfold comp_read_nd in E. rsimpl. rewrite He in E. change (0 <? 0) with false in E. cbn [negb] in E. cbv iota in E.
  destruct (N.eqb_spec (first_ulen hd) 0) as [E0|_]; [lia|].
  set (st' := set_started (set_dc (set_started (set_rest st (dropN (data_offset hd) f)) false) [] 0) true) in *.
  destruct fuel as [|fuel]; [discriminate|].
  assert (Hfr : fresh st') by (unfold st', fresh; rsimpl; repeat split; assumption).
  rewrite (comp_loop_null H zdecomp hd false (first_ulen hd) st' c0 cs fuel Hfu Hfr eq_refl Eck Hsk) in E.
  set (st0 := set_chash (set_idx st' (c0 :: cs)) (Some [])) in *.
  assert (HQ0 : RQ H zdecomp hd f c0 cs 0 None st0 []).
  { left. unfold RQopen, st0, st', set_chash, set_idx. rsimpl. rewrite F2, F3, F4.
    split; [reflexivity|]. split; [reflexivity|]. split; [lia|]. split; [lia|].
    split; [reflexivity|]. split; [reflexivity|].
    destruct zs; [repeat split; reflexivity|split; [reflexivity|now left]]. }
  pose proof (RQ_loop H zdecomp hd f c0 cs 0 None ltac:(lia) false (first_ulen hd) (S fuel) st0 [] false Hfu ltac:(cbn; lia) HQ0 eq_refl) as Hl.
  destruct (comp_loop H zdecomp hd (S fuel) false (first_ulen hd) st0 [] false) as [[d| |] st2]; try discriminate.
  destruct Hl as (HQ2 & Hd2 & Hex2 & _).
  destruct (N.eqb_spec (len d) (first_ulen hd)) as [Hld|]; [|discriminate].
  destruct (0 <? r_err st2) eqn:He2; [discriminate|].
  unfold comp_init in E. rsimpl. rewrite He2 in E. cbv iota in E. injection E as <-.
  right. split; [exact Hfu|]. exists d. rsimpl. split; [reflexivity|]. intros Ez.
  exists c0, cs. split; [exact Eck|].
  destruct HQ2 as [HO|HC].
  { exfalso. destruct HO as (_ & A2 & _ & _ & _ & _ & A7). rewrite Ez in A7. destruct A7 as (_ & -> & _).
    destruct Hex2 as [Hx|[Hx _]]; [cbn in Hx; lia|congruence]. }
  destruct (RQ_closed_result H zdecomp hd f c0 cs 0 None ltac:(lia) st2 d (first_ulen hd) HC Hex2 ltac:(lia)) as [(V1 & V2) Hdec].
  assert (Hsub : sub b 0 (c_clen c0) = stored b c0) by (unfold stored; now rewrite Hst0).
  rewrite Hsub, Ez in *. split; [exact V2|]. rewrite Hdec. f_equal. apply takeN_all. lia.
Qed.

Lemma gcd_unfold fuel st k n :
  zck_get_chunk_data H zdecomp hd f fuel st k n =
  match skipn k cks with
  | [] => (RErr (-1), st)
  | c :: next =>
      if 0 <? r_err st then (RErr (-1), st)
      else if c_ulen c =? 0 then (ROk [], st)
      else
        match (if (0 <? first_ulen hd) && (match r_dict st with None => true | Some _ => false end) then
                 match comp_init (comp_reset (seek f st (data_offset hd))) with
                 | Some st1 => import_dict H zdecomp hd fuel st1
                 | None => (false, comp_reset (seek f st (data_offset hd)))
                 end
               else (true, st)) with
        | (false, st1) => (RErr (-1), st1)
        | (true, st1) => gcd_main fuel st1 k n c next
        end
  end.
Proof. reflexivity. Qed.

(** ** soundness of one data request, on any file *)
Theorem gcd_sound fuel st k n c next o st' :
  DI st -> skipn k cks = c :: next ->
  zck_get_chunk_data H zdecomp hd f fuel st k n = (ROk o, st') ->
  DI st' /\
  (0 < c_ulen c -> c_ulen c <= n ->
     digest_ok c /\ spec_chunk_content zdecomp hd f k = Some (takeN (c_ulen c) o)).
Proof.
  intros HD Hsk E. rewrite gcd_unfold, Hsk in E.
  destruct (0 <? r_err st) eqn:Her; [discriminate|].
  destruct (N.eqb_spec (c_ulen c) 0) as [Hu0|Hu0].
  { injection E as <- <-. split; [exact HD|]. intros Hu. lia. }
  assert (Hmain : forall s, dict_fact s -> gcd_main fuel s k n c next = (ROk o, st') ->
            DI st' /\ (0 < c_ulen c -> c_ulen c <= n ->
               digest_ok c /\ spec_chunk_content zdecomp hd f k = Some (takeN (c_ulen c) o))).
  { intros s Hdf Em. destruct (gcd_main_sound fuel s k n c next o st' Hsk Hu0 Hdf Em) as [Hd' Hc].
    split.
    { left. destruct Hdf as [[A1 A2]|[A1 (d0 & A2 & A3)]]; [left|right].
      - split; [exact A1|congruence].
      - split; [exact A1|]. exists d0. split; [congruence|exact A3]. }
    intros _ Hle. destruct (Hc Hle) as [Hdig Hdec]. split; [exact Hdig|].
    assert (Hex : exists c0 cs, cks = c0 :: cs).
    { destruct (h_chunks hd) as [|c0 cs]; [destruct k; discriminate|eauto]. }
    destruct Hex as (c0 & cs & Eck).
    unfold spec_chunk_content. rewrite Eck at 1. rewrite Hsk.
    destruct zs eqn:Ez; cbn [negb].
    - destruct k as [|k']; [exact Hdec|].
      assert (Hfu0 : first_ulen hd = c_ulen c0) by (unfold first_ulen; now rewrite Eck).
      destruct Hdf as [[A1 A2]|[A1 (d0 & A2 & A3)]].
      + rewrite <- Hfu0, A1, N.eqb_refl. now rewrite A2 in Hdec.
      + destruct (N.eqb_spec (c_ulen c0) 0); [lia|].
        destruct (A3 Ez) as (c0' & cs' & E1 & _ & E3). rewrite Eck in E1. injection E1 as <- <-.
        rewrite E3. now rewrite A2 in Hdec.
    - unfold decode_chunk in *. exact Hdec. }
  destruct ((0 <? first_ulen hd) && match r_dict st with None => true | Some _ => false end) eqn:Hcond.
  - apply andb_true_iff in Hcond. destruct Hcond as [Hfu Hdn]. apply N.ltb_lt in Hfu.
    assert (Hdn' : r_dict st = None) by (destruct (r_dict st); [discriminate|reflexivity]).
    assert (Hfr : fresh st).
    { destruct HD as [[[A1 _]|[_ (d0 & A2 & _)]]|(_ & _ & A3)]; [lia|congruence|exact A3]. }
    unfold comp_init in E.
    change (r_err (comp_reset (seek f st (data_offset hd)))) with (r_err st) in E. rewrite Her in E. cbv iota in E.
    change (r_started (comp_reset (seek f st (data_offset hd)))) with false in E. cbv iota in E.
    destruct (import_dict H zdecomp hd fuel (set_started (comp_reset (seek f st (data_offset hd))) true)) as [[|] st1] eqn:Ei; [|discriminate].
    apply N.ltb_ge in Her.
    pose proof (import_sound fuel st st1 ltac:(lia) Hfr Hdn' Hfu Ei) as Hdf.
    exact (Hmain st1 Hdf E).
  - assert (Hdf : dict_fact st).
    { destruct HD as [Hdf|(A1 & A2 & _)]; [exact Hdf|]. rewrite A2 in Hcond. apply N.ltb_lt in A1. rewrite A1 in Hcond. discriminate. }
    exact (Hmain st Hdf E).
Qed.

(** ** every history of requests *)
Lemma comp_step_err ud n st out frd code st' :
  comp_step H zdecomp hd ud n st out frd = SDone (RErr code) st' -> 0 < r_err st'.
Proof.
  unfold comp_step. cbv zeta.
  destruct (len (out ++ takeN (N.min (n - len out) (len (r_dc st))) (r_dc st)) =? n); [discriminate|].
  destruct (0 <? N.min (n - len out) (len (r_dc st))); [discriminate|].
  match goal with |- context [if r_eof ?s then _ else _] => destruct (r_eof s); [discriminate|] end.
  match goal with |- context [if ?cnd then SCont _ _ _ else _] => destruct cnd; [discriminate|] end.
  match goal with |- context [step_init hd ?s] => destruct (step_init hd s) as [st3|ste] end.
  2:{ intros E. injection E as _ <-. rsimpl. lia. }
  unfold step_chunk. destruct (r_idx st3) as [|ci nexti]; [discriminate|].
  destruct (r_loc st3 =? c_clen ci).
  - unfold end_dchunk, validate_current. destruct (r_chash st3) as [acc|].
    + match goal with |- context [if ?ok then Some _ else None] => destruct ok end.
      * destruct (backend_end_dchunk zdecomp hd (set_chash st3 None) ud (c_ulen ci)) as [[st5|] ste]; [discriminate|].
        intros E. injection E as _ <-. rsimpl. lia.
      * intros E. injection E as _ <-. rsimpl. lia.
    + intros E. injection E as _ <-. rsimpl. lia.
  - destruct frd; [intros E; injection E as _ <-; rsimpl; lia|]. cbv zeta.
    match goal with |- context [match ?fh with Some _ => _ | None => SDone _ _ end] => destruct fh as [fh'|] end.
    + match goal with |- context [match ?ch with Some _ => _ | None => SDone _ _ end] => destruct ch as [ch'|] end; [discriminate|].
      intros E. injection E as _ <-. rsimpl. lia.
    + intros E. injection E as _ <-. rsimpl. lia.
Qed.

Lemma comp_loop_err ud n fuel : forall st out frd code st',
  comp_loop H zdecomp hd fuel ud n st out frd = (RErr code, st') -> 0 < r_err st'.
Proof.
  induction fuel as [|fuel IH]; intros st out frd code st' E; cbn [comp_loop] in E; [discriminate|].
  destruct (comp_step H zdecomp hd ud n st out frd) as [st1 out1 frd1|r st1] eqn:Es.
  - exact (IH _ _ _ _ _ E).
  - injection E as -> <-. exact (comp_step_err ud n st out frd code st1 Es).
Qed.

Lemma import_dict_err fuel st st1 :
  import_dict H zdecomp hd fuel st = (false, st1) -> 0 < r_err st1.
Proof.
  unfold import_dict. destruct (0 <? r_err st) eqn:He.
  { intros E. injection E as <-. now apply N.ltb_lt. }
  destruct (first_ulen hd =? 0); [discriminate|].
  destruct (comp_read_nd H zdecomp hd fuel st (first_ulen hd) false) as [[d| |] s] eqn:El.
  - destruct (len d =? first_ulen hd).
    + destruct (0 <? r_err (comp_reset s)) eqn:He2.
      * intros E. injection E as <-. now apply N.ltb_lt.
      * unfold comp_init, comp_reset in *. rsimpl. rewrite He2. discriminate.
    + intros E. injection E as <-. rsimpl. lia.
  - intros E. injection E as <-. rsimpl. lia.
  - intros E. injection E as <-. rsimpl. lia.
Qed.

Lemma end_dchunk_none st ud ci nexti ste :
  end_dchunk H zdecomp hd st ud ci nexti = (None, ste) -> 0 < r_err ste.
Proof.
  unfold end_dchunk, validate_current. destruct (r_chash st) as [acc|].
  - match goal with |- context [if ?ok then Some _ else None] => destruct ok end.
    + destruct (backend_end_dchunk zdecomp hd (set_chash st None) ud (c_ulen ci)) as [[st5|] s5]; [discriminate|].
      intros E. injection E as <-. rsimpl. lia.
    + intros E. injection E as <-. rsimpl. lia.
  - intros E. injection E as <-. rsimpl. lia.
Qed.

Lemma gcd_main_err fuel s k n c next code st' :
  dict_fact s -> gcd_main fuel s k n c next = (RErr code, st') -> 0 < r_err st'.
Proof.
  intros Hdf E. unfold gcd_main in E. unfold comp_init, comp_reset, reset_comp_data in E. rsimpl.
  destruct (0 <? r_err s) eqn:Her.
  { injection E as _ <-. rsimpl. now apply N.ltb_lt. }
  cbv iota in E. rsimpl.
  set (ud := match k with O => false | _ => true end) in *.
  match type of E with context [comp_read H zdecomp hd fuel ?x n ud] => set (st3 := x) in * end.
  assert (Hd3 : r_dict st3 = r_dict s) by reflexivity.
  assert (Hs3 : r_started st3 = true) by reflexivity.
  assert (He3 : r_err st3 = r_err s) by reflexivity.
  destruct (comp_read H zdecomp hd fuel st3 n ud) as [[o'| |] st4] eqn:Ecr; try discriminate.
  - destruct ((c_ulen c <=? n) && Nat.eqb (length (r_idx st4)) (length (c :: next))); [|discriminate].
    destruct ((r_loc st4 =? c_clen c) && match r_dc st4 with [] => true | _ => false end).
    + destruct (0 <? r_err st4) eqn:He4; [injection E as _ <-; now apply N.ltb_lt|].
      destruct (end_dchunk H zdecomp hd st4 ud c next) as [[st5|] ste] eqn:Ee; [discriminate|].
      injection E as _ <-. exact (end_dchunk_none _ _ _ _ _ Ee).
    + injection E as _ <-. rsimpl. lia.
  - injection E as -> <-.
    unfold comp_read in Ecr. rewrite He3, Her, Hs3, Hd3 in Ecr. cbn [negb] in Ecr. cbv iota in Ecr.
    destruct (n =? 0); [discriminate|].
    assert (Hnoimp : ud && (0 <? first_ulen hd) && match r_dict s with None => true | Some _ => false end = false).
    { destruct Hdf as [[E0 _]|[_ (d0 & E1 & _)]].
      - rewrite E0. change (0 <? 0) with false. rewrite andb_false_r. reflexivity.
      - rewrite E1. apply andb_false_r. }
    rewrite Hnoimp in Ecr. exact (comp_loop_err _ _ _ _ _ _ _ _ Ecr).
Qed.

Lemma gcd_fail fuel st k n code st' :
  DI st -> zck_get_chunk_data H zdecomp hd f fuel st k n = (RErr code, st') -> 0 < r_err st' \/ DI st'.
Proof.
  intros HD E. rewrite gcd_unfold in E. destruct (skipn k cks) as [|c next] eqn:Hsk.
  { injection E as _ <-. now right. }
  destruct (0 <? r_err st) eqn:Her.
  { injection E as _ <-. left. now apply N.ltb_lt. }
  destruct (c_ulen c =? 0); [discriminate|].
  destruct ((0 <? first_ulen hd) && match r_dict st with None => true | Some _ => false end) eqn:Hcond.
  - apply andb_true_iff in Hcond. destruct Hcond as [Hfu Hdn]. apply N.ltb_lt in Hfu.
    assert (Hdn' : r_dict st = None) by (destruct (r_dict st); [discriminate|reflexivity]).
    assert (Hfr : fresh st).
    { destruct HD as [[[A1 _]|[_ (d0 & A2 & _)]]|(_ & _ & A3)]; [lia|congruence|exact A3]. }
    unfold comp_init in E.
    change (r_err (comp_reset (seek f st (data_offset hd)))) with (r_err st) in E. rewrite Her in E. cbv iota in E.
    change (r_started (comp_reset (seek f st (data_offset hd)))) with false in E. cbv iota in E.
    destruct (import_dict H zdecomp hd fuel (set_started (comp_reset (seek f st (data_offset hd))) true)) as [[|] st1] eqn:Ei.
    + apply N.ltb_ge in Her.
      pose proof (import_sound fuel st st1 ltac:(lia) Hfr Hdn' Hfu Ei) as Hdf.
      left. exact (gcd_main_err fuel st1 k n c next code st' Hdf E).
    + injection E as _ <-. left. exact (import_dict_err _ _ _ Ei).
  - assert (Hdf : dict_fact st).
    { destruct HD as [Hdf|(A1 & A2 & _)]; [exact Hdf|]. rewrite A2 in Hcond. apply N.ltb_lt in A1. rewrite A1 in Hcond. discriminate. }
    left. exact (gcd_main_err fuel st k n c next code st' Hdf E).
Qed.

(** a stored-data request only moves the file position *)
Lemma gccd_state st k n r st' :
  zck_get_chunk_comp_data hd f st k n = (r, st') ->
  r_err st' = r_err st /\ (DI st -> DI st').
Proof.
  unfold zck_get_chunk_comp_data. destruct (skipn k cks) as [|c next].
  { intros E. injection E as _ <-. split; [reflexivity|exact (fun x => x)]. }
  destruct (0 <? r_err st). { intros E. injection E as _ <-. split; [reflexivity|exact (fun x => x)]. }
  destruct (c_clen c =? 0). { intros E. injection E as _ <-. split; [reflexivity|exact (fun x => x)]. }
  intros E. injection E as _ <-. unfold seek, set_rest. rsimpl. split; [reflexivity|].
  unfold DI, dict_fact, fresh. rsimpl. exact (fun x => x).
Qed.

(** requests with arbitrary buffer sizes *)
Inductive greq := GData (k : nat) (n : N) | GStored (k : nat) (n : N).
Fixpoint run_greqs (fuel : nat) (st : rstate) (l : list greq) : list rres :=
  match l with
  | [] => []
  | GData k n :: t => let (r, st') := zck_get_chunk_data H zdecomp hd f fuel st k n in r :: run_greqs fuel st' t
  | GStored k n :: t => let (r, st') := zck_get_chunk_comp_data hd f st k n in r :: run_greqs fuel st' t
  end.

Definition greq_sound (r : greq) (res : rres) : Prop :=
  match r, res with
  | GData k n, ROk o =>
      forall c next, skipn k cks = c :: next -> 0 < c_ulen c -> c_ulen c <= n ->
        digest_ok c /\ spec_chunk_content zdecomp hd f k = Some (takeN (c_ulen c) o)
  | _, _ => True
  end.

Lemma run_greqs_err fuel : forall l st, 0 < r_err st -> Forall2 greq_sound l (run_greqs fuel st l).
Proof.
  induction l as [|[k n|k n] l IH]; intros st He; cbn [run_greqs]; [constructor| |].
  - rewrite gcd_unfold. apply N.ltb_lt in He. destruct (skipn k cks); [|rewrite He];
      (constructor; [exact I|apply IH; now apply N.ltb_lt]).
  - destruct (zck_get_chunk_comp_data hd f st k n) as [r st'] eqn:E.
    destruct (gccd_state _ _ _ _ _ E) as [He' _].
    assert (Hr : greq_sound (GStored k n) r) by exact I.
    constructor; [exact Hr|apply IH; lia].
Qed.

Theorem run_greqs_sound fuel : forall l st,
  DI st -> ~ In RFuel (run_greqs fuel st l) -> Forall2 greq_sound l (run_greqs fuel st l).
Proof.
  induction l as [|[k n|k n] l IH]; intros st HD Hnf; cbn [run_greqs] in *; [constructor| |].
  - destruct (zck_get_chunk_data H zdecomp hd f fuel st k n) as [r st'] eqn:E.
    destruct r as [o|code|].
    + constructor.
      * intros c next Hsk Hu Hle. destruct (gcd_sound fuel st k n c next o st' HD Hsk E) as [_ Hc]. exact (Hc Hu Hle).
      * destruct (skipn k cks) as [|c next] eqn:Hsk.
        { rewrite gcd_unfold, Hsk in E. discriminate. }
        destruct (gcd_sound fuel st k n c next o st' HD Hsk E) as [HD' _].
        apply IH; [exact HD'|]. intros Hin. apply Hnf. now right.
    + constructor; [exact I|]. destruct (gcd_fail fuel st k n code st' HD E) as [He|HD'].
      * now apply run_greqs_err.
      * apply IH; [exact HD'|]. intros Hin. apply Hnf. now right.
    + exfalso. apply Hnf. now left.
  - destruct (zck_get_chunk_comp_data hd f st k n) as [r st'] eqn:E.
    destruct (gccd_state _ _ _ _ _ E) as [_ HD'].
    constructor; [exact I|]. apply IH; [now apply HD'|]. intros Hin. apply Hnf. now right.
Qed.

Lemma open_DI : DI (open_state hd f).
Proof.
  destruct (N.eq_dec (first_ulen hd) 0) as [E|E].
  - left. left. split; [exact E|reflexivity].
  - right. split; [lia|]. split; [reflexivity|]. repeat split; reflexivity.
Qed.
End RequestAPI.
