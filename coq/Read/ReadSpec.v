(** Reader side, SPECIFICATION layer: what a zchunk file means, written from
    zchunk_format.txt over the [header] record of Format/Header.v and the file bytes.
    - the body is everything after lead + header; chunk i is stored at
      [c_start, c_start + c_clen) of the body;
    - every stored chunk hashes (chunk checksum type) to its index digest; an entry with no
      stored bytes carries the all-zero digest (what the writer emits for the empty
      dictionary entry); the empty first entry (no stored bytes, no declared size) is not
      checked at all;
    - the data checksum covers exactly the stored chunks, unless the uncompressed-source
      flag (bit 2) is set;
    - entry 0 is the dictionary, decoded without a dictionary; the content is the
      concatenation of the decoded entries 1..n-1, each decoded with the dictionary;
    - compression type 0: the stored bytes are the data and the two sizes agree;
      zstd: the decoder must produce exactly the declared size.
    The hash [H] and the zstd decoder [zdecomp] are parameters; nothing is assumed of them. *)
From ZV Require Import Base.Bytes Gen.GenConsts Format.Compint Format.Header.
Local Open Scope N_scope.

Definition takeN (n : N) (l : bytes) : bytes := firstn (N.to_nat n) l.
Definition dropN (n : N) (l : bytes) : bytes := skipn (N.to_nat n) l.
Definition all_zero (d : bytes) : bool := forallb (fun b => b =? 0) d.

Section ReadSpec.
Variable H : N -> bytes -> bytes.
(** [zdecomp dict stored capacity]: [None] = decoder error (or output larger than the
    capacity), [Some d] = the bytes produced *)
Variable zdecomp : option bytes -> bytes -> N -> option bytes.

Definition body (h : header) (f : bytes) : bytes := dropN (h_lead h + h_hlen h) f.
Definition stored (b : bytes) (c : chunk) : bytes := sub b (c_start c) (c_clen c).
Definition uflag (h : header) : bool := N.testbit (h_flags h) 2.
Definition is_zstd (h : header) : bool := h_comp h =? ZCK_COMP_ZSTD.

(** one entry decoded from its stored bytes *)
Definition decode_chunk (zstd : bool) (dict : option bytes) (c : chunk) (s : bytes) : option bytes :=
  if zstd then
    match zdecomp dict s (c_ulen c) with
    | Some d => if len d =? c_ulen c then Some d else None
    | None => None
    end
  else if c_ulen c =? c_clen c then Some s else None.

(** checksum of one entry; [first] marks entry 0 *)
Definition chunk_ok (h : header) (b : bytes) (first : bool) (c : chunk) : bool :=
  (c_start c + c_clen c <=? len b) &&
  (if c_clen c =? 0
   then (first && (c_ulen c =? 0)) || all_zero (c_digest c)
   else bytes_eqb (H (h_chash h) (stored b c)) (c_digest c)).

Definition chunks_ok (h : header) (b : bytes) : bool :=
  match h_chunks h with
  | [] => false
  | c0 :: cs => chunk_ok h b true c0 && forallb (chunk_ok h b false) cs
  end.

Definition data_ok (h : header) (b : bytes) : bool :=
  (data_total (h_chunks h) <=? len b) &&
  (uflag h || bytes_eqb (H (h_hash h) (takeN (data_total (h_chunks h)) b)) (h_ddigest h)).

Definition spec_verify (h : header) (f : bytes) : bool :=
  chunks_ok h (body h f) && data_ok h (body h f).

(** the dictionary: [None] = the file cannot be decoded, [Some None] = no dictionary *)
Definition spec_dict (h : header) (b : bytes) : option (option bytes) :=
  match h_chunks h with
  | [] => None
  | c0 :: _ =>
      if (c_clen c0 =? 0) && (c_ulen c0 =? 0) then Some None
      else match decode_chunk (is_zstd h) None c0 (stored b c0) with
           | Some d => Some (if c_ulen c0 =? 0 then None else Some d)
           | None => None
           end
  end.

Fixpoint decode_all (zstd : bool) (dict : option bytes) (b : bytes) (cs : list chunk) : option bytes :=
  match cs with
  | [] => Some []
  | c :: cs' =>
      match decode_chunk zstd dict c (stored b c) with
      | Some d => match decode_all zstd dict b cs' with
                  | Some r => Some (d ++ r)
                  | None => None
                  end
      | None => None
      end
  end.

Definition spec_decode (h : header) (f : bytes) : option bytes :=
  match spec_dict h (body h f) with
  | Some dict => decode_all (is_zstd h) dict (body h f) (tl (h_chunks h))
  | None => None
  end.

(** data of entry k alone (k = 0: the dictionary chunk) *)
Definition spec_chunk_data (h : header) (f : bytes) (k : nat) : option bytes :=
  match spec_dict h (body h f), skipn k (h_chunks h) with
  | Some dict, c :: _ =>
      decode_chunk (is_zstd h) (match k with O => None | _ => dict end) c (stored (body h f) c)
  | _, _ => None
  end.

(** content of entry k as the specification decodes it from the file, needing nothing but
    the entry itself and, for a zstd entry after the first in a file that carries a
    dictionary, the decoded dictionary entry *)
Definition spec_chunk_content (h : header) (f : bytes) (k : nat) : option bytes :=
  let b := body h f in
  match h_chunks h, skipn k (h_chunks h) with
  | c0 :: _, c :: _ =>
      if negb (is_zstd h) then decode_chunk false None c (stored b c)
      else match k with
           | O => decode_chunk true None c (stored b c)
           | _ => if c_ulen c0 =? 0 then decode_chunk true None c (stored b c)
                  else match decode_chunk true None c0 (stored b c0) with
                       | Some d0 => decode_chunk true (Some d0) c (stored b c)
                       | None => None
                       end
           end
  | _, _ => None
  end.

(** the complete meaning of a file: verified content *)
Definition spec_read (h : header) (f : bytes) : option bytes :=
  if spec_verify h f then spec_decode h f else None.
End ReadSpec.
