(** Concrete complete files under the toy hash of Format/ParseExamples.v and a toy "zstd"
    (the identity, refusing outputs larger than the capacity), for the non-vacuity
    [Example]s of the reader property files. *)
From ZV Require Import Base.Bytes Gen.GenConsts Format.Compint Format.Header Format.ParseImpl Format.ParseExamples
                       Read.ReadSpec Read.CompRead.
Local Open Scope N_scope.

Definition toyZ (dict : option bytes) (s : bytes) (cap : N) : option bytes :=
  if len s <=? cap then Some s else None.

Definition zero16 : bytes := repeat 0 16.

(** a sealed file: checksum types 3/3, the given compression type, an empty first entry
    and the given chunks stored as they are (all sizes below 128) *)
Definition ex_entries (chunks : list bytes) : bytes :=
  flat_map (fun c => toyH 3 c ++ [128 + len c; 128 + len c]) chunks.
Definition ex_idx (chunks : list bytes) : bytes :=
  [131; 128 + 1 + N.of_nat (length chunks)] ++ zero16 ++ [128; 128] ++ ex_entries chunks.
Definition ex_hdr (comp : N) (chunks : list bytes) : bytes :=
  toyH 3 (concat chunks) ++ [128; 128 + comp; 128 + len (ex_idx chunks)] ++ ex_idx chunks ++ [128].
Definition ex_file (comp : N) (chunks : list bytes) : bytes :=
  let hdr := ex_hdr comp chunks in
  magic_zck ++ [131; 128 + len hdr] ++ toyH 3 (magic_zck ++ [131; 128 + len hdr] ++ hdr) ++ hdr ++ concat chunks.

Definition ex_chunks : list bytes := [[1; 2; 3]; [4; 5]; [6; 7; 8; 9]].
Definition exz_file : bytes := ex_file 2 ex_chunks.
Definition exn_file : bytes := ex_file 0 ex_chunks.
(** one stored byte of the second chunk changed *)
Definition exz_bad : bytes := firstn 120 exz_file ++ [44] ++ skipn 121 exz_file.

(** the uncompressed file with one stored byte of the second chunk changed *)
Definition exn_bad : bytes := firstn 120 exn_file ++ [44] ++ skipn 121 exn_file.

Definition hdr_of (f : bytes) : option header :=
  match parse_impl toyH no_pins f with POk h => Some h | _ => None end.

(** open, read to the end with the given buffer sizes, close *)
Definition ex_session (f : bytes) (sizes : list N) : option (bytes * option bool * bool) :=
  match hdr_of f with
  | Some h =>
      match read_all toyH toyZ h 100 (open_state h f) sizes [] with
      | (out, e, st) => Some (out, e, fst (zck_close toyH h st))
      end
  | None => None
  end.

(** a sequence of chunk-data requests with buffers of the declared size *)
Fixpoint ex_requests (h : header) (f : bytes) (st : rstate) (ks : list nat) : list rres :=
  match ks with
  | [] => []
  | k :: ks' =>
      let n := match skipn k (h_chunks h) with c :: _ => c_ulen c | [] => 0 end in
      let (r, st') := zck_get_chunk_data toyH toyZ h f 100 st k n in
      r :: ex_requests h f st' ks'
  end.

(** zck_get_chunk_data as it was BEFORE the request fix (no fresh chunk checksum, no
    end-of-chunk step after the read): kept as the witness of the old behaviour *)
Definition zck_get_chunk_data_before_fix (H : N -> bytes -> bytes) (zdecomp : option bytes -> bytes -> N -> option bytes)
    (hd : header) (f : bytes) (fuel : nat) (st : rstate) (k : nat) (dst_size : N) : rres * rstate :=
  match skipn k (h_chunks hd) with
  | [] => (RErr (-1), st)
  | c :: next =>
      if 0 <? r_err st then (RErr (-1), st)
      else if c_ulen c =? 0 then (ROk [], st)
      else
        let r1 :=
          if (0 <? first_ulen hd) && (match r_dict st with None => true | Some _ => false end) then
            match comp_init (comp_reset (seek f st (data_offset hd))) with
            | Some st1 => import_dict H zdecomp hd fuel st1
            | None => (false, comp_reset (seek f st (data_offset hd)))
            end
          else (true, st) in
        match r1 with
        | (false, st1) => (RErr (-1), st1)
        | (true, st1) =>
            match comp_init (comp_reset (reset_comp_data st1)) with
            | None => (RErr (-1), comp_reset (reset_comp_data st1))
            | Some st2 =>
                comp_read H zdecomp hd fuel (set_idx (seek f st2 (data_offset hd + c_start c)) (c :: next)) dst_size
                          (match k with O => false | _ => true end)
            end
        end
  end.
