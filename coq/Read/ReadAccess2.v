(** Reader proofs, part 5: chunk requests on files WITH a dictionary chunk (the first
    request imports it) and on UNCOMPRESSED files (the three-iteration read), completing
    T14.1: every request sequence, both compression types. *)
From ZV Require Import Base.Bytes Gen.GenConsts Format.Compint Format.Header Format.ParseProofs
                       Read.ReadSpec Read.CompRead Read.ReadLemmas Read.ReadProofs Read.ReadAccess.
Local Open Scope N_scope.
Ltac Zify.zify_post_hook ::= Z.to_euclidean_division_equations.

Section Access2.
Variable H : N -> bytes -> bytes.
Variable zdecomp : option bytes -> bytes -> N -> option bytes.
Variable hd : header.
Variable f : bytes.
Notation cks := (h_chunks hd).
Notation b := (body hd f).
Notation fh_ok' := (fh_ok hd).

(** a context on which comp_read has not started a chunk *)
Definition fresh (st : rstate) : Prop :=
  r_idx st = [] /\ r_loc st = 0 /\ r_data st = [] /\ r_eof st = false.

(** the first loop iteration on a fresh context is the iteration on the context whose
    pointer stands on the first entry with an initialised chunk hash *)
Lemma comp_step_null (ud : bool) n st c0 cs (frd : bool) :
  0 < n -> fresh st -> r_dc st = [] -> cks = c0 :: cs -> skip0 c0 = false ->
  comp_step H zdecomp hd ud n st [] frd =
  comp_step H zdecomp hd ud n (set_chash (set_idx st (c0 :: cs)) (Some [])) [] frd.
Proof.
  intros Hpos (F1 & F2 & F3 & F4) Hdc Eck Hsk. dst st. subst idx loc data eof dc.
  unfold comp_step. cbv zeta. unfold set_chash, set_idx, set_dc. rsimpl.
  change (len []) with 0. rewrite N.sub_0_r, N.min_0_r, takeN_0, dropN_0. cbn [app]. change (len []) with 0.
  destruct (N.eqb_spec 0 n); [lia|]. change (0 <? 0) with false. cbv iota. rsimpl.
  rewrite !N.eqb_refl. cbn [negb orb].
  unfold step_init. rsimpl. rewrite Eck. fold (skip0 c0). rewrite Hsk.
  change (0 <? 0) with false. cbv iota. unfold set_chash, set_idx. rsimpl. reflexivity.
Qed.

Lemma comp_loop_null (ud : bool) n st c0 cs fuel :
  0 < n -> fresh st -> r_dc st = [] -> cks = c0 :: cs -> skip0 c0 = false ->
  comp_loop H zdecomp hd (S fuel) ud n st [] false =
  comp_loop H zdecomp hd (S fuel) ud n (set_chash (set_idx st (c0 :: cs)) (Some [])) [] false.
Proof.
  intros Hpos Hf Hdc Eck Hsk. cbn [comp_loop].
  now rewrite (comp_step_null ud n st c0 cs false Hpos Hf Hdc Eck Hsk).
Qed.

(** zck_get_chunk_data after the dictionary has been imported continues as a request on
    the context the import leaves *)
Lemma gcd_after_import fuel st k n c next st1 :
  skipn k cks = c :: next -> r_err st = 0 -> c_ulen c <> 0 ->
  0 < first_ulen hd -> r_dict st = None ->
  import_dict H zdecomp hd fuel (set_started (comp_reset (seek f st (data_offset hd))) true) = (true, st1) ->
  r_err st1 = 0 -> r_dict st1 <> None ->
  zck_get_chunk_data H zdecomp hd f fuel st k n = zck_get_chunk_data H zdecomp hd f fuel st1 k n.
Proof.
  intros Hsk He Hu Hfu Hdn Himp He1 Hd1.
  unfold zck_get_chunk_data. rewrite Hsk, He, He1. change (0 <? 0) with false. cbv iota.
  destruct (N.eqb_spec (c_ulen c) 0) as [E|_]; [contradiction|].
  rewrite Hdn. apply N.ltb_lt in Hfu. rewrite Hfu. cbn [andb].
  unfold comp_init at 1. unfold comp_reset at 1 2, seek at 1 2. rsimpl. rewrite He. change (0 <? 0) with false. cbv iota.
  rewrite Himp. destruct (r_dict st1); [|congruence]. reflexivity.
Qed.

(** ** zstd: the dictionary import of the first request *)
Lemma import_z fuel st c0 cs d0 :
  is_zstd hd = true -> cks = c0 :: cs ->
  r_err st = 0 -> fh_ok' st -> fresh st -> r_dict st = None ->
  0 < c_ulen c0 -> c_clen c0 < two64 -> c_start c0 = 0 -> c_clen c0 <= len b ->
  (if c_clen c0 =? 0 then all_zero (c_digest c0) else bytes_eqb (H (h_chash hd) (stored b c0)) (c_digest c0)) = true ->
  zdecomp None (stored b c0) (c_ulen c0) = Some d0 -> len d0 = c_ulen c0 ->
  (N.to_nat (c_clen c0) + 4 <= fuel)%nat ->
  exists st1, import_dict H zdecomp hd fuel (set_started (comp_reset (seek f st (data_offset hd))) true) = (true, st1) /\
              r_err st1 = 0 /\ r_dict st1 = Some d0 /\ fh_ok' st1 /\ r_chash st1 = Some [].
Proof.
  intros Hz Eck He Hfh (F1 & F2 & F3 & F4) Hdn Hu Hcl Hst Hb Hok Hzd Hld Hfuel.
  assert (Hfu : first_ulen hd = c_ulen c0) by (unfold first_ulen; now rewrite Eck).
  assert (Hsk : skip0 c0 = false).
  { unfold skip0. destruct (N.eqb_spec (c_ulen c0) 0); [lia|apply andb_false_r]. }
  unfold import_dict. unfold comp_reset, seek. rsimpl. rewrite He. change (0 <? 0) with false. cbv iota.
  rewrite Hfu. destruct (N.eqb_spec (c_ulen c0) 0) as [E|_]; [lia|].
  unfold comp_read_nd. rsimpl. rewrite He. change (0 <? 0) with false. cbn [negb]. cbv iota.
  destruct (N.eqb_spec (c_ulen c0) 0) as [E|_]; [lia|].
  destruct fuel as [|fuel]; [lia|].
  set (st' := set_started (set_dc (set_started (set_rest st (dropN (data_offset hd) f)) false) [] 0) true).
  assert (Hfr : fresh st') by (unfold st', fresh; rsimpl; repeat split; assumption).
  rewrite (comp_loop_null false (c_ulen c0) st' c0 cs fuel Hu Hfr eq_refl Eck Hsk).
  edestruct (zread H zdecomp hd f Hz false (c_ulen c0) c0 cs d0 (N.to_nat (c_clen c0)) (S fuel)
                   (set_chash (set_idx st' (c0 :: cs)) (Some [])) 0)
    as (st2 & Hr & P1 & P2 & P3 & P4 & P5 & P6 & P7); unfold st', set_chash, set_idx; rsimpl; rewrite ?F2, ?F3; try reflexivity; try assumption; try lia.
  - now left.
  - unfold stored in Hok. now rewrite Hst in Hok.
  - unfold stored in Hzd. now rewrite Hst in Hzd.
  - unfold st', set_chash, set_idx in Hr. rsimpl. rewrite ?F2, ?F3 in Hr. rewrite Hr. rewrite Hld, N.eqb_refl.
    unfold st', set_chash, set_idx in P1, P2, P3. rsimpl.
    unfold comp_init. rsimpl. rewrite P1, He. change (0 <? 0) with false. cbv iota. rsimpl.
    eexists. split; [reflexivity|]. rsimpl. split; [now rewrite P1|]. split; [reflexivity|]. split; [exact P5|exact P4].
Qed.

(** ** compression type 0: one chunk is read in three loop iterations *)
Lemma stepG0 (ud : bool) n st c next src rest' ch :
  0 < n -> r_dc st = [] -> r_data st = [] -> r_eof st = false -> r_idx st = c :: next ->
  r_loc st < c_clen c -> c_clen c < two64 ->
  r_rest st = src ++ rest' -> len src = N.min n (c_clen c - r_loc st) ->
  (r_chash st = Some ch \/ (r_chash st = None /\ ch = [])) -> fh_ok' st ->
  exists fh', (uflag hd = true \/ fh' <> None) /\
  comp_step H zdecomp hd ud n st [] false =
    SCont (mkR rest' ([] ++ src) (r_loc st + len src) (c :: next) false [] (r_dcloc st + 0)
               (Some (ch ++ src)) fh' (r_dict st) (r_started st) (r_err st)) [] false.
Proof.
  intros Hn Hdc Hdat Heof Hidx Hloc Hcl Hrest Hls Hch Hfh.
  dst st. subst dc data eof idx rest.
  assert (Hsrc : src <> []) by (intros ->; cbn in Hls; lia).
  unfold comp_step. cbv zeta. rsimpl.
  change (len []) with 0. rewrite N.sub_0_r, N.min_0_r. rewrite takeN_0, dropN_0. cbn [app].
  change (len []) with 0. destruct (N.eqb_spec 0 n) as [E|_]; [lia|]. change (0 <? 0) with false. cbv iota.
  unfold set_dc. rsimpl. rewrite !N.eqb_refl. cbn [negb orb].
  unfold step_init. rsimpl. unfold step_chunk. rsimpl.
  destruct (N.eqb_spec loc (c_clen c)) as [E|_]; [lia|].
  set (rs := if c_clen c <? loc + n then u64 (c_clen c + two64 - loc) else n).
  assert (Hrs : rs = len src).
  { unfold rs. destruct (N.ltb_spec (c_clen c) (loc + n)).
    - unfold u64, two64 in *. lia.
    - lia. }
  rewrite Hrs. rewrite (takeN_app_exact (len src) src rest' eq_refl), (dropN_app_exact (len src) src rest' eq_refl).
  rewrite N.ltb_irrefl.
  destruct Hfh as [Huf|[fh Hfh]].
  - rewrite Huf. destruct Hch as [->|[-> ->]]; unfold set_chash, set_fhash, set_data, set_rest; rsimpl;
      rewrite (hash_update_some _ src Hsrc); rsimpl; exists fhash; (split; [now left|reflexivity]).
  - cbn [r_fhash] in Hfh. subst fhash.
    destruct (uflag hd) eqn:Huf.
    + destruct Hch as [->|[-> ->]]; unfold set_chash, set_fhash, set_data, set_rest; rsimpl;
        rewrite (hash_update_some _ src Hsrc); rsimpl; exists (Some fh); (split; [now left|reflexivity]).
    + destruct Hch as [->|[-> ->]]; unfold set_chash, set_fhash, set_data, set_rest; rsimpl;
        rewrite !(hash_update_some _ src Hsrc); rsimpl; exists (Some (fh ++ src)); (split; [right; discriminate|reflexivity]).
Qed.

Lemma nread (ud : bool) n st c next off fuel :
  is_zstd hd = false -> (3 <= fuel)%nat ->
  0 < n -> c_clen c = n -> n < two64 ->
  r_dc st = [] -> r_data st = [] -> r_eof st = false -> r_idx st = c :: next -> r_loc st = 0 ->
  r_rest st = dropN off b -> off + n <= len b -> fh_ok' st ->
  exists st', comp_loop H zdecomp hd fuel ud n st [] false = (ROk (sub b off n), st') /\
    r_err st' = r_err st /\ r_dict st' = r_dict st /\ r_started st' = r_started st /\ fh_ok' st' /\
    r_idx st' = c :: next /\ r_loc st' = n /\ r_dc st' = [] /\ r_data st' = [] /\
    r_chash st' = Some (match r_chash st with Some x => x | None => [] end ++ sub b off n).
Proof.
  intros Hnz Hfuel Hpos Hcl Hlt Hdc Hdat Heof Hidx Hloc Hrest Hb Hfh.
  destruct fuel as [|[|[|fuel]]]; try lia. cbn [comp_loop].
  set (src := sub b off n).
  assert (Hls : len src = n) by (unfold src; now apply len_sub).
  assert (Hsp : r_rest st = src ++ dropN n (r_rest st)).
  { unfold src. rewrite sub_as, Hrest. now rewrite take_drop. }
  assert (Hch : r_chash st = Some (match r_chash st with Some x => x | None => [] end) \/
                (r_chash st = None /\ match r_chash st with Some x => x | None => [] end = [])).
  { destruct (r_chash st); [now left|now right]. }
  destruct (stepG0 ud n st c next src (dropN n (r_rest st)) _ Hpos Hdc Hdat Heof Hidx ltac:(lia) ltac:(lia) Hsp ltac:(lia) Hch Hfh)
    as (fh' & Hfh' & ->).
  (* second iteration: the buffer goes to the decompressed side *)
  assert (Hsrc : src <> []) by (intros E; rewrite E in Hls; cbn in Hls; lia).
  match goal with |- context [comp_step H zdecomp hd ud n ?s [] false] => set (s1 := s) end.
  assert (E2 : comp_step H zdecomp hd ud n s1 [] false =
               SCont (mkR (dropN n (r_rest st)) [] (r_loc st + len src) (c :: next) false ([] ++ src) 0
                          (r_chash s1) fh' (r_dict st) (r_started st) (r_err st)) [] false).
  { unfold s1, comp_step. cbv zeta. rsimpl.
    change (len []) with 0. rewrite N.sub_0_r, N.min_0_r, takeN_0, dropN_0. cbn [app].
    change (len []) with 0. destruct (N.eqb_spec 0 n) as [E|_]; [lia|]. change (0 <? 0) with false. cbv iota.
    unfold set_dc. rsimpl.
    destruct (N.ltb_spec 0 (len src)) as [_|Hx]; [|lia].
    unfold decompress, zstd. rewrite Hnz. unfold set_data, add_to_dc, set_dc. rsimpl.
    match goal with |- (if ?cnd then _ else _) = _ => assert (Hchg : cnd = true) end.
    { destruct (N.eqb_spec 0 (r_dcloc st + 0 + 0)) as [E0|Hne]; [|apply orb_true_r]. rewrite <- E0. cbn [negb orb]. rewrite orb_false_r.
      cbn [app]. destruct (N.eqb_spec (0 + len src) (0 + 0)); [lia|reflexivity]. }
    rewrite Hchg. reflexivity. }
  rewrite E2.
  match goal with |- context [comp_step H zdecomp hd ud n ?s [] false] => set (s2 := s) end.
  rewrite (stepA H zdecomp hd ud n s2 src false Hpos eq_refl Hls).
  eexists. split; [reflexivity|]. unfold s2, s1, set_dc. rsimpl.
  split; [reflexivity|]. split; [reflexivity|]. split; [reflexivity|]. split.
  { destruct Hfh' as [Hu|Hne]; [now left|right]. destruct fh' as [x|]; [now exists x|congruence]. }
  split; [reflexivity|]. split; [rewrite Hloc; fold src; lia|]. split; [reflexivity|]. split; [reflexivity|]. reflexivity.
Qed.

Lemma import_n fuel st c0 cs :
  is_zstd hd = false -> cks = c0 :: cs ->
  r_err st = 0 -> fh_ok' st -> fresh st -> r_dict st = None ->
  0 < c_ulen c0 -> c_clen c0 = c_ulen c0 -> c_clen c0 < two64 -> c_start c0 = 0 -> c_clen c0 <= len b ->
  (4 <= fuel)%nat ->
  exists st1, import_dict H zdecomp hd fuel (set_started (comp_reset (seek f st (data_offset hd))) true) = (true, st1) /\
              r_err st1 = 0 /\ r_dict st1 = Some (stored b c0) /\ fh_ok' st1.
Proof.
  intros Hnz Eck He Hfh (F1 & F2 & F3 & F4) Hdn Hu Hcu Hcl Hst Hb Hfuel.
  assert (Hfu : first_ulen hd = c_ulen c0) by (unfold first_ulen; now rewrite Eck).
  assert (Hsk : skip0 c0 = false).
  { unfold skip0. destruct (N.eqb_spec (c_clen c0) 0); [lia|reflexivity]. }
  unfold import_dict. unfold comp_reset, seek. rsimpl. rewrite He. change (0 <? 0) with false. cbv iota.
  rewrite Hfu. destruct (N.eqb_spec (c_ulen c0) 0) as [E|_]; [lia|].
  unfold comp_read_nd. rsimpl. rewrite He. change (0 <? 0) with false. cbn [negb]. cbv iota.
  destruct (N.eqb_spec (c_ulen c0) 0) as [E|_]; [lia|].
  destruct fuel as [|fuel]; [lia|].
  set (st' := set_started (set_dc (set_started (set_rest st (dropN (data_offset hd) f)) false) [] 0) true).
  assert (Hfr : fresh st') by (unfold st', fresh; rsimpl; repeat split; assumption).
  rewrite (comp_loop_null false (c_ulen c0) st' c0 cs fuel Hu Hfr eq_refl Eck Hsk).
  edestruct (nread false (c_ulen c0) (set_chash (set_idx st' (c0 :: cs)) (Some [])) c0 cs 0 (S fuel) Hnz)
    as (st2 & Hr & P1 & P2 & P3 & P5 & _); unfold st', set_chash, set_idx; rsimpl; rewrite ?F2, ?F3; try reflexivity; try assumption; try lia.
  unfold st', set_chash, set_idx in Hr. rsimpl. rewrite ?F2, ?F3 in Hr. rewrite Hr.
  assert (Hls : len (sub b 0 (c_ulen c0)) = c_ulen c0) by (apply len_sub; lia).
  rewrite Hls, N.eqb_refl.
  unfold st', set_chash, set_idx in P1, P2, P3. rsimpl.
  unfold comp_init. rsimpl. rewrite P1, He. change (0 <? 0) with false. cbv iota. rsimpl.
  eexists. split; [reflexivity|]. rsimpl. split; [now rewrite P1|]. split; [|exact P5].
  unfold stored. now rewrite Hst, Hcu.
Qed.

Lemma request_data_n fuel st k c next :
  is_zstd hd = false -> skipn k cks = c :: next ->
  r_err st = 0 -> fh_ok' st -> (first_ulen hd = 0 \/ r_dict st <> None) ->
  0 < c_ulen c -> c_clen c = c_ulen c -> c_clen c < two64 -> c_start c + c_clen c <= len b ->
  bytes_eqb (H (h_chash hd) (stored b c)) (c_digest c) = true ->
  (3 <= fuel)%nat ->
  exists st', zck_get_chunk_data H zdecomp hd f fuel st k (c_ulen c) = (ROk (stored b c), st') /\
              r_err st' = 0 /\ fh_ok' st' /\ r_dict st' = r_dict st.
Proof.
  intros Hnz Hsk He Hfh Hd Hu Hcu Hcl Hb Hok Hfuel.
  unfold zck_get_chunk_data. rewrite Hsk, He. change (0 <? 0) with false. cbv iota.
  destruct (N.eqb_spec (c_ulen c) 0) as [E|_]; [lia|].
  assert (Hcond : (0 <? first_ulen hd) && match r_dict st with None => true | Some _ => false end = false).
  { destruct Hd as [->|Hd]; [reflexivity|]. destruct (r_dict st); [apply andb_false_r|congruence]. }
  rewrite Hcond.
  unfold comp_init, comp_reset, reset_comp_data. rsimpl. rewrite He. change (0 <? 0) with false. cbv iota. rsimpl. cbv zeta.
  match goal with |- context [comp_read H zdecomp hd fuel ?s _ _] => set (st3 := s) end.
  set (ud := match k with O => false | _ => true end).
  assert (Hcr : comp_read H zdecomp hd fuel st3 (c_ulen c) ud = comp_loop H zdecomp hd fuel ud (c_ulen c) st3 [] false).
  { unfold comp_read, st3, seek. rsimpl. rewrite He. change (0 <? 0) with false. cbn [negb]. cbv iota.
    destruct (N.eqb_spec (c_ulen c) 0) as [E|_]; [lia|].
    assert (Hcond2 : ud && (0 <? first_ulen hd) && match r_dict st with None => true | Some _ => false end = false).
    { rewrite <- andb_assoc, Hcond. apply andb_false_r. }
    rewrite Hcond2. reflexivity. }
  rewrite Hcr.
  edestruct (nread ud (c_ulen c) st3 c next (c_start c) fuel Hnz Hfuel)
    as (st' & Hr & P1 & P2 & P3 & P5 & Q1 & Q2 & Q3 & Q4 & Q5); unfold st3, seek, set_idx, set_chash, set_rest; rsimpl; try reflexivity; try assumption; try lia.
  - unfold body, data_offset. now rewrite dropN_dropN.
  - unfold st3, seek, set_idx, set_chash, set_rest in Hr, P1, P2, Q5. rsimpl. rewrite Hr.
    rewrite N.leb_refl, Q1, Nat.eqb_refl. cbn [andb]. rewrite Q2, <- Hcu, N.eqb_refl, Q3. cbn [andb].
    rewrite P1, He. change (0 <? 0) with false. cbv iota.
    assert (Hsto : sub b (c_start c) (c_ulen c) = stored b c) by (unfold stored; now rewrite Hcu).
    unfold end_dchunk, validate_current. rewrite Q5. cbn [app]. rewrite Hsto.
    assert (Hokif : (if c_clen c =? 0 then all_zero (c_digest c) else bytes_eqb (H (h_chash hd) (stored b c)) (c_digest c)) = true).
    { destruct (N.eqb_spec (c_clen c) 0); [lia|exact Hok]. }
    rewrite Hokif. unfold backend_end_dchunk, zstd. rewrite Hnz. unfold set_chash. rsimpl. rewrite Q2, Hcu, N.eqb_refl. rewrite ?Hsto.
    eexists. split; [reflexivity|].
    destruct next as [|c1 nx]; unfold set_eof, set_chash, set_idx, set_data; rsimpl;
      (split; [rewrite P1; exact He|split; [|exact P2]]);
      (destruct P5 as [Hu5|[fh Hf5]]; [now left|right; exists fh; exact Hf5]).
Qed.

Lemma stored_req st k c next :
  skipn k cks = c :: next -> r_err st = 0 -> c_start c + c_clen c <= len b ->
  exists st', zck_get_chunk_comp_data hd f st k (c_clen c) = (ROk (stored b c), st') /\
    r_err st' = 0 /\ r_fhash st' = r_fhash st /\ r_chash st' = r_chash st /\ r_dict st' = r_dict st /\
    (fresh st -> fresh st').
Proof.
  intros Hsk He Hb. unfold zck_get_chunk_comp_data. rewrite Hsk, He. change (0 <? 0) with false. cbv iota.
  destruct (N.eqb_spec (c_clen c) 0) as [E|_].
  - exists st. split; [unfold stored; rewrite E; reflexivity|].
    split; [exact He|]. split; [reflexivity|]. split; [reflexivity|]. split; [reflexivity|]. exact (fun x => x).
  - assert (Hs : r_rest (seek f st (data_offset hd + c_start c)) = dropN (c_start c) b).
    { unfold seek, set_rest. rsimpl. unfold body, data_offset. now rewrite dropN_dropN. }
    rewrite Hs. eexists. split; [reflexivity|]. unfold seek, set_rest. rsimpl.
    split; [exact He|]. split; [reflexivity|]. split; [reflexivity|]. split; [reflexivity|].
    intros (A1 & A2 & A3 & A4). unfold fresh. rsimpl. repeat split; assumption.
Qed.
End Access2.

Lemma clen_le_total' c (l : list chunk) : In c l -> c_clen c <= data_total l.
Proof.
  induction l as [|x l IH]; intros Hin; [contradiction|]. rewrite data_total_cons.
  destruct Hin as [->|Hin]; [lia|]. specialize (IH Hin). lia.
Qed.
Lemma skipn_in' {A} (k : nat) (l : list A) c next : skipn k l = c :: next -> In c l.
Proof.
  revert l. induction k as [|k IH]; intros l E; cbn [skipn] in E.
  - subst l. now left.
  - destruct l as [|x l]; [discriminate|]. right. now apply IH.
Qed.

(** ** T14.1, every request sequence, both compression types *)
Section Requests.
Variable H : N -> bytes -> bytes.
Variable zdecomp : option bytes -> bytes -> N -> option bytes.
Variable hd : header.
Variable f : bytes.
Notation cks := (h_chunks hd).
Notation b := (body hd f).
Notation zs := (is_zstd hd).

Definition req_result_spec (r : req) (res : rres) : Prop :=
  match r with
  | ReqData k => exists c next d, skipn k cks = c :: next /\ res = ROk d /\ len d = c_ulen c /\
                   (0 < c_ulen c -> spec_chunk_data zdecomp hd f k = Some d)
  | ReqStored k => exists c next, skipn k cks = c :: next /\ res = ROk (stored b c) /\
                   (c_clen c <> 0 -> H (h_chash hd) (stored b c) = c_digest c)
  end.

Variable content : bytes.
Variable fuel : nat.
Hypothesis Hstarts : starts_ok 0 cks.
Hypothesis Htot : data_total cks < two64.
Hypothesis Hver : spec_verify H hd f = true.
Hypothesis Hdec : spec_decode zdecomp hd f = Some content.
Hypothesis Hfuel : forall c, In c cks -> (N.to_nat (c_clen c) + 4 <= fuel)%nat.

Definition InvR (dspec : option bytes) (st : rstate) : Prop :=
  r_err st = 0 /\ fh_ok hd st /\ (zs = true -> r_chash st = None \/ r_chash st = Some []) /\
  ((r_dict st = dspec /\ (first_ulen hd = 0 \/ r_dict st <> None)) \/
   (0 < first_ulen hd /\ r_dict st = None /\ fresh st)).

Theorem requests_all : forall rq,
  Forall (req_valid hd) rq ->
  Forall2 req_result_spec rq (run_reqs H zdecomp hd f fuel (open_state hd f) rq).
Proof.
  assert (Hex : exists c0 cs, h_chunks hd = c0 :: cs).
  { pose proof Hver as Hv. unfold spec_verify, chunks_ok in Hv. destruct (h_chunks hd) as [|c0 cs]; [discriminate|eauto]. }
  destruct Hex as (c0 & cs & Eck).
  assert (Hfu : first_ulen hd = c_ulen c0) by (unfold first_ulen; now rewrite Eck).
  destruct (chunk_sizes H zdecomp hd f Hstarts Htot [] c0 cs Eck) as [_ Hst0]. cbn in Hst0.
  assert (Hok : forall c, In c cks -> c_start c + c_clen c <= len b /\
                 (c_clen c <> 0 -> bytes_eqb (H (h_chash hd) (stored b c)) (c_digest c) = true) /\
                 (0 < c_ulen c -> (if c_clen c =? 0 then all_zero (c_digest c)
                                   else bytes_eqb (H (h_chash hd) (stored b c)) (c_digest c)) = true)).
  { pose proof Hver as Hv. unfold spec_verify in Hv. apply andb_true_iff in Hv. destruct Hv as [Hc _]. unfold chunks_ok in Hc.
    rewrite Eck in *. apply andb_true_iff in Hc. destruct Hc as [Hc0 Hcs].
    assert (Hg : forall fl c, chunk_ok H hd b fl c = true -> c_start c + c_clen c <= len b /\
                 (c_clen c <> 0 -> bytes_eqb (H (h_chash hd) (stored b c)) (c_digest c) = true) /\
                 (0 < c_ulen c -> (if c_clen c =? 0 then all_zero (c_digest c)
                                   else bytes_eqb (H (h_chash hd) (stored b c)) (c_digest c)) = true)).
    { intros fl c Hc. unfold chunk_ok in Hc. apply andb_true_iff in Hc. destruct Hc as [Hb Hh]. apply N.leb_le in Hb.
      split; [exact Hb|]. split.
      - intros Hne. destruct (N.eqb_spec (c_clen c) 0); [contradiction|exact Hh].
      - intros Hu. destruct (N.eqb_spec (c_clen c) 0); [|exact Hh].
        destruct (N.eqb_spec (c_ulen c) 0); [lia|]. rewrite andb_false_r in Hh. exact Hh. }
    intros c [<-|Hin]; [exact (Hg true _ Hc0)|]. rewrite forallb_forall in Hcs. exact (Hg false c (Hcs c Hin)). }
  (* the specification's dictionary and the decoding of every entry *)
  pose proof Hdec as Hd. unfold spec_decode in Hd.
  destruct (spec_dict zdecomp hd b) as [dspec|] eqn:Edict; [|discriminate].
  rewrite Eck in Hd. cbn [tl] in Hd.
  pose proof (decode_all_sizes _ _ _ _ _ _ Hd) as Hdcs. rewrite Forall_forall in Hdcs.
  assert (Hd0 : 0 < c_ulen c0 ->
            exists d0, decode_chunk zdecomp zs None c0 (stored b c0) = Some d0 /\ dspec = Some d0 /\
                       (if zs then len d0 = c_ulen c0 else c_ulen c0 = c_clen c0 /\ d0 = stored b c0)).
  { intros Hu0. unfold spec_dict in Edict. rewrite Eck in Edict.
    destruct (N.eqb_spec (c_ulen c0) 0) as [E|_]; [lia|]. rewrite andb_false_r in Edict.
    destruct (decode_chunk zdecomp zs None c0 (stored b c0)) as [d0|] eqn:Ed0; [|discriminate].
    exists d0. split; [reflexivity|]. split; [congruence|].
    unfold decode_chunk in Ed0. destruct zs.
    - destruct (zdecomp None (stored b c0) (c_ulen c0)) as [x|]; [|discriminate].
      destruct (N.eqb_spec (len x) (c_ulen c0)); [|discriminate]. congruence.
    - destruct (N.eqb_spec (c_ulen c0) (c_clen c0)); [|discriminate]. split; [assumption|congruence]. }
  assert (Hds0 : c_ulen c0 = 0 -> dspec = None).
  { intros Hu0. unfold spec_dict in Edict. rewrite Eck in Edict. destruct ((c_clen c0 =? 0) && (c_ulen c0 =? 0)); [congruence|].
    destruct (decode_chunk zdecomp zs None c0 (stored b c0)); [|discriminate]. rewrite Hu0 in Edict. cbn in Edict. congruence. }
  (* a request for data on a context whose dictionary is in place *)
  assert (Hready : forall st k c next, skipn k cks = c :: next -> 0 < c_ulen c ->
            r_err st = 0 -> fh_ok hd st -> (zs = true -> r_chash st = None \/ r_chash st = Some []) ->
            r_dict st = dspec -> (first_ulen hd = 0 \/ r_dict st <> None) ->
            exists d st', zck_get_chunk_data H zdecomp hd f fuel st k (c_ulen c) = (ROk d, st') /\
              len d = c_ulen c /\ spec_chunk_data zdecomp hd f k = Some d /\ InvR dspec st').
  { intros st k c next Hsk Hu He Hfh Hch Hdd Hdr.
    pose proof (skipn_in' k cks c next Hsk) as Hin. destruct (Hok c Hin) as (Hb & Hh & Hokif). specialize (Hokif Hu).
    pose proof (clen_le_total' c cks Hin) as Hle. pose proof (Hfuel c Hin) as Hfc.
    assert (Hsd : spec_chunk_data zdecomp hd f k = decode_chunk zdecomp zs (match k with O => None | _ => dspec end) c (stored b c)).
    { unfold spec_chunk_data. now rewrite Edict, Hsk. }
    assert (Hdecode : exists d, decode_chunk zdecomp zs (match k with O => None | _ => dspec end) c (stored b c) = Some d /\
                        (if zs then len d = c_ulen c else c_ulen c = c_clen c /\ d = stored b c)).
    { destruct k as [|k'].
      - rewrite Eck in Hsk. cbn in Hsk. injection Hsk as <- _. destruct (Hd0 Hu) as (d0 & E1 & _ & E3). exists d0. split; assumption.
      - rewrite Eck in Hsk. cbn [skipn] in Hsk. exact (Hdcs c (skipn_in' k' cs c next Hsk)). }
    destruct Hdecode as (d & Hde & Hsz). rewrite Hsd, Hde.
    destruct zs eqn:Ez.
    - assert (Hzd : zdecomp (match k with O => None | _ => r_dict st end) (stored b c) (c_ulen c) = Some d).
      { rewrite Hdd. unfold decode_chunk in Hde.
        destruct (zdecomp (match k with O => None | _ => dspec end) (stored b c) (c_ulen c)) as [x|]; [|discriminate].
        destruct (len x =? c_ulen c); [congruence|discriminate]. }
      destruct (request_data H zdecomp hd f Ez fuel st k c next d Hsk (conj He (conj Hfh (Hch eq_refl))) Hdr
                  Hu ltac:(lia) Hb Hokif Hzd Hsz ltac:(lia)) as (st' & Hr & (R1 & R2 & R3) & R4 & R5).
      exists d, st'. split; [exact Hr|]. split; [exact Hsz|]. split; [reflexivity|].
      split; [exact R1|]. split; [exact R2|]. split; [intros _; exact R3|]. left. rewrite R5. split; assumption.
    - destruct Hsz as [Hcu ->].
      assert (Hcl : c_clen c <> 0) by lia.
      destruct (request_data_n H zdecomp hd f fuel st k c next Ez Hsk He Hfh Hdr Hu ltac:(lia) ltac:(lia) Hb (Hh Hcl) ltac:(lia))
        as (st' & Hr & R1 & R2 & R3).
      exists (stored b c), st'. split; [exact Hr|]. split; [unfold stored; rewrite len_sub by exact Hb; lia|]. split; [reflexivity|].
      split; [exact R1|]. split; [exact R2|]. split; [intros X; congruence|]. left. rewrite R3. split; assumption. }
  (* the first request that needs it imports the dictionary *)
  assert (Himport : forall st, r_err st = 0 -> fh_ok hd st -> 0 < first_ulen hd -> r_dict st = None -> fresh st ->
            exists st1, import_dict H zdecomp hd fuel (set_started (comp_reset (seek f st (data_offset hd))) true) = (true, st1) /\
              r_err st1 = 0 /\ fh_ok hd st1 /\ (zs = true -> r_chash st1 = None \/ r_chash st1 = Some []) /\
              r_dict st1 = dspec /\ r_dict st1 <> None).
  { intros st He Hfh Hf0 Hdn Hfr. rewrite Hfu in Hf0. destruct (Hd0 Hf0) as (d0 & Ed0 & Eds & Hsz).
    assert (Hin : In c0 cks) by (rewrite Eck; now left). destruct (Hok c0 Hin) as (Hb & Hh & Hokif). specialize (Hokif Hf0).
    pose proof (clen_le_total' c0 cks Hin) as Hle. pose proof (Hfuel c0 Hin) as Hfc. rewrite Hst0 in Hb.
    destruct zs eqn:Ez.
    - assert (Hzd : zdecomp None (stored b c0) (c_ulen c0) = Some d0).
      { unfold decode_chunk in Ed0. destruct (zdecomp None (stored b c0) (c_ulen c0)) as [x|]; [|discriminate].
        destruct (len x =? c_ulen c0); [congruence|discriminate]. }
      destruct (import_z H zdecomp hd f fuel st c0 cs d0 Ez Eck He Hfh Hfr Hdn Hf0 ltac:(lia) Hst0 ltac:(lia) Hokif Hzd Hsz ltac:(lia))
        as (st1 & Hi & I1 & I2 & I3 & I4).
      exists st1. split; [exact Hi|]. split; [exact I1|]. split; [exact I3|]. split; [intros _; now right|]. split; congruence.
    - destruct Hsz as [Hcu ->].
      destruct (import_n H zdecomp hd f fuel st c0 cs Ez Eck He Hfh Hfr Hdn Hf0 ltac:(lia) ltac:(lia) Hst0 ltac:(lia) ltac:(lia))
        as (st1 & Hi & I1 & I2 & I3).
      exists st1. split; [exact Hi|]. split; [exact I1|]. split; [exact I3|]. split; [intros X; congruence|]. split; congruence. }
  assert (Hmain : forall rq st, Forall (req_valid hd) rq -> InvR dspec st ->
            Forall2 req_result_spec rq (run_reqs H zdecomp hd f fuel st rq)).
  { induction rq as [|r rq IH]; intros st Hval HI; cbn [run_reqs]; [constructor|].
    inversion Hval as [|? ? Hv Hval']; subst.
    destruct HI as (He & Hfh & Hch & Hdi).
    destruct r as [k|k]; cbn [req_valid] in Hv.
    - destruct (skipn k cks) as [|c next] eqn:Hsk.
      { exfalso. assert (Hl : length (skipn k cks) = 0%nat) by now rewrite Hsk. rewrite skipn_length in Hl. lia. }
      destruct (N.eq_dec (c_ulen c) 0) as [Hz0|Hnz].
      + unfold zck_get_chunk_data. rewrite Hsk, He. change (0 <? 0) with false. cbv iota. rewrite Hz0, N.eqb_refl. constructor.
        * exists c, next, []. split; [exact Hsk|]. split; [reflexivity|]. split; [now rewrite Hz0|lia].
        * apply IH; [assumption|]. split; [exact He|]. split; [exact Hfh|]. split; assumption.
      + destruct Hdi as [[Hdd Hdr]|(Hf0 & Hdn & Hfr)].
        * destruct (Hready st k c next Hsk ltac:(lia) He Hfh Hch Hdd Hdr) as (d & st' & -> & Hl & Hs & HI').
          constructor; [|now apply IH]. exists c, next, d. split; [exact Hsk|]. split; [reflexivity|]. split; [exact Hl|]. intros _; exact Hs.
        * destruct (Himport st He Hfh Hf0 Hdn Hfr) as (st1 & Hi & I1 & I2 & I3 & I4 & I5).
          rewrite (gcd_after_import H zdecomp hd f fuel st k (c_ulen c) c next st1 Hsk He Hnz Hf0 Hdn Hi I1 I5).
          destruct (Hready st1 k c next Hsk ltac:(lia) I1 I2 I3 I4 (or_intror I5)) as (d & st' & -> & Hl & Hs & HI').
          constructor; [|now apply IH]. exists c, next, d. split; [exact Hsk|]. split; [reflexivity|]. split; [exact Hl|]. intros _; exact Hs.
    - destruct (skipn k cks) as [|c next] eqn:Hsk.
      { exfalso. assert (Hl : length (skipn k cks) = 0%nat) by now rewrite Hsk. rewrite skipn_length in Hl. lia. }
      pose proof (skipn_in' k cks c next Hsk) as Hin. destruct (Hok c Hin) as (Hb & Hh & _).
      destruct (stored_req hd f st k c next Hsk He Hb) as (st' & -> & S1 & S2 & S3 & S4 & S5).
      constructor.
      + exists c, next. split; [exact Hsk|]. split; [reflexivity|]. intros Hne. apply bytes_eqb_eq. now apply Hh.
      + apply IH; [assumption|]. split; [exact S1|]. split.
        { destruct Hfh as [Hu|[fh Hfh]]; [now left|right; exists fh; congruence]. }
        split; [rewrite S3; exact Hch|]. rewrite S4. destruct Hdi as [Hl|(A1 & A2 & A3)]; [now left|right]. split; [exact A1|]. split; [exact A2|now apply S5]. }
  intros rq Hval. apply Hmain; [exact Hval|].
  split; [reflexivity|]. split; [right; exists []; reflexivity|]. split; [intros _; now left|].
  destruct (N.eq_dec (first_ulen hd) 0) as [E0|E0].
  - left. split; [|now left]. cbn. symmetry. apply Hds0. congruence.
  - right. split; [lia|]. split; [reflexivity|]. repeat split; reflexivity.
Qed.
End Requests.
