(** Model of the validity scan of src/lib/hash/hash.c — [validate_checksums] (behind
    [zck_validate_checksums] and [zck_find_valid_chunks]), [validate_chunk],
    [validate_file] and [zck_validate_data_checksum] — definitions only.

    The context is opened for reading on a regular file and is not in an error state
    (the VALIDATE_READ_* guards pass).  The file is a byte list; [read(2)] on a regular
    file returns the requested bytes or, at the end of the file, fewer ("short read"),
    so the descriptor is modelled by the suffix of the file that is still ahead of the
    file position.  A running hash context is "the bytes fed since [hash_init]";
    [HClosed] is a context that was never initialised or has been finalised.
    I/O and allocation faults are not modelled here (C12 quantifies over them).

    The valid flags ([zckChunk.valid]) are a list of [Z] (0 unknown, 1 valid, -1 failed)
    parallel to the chunk table of the parsed header ([Format.Header.header]). *)
From ZV Require Import Base.Bytes Gen.GenConsts Format.Header.
Local Open Scope N_scope.

Inductive hstate := HClosed | HOpen (acc : bytes).

(** what a reader ([comp_read]) can observe of the context after a validation call *)
Record rstate := mkR {
  r_pos : N;            (* file position of zck->fd *)
  r_full : hstate;      (* zck->check_full_hash *)
  r_chunk : hstate }.   (* zck->check_chunk_hash *)

Record sres := mkS {
  s_ret : Z;            (* 1 / -1 / 0 *)
  s_flags : list Z;
  s_state : rstate;
  s_file : bytes }.     (* the file afterwards: no model step writes *)

Definition data_offset (h : header) : N := h_lead h + h_hlen h.
Definition uflag (h : header) : bool := N.testbit (h_flags h) 2.   (* has_uncompressed_source *)
(** digest sizes as [hash_setup] assigned them (0 never occurs for a parsed header) *)
Definition ds_of (t : N) : N := match dsize t with Some d => d | None => 0 end.

(** [memcmp(a, b, n) == 0] *)
Definition memcmp_eq (n : N) (a b : bytes) : bool :=
  bytes_eqb (firstn (N.to_nat n) a) (firstn (N.to_nat n) b).

Section Scan.
Variable H : N -> bytes -> bytes.

(** The block loop of [validate_checksums] (and of [zck_validate_data_checksum], which has
    the same shape with one accumulator): read [n] more bytes in blocks of at most
    BUF_SIZE; the first short read ends the loop with [false].  [cacc] is what
    [check_chunk_hash] has been fed, [facc] what [check_full_hash] has been fed ([upd]:
    the data hash is only fed without the uncompressed-source flag).  A short block is
    not hashed.  Fuel: every full block consumes at least one byte of [rest]. *)
Fixpoint rd_blocks (fuel : nat) (rest : bytes) (n : N) (cacc facc : bytes) (upd : bool)
  : option (bool * bytes * bytes * bytes) :=
  if n =? 0 then Some (true, rest, cacc, facc) else
  match fuel with
  | O => None
  | S fuel' =>
      let rsize := N.min BUF_SIZE n in
      let got := firstn (N.to_nat rsize) rest in
      let rest' := skipn (N.to_nat rsize) rest in
      if len got =? rsize
      then rd_blocks fuel' rest' (n - rsize) (cacc ++ got) (if upd then facc ++ got else facc) upd
      else Some (false, rest', cacc, facc)
  end.

(** [validate_chunk] on the finalised chunk hash: a chunk without stored bytes is compared
    against the all-zero digest *)
Definition validate_chunk (cht : N) (c : chunk) (cacc : bytes) : Z :=
  let ds := ds_of cht in
  let digest := H cht cacc in
  let digest := if c_clen c =? 0 then repeat 0 (N.to_nat ds) ++ skipn (N.to_nat ds) digest else digest in
  if memcmp_eq ds digest (c_digest c) then 1%Z else (-1)%Z.

(** the [for] loop over the chunk list.  Result: new flags, rest of the file, data-hash
    accumulator, [all_good], state of the chunk hash context *)
Fixpoint scan_loop (h : header) (first : bool) (cs : list chunk) (fl : list Z) (rest facc : bytes)
                   (good : bool) (ch : hstate)
  : option (list Z * bytes * bytes * bool * hstate) :=
  match cs with
  | [] => Some ([], rest, facc, good, ch)
  | c :: cs' =>
      if first && (c_ulen c =? 0) && (c_clen c =? 0) then
        (* empty first entry: valid without reading *)
        if h_detached h then Some (1%Z :: tl fl, rest, facc, good, ch) else
        match scan_loop h false cs' (tl fl) rest facc good ch with
        | Some (r, a, b, g, s) => Some (1%Z :: r, a, b, g, s)
        | None => None
        end
      else
        match rd_blocks (S (length rest)) rest (c_clen c) [] facc (negb (uflag h)) with
        | None => None
        | Some (complete, rest', cacc, facc') =>
            let v := if complete then validate_chunk (h_chash h) c cacc else (-1)%Z in
            let ch' := if complete then HClosed else HOpen cacc in
            let good' := good && (v =? 1)%Z in
            if h_detached h then Some (v :: tl fl, rest', facc', good', ch') else
            match scan_loop h false cs' (tl fl) rest' facc' good' ch' with
            | Some (r, a, b, g, s) => Some (v :: r, a, b, g, s)
            | None => None
            end
        end
  end.

(** [validate_file] without the uncompressed-source flag *)
Definition validate_file (h : header) (facc : bytes) : Z :=
  if memcmp_eq (ds_of (h_hash h)) (H (h_hash h) facc) (h_ddigest h) then 1%Z else (-1)%Z.

Definition validate_checksums (h : header) (f : bytes) (fl : list Z) (st : rstate) : option sres :=
  let doff := data_offset h in
  if doff =? 0 then Some (mkS 0 fl st f) else    (* "Header hasn't been read yet" *)
  match scan_loop h true (h_chunks h) fl (skipn (N.to_nat doff) f) [] true (r_chunk st) with
  | None => None
  | Some (fl1, _, facc, good, ch) =>
      let '(vf, fl2) :=
        if uflag h || h_detached h then ((if good then 1 else -1)%Z, fl1)
        else if good then
          let vf := validate_file h facc in
          (vf, if (vf =? -1)%Z then map (fun _ => (-1)%Z) fl1 else fl1)
        else ((-1)%Z, fl1) in
      (* seek back to the data section, re-initialise the data hash *)
      Some (mkS vf fl2 (mkR doff (HOpen []) ch) f)
  end.

(** the [while(idx && !truncated)] loop of [zck_validate_data_checksum] *)
Fixpoint data_loop (cs : list chunk) (rest facc : bytes) : option (bool * bytes) :=
  match cs with
  | [] => Some (true, facc)
  | c :: cs' =>
      match rd_blocks (S (length rest)) rest (c_clen c) [] facc true with
      | None => None
      | Some (true, rest', _, facc') => data_loop cs' rest' facc'
      | Some (false, _, _, facc') => Some (false, facc')
      end
  end.

Definition validate_data (h : header) (f : bytes) (fl : list Z) (st : rstate) : option sres :=
  if uflag h then validate_checksums h f fl st else
  let doff := data_offset h in
  match data_loop (h_chunks h) (skipn (N.to_nat doff) f) [] with
  | None => None
  | Some (complete, facc) =>
      let ret := if complete then validate_file h facc else (-1)%Z in
      Some (mkS ret fl (mkR doff (HOpen []) (r_chunk st)) f)
  end.

(** the three public entry points *)
Inductive op := OpValidate | OpData | OpFind.
Definition run_op (h : header) (o : op) (f : bytes) (fl : list Z) (st : rstate) : option sres :=
  match o with
  | OpValidate | OpFind => validate_checksums h f fl st   (* they differ in the log level only *)
  | OpData => validate_data h f fl st
  end.

(** a sequence of calls; the results of the individual calls are collected *)
Fixpoint run_ops (h : header) (os : list op) (f : bytes) (fl : list Z) (st : rstate)
  : option (list sres * bytes * list Z * rstate) :=
  match os with
  | [] => Some ([], f, fl, st)
  | o :: os' =>
      match run_op h o f fl st with
      | None => None
      | Some r =>
          match run_ops h os' (s_file r) (s_flags r) (s_state r) with
          | Some (rs, f', fl', st') => Some (r :: rs, f', fl', st')
          | None => None
          end
      end
  end.

(** the context right after [zck_read_header]: positioned at the data section, data hash
    freshly initialised by [validate_header], chunk hash never initialised *)
Definition opened (h : header) : rstate := mkR (data_offset h) (HOpen []) HClosed.

(** * Specification layer: what the property text says about one chunk *)
Definition stored (h : header) (f : bytes) (c : chunk) : bytes :=
  sub f (data_offset h + c_start c) (c_clen c).
(** the whole extent lies inside the file (an empty extent always does) *)
Definition present (h : header) (f : bytes) (c : chunk) : bool :=
  (c_clen c =? 0) || (data_offset h + c_start c + c_clen c <=? len f).
Definition all_zero (n : N) (d : bytes) : bool := memcmp_eq n (repeat 0 (N.to_nat n)) d.
Definition digest_ok (h : header) (c : chunk) (bs : bytes) : bool :=
  if c_clen c =? 0 then all_zero (ds_of (h_chash h)) (c_digest c)
  else memcmp_eq (ds_of (h_chash h)) (H (h_chash h) bs) (c_digest c).
Definition empty_first (first : bool) (c : chunk) : bool := first && (c_ulen c =? 0) && (c_clen c =? 0).
Definition chunk_good (h : header) (f : bytes) (first : bool) (c : chunk) : bool :=
  empty_first first c || (present h f c && digest_ok h c (stored h f c)).

Fixpoint classify (h : header) (f : bytes) (first : bool) (cs : list chunk) : list bool :=
  match cs with [] => [] | c :: r => chunk_good h f first c :: classify h f false r end.

Definition data_good (h : header) (f : bytes) : bool :=
  memcmp_eq (ds_of (h_hash h)) (H (h_hash h) (sub f (data_offset h) (data_total (h_chunks h)))) (h_ddigest h).
Definition flag_of (b : bool) : Z := if b then 1%Z else (-1)%Z.
Definition all_true (l : list bool) : bool := forallb (fun b => b) l.

(** complete file: every chunk is classified; when all match but the data digest does not,
    all are failed *)
Definition expected_flags (h : header) (f : bytes) : list Z :=
  let cl := classify h f true (h_chunks h) in
  if all_true cl && negb (uflag h) && negb (data_good h f) then map (fun _ => (-1)%Z) cl
  else map flag_of cl.
Definition expected_ret (h : header) (f : bytes) : Z :=
  flag_of (all_true (classify h f true (h_chunks h)) && (uflag h || data_good h f)).
(** detached header: only the dictionary entry is looked at *)
Definition dict_good (h : header) (f : bytes) : bool :=
  match h_chunks h with [] => true | c :: _ => chunk_good h f true c end.
Definition expected_flags_detached (h : header) (f : bytes) (fl : list Z) : list Z :=
  match h_chunks h with [] => [] | _ :: _ => flag_of (dict_good h f) :: tl fl end.
(** data-checksum validation without the flag: all data present and the digest matches *)
Definition expected_data_ret (h : header) (f : bytes) : Z :=
  flag_of ((data_offset h + data_total (h_chunks h) <=? len f) && data_good h f).

(** what one call must return and leave in the flags, and the same for a sequence of calls *)
Definition spec_op (h : header) (f : bytes) (o : op) (fl : list Z) : Z * list Z :=
  let scan := if h_detached h then (flag_of (dict_good h f), expected_flags_detached h f fl)
              else (expected_ret h f, expected_flags h f) in
  match o with
  | OpValidate | OpFind => scan
  | OpData => if uflag h then scan else (expected_data_ret h f, fl)
  end.
Fixpoint spec_ops (h : header) (f : bytes) (os : list op) (fl : list Z) : list (Z * list Z) :=
  match os with
  | [] => []
  | o :: r => let x := spec_op h f o fl in x :: spec_ops h f r (snd x)
  end.
End Scan.

(** the part of the state a read that starts afterwards depends on: [comp_read] on a context
    whose decompression state is untouched ([comp.data_idx == NULL]) calls [hash_init] on
    [check_chunk_hash] before it first uses it, whatever state it is in, so only the file
    position and the data-hash accumulator matter *)
Definition req (a b : rstate) : Prop := r_pos a = r_pos b /\ r_full a = r_full b.
