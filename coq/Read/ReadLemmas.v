(** List arithmetic for the reader proofs: [takeN] / [dropN] / [sub] over [N] offsets. *)
From ZV Require Import Base.Bytes Gen.GenConsts Format.Compint Format.Header Format.ParseProofs Read.ReadSpec.
Local Open Scope N_scope.

Lemma len_nat (l : bytes) : N.to_nat (len l) = length l.
Proof. unfold len. apply Nat2N.id. Qed.

Lemma take_drop n (l : bytes) : takeN n l ++ dropN n l = l.
Proof. apply firstn_skipn. Qed.

Lemma len_takeN n (l : bytes) : len (takeN n l) = N.min n (len l).
Proof. unfold takeN, len. rewrite firstn_length. lia. Qed.

Lemma len_dropN n (l : bytes) : len (dropN n l) = len l - n.
Proof. unfold dropN, len. rewrite skipn_length. lia. Qed.

Lemma takeN_0 (l : bytes) : takeN 0 l = [].
Proof. reflexivity. Qed.
Lemma dropN_0 (l : bytes) : dropN 0 l = l.
Proof. reflexivity. Qed.

Lemma takeN_all n (l : bytes) : len l <= n -> takeN n l = l.
Proof. intros Hl. unfold takeN. apply firstn_all2. unfold len in Hl. lia. Qed.
Lemma dropN_all n (l : bytes) : len l <= n -> dropN n l = [].
Proof. intros Hl. unfold dropN. apply skipn_all2. unfold len in Hl. lia. Qed.

Lemma skipn_plus {A} (a k : nat) (l : list A) : skipn k (skipn a l) = skipn (a + k) l.
Proof.
  revert l. induction a as [|a IH]; intros l; [reflexivity|].
  destruct l as [|x l]; [cbn; now rewrite skipn_nil|]. cbn. apply IH.
Qed.

Lemma dropN_dropN a c (l : bytes) : dropN c (dropN a l) = dropN (a + c) l.
Proof. unfold dropN. rewrite skipn_plus. f_equal. lia. Qed.

Lemma firstn_plus {A} (a k : nat) (l : list A) : firstn (a + k) l = firstn a l ++ firstn k (skipn a l).
Proof.
  revert l. induction a as [|a IH]; intros l; [reflexivity|].
  destruct l as [|x l]; [cbn; now rewrite firstn_nil|]. cbn. now rewrite IH.
Qed.

Lemma takeN_plus a k (l : bytes) : takeN (a + k) l = takeN a l ++ takeN k (dropN a l).
Proof. unfold takeN, dropN. rewrite N2Nat.inj_add. apply firstn_plus. Qed.

(** taking [c] more bytes after [a]: what was really obtained extends the prefix *)
Lemma takeN_extend a c (l : bytes) :
  takeN a l ++ takeN c (dropN a l) = takeN (a + len (takeN c (dropN a l))) l.
Proof.
  rewrite takeN_plus. f_equal. rewrite len_takeN.
  destruct (N.le_gt_cases c (len (dropN a l))) as [Hc|Hc].
  - now rewrite N.min_l.
  - rewrite N.min_r by lia. rewrite !takeN_all; [reflexivity|lia|lia].
Qed.

Lemma dropN_extend a c (l : bytes) :
  dropN c (dropN a l) = dropN (a + len (takeN c (dropN a l))) l.
Proof.
  rewrite dropN_dropN, len_takeN.
  destruct (N.le_gt_cases c (len (dropN a l))) as [Hc|Hc].
  - now rewrite N.min_l.
  - rewrite N.min_r by lia. rewrite len_dropN in *. rewrite !dropN_all; [reflexivity|lia|lia].
Qed.

Lemma sub_as (b : bytes) off n : sub b off n = takeN n (dropN off b).
Proof. reflexivity. Qed.

Lemma sub_0 (b : bytes) off : sub b off 0 = [].
Proof. reflexivity. Qed.

Lemma sub_extend (b : bytes) off loc c :
  sub b off loc ++ takeN c (dropN (off + loc) b) = sub b off (loc + len (takeN c (dropN (off + loc) b))).
Proof. rewrite !sub_as, <- dropN_dropN. apply takeN_extend. Qed.

Lemma len_sub (b : bytes) off n : off + n <= len b -> len (sub b off n) = n.
Proof. intros Hl. rewrite sub_as, len_takeN, len_dropN. lia. Qed.

Lemma takeN_app_exact n (a b : bytes) : len a = n -> takeN n (a ++ b) = a.
Proof.
  intros Hl. unfold takeN. rewrite <- Hl, len_nat.
  rewrite firstn_app, Nat.sub_diag, firstn_all. cbn. apply app_nil_r.
Qed.
Lemma dropN_app_exact n (a b : bytes) : len a = n -> dropN n (a ++ b) = b.
Proof.
  intros Hl. unfold dropN. rewrite <- Hl, len_nat.
  rewrite skipn_app, Nat.sub_diag, skipn_all. reflexivity.
Qed.

Lemma len_0_nil (l : bytes) : len l = 0 -> l = [].
Proof. destruct l; [reflexivity|]. rewrite len_cons. lia. Qed.

Lemma bytes_eqb_eq (a b : bytes) : bytes_eqb a b = true -> a = b.
Proof.
  revert b. induction a as [|x a IH]; intros [|y b] E; cbn in E; try discriminate; [reflexivity|].
  apply andb_true_iff in E. destruct E as [E1 E2]. apply N.eqb_eq in E1. f_equal; [exact E1|now apply IH].
Qed.
Lemma bytes_eqb_refl (a : bytes) : bytes_eqb a a = true.
Proof. induction a as [|x a IH]; [reflexivity|]. cbn. now rewrite N.eqb_refl, IH. Qed.

(** start offsets: the start of the entry after [pre] is the sum of the stored sizes of [pre] *)
Lemma starts_ok_app s pre c rest :
  starts_ok s (pre ++ c :: rest) -> c_start c = s + data_total pre.
Proof.
  revert s. induction pre as [|p pre IH]; intros s Hs; cbn [app] in Hs; cbn [starts_ok] in Hs.
  - destruct Hs as [Hs _]. cbn. lia.
  - destruct Hs as [_ Hs]. apply IH in Hs. cbn [data_total fold_right]. fold (data_total pre). lia.
Qed.

Lemma data_total_app a b : data_total (a ++ b) = data_total a + data_total b.
Proof.
  induction a as [|x a IH]; [reflexivity|]. cbn [app data_total fold_right]. fold (data_total (a ++ b)).
  fold (data_total a). lia.
Qed.
Lemma data_total_cons c l : data_total (c :: l) = c_clen c + data_total l.
Proof. reflexivity. Qed.
