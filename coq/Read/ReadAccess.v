(** Reader proofs, part 2: chunk requests (zck_get_chunk_data / zck_get_chunk_comp_data) on
    unit-decoded (zstd) files - the forward direction: on a file the specification
    verifies, a request returns the chunk's decoded data whatever was requested before. *)
From ZV Require Import Base.Bytes Gen.GenConsts Format.Compint Format.Header Format.ParseProofs
                       Read.ReadSpec Read.CompRead Read.ReadLemmas Read.ReadProofs.
Local Open Scope N_scope.
Ltac Zify.zify_post_hook ::= Z.to_euclidean_division_equations.

Section Access.
Variable H : N -> bytes -> bytes.
Variable zdecomp : option bytes -> bytes -> N -> option bytes.
Variable hd : header.
Variable f : bytes.
Notation cks := (h_chunks hd).
Notation b := (body hd f).
Hypothesis Hz : is_zstd hd = true.

Definition fh_ok (st : rstate) : Prop := uflag hd = true \/ exists fh, r_fhash st = Some fh.

(** one bounded read inside a chunk *)
Lemma stepG ud n st c next src rest' ch :
  0 < n -> r_dc st = [] -> r_eof st = false -> r_idx st = c :: next ->
  r_loc st < c_clen c -> c_clen c < two64 ->
  r_rest st = src ++ rest' -> len src = N.min n (c_clen c - r_loc st) ->
  (r_chash st = Some ch \/ (r_chash st = None /\ ch = [])) -> fh_ok st ->
  exists fh', (uflag hd = true \/ fh' <> None) /\
  comp_step H zdecomp hd ud n st [] false =
    SCont (mkR rest' (r_data st ++ src) (r_loc st + len src) (c :: next) false [] (r_dcloc st + 0)
               (Some (ch ++ src)) fh' (r_dict st) (r_started st) (r_err st)) [] false.
Proof.
  intros Hn Hdc Heof Hidx Hloc Hcl Hrest Hls Hch Hfh.
  dst st. subst dc eof idx rest.
  assert (Hsrc : src <> []) by (intros ->; cbn in Hls; lia).
  unfold comp_step. cbv zeta. rsimpl.
  change (len []) with 0. rewrite N.sub_0_r, N.min_0_r. rewrite takeN_0, dropN_0. cbn [app].
  change (len []) with 0. destruct (N.eqb_spec 0 n) as [E|_]; [lia|]. change (0 <? 0) with false. cbv iota.
  unfold set_dc. rsimpl.
  assert (Hdec : (if 0 <? len data then decompress hd (mkR (src ++ rest') data loc (c :: next) false [] (dcloc + 0) chash fhash dict started err)
                  else mkR (src ++ rest') data loc (c :: next) false [] (dcloc + 0) chash fhash dict started err)
                 = mkR (src ++ rest') data loc (c :: next) false [] (dcloc + 0) chash fhash dict started err).
  { unfold decompress. unfold zstd. rewrite Hz. now destruct (0 <? len data). }
  rewrite Hdec. rsimpl. rewrite !N.eqb_refl. cbn [negb orb].
  unfold step_init. rsimpl. unfold step_chunk. rsimpl.
  destruct (N.eqb_spec loc (c_clen c)) as [E|_]; [lia|].
  set (rs := if c_clen c <? loc + n then u64 (c_clen c + two64 - loc) else n).
  assert (Hrs : rs = len src).
  { unfold rs. destruct (N.ltb_spec (c_clen c) (loc + n)).
    - unfold u64, two64 in *. lia.
    - lia. }
  rewrite Hrs. rewrite (takeN_app_exact (len src) src rest' eq_refl), (dropN_app_exact (len src) src rest' eq_refl).
  rewrite N.ltb_irrefl.
  assert (Hc5 : r_chash (match chash with None => set_chash (mkR rest' data loc (c :: next) false [] (dcloc + 0) chash fhash dict started err) (Some [])
                                      | Some _ => mkR rest' data loc (c :: next) false [] (dcloc + 0) chash fhash dict started err end) = Some ch).
  { destruct Hch as [->|[-> ->]]; reflexivity. }
  destruct Hfh as [Huf|[fh Hfh]].
  - rewrite Huf. destruct Hch as [->|[-> ->]]; unfold set_chash, set_fhash, set_data; rsimpl;
      rewrite (hash_update_some _ src Hsrc); rsimpl; exists fhash; (split; [now left|reflexivity]).
  - cbn [r_fhash] in Hfh. subst fhash.
    destruct (uflag hd) eqn:Huf.
    + destruct Hch as [->|[-> ->]]; unfold set_chash, set_fhash, set_data; rsimpl;
        rewrite (hash_update_some _ src Hsrc); rsimpl; exists (Some fh); (split; [now left|reflexivity]).
    + destruct Hch as [->|[-> ->]]; unfold set_chash, set_fhash, set_data; rsimpl;
        rewrite !(hash_update_some _ src Hsrc); rsimpl; exists (Some (fh ++ src)); (split; [right; discriminate|reflexivity]).
Qed.

(** the end of a chunk: verify, decompress, advance *)
Lemma stepE (ud : bool) n st c next ch d (frd : bool) :
  0 < n -> r_dc st = [] -> r_eof st = false -> r_idx st = c :: next -> r_loc st = c_clen c ->
  r_chash st = Some ch ->
  (if c_clen c =? 0 then all_zero (c_digest c) else bytes_eqb (H (h_chash hd) ch) (c_digest c)) = true ->
  zdecomp (if ud then r_dict st else None) (r_data st) (c_ulen c) = Some d -> len d = c_ulen c ->
  comp_step H zdecomp hd ud n st [] frd =
    SCont (mkR (r_rest st) [] 0 next (match next with [] => true | _ => false end) d 0 (Some []) (r_fhash st)
               (r_dict st) (r_started st) (r_err st)) [] frd.
Proof.
  intros Hn Hdc Heof Hidx Hloc Hch Hok Hzd Hld.
  dst st. subst dc eof idx loc chash.
  unfold comp_step. cbv zeta. rsimpl.
  change (len []) with 0. rewrite N.sub_0_r, N.min_0_r. rewrite takeN_0, dropN_0. cbn [app].
  change (len []) with 0. destruct (N.eqb_spec 0 n) as [E|_]; [lia|]. change (0 <? 0) with false. cbv iota.
  unfold set_dc. rsimpl.
  assert (Hdec : (if 0 <? len data then decompress hd (mkR rest data (c_clen c) (c :: next) false [] (dcloc + 0) (Some ch) fhash dict started err)
                  else mkR rest data (c_clen c) (c :: next) false [] (dcloc + 0) (Some ch) fhash dict started err)
                 = mkR rest data (c_clen c) (c :: next) false [] (dcloc + 0) (Some ch) fhash dict started err).
  { unfold decompress. unfold zstd. rewrite Hz. now destruct (0 <? len data). }
  rewrite Hdec. rsimpl. rewrite !N.eqb_refl. cbn [negb orb].
  unfold step_init. rsimpl. unfold step_chunk. rsimpl. rewrite N.eqb_refl.
  unfold end_dchunk, validate_current. rsimpl. rewrite Hok.
  unfold backend_end_dchunk. unfold zstd. rewrite Hz. unfold set_chash. rsimpl. rewrite Hzd, Hld, N.eqb_refl.
  unfold set_data, set_idx, set_chash. rsimpl. destruct next; reflexivity.
Qed.

(** a full buffer is handed out *)
Lemma stepA ud n st d frd :
  0 < n -> r_dc st = d -> len d = n ->
  comp_step H zdecomp hd ud n st [] frd = SDone (ROk d) (set_dc st [] (r_dcloc st + n)).
Proof.
  intros Hn Hdc Hld. unfold comp_step. cbv zeta. rewrite Hdc.
  change (len []) with 0. rewrite N.sub_0_r, Hld, N.min_id. cbn [app].
  rewrite takeN_all, dropN_all by lia. rewrite Hld, N.eqb_refl. reflexivity.
Qed.

(** ** reading one whole chunk with a buffer of its declared size *)
Lemma zread (ud : bool) n c next d : forall m fuel st off,
  (N.to_nat (c_clen c - r_loc st) <= m)%nat -> (m + 3 <= fuel)%nat ->
  0 < n -> r_dc st = [] -> r_eof st = false -> r_idx st = c :: next ->
  r_loc st <= c_clen c -> c_clen c < two64 -> off + c_clen c <= len b ->
  r_rest st = dropN (off + r_loc st) b -> r_data st = sub b off (r_loc st) ->
  (r_chash st = Some (sub b off (r_loc st)) \/ (r_chash st = None /\ r_loc st = 0 /\ 0 < c_clen c)) ->
  fh_ok st ->
  (if c_clen c =? 0 then all_zero (c_digest c) else bytes_eqb (H (h_chash hd) (sub b off (c_clen c))) (c_digest c)) = true ->
  zdecomp (if ud then r_dict st else None) (sub b off (c_clen c)) (c_ulen c) = Some d -> len d = c_ulen c -> c_ulen c = n ->
  exists st', comp_loop H zdecomp hd fuel ud n st [] false = (ROk d, st') /\
    r_err st' = r_err st /\ r_dict st' = r_dict st /\ r_started st' = r_started st /\
    r_chash st' = Some [] /\ fh_ok st' /\ r_dc st' = [] /\ r_idx st' = next.
Proof.
  induction m as [|m IH]; intros fuel st off Hm Hfuel Hn Hdc Heof Hidx Hloc Hcl Hb Hrest Hdata Hch Hfh Hok Hzd Hld Hul.
  - (* nothing left to read: close the chunk and hand the data out *)
    assert (Hl : r_loc st = c_clen c) by lia.
    destruct Hch as [Hch|[_ [Hc0 Hc1]]]; [|lia].
    destruct fuel as [|[|fuel]]; try lia. cbn [comp_loop].
    rewrite Hl in Hch. rewrite Hl in Hdata.
    rewrite (stepE ud n st c next _ d false Hn Hdc Heof Hidx Hl Hch Hok ltac:(now rewrite Hdata) Hld).
    match goal with |- context [comp_step H zdecomp hd ud n ?s [] false] =>
      rewrite (stepA ud n s d false Hn eq_refl ltac:(congruence)) end.
    eexists. split; [reflexivity|]. rsimpl. repeat split; try reflexivity.
    destruct Hfh as [Hu|[fh Hfh]]; [now left|right; exists fh; exact Hfh].
  - destruct (N.eq_dec (r_loc st) (c_clen c)) as [Hl|Hl].
    { apply (IH fuel st off); try assumption; lia. }
    destruct fuel as [|fuel]; [lia|]. cbn [comp_loop].
    set (rs := N.min n (c_clen c - r_loc st)).
    set (src := takeN rs (r_rest st)).
    assert (Hls : len src = rs).
    { unfold src. rewrite len_takeN, Hrest, len_dropN. unfold rs. lia. }
    assert (Hsp : r_rest st = src ++ dropN rs (r_rest st)) by (unfold src; now rewrite take_drop).
    assert (Hch' : r_chash st = Some (sub b off (r_loc st)) \/ r_chash st = None /\ sub b off (r_loc st) = []).
    { destruct Hch as [Hch|[Hch [Hl0 _]]]; [now left|right]. split; [exact Hch|]. rewrite Hl0. apply sub_0. }
    destruct (stepG ud n st c next src (dropN rs (r_rest st)) (sub b off (r_loc st)) Hn Hdc Heof Hidx ltac:(lia) Hcl Hsp Hls Hch' Hfh)
      as (fh' & Hfh' & ->).
    assert (E1 : dropN rs (r_rest st) = dropN (off + (r_loc st + len src)) b).
    { unfold src. rewrite Hrest, dropN_extend. f_equal. lia. }
    assert (E2 : sub b off (r_loc st) ++ src = sub b off (r_loc st + len src)).
    { unfold src. rewrite Hrest. apply sub_extend. }
    edestruct (IH fuel (mkR (dropN rs (r_rest st)) (r_data st ++ src) (r_loc st + len src) (c :: next) false [] (r_dcloc st + 0)
                          (Some (sub b off (r_loc st) ++ src)) fh' (r_dict st) (r_started st) (r_err st)) off)
      as (st' & Hr & P1 & P2 & P3 & P4 & P5 & P6 & P7); rsimpl; try reflexivity; try assumption; try lia.
    + rewrite Hdata. exact E2.
    + left. now rewrite E2.
    + destruct Hfh' as [Hu|Hne]; [now left|right]. destruct fh' as [x|]; [now exists x|congruence].
    + exists st'. split; [exact Hr|]. repeat split; assumption.
Qed.

(** ** one request from a ready state (dictionary not needed or already loaded) *)
Definition Rdy (st : rstate) : Prop :=
  r_err st = 0 /\ fh_ok st /\ (r_chash st = None \/ r_chash st = Some []).

Lemma nat_eqb_succ (n : nat) : Nat.eqb n (S n) = false.
Proof. induction n as [|n IH]; [reflexivity|exact IH]. Qed.

Lemma request_data fuel st k c next d :
  skipn k cks = c :: next -> Rdy st ->
  (first_ulen hd = 0 \/ r_dict st <> None) ->
  0 < c_ulen c -> c_clen c < two64 -> c_start c + c_clen c <= len b ->
  (if c_clen c =? 0 then all_zero (c_digest c) else bytes_eqb (H (h_chash hd) (stored b c)) (c_digest c)) = true ->
  zdecomp (match k with O => None | _ => r_dict st end) (stored b c) (c_ulen c) = Some d -> len d = c_ulen c ->
  (N.to_nat (c_clen c) + 3 <= fuel)%nat ->
  exists st', zck_get_chunk_data H zdecomp hd f fuel st k (c_ulen c) = (ROk d, st') /\
              Rdy st' /\ r_chash st' = Some [] /\ r_dict st' = r_dict st.
Proof.
  intros Hsk (He & Hfh & Hch) Hd Hu Hcl Hb Hok Hzd Hld Hfuel.
  unfold zck_get_chunk_data. rewrite Hsk, He. change (0 <? 0) with false. cbv iota.
  destruct (N.eqb_spec (c_ulen c) 0) as [E|_]; [lia|].
  assert (Hcond : (0 <? first_ulen hd) && match r_dict st with None => true | Some _ => false end = false).
  { destruct Hd as [->|Hd]; [reflexivity|]. destruct (r_dict st); [apply andb_false_r|congruence]. }
  rewrite Hcond.
  unfold comp_init, comp_reset, reset_comp_data. rsimpl. rewrite He. change (0 <? 0) with false. cbv iota. rsimpl. cbv zeta.
  match goal with |- context [comp_read H zdecomp hd fuel ?s _ _] => set (st3 := s) end.
  set (ud := match k with O => false | _ => true end).
  assert (Hcr : comp_read H zdecomp hd fuel st3 (c_ulen c) ud = comp_loop H zdecomp hd fuel ud (c_ulen c) st3 [] false).
  { unfold comp_read, st3, seek. rsimpl. rewrite He. change (0 <? 0) with false. cbn [negb]. cbv iota.
    destruct (N.eqb_spec (c_ulen c) 0) as [E|_]; [lia|].
    assert (Hcond2 : ud && (0 <? first_ulen hd) && match r_dict st with None => true | Some _ => false end = false).
    { rewrite <- andb_assoc, Hcond. apply andb_false_r. }
    rewrite Hcond2. reflexivity. }
  rewrite Hcr.
  edestruct (zread ud (c_ulen c) c next d (N.to_nat (c_clen c)) fuel st3 (c_start c))
    as (st' & Hr & P1 & P2 & P3 & P4 & P5 & P6 & P7); unfold st3, seek, set_idx, set_chash, set_rest; rsimpl; try reflexivity; try assumption; try lia.
  - rewrite N.add_0_r. unfold body, data_offset. now rewrite dropN_dropN.
  - now left.
  - unfold ud. destruct k; exact Hzd.
  - unfold st3, seek, set_idx, set_chash, set_rest in Hr. rsimpl. rewrite Hr, P7.
    cbn [length]. rewrite nat_eqb_succ, andb_false_r.
    exists st'. split; [reflexivity|]. split; [|split; [exact P4|exact P2]].
    split; [rewrite P1; exact He|]. split; [exact P5|now right].
Qed.

Lemma request_stored st k c next :
  skipn k cks = c :: next -> Rdy st -> c_start c + c_clen c <= len b ->
  exists st', zck_get_chunk_comp_data hd f st k (c_clen c) = (ROk (stored b c), st') /\ Rdy st' /\ r_dict st' = r_dict st.
Proof.
  intros Hsk (He & Hfh & Hch) Hb. unfold zck_get_chunk_comp_data. rewrite Hsk, He. change (0 <? 0) with false. cbv iota.
  destruct (N.eqb_spec (c_clen c) 0) as [E|_].
  - exists st. split; [|split; [repeat split; assumption|reflexivity]]. unfold stored. rewrite E. reflexivity.
  - assert (Hs : r_rest (seek f st (data_offset hd + c_start c)) = dropN (c_start c) b).
    { unfold seek, set_rest. rsimpl. unfold body, data_offset. now rewrite dropN_dropN. }
    rewrite Hs. eexists. split; [reflexivity|]. unfold seek, set_rest. rsimpl.
    split; [|reflexivity]. split; [exact He|]. split; [exact Hfh|exact Hch].
Qed.

Lemma skipn_in {A} (k : nat) (l : list A) c next : skipn k l = c :: next -> In c l.
Proof.
  revert l. induction k as [|k IH]; intros l E; cbn [skipn] in E.
  - subst l. now left.
  - destruct l as [|x l]; [discriminate|]. right. now apply IH.
Qed.

Lemma clen_le_total c (l : list chunk) : In c l -> c_clen c <= data_total l.
Proof.
  induction l as [|x l IH]; intros Hin; [contradiction|]. rewrite data_total_cons.
  destruct Hin as [->|Hin]; [lia|]. specialize (IH Hin). lia.
Qed.

(** what the specification says about one entry *)
Definition req_result (r : req) (res : rres) : Prop :=
  match r with
  | ReqData k => exists c next d, skipn k cks = c :: next /\ res = ROk d /\ len d = c_ulen c /\
                   (0 < c_ulen c -> decode_chunk zdecomp true None c (stored b c) = Some d)
  | ReqStored k => exists c next, skipn k cks = c :: next /\ res = ROk (stored b c) /\
                   (c_clen c <> 0 -> H (h_chash hd) (stored b c) = c_digest c)
  end.
Definition req_valid (r : req) : Prop :=
  match r with ReqData k | ReqStored k => (k < length cks)%nat end.

Theorem requests_zstd_nodict fuel content :
  data_total cks < two64 -> first_ulen hd = 0 ->
  spec_verify H hd f = true -> spec_decode zdecomp hd f = Some content ->
  (forall c, In c cks -> c_clen c = 0 -> c_ulen c = 0) ->
  (forall c, In c cks -> (N.to_nat (c_clen c) + 3 <= fuel)%nat) ->
  forall rq st, Forall req_valid rq -> Rdy st -> r_dict st = None ->
  Forall2 req_result rq (run_reqs H zdecomp hd f fuel st rq).
Proof.
  intros Htot Hfu Hver Hdec Hph Hfuel.
  assert (Hex : exists c0 cs, h_chunks hd = c0 :: cs).
  { unfold spec_verify, chunks_ok in Hver. destruct (h_chunks hd) as [|c0 cs]; [discriminate|eauto]. }
  destruct Hex as (c0 & cs & Eck).
  assert (Hu0 : c_ulen c0 = 0) by (unfold first_ulen in Hfu; now rewrite Eck in Hfu).
  (* checksums and bounds of every entry *)
  assert (Hok : forall c, In c cks -> c_start c + c_clen c <= len b /\
                 (c_clen c <> 0 -> bytes_eqb (H (h_chash hd) (stored b c)) (c_digest c) = true)).
  { unfold spec_verify in Hver. apply andb_true_iff in Hver. destruct Hver as [Hc _]. unfold chunks_ok in Hc.
    rewrite Eck in *. apply andb_true_iff in Hc. destruct Hc as [Hc0 Hcs].
    assert (Hg : forall fl c, chunk_ok H hd b fl c = true -> c_start c + c_clen c <= len b /\
                 (c_clen c <> 0 -> bytes_eqb (H (h_chash hd) (stored b c)) (c_digest c) = true)).
    { intros fl c Hc. unfold chunk_ok in Hc. apply andb_true_iff in Hc. destruct Hc as [Hb Hh]. apply N.leb_le in Hb.
      split; [exact Hb|]. intros Hne. destruct (N.eqb_spec (c_clen c) 0); [contradiction|exact Hh]. }
    intros c [<-|Hin]; [exact (Hg true _ Hc0)|]. rewrite forallb_forall in Hcs. exact (Hg false c (Hcs c Hin)). }
  (* every entry after the first decodes, without dictionary *)
  assert (Hdc : forall c, In c cs -> exists d, decode_chunk zdecomp true None c (stored b c) = Some d /\ len d = c_ulen c).
  { unfold spec_decode in Hdec. destruct (spec_dict zdecomp hd b) as [dict|] eqn:Ed; [|discriminate].
    assert (dict = None).
    { unfold spec_dict in Ed. rewrite Eck in Ed. destruct ((c_clen c0 =? 0) && (c_ulen c0 =? 0)); [congruence|].
      destruct (decode_chunk zdecomp (is_zstd hd) None c0 (stored b c0)); [|discriminate]. rewrite Hu0 in Ed. cbn in Ed. congruence. }
    subst dict. rewrite Eck in Hdec. cbn [tl] in Hdec. rewrite Hz in Hdec.
    pose proof (decode_all_sizes _ _ _ _ _ _ Hdec) as HF. rewrite Forall_forall in HF. exact HF. }
  induction rq as [|r rq IH]; intros st Hval HR Hdn; cbn [run_reqs]; [constructor|].
  inversion Hval as [|? ? Hv Hval']; subst.
  destruct r as [k|k]; cbn [req_valid] in Hv.
  - destruct (skipn k cks) as [|c next] eqn:Hsk.
    { exfalso. assert (Hl : length (skipn k cks) = 0%nat) by now rewrite Hsk. rewrite skipn_length in Hl. lia. }
    pose proof (skipn_in k cks c next Hsk) as Hin.
    destruct (N.eq_dec (c_ulen c) 0) as [Hz0|Hnz].
    + (* declared size 0: nothing to fetch *)
      unfold zck_get_chunk_data. rewrite Hsk. destruct HR as (He & HR2). rewrite He. change (0 <? 0) with false. cbv iota.
      rewrite Hz0, N.eqb_refl. constructor.
      * exists c, next, []. split; [exact Hsk|]. split; [reflexivity|]. split; [now rewrite Hz0|lia].
      * apply IH; try assumption. split; assumption.
    + assert (Hcl : c_clen c <> 0) by (intros E; apply Hnz; now apply Hph).
      destruct (Hok c Hin) as [Hb Hh]. specialize (Hh Hcl).
      assert (Hk : exists k', k = S k').
      { destruct k as [|k']; [|eauto]. exfalso. rewrite Eck in Hsk. cbn in Hsk. injection Hsk as <- _. lia. }
      destruct Hk as [k' ->].
      assert (Hin2 : In c cs).
      { rewrite Eck in Hsk. cbn [skipn] in Hsk. exact (skipn_in k' cs c next Hsk). }
      destruct (Hdc c Hin2) as (d & Hd1 & Hd2).
      assert (Hzd : zdecomp (r_dict st) (stored b c) (c_ulen c) = Some d).
      { rewrite Hdn. unfold decode_chunk in Hd1. destruct (zdecomp None (stored b c) (c_ulen c)) as [x|]; [|discriminate].
        destruct (len x =? c_ulen c); [congruence|discriminate]. }
      pose proof (clen_le_total c cks Hin) as Hle.
      assert (Hokif : (if c_clen c =? 0 then all_zero (c_digest c) else bytes_eqb (H (h_chash hd) (stored b c)) (c_digest c)) = true).
      { destruct (N.eqb_spec (c_clen c) 0); [contradiction|exact Hh]. }
      destruct (request_data fuel st (S k') c next d Hsk HR (or_introl Hfu) ltac:(lia) ltac:(lia) Hb Hokif Hzd Hd2 (Hfuel c Hin))
        as (st' & -> & HR' & _ & Hd').
      constructor.
      * exists c, next, d. split; [exact Hsk|]. split; [reflexivity|]. split; [exact Hd2|]. intros _. exact Hd1.
      * apply IH; try assumption. congruence.
  - destruct (skipn k cks) as [|c next] eqn:Hsk.
    { exfalso. assert (Hl : length (skipn k cks) = 0%nat) by now rewrite Hsk. rewrite skipn_length in Hl. lia. }
    pose proof (skipn_in k cks c next Hsk) as Hin. destruct (Hok c Hin) as [Hb Hh].
    destruct (request_stored st k c next Hsk HR Hb) as (st' & -> & HR' & Hd').
    constructor.
    + exists c, next. split; [exact Hsk|]. split; [reflexivity|]. intros Hne. apply bytes_eqb_eq. now apply Hh.
    + apply IH; try assumption. congruence.
Qed.

Lemma open_Rdy : Rdy (open_state hd f) /\ r_dict (open_state hd f) = None.
Proof.
  split; [|reflexivity]. split; [reflexivity|]. split; [right; exists []; reflexivity|now left].
Qed.
End Access.
