(** Reader proofs, part 3: the stream invariant of comp_read for UNCOMPRESSED files
    (compression type 0).  Bytes are handed out before the checksum of their chunk is
    known; what is invariant is the position: everything released or buffered so far is
    exactly the prefix of the body read from the file, and every CLOSED chunk has been
    verified.  Consequence: open + reads until 0 + close all succeed => spec_verify and the
    concatenated output = spec_decode (T2.1 / T2.3 for compression type 0). *)
From ZV Require Import Base.Bytes Gen.GenConsts Format.Compint Format.Header Format.ParseProofs
                       Read.ReadSpec Read.CompRead Read.ReadLemmas Read.ReadProofs.
Local Open Scope N_scope.
Ltac Zify.zify_post_hook ::= Z.to_euclidean_division_equations.

Section Nocomp.
Variable H : N -> bytes -> bytes.
Variable zdecomp : option bytes -> bytes -> N -> option bytes.
Variable hd : header.
Variable f : bytes.
Notation cks := (h_chunks hd).
Notation b := (body hd f).
Notation ver' := (ver H zdecomp hd f).
Notation dec1' := (dec1 zdecomp hd f).

Hypothesis Hstarts : starts_ok 0 (h_chunks hd).
Hypothesis Hsizes : data_total (h_chunks hd) < two64.
Hypothesis Hn : is_zstd hd = false.
Hypothesis Hnonempty : h_chunks hd <> [].

Lemma nozstd : zstd hd = false.
Proof. exact Hn. Qed.

(** [frd] is the loop's finished_rd flag; it only matters while the dictionary is imported *)
Definition RUNn (imp frd : bool) (del : bytes) (st : rstate) : Prop :=
  exists pre, cks = pre ++ r_idx st /\
    (r_eof st = true <-> r_idx st = []) /\
    ver' true None pre = Some (takeN (data_total pre) b) /\
    del ++ r_dc st ++ r_data st = takeN (data_total pre + r_loc st) b /\
    r_loc st <= cur_clen st /\
    data_total pre + r_loc st <= len b /\
    r_rest st = dropN (data_total pre + r_loc st) b /\
    r_chash st = Some (sub b (data_total pre) (r_loc st)) /\
    (uflag hd = false -> r_fhash st = Some (takeN (data_total pre + r_loc st) b)) /\
    (r_idx st = [] -> r_data st = []) /\
    (imp = true -> r_dict st = None /\ pre = [] /\
       ((r_loc st = 0 /\ del ++ r_dc st ++ r_data st = []) \/ r_loc st = first_ulen hd \/
        (r_loc st < first_ulen hd /\ 0 < r_loc st /\ (r_loc st = cur_clen st \/ frd = true)))).

Definition Jn (imp frd : bool) (del : bytes) (st : rstate) : Prop :=
  r_err st = 0 /\ r_started st = true /\ (NS hd f del st \/ RUNn imp frd del st).

Lemma Jn_take imp frd del st dl x :
  Jn imp frd del st -> Jn imp frd (del ++ takeN dl (r_dc st)) (set_dc st (dropN dl (r_dc st)) x).
Proof.
  intros (He & Hs & HJ). split; [exact He|]. split; [exact Hs|]. destruct HJ as [HN|HR].
  - left. destruct HN as (A1 & A2 & A3 & A4 & A5 & A6 & A7 & A8 & A9). dst st. subst.
    rewrite takeN_nil, dropN_nil. repeat split; try reflexivity; assumption.
  - right. destruct HR as (pre & B1 & B2 & B3 & B4 & B5 & B6 & B7 & B8 & B9 & B10 & B11).
    exists pre. dst st. unfold cur_clen in *. rsimpl.
    assert (E : (del ++ takeN dl dc) ++ dropN dl dc ++ data = del ++ dc ++ data).
    { rewrite <- app_assoc. f_equal. rewrite app_assoc, take_drop. reflexivity. }
    rewrite E. split; [exact B1|]. split; [exact B2|]. split; [exact B3|]. split; [exact B4|]. split; [exact B5|].
    split; [exact B6|]. split; [exact B7|]. split; [exact B8|]. split; [exact B9|]. split; [exact B10|exact B11].
Qed.

(** closing a chunk / reading one block: decompressed and compressed buffers are empty *)
Lemma chunk_inv_n imp n del st out1 frd c next :
  0 < n -> r_err st = 0 -> r_started st = true -> RUNn imp frd del st ->
  r_dc st = [] -> r_data st = [] -> r_idx st = c :: next ->
  (imp = true -> len del < n /\ n = first_ulen hd) ->
  match step_chunk H zdecomp hd (negb imp) n st out1 frd with
  | SCont st' out' frd' => out' = out1 /\ Jn imp frd' del st' /\ r_dict st' = r_dict st
  | SDone (ROk _) _ => False
  | SDone (RErr _) st' => 0 < r_err st'
  | SDone RFuel _ => True
  end.
Proof.
  intros Hpos He Hst (pre & Hck & Heof & Hver & Hpos' & Hloc & Hb & Hrest & Hch & Hfh & Hid & Himp) Hdc Hdata Hidx Hil.
  dst st. subst idx dc data err started. unfold cur_clen in *. rsimpl.
  destruct (chunk_sizes H zdecomp hd f Hstarts Hsizes pre c next Hck) as [Hlt Hstart].
  set (off := data_total pre) in *.
  rewrite app_nil_r in Hpos'.
  assert (Hld : len del = off + loc) by (rewrite Hpos', len_takeN; lia).
  unfold step_chunk. rsimpl.
  destruct (N.eqb_spec loc (c_clen c)) as [Hend|Hmid].
  - (* end of chunk *)
    subst loc. unfold end_dchunk, validate_current. rsimpl. rewrite Hch.
    assert (Hsto : stored b c = sub b off (c_clen c)) by (unfold stored; now rewrite Hstart).
    match goal with |- context [if ?ok then Some _ else None] => destruct ok eqn:Hok end; [|rsimpl; lia].
    assert (Hcok : forall fl, chunk_ok H hd b fl c = true).
    { intros fl. unfold chunk_ok. rewrite Hstart. fold off. apply andb_true_iff. split; [apply N.leb_le; exact Hb|].
      rewrite Hsto. destruct (c_clen c =? 0); [rewrite Hok; apply orb_true_r|exact Hok]. }
    unfold backend_end_dchunk. rewrite nozstd. unfold set_chash. rsimpl.
    destruct (N.eqb_spec (c_clen c) (c_ulen c)) as [Hcu|Hcu]; [|rsimpl; lia].
    assert (Hnimp : imp = false).
    { destruct imp; [exfalso|reflexivity]. destruct (Hil eq_refl) as [Hl1 Hl2].
      destruct (Himp eq_refl) as (_ & -> & Hcase). cbn in off. subst off.
      assert (Hfu : first_ulen hd = c_ulen c) by (unfold first_ulen; now rewrite Hck).
      destruct Hcase as [[Hc0 _]|[Hc1|[Hc2 _]]]; lia. }
    subst imp. cbn [negb]. unfold set_data, set_idx, set_chash. rsimpl.
    assert (Hdec : dec1' (hflag true pre) None c = Some (stored b c)).
    { unfold dec1. destruct (hflag true pre && skip0 c) eqn:Hsk.
      - apply andb_true_iff in Hsk. destruct Hsk as [_ Hsk]. unfold skip0 in Hsk. apply andb_true_iff in Hsk.
        destruct Hsk as [Hc0 _]. apply N.eqb_eq in Hc0. rewrite Hsto, Hc0. reflexivity.
      - unfold decode_chunk. rewrite Hn, <- Hcu, N.eqb_refl. now destruct (hflag true pre). }
    assert (Hnew : forall eof', (eof' = true <-> next = []) ->
              Jn false frd del (mkR rest [] 0 next eof' [] dcloc (Some []) fhash dict true 0)).
    { intros eof' Heof'. split; [reflexivity|]. split; [reflexivity|]. right. exists (pre ++ [c]). rsimpl.
      unfold cur_clen. rsimpl.
      rewrite data_total_app, data_total_cons. cbn [data_total fold_right]. fold off.
      replace (off + (c_clen c + 0) + 0) with (off + c_clen c) by lia.
      replace (off + (c_clen c + 0)) with (off + c_clen c) by lia.
      split; [now rewrite <- app_assoc|]. split; [exact Heof'|].
      split. { rewrite (ver_snoc H zdecomp hd f true None pre c _ _ Hver (Hcok _) Hdec).
               rewrite Hsto, sub_as, takeN_plus. reflexivity. }
      split; [now rewrite app_nil_r|]. split; [lia|]. split; [exact Hb|]. split; [exact Hrest|]. split; [reflexivity|].
      split; [exact Hfh|]. split; [reflexivity|]. intros; discriminate. }
    destruct next as [|c1 next1]; rsimpl; (split; [reflexivity|]); (split; [|reflexivity]); apply Hnew.
    + split; reflexivity.
    + destruct eof; [|split; discriminate]. destruct Heof as [Hx _]. specialize (Hx eq_refl). discriminate.
  - (* inside the chunk *)
    destruct frd; [rsimpl; lia|].
    cbv zeta. rsimpl. rewrite Hch.
    set (rs := if c_clen c <? loc + n then u64 (c_clen c + two64 - loc) else n).
    assert (Hrs : 0 < rs /\ rs <= c_clen c - loc /\ rs = N.min n (c_clen c - loc)).
    { unfold rs. destruct (N.ltb_spec (c_clen c) (loc + n)).
      - assert (Hl : c_clen c < two64) by lia. unfold u64, two64 in *. lia.
      - lia. }
    fold rs.
    remember (takeN rs rest) as src eqn:Esrc.
    assert (Hls : len src <= rs /\ off + loc + len src <= len b).
    { subst src rest. rewrite len_takeN, len_dropN. lia. }
    assert (Hfin : src <> [] ->
              Jn imp (len src <? rs) del (mkR (dropN rs rest) ([] ++ src) (loc + len src) (c :: next) eof [] dcloc
                              (Some (sub b off loc ++ src))
                              (if uflag hd then fhash else Some (takeN (off + loc) b ++ src)) dict true 0)).
    { intros Hne. split; [reflexivity|]. split; [reflexivity|]. right. exists pre. rsimpl. unfold cur_clen. rsimpl. fold off.
      assert (E1 : dropN rs rest = dropN (off + (loc + len src)) b).
      { subst src rest. rewrite dropN_extend. f_equal. lia. }
      assert (E2 : sub b off loc ++ src = sub b off (loc + len src)).
      { subst src rest. apply sub_extend. }
      assert (E3 : takeN (off + loc) b ++ src = takeN (off + (loc + len src)) b).
      { subst src rest. rewrite takeN_extend. f_equal. lia. }
      split; [exact Hck|]. split; [exact Heof|]. split; [exact Hver|].
      split; [rewrite Hpos'; exact E3|]. split; [lia|]. split; [lia|].
      split; [exact E1|]. split; [now rewrite E2|].
      split; [intros Huf; rewrite Huf; now rewrite E3|]. split; [intros; discriminate|].
      intros Hi. destruct (Himp Hi) as (Hdn & Hp & Hcase). split; [exact Hdn|]. split; [exact Hp|].
      destruct (Hil Hi) as [Hl1 Hl2]. subst pre. cbn in off. subst off.
      assert (Hsl : 0 < len src) by (destruct src; [congruence|rewrite len_cons; lia]).
      destruct Hcase as [[Hc0 _]|[Hc1|[_ [_ [Hc2|Hc2]]]]]; try lia; try discriminate. }
    destruct src as [|x src'].
    { destruct (uflag hd); cbn [hash_update]; rsimpl; lia. }
    specialize (Hfin ltac:(discriminate)).
    destruct (uflag hd) eqn:Huf.
    + cbn [hash_update]. rsimpl. split; [reflexivity|]. split; [exact Hfin|reflexivity].
    + rewrite (Hfh eq_refl) in *. cbn [hash_update]. rsimpl. split; [reflexivity|]. split; [exact Hfin|reflexivity].
Qed.

Lemma step_inv_n imp n del0 st out frd :
  0 < n -> len out < n ->
  (imp = true -> n = first_ulen hd /\ del0 = []) ->
  Jn imp frd (del0 ++ out) st ->
  match comp_step H zdecomp hd (negb imp) n st out frd with
  | SCont st' out' frd' => Jn imp frd' (del0 ++ out') st' /\ len out' < n /\ r_dict st' = r_dict st
  | SDone (ROk o) st' => Jn imp frd (del0 ++ o) st' /\ r_dict st' = r_dict st /\ (len o < n -> finished hd st')
  | SDone (RErr _) st' => 0 < r_err st'
  | SDone RFuel _ => True
  end.
Proof.
  intros Hpos Hlo Hi HJ.
  unfold comp_step. cbv zeta.
  set (dl := N.min (n - len out) (len (r_dc st))).
  pose proof (Jn_take imp frd (del0 ++ out) st dl (r_dcloc st + dl) HJ) as HJ1.
  rewrite <- app_assoc in HJ1.
  set (out1 := out ++ takeN dl (r_dc st)) in *.
  set (st1 := set_dc st (dropN dl (r_dc st)) (r_dcloc st + dl)) in *.
  assert (Hd1 : r_dict st1 = r_dict st) by reflexivity.
  assert (Hl1 : len out1 <= n).
  { unfold out1. rewrite len_app, len_takeN. fold dl. lia. }
  destruct (N.eqb_spec (len out1) n) as [Hfull|Hnf].
  { split; [exact HJ1|]. split; [exact Hd1|]. lia. }
  destruct (N.ltb_spec 0 dl) as [Hdl|Hdl].
  { split; [exact HJ1|]. split; [lia|exact Hd1]. }
  assert (Hdc : r_dc st = []).
  { apply len_0_nil. unfold dl in Hdl. lia. }
  assert (Hdc1 : r_dc st1 = []) by (unfold st1; rsimpl; rewrite Hdc; apply dropN_nil).
  destruct (r_eof st1) eqn:Heof1.
  { split; [exact HJ1|]. split; [exact Hd1|]. intros _. left. split; assumption. }
  rewrite <- Hd1.
  assert (Hil : imp = true -> len (del0 ++ out1) < n /\ n = first_ulen hd).
  { intros E. destruct (Hi E) as [-> ->]. cbn [app]. split; [lia|reflexivity]. }
  clearbody st1 out1. clear HJ Hdc Hd1 dl Hdl st.
  destruct (r_data st1) as [|x dat] eqn:Edata.
  2:{ (* buffered bytes are handed over to the decompressed side *)
    destruct HJ1 as (He & Hs & [HN|HR]).
    { destruct HN as (_ & _ & _ & A4 & _). congruence. }
    destruct HR as (pre & B1 & B2 & B3 & B4 & B5 & B6 & B7 & B8 & B9 & B10 & B11).
    dst st1. subst dc data eof err started.
    change (0 <? len (x :: dat)) with (0 <? N.of_nat (S (length dat))).
    destruct (N.ltb_spec 0 (N.of_nat (S (length dat)))) as [_|Hx]; [|lia].
    unfold decompress. rewrite nozstd. unfold set_data, add_to_dc, set_dc. rsimpl.
    assert (Hchg : negb (0 + len ([] ++ x :: dat) =? dcloc + len []) || negb (0 =? dcloc) = true).
    { destruct (N.eqb_spec 0 dcloc) as [<-|Hne]; [|apply orb_true_r]. cbn [negb orb]. rewrite orb_false_r.
      cbn [app]. rewrite len_cons. change (len []) with 0.
      destruct (N.eqb_spec (0 + (1 + len dat)) (0 + 0)); [lia|reflexivity]. }
    rewrite Hchg. rsimpl. split; [|split; [lia|reflexivity]].
    split; [reflexivity|]. split; [reflexivity|]. right. exists pre. unfold cur_clen in *. rsimpl.
    cbn [app] in B4 |- *. rewrite app_nil_r.
    split; [exact B1|]. split; [exact B2|]. split; [exact B3|]. split; [exact B4|]. split; [exact B5|].
    split; [exact B6|]. split; [exact B7|]. split; [exact B8|]. split; [exact B9|]. split; [reflexivity|].
    intros E. destruct (B11 E) as (D1 & D2 & D3). split; [exact D1|]. split; [exact D2|].
    cbn [app] in D3. exact D3. }
  change (0 <? len []) with false. cbv iota. rewrite !N.eqb_refl. cbn [negb orb].
  destruct HJ1 as (He & Hs & [HN|HR]).
  - (* not started: the first entry *)
    destruct HN as (A1 & A2 & A3 & A4 & A5 & A6 & A7 & A8 & A9).
    dst st1. subst idx eof loc data dc rest dict err started.
    unfold step_init. rsimpl.
    assert (Hex : exists c0 cs, h_chunks hd = c0 :: cs).
    { pose proof Hnonempty as Hq. destruct (h_chunks hd) as [|c0 cs]; [congruence|eauto]. }
    destruct Hex as (c0 & cs & Eck). rewrite Eck.
    apply app_eq_nil in A6. destruct A6 as [-> ->].
    change (0 <? 0) with false. cbv iota.
    destruct (chunk_sizes H zdecomp hd f Hstarts Hsizes [] c0 cs Eck) as [_ Hst0]. cbn in Hst0.
    fold (skip0 c0).
    remember (if skip0 c0 then cs else c0 :: cs) as idx0 eqn:Eidx.
    set (pre := if skip0 c0 then [c0] else []).
    unfold set_chash, set_idx. rsimpl.
    set (st3 := mkR b [] 0 idx0 false [] dcloc (Some []) fhash None true 0).
    destruct idx0 as [|c next].
    { unfold step_chunk. subst st3. rsimpl.
      destruct (skip0 c0) eqn:Hsk; [|discriminate]. subst cs.
      split; [|split; [reflexivity|]].
      - split; [reflexivity|]. split; [reflexivity|]. left. repeat split; try reflexivity. exact A8.
      - intros _. right. exists c0. repeat split; reflexivity || assumption. }
    assert (HR : RUNn imp frd [] st3).
    { exists pre. subst st3. rsimpl. unfold cur_clen. rsimpl.
      assert (Ht : data_total pre = 0).
      { unfold pre. destruct (skip0 c0) eqn:Hsk; [|reflexivity]. unfold skip0 in Hsk. apply andb_true_iff in Hsk.
        destruct Hsk as [Hc0 _]. apply N.eqb_eq in Hc0. cbn. lia. }
      rewrite Ht. cbn [N.add]. rewrite takeN_0.
      split. { rewrite Eidx, Eck. unfold pre. destruct (skip0 c0); reflexivity. }
      split. { split; discriminate. }
      split.
      { unfold pre. destruct (skip0 c0) eqn:Hsk; [|reflexivity]. cbn [ver]. unfold dec1. rewrite Hsk. cbn [andb].
        unfold chunk_ok. rewrite Hst0. unfold skip0 in Hsk. apply andb_true_iff in Hsk. destruct Hsk as [Hc0 Hu0].
        rewrite Hc0, Hu0. apply N.eqb_eq in Hc0. rewrite Hc0. cbn [N.add andb orb].
        destruct (N.leb_spec 0 (len b)); [reflexivity|lia]. }
      split; [reflexivity|]. split; [lia|]. split; [lia|]. split; [reflexivity|]. split; [reflexivity|].
      split; [exact A8|]. split; [intros; reflexivity|].
      intros E. split; [reflexivity|]. split.
      - unfold pre. destruct (skip0 c0) eqn:Hsk; [|reflexivity]. exfalso.
        unfold skip0 in Hsk. apply andb_true_iff in Hsk. destruct Hsk as [_ Hu0]. apply N.eqb_eq in Hu0.
        destruct (Hi E) as [Hn1 _]. unfold first_ulen in Hn1. rewrite Eck in Hn1. lia.
      - left. split; reflexivity. }
    pose proof (chunk_inv_n imp n [] st3 [] frd c next Hpos eq_refl eq_refl HR eq_refl eq_refl eq_refl) as Hc.
    cbn [app] in Hil. specialize (Hc Hil).
    destruct (step_chunk H zdecomp hd (negb imp) n st3 [] frd) as [st' out' frd'|[o| |] st']; try exact Hc.
    + destruct Hc as (-> & Hc1 & Hc2). split; [exact Hc1|]. split; [lia|exact Hc2].
    + contradiction.
  - (* running *)
    assert (Hcopy := HR).
    destruct HR as (pre & B1 & B2 & _).
    destruct (r_idx st1) as [|c next] eqn:Eidx.
    { destruct B2 as [_ B2]. rewrite (B2 eq_refl) in Heof1. discriminate. }
    unfold step_init. rewrite Eidx.
    pose proof (chunk_inv_n imp n (del0 ++ out1) st1 out1 frd c next Hpos He Hs Hcopy Hdc1 Edata Eidx Hil) as Hc.
    destruct (step_chunk H zdecomp hd (negb imp) n st1 out1 frd) as [st' out' frd'|[o| |] st']; try exact Hc.
    + destruct Hc as (-> & Hc1 & Hc2). split; [exact Hc1|]. split; [lia|exact Hc2].
    + contradiction.
Qed.

Lemma loop_inv_n imp n del0 fuel : forall st out frd,
  0 < n -> len out < n ->
  (imp = true -> n = first_ulen hd /\ del0 = []) ->
  Jn imp frd (del0 ++ out) st ->
  match comp_loop H zdecomp hd fuel (negb imp) n st out frd with
  | (ROk o, st') => (exists frd', Jn imp frd' (del0 ++ o) st') /\ r_dict st' = r_dict st /\ (len o < n -> finished hd st')
  | (RErr _, st') => 0 < r_err st'
  | (RFuel, _) => True
  end.
Proof.
  induction fuel as [|fuel IH]; intros st out frd Hpos Hlo Hi HJ; cbn [comp_loop]; [exact I|].
  pose proof (step_inv_n imp n del0 st out frd Hpos Hlo Hi HJ) as Hs.
  destruct (comp_step H zdecomp hd (negb imp) n st out frd) as [st' out' frd'|[o| |] st']; try exact Hs.
  - destruct Hs as (HJ' & Hlo' & Hd').
    pose proof (IH st' out' frd' Hpos Hlo' Hi HJ') as Hr.
    destruct (comp_loop H zdecomp hd fuel (negb imp) n st' out' frd') as [[o| |] st'']; try exact Hr.
    destruct Hr as (R1 & R2 & R3). split; [exact R1|]. split; [congruence|exact R3].
  - destruct Hs as (R1 & R2 & R3). split; [now exists frd|]. split; assumption.
Qed.

Lemma RUNn_user frd frd' del st : RUNn false frd del st -> RUNn false frd' del st.
Proof.
  intros (pre & B1 & B2 & B3 & B4 & B5 & B6 & B7 & B8 & B9 & B10 & B11). exists pre.
  repeat (split; [assumption|]). intros; discriminate.
Qed.

Definition CIn (uout : bytes) (st : rstate) : Prop :=
  r_err st = 0 /\ r_started st = true /\
  ((NS hd f [] st /\ uout = []) \/
   (RUNn false false (dpart st ++ uout) st /\ len (dpart st) = first_ulen hd)).

Lemma import_inv_n fuel st :
  r_err st = 0 -> r_started st = true -> NS hd f [] st -> 0 < first_ulen hd ->
  match import_dict H zdecomp hd fuel st with
  | (true, st') => exists d, r_dict st' = Some d /\ len d = first_ulen hd /\ RUNn false false d st' /\
                             r_err st' = 0 /\ r_started st' = true
  | (false, st') => 0 < r_err st'
  end.
Proof.
  intros He Hs HN Hfu. unfold import_dict. rewrite He. change (0 <? 0) with false. cbv iota.
  destruct (N.eqb_spec (first_ulen hd) 0) as [E|_]; [lia|].
  unfold comp_read_nd. rewrite He, Hs. change (0 <? 0) with false. cbn [negb]. cbv iota.
  destruct (N.eqb_spec (first_ulen hd) 0) as [E|_]; [lia|].
  assert (HJ : Jn true false ([] ++ []) st) by (split; [exact He|split; [exact Hs|now left]]).
  pose proof (loop_inv_n true (first_ulen hd) [] fuel st [] false Hfu ltac:(cbn; lia) ltac:(intros _; split; reflexivity) HJ) as Hl.
  cbn [negb] in Hl.
  destruct (comp_loop H zdecomp hd fuel false (first_ulen hd) st [] false) as [[d| |] st1]; rsimpl; try lia.
  destruct Hl as ((frd' & HJ1) & Hd1 & _). cbn [app] in HJ1.
  destruct (N.eqb_spec (len d) (first_ulen hd)) as [Hld|Hld]; [|rsimpl; lia].
  destruct HJ1 as (He1 & Hs1 & [HN1|HR1]).
  { destruct HN1 as (_ & _ & _ & _ & _ & Hd0 & _). subst d. cbn in Hld. lia. }
  unfold comp_reset, comp_init. rsimpl. rewrite He1. change (0 <? 0) with false. cbv iota. rsimpl.
  rewrite He1. change (0 <? 0) with false. cbv iota.
  exists d. rsimpl. split; [reflexivity|]. split; [exact Hld|]. split; [|split; reflexivity].
  destruct HR1 as (pre & B1 & B2 & B3 & B4 & B5 & B6 & B7 & B8 & B9 & B10 & B11).
  destruct (B11 eq_refl) as (Hdn & -> & Hcase). cbn [data_total fold_right] in *. rewrite N.add_0_l in *.
  assert (Htot : len (d ++ r_dc st1 ++ r_data st1) = r_loc st1) by (rewrite B4, len_takeN; lia).
  rewrite !len_app in Htot.
  assert (Hbuf : r_dc st1 = [] /\ r_data st1 = []).
  { destruct Hcase as [[Hc0 _]|[Hc1|[Hc2 _]]]; try lia.
    split; apply len_0_nil; lia. }
  destruct Hbuf as [Hdc Hdat].
  exists []. dst st1. unfold cur_clen in *. rsimpl. subst dc data. cbn [data_total fold_right]. rewrite !N.add_0_l.
  split; [exact B1|]. split; [exact B2|]. split; [exact B3|]. split; [exact B4|]. split; [exact B5|].
  split; [exact B6|]. split; [exact B7|]. split; [exact B8|]. split; [exact B9|]. split; [reflexivity|].
  intros; discriminate.
Qed.

Lemma read_inv_n fuel st n uout :
  0 < n -> CIn uout st ->
  match zck_read H zdecomp hd fuel st n with
  | (ROk o, st') => CIn (uout ++ o) st' /\ (len o < n -> finished hd st')
  | (RErr _, st') => 0 < r_err st'
  | (RFuel, _) => True
  end.
Proof.
  intros Hpos (He & Hs & HC). unfold zck_read, comp_read. rewrite He, Hs. change (0 <? 0) with false. cbn [negb]. cbv iota.
  destruct (N.eqb_spec n 0) as [E|_]; [lia|]. cbn [andb].
  destruct ((0 <? first_ulen hd) && match r_dict st with None => true | Some _ => false end) eqn:Hcond.
  - apply andb_true_iff in Hcond. destruct Hcond as [Hfu Hdn]. apply N.ltb_lt in Hfu.
    destruct (r_dict st) eqn:Ed; [discriminate|].
    destruct HC as [[HN ->]|[_ Hc]].
    2:{ unfold dpart in Hc. rewrite Ed in Hc. cbn in Hc. lia. }
    pose proof (import_inv_n fuel st He Hs HN Hfu) as Hi.
    destruct (import_dict H zdecomp hd fuel st) as [[|] st1]; [|exact Hi].
    destruct Hi as (d & Hd & Hld & HR & He1 & Hs1).
    assert (HJ : Jn false false (d ++ []) st1) by (rewrite app_nil_r; split; [exact He1|split; [exact Hs1|now right]]).
    pose proof (loop_inv_n false n d fuel st1 [] false Hpos ltac:(cbn; lia) ltac:(intros; discriminate) HJ) as Hl.
    cbn [negb] in Hl.
    destruct (comp_loop H zdecomp hd fuel true n st1 [] false) as [[o| |] st2]; try exact Hl.
    destruct Hl as ((frd' & He2 & Hs2 & HJ2) & Hd2 & Hf). split; [|exact Hf].
    split; [exact He2|]. split; [exact Hs2|]. right.
    destruct HJ2 as [HN2|HR2].
    { destruct HN2 as (_ & _ & _ & _ & _ & _ & _ & _ & Hx). congruence. }
    unfold dpart. rewrite Hd2, Hd. cbn [app]. split; [exact (RUNn_user _ _ _ _ HR2)|exact Hld].
  - assert (HJ : Jn false false ((dpart st ++ uout) ++ []) st).
    { rewrite app_nil_r. split; [exact He|]. split; [exact Hs|]. destruct HC as [[HN ->]|[HR _]].
      - left. destruct HN as (A1 & A2 & A3 & A4 & A5 & A6 & A7 & A8 & A9). unfold dpart. rewrite A9.
        repeat split; assumption.
      - now right. }
    pose proof (loop_inv_n false n (dpart st ++ uout) fuel st [] false Hpos ltac:(cbn; lia) ltac:(intros; discriminate) HJ) as Hl.
    cbn [negb] in Hl.
    destruct (comp_loop H zdecomp hd fuel true n st [] false) as [[o| |] st2]; try exact Hl.
    destruct Hl as ((frd' & He2 & Hs2 & HJ2) & Hd2 & Hf). split; [|exact Hf].
    split; [exact He2|]. split; [exact Hs2|].
    destruct HJ2 as [HN2|HR2].
    + left. destruct HN2 as (A1 & A2 & A3 & A4 & A5 & A6 & A7 & A8 & A9).
      apply app_eq_nil in A6. destruct A6 as [A6 ->]. apply app_eq_nil in A6. destruct A6 as [_ ->].
      split; [|reflexivity]. repeat split; assumption.
    + right. unfold dpart in *. rewrite Hd2. rewrite <- app_assoc in HR2. split; [exact (RUNn_user _ _ _ _ HR2)|].
      destruct HC as [[HN ->]|[_ Hc]]; [|exact Hc].
      destruct HN as (_ & _ & _ & _ & _ & _ & _ & _ & A9). rewrite A9 in *. cbn.
      apply andb_false_iff in Hcond. destruct Hcond as [Hc|Hc]; [apply N.ltb_ge in Hc; lia|discriminate].
Qed.

Lemma read_all_inv_n fuel : forall sizes st acc out st',
  Forall (fun n => 0 < n) sizes -> CIn acc st ->
  read_all H zdecomp hd fuel st sizes acc = (out, Some true, st') -> CIn out st' /\ finished hd st'.
Proof.
  induction sizes as [|n sizes IH]; intros st acc out st' Hpos HC E; cbn [read_all] in E; [discriminate|].
  inversion Hpos as [|? ? Hn0 Hpos']; subst.
  pose proof (read_inv_n fuel st n acc Hn0 HC) as Hr.
  destruct (zck_read H zdecomp hd fuel st n) as [[o| |] st1]; try discriminate.
  destruct Hr as [HC1 Hf]. destruct o as [|x o].
  - injection E as <- <-. rewrite app_nil_r in HC1. split; [exact HC1|]. apply Hf. cbn. exact Hn0.
  - apply (IH st1 (acc ++ x :: o) out st' Hpos' HC1 E).
Qed.

Lemma open_CIn : CIn [] (open_state hd f).
Proof.
  split; [reflexivity|]. split; [reflexivity|]. left. split; [|reflexivity].
  unfold NS, open_state. rsimpl. repeat split; reflexivity.
Qed.

Lemma decode_all_nodict dv dv' bb cs : decode_all zdecomp false dv bb cs = decode_all zdecomp false dv' bb cs.
Proof. induction cs as [|c cs IH]; [reflexivity|]. cbn [decode_all]. unfold decode_chunk. now rewrite IH. Qed.

Lemma final_spec_n out st st2 :
  CIn out st -> finished hd st -> zck_close H hd st = (true, st2) ->
  spec_verify H hd f = true /\ spec_decode zdecomp hd f = Some out.
Proof.
  intros (He & Hs & HC) Hfin Hcl.
  unfold zck_close in Hcl. rewrite He in Hcl. change (0 <? 0) with false in Hcl. cbv iota in Hcl.
  destruct HC as [[HN ->]|[HR Hdp]].
  - destruct HN as (A1 & A2 & A3 & A4 & A5 & A6 & A7 & A8 & A9).
    destruct Hfin as [[Hx _]|(c0 & Eck & Hsk & _)]; [congruence|].
    destruct (chunk_sizes H zdecomp hd f Hstarts Hsizes [] c0 [] Eck) as [_ Hst0]. cbn in Hst0.
    unfold skip0 in Hsk. apply andb_true_iff in Hsk. destruct Hsk as [Hc0 Hu0].
    unfold spec_verify, chunks_ok, data_ok, spec_decode, spec_dict. rewrite Eck. cbn [forallb tl data_total fold_right decode_all].
    unfold chunk_ok. rewrite Hst0, Hc0, Hu0. apply N.eqb_eq in Hc0. rewrite Hc0. cbn [N.add andb orb].
    split; [|reflexivity].
    destruct (N.leb_spec 0 (len b)); [|lia]. cbn [andb].
    destruct (uflag hd) eqn:Huf; [reflexivity|]. cbn [orb]. rewrite (A8 eq_refl) in Hcl. injection Hcl as Hcl _. exact Hcl.
  - destruct Hfin as [[Heof Hdc]|(c0 & _ & _ & Hidx & Heof)].
    2:{ destruct HR as (pre & _ & B2 & _). destruct B2 as [_ B2]. rewrite (B2 Hidx) in Heof. discriminate. }
    destruct HR as (pre & B1 & B2 & B3 & B4 & B5 & B6 & B7 & B8 & B9 & B10 & B11).
    destruct B2 as [B2 _]. specialize (B2 Heof). rewrite B2, app_nil_r in B1. subst pre.
    unfold cur_clen in B5. rewrite B2 in B5. assert (Hl0 : r_loc st = 0) by lia. rewrite Hl0, N.add_0_r in *.
    rewrite Hdc, (B10 B2), !app_nil_r in B4.
    assert (Hex : exists c0 cs, h_chunks hd = c0 :: cs).
    { pose proof Hnonempty as Hq. destruct (h_chunks hd) as [|c0 cs]; [congruence|eauto]. }
    destruct Hex as (c0 & cs & Eck).
    pose proof (ver_chunks_ok H zdecomp hd f true None cks _ B3) as Hok. rewrite Eck in Hok, B3.
    assert (Hdat : data_ok H hd b = true).
    { unfold data_ok. apply andb_true_iff. split; [apply N.leb_le; exact B6|].
      destruct (uflag hd) eqn:Huf; [reflexivity|]. cbn [orb]. rewrite (B9 eq_refl) in Hcl. injection Hcl as Hcl _. exact Hcl. }
    split.
    { unfold spec_verify, chunks_ok. rewrite Eck. destruct Hok as [-> ->]. exact Hdat. }
    destruct Hok as [Hok0 _].
    unfold spec_decode, spec_dict. rewrite Eck. cbn [tl].
    cbn [ver] in B3. rewrite Hok0 in B3.
    destruct (dec1' true None c0) as [d0|] eqn:Ed0; [|discriminate].
    destruct (ver' false None cs) as [r|] eqn:Er; [|discriminate].
    injection B3 as B3. apply ver_decode_all in Er. rewrite Hn in Er.
    assert (Hfu0 : first_ulen hd = c_ulen c0) by (unfold first_ulen; now rewrite Eck).
    assert (Hd0 : len d0 = c_ulen c0 /\
                  exists dict, (if (c_clen c0 =? 0) && (c_ulen c0 =? 0) then Some None
                                else match decode_chunk zdecomp (is_zstd hd) None c0 (stored b c0) with
                                     | Some d => Some (if c_ulen c0 =? 0 then None else Some d)
                                     | None => None end) = Some dict).
    { unfold dec1 in Ed0. cbn [andb] in Ed0. fold (skip0 c0). destruct (skip0 c0) eqn:Hsk.
      - injection Ed0 as <-. unfold skip0 in Hsk. apply andb_true_iff in Hsk. destruct Hsk as [_ Hu0].
        apply N.eqb_eq in Hu0. split; [now rewrite Hu0|eauto].
      - rewrite Ed0. split; [|eauto]. unfold decode_chunk in Ed0. rewrite Hn in Ed0.
        destruct (N.eqb_spec (c_ulen c0) (c_clen c0)) as [Hcu|]; [|discriminate]. injection Ed0 as <-.
        unfold chunk_ok in Hok0. apply andb_true_iff in Hok0. destruct Hok0 as [Hb0 _]. apply N.leb_le in Hb0.
        unfold stored. rewrite len_sub by exact Hb0. now rewrite Hcu. }
    destruct Hd0 as [Hl0' (dict & ->)]. rewrite Hn, (decode_all_nodict dict None), Er. f_equal.
    assert (Heq : dpart st ++ out = d0 ++ r) by (rewrite B4, B3, Eck; reflexivity).
    assert (Hd : takeN (c_ulen c0) (dpart st ++ out) = takeN (c_ulen c0) (d0 ++ r)) by (now rewrite Heq).
    rewrite !takeN_app_exact in Hd by congruence. rewrite Hd in Heq. now apply app_inv_head in Heq.
Qed.

(** ** T2.1 / T2.3, compression type 0 *)
Theorem read_close_nocomp fuel sizes out st' st2 :
  Forall (fun n => 0 < n) sizes ->
  read_all H zdecomp hd fuel (open_state hd f) sizes [] = (out, Some true, st') ->
  zck_close H hd st' = (true, st2) ->
  spec_verify H hd f = true /\ spec_decode zdecomp hd f = Some out.
Proof.
  intros Hpos Er Hc. destruct (read_all_inv_n fuel sizes _ _ _ _ Hpos open_CIn Er) as [HC Hf].
  exact (final_spec_n out st' st2 HC Hf Hc).
Qed.

Theorem unzck_nocomp fuel calls vdc out :
  (forall v st', vdc (open_state hd f) = (v, st') -> (1 <= v)%Z -> st' = open_state hd f) ->
  unzck_model H zdecomp hd f fuel calls vdc = (0, Some out) ->
  spec_verify H hd f = true /\ spec_decode zdecomp hd f = Some out.
Proof.
  intros Hv E. unfold unzck_model in E. destruct (vdc (open_state hd f)) as [v st1] eqn:Ev.
  destruct (Z.ltb_spec v 1); [discriminate|]. rewrite (Hv v st1 eq_refl ltac:(lia)) in E.
  destruct (read_all H zdecomp hd fuel (open_state hd f) (repeat BUF_SIZE calls) []) as [[o [[|]|]] st2] eqn:Er; try discriminate.
  destruct (zck_close H hd st2) as [[|] st3] eqn:Ec; [|discriminate]. injection E as <-.
  apply (read_close_nocomp fuel (repeat BUF_SIZE calls) o st2 st3); [|exact Er|exact Ec].
  apply Forall_forall. intros x Hx. apply repeat_spec in Hx. subst x. reflexivity.
Qed.
End Nocomp.
