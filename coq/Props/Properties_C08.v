(** C08 — local chunk reuse never accepts bytes that do not match the target index.
    Only statements; every proof is [exact lemma].  Model: Dl/Copy.v ([copy_chunks],
    [write_and_verify], [zero_chunk], [lookup] = the uthash table of index_read.c,
    [find_matching]); proofs: Dl/CopyProofs.v.  [H] (hash type -> message -> digest) is
    universally quantified and nothing is assumed of it.  [known t]: [hash_setup] knows
    the checksum type (true for every opened file, [C08_known_of_parsed]); [starts_ok]:
    chunk offsets are the running sum of the stored sizes (C13). *)
From ZV Require Import Base.Bytes Gen.GenConsts Format.Header Format.ParseImpl Format.ParseProofs
                       Format.ParseExamples Read.Scan Dl.Copy Dl.CopyProofs.
Local Open Scope N_scope.

(** T8.1 + T8.3 + T8.4, one call, from ANY source (header and bytes unrelated, corrupted,
    truncated, crafted index), any target file and any flags.  With
    [chunk_post sh th tc v v' tf'] for the chunk at position i (v, v' its flag before/after):
      - v = 1 -> v' = 1                          (valid chunks are skipped)
      - no source chunk matches -> v' = v
      - v' is v, 1 or -1
      - v' = 1, v <> 1 -> the extent lies inside the target file and its bytes hash, with the
        TARGET's chunk checksum type, to the TARGET's index digest            (T8.1)
      - v' = -1 newly -> the extent is zero-filled                             (T8.4)
    and: the source file is returned as it was; the target never shrinks; the header region
    and every byte outside the extents of the fillable chunks (not valid before the call and
    matched by a source chunk) are unchanged                                  (T8.3) *)
Theorem C08_copy_sound : forall (H : N -> bytes -> bytes) sh sf th tf fl fl' tf' sf',
  known (h_chash sh) -> known (h_chash th) -> starts_ok 0 (h_chunks th) ->
  copy_chunks H sh sf th tf fl = Some (fl', tf', sf') ->
  sf' = sf /\ length fl' = length (h_chunks th) /\ len tf <= len tf' /\
  (forall x, x < data_offset th -> fget tf' x = fget tf x) /\
  (forall x, (forall i tc, nth_error (h_chunks th) i = Some tc -> fillable sh th tc (nth i fl 0%Z) ->
                           ~ in_ext th tc x) -> fget tf' x = fget tf x) /\
  (forall i tc, nth_error (h_chunks th) i = Some tc ->
                chunk_post H sh th tc (nth i fl 0%Z) (nth i fl' 0%Z) tf').
Proof. exact copy_chunks_sound. Qed.
Print Assumptions C08_copy_sound.

(** the call always terminates with a result (no fuel exhaustion in the model) *)
Theorem C08_copy_total : forall (H : N -> bytes -> bytes) sh sf th tf fl,
  copy_chunks H sh sf th tf fl <> None.
Proof. exact copy_chunks_total. Qed.
Print Assumptions C08_copy_total.

(** T8.2 the source chunk used for a target chunk: it is in the source index, both indexes
    have the same digest size (hence, by [C08_digest_size_determines_type], the same
    checksum type), the digests are equal over that size, and stored size and uncompressed
    size are equal. *)
Theorem C08_match_sound : forall sh th tc sc,
  match_for sh th tc = Some sc ->
  In sc (h_chunks sh) /\ ds_of (h_chash sh) = ds_of (h_chash th) /\
  memcmp_eq (ds_of (h_chash th)) (c_digest sc) (c_digest tc) = true /\
  c_clen sc = c_clen tc /\ c_ulen sc = c_ulen tc.
Proof. exact match_for_sound. Qed.
Print Assumptions C08_match_sound.

(** the re-hash uses the SOURCE's checksum type; this is sound because the four types have
    four different digest sizes (constants regenerated from hash.c / zck.h.in on every run) *)
Theorem C08_digest_size_determines_type : forall a b,
  known a -> known b -> ds_of a = ds_of b -> a = b.
Proof. exact ds_of_inj. Qed.
Print Assumptions C08_digest_size_determines_type.

(** T8.3 a chunk that is valid before a call keeps its flag and every byte of its extent *)
Theorem C08_valid_chunks_untouched : forall (H : N -> bytes -> bytes) sh sf th tf fl fl' tf' sf',
  known (h_chash sh) -> known (h_chash th) -> starts_ok 0 (h_chunks th) ->
  copy_chunks H sh sf th tf fl = Some (fl', tf', sf') ->
  forall i tc, nth_error (h_chunks th) i = Some tc -> nth i fl 0%Z = 1%Z ->
  nth i fl' 0%Z = 1%Z /\ forall x, in_ext th tc x -> fget tf' x = fget tf x.
Proof. exact copy_keeps_valid. Qed.
Print Assumptions C08_valid_chunks_untouched.

(** T8.1 for copies from any number of sources in any order: a chunk flagged valid at the end
    was flagged valid before the first copy (fl0), or its extent in the final target file
    hashes to the target's index digest. *)
Theorem C08_many_sources : forall (H : N -> bytes -> bytes) th,
  known (h_chash th) -> starts_ok 0 (h_chunks th) ->
  forall srcs, Forall (fun s => known (h_chash (fst s))) srcs ->
  forall tf fl fl' tf' (fl0 : list Z),
  (forall i tc, nth_error (h_chunks th) i = Some tc -> nth i fl 0%Z = 1%Z ->
                nth i fl0 0%Z = 1%Z \/ good_extent H th tc tf) ->
  copy_many H th srcs tf fl = Some (fl', tf') ->
  forall i tc, nth_error (h_chunks th) i = Some tc -> nth i fl' 0%Z = 1%Z ->
               nth i fl0 0%Z = 1%Z \/ good_extent H th tc tf'.
Proof. exact copy_many_sound. Qed.
Print Assumptions C08_many_sources.

(** T8.5 zck_find_matching_chunks pairs a target chunk only with a source chunk of equal
    uncompressed length and equal digest: the stored-bytes digest (first such source chunk)
    when both files have the same compression type, else the uncompressed digest when both
    files carry one; nothing else is ever paired. *)
Theorem C08_pairing_sound : forall sh th tc n sc,
  pair_for sh th tc = Some (n, sc) ->
  nth_error (h_chunks sh) n = Some sc /\ c_ulen sc = c_ulen tc /\
  ds_of (h_chash sh) = ds_of (h_chash th) /\
  ((h_comp sh = h_comp th /\ memcmp_eq (ds_of (h_chash th)) (c_digest sc) (c_digest tc) = true /\
    (forall j y, (j < n)%nat -> nth_error (h_chunks sh) j = Some y ->
                 memcmp_eq (ds_of (h_chash th)) (c_digest y) (c_digest tc) = false)) \/
   (h_comp sh <> h_comp th /\ uflag sh = true /\ uflag th = true /\
    exists us ut, c_udigest sc = Some us /\ c_udigest tc = Some ut /\
                  memcmp_eq (ds_of (h_chash th)) us ut = true)).
Proof. exact pair_for_sound. Qed.
Print Assumptions C08_pairing_sound.

(** T8.5 the call itself: chunks whose flag is not 0 keep flag and pairing (so pairings from
    earlier sources survive later calls); the others get exactly the pairing above (flag 1)
    or are paired with themselves (flag stays 0). *)
Theorem C08_find_matching : forall k sh th tcs fl pr fl' pr',
  matching_loop k sh th tcs fl pr = (fl', pr') ->
  length fl' = length tcs /\ length pr' = length tcs /\
  forall i tc, nth_error tcs i = Some tc ->
    let v := nth i fl 0%Z in let p := nth i pr PUnset in
    let v' := nth i fl' 0%Z in let p' := nth i pr' PUnset in
    (v <> 0%Z -> v' = v /\ p' = p) /\
    (v = 0%Z -> (exists n sc, pair_for sh th tc = Some (n, sc) /\ v' = 1%Z /\ p' = PSrc k n) \/
                (pair_for sh th tc = None /\ v' = 0%Z /\ p' = PSelf)).
Proof. exact find_matching_spec. Qed.
Print Assumptions C08_find_matching.

Theorem C08_known_of_parsed : forall (H : N -> bytes -> bytes) p f h,
  parse_impl H p f = POk h -> known (h_chash h).
Proof. exact parse_impl_chash_known. Qed.
Print Assumptions C08_known_of_parsed.

(** * Non-vacuity (toy hash) *)
Definition exd (m : bytes) : bytes := toyH 3 m.
Definition z16 : bytes := repeat 0 16%nat.
Definition c_abc : bytes := [97; 98; 99].
Definition c_de : bytes := [100; 101].
Definition c_xyz : bytes := [120; 121; 122].
Definition ex_sh : header :=
  mkHeader false 3 10 20 z16 z16 0 0 3 3
           [mkChunk z16 None 0 0 0; mkChunk (exd c_abc) None 3 3 0; mkChunk (exd c_de) None 2 2 3] 0 0.
Definition ex_th : header :=
  mkHeader false 3 12 20 z16 z16 0 0 3 4
           [mkChunk z16 None 0 0 0; mkChunk (exd c_de) None 2 2 0; mkChunk (exd c_xyz) None 3 3 2;
            mkChunk (exd c_abc) None 3 3 5] 0 0.
Definition s_hdr : bytes := repeat 7 30%nat.
Definition t_hdr : bytes := repeat 8 32%nat.

Example C08_ex_hyps : known (h_chash ex_sh) /\ known (h_chash ex_th) /\ starts_ok 0 (h_chunks ex_th).
Proof. split; [discriminate|]. split; [discriminate|]. cbn. repeat split; reflexivity. Qed.
(** intact source, header-only target: the two shared chunks are copied and valid, the third
    stays missing, the gap is zero-extended *)
Example C08_ex_intact :
  copy_chunks toyH ex_sh (s_hdr ++ c_abc ++ c_de) ex_th t_hdr [1; 0; 0; 0]%Z =
  Some ([1; 1; 0; 1]%Z, t_hdr ++ c_de ++ [0; 0; 0] ++ c_abc, s_hdr ++ c_abc ++ c_de).
Proof. vm_compute. reflexivity. Qed.
(** corrupted source chunk: failed and zero-filled, never valid *)
Example C08_ex_corrupt :
  copy_chunks toyH ex_sh (s_hdr ++ [97; 98; 100] ++ c_de) ex_th t_hdr [1; 0; 0; 0]%Z =
  Some ([1; 1; 0; -1]%Z, t_hdr ++ c_de ++ [0; 0; 0] ++ [0; 0; 0], s_hdr ++ [97; 98; 100] ++ c_de).
Proof. vm_compute. reflexivity. Qed.
(** source cut inside its last chunk (short non-empty read, rest of the buffer stale):
    what was written is what was hashed -> mismatch -> failed, zero-filled *)
Example C08_ex_truncated_inside :
  copy_chunks toyH ex_sh (s_hdr ++ c_abc ++ [100]) ex_th t_hdr [1; 0; 0; 0]%Z =
  Some ([1; -1; 0; 1]%Z, t_hdr ++ [0; 0] ++ [0; 0; 0] ++ c_abc, s_hdr ++ c_abc ++ [100]).
Proof. vm_compute. reflexivity. Qed.
(** source cut at a chunk boundary (empty read): that chunk stays missing *)
Example C08_ex_truncated_boundary :
  copy_chunks toyH ex_sh (s_hdr ++ c_abc) ex_th t_hdr [1; 0; 0; 0]%Z =
  Some ([1; 0; 0; 1]%Z, t_hdr ++ [0; 0; 0; 0; 0] ++ c_abc, s_hdr ++ c_abc).
Proof. vm_compute. reflexivity. Qed.
(** target with content and one chunk already valid: its bytes and the bytes behind the last
    extent are untouched *)
Example C08_ex_frame :
  copy_chunks toyH ex_sh (s_hdr ++ c_abc ++ c_de) ex_th (t_hdr ++ [1; 2; 3; 4; 5; 6; 7; 8; 9; 10]) [1; 0; 1; 0]%Z =
  Some ([1; 1; 1; 1]%Z, t_hdr ++ c_de ++ [3; 4; 5] ++ c_abc ++ [9; 10], s_hdr ++ c_abc ++ c_de).
Proof. vm_compute. reflexivity. Qed.
(** an empty dictionary entry that is not yet marked valid is marked failed by a copy (the
    source's empty entry matches, the hash of no bytes is not the all-zero digest) *)
Example C08_ex_empty_entry :
  (match copy_chunks toyH ex_sh (s_hdr ++ c_abc ++ c_de) ex_th t_hdr [0; 0; 0; 0]%Z with
   | Some (fl, _, _) => fl | None => [] end) = [-1; 1; 0; 1]%Z.
Proof. vm_compute. reflexivity. Qed.
Example C08_ex_matching :
  find_matching 0 ex_sh ex_th [1; 0; 0; 0]%Z [PUnset; PUnset; PUnset; PUnset] =
  ([1; 1; 0; 1]%Z, [PUnset; PSrc 0 2; PSelf; PSrc 0 1]).
Proof. vm_compute. reflexivity. Qed.
