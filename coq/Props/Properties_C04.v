(** C04 — Delta update reconstructs the new file exactly, fetching only what is missing.

    Model: Dl/Update.v (the procedure of src/zck_dl.c at chunk granularity; the byte-level
    models of the parser, the validity scan, the copy, the range computation and the
    download callbacks are the subjects of C13, C09, C08, C10 and C05).
    [Hc] / [Hf] are the chunk / overall checksum functions (arbitrary functions: nothing
    is assumed about them; where two different byte strings with the same chunk checksum
    would be needed for a different outcome, the statement says so: [collision]).

    Quantification: every old file A (any chunk table, any bytes, also damaged; or none),
    every new file B that is valid ([wf_new]: every chunk has its stored length and passes
    validate_chunk - for a zero-length chunk: its index digest is all zeros, which is what
    the library writes for its only zero-length entry, the empty dictionary -, the data
    digest is the overall checksum of the data section), every
    initial target ([wf_target]: any bytes in every extent, any header region, truncated
    anywhere, over-long), every server range limit (0 = no range support). *)
From ZV Require Import Base.Bytes Gen.GenConsts Dl.Update Dl.UpdateProofs.
Local Open Scope N_scope.

(** T4.1 the procedure ends within [loop_fuel] = chunks + back-off table length + 1
    iterations and never reads outside the back-off table ([OutOfFuel] / [TableOOB] do not
    occur): regularly ([Done]) - or, only if two different byte strings with the same chunk
    checksum exist, in [EmptyRange] (see Dl/Update.v: the validity scan invalidated all
    chunks because only the data digest failed, which leaves the zero-length dictionary
    entry "missing" with nothing to request; the code then sends an empty Range value).
    Unless such a collision exists it ends with exit code 0, the target's header region =
    B's header, every extent = B's stored bytes, nothing behind B's end, all chunks
    flagged valid and whole-data validation passing. *)
Theorem C04_update_reconstructs_B :
  forall (Hc Hf : bytes -> bytes) (A : option oldfile) (B : newfile) (srv_limit : N) (T : target),
  wf_new Hc Hf B (t_slots T) -> wf_target T ->
  let o := update Hc Hf A B srv_limit T in
  ((exists e, o_status o = Done e) \/ (o_status o = EmptyRange /\ collision Hc)) /\
  (collision Hc \/
   (o_status o = Done 0 /\
    t_hdr (o_target o) = b_hdr B /\ t_extra (o_target o) = [] /\
    map s_cur (t_slots (o_target o)) = map s_srv (t_slots T) /\
    map s_chunk (t_slots (o_target o)) = map s_chunk (t_slots T) /\
    (1 <= srv_limit -> Forall (fun s => s_flag s = Valid) (t_slots (o_target o))) /\
    fst (validate_data Hc Hf B (t_slots (o_target o))) = true)).
Proof. exact update_converges. Qed.
Print Assumptions C04_update_reconstructs_B.

(** T4.2 the chunks whose extents are transferred (206 answers), concatenated over all
    iterations, are exactly [needed]: in file order, each once; every request, including
    those the server refuses with 200 because of its range limit, asks only for such
    chunks. *)
Theorem C04_requests_exactly_the_missing_chunks :
  forall (Hc Hf : bytes -> bytes) (A : option oldfile) (B : newfile) (srv_limit : N) (T : target),
  wf_new Hc Hf B (t_slots T) -> wf_target T -> 1 <= srv_limit ->
  let o := update Hc Hf A B srv_limit T in
  let N := needed Hc A true 0 (t_slots (fetch_header B T)) in
  collision Hc \/
  (served_chunks (o_events o) = N /\ (forall i, In i (asked_chunks (o_events o)) -> In i N)).
Proof. exact update_requests. Qed.
Print Assumptions C04_requests_exactly_the_missing_chunks.

(** ... where chunk [i] is in [needed] iff its extent (after the header fetch) does not pass
    the validity scan and A has no usable chunk with the same digest and sizes
    ([usable_in]: first entry of A with that digest has equal sizes and its bytes hash to
    it); the list has no duplicates. *)
Theorem C04_needed_characterised :
  forall (Hc : bytes -> bytes) (A : option oldfile) (sl : list slot) (i : nat),
  In i (needed Hc A true 0 sl) <->
  exists k s, i = (0 + k)%nat /\ nth_error sl k = Some s /\
              scan_flag Hc (true && Nat.eqb k 0) s <> Valid /\ usable_in Hc A (s_chunk s) = false.
Proof. intros. apply needed_iff. Qed.
Print Assumptions C04_needed_characterised.

Theorem C04_needed_no_duplicates :
  forall (Hc : bytes -> bytes) (A : option oldfile) (sl : list slot), NoDup (needed Hc A true 0 sl).
Proof. intros. apply needed_nodup. Qed.
Print Assumptions C04_needed_no_duplicates.

(** T4.0 header fetch (dl_header / dl_bytes): one probe of zck_get_min_download_size()
    bytes, then the rest of the header exactly when it is longer than the probe; when
    zck_read_header runs the descriptor stands right behind the bytes the library holds
    (D33 fixed: true for every lead length). *)
Theorem C04_header_fetch :
  forall lead hlen : N,
  hf_requests (dl_header_fetch true lead hlen) =
    (if min_download <? lead + hlen then [(0, min_download - 1); (min_download, lead + hlen - 1)]
     else [(0, min_download - 1)]) /\
  hf_pos (dl_header_fetch true lead hlen) = hf_loaded (dl_header_fetch true lead hlen).
Proof. intros. split; [apply dl_header_requests | apply dl_header_pos_ok]. Qed.
Print Assumptions C04_header_fetch.

(** D33 as it was: seeking back to the lead length is right only for leads of at least the
    25 pre-read bytes or headers that fit into the probe. *)
Theorem C04_header_fetch_before_fix :
  forall lead hlen : N,
  hf_pos (dl_header_fetch false lead hlen) = hf_loaded (dl_header_fetch false lead hlen) <->
  (lead_preread <= lead \/ lead + hlen <= min_download).
Proof. exact dl_header_pos_old. Qed.
Print Assumptions C04_header_fetch_before_fix.

(* ---------------------------------------------------------------------------------- *)
(** Non-vacuity: a toy checksum (sum of the bytes mod 251, one byte) and concrete runs. *)
Definition toyH (d : bytes) : bytes := [fold_left N.add d 0 mod 251].
Definition ck (d : bytes) : chunk := mkChunk (toyH d) (len d) (len d).
Definition dict0 : chunk := mkChunk [0] 0 0.
Definition mkslots (l : list (chunk * bytes * bytes)) : list slot :=
  map (fun x => mkSlot (fst (fst x)) (snd (fst x)) (snd x) Missing) l.
Definition exB : newfile := mkB (repeat 7 100) 23 false (toyH [1;2;3;4;5;6;7;8;9]).
(* B = dict(empty) | 1 2 3 | 4 5 | 6 7 8 9;  target: chunk 1 present, chunk 2 garbage, chunk 3 cut short *)
Definition exT : target :=
  mkT [9;9] (mkslots [(dict0, [], []); (ck [1;2;3], [1;2;3], [1;2;3]); (ck [4;5], [4;5], [0;0]);
                      (ck [6;7;8;9], [6;7;8;9], [6;7])]) [5;5;5].
Definition exA : oldfile := [(dict0, []); (ck [4;5], [4;5])].

Example C04_ex_wf : wf_new toyH toyH exB (t_slots exT) /\ wf_target exT.
Proof.
  split.
  - split.
    + repeat constructor.
    + intros _. vm_compute. reflexivity.
  - unfold wf_target, fits. repeat constructor; vm_compute; discriminate.
Qed.

(** no A, unlimited server: one request for chunks 2 and 3 (one merged range) *)
Example C04_ex_no_source :
  let o := update toyH toyH None exB 1000 exT in
  o_status o = Done 0 /\ o_events o = [Served [2; 3]%nat 1] /\
  map s_cur (t_slots (o_target o)) = [[]; [1;2;3]; [4;5]; [6;7;8;9]] /\ t_extra (o_target o) = [] /\
  t_hdr (o_target o) = b_hdr exB.
Proof. vm_compute. repeat split; reflexivity. Qed.

(** with A holding chunk 2: only chunk 3 is requested *)
Example C04_ex_with_source :
  let o := update toyH toyH (Some exA) exB 1000 exT in
  o_status o = Done 0 /\ o_events o = [Served [3]%nat 1] /\
  map s_cur (t_slots (o_target o)) = [[]; [1;2;3]; [4;5]; [6;7;8;9]].
Proof. vm_compute. repeat split; reflexivity. Qed.

(** back-off: five separate missing chunks, server allows 2 ranges per request: the request
    with 5 ranges is refused, zckdl falls back to 2 ranges per request *)
Definition exT5 : target :=
  mkT [] (mkslots [(dict0, [], []);
                   (ck [1], [1], [0]); (ck [2], [2], [2]); (ck [3], [3], [0]); (ck [4], [4], [4]);
                   (ck [5], [5], [0]); (ck [6], [6], [6]); (ck [7], [7], [0]); (ck [8], [8], [8]);
                   (ck [9], [9], [0])]) [].
Definition exB5 : newfile := mkB (repeat 7 100) 23 false (toyH [1;2;3;4;5;6;7;8;9]).
Example C04_ex_backoff :
  let o := update toyH toyH None exB5 2 exT5 in
  o_status o = Done 0 /\
  o_events o = [Refused [1;3;5;7;9]%nat 5; Served [1;3]%nat 2; Served [5;7]%nat 2; Served [9]%nat 1].
Proof. vm_compute. repeat split; reflexivity. Qed.

(** a complete target is recognised without any request and cut to B's length *)
Example C04_ex_complete :
  let T := mkT [] (mkslots [(dict0, [], []); (ck [1;2;3], [1;2;3], [1;2;3])]) [9] in
  let o := update toyH toyH None (mkB (repeat 7 100) 23 false (toyH [1;2;3])) 1 T in
  o_status o = Done 0 /\ o_events o = [] /\ t_extra (o_target o) = [].
Proof. vm_compute. repeat split; reflexivity. Qed.

(** the collision clause is not idle: with the toy checksum the extent [3;2;1] passes for the
    chunk [1;2;3], the procedure accepts it (and the data digest, same toy function, too) *)
Example C04_ex_collision_accepted :
  let T := mkT [] (mkslots [(dict0, [], []); (ck [1;2;3], [1;2;3], [3;2;1])]) [] in
  let o := update toyH toyH None (mkB (repeat 7 100) 23 false (toyH [1;2;3])) 1 T in
  o_status o = Done 0 /\ map s_cur (t_slots (o_target o)) = [[]; [3;2;1]].
Proof. vm_compute. repeat split; reflexivity. Qed.

(** outside [wf_new]: a zero-length chunk whose index digest is not all zeros (no writer
    produces it) can never become valid; the model shows what the loop does then: after
    the real chunks have been fetched it computes an empty range ([EmptyRange]) *)
Example C04_ex_invalid_B_empty_range :
  let T := mkT [] (mkslots [(dict0, [], []); (ck [1;2;3], [1;2;3], []); (mkChunk [9] 0 0, [], [])]) [] in
  let o := update toyH toyH None (mkB (repeat 7 100) 23 false (toyH [1;2;3])) 1000 T in
  o_status o = EmptyRange /\ o_events o = [Served [1]%nat 1] /\
  map s_flag (t_slots (o_target o)) = [Valid; Valid; Missing].
Proof. vm_compute. repeat split; reflexivity. Qed.

(** D33: lead 23 (SHA-512/128), header 99 bytes: the old code re-read from offset 23 *)
Example C04_ex_d33_refuted :
  hf_pos (dl_header_fetch false 23 76) = 23 /\ hf_loaded (dl_header_fetch false 23 76) = 25 /\
  hf_pos (dl_header_fetch true 23 76) = 25.
Proof. vm_compute. repeat split; reflexivity. Qed.

(* ==================================================================================== *)
(** * LINK: the byte-level component models have the chunk-level effect of Dl/Update.v

    [L.abs h fb f fl] is the abstraction of a byte-level state - header record [h] of B, the
    file [fb] the server holds, the target file [f], the valid flags [fl] - into the
    chunk-level [target]: one slot per index entry with the entry, the bytes of [fb] and
    of [f] at its extent (fewer when the file ends inside it) and its flag; header region;
    excess.  The typed hash [H] of the byte-level models and the two functions of the
    chunk-level model are related by  Hc m = first ds bytes of H chunk-type m  (the bytes
    memcmp looks at), likewise Hf;  [L.sized h]: every digest of [h] has the size of its
    type.  Proved links: (a) validity scan and final data validation, (b) range
    computation, (d) placement of a served request (single-range responses completely;
    multipart responses from the placement facts of transfer_lit plus the two confinement
    facts that are proved for dl_write_range only).  Not linked by a theorem (tied by the
    real-tool runs only): (c) the copy from the old file, (e) the header fetch / parse. *)
From ZV Require Format.Header Format.ParseProofs Read.Scan Read.ScanProofs Dl.Range Dl.DlWrite Dl.DlInv
                Dl.DlPlace Dl.Multipart Dl.MpGrammar Dl.MpPlace Dl.LiteralMatcher Dl.MpFinal
                Dl.UpdateLink Dl.UpdateLinkRange Dl.UpdateLinkPlace Dl.UpdateLinkCompose.
From Coq Require Import Sorted.
Module L := Dl.UpdateLink.
Module LR := Dl.UpdateLinkRange.
Module LP := Dl.UpdateLinkPlace.
Module LC := Dl.UpdateLinkCompose.
Module Sc := Read.Scan.
Module Rg := Dl.Range.
Module Wr := Dl.DlWrite.

(** (a) validity scan.  For every header whose offsets are running sums, every target file
    that holds at least the header, every flag list and context state: the byte-level model
    of validate_checksums (hash.c; proved exact against its specification in C09_scan_exact)
    terminates, leaves the file unchanged, and verdict and flags are exactly what
    [find_valid] computes on the abstraction - including the invalidation of all chunks
    when only the data digest fails and the rule for the empty first entry. *)
Theorem C04_link_scan :
  forall (H : N -> bytes -> bytes) (h : Format.Header.header) (fb f : bytes) (fl : list Z) (st : Sc.rstate),
  Read.ScanProofs.scan_wf h f -> Format.Header.h_detached h = false -> L.sized h ->
  exists r, Sc.validate_checksums H h f fl st = Some r /\
    Sc.s_file r = f /\
    find_valid (L.Hc_of H h) (L.Hf_of H h) (L.abs_new h fb) (t_slots (L.abs h fb f fl)) =
      ((Sc.s_ret r =? 1)%Z, t_slots (L.abs h fb (Sc.s_file r) (Sc.s_flags r))).
Proof. exact L.link_scan. Qed.
Print Assumptions C04_link_scan.

(** (a') final whole-data validation (zck_validate_data_checksum without the
    uncompressed-source flag; with the flag it is the scan, C04_link_scan) *)
Theorem C04_link_validate_data :
  forall (H : N -> bytes -> bytes) (h : Format.Header.header) (fb f : bytes) (fl : list Z) (st : Sc.rstate),
  Read.ScanProofs.scan_wf h f -> L.sized h -> Sc.uflag h = false ->
  exists r, Sc.validate_data H h f fl st = Some r /\ Sc.s_file r = f /\ Sc.s_flags r = fl /\
    validate_data (L.Hc_of H h) (L.Hf_of H h) (L.abs_new h fb) (t_slots (L.abs h fb f fl)) =
      ((Sc.s_ret r =? 1)%Z, t_slots (L.abs h fb f fl)).
Proof. exact L.link_validate_data. Qed.
Print Assumptions C04_link_validate_data.

(** (b) range computation.  For every slot list (= every chunk table with any flags), header
    size and limit: the byte-level model of zck_get_missing_range (range.c with its
    insertion walk, merge pass and size_t arithmetic; proved to compute its specification
    in C10_refines_spec / C10_cover_prefix), run on the table the slots denote, returns
    the merged extents of a list [cov] of (number, chunk) pairs, the range index of [cov]
    and the item count, where the numbers of [cov] are exactly the indices
    [missing_range] returns, the count is the count it returns, and every member of [cov] is
    a missing chunk with stored bytes (zero-length chunks are passed over by both). *)
Theorem C04_link_missing_range :
  forall (hdr : N) (sl : list slot) (maxr : N),
  0 < hdr -> hdr + Rg.total_len (LR.rtable 0 sl) < two64 ->
  exists cov,
    Rg.missing_range hdr (LR.rtable 0 sl) (Z.of_N maxr) =
      (Rg.coalesce (Rg.extents hdr cov), Rg.entries cov, snd (missing_range maxr 0 0 None 0 sl)) /\
    map fst cov = map N.of_nat (fst (missing_range maxr 0 0 None 0 sl)) /\
    snd (missing_range maxr 0 0 None 0 sl) = N.of_nat (length (Rg.coalesce (Rg.extents hdr cov))) /\
    Forall (fun nc => exists pre s post, sl = pre ++ s :: post /\ fst nc = N.of_nat (length pre) /\
                      Rg.c_len (snd nc) = c_clen (s_chunk s) /\ Rg.c_len (snd nc) <> 0 /\
                      is_missing s = true /\
                      Rg.c_start (snd nc) = fold_right (fun s a => c_clen (s_chunk s) + a) 0 pre) cov.
Proof. exact LR.link_missing_range. Qed.
Print Assumptions C04_link_missing_range.

(** ... read on the abstraction of a byte-level state: the table is the header's index with
    the context's flags *)
Theorem C04_link_missing_range_abs :
  forall (h : Format.Header.header) (fb f : bytes) (fl : list Z) (maxr : N),
  Read.ScanProofs.scan_wf h f ->
  Sc.data_offset h + Rg.total_len (LC.htable (Format.Header.h_chunks h) fl) < two64 ->
  let sl := t_slots (L.abs h fb f fl) in
  exists cov,
    Rg.missing_range (Sc.data_offset h) (LC.htable (Format.Header.h_chunks h) fl) (Z.of_N maxr) =
      (Rg.coalesce (Rg.extents (Sc.data_offset h) cov), Rg.entries cov, snd (missing_range maxr 0 0 None 0 sl)) /\
    map fst cov = map N.of_nat (fst (missing_range maxr 0 0 None 0 sl)) /\
    snd (missing_range maxr 0 0 None 0 sl) = N.of_nat (length (Rg.coalesce (Rg.extents (Sc.data_offset h) cov))).
Proof. exact LC.link_missing_range_abs. Qed.
Print Assumptions C04_link_missing_range_abs.

(** (d) placement.  Whenever the byte-level state after a transfer satisfies the
    postcondition [LP.placed] (requested chunks valid with their bytes in place, other
    flags unchanged: C05_placement / transfer_lit; table shape kept, no byte outside the
    requested extents changed: C05_confinement), its abstraction is [place] applied to the
    abstraction of the state before.  Extents are read with fread here (zero behind the end
    of the file): the C05 theorems do not speak about the file length. *)
Theorem C04_link_placed_is_place :
  forall (H : bytes -> bytes) (ds : nat) (ul : nat -> N) (doff : N) (fb : bytes)
         (ridx : list Wr.rentry) (tab0 : list Wr.chunk) (datas : list bytes) (file : bytes)
         (tab' : list Wr.chunk) (file' : bytes),
  Dl.DlPlace.req_ok doff ridx tab0 -> Dl.DlPlace.datas_ok H ridx tab0 datas ->
  Forall (fun c => length (Wr.c_digest c) = ds) tab0 ->
  StronglySorted lt (map Wr.r_tgt ridx) ->
  LP.from_server doff fb ridx tab0 datas ->
  LP.placed doff ridx tab0 datas file tab' file' ->
  place (LP.Hc H ds) (map Wr.r_tgt ridx) 0 (LP.absr ul doff fb 0 tab0 file) = (LP.absr ul doff fb 0 tab' file', true).
Proof. exact LP.placed_is_place. Qed.
Print Assumptions C04_link_placed_is_place.

(** (d) single-range responses: dl_write_range (model [dlw], C05) on the payload of a
    well-formed response consumes it completely and the resulting state abstracts to
    [place] of the request; by C05_any_partition every fragmentation into non-empty callbacks
    ends in the same state. *)
Theorem C04_link_place_single :
  forall (H : bytes -> bytes) (ds : nat) (ul : nat -> N) (doff : N) (fb : bytes)
         (ridx : list Wr.rentry) (tab0 : list Wr.chunk) (datas : list bytes) (fpos : N) (file : bytes),
  Dl.DlPlace.req_ok doff ridx tab0 -> Dl.DlPlace.datas_ok H ridx tab0 datas ->
  Forall (fun c => length (Wr.c_digest c) = ds) tab0 ->
  StronglySorted lt (map Wr.r_tgt ridx) ->
  LP.from_server doff fb ridx tab0 datas ->
  let s' := fst (Wr.dlw H doff ridx (Dl.DlPlace.init fpos file tab0) (concat datas)) in
  snd (Wr.dlw H doff ridx (Dl.DlPlace.init fpos file tab0) (concat datas)) = Wr.DOk (len (concat datas)) /\
  place (LP.Hc H ds) (map Wr.r_tgt ridx) 0 (LP.absr ul doff fb 0 tab0 file) =
    (LP.absr ul doff fb 0 (Wr.d_tab s') (Wr.d_file s'), true).
Proof. exact LP.link_place_single. Qed.
Print Assumptions C04_link_place_single.

(** (d) multipart responses: every well-formed multipart body, delivered in any non-empty
    fragments to the callbacks (literal matcher for the three patterns, C05), is processed
    successfully, and - given that the table keeps its shape and no byte outside the
    requested extents changes (C05_confinement proves this for dl_write_range; it is not
    yet lifted to the multipart extractor) - the resulting state abstracts to [place]. *)
Theorem C04_link_place_multipart_partial :
  forall H ds ul doff fb ridx tab0 datas B parts fpos file pre quoted frags,
  Dl.DlPlace.req_ok doff ridx tab0 -> Dl.DlPlace.datas_ok H ridx tab0 datas ->
  Dl.MpPlace.wf_body B parts datas ->
  Forall (fun c => c <> 0) pre ->
  (forall k, (k < length pre)%nat ->
     Dl.LiteralMatcher.prefix_ic Dl.LiteralMatcher.kw_boundary (skipn k (pre ++ Dl.LiteralMatcher.kw_boundary)) = false) ->
  B <> [] -> (quoted = false -> hd 0 B <> 32 /\ hd 0 B <> 34) ->
  len (Dl.MpGrammar.ct_line pre B quoted) < two64 ->
  Forall (fun fr => fr <> []) frags -> concat frags = Dl.MpGrammar.mp_body B parts ->
  Forall (fun c => length (Wr.c_digest c) = ds) tab0 ->
  StronglySorted lt (map Wr.r_tgt ridx) ->
  LP.from_server doff fb ridx tab0 datas ->
  exists x' rets,
    Dl.Multipart.feed_frags H doff ridx Dl.LiteralMatcher.lit_comp Dl.LiteralMatcher.lit_exec
      (Dl.Multipart.header_cb Dl.LiteralMatcher.lit_comp Dl.LiteralMatcher.lit_exec
         (Dl.MpFinal.x_start fpos file tab0) (Dl.MpGrammar.ct_line pre B quoted)) frags = (x', rets, true) /\
    (Dl.DlInv.same_shape tab0 (Wr.d_tab (Dl.Multipart.x_dl x')) ->
     (forall x, (forall t c, nth_error tab0 t = Some c -> In t (map Wr.r_tgt ridx) -> ~ LP.in_ext doff c x) ->
                Wr.fget (Wr.d_file (Dl.Multipart.x_dl x')) x = Wr.fget file x) ->
     place (LP.Hc H ds) (map Wr.r_tgt ridx) 0 (LP.absr ul doff fb 0 tab0 file) =
       (LP.absr ul doff fb 0 (Wr.d_tab (Dl.Multipart.x_dl x')) (Wr.d_file (Dl.Multipart.x_dl x')), true)).
Proof. exact LC.link_place_multipart. Qed.
Print Assumptions C04_link_place_multipart_partial.

(* ==================================================================================== *)
(** * LINK, continued: (c) the copy from the old file, (e) the header fetch *)
From ZV Require Format.ParseImpl Format.ParseExamples Dl.Copy Dl.CopyProofs Dl.UpdateLinkCopy Dl.UpdateLinkHeader.
Module LCp := Dl.UpdateLinkCopy.
Module LH := Dl.UpdateLinkHeader.
Module Cp := Dl.Copy.
Module CpP := Dl.CopyProofs.
Module PI := Format.ParseImpl.
Module Hd := Format.Header.

(** (c) zck_copy_chunks.  For every source (header [sh], file [sf]) and target (header [th] of
    B, file [tf], flags [fl]) under the hypotheses of the C08 theorems ([known] checksum
    types, running-sum offsets of the target index) plus: digests sized like their type
    ([L.sized], true for parsed headers), every source extent inside the source file
    ([src_complete]: a truncated source is the documented difference between code and
    Update.v), and no write behind the end of the target file ([no_gap]: a chunk that is not
    valid and has a match starts at or before the end of the file):
    the byte-level copy (Dl/Copy.v: uthash lookup = first source entry with the digest
    bytes, both sizes compared, copy + re-hash with the stale-buffer loop, zero-fill on
    mismatch) terminates, and the abstraction of (flags after, file after) is
    [copy_chunks] applied to the abstraction of the state before, the old file being
    abstracted to its index entries with the bytes of their extents; the header region is
    unchanged and the file does not shrink. *)
Theorem C04_link_copy :
  forall (H : N -> bytes -> bytes) (sh : Hd.header) (sf : bytes) (th : Hd.header) (fb tf : bytes) (fl : list Z),
  CpP.known (Hd.h_chash sh) -> CpP.known (Hd.h_chash th) -> L.sized sh -> L.sized th ->
  Format.ParseProofs.starts_ok 0 (Hd.h_chunks th) -> LCp.src_complete sh sf ->
  LCp.no_gap sh th (Hd.h_chunks th) fl tf ->
  exists fl' tf',
    Cp.copy_chunks H sh sf th tf fl = Some (fl', tf', sf) /\
    t_slots (L.abs th fb tf' fl') =
      copy_chunks (L.Hc_of H th) (Some (LCp.abs_old sh sf)) (t_slots (L.abs th fb tf fl)) /\
    t_hdr (L.abs th fb tf' fl') = t_hdr (L.abs th fb tf fl) /\
    len tf <= len tf'.
Proof. exact LCp.link_copy. Qed.
Print Assumptions C04_link_copy.

(** failed -> missing (zck_reset_failed_chunks: every flag -1 becomes 0) *)
Theorem C04_link_reset_failed :
  forall (doff : N) (fb f : bytes) (cs : list Hd.chunk) (fl : list Z),
  length fl = length cs -> Forall (fun v => v = 0 \/ v = 1 \/ v = -1)%Z fl ->
  L.abs_slots doff cs fb f (LCp.reset_flags fl) = reset_failed (L.abs_slots doff cs fb f fl).
Proof. exact LCp.link_reset_failed. Qed.
Print Assumptions C04_link_reset_failed.

(** (e) header fetch.  The byte-level header reader ([parse_impl], C13) looks at a file only
    through its first lead + header-size bytes: *)
Theorem C04_link_parse_prefix :
  forall (H : N -> bytes -> bytes) (p : PI.pins) (f g : bytes) (h : Hd.header),
  PI.parse_impl H p f = PI.POk h ->
  firstn (N.to_nat (Sc.data_offset h)) g = firstn (N.to_nat (Sc.data_offset h)) f ->
  PI.parse_impl H p g = PI.POk h.
Proof. exact LH.parse_impl_prefix. Qed.
Print Assumptions C04_link_parse_prefix.

(** ... and for every file B the reader accepts with header record [h]: the fetch of the
    chunk-level procedure is [dl_header_fetch] for [h]'s lead and header size (C04_header_fetch:
    probe 0-88, then 89 .. header end); the requested ranges of B, concatenated, are the
    prefix of B of length max(probe, lead + header size); the reader accepts these bytes
    followed by anything - and every target file that starts with B's first lead + header
    bytes - with the same record [h]; the header bytes of the abstraction of B are exactly
    lead + header, and the chunk table of the abstraction of such a target is [h]'s index. *)
Theorem C04_link_header_fetch :
  forall (H : N -> bytes -> bytes) (p : PI.pins) (fb : bytes) (h : Hd.header),
  PI.parse_impl H p fb = PI.POk h ->
  header_fetch_of (L.abs_new h fb) = dl_header_fetch true (Hd.h_lead h) (Hd.h_hlen h) /\
  LH.fetched fb h = firstn (N.to_nat (N.max min_download (Sc.data_offset h))) fb /\
  len (b_hdr (L.abs_new h fb)) = Sc.data_offset h /\
  (forall rest, PI.parse_impl H p (LH.fetched fb h ++ rest) = PI.POk h) /\
  (forall tf, firstn (N.to_nat (Sc.data_offset h)) tf = firstn (N.to_nat (Sc.data_offset h)) fb ->
              PI.parse_impl H p tf = PI.POk h /\
              forall fl, map s_chunk (t_slots (L.abs h fb tf fl)) = map L.uchunk (Hd.h_chunks h)).
Proof. exact LH.link_header_fetch. Qed.
Print Assumptions C04_link_header_fetch.

(** Non-vacuity of (c): toy hash of the header examples (16-byte digests for type 3), a source
    with chunks abc | de, a target index de | xyz | abc whose file has content everywhere;
    flags: dictionary and xyz valid.  The hypotheses hold and both sides give: de and abc
    copied and valid. *)
Definition lx_d (m : bytes) : bytes := Format.ParseExamples.toyH 3 m.
Definition lx_z16 : bytes := repeat 0 16%nat.
Definition lx_sh : Hd.header :=
  Hd.mkHeader false 3 10 20 lx_z16 lx_z16 0 0 3 3
    [Hd.mkChunk lx_z16 None 0 0 0; Hd.mkChunk (lx_d [97;98;99]) None 3 3 0; Hd.mkChunk (lx_d [100;101]) None 2 2 3] 0 0.
Definition lx_th : Hd.header :=
  Hd.mkHeader false 3 12 20 lx_z16 lx_z16 0 0 3 4
    [Hd.mkChunk lx_z16 None 0 0 0; Hd.mkChunk (lx_d [100;101]) None 2 2 0; Hd.mkChunk (lx_d [120;121;122]) None 3 3 2;
     Hd.mkChunk (lx_d [97;98;99]) None 3 3 5] 0 0.
Definition lx_sf : bytes := repeat 7 30%nat ++ [97;98;99] ++ [100;101].
Definition lx_tf : bytes := repeat 8 32%nat ++ [1;2;3;4;5;6;7;8;9;10].
Definition lx_fl : list Z := [1; 0; 1; 0]%Z.

Example C04_ex_link_copy_hyps :
  CpP.known (Hd.h_chash lx_sh) /\ CpP.known (Hd.h_chash lx_th) /\ L.sized lx_sh /\ L.sized lx_th /\
  Format.ParseProofs.starts_ok 0 (Hd.h_chunks lx_th) /\ LCp.src_complete lx_sh lx_sf /\
  LCp.no_gap lx_sh lx_th (Hd.h_chunks lx_th) lx_fl lx_tf.
Proof.
  split; [discriminate|]. split; [discriminate|].
  split; [split; [repeat constructor|reflexivity]|].
  split; [split; [repeat constructor|reflexivity]|].
  split; [cbn; repeat split; reflexivity|].
  split; [repeat constructor; vm_compute; discriminate|].
  intros i tc Hn _. unfold Cp.ext_lo.
  destruct i as [|[|[|[|i]]]]; cbn in Hn; try (destruct i; discriminate Hn);
    inversion Hn; subst; apply N.leb_le; vm_compute; reflexivity.
Qed.

Example C04_ex_link_copy :
  Cp.copy_chunks Format.ParseExamples.toyH lx_sh lx_sf lx_th lx_tf lx_fl =
    Some ([1; 1; 1; 1]%Z, repeat 8 32%nat ++ [100;101] ++ [3;4;5] ++ [97;98;99] ++ [9;10], lx_sf) /\
  map s_flag (copy_chunks (L.Hc_of Format.ParseExamples.toyH lx_th) (Some (LCp.abs_old lx_sh lx_sf))
                (t_slots (L.abs lx_th [] lx_tf lx_fl))) = [Valid; Valid; Valid; Valid] /\
  map s_cur (copy_chunks (L.Hc_of Format.ParseExamples.toyH lx_th) (Some (LCp.abs_old lx_sh lx_sf))
               (t_slots (L.abs lx_th [] lx_tf lx_fl))) = [[]; [100;101]; [3;4;5]; [97;98;99]].
Proof. vm_compute. repeat split; reflexivity. Qed.

(** Non-vacuity of (e): the sealed example file of C13 is accepted; so is its fetched prefix
    followed by arbitrary bytes *)
Example C04_ex_link_header_fetch :
  PI.parse_impl Format.ParseExamples.toyH PI.no_pins Format.ParseExamples.ex1_file = PI.POk Format.ParseExamples.ex1_header /\
  PI.parse_impl Format.ParseExamples.toyH PI.no_pins
    (LH.fetched Format.ParseExamples.ex1_file Format.ParseExamples.ex1_header ++ [1; 2; 3]) =
    PI.POk Format.ParseExamples.ex1_header.
Proof.
  assert (E : PI.parse_impl Format.ParseExamples.toyH PI.no_pins Format.ParseExamples.ex1_file =
              PI.POk Format.ParseExamples.ex1_header) by (vm_compute; reflexivity).
  split; [exact E|].
  exact (proj1 (proj2 (proj2 (proj2 (C04_link_header_fetch _ _ _ _ E)))) [1; 2; 3]).
Qed.

(* ==================================================================================== *)
(** * The composed byte-level theorem *)
From ZV Require Dl.Session Dl.SessionProofs Dl.UpdateByteMp Dl.UpdateByteEquiv Dl.UpdateByteCopy
                Dl.UpdateByteRun Dl.UpdateByteFinal.
Module BMp := Dl.UpdateByteMp.
Module BE := Dl.UpdateByteEquiv.
Module BCp := Dl.UpdateByteCopy.
Module BR := Dl.UpdateByteRun.
Module BF := Dl.UpdateByteFinal.

(** (d) multipart responses, complete: no confinement hypothesis is left - every write of the
    multipart extractor goes through dl_write_range, so C05_confinement lifts to any transfer
    ([BMp.transfer_confined]).  Supersedes C04_link_place_multipart_partial. *)
Theorem C04_link_place_multipart :
  forall H ds ul doff fb ridx tab0 datas B parts fpos file pre quoted frags,
  Dl.DlPlace.req_ok doff ridx tab0 -> Dl.DlPlace.datas_ok H ridx tab0 datas ->
  Dl.MpPlace.wf_body B parts datas ->
  Forall (fun c => c <> 0) pre ->
  (forall k, (k < length pre)%nat ->
     Dl.LiteralMatcher.prefix_ic Dl.LiteralMatcher.kw_boundary (skipn k (pre ++ Dl.LiteralMatcher.kw_boundary)) = false) ->
  B <> [] -> (quoted = false -> hd 0 B <> 32 /\ hd 0 B <> 34) ->
  len (Dl.MpGrammar.ct_line pre B quoted) < two64 ->
  Forall (fun fr => fr <> []) frags -> concat frags = Dl.MpGrammar.mp_body B parts ->
  Forall (fun c => length (Wr.c_digest c) = ds) tab0 ->
  StronglySorted lt (map Wr.r_tgt ridx) ->
  LP.from_server doff fb ridx tab0 datas ->
  exists x' rets,
    Dl.Multipart.feed_frags H doff ridx Dl.LiteralMatcher.lit_comp Dl.LiteralMatcher.lit_exec
      (Dl.Multipart.header_cb Dl.LiteralMatcher.lit_comp Dl.LiteralMatcher.lit_exec
         (Dl.MpFinal.x_start fpos file tab0) (Dl.MpGrammar.ct_line pre B quoted)) frags = (x', rets, true) /\
    place (LP.Hc H ds) (map Wr.r_tgt ridx) 0 (LP.absr ul doff fb 0 tab0 file) =
      (LP.absr ul doff fb 0 (Wr.d_tab (Dl.Multipart.x_dl x')) (Wr.d_file (Dl.Multipart.x_dl x')), true).
Proof. exact BMp.link_place_multipart. Qed.
Print Assumptions C04_link_place_multipart.

(** Targets up to the contents of non-valid extents ([BE.eqv]: same index entries, same server
    bytes, same flags, same extent bytes wherever the flag is valid).  The request loop
    respects it (after reset_failed no chunk is flagged failed): same status, same events,
    equivalent final target. *)
Theorem C04_loop_respects_eqv :
  forall (Hc Hf : bytes -> bytes) fuel B srv hdr extra maxr ra sl sl' ev,
  BE.eqv sl sl' -> Forall nofail sl ->
  BE.outcome_eqv (dl_loop Hc Hf fuel B srv hdr extra maxr ra sl ev) (dl_loop Hc Hf fuel B srv hdr extra maxr ra sl' ev).
Proof. exact BE.dl_loop_eqv. Qed.
Print Assumptions C04_loop_respects_eqv.

(** (c) without [no_gap]: for EVERY target file that holds at least the header, with flags
    whose valid entries lie inside the file (what the scan establishes), the byte-level
    copy abstracts to [copy_chunks] up to [BE.eqv] (a write behind the end of the file
    zero-fills skipped non-valid extents). *)
Theorem C04_link_copy_eqv :
  forall (H : N -> bytes -> bytes) (sh : Hd.header) (sf : bytes) (th : Hd.header) (fb tf : bytes) (fl : list Z),
  CpP.known (Hd.h_chash sh) -> CpP.known (Hd.h_chash th) -> L.sized sh -> L.sized th ->
  Format.ParseProofs.starts_ok 0 (Hd.h_chunks th) -> LCp.src_complete sh sf ->
  BCp.flags_inside th (Hd.h_chunks th) fl tf -> Sc.data_offset th <= len tf ->
  exists fl' tf',
    Cp.copy_chunks H sh sf th tf fl = Some (fl', tf', sf) /\
    BE.eqv (t_slots (L.abs th fb tf' fl'))
           (copy_chunks (L.Hc_of H th) (Some (LCp.abs_old sh sf)) (t_slots (L.abs th fb tf fl))) /\
    t_hdr (L.abs th fb tf' fl') = t_hdr (L.abs th fb tf fl) /\
    len tf <= len tf' /\ BCp.flags_inside th (Hd.h_chunks th) fl' tf'.
Proof. exact BCp.link_copy_eqv. Qed.
Print Assumptions C04_link_copy_eqv.

(** the hypothesis on the server is satisfiable for every B *)
Theorem C04_plain_server_serves :
  forall (h : Hd.header) (fb : bytes), BF.serves_B h fb (BF.plain_server h fb).
Proof. exact BF.plain_server_serves. Qed.
Print Assumptions C04_plain_server_serves.

(** THE COMPOSED THEOREM.  [BF.byte_update] runs the byte-level component models in the
    order of zck_dl.c: header fetch (the first max(89, header) bytes of B written at offset
    0), Scan.validate_checksums, Copy.copy_chunks from the old file + reset of failed
    flags, then the request loop [BR.byte_loop]: zck_missing_chunks, Range.missing_range
    with the current max_ranges, the ra_index / range_attempt bookkeeping ([advance]), a
    refused request (more ranges than the server allows) changes nothing and lowers
    max_ranges, a served one is Multipart.feed_frags / DlWrite.dlw on a fresh zckDL for the
    request (range index = first entries of Session.missing_ridx) over the response the
    server/transport oracle [serve] produces; finally ftruncate to B's length.
    Hypotheses: B ([fb]) is accepted by the header reader with record [h], is not a
    detached header, its digests have the size of their type, every chunk passes
    validate_chunk and the data digest is right ([wf_new] of its abstraction), the file ends
    with its data section and is addressable with a size_t; the old file (if any) has
    known checksum type, sized digests and no extent cut by its end; the server allows at
    least one range per request and answers every consistent request with the requested
    extents of B (single-range body or well-formed multipart body, any non-empty
    fragmentation).  For EVERY initial target file, flag list and context state:
    the reader finds [h] in the target after the header fetch, and the run ends regularly
    with the target equal to B byte for byte and every flag 1 - or two different byte
    strings with the same chunk checksum exist. *)
Theorem C04_byte_level_reconstructs_B :
  forall (H : N -> bytes -> bytes) (p : PI.pins) (h : Hd.header) (fb : bytes)
         (old : option (Hd.header * bytes)) (serve : list Wr.rentry -> BR.resp) (srv : N)
         (tf : bytes) (fl0 : list Z) (st : Sc.rstate),
  PI.parse_impl H p fb = PI.POk h -> wf_bytes fb ->
  Hd.h_detached h = false -> L.sized h ->
  len fb = Sc.data_offset h + Hd.data_total (Hd.h_chunks h) ->
  Sc.data_offset h + Hd.data_total (Hd.h_chunks h) < two64 ->
  wf_new (L.Hc_of H h) (L.Hf_of H h) (L.abs_new h fb) (t_slots (L.abs h fb fb [])) ->
  BF.old_ok h old -> 1 <= srv -> BF.serves_B h fb serve ->
  PI.parse_impl H p (Wr.file_write tf 0 (BF.fetch_bytes h fb)) = PI.POk h /\
  (collision (L.Hc_of H h) \/
   exists fl' ev, BF.byte_update H h fb old serve srv tf fl0 st = Some (BR.BFinish, fl', fb, ev) /\
                  (forall i c, nth_error (Hd.h_chunks h) i = Some c -> nth i fl' 0%Z = 1%Z)).
Proof. exact BF.byte_level_reconstructs. Qed.
Print Assumptions C04_byte_level_reconstructs_B.

(** Non-vacuity of the composed theorem: a sealed file under the toy hash of the header
    examples (SHA-512/128 slot: 16-byte digests): empty dictionary entry, chunks "abc" and
    "de"; header 99 bytes (longer than the probe). *)
Definition bx_z16 : bytes := repeat 0 16%nat.
Definition bx_c1 : bytes := [97; 98; 99].
Definition bx_c2 : bytes := [100; 101].
Definition bx_d (m : bytes) : bytes := Format.ParseExamples.toyH 3 m.
Definition bx_index : bytes :=
  [131; 131] ++ bx_z16 ++ [128; 128] ++ bx_d bx_c1 ++ [131; 131] ++ bx_d bx_c2 ++ [130; 130].
Definition bx_hdr : bytes := bx_d (bx_c1 ++ bx_c2) ++ [128; 128; 184] ++ bx_index ++ [128].
Definition bx_file : bytes :=
  Hd.magic_zck ++ [131; 204] ++ bx_d (Hd.magic_zck ++ [131; 204] ++ bx_hdr) ++ bx_hdr ++ bx_c1 ++ bx_c2.
Definition bx_h : Hd.header :=
  Hd.mkHeader false 3 23 76 (bx_d (Hd.magic_zck ++ [131; 204] ++ bx_hdr)) (bx_d (bx_c1 ++ bx_c2)) 0 0 3 3
    [Hd.mkChunk bx_z16 None 0 0 0; Hd.mkChunk (bx_d bx_c1) None 3 3 0; Hd.mkChunk (bx_d bx_c2) None 2 2 3] 19 56.

Example C04_ex_byte_level_hyps :
  PI.parse_impl Format.ParseExamples.toyH PI.no_pins bx_file = PI.POk bx_h /\ wf_bytes bx_file /\
  Hd.h_detached bx_h = false /\ L.sized bx_h /\
  len bx_file = Sc.data_offset bx_h + Hd.data_total (Hd.h_chunks bx_h) /\
  Sc.data_offset bx_h + Hd.data_total (Hd.h_chunks bx_h) < two64 /\
  wf_new (L.Hc_of Format.ParseExamples.toyH bx_h) (L.Hf_of Format.ParseExamples.toyH bx_h) (L.abs_new bx_h bx_file)
         (t_slots (L.abs bx_h bx_file bx_file [])) /\
  BF.old_ok bx_h None /\ BF.serves_B bx_h bx_file (BF.plain_server bx_h bx_file).
Proof.
  split; [vm_compute; reflexivity|]. split; [apply wf_bytesb_spec; vm_compute; reflexivity|].
  split; [reflexivity|]. split; [split; [repeat constructor|reflexivity]|].
  split; [vm_compute; reflexivity|]. split; [vm_compute; reflexivity|].
  split; [split; [repeat constructor|intros _; vm_compute; reflexivity]|].
  split; [exact I|apply BF.plain_server_serves].
Qed.

(** the byte-level run from a garbage target, no old file: probe + rest of the header, then
    one request for chunks 1 and 2 (one range); the target ends up equal to B *)
Example C04_ex_byte_level_run :
  BF.byte_update Format.ParseExamples.toyH bx_h bx_file None (BF.plain_server bx_h bx_file) 1000
                 [9; 9; 9; 9; 9] [] (Sc.opened bx_h) =
  Some (BR.BFinish, [1; 1; 1]%Z, bx_file, [Served [1; 2]%nat 1]).
Proof. vm_compute. reflexivity. Qed.

(** with an old file that holds "de" and a server that allows one range per request: "de" is
    copied, only "abc" is requested *)
Definition bx_old_h : Hd.header :=
  Hd.mkHeader false 3 10 20 bx_z16 bx_z16 0 0 3 2
    [Hd.mkChunk bx_z16 None 0 0 0; Hd.mkChunk (bx_d bx_c2) None 2 2 0] 0 0.
Definition bx_old_f : bytes := repeat 7 30%nat ++ bx_c2.
Example C04_ex_byte_level_run_old :
  BF.byte_update Format.ParseExamples.toyH bx_h bx_file (Some (bx_old_h, bx_old_f)) (BF.plain_server bx_h bx_file) 1
                 [] [] (Sc.opened bx_h) =
  Some (BR.BFinish, [1; 1; 1]%Z, bx_file, [Served [1]%nat 1]).
Proof. vm_compute. reflexivity. Qed.

(** Header fetch, state part (closes the last gap of the link): [fetch_header] - header region
    := B's header; when the header is shorter than the probe, [write_prefix] puts B's first
    bytes over the first extents - is the abstraction of the byte-level header fetch (B's
    first max(probe, header) bytes, clamped to B's length, written at offset 0), for every
    target file and flag list. *)
From ZV Require Dl.UpdateByteFetch.
Theorem C04_link_fetch_header :
  forall (H : N -> bytes -> bytes) (h : Hd.header) (fb : bytes),
  Read.ScanProofs.scan_wf h fb ->
  len fb = Sc.data_offset h + Hd.data_total (Hd.h_chunks h) ->
  forall (tf : bytes) (fl : list Z),
  let T1 := fetch_header (L.abs_new h fb) (L.abs h fb tf fl) in
  let A1 := L.abs h fb (Wr.file_write tf 0 (BF.fetch_bytes h fb)) fl in
  t_hdr A1 = t_hdr T1 /\ t_slots A1 = t_slots T1.
Proof. exact Dl.UpdateByteFetch.link_fetch_header. Qed.
Print Assumptions C04_link_fetch_header.

(** non-vacuity: a file whose header (81 bytes) is shorter than the probe: the fetch brings the
    first 8 data bytes; chunk "abcdefghij" of a garbage target gets its first 8 bytes *)
Definition sx_c1 : bytes := [97; 98; 99; 100; 101; 102; 103; 104; 105; 106].
Definition sx_index : bytes := [131; 130] ++ bx_z16 ++ [128; 128] ++ bx_d sx_c1 ++ [138; 138].
Definition sx_hdr : bytes := bx_d sx_c1 ++ [128; 128; 166] ++ sx_index ++ [128].
Definition sx_file : bytes :=
  Hd.magic_zck ++ [131; 186] ++ bx_d (Hd.magic_zck ++ [131; 186] ++ sx_hdr) ++ sx_hdr ++ sx_c1.
Definition sx_h : Hd.header :=
  Hd.mkHeader false 3 23 58 (bx_d (Hd.magic_zck ++ [131; 186] ++ sx_hdr)) (bx_d sx_c1) 0 0 3 2
    [Hd.mkChunk bx_z16 None 0 0 0; Hd.mkChunk (bx_d sx_c1) None 10 10 0] 19 38.
Example C04_ex_link_fetch_header :
  PI.parse_impl Format.ParseExamples.toyH PI.no_pins sx_file = PI.POk sx_h /\
  map s_cur (t_slots (fetch_header (L.abs_new sx_h sx_file) (L.abs sx_h sx_file (repeat 0 95%nat) []))) =
    [[]; [97; 98; 99; 100; 101; 102; 103; 104; 0; 0]] /\
  map s_cur (t_slots (L.abs sx_h sx_file (Wr.file_write (repeat 0 95%nat) 0 (BF.fetch_bytes sx_h sx_file)) [])) =
    [[]; [97; 98; 99; 100; 101; 102; 103; 104; 0; 0]].
Proof. vm_compute. repeat split; reflexivity. Qed.
