(** C17 — memory safety and clean failure on arbitrary server responses (PARTIAL).
    Only statements; every proof is [exact lemma].

    Covered by theorems: for ARBITRARY header-line and body bytes and EVERY regex oracle
    obeying its contract ([rx_contract]: on a match the group offsets lie inside the searched
    NUL-terminated string — what regexec guarantees; "no match" and "pattern does not compile"
    included) the models of multipart_get_boundary, multipart_extract, dl_write_range and of
    zck_write_chunk_cb always return, never read outside the buffer they were given (every read
    of the model goes through a bounds-checked accessor whose failure is the outcome MOOB/GOOB),
    and whatever they write satisfies the confinement and verification guarantees of C05.
    In the model of the fixed code a pattern that failed to compile is never stored, so it
    cannot be used later (D15).

    NOT covered by theorems (sanitizer runs of tools/props/c17.py only): heap lifetime
    (malloc/realloc/free of mp->buffer, boundary, regex_t), libc internals, the int
    truncation of [wb] for one buffer >= 2 GiB. *)
From ZV Require Import Base.Bytes Dl.DlWrite Dl.Multipart Dl.FileLemmas Dl.DlProofs Dl.MpStream
  Dl.MpSafe Dl.DlInv Dl.LiteralMatcher Dl.LiteralProofs Dl.Session Dl.SessionProofs Dl.RescanProofs.
Local Open Scope N_scope.

Theorem C17_mpx_safe : forall H doff ridx rx_comp rx_exec,
  rx_contract rx_exec ->
  forall x b,
  snd (mpx H doff ridx rx_comp rx_exec x b) <> MOOB /\
  snd (mpx H doff ridx rx_comp rx_exec x b) <> MFuel.
Proof. exact mpx_safe. Qed.
Print Assumptions C17_mpx_safe.

Theorem C17_get_boundary_safe : forall rx_comp rx_exec,
  rx_contract rx_exec ->
  forall x line, snd (get_boundary rx_comp rx_exec x line) <> GOOB.
Proof. exact get_boundary_safe. Qed.
Print Assumptions C17_get_boundary_safe.

Theorem C17_write_cb_safe : forall H doff ridx rx_comp rx_exec,
  rx_contract rx_exec ->
  forall x frag,
  snd (write_cb H doff ridx rx_comp rx_exec x frag) <> MOOB /\
  snd (write_cb H doff ridx rx_comp rx_exec x frag) <> MFuel.
Proof. exact write_cb_safe. Qed.
Print Assumptions C17_write_cb_safe.

Theorem C17_dlw_total : forall H doff ridx s bs, snd (dlw H doff ridx s bs) <> DFuel.
Proof. exact dlw_total. Qed.
Print Assumptions C17_dlw_total.

(** anything written — for arbitrary bytes — stays inside the extents of the requested,
    not yet valid chunks *)
Theorem C17_confinement : forall H doff ridx tab0 s bs s' r,
  dl_wf doff ridx tab0 s -> dlw H doff ridx s bs = (s', r) ->
  dl_wf doff ridx tab0 s' /\
  (forall x, (forall t c, nth_error tab0 t = Some c -> fillable ridx tab0 t -> ~ in_ext doff c x) ->
             fget (d_file s') x = fget (d_file s) x).
Proof. exact dlw_confined. Qed.
Print Assumptions C17_confinement.

Theorem C17_verified : forall H doff ridx tab0 s bs s' r,
  disjoint_tab doff tab0 -> dl_wf2 doff ridx tab0 s -> verified H doff tab0 s ->
  dlw H doff ridx s bs = (s', r) ->
  dl_wf2 doff ridx tab0 s' /\ verified H doff tab0 s'.
Proof. exact dlw_verified. Qed.
Print Assumptions C17_verified.

Theorem C17_mismatch_zeroed : forall H doff ridx s bs s',
  dlw H doff ridx s bs = (s', DFail) -> d_err s' = false ->
  exists t c, d_tgt s' = Some t /\ nth_error (d_tab s') t = Some c /\ c_valid c = VFailed /\
    fread (d_file s') (doff + c_start c) (N.to_nat (c_len c)) = repeat 0 (N.to_nat (c_len c)).
Proof. exact dlw_fail_zeroed_gen. Qed.
Print Assumptions C17_mismatch_zeroed.

(** * Sessions: several transfers on one zckDL with ARBITRARY responses

    [session] (Dl/Session.v) = any number of transfers, each preceded by zck_dl_reset and a new
    missing range, each with arbitrary header lines and arbitrary body fragments that may stop
    anywhere.  The no-OOB / always-returns theorems above hold for every state, hence at every
    callback of every session.  What is written obeys the C05 guarantees over the whole
    session (corollaries of C05_session): *)
Theorem C17_session : forall H doff rx_comp rx_exec tab0 file0 ts x,
  disjoint_tab doff tab0 -> sess_inv H doff tab0 file0 x ->
  sess_inv H doff tab0 file0 (session H doff rx_comp rx_exec x ts).
Proof. exact session_inv. Qed.
Print Assumptions C17_session.

Theorem C17_session_valid_untouched : forall H doff rx_comp rx_exec tab0 file0 ts x t c,
  disjoint_tab doff tab0 -> sess_inv H doff tab0 file0 x ->
  nth_error tab0 t = Some c -> c_valid c = VValid ->
  let s := x_dl (session H doff rx_comp rx_exec x ts) in
  (exists c', nth_error (d_tab s) t = Some c' /\ c_valid c' = VValid /\
              c_start c' = c_start c /\ c_len c' = c_len c /\ c_digest c' = c_digest c) /\
  fread (d_file s) (doff + c_start c) (N.to_nat (c_len c)) =
  fread file0 (doff + c_start c) (N.to_nat (c_len c)).
Proof. exact session_valid_untouched. Qed.
Print Assumptions C17_session_valid_untouched.

Theorem C17_reset_reestablishes : forall H doff x,
  let s := x_dl (dl_reset x) in
  dl_wf2 doff (missing_ridx (d_tab s)) (d_tab s) s /\ verified H doff (d_tab s) s.
Proof. exact reset_wf. Qed.
Print Assumptions C17_reset_reestablishes.

(** a re-scan of the target between transfers (zck_find_valid_chunks + zck_reset_failed_chunks,
    modelled by its specification: flags recomputed from the file) leaves the file alone, makes
    every valid flag true, and is a fresh starting point for the session invariant *)
Theorem C17_rescan_sound : forall H doff x t c',
  d_err (x_dl x) = false ->
  nth_error (d_tab (x_dl (rescan H doff x))) t = Some c' -> c_valid c' = VValid ->
  (t = 0%nat /\ c_len c' = 0) \/
  (doff + c_start c' + c_len c' <= len (d_file (x_dl x)) /\
   chunk_ok H c' (fread (d_file (x_dl (rescan H doff x))) (doff + c_start c') (N.to_nat (c_len c')))).
Proof. exact rescan_sound. Qed.
Print Assumptions C17_rescan_sound.

Theorem C17_rescan_restart : forall H doff x,
  sess_inv H doff (d_tab (x_dl (rescan H doff x))) (d_file (x_dl x)) (rescan H doff x).
Proof. exact rescan_restart. Qed.
Print Assumptions C17_rescan_restart.

(** zck_clear_error between transfers keeps the session invariant (it touches neither file nor flags) *)
Theorem C17_clear_error_keeps_invariant : forall H doff tab0 file0 x,
  sess_inv H doff tab0 file0 x -> sess_inv H doff tab0 file0 (clear_error x).
Proof. exact clear_error_sess_inv. Qed.
Print Assumptions C17_clear_error_keeps_invariant.

(** the contract is satisfiable by a realistic oracle: the literal matcher (the meaning of the
    patterns zchunk builds, compared with glibc regexec on every run) obeys it *)
Theorem C17_lit_contract : rx_contract lit_exec.
Proof. exact lit_contract. Qed.
Print Assumptions C17_lit_contract.

(** Non-vacuity: an oracle that violates nothing but matches garbage offsets inside the
    string still cannot make the parser leave the buffer; an inverted range wraps. *)
Definition c17_rx (pat str : bytes) : option ((N * N) * (N * N)) :=
  match pat with 33 :: _ => None | _ => Some ((0, len str), (0, 0)) end.
Lemma c17_rx_contract : rx_contract c17_rx.
Proof.
  intros pat str so1 eo1 so2 eo2. unfold c17_rx. destruct pat as [|p pat]; [|destruct (p =? 33) eqn:E].
  - intros Hx; inversion Hx; subst. lia.
  - apply N.eqb_eq in E. subst p. discriminate.
  - destruct p as [|p]; [intros Hx; inversion Hx; subst; lia|].
    repeat (destruct p as [p|p|]; try (intros Hx; inversion Hx; subst; lia)); try discriminate.
Qed.
Example C17_ex_inverted_range_wraps :
  let x0 := mkX (mkDl false 0 0 None None None 0 [9; 9] [mkChunk 0 2 [0; 0] VUnknown])
                (mkMp false 0 []) (Some [66]) (Some ([63], [33])) in
  (* the oracle calls the whole header string "57\r\n\r" group 1 and the empty string group 2:
     rstart = a wrapped garbage value, rend = 0, length = 0 - rstart + 1 mod 2^64 *)
  m_length (x_mp (fst (mpx (fun _ => [0; 0]) 0 [mkRentry 0 2 [0; 0] 0] (fun _ => true) c17_rx x0
                            [53; 55; 13; 10; 13; 10; 1]))) = 18446744073709498531.
Proof. vm_compute. reflexivity. Qed.
