(** C18 - checksum backends are interchangeable across builds.
    Only statements; every proof is [exact lemma].

    Proved here, about the model Hash/Bundled.v of the bundled backend (sha2.c, sha1.c,
    libsha.c, hash.c's digest_size) against the executable FIPS 180-4 definitions of
    Hash/ShaSpec.v: for EVERY message and EVERY way of cutting it into hash_update calls the
    bundled code returns the standard digest.  Not proved: anything about OpenSSL (external;
    both builds and the extracted Coq functions are compared on concrete inputs by
    tools/props/c18.py), and that the C compression functions equal the FIPS ones (compared
    block by block in the same run).  The theorems are about the tree with the two C18
    repairs (64-bit length bookkeeping in sha2.c, piecewise updates in libsha.c); on a tree
    without them [C18_layout] / [C18_update_pieces] no longer compile. *)
From ZV Require Import Base.Bytes Hash.ShaSpec Gen.GenConsts Gen.GenSha Hash.Bundled Hash.BundledCore Hash.BundledProofs.
Local Open Scope N_scope.

(** T18.1 streaming = one-shot = FIPS, any split, any piece sizes, empty pieces included.
    SHA-1 and SHA-256: no length bound at all (64-bit length field, 64-bit counters). *)
Theorem C18_bundled_sha1 : forall frags : list bytes,
  zck_digest H_SHA1 frags = sha1 (concat frags).
Proof. exact bundled_sha1. Qed.
Print Assumptions C18_bundled_sha1.

Theorem C18_bundled_sha256 : forall frags : list bytes,
  zck_digest H_SHA256 frags = sha256 (concat frags).
Proof. exact bundled_sha256. Qed.
Print Assumptions C18_bundled_sha256.

(** SHA-512: the code fills the low 64 bits of the 128-bit length field, hence messages of
    fewer than 2^61 bytes (2^64 bits).  The bound cannot be dropped: for 2^61 bytes FIPS puts
    a 1 into the upper half of the field, the code writes zeros there. *)
Theorem C18_bundled_sha512 : forall frags : list bytes,
  len (concat frags) < 2 ^ 61 -> zck_digest H_SHA512 frags = sha512 (concat frags).
Proof. exact bundled_sha512. Qed.
Print Assumptions C18_bundled_sha512.

(** T18.3 SHA-512/128 = the first 16 bytes of SHA-512 (digest_size from hash_setup). *)
Theorem C18_bundled_sha512_128 : forall frags : list bytes,
  len (concat frags) < 2 ^ 61 ->
  zck_digest H_SHA512_128 frags = firstn 16 (sha512 (concat frags)).
Proof. exact bundled_sha512_128. Qed.
Print Assumptions C18_bundled_sha512_128.

(** all four digest types at once, and the digest has exactly digest_size bytes *)
Theorem C18_digest_correct : forall t (frags : list bytes),
  len (concat frags) < 2 ^ 61 ->
  zck_digest t frags = spec_digest t (concat frags) /\ len (zck_digest t frags) = digest_size t.
Proof. exact zck_digest_correct_len. Qed.
Print Assumptions C18_digest_correct.

(** the digest depends on the bytes only, not on how they were fed *)
Theorem C18_split_independent : forall t (frags1 frags2 : list bytes),
  concat frags1 = concat frags2 -> len (concat frags1) < 2 ^ 61 ->
  zck_digest t frags1 = zck_digest t frags2.
Proof. exact zck_digest_split_independent. Qed.
Print Assumptions C18_split_independent.

(** T18.2 the tables and initial values found in the C sources are the FIPS ones; the macro
    used in round t of SHA1_Transform selects the FIPS function and constant of round t. *)
Theorem C18_constants :
  gen_sha256_k = sha256_K /\ gen_sha512_k = sha512_K /\
  gen_sha256_h0 = sha256_H0 /\ gen_sha512_h0 = sha512_H0 /\
  gen_sha1_h0 = sha1_H0 /\ gen_sha1_k = sha1_K /\
  map (fun s => (N.to_nat s, nth (N.to_nat s) gen_sha1_k 0)) gen_sha1_round_sel = sha1_fK.
Proof.
  exact (conj gen_sha256_k_fips (conj gen_sha512_k_fips (conj gen_sha256_h0_fips (conj gen_sha512_h0_fips
        (conj gen_sha1_h0_fips (conj gen_sha1_k_fips gen_sha1_rounds_fips)))))).
Qed.
Print Assumptions C18_constants.

(** the integer widths and layout constants of the C code the model transcribes (regenerated
    from the working tree): 64-bit tot_len and bit length in sha2.c, unsigned int update
    lengths, two 32-bit SHA-1 counters, the padding constants *)
Theorem C18_layout :
  SHA256_BLOCK_SIZE = 64 /\ SHA512_BLOCK_SIZE = 128 /\ SHA1_BLOCK_LENGTH = 64 /\
  SHA256_FINAL_RESERVE = 9 /\ SHA512_FINAL_RESERVE = 17 /\
  SHA256_TOT_BITS = 64 /\ SHA512_TOT_BITS = 64 /\ SHA256_LENB_BITS = 64 /\ SHA512_LENB_BITS = 64 /\
  SHA256_LENFIELD_BYTES = 8 /\ SHA512_LENFIELD_BYTES = 8 /\
  SHA256_LEN_BITS = 32 /\ SHA512_LEN_BITS = 32 /\
  SHA256_UPDATE_LEN_BITS = 32 /\ SHA512_UPDATE_LEN_BITS = 32 /\ SHA1_UPDATE_LEN_BITS = 32 /\
  SHA1_COUNT_WORDS = 2 /\ SHA1_COUNT_BITS = 32 /\ SHA1_PAD_MASK = 504 /\ SHA1_PAD_TARGET = 448.
Proof. exact gen_layout. Qed.
Print Assumptions C18_layout.

(** lib_hash_update hands the unsigned-int update functions pieces of at most 2^31 bytes *)
Theorem C18_update_pieces : 0 < LIBSHA_MAX_UPDATE /\ LIBSHA_MAX_UPDATE <= 2147483648.
Proof. exact gen_max_update. Qed.
Print Assumptions C18_update_pieces.

(** SHA1_Final's unbounded padding loop stops (the model gives it 64 iterations): whenever the
    context was reached by updates from SHA1_Init, the loop exits by its condition. *)
Theorem C18_sha1_final_terminates : forall (c : sha1_ctx hstate) (msg : bytes),
  R1 hstate sha1_compress sha1_H0 c msg ->
  N.land (s_count0 (sha1_pad_loop hstate sha1_compress 64 (sha1_update hstate sha1_compress c [128] 1)))
         SHA1_PAD_MASK = SHA1_PAD_TARGET.
Proof. exact (sha1_final_terminates hstate sha1_compress sha1_H0). Qed.
Print Assumptions C18_sha1_final_terminates.

(** Non-vacuity: NIST vectors through the bundled model, cut at awkward places. *)
Example C18_ex_abc :
  zck_digest H_SHA256 [[97]; []; [98; 99]] = sha256 m_abc /\
  zck_digest H_SHA1 [[97; 98]; [99]] = sha1 m_abc /\
  zck_digest H_SHA512 [[]; [97; 98; 99]] = sha512 m_abc /\
  zck_digest H_SHA512_128 [m_abc] = firstn 16 (sha512 m_abc).
Proof. vm_compute. repeat split; reflexivity. Qed.
(** padding boundaries: 55/56 bytes (SHA-1, SHA-256) and 111/112 bytes (SHA-512) *)
Example C18_ex_boundaries :
  zck_digest H_SHA256 [firstn 55 m_56] = sha256 (firstn 55 m_56) /\
  zck_digest H_SHA256 [firstn 50 m_56; skipn 50 m_56] = sha256 m_56 /\
  zck_digest H_SHA1 [firstn 1 m_56; skipn 1 m_56] = sha1 m_56 /\
  zck_digest H_SHA512 [firstn 111 m_112] = sha512 (firstn 111 m_112) /\
  zck_digest H_SHA512 [firstn 64 m_112; skipn 64 m_112] = sha512 m_112.
Proof. vm_compute. repeat split; reflexivity. Qed.
