(** C07 — pinned header validation accepts exactly the authenticated header. *)
From ZV Require Import Base.Bytes Format.Header Format.ParseImpl Format.Pins Format.PinsProofs
     Format.ParseLemmas Format.ParseProofs Format.PinsCompose Format.PinsSticky.
Local Open Scope Z_scope.

(** T7.1 complete over the finite domain of [char]: hex_to_int maps exactly 0-9a-fA-F to
    their values and everything else to -1 (sweep of all 256 values by vm_compute). *)
Theorem C07_hex_complete : forall c, -128 <= c <= 127 ->
  hex_to_int c = match hexval c with Some v => v | None => -1 end.
Proof. exact hex_to_int_spec. Qed.
Print Assumptions C07_hex_complete.

(** T7.2 the digest option is accepted iff the string has exactly twice the digest size of
    the pinned type and consists solely of hex digits; it is stored by value. *)
Theorem C07_digest_option_iff : forall st s d,
  pr_err st = 0%N ->
  (set_opt st (SetDigest s) = (mkPrep (pr_type st) (Some d) (pr_size st) 0%N, true)
   <->
   exists ds, 0 <= pr_type st /\ dsize (Z.to_N (pr_type st)) = Some ds /\
              length s = (2 * N.to_nat ds)%nat /\ Forall is_hex s /\ unhex_spec s = Some d).
Proof. exact set_digest_iff. Qed.
Print Assumptions C07_digest_option_iff.

Theorem C07_digest_needs_type : forall st s,
  pr_type st < 0 -> snd (set_opt st (SetDigest s)) = false.
Proof. exact digest_needs_type. Qed.
Print Assumptions C07_digest_needs_type.

Theorem C07_type_frozen_after_digest : forall st v d,
  pr_digest st = Some d -> snd (set_opt st (SetType v)) = false.
Proof. exact type_frozen_after_digest. Qed.
Print Assumptions C07_type_frozen_after_digest.

(** T7.3 the lead is accepted under pins iff it is accepted without them and every pin that
    is set equals the stored value (type; digest; lead size + header size). *)
Theorem C07_lead_accepts_iff_pins_match : forall p f l,
  read_lead p f = POk l <->
  (read_lead no_pins f = POk l /\
   (forall t, p_type p = Some t -> t = l_hash l) /\
   (forall d, p_digest p = Some d -> d = l_hdigest l) /\
   (forall s, p_size p = Some s -> (s = l_hlen l + l_size l)%N)).
Proof. exact read_lead_pins. Qed.
Print Assumptions C07_lead_accepts_iff_pins_match.

(** T7.4 two files that both open under the same (type, digest) pins have byte-for-byte the
    same header (all but the five magic bytes) - or they exhibit a hash collision. *)
Theorem C07_pinned_open_authenticates : forall (H : N -> bytes -> bytes) p f f' h h' t d,
  p_type p = Some t -> p_digest p = Some d ->
  parse_impl H p f = POk h -> parse_impl H p f' = POk h' ->
  (sub f 5 (h_lead h + h_hlen h - 5) = sub f' 5 (h_lead h' + h_hlen h' - 5))%N \/
  exists x y, x <> y /\ H t x = H t y.
Proof. exact pinned_open_authenticates. Qed.
Print Assumptions C07_pinned_open_authenticates.

Example C07_ex_digest_accepted :
  set_opts [SetType 3; SetDigest [48;49;97;66;48;49;97;66;48;49;97;66;48;49;97;66;48;49;97;66;48;49;97;66;48;49;97;66;48;49;70;102]] =
  (mkPrep 3 (Some [1;171;1;171;1;171;1;171;1;171;1;171;1;171;1;255]%N) (-1) 0%N, [true; true]).
Proof. vm_compute. reflexivity. Qed.
Example C07_ex_nonhex_rejected :
  snd (set_opts [SetType 3; SetDigest [58;49;97;66;48;49;97;66;48;49;97;66;48;49;97;66;48;49;97;66;48;49;97;66;48;49;97;66;48;49;70;102]]) = [true; false].
Proof. vm_compute. reflexivity. Qed.

(** T7.7 an accepted digest pin is never lost on a usable context: after ANY sequence of option calls and
    zck_clear_error calls, a context without a fatal error holds exactly the last accepted digest (none if none
    was accepted).  A refused later attempt either keeps the old pin or kills the context for good. *)
Theorem C07_pin_sticky : forall ops,
  usable (fst (set_opts ops)) ->
  pr_digest (fst (set_opts ops)) = last_accepted ops (snd (set_opts ops)) None.
Proof. exact pin_sticky. Qed.
Print Assumptions C07_pin_sticky.

Theorem C07_pin_survives : forall st d later,
  pr_digest st = Some d ->
  none_accepted later (snd (run_from st later)) ->
  usable (fst (run_from st later)) ->
  pr_digest (fst (run_from st later)) = Some d.
Proof. exact pin_survives. Qed.
Print Assumptions C07_pin_survives.

(** non-vacuity: a recoverable refusal (negative size) + clear keeps the pin and the context usable; a
    non-hex second attempt kills the context (clear-error fails, every later call is refused) *)
Example C07_ex_sticky_usable :
  let ops := [SetType 3; SetDigest [48;49;97;66;48;49;97;66;48;49;97;66;48;49;97;66;48;49;97;66;48;49;97;66;48;49;97;66;48;49;70;102];
              SetSize (-1); ClearErr; SetSize 100] in
  snd (set_opts ops) = [true; true; false; true; true] /\ pr_err (fst (set_opts ops)) = 0%N /\
  pr_digest (fst (set_opts ops)) <> None.
Proof. vm_compute. repeat split; discriminate. Qed.
Example C07_ex_sticky_dead :
  let ops := [SetType 3; SetDigest [48;49;97;66;48;49;97;66;48;49;97;66;48;49;97;66;48;49;97;66;48;49;97;66;48;49;97;66;48;49;70;102];
              SetDigest [58;49;97;66;48;49;97;66;48;49;97;66;48;49;97;66;48;49;97;66;48;49;97;66;48;49;97;66;48;49;70;102];
              ClearErr; SetSize 100] in
  snd (set_opts ops) = [true; true; false; false; false] /\ pr_err (fst (set_opts ops)) = 2%N.
Proof. vm_compute. split; reflexivity. Qed.
