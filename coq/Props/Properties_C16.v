(** C16 — chunking is deterministic, content-defined and local.
    Only statements; every proof is [exact lemma].  The model (Chunk/Buzhash.v, Chunk/Writer.v)
    is a Gallina function of configuration and operations only, so "on every run" is
    functionality of the model plus the correspondence run (tools/props/c16.py). *)
From ZV Require Import Base.Bytes Gen.GenConsts Chunk.Buzhash Chunk.BuzhashProofs Chunk.Writer Chunk.WriterProofs.
Local Open Scope N_scope.

(** T16.0 batching is invisible: the automatic loop of one zck_write call — index [i] over
    the call's buffer, [comp_write] of [i] pending bytes at once — is the per-byte fold of
    [step] from the state with the pending bytes committed.  For every configuration, every
    per-byte iteration allowance [K], exhausted allowance included. *)
Theorem C16_batching_invisible : forall c K rest st pend i, i = len pend ->
  auto_loop c K rest st pend i = fold_step c K rest (commit st pend).
Proof. exact auto_loop_fold. Qed.
Print Assumptions C16_batching_invisible.

(** T16.1 segmentation independence, automatic mode: any sequence of write calls, from any
    state, is one write of the concatenation (no hypothesis on the configuration). *)
Theorem C16_segmentation_auto : forall c frags st,
  c_manual c = false ->
  run_ops c (map OpWrite frags) st = zck_write_model c st (concat frags).
Proof. exact write_segmentation_auto. Qed.
Print Assumptions C16_segmentation_auto.

(** ... with end-chunk operations anywhere around: adjacent writes may be merged or split. *)
Theorem C16_write_split : forall c a b r st,
  c_manual c = false ->
  run_ops c (OpWrite a :: OpWrite b :: r) st = run_ops c (OpWrite (a ++ b) :: r) st.
Proof. exact write_split_auto. Qed.
Print Assumptions C16_write_split.

(** T16.1 manual mode. *)
Theorem C16_segmentation_manual : forall c frags st,
  c_manual c = true -> manual_ok c -> w_sz st <= c_max c ->
  run_ops c (map OpWrite frags) st = zck_write_model c st (concat frags).
Proof. exact write_segmentation_manual. Qed.
Print Assumptions C16_segmentation_manual.

(** T16.1 at file level, for every configuration comp_init makes from options the setter
    accepts: the chunk list of the file (hence, with [stored_chunk], its index and data) is
    the same for every segmentation of the content into write calls. *)
Theorem C16_segmentation_file : forall manual mn mx frags,
  legal_opts mn mx ->
  write_file (comp_init_cfg manual mn mx) (map OpWrite frags) =
  write_file (comp_init_cfg manual mn mx) [OpWrite (concat frags)].
Proof. exact file_segmentation. Qed.
Print Assumptions C16_segmentation_file.

(** The limits comp_init computes (after the D26 fix). *)
Theorem C16_comp_init_limits : forall mn mx,
  legal_opts mn mx ->
  let c := comp_init_cfg false mn mx in
  1 <= c_min c /\ c_min c <= c_auto_min c /\ c_auto_min c <= c_auto_max c /\ c_auto_max c <= c_max c.
Proof. exact comp_init_limits. Qed.
Print Assumptions C16_comp_init_limits.

(** T1.1 termination: one byte is looked at at most [width + 1] times (refused boundaries
    included; uses the sweep [table_ok] over the generated buzhash table), so the automatic
    loop of a call with [n] bytes makes at most [n * (width + 1)] iterations:
    the model's allowance [refeed_fuel = width + 2] per byte is never exhausted. *)
Theorem C16_byte_terminates : forall c b k st,
  cfg_ok c -> b < 256 -> buzstate_wf (c_width c) (w_buz st) -> (N.to_nat (c_width c) + 1 <= k)%nat ->
  exists s', step c k st b = WOk s'.
Proof. exact step_terminates. Qed.
Print Assumptions C16_byte_terminates.

Theorem C16_write_terminates : forall mn mx st src,
  legal_opts mn mx -> wf_bytes src -> buzstate_wf DEFAULT_BUZHASH_WIDTH (w_buz st) ->
  exists s', zck_write_model (comp_init_cfg false mn mx) st src = WOk s' /\
             buzstate_wf DEFAULT_BUZHASH_WIDTH (w_buz s').
Proof. exact comp_init_write_terminates. Qed.
Print Assumptions C16_write_terminates.

(** Every sequence of writes and end-chunks produces a file whose chunks concatenate to the
    bytes written (nothing lost at close: D24 fix), automatic and manual mode. *)
Theorem C16_file_total : forall manual mn mx ops,
  legal_opts mn mx -> Forall (fun o => wf_bytes (op_bytes o)) ops ->
  exists F, write_file (comp_init_cfg manual mn mx) ops = Some F /\ concat F = concat (map op_bytes ops).
Proof. exact comp_init_file_total. Qed.
Print Assumptions C16_file_total.

(** T16.2 prefix locality, from any common starting state: a chunk of the first output whose
    end offset lies strictly inside the common prefix [P] (the byte following the chunk is
    still shared) is the chunk with the same index of the second output. *)
Theorem C16_prefix_locality : forall c k P x1 x2 st0 s1 s2,
  fold_step c k (P ++ x1) st0 = WOk s1 ->
  fold_step c k (P ++ x2) st0 = WOk s2 ->
  forall j ch,
    nth_error (chunks (close_model c s1)) j = Some ch ->
    len (concat (firstn (S j) (chunks (close_model c s1)))) < len (total st0) + len P ->
    nth_error (chunks (close_model c s2)) j = Some ch.
Proof. exact prefix_locality. Qed.
Print Assumptions C16_prefix_locality.

(** ... for two files written through arbitrary segmentations. *)
Theorem C16_prefix_locality_file : forall c frags1 frags2 P x1 x2 F1 F2,
  c_manual c = false ->
  concat frags1 = P ++ x1 -> concat frags2 = P ++ x2 ->
  write_file c (map OpWrite frags1) = Some F1 ->
  write_file c (map OpWrite frags2) = Some F2 ->
  forall j ch, nth_error F1 j = Some ch ->
    len (concat (firstn (S j) F1)) < len P ->
    nth_error F2 j = Some ch.
Proof. exact file_prefix_locality. Qed.
Print Assumptions C16_prefix_locality_file.

(** Identical chunk bytes are identical stored chunks (checksum, stored bytes, length), for
    every compressor function, digest function and dictionary. *)
Theorem C16_identical_chunks_stored : forall (D : Type) (zcomp : option D -> bytes -> bytes)
    (H : bytes -> bytes) (d : option D) (F1 F2 : list bytes) j ch,
  nth_error F1 j = Some ch -> nth_error F2 j = Some ch ->
  nth_error (stored_file D zcomp H d F1) j = Some (stored_chunk D zcomp H d ch) /\
  nth_error (stored_file D zcomp H d F2) j = Some (stored_chunk D zcomp H d ch).
Proof. exact stored_same. Qed.
Print Assumptions C16_identical_chunks_stored.

(** T16.3 suffix resynchronisation: from states that agree on the current chunk and the rolling
    hash the same bytes produce the same chunks and the same final state, whatever was
    finished before... *)
Theorem C16_resync : forall c k S sA sB,
  w_rdc sA = w_rdc sB -> w_sz sA = w_sz sB -> w_buz sA = w_buz sB ->
  match fold_step c k S sA, fold_step c k S sB with
  | WOk a, WOk b =>
      exists t tc,
        chunks a = chunks sA ++ t /\ chunks b = chunks sB ++ t /\
        w_rdc a = w_rdc b /\ w_sz a = w_sz b /\ w_buz a = w_buz b /\
        chunks (close_model c a) = chunks sA ++ tc /\
        chunks (close_model c b) = chunks sB ++ tc
  | WFuel, WFuel => True
  | _, _ => False
  end.
Proof. exact resync. Qed.
Print Assumptions C16_resync.

(** ... and once both runs finish a chunk in front of the same byte [b] of a shared suffix
    [b :: S] (both outputs start a chunk there), all following chunks are identical. *)
Theorem C16_resync_at_boundary : forall c b S k sA sB sA1 sB1,
  cfg_ok c ->
  step c k sA b = WOk sA1 -> w_rdone sA1 <> w_rdone sA ->
  step c k sB b = WOk sB1 -> w_rdone sB1 <> w_rdone sB ->
  match fold_step c k S sA1, fold_step c k S sB1 with
  | WOk a, WOk b' =>
      exists t tc,
        chunks a = chunks sA1 ++ t /\ chunks b' = chunks sB1 ++ t /\
        chunks (close_model c a) = chunks sA1 ++ tc /\
        chunks (close_model c b') = chunks sB1 ++ tc
  | WFuel, WFuel => True
  | _, _ => False
  end.
Proof. exact resync_at_boundary. Qed.
Print Assumptions C16_resync_at_boundary.

(** T16.4 size bounds: every chunk the automatic loop ends has
    [auto_min <= size <= auto_max]; in a file made of writes only that is every chunk but
    the last, which is non-empty and not above [auto_max]. *)
Theorem C16_size_bounds : forall c k l st s',
  fold_step c k l st = WOk s' -> inv_sz st -> w_sz st <= c_auto_max c ->
  w_sz s' <= c_auto_max c /\ inv_sz s' /\
  exists t, chunks s' = chunks st ++ t /\ Forall (chunk_bounded c) t.
Proof. exact fold_bounds. Qed.
Print Assumptions C16_size_bounds.

Theorem C16_size_bounds_file : forall c frags F,
  c_manual c = false ->
  write_file c (map OpWrite frags) = Some F ->
  exists t last, F = t ++ last /\ Forall (chunk_bounded c) t /\
    (last = [] \/ exists ch, last = [ch] /\ 1 <= len ch /\ len ch <= c_auto_max c).
Proof. exact file_size_bounds. Qed.
Print Assumptions C16_size_bounds_file.

(** * Examples (non-vacuity), closed by evaluation *)

(** The configurations comp_init computes: defaults; a small maximum and a large minimum
    (both made [zck_write] spin before the D26 fix); manual mode. *)
Example C16_ex_cfg_default :
  comp_init_cfg false 0 0 =
  {| c_manual := false; c_min := 1; c_max := 10485760; c_auto_min := 8192; c_auto_max := 131072;
     c_width := 48; c_bits := 15; c_mask := 32767 |}.
Proof. vm_compute. reflexivity. Qed.
Example C16_ex_cfg_small_max :
  (c_auto_min (comp_init_cfg false 0 4096), c_auto_max (comp_init_cfg false 0 4096)) = (4096, 4096) /\
  (c_auto_min (comp_init_cfg false 200000 300000), c_auto_max (comp_init_cfg false 200000 300000)) = (200000, 200000).
Proof. vm_compute. split; reflexivity. Qed.

(** The unfixed clamp (auto_min 8192 above auto_max 4096): the loop never gets past byte 4096
    (D26); with the limits of the fixed comp_init the same input gives three chunks. *)
Definition c_d26 : cfg :=
  {| c_manual := false; c_min := 1; c_max := 4096; c_auto_min := 8192; c_auto_max := 4096;
     c_width := 48; c_bits := 15; c_mask := 32767 |}.
Example C16_ex_d26_unfixed_spins : zck_write_model c_d26 w_init (repeat 97 (N.to_nat 4097)) = WFuel.
Proof. vm_compute. reflexivity. Qed.
Example C16_ex_d26_fixed :
  option_map (map len) (write_file (comp_init_cfg false 0 4096) [OpWrite (repeat 97 (N.to_nat 10000))])
  = Some [4096; 4096; 1808].
Proof. vm_compute. reflexivity. Qed.

(** D24: the final chunk below ZCK_CHUNK_MIN is written at close (manual mode, min 400). *)
Example C16_ex_d24_final_chunk_kept :
  option_map (map len)
    (write_file (comp_init_cfg true 400 10000) [OpWrite (repeat 97 500); OpEnd; OpWrite (repeat 98 200)])
  = Some [500; 200].
Proof. vm_compute. reflexivity. Qed.

(** A small window (4 bytes, 3 match bits, limits 4..16) on 80 bytes: ten chunks, the same
    through 1-byte writes, 7-byte writes and one write; byte 78 needs three iterations (a
    refused boundary is followed by another one). *)
Definition c_tiny : cfg :=
  {| c_manual := false; c_min := 1; c_max := 64; c_auto_min := 4; c_auto_max := 16;
     c_width := 4; c_bits := 3; c_mask := 7 |}.
Definition d_tiny : bytes := map (fun i => (N.of_nat i * 37 + 11) mod 256) (seq 0 80).
Fixpoint split_every (n : nat) (fuel : nat) (l : bytes) : list bytes :=
  match fuel with O => [] | S f => match l with [] => [] | _ => firstn n l :: split_every n f (skipn n l) end end.

Example C16_ex_tiny_chunks :
  option_map (map len) (write_file c_tiny [OpWrite d_tiny]) = Some [5; 16; 10; 16; 6; 8; 5; 5; 4; 5].
Proof. vm_compute. reflexivity. Qed.
Example C16_ex_tiny_segmentations :
  write_file c_tiny (map OpWrite (split_every 1 80 d_tiny)) = write_file c_tiny [OpWrite d_tiny] /\
  write_file c_tiny (map OpWrite (split_every 7 80 d_tiny)) = write_file c_tiny [OpWrite d_tiny].
Proof. vm_compute. split; reflexivity. Qed.
Example C16_ex_tiny_refusal :
  exists st, fold_step c_tiny 6 (firstn 78 d_tiny) w_init = WOk st /\
             step c_tiny 2 st (nth 78 d_tiny 0) = WFuel /\
             (exists s', step c_tiny 3 st (nth 78 d_tiny 0) = WOk s' /\ w_rdone s' = w_rdone st).
Proof. eexists. split; [vm_compute; reflexivity|]. split; [vm_compute; reflexivity|]. eexists. split; vm_compute; reflexivity. Qed.

(** Prefix locality and resynchronisation on the small configuration: replacing byte 40
    keeps the chunks that end before it (the first three, ending at 5, 21, 31) and the
    outputs agree again on their last chunks. *)
Definition d_tiny_edit : bytes := firstn 40 d_tiny ++ [200] ++ skipn 41 d_tiny.
Example C16_ex_tiny_edit :
  exists F1 F2, write_file c_tiny [OpWrite d_tiny] = Some F1 /\ write_file c_tiny [OpWrite d_tiny_edit] = Some F2 /\
     firstn 3 F1 = firstn 3 F2 /\ F1 <> F2 /\ rev (firstn 3 (rev F1)) = rev (firstn 3 (rev F2)).
Proof.
  eexists. eexists. split; [vm_compute; reflexivity|]. split; [vm_compute; reflexivity|].
  split; [vm_compute; reflexivity|]. split; [vm_compute; discriminate|]. vm_compute. reflexivity.
Qed.

(** The real configuration and table: the hypotheses of the termination theorem hold. *)
Example C16_ex_cfg_ok : cfg_ok (comp_init_cfg false 0 0) /\ cfg_ok (comp_init_cfg false 0 4096).
Proof. split; apply comp_init_cfg_ok; left; reflexivity. Qed.
