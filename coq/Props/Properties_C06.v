(** C06 — the header checksum gate and what it covers.  Only statements; every proof is
    [exact lemma]. *)
From ZV Require Import Base.Bytes Gen.GenConsts Format.Compint Format.Header Format.ParseImpl
                       Format.ParseProofs Format.ParseExamples.
Local Open Scope N_scope.

(** T6.1 a header is only opened when the stored digest is the hash of the covered bytes. *)
Theorem C06_open_implies_digest : forall (H : N -> bytes -> bytes) p f h,
  parse_impl H p f = POk h ->
  exists l, read_lead p f = POk l /\
            H (l_hash l) (covered f (l_dloc l) (l_size l) (l_hlen l)) = l_hdigest l /\
            l_hdigest l = h_hdigest h /\ l_size l + l_hlen l <= len f.
Proof. exact open_implies_digest. Qed.
Print Assumptions C06_open_implies_digest.

(** T6.2 the hash input together with the stored digest determines every header byte
    except the five magic bytes. *)
Theorem C06_covered_determines_header : forall f f' l l',
  read_lead no_pins f = POk l -> read_lead no_pins f' = POk l' ->
  l_size l + l_hlen l <= len f -> l_size l' + l_hlen l' <= len f' ->
  covered f (l_dloc l) (l_size l) (l_hlen l) = covered f' (l_dloc l') (l_size l') (l_hlen l') ->
  l_hdigest l = l_hdigest l' ->
  l_size l = l_size l' /\ l_hlen l = l_hlen l' /\
  sub f 5 (l_size l + l_hlen l - 5) = sub f' 5 (l_size l' + l_hlen l' - 5).
Proof. exact covered_determines_header. Qed.
Print Assumptions C06_covered_determines_header.

(** T6.3 two accepted headers with the same stored digest and different header bytes are
    an explicit collision of the hash function. *)
Theorem C06_same_digest_different_header_collides :
  forall (H : N -> bytes -> bytes) f f' l l',
  read_lead no_pins f = POk l -> read_lead no_pins f' = POk l' ->
  l_size l + l_hlen l <= len f -> l_size l' + l_hlen l' <= len f' ->
  l_hash l = l_hash l' ->
  H (l_hash l) (covered f (l_dloc l) (l_size l) (l_hlen l)) = l_hdigest l ->
  H (l_hash l') (covered f' (l_dloc l') (l_size l') (l_hlen l')) = l_hdigest l' ->
  l_hdigest l = l_hdigest l' ->
  sub f 5 (l_size l + l_hlen l - 5) <> sub f' 5 (l_size l' + l_hlen l' - 5) ->
  exists x y, x <> y /\ H (l_hash l) x = H (l_hash l) y.
Proof. exact same_digest_different_header_collides. Qed.
Print Assumptions C06_same_digest_different_header_collides.

(** Non-vacuity.  The example file opens and its digest is the toy hash of the covered
    bytes; with the (weak) toy hash the hypotheses of T6.3 are met by two files that
    differ in two header bytes. *)
Example C06_ex_open :
  parse_impl toyH no_pins ex1_file = POk ex1_header /\
  read_lead no_pins ex1_file = POk ex1_lead /\
  toyH 3 (covered ex1_file 7 23 58) = l_hdigest ex1_lead /\ l_hdigest ex1_lead = h_hdigest ex1_header.
Proof. vm_compute. repeat split; reflexivity. Qed.
Example C06_ex_wrong_digest_refused :
  parse_impl toyH no_pins (magic_zck ++ [131; 186] ++ bseq 0 16 ++ ex1_hdr) = PErr.
Proof. vm_compute. reflexivity. Qed.
Example C06_ex_collision_hypotheses :
  read_lead no_pins ex1_file = POk ex1_lead /\ read_lead no_pins ex1_swapped = POk ex1_lead /\
  l_size ex1_lead + l_hlen ex1_lead <= len ex1_file /\
  l_size ex1_lead + l_hlen ex1_lead <= len ex1_swapped /\
  toyH 3 (covered ex1_file 7 23 58) = l_hdigest ex1_lead /\
  toyH 3 (covered ex1_swapped 7 23 58) = l_hdigest ex1_lead /\
  sub ex1_file 5 (23 + 58 - 5) <> sub ex1_swapped 5 (23 + 58 - 5) /\
  parse_impl toyH no_pins ex1_swapped <> PErr.
Proof. vm_compute. repeat split; try reflexivity; try discriminate. Qed.
