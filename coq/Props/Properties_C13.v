(** C13 — header parser: the model of the C reader refines the format specification,
    chunk table invariants, totality.  Only statements; every proof is [exact lemma]. *)
From ZV Require Import Base.Bytes Gen.GenConsts Format.Compint Format.Header Format.ParseImpl
                       Format.ParseProofs Format.ParseComplete Format.ParseExamples.
Local Open Scope N_scope.

(** T13.1 whatever the hash function and the pins: an accepted file is accepted by the
    specification parser with exactly the same record. *)
Theorem C13_refines_spec : forall (H : N -> bytes -> bytes) p f h,
  wf_bytes f -> parse_impl H p f = POk h -> parse_spec H f = Some h.
Proof. exact parse_impl_refines_spec. Qed.
Print Assumptions C13_refines_spec.

(** T13.2 the count field is the number of entries, at least one; start offsets are the
    exact running sum of the stored sizes; the total and every size fit an ssize_t. *)
Theorem C13_count_and_starts : forall (H : N -> bytes -> bytes) p f h,
  wf_bytes f -> parse_impl H p f = POk h ->
  h_count h = N.of_nat (length (h_chunks h)) /\ 1 <= h_count h /\ starts_ok 0 (h_chunks h) /\
  h_lead h + h_hlen h + data_total (h_chunks h) <= SSIZE_MAX /\
  Forall (fun c => c_ulen c <= SSIZE_MAX) (h_chunks h).
Proof. exact parse_impl_count_starts. Qed.
Print Assumptions C13_count_and_starts.

(** T3.1 (shared with C03) for arbitrary bytes no read leaves its allocation and no loop
    runs out of the fuel the model gives it. *)
Theorem C13_total : forall (H : N -> bytes -> bytes) p f,
  parse_impl H p f <> POOB /\ parse_impl H p f <> PFuel.
Proof. exact parse_impl_total. Qed.
Print Assumptions C13_total.

(** T13.1 converse: every file the format specification accepts is accepted by the model of
    the reader (without pins) with the same record; no extra hypothesis is needed. *)
Theorem C13_spec_implies_impl : forall (H : N -> bytes -> bytes) f h,
  wf_bytes f -> parse_spec H f = Some h -> parse_impl H no_pins f = POk h.
Proof. exact parse_spec_implies_impl. Qed.
Print Assumptions C13_spec_implies_impl.

(** Exact decision: the model accepts exactly the files of the specification, with the same
    record, and refuses all others with a clean error. *)
Theorem C13_decides : forall (H : N -> bytes -> bytes) f,
  wf_bytes f ->
  parse_impl H no_pins f = match parse_spec H f with Some h => POk h | None => PErr end.
Proof. exact parse_impl_decides. Qed.
Print Assumptions C13_decides.

(** Non-vacuity: two concrete sealed headers are accepted (hypotheses satisfiable), the
    second with optional elements, uncompressed digests and a two-byte size. *)
Example C13_ex_plain :
  wf_bytes ex1_file /\ len ex1_file = 81 /\
  parse_impl toyH no_pins ex1_file = POk ex1_header /\ parse_spec toyH ex1_file = Some ex1_header /\
  length (h_chunks ex1_header) = 2%nat.
Proof. split; [apply wf_bytesb_spec|]; vm_compute; repeat split; reflexivity. Qed.
Example C13_ex_flags :
  wf_bytes ex2_file /\ len ex2_file = 122 /\
  parse_impl toyH no_pins ex2_file = POk ex2_header /\ parse_spec toyH ex2_file = Some ex2_header /\
  length (h_chunks ex2_header) = 2%nat.
Proof. split; [apply wf_bytesb_spec|]; vm_compute; repeat split; reflexivity. Qed.
(** an entry that crosses the end of the index is refused by both (index size 37 instead of 38) *)
Example C13_ex_index_overrun :
  let hdr := bseq 1 16 ++ [128; 128; 165] ++
             ([131; 130] ++ bseq 17 16 ++ [133; 133] ++ bseq 33 16 ++ [135; 137]) ++ [128] in
  let f := magic_zck ++ [131; 186] ++ toyH 3 (magic_zck ++ [131; 186] ++ hdr) ++ hdr in
  parse_impl toyH no_pins f = PErr /\ parse_spec toyH f = None.
Proof. vm_compute. split; reflexivity. Qed.
