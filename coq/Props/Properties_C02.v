(** C02 — no silent corruption: a successful open / read to end of stream / close delivers
    exactly the content the specification decoder obtains from the file, with every
    checksum matching.  Only statements; every proof is [exact lemma].
    Scope of the proofs: both compression types (zstd: chunks decoded as a unit, invariant
    in Read/ReadProofs.v; type 0: bytes released before the chunk checksum is known, invariant
    in Read/ReadNocomp.v), with and without dictionary, with and without the
    uncompressed-source flag; for EVERY byte sequence, hash function, zstd decoder,
    buffer-size sequence and loop fuel.  The [_zstd] theorems are kept for the files that
    import them; the unrestricted ones follow them. *)
From ZV Require Import Base.Bytes Gen.GenConsts Format.Compint Format.Header Format.ParseImpl Format.ParseProofs
                       Format.ParseExamples Read.ReadSpec Read.CompRead Read.ReadLemmas Read.ReadProofs Read.ReadNocomp Read.ReadComplete Read.ReadRequest
                       Read.ReadExamples.
Local Open Scope N_scope.

(** T2.1 whatever the bytes [f], the hash [H], the decoder [zdecomp], the buffer sizes and the
    fuel: if the file opens, a sequence of reads with non-empty buffers ends with a read
    returning 0, and close succeeds, then the specification verifies the file and the bytes
    handed out are exactly its decoded content. *)
Theorem C02_read_close_success_is_verified_content_zstd :
  forall (H : N -> bytes -> bytes) (zdecomp : option bytes -> bytes -> N -> option bytes) p f h fuel sizes out st' st2,
  wf_bytes f -> parse_impl H p f = POk h -> is_zstd h = true ->
  Forall (fun n => 0 < n) sizes ->
  read_all H zdecomp h fuel (open_state h f) sizes [] = (out, Some true, st') ->
  zck_close H h st' = (true, st2) ->
  spec_verify H h f = true /\ spec_decode zdecomp h f = Some out.
Proof.
  intros H zdecomp p f h fuel sizes out st' st2 Hwf Hp Hz.
  destruct (header_facts H p f h Hwf Hp) as (A & B & C).
  exact (read_close_zstd H zdecomp h f A B Hz C fuel sizes out st' st2).
Qed.
Print Assumptions C02_read_close_success_is_verified_content_zstd.

(** T2.2 success implies that every chunk decoded to exactly its declared size (both
    compression types: this half is a property of the specification decoder). *)
Theorem C02_declared_sizes :
  forall (zdecomp : option bytes -> bytes -> N -> option bytes) h f out,
  spec_decode zdecomp h f = Some out ->
  exists dict, spec_dict zdecomp h (body h f) = Some dict /\
  Forall (fun c => exists d, decode_chunk zdecomp (is_zstd h) dict c (stored (body h f) c) = Some d /\
                             (if is_zstd h then len d = c_ulen c else c_ulen c = c_clen c /\ d = stored (body h f) c))
         (tl (h_chunks h)).
Proof.
  intros zdecomp h f out E. unfold spec_decode in E.
  destruct (spec_dict zdecomp h (body h f)) as [dict|]; [|discriminate].
  exists dict. split; [reflexivity|]. exact (decode_all_sizes _ _ _ _ _ _ E).
Qed.
Print Assumptions C02_declared_sizes.

(** T2.3 the unzck main loop (validate the data checksum, read 32 KiB blocks until 0,
    close; the output file is removed on any failure): exit status 0 implies that the output
    file is the verified content.  [vdc] = zck_validate_data_checksum, owned by property
    C09; the only thing used is that it leaves the freshly opened context as it was when it
    reports success. *)
Theorem C02_unzck_exit0_output_zstd :
  forall (H : N -> bytes -> bytes) (zdecomp : option bytes -> bytes -> N -> option bytes) p f h fuel calls vdc out,
  wf_bytes f -> parse_impl H p f = POk h -> is_zstd h = true ->
  (forall v st', vdc (open_state h f) = (v, st') -> (1 <= v)%Z -> st' = open_state h f) ->
  unzck_model H zdecomp h f fuel calls vdc = (0, Some out) ->
  spec_verify H h f = true /\ spec_decode zdecomp h f = Some out.
Proof.
  intros H zdecomp p f h fuel calls vdc out Hwf Hp Hz.
  destruct (header_facts H p f h Hwf Hp) as (A & B & C).
  exact (unzck_zstd H zdecomp h f A B Hz C fuel calls vdc out).
Qed.
Print Assumptions C02_unzck_exit0_output_zstd.

(** T2.1 for both compression types (the header layer accepts no other type). *)
Theorem C02_read_close_success_is_verified_content :
  forall (H : N -> bytes -> bytes) (zdecomp : option bytes -> bytes -> N -> option bytes) p f h fuel sizes out st' st2,
  wf_bytes f -> parse_impl H p f = POk h ->
  Forall (fun n => 0 < n) sizes ->
  read_all H zdecomp h fuel (open_state h f) sizes [] = (out, Some true, st') ->
  zck_close H h st' = (true, st2) ->
  spec_verify H h f = true /\ spec_decode zdecomp h f = Some out.
Proof.
  intros H zdecomp p f h fuel sizes out st' st2 Hwf Hp.
  destruct (header_facts H p f h Hwf Hp) as (A & B & C).
  destruct (is_zstd h) eqn:Hz.
  - exact (read_close_zstd H zdecomp h f A B Hz C fuel sizes out st' st2).
  - exact (read_close_nocomp H zdecomp h f A B Hz C fuel sizes out st' st2).
Qed.
Print Assumptions C02_read_close_success_is_verified_content.

(** T2.3 for both compression types. *)
Theorem C02_unzck_exit0_output :
  forall (H : N -> bytes -> bytes) (zdecomp : option bytes -> bytes -> N -> option bytes) p f h fuel calls vdc out,
  wf_bytes f -> parse_impl H p f = POk h ->
  (forall v st', vdc (open_state h f) = (v, st') -> (1 <= v)%Z -> st' = open_state h f) ->
  unzck_model H zdecomp h f fuel calls vdc = (0, Some out) ->
  spec_verify H h f = true /\ spec_decode zdecomp h f = Some out.
Proof.
  intros H zdecomp p f h fuel calls vdc out Hwf Hp.
  destruct (header_facts H p f h Hwf Hp) as (A & B & C).
  destruct (is_zstd h) eqn:Hz.
  - exact (unzck_zstd H zdecomp h f A B Hz C fuel calls vdc out).
  - exact (unzck_nocomp H zdecomp h f A B Hz C fuel calls vdc out).
Qed.
Print Assumptions C02_unzck_exit0_output.

(** a non-zero exit status leaves no output file (the model's rendering of unlink) *)
Theorem C02_unzck_failure_no_output :
  forall (H : N -> bytes -> bytes) zdecomp h f fuel calls vdc st o,
  unzck_model H zdecomp h f fuel calls vdc = (st, o) -> st <> 0 -> o = None.
Proof.
  intros H zdecomp h f fuel calls vdc st o E Hs. unfold unzck_model in E.
  destruct (vdc (open_state h f)) as [v st1]. destruct (v <? 1)%Z; [congruence|].
  destruct (read_all H zdecomp h fuel st1 (repeat BUF_SIZE calls) []) as [[x [[|]|]] st2]; try congruence.
  destruct (zck_close H h st2) as [[|] st3]; congruence.
Qed.
Print Assumptions C02_unzck_failure_no_output.

(** Reader completeness (the converse of T2.1, used by the round trip of property C01):
    a file that the specification verifies and decodes to [D] is read back as [D] under EVERY
    sequence of non-empty buffer sizes: no call fails; once a call has returned 0 the bytes
    handed out are exactly [D] and zck_close returns true; a call returns 0 as soon as more
    than [len D] reads have been issued.  Both compression types, with and without
    dictionary, with and without the uncompressed-source flag; fuel [fuel_bound] =
    3 * body length + 2 * entries + 1 loop iterations per call.  No further side condition. *)
Theorem C02_valid_file_reads_back :
  forall (H : N -> bytes -> bytes) (zdecomp : option bytes -> bytes -> N -> option bytes) p f h D fuel sizes,
  wf_bytes f -> parse_impl H p f = POk h ->
  spec_verify H h f = true -> spec_decode zdecomp h f = Some D ->
  (fuel_bound h f <= fuel)%nat -> Forall (fun n => 0 < n) sizes ->
  match read_all H zdecomp h fuel (open_state h f) sizes [] with
  | (out, e, st') =>
      e <> Some false /\
      (e = Some true -> out = D /\ fst (zck_close H h st') = true) /\
      (len D < N.of_nat (length sizes) -> e = Some true)
  end.
Proof.
  intros H zdecomp p f h D fuel sizes Hwf Hp.
  destruct (header_facts H p f h Hwf Hp) as (A & B & C).
  exact (read_complete H zdecomp h f D fuel sizes A B C).
Qed.
Print Assumptions C02_valid_file_reads_back.

(** The chunk-request API on ARBITRARY files: whatever the bytes of the file, whatever was
    requested before (data requests with any buffer sizes, stored-data requests, failed
    requests), if zck_get_chunk_data of entry k with a buffer of at least the declared size
    succeeds then the stored bytes of that entry match its index checksum ([digest_ok]: what
    validate_chunk decides) and the first [declared size] bytes returned are the content the
    specification decodes from that entry ([spec_chunk_content]: needs only the entry and, for
    zstd entries of a file with a dictionary, the decoded dictionary entry) - both compression
    types.  (A larger buffer also receives the beginning of the following entries, as the API
    always did; with a buffer of exactly the declared size the whole result is that content.) *)
Theorem C02_chunk_request_success_is_verified_content :
  forall (H : N -> bytes -> bytes) (zdecomp : option bytes -> bytes -> N -> option bytes) p f h fuel l,
  wf_bytes f -> parse_impl H p f = POk h ->
  ~ In RFuel (run_greqs H zdecomp h f fuel (open_state h f) l) ->
  Forall2 (greq_sound H zdecomp h f) l (run_greqs H zdecomp h f fuel (open_state h f) l).
Proof.
  intros H zdecomp p f h fuel l Hwf Hp.
  destruct (header_facts H p f h Hwf Hp) as (A & B & C).
  exact (run_greqs_sound H zdecomp h f A B fuel l (open_state h f) (open_DI H zdecomp h f B)).
Qed.
Print Assumptions C02_chunk_request_success_is_verified_content.

(** the same for one request on any context reached that way *)
Theorem C02_chunk_request_one :
  forall (H : N -> bytes -> bytes) (zdecomp : option bytes -> bytes -> N -> option bytes) p f h fuel st k n c next o st',
  wf_bytes f -> parse_impl H p f = POk h ->
  DI H zdecomp h f st -> skipn k (h_chunks h) = c :: next ->
  zck_get_chunk_data H zdecomp h f fuel st k n = (ROk o, st') ->
  DI H zdecomp h f st' /\
  (0 < c_ulen c -> c_ulen c <= n ->
     digest_ok H h f c /\ spec_chunk_content zdecomp h f k = Some (takeN (c_ulen c) o)).
Proof.
  intros H zdecomp p f h fuel st k n c next o st' Hwf Hp.
  destruct (header_facts H p f h Hwf Hp) as (A & B & C).
  exact (gcd_sound H zdecomp h f A B fuel st k n c next o st').
Qed.
Print Assumptions C02_chunk_request_one.

(** Non-vacuity: a concrete sealed three-chunk file is read to the end and closed with
    success, with 2-byte buffers (zstd type) and with mixed buffers (uncompressed type);
    the same file with one stored byte changed is refused. *)
Example C02_ex_success :
  ex_session exz_file [2; 2; 2; 2; 2; 2; 2] = Some ([1; 2; 3; 4; 5; 6; 7; 8; 9], Some true, true) /\
  ex_session exn_file [4; 1; 32768; 7] = Some ([1; 2; 3; 4; 5; 6; 7; 8; 9], Some true, true) /\
  option_map (fun h => (is_zstd h, spec_verify toyH h exz_file, spec_decode toyZ h exz_file)) (hdr_of exz_file)
    = Some (true, true, Some [1; 2; 3; 4; 5; 6; 7; 8; 9]).
Proof. vm_compute. repeat split; reflexivity. Qed.
Example C02_ex_corrupted_refused :
  ex_session exz_bad [2; 2; 2; 2; 2; 2; 2] = Some ([1; 2], Some false, false) /\
  option_map (fun h => spec_verify toyH h exz_bad) (hdr_of exz_bad) = Some false.
Proof. vm_compute. split; reflexivity. Qed.

(** Non-vacuity of the request theorem and the witness of the defect it answers: on the
    uncompressed example file with one stored byte of chunk 2 changed, a request for chunk 2
    with a buffer of exactly its size now FAILS (and the intact chunks are still served),
    whereas the function as it was before the fix returned the corrupted bytes with success
    although the chunk checksum does not match. *)
Example C02_ex_chunk_request :
  option_map (fun h => ex_requests h exn_bad (open_state h exn_bad) [2]%nat) (hdr_of exn_bad) = Some [RErr (-1)] /\
  option_map (fun h => ex_requests h exn_bad (open_state h exn_bad) [1; 3]%nat) (hdr_of exn_bad)
    = Some [ROk [1; 2; 3]; ROk [6; 7; 8; 9]] /\
  option_map (fun h => ex_requests h exn_file (open_state h exn_file) [2; 2]%nat) (hdr_of exn_file)
    = Some [ROk [4; 5]; ROk [4; 5]] /\
  option_map (fun h => spec_chunk_content toyZ h exn_file 2) (hdr_of exn_file) = Some (Some [4; 5]).
Proof. vm_compute. repeat split; reflexivity. Qed.
Example C02_chunk_request_before_fix_refuted :
  option_map (fun h => fst (zck_get_chunk_data_before_fix toyH toyZ h exn_bad 100 (open_state h exn_bad) 2 2)) (hdr_of exn_bad)
    = Some (ROk [44; 5]) /\
  option_map (fun h => match skipn 2 (h_chunks h) with
                       | c :: _ => bytes_eqb (toyH (h_chash h) (stored (body h exn_bad) c)) (c_digest c)
                       | [] => true end) (hdr_of exn_bad) = Some false.
Proof. vm_compute. split; reflexivity. Qed.
