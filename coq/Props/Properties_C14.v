(** C14 — random access returns each chunk's exact data regardless of request history.
    Only statements; every proof is [exact lemma].
    Scope of the proofs: [C14_request_sequence] covers both compression types, files with
    and without dictionary chunk (the first data request imports the dictionary), every
    sequence of data / stored-data requests, every hash and decoder.  The earlier
    [C14_request_sequence_zstd_nodict_partial] is kept for the files that import it. *)
From ZV Require Import Base.Bytes Gen.GenConsts Format.Compint Format.Header Format.ParseImpl Format.ParseProofs
                       Format.ParseExamples Read.ReadSpec Read.CompRead Read.ReadLemmas Read.ReadProofs
                       Read.ReadAccess Read.ReadAccess2 Read.ReadExamples.
Local Open Scope N_scope.

(** T14.1 for a file the specification verifies and decodes: whatever was requested before,
    in whatever order and however often, a data request with a buffer of the declared size
    returns exactly the decoded data of that entry ([req_result]: the decoder applied to the
    stored bytes, with the declared size), and a stored-data request returns exactly the
    stored bytes, whose hash is the index digest - including the last chunk and the first
    (dictionary) entry.  [fuel] only has to cover the largest stored chunk.
    The side condition on entries without stored bytes excludes tables that no real zstd
    stream satisfies (an empty frame cannot decode to a non-empty chunk). *)
Theorem C14_request_sequence_zstd_nodict_partial :
  forall (H : N -> bytes -> bytes) (zdecomp : option bytes -> bytes -> N -> option bytes) p f h fuel content rq,
  wf_bytes f -> parse_impl H p f = POk h -> is_zstd h = true -> first_ulen h = 0 ->
  spec_verify H h f = true -> spec_decode zdecomp h f = Some content ->
  (forall c, In c (h_chunks h) -> c_clen c = 0 -> c_ulen c = 0) ->
  (forall c, In c (h_chunks h) -> (N.to_nat (c_clen c) + 3 <= fuel)%nat) ->
  Forall (req_valid h) rq ->
  Forall2 (req_result H zdecomp h f) rq (run_reqs H zdecomp h f fuel (open_state h f) rq).
Proof.
  intros H zdecomp p f h fuel content rq Hwf Hp Hz Hfu Hv Hd Hph Hfuel Hval.
  destruct (header_facts H p f h Hwf Hp) as (A & B & C).
  destruct (open_Rdy h f) as [R1 R2].
  exact (requests_zstd_nodict H zdecomp h f Hz fuel content B Hfu Hv Hd Hph Hfuel rq _ Hval R1 R2).
Qed.
Print Assumptions C14_request_sequence_zstd_nodict_partial.

(** T14.1 in full: both compression types, with and without dictionary.  For a file the
    specification verifies and decodes, every sequence of requests over entry numbers (data
    with a buffer of the declared size, stored data with a buffer of the stored size; any
    order, any repetition, the dictionary entry and the last chunk included) returns, for a
    data request, exactly [spec_chunk_data] of that entry - with its declared size - and for
    a stored-data request exactly the stored bytes, whose hash is the index digest.  The
    result of a request is a function of the entry alone, hence independent of the history.
    No side condition on the file: since zck_get_chunk_data starts the chunk checksum afresh
    for every request and finishes an uncompressed chunk that an exact-size buffer left open
    (checksum and size check before the data is accepted), even an entry without stored bytes
    that declares a size behaves the same on a fresh context as after any other request.
    [fuel] only has to cover the largest stored chunk + 4 loop iterations. *)
Theorem C14_request_sequence :
  forall (H : N -> bytes -> bytes) (zdecomp : option bytes -> bytes -> N -> option bytes) p f h fuel content rq,
  wf_bytes f -> parse_impl H p f = POk h ->
  spec_verify H h f = true -> spec_decode zdecomp h f = Some content ->
  (forall c, In c (h_chunks h) -> (N.to_nat (c_clen c) + 4 <= fuel)%nat) ->
  Forall (req_valid h) rq ->
  Forall2 (req_result_spec H zdecomp h f) rq (run_reqs H zdecomp h f fuel (open_state h f) rq).
Proof.
  intros H zdecomp p f h fuel content rq Hwf Hp Hv Hd Hfuel Hval.
  destruct (header_facts H p f h Hwf Hp) as (A & B & C).
  exact (requests_all H zdecomp h f content fuel A B Hv Hd Hfuel rq Hval).
Qed.
Print Assumptions C14_request_sequence.

(** Non-vacuity, and the other compression type on a concrete file: the same request
    sequence (last chunk first, repeats, back and forth) on the zstd-type and on the
    uncompressed example file returns each chunk's data every time. *)
Example C14_ex_sequences :
  option_map (fun h => ex_requests h exz_file (open_state h exz_file) [3; 1; 3; 2; 1; 1; 0; 3]%nat) (hdr_of exz_file)
    = Some [ROk [6; 7; 8; 9]; ROk [1; 2; 3]; ROk [6; 7; 8; 9]; ROk [4; 5]; ROk [1; 2; 3]; ROk [1; 2; 3]; ROk []; ROk [6; 7; 8; 9]] /\
  option_map (fun h => ex_requests h exn_file (open_state h exn_file) [3; 1; 3; 2; 1; 1; 0; 3]%nat) (hdr_of exn_file)
    = Some [ROk [6; 7; 8; 9]; ROk [1; 2; 3]; ROk [6; 7; 8; 9]; ROk [4; 5]; ROk [1; 2; 3]; ROk [1; 2; 3]; ROk []; ROk [6; 7; 8; 9]] /\
  option_map (fun h => run_reqs toyH toyZ h exz_file 100 (open_state h exz_file) [ReqStored 2; ReqData 2; ReqStored 3]) (hdr_of exz_file)
    = Some [ROk [4; 5]; ROk [4; 5]; ROk [6; 7; 8; 9]] /\
  option_map (fun h => (is_zstd h, first_ulen h, spec_verify toyH h exz_file)) (hdr_of exz_file) = Some (true, 0, true).
Proof. vm_compute. repeat split; reflexivity. Qed.
