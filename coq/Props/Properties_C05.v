(** C05 — range reassembly is fragmentation-independent, verified and confined.
    Only statements; every proof is [exact lemma].  [H] (chunk hash), [rx_comp]/[rx_exec]
    (POSIX regcomp/regexec) are universally quantified: no property of the hash or of the
    regex engine is assumed here.  Models: Dl/DlWrite.v ([dlw] = dl_write_range),
    Dl/Multipart.v ([mpx] = multipart_extract).

    Multipart responses: the theorems C05_mp_* / C05_transfer are about the model with the regex
    oracle instantiated by Dl/LiteralMatcher.v ([lit_exec]: the meaning of the three patterns
    zchunk builds, written as list functions).  That glibc's regexec computes the same function
    is not proved; it is compared on every (pattern, string) pair of every correspondence run
    and on 20 000 / 300 000 generated strings (tools/props/c05.py).  The grammar of well-formed
    bodies is Dl/MpGrammar.v; restrictions: boundary and extra header lines without CR/LF/NUL,
    no "content-range:" in header lines AFTER the Content-Range line (the LAST occurrence wins
    in the pattern), payload bytes arbitrary (boundary strings, CRLFCRLF, NUL allowed: the
    payload is cut out by length). *)
From ZV Require Import Base.Bytes Dl.DlWrite Dl.Multipart Dl.FileLemmas Dl.DlProofs Dl.MpStream
  Dl.DlInv Dl.DlPlace Dl.C05Final Dl.LiteralMatcher Dl.MpGrammar Dl.MpSafe Dl.LiteralProofs Dl.MpPlace Dl.MpFinal Dl.Session Dl.SessionProofs.
Local Open Scope N_scope.

(** the recursion of dl_write_range always terminates within its fuel *)
Theorem C05_total : forall H doff ridx s bs, snd (dlw H doff ridx s bs) <> DFuel.
Proof. exact dlw_total. Qed.
Print Assumptions C05_total.

(** T5.1 (dl_write_range): a call on [a ++ b] is a call on [a] followed by a call on [b]:
    same state (file, flags, cursors), byte counts add up.  Needs non-empty pieces and a
    range index without zero-length entries (see C05_streaming_refuted_zero_length). *)
Theorem C05_streaming_dlw : forall H doff ridx,
  nz_ridx ridx ->
  forall s a b s' n, a <> [] -> b <> [] ->
  dlw H doff ridx s a = (s', DOk n) ->
  dlw H doff ridx s (a ++ b) = (let (s'', r) := dlw H doff ridx s' b in (s'', dcomb n r)).
Proof. exact dlw_app. Qed.
Print Assumptions C05_streaming_dlw.

(** T5.1 (multipart_extract): for every regex oracle, every state, every cut — inside a part
    header, inside the data, between parts: after a first invocation that returned normally,
    the second invocation ends exactly (state incl. carried buffer, file, flags, status) like
    the single invocation on the concatenation. *)
Theorem C05_streaming_mpx : forall H doff ridx rx_comp rx_exec,
  nz_ridx ridx ->
  forall x a b x1, a <> [] -> b <> [] ->
  mpx H doff ridx rx_comp rx_exec x a = (x1, MOk) -> d_err (x_dl x1) = false ->
  mpx H doff ridx rx_comp rx_exec x (a ++ b) = mpx H doff ridx rx_comp rx_exec x1 b.
Proof. exact mpx_app_nz. Qed.
Print Assumptions C05_streaming_mpx.

(** ... hence for every partition into any number of non-empty invocations *)
Theorem C05_streaming_mpx_any_partition : forall H doff ridx rx_comp rx_exec,
  nz_ridx ridx ->
  forall frags x r, mp_chain H doff ridx rx_comp rx_exec x frags r ->
  Forall (fun f => f <> []) frags ->
  mpx H doff ridx rx_comp rx_exec x (concat frags) = r.
Proof. exact mpx_any_partition. Qed.
Print Assumptions C05_streaming_mpx_any_partition.

(** T5.2: the payload of a well-formed response (stored bytes of the requested chunks in
    request order, each hashing to its digest) leaves every requested chunk at its offset,
    marked valid; every byte is consumed; other chunks' flags are untouched. *)
Theorem C05_placement : forall H doff ridx tab0 datas fpos file s',
  req_ok doff ridx tab0 -> datas_ok H ridx tab0 datas ->
  fst (dlw H doff ridx (init fpos file tab0) (concat datas)) = s' ->
  snd (dlw H doff ridx (init fpos file tab0) (concat datas)) = DOk (len (concat datas)) /\
  (forall k e d c, nth_error ridx k = Some e -> nth_error datas k = Some d ->
      nth_error tab0 (r_tgt e) = Some c ->
      (exists c', nth_error (d_tab s') (r_tgt e) = Some c' /\ c_valid c' = VValid) /\
      fread (d_file s') (doff + c_start c) (length d) = d) /\
  (forall t, ~ In t (map r_tgt ridx) -> nth_error (d_tab s') t = nth_error tab0 t).
Proof. exact dlw_place_oneshot. Qed.
Print Assumptions C05_placement.

(** ... and every partition of that payload into non-empty invocations, down to one byte per
    call, reports success at every call and ends in the very same state. *)
Theorem C05_any_partition : forall H doff ridx tab0 datas fpos file frags,
  req_ok doff ridx tab0 -> datas_ok H ridx tab0 datas ->
  Forall (fun fr => fr <> []) frags -> concat frags = concat datas ->
  feed H doff ridx (init fpos file tab0) frags =
  (fst (dlw H doff ridx (init fpos file tab0) (concat datas)), true).
Proof. exact dlw_place_any_partition. Qed.
Print Assumptions C05_any_partition.

(** T5.4 confinement, for ARBITRARY input bytes: whatever is fed, every byte outside the
    extents of the requested chunks that were not valid is unchanged, and the state invariant
    (table shape, valid chunks stay valid, write window inside the current target) persists. *)
Theorem C05_confinement : forall H doff ridx tab0 s bs s' r,
  dl_wf doff ridx tab0 s -> dlw H doff ridx s bs = (s', r) ->
  dl_wf doff ridx tab0 s' /\
  (forall x, (forall t c, nth_error tab0 t = Some c -> fillable ridx tab0 t -> ~ DlInv.in_ext doff c x) ->
             fget (d_file s') x = fget (d_file s) x).
Proof. exact dlw_confined. Qed.
Print Assumptions C05_confinement.

Theorem C05_confinement_init : forall doff ridx tab0 fpos file,
  dl_wf doff ridx tab0 (mkDl false 0 0 None None None fpos file tab0).
Proof. exact dl_wf_init. Qed.
Print Assumptions C05_confinement_init.

(** already-valid chunks keep their flag and their bytes (chunk extents pairwise disjoint) *)
Theorem C05_valid_chunks_untouched : forall H doff ridx tab0 s bs s' r t c,
  DlInv.disjoint_tab doff tab0 -> dl_wf doff ridx tab0 s -> dlw H doff ridx s bs = (s', r) ->
  nth_error tab0 t = Some c -> c_valid c = VValid ->
  (exists c', nth_error (d_tab s') t = Some c' /\ c_valid c' = VValid /\
              c_start c' = c_start c /\ c_len c' = c_len c /\ c_digest c' = c_digest c) /\
  fread (d_file s') (doff + c_start c) (N.to_nat (c_len c)) =
  fread (d_file s) (doff + c_start c) (N.to_nat (c_len c)).
Proof. exact dlw_valid_kept_disjoint. Qed.
Print Assumptions C05_valid_chunks_untouched.

(** T5.3 verification, for arbitrary input: every chunk the download marked valid hashes to
    its digest in the file as it is after the call (invariant, composes over calls). *)
Theorem C05_verified : forall H doff ridx tab0 s bs s' r,
  DlInv.disjoint_tab doff tab0 -> dl_wf2 doff ridx tab0 s -> verified H doff tab0 s ->
  dlw H doff ridx s bs = (s', r) ->
  dl_wf2 doff ridx tab0 s' /\ verified H doff tab0 s'.
Proof. exact dlw_verified. Qed.
Print Assumptions C05_verified.

Theorem C05_verified_init : forall H doff ridx tab0 fpos file,
  dl_wf2 doff ridx tab0 (mkDl false 0 0 None None None fpos file tab0) /\
  verified H doff tab0 (mkDl false 0 0 None None None fpos file tab0).
Proof. exact (fun H doff ridx tab0 fpos file =>
  conj (dl_wf2_init doff ridx tab0 fpos file) (verified_init H doff tab0 fpos file)). Qed.
Print Assumptions C05_verified_init.

(** a failure that is not an API error is a checksum mismatch: the chunk being filled is
    marked failed and its whole extent is zero *)
Theorem C05_mismatch_zeroed : forall H doff ridx s bs s',
  dlw H doff ridx s bs = (s', DFail) -> d_err s' = false ->
  exists t c, d_tgt s' = Some t /\ nth_error (d_tab s') t = Some c /\ c_valid c = VFailed /\
    fread (d_file s') (doff + c_start c) (N.to_nat (c_len c)) = repeat 0 (N.to_nat (c_len c)).
Proof. exact dlw_fail_zeroed_gen. Qed.
Print Assumptions C05_mismatch_zeroed.

(** * Multipart responses with the literal matcher *)

(** the literal matcher recognises the patterns the model builds, and obeys the regexec
    contract of C17 (so the safety theorems apply to it) *)
Theorem C05_lit_decodes_next : forall B str, lit_exec (pat_next B) str = next_match B str.
Proof. exact lit_exec_next. Qed.
Print Assumptions C05_lit_decodes_next.

Theorem C05_lit_contract : rx_contract lit_exec.
Proof. exact lit_contract. Qed.
Print Assumptions C05_lit_contract.

(** on the header string of a well-formed part the part-header pattern yields exactly the two
    digit strings of the Content-Range line *)
Theorem C05_lit_finds_range : forall B p rest,
  boundary_ok B -> part_hdr_ok p ->
  exists so1 eo1 so2 eo2,
    next_match B (hstr B p) = Some ((so1, eo1), (so2, eo2)) /\
    take_exact (hstr B p ++ rest) so1 (eo1 - so1) = Some (p_da p) /\
    take_exact (hstr B p ++ rest) so2 (eo2 - so2) = Some (p_db p).
Proof. exact next_match_wf. Qed.
Print Assumptions C05_lit_finds_range.

(** the C digit loop computes the decimal value (below 2^64) *)
Theorem C05_parse_dec_value : forall d,
  Forall (fun c => is_dg c = true) d -> dec_value d < two64 -> parse_dec d = dec_value d.
Proof. exact parse_dec_value. Qed.
Print Assumptions C05_parse_dec_value.

(** the header callback stores the boundary of a Content-Type line, quoted or not *)
Theorem C05_header_boundary : forall x pre B quoted,
  d_err (x_dl x) = false ->
  Forall (fun c => c <> 0) pre ->
  (forall k, (k < length pre)%nat -> prefix_ic kw_boundary (skipn k (pre ++ kw_boundary)) = false) ->
  Forall (fun c => c <> 0 /\ c <> 13) B -> B <> [] ->
  (quoted = false -> hd 0 B <> 32 /\ hd 0 B <> 34) ->
  len (ct_line pre B quoted) < two64 ->
  header_cb lit_comp lit_exec x (ct_line pre B quoted) =
    mkX (x_dl x) (mkMp false 0 []) (Some B) (x_rx x).
Proof. exact header_cb_lit. Qed.
Print Assumptions C05_header_boundary.

(** T5.2 multipart: every non-empty prefix of a well-formed body is accepted in one call; the
    whole body leaves the chunk writer in the state of the single call on the payload *)
Theorem C05_mp_prefix : forall H doff ridx tab0 datas B parts fpos file p q,
  req_ok doff ridx tab0 -> datas_ok H ridx tab0 datas -> wf_body B parts datas ->
  p <> [] -> p ++ q = mp_body B parts ->
  exists x', mpx H doff ridx lit_comp lit_exec (x_init B fpos file tab0) p = (x', MOk) /\
    d_err (x_dl x') = false /\
    (q = [] -> x_dl x' = fst (dlw H doff ridx (init fpos file tab0) (concat datas))).
Proof. exact mp_prefix_lit. Qed.
Print Assumptions C05_mp_prefix.

(** ... for EVERY partition of the body into non-empty callback invocations all callbacks
    succeed and the final state is that of the single dl_write_range call on the payload *)
Theorem C05_mp_any_partition : forall H doff ridx tab0 datas B parts fpos file frags,
  req_ok doff ridx tab0 -> datas_ok H ridx tab0 datas -> wf_body B parts datas ->
  Forall (fun fr => fr <> []) frags -> concat frags = mp_body B parts ->
  exists x' rets,
    feed_frags H doff ridx lit_comp lit_exec (x_init B fpos file tab0) frags = (x', rets, true) /\
    x_dl x' = fst (dlw H doff ridx (init fpos file tab0) (concat datas)).
Proof. exact mp_place_any_partition_lit. Qed.
Print Assumptions C05_mp_any_partition.

(** ... hence every requested chunk is at its offset and valid, other flags untouched *)
Theorem C05_mp_placement : forall H doff ridx tab0 datas B parts fpos file frags x' rets,
  req_ok doff ridx tab0 -> datas_ok H ridx tab0 datas -> wf_body B parts datas ->
  Forall (fun fr => fr <> []) frags -> concat frags = mp_body B parts ->
  feed_frags H doff ridx lit_comp lit_exec (x_init B fpos file tab0) frags = (x', rets, true) ->
  (forall k e d c, nth_error ridx k = Some e -> nth_error datas k = Some d ->
      nth_error tab0 (r_tgt e) = Some c ->
      (exists c', nth_error (d_tab (x_dl x')) (r_tgt e) = Some c' /\ c_valid c' = VValid) /\
      fread (d_file (x_dl x')) (doff + c_start c) (length d) = d) /\
  (forall t, ~ In t (map r_tgt ridx) -> nth_error (d_tab (x_dl x')) t = nth_error tab0 t).
Proof. exact mp_place_lit. Qed.
Print Assumptions C05_mp_placement.

(** the whole transfer through the two callbacks: Content-Type header line, then the body in
    any fragmentation *)
Theorem C05_transfer : forall H doff ridx tab0 datas B parts fpos file pre quoted frags,
  req_ok doff ridx tab0 -> datas_ok H ridx tab0 datas -> wf_body B parts datas ->
  Forall (fun c => c <> 0) pre ->
  (forall k, (k < length pre)%nat -> prefix_ic kw_boundary (skipn k (pre ++ kw_boundary)) = false) ->
  B <> [] -> (quoted = false -> hd 0 B <> 32 /\ hd 0 B <> 34) -> len (ct_line pre B quoted) < two64 ->
  Forall (fun fr => fr <> []) frags -> concat frags = mp_body B parts ->
  exists x' rets,
    feed_frags H doff ridx lit_comp lit_exec
      (header_cb lit_comp lit_exec (x_start fpos file tab0) (ct_line pre B quoted)) frags = (x', rets, true) /\
    (forall k e d c, nth_error ridx k = Some e -> nth_error datas k = Some d ->
        nth_error tab0 (r_tgt e) = Some c ->
        (exists c', nth_error (d_tab (x_dl x')) (r_tgt e) = Some c' /\ c_valid c' = VValid) /\
        fread (d_file (x_dl x')) (doff + c_start c) (length d) = d) /\
    (forall t, ~ In t (map r_tgt ridx) -> nth_error (d_tab (x_dl x')) t = nth_error tab0 t).
Proof. exact transfer_lit. Qed.
Print Assumptions C05_transfer.

(** non-vacuity of the multipart theorems: [FinalExample.ex_wf], [ex_req], [ex_datas], [ex_run],
    [ex_transfer] in Dl/MpFinal.v (a two-part body with extra header lines, upper-case
    keyword, double spaces, payload containing CR LF NUL; whole, byte-wise, uneven, quoted). *)

(** * Sessions: several transfers on one zckDL (broken transfer -> zck_dl_reset -> retry)

    [Dl/Session.v]: [dl_reset] transcribes zck_dl_reset field by field, [missing_ridx] is the
    range index zck_get_missing_range builds from the current flags, [run_transfer] = reset,
    new range, header lines, body fragments (the list may stop anywhere), [session] = any
    number of transfers.  [sess_inv tab0 file0 x] (SessionProofs.v) is the C05 conclusion
    relative to the table and file the session started with: same table shape; a flag never
    returns to "unknown"; valid chunks stay valid; every chunk marked valid during the session
    hashes to its digest in the file as it is now; every byte outside the extents of the
    initially missing chunks is that of the initial file. *)

(** the reset lemma: whatever a (broken) transfer left behind, after zck_dl_reset the state
    meets the initial-state hypotheses of the single-transfer theorems for the table as it is
    now and the freshly computed request *)
Theorem C05_reset_reestablishes : forall H doff x,
  let s := x_dl (dl_reset x) in
  dl_wf2 doff (missing_ridx (d_tab s)) (d_tab s) s /\ verified H doff (d_tab s) s.
Proof. exact reset_wf. Qed.
Print Assumptions C05_reset_reestablishes.

Theorem C05_reset_clears : forall x,
  d_pos (x_dl (dl_reset x)) = 0 /\ d_wic (x_dl (dl_reset x)) = 0 /\
  d_tgt (x_dl (dl_reset x)) = None /\ d_cur (x_dl (dl_reset x)) = None /\
  x_mp (dl_reset x) = mkMp false 0 [] /\ x_boundary (dl_reset x) = None /\ x_rx (dl_reset x) = None.
Proof. exact dl_reset_clears. Qed.
Print Assumptions C05_reset_clears.

(** for EVERY session — arbitrary header lines and body bytes, transfers cut anywhere, any
    number of them, every regex oracle — the C05 conclusion holds at the end *)
Theorem C05_session : forall H doff rx_comp rx_exec tab0 file0 ts x,
  DlInv.disjoint_tab doff tab0 -> sess_inv H doff tab0 file0 x ->
  sess_inv H doff tab0 file0 (session H doff rx_comp rx_exec x ts).
Proof. exact session_inv. Qed.
Print Assumptions C05_session.

Theorem C05_session_start : forall H doff tab0 file0 fpos mp b rx,
  sess_inv H doff tab0 file0 (mkX (mkDl false 0 0 None None None fpos file0 tab0) mp b rx).
Proof. exact sess_inv_start. Qed.
Print Assumptions C05_session_start.

Theorem C05_session_valid_untouched : forall H doff rx_comp rx_exec tab0 file0 ts x t c,
  DlInv.disjoint_tab doff tab0 -> sess_inv H doff tab0 file0 x ->
  nth_error tab0 t = Some c -> c_valid c = VValid ->
  let s := x_dl (session H doff rx_comp rx_exec x ts) in
  (exists c', nth_error (d_tab s) t = Some c' /\ c_valid c' = VValid /\
              c_start c' = c_start c /\ c_len c' = c_len c /\ c_digest c' = c_digest c) /\
  fread (d_file s) (doff + c_start c) (N.to_nat (c_len c)) =
  fread file0 (doff + c_start c) (N.to_nat (c_len c)).
Proof. exact session_valid_untouched. Qed.
Print Assumptions C05_session_valid_untouched.

(** retry after ANY earlier session that set no error: the complete single-range response for
    what is missing now, in any fragmentation, fills and validates every missing chunk (final
    flags right), and the session invariant still holds *)
Theorem C05_retry_plain : forall H doff rx_comp rx_exec tab0 file0 ts x0 datas frags,
  DlInv.disjoint_tab doff tab0 -> sess_inv H doff tab0 file0 x0 ->
  let x := session H doff rx_comp rx_exec x0 ts in
  d_err (x_dl x) = false ->
  let tab := d_tab (x_dl x) in let ridx := missing_ridx tab in
  ridx <> [] -> datas_ok H ridx tab datas ->
  Forall (fun fr => fr <> []) frags -> concat frags = concat datas ->
  let x' := run_transfer H doff rx_comp rx_exec x (mkT [] frags) in
  (forall k e d c, nth_error ridx k = Some e -> nth_error datas k = Some d -> nth_error tab (r_tgt e) = Some c ->
      (exists c', nth_error (d_tab (x_dl x')) (r_tgt e) = Some c' /\ c_valid c' = VValid) /\
      fread (d_file (x_dl x')) (doff + c_start c) (length d) = d) /\
  (forall t, ~ In t (map r_tgt ridx) -> nth_error (d_tab (x_dl x')) t = nth_error tab t) /\
  sess_inv H doff tab0 file0 x'.
Proof. exact retry_after_session_plain. Qed.
Print Assumptions C05_retry_plain.

(** ... and the same for a well-formed multipart response (literal matcher) *)
Theorem C05_retry_multipart : forall H doff x datas B parts (pre : bytes) quoted frags,
  d_err (x_dl x) = false ->
  let tab := d_tab (x_dl x) in let ridx := missing_ridx tab in
  ridx <> [] -> DlInv.disjoint_tab doff tab -> datas_ok H ridx tab datas -> wf_body B parts datas ->
  Forall (fun c => c <> 0) pre ->
  (forall k, (k < length pre)%nat -> prefix_ic kw_boundary (skipn k (pre ++ kw_boundary)) = false) ->
  B <> [] -> (quoted = false -> hd 0 B <> 32 /\ hd 0 B <> 34) -> len (ct_line pre B quoted) < two64 ->
  Forall (fun fr => fr <> []) frags -> concat frags = mp_body B parts ->
  let x' := run_transfer H doff lit_comp lit_exec x (mkT [ct_line pre B quoted] frags) in
  (forall k e d c, nth_error ridx k = Some e -> nth_error datas k = Some d -> nth_error tab (r_tgt e) = Some c ->
      (exists c', nth_error (d_tab (x_dl x')) (r_tgt e) = Some c' /\ c_valid c' = VValid) /\
      fread (d_file (x_dl x')) (doff + c_start c) (length d) = d) /\
  (forall t, ~ In t (map r_tgt ridx) -> nth_error (d_tab (x_dl x')) t = nth_error tab t).
Proof. exact retry_place_mp. Qed.
Print Assumptions C05_retry_multipart.

(** non-vacuity and what the reset lemma buys: [SessionExample.broken_state], [retry_ok],
    [retry_ok_thm], and [retry_bad_reset] / [bad_reset_not_wf] (a reset that forgets
    write_in_chunk leaves the retry's bytes at the stale position, no chunk valid, and the
    callback still reports success) in Dl/SessionProofs.v. *)

(** Documentation of D14: with a zero-length entry in the range index the streaming law is
    FALSE for dl_write_range (one call drops the rest of the payload, two calls deliver it),
    which is why [nz_ridx] is a hypothesis above.  Since the fix "zck_get_missing_range
    requests an inverted range for a zero-length chunk" the library never builds such an
    entry (zero-length chunks are skipped), so [nz_ridx] holds for every range index obtained
    through the public API; tools/props/c05.py checks that on every 'auto' case. *)
Theorem C05_streaming_refuted_zero_length : ~ dlw_app_law D14.toyH 0 D14.ridx.
Proof. exact D14.streaming_refuted_with_zero_length_entry. Qed.
Print Assumptions C05_streaming_refuted_zero_length.

(** Non-vacuity (closed by [vm_compute] in the imported files): [PlaceExample.x_req_ok],
    [x_datas_ok], [x_oneshot], [x_bytewise] (DlPlace.v); [MpExample.whole],
    [MpExample.every_single_cut], [D14.one_call], [D14.two_calls] (C05Final.v). *)
Example C05_ex_mp_every_cut :
  forallb (fun k =>
    let (x1, r1) := mpx MpExample.toyH 0 MpExample.ridx MpExample.rx_comp MpExample.rx_exec MpExample.x0 (firstn k MpExample.body) in
    match r1 with
    | MOk => bytes_eqb (d_file (x_dl (fst (mpx MpExample.toyH 0 MpExample.ridx MpExample.rx_comp MpExample.rx_exec x1 (skipn k MpExample.body)))))
                       [1; 2; 7; 7; 7; 3; 4]
    | _ => false
    end) (seq 1 19) = true.
Proof. vm_compute. reflexivity. Qed.
