(** C12 — I/O failures are reported, never turned into success. *)
From ZV Require Import Base.Bytes Io.Faults Io.FaultsProofs.
Local Open Scope N_scope.

(** write_data (one retry after a short write) returns true only if exactly the data
    reached the descriptor - for every pair of write(2) outcomes. *)
Theorem C12_write_data_success_means_all_bytes : forall sched data a s',
  write_data sched data = (true, a, s') -> a = data.
Proof. exact write_data_true. Qed.
Print Assumptions C12_write_data_success_means_all_bytes.

Theorem C12_write_data_only_prefix : forall sched data ok a s',
  write_data sched data = (ok, a, s') -> exists r, data = a ++ r.
Proof. exact write_data_prefix. Qed.
Print Assumptions C12_write_data_only_prefix.

(** T12.1 for EVERY fault schedule (temp-file writes, the seek, temp-file reads, output
    writes): zck_close = true implies the output received exactly header ++ body. *)
Theorem C12_writer_success_complete : forall ws_temp seek_ok rs ws_out payloads header out,
  writer_run ws_temp seek_ok rs ws_out payloads header = (true, out) ->
  out = header ++ concat payloads.
Proof. exact writer_success_complete. Qed.
Print Assumptions C12_writer_success_complete.

Theorem C12_failure_leaves_prefix : forall sched payloads temp ok t s',
  temp_phase sched payloads temp = (ok, t, s') -> exists r, temp ++ concat payloads = t ++ r.
Proof. exact temp_phase_prefix. Qed.
Print Assumptions C12_failure_leaves_prefix.

(** T12.3 a downloaded chunk is complete (and only then tested against its checksum) only
    if every byte of it was accepted by a successful write: file bytes = hashed bytes. *)
Theorem C12_download_chunk_complete : forall sched pieces acc file a f,
  dl_chunk sched pieces acc file = (true, a, f) ->
  a = acc ++ concat pieces /\ f = file ++ concat pieces.
Proof. exact dl_chunk_true. Qed.
Print Assumptions C12_download_chunk_complete.

Example C12_ex_short_then_full :
  writer_run [WShort 2] true [] [] [[1;2;3;4;5]; [6;7]] [9;9] = (true, [9;9;1;2;3;4;5;6;7]).
Proof. vm_compute. reflexivity. Qed.
Example C12_ex_short_short_fails :
  fst (writer_run [WShort 2; WShort 1] true [] [] [[1;2;3;4;5]; [6;7]] [9;9]) = false.
Proof. vm_compute. reflexivity. Qed.
Example C12_ex_temp_read_error_fails :
  fst (writer_run [] true [RErr] [] [[1;2;3]] [9]) = false.
Proof. vm_compute. reflexivity. Qed.
