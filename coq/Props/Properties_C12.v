(** C12 — I/O failures are reported, never turned into success. *)
From ZV Require Import Base.Bytes Io.Faults Io.FaultsProofs.
From ZV Require Import Gen.GenConsts Format.Header Format.ParseProofs Format.ParseExamples Read.Scan Read.ScanProofs
                       Dl.Copy Dl.CopyProofs Io.ScanFaults Io.ScanFaultsProofs Io.CopyFaults Io.CopyFaultsProofs
                       Io.ScanReseek Io.ScanReseekProofs.
Local Open Scope N_scope.

(** write_data (one retry after a short write) returns true only if exactly the data
    reached the descriptor - for every pair of write(2) outcomes. *)
Theorem C12_write_data_success_means_all_bytes : forall sched data a s',
  write_data sched data = (true, a, s') -> a = data.
Proof. exact write_data_true. Qed.
Print Assumptions C12_write_data_success_means_all_bytes.

Theorem C12_write_data_only_prefix : forall sched data ok a s',
  write_data sched data = (ok, a, s') -> exists r, data = a ++ r.
Proof. exact write_data_prefix. Qed.
Print Assumptions C12_write_data_only_prefix.

(** T12.1 for EVERY fault schedule (temp-file writes, the seek, temp-file reads, output
    writes): zck_close = true implies the output received exactly header ++ body. *)
Theorem C12_writer_success_complete : forall ws_temp seek_ok rs ws_out payloads header out,
  writer_run ws_temp seek_ok rs ws_out payloads header = (true, out) ->
  out = header ++ concat payloads.
Proof. exact writer_success_complete. Qed.
Print Assumptions C12_writer_success_complete.

Theorem C12_failure_leaves_prefix : forall sched payloads temp ok t s',
  temp_phase sched payloads temp = (ok, t, s') -> exists r, temp ++ concat payloads = t ++ r.
Proof. exact temp_phase_prefix. Qed.
Print Assumptions C12_failure_leaves_prefix.

(** T12.3 a downloaded chunk is complete (and only then tested against its checksum) only
    if every byte of it was accepted by a successful write: file bytes = hashed bytes. *)
Theorem C12_download_chunk_complete : forall sched pieces acc file a f,
  dl_chunk sched pieces acc file = (true, a, f) ->
  a = acc ++ concat pieces /\ f = file ++ concat pieces.
Proof. exact dl_chunk_true. Qed.
Print Assumptions C12_download_chunk_complete.

Example C12_ex_short_then_full :
  writer_run [WShort 2] true [] [] [[1;2;3;4;5]; [6;7]] [9;9] = (true, [9;9;1;2;3;4;5;6;7]).
Proof. vm_compute. reflexivity. Qed.
Example C12_ex_short_short_fails :
  fst (writer_run [WShort 2; WShort 1] true [] [] [[1;2;3;4;5]; [6;7]] [9;9]) = false.
Proof. vm_compute. reflexivity. Qed.
Example C12_ex_temp_read_error_fails :
  fst (writer_run [] true [RErr] [] [[1;2;3]] [9]) = false.
Proof. vm_compute. reflexivity. Qed.

(** * Validation and local chunk reuse under fault schedules (Io/ScanFaults.v, Io/CopyFaults.v)

    [validate_checksums_f] / [validate_data_f] / [copy_chunks_f] are the models of Read/Scan.v
    and Dl/Copy.v with every read / write / lseek routed through a schedule and the contexts'
    error states explicit.  A schedule is universally quantified in every theorem below. *)

(** under the empty schedule they are the fault-free models (to which C09 / C08 apply) *)
Theorem C12_scan_faultfree : forall (H : N -> bytes -> bytes) h f fl st,
  data_offset h <> 0 ->
  validate_checksums_f H h f fl st [] [] false =
  match validate_checksums H h f fl st with Some r => Some (mkF r [] [] false) | None => None end.
Proof. exact validate_checksums_f_faultfree. Qed.
Print Assumptions C12_scan_faultfree.

Theorem C12_data_faultfree : forall (H : N -> bytes -> bytes) h f fl st,
  data_offset h <> 0 ->
  validate_data_f H h f fl st [] [] false =
  match validate_data H h f fl st with Some r => Some (mkF r [] [] false) | None => None end.
Proof. exact validate_data_f_faultfree. Qed.
Print Assumptions C12_data_faultfree.

Theorem C12_copy_faultfree : forall (H : N -> bytes -> bytes) sh sf th tf fl,
  copy_chunks_f H sh sf th tf fl clean =
  match copy_chunks H sh sf th tf fl with
  | Some (fl', tf', sf') => Some (true, fl', tf', sf', clean)
  | None => None
  end.
Proof. exact copy_chunks_f_faultfree. Qed.
Print Assumptions C12_copy_faultfree.

(** T12.scan for EVERY schedule of read and lseek outcomes and any initial error state:
    zck_validate_checksums / zck_find_valid_chunks return 1 only if the specification of
    C09 says 1 for this file (every chunk and the data digest match) ... *)
Theorem C12_scan_success_is_real : forall (H : N -> bytes -> bytes) h f fl st rs ss err r,
  scan_wf h f ->
  validate_checksums_f H h f fl st rs ss err = Some r -> s_ret (f_res r) = 1%Z ->
  fst (spec_op H h f OpValidate fl) = 1%Z.
Proof. exact scan_f_success_real. Qed.
Print Assumptions C12_scan_success_is_real.

(** ... and then the flags are exactly the fault-free flags and no error state is left *)
Theorem C12_scan_success_flags : forall (H : N -> bytes -> bytes) h f fl st rs ss err r,
  scan_wf h f -> h_detached h = false ->
  validate_checksums_f H h f fl st rs ss err = Some r -> s_ret (f_res r) = 1%Z ->
  expected_ret H h f = 1%Z /\ s_flags (f_res r) = expected_flags H h f /\ f_err r = false.
Proof. exact scan_f_success_full. Qed.
Print Assumptions C12_scan_success_flags.

(** zck_validate_data_checksum returns 1 only if all data is present and the data digest
    matches (with the uncompressed-source flag: only if the scan would) *)
Theorem C12_data_success_is_real : forall (H : N -> bytes -> bytes) h f fl st rs ss err r,
  scan_wf h f ->
  validate_data_f H h f fl st rs ss err = Some r -> s_ret (f_res r) = 1%Z ->
  fst (spec_op H h f OpData fl) = 1%Z.
Proof. exact data_f_success_real. Qed.
Print Assumptions C12_data_success_is_real.

(** the individual flags: with read errors (any errno) and lseek failures as the only faults,
    every flag 1 the scan leaves belongs to a chunk whose stored bytes match (or the call
    returned before touching the flags) *)
Theorem C12_scan_flags_sound_without_short_reads : forall (H : N -> bytes -> bytes) h f fl st rs ss err r,
  scan_wf h f -> h_detached h = false -> only_errors rs ->
  validate_checksums_f H h f fl st rs ss err = Some r ->
  s_flags (f_res r) = fl \/ flags_sound H h f (s_flags (f_res r)).
Proof. exact scan_f_flags_sound. Qed.
Print Assumptions C12_scan_flags_sound_without_short_reads.

(** T12.copy for EVERY schedule of read / write / lseek outcomes and any initial error states:
    the source is unchanged; the target never shrinks and keeps its header and every byte
    outside the extents of the fillable chunks; a chunk that becomes valid lies inside the
    target file and its bytes there hash (target checksum type) to the target's digest —
    what reached the file through (possibly short, retried or failed) writes is what was
    hashed; when the call ran (no error state at entry) every chunk satisfies [chunk_post]. *)
Theorem C12_copy_any_schedule : forall (H : N -> bytes -> bytes) sh sf th tf fl st ret fl' tf' sf' st',
  known (h_chash sh) -> known (h_chash th) -> starts_ok 0 (h_chunks th) ->
  copy_chunks_f H sh sf th tf fl st = Some (ret, fl', tf', sf', st') ->
  sf' = sf /\ len tf <= len tf' /\
  (forall x, x < data_offset th -> fget tf' x = fget tf x) /\
  (forall x, (forall i tc, nth_error (h_chunks th) i = Some tc -> fillable sh th tc (nth i fl 0%Z) ->
                           ~ in_ext th tc x) -> fget tf' x = fget tf x) /\
  (forall i tc, nth_error (h_chunks th) i = Some tc ->
                nth i fl 0%Z <> 1%Z -> nth i fl' 0%Z = 1%Z -> good_extent H th tc tf') /\
  (ret = true -> forall i tc, nth_error (h_chunks th) i = Some tc ->
                 chunk_post H sh th tc (nth i fl 0%Z) (nth i fl' 0%Z) tf').
Proof. exact copy_chunks_f_sound. Qed.
Print Assumptions C12_copy_any_schedule.

Theorem C12_copy_total : forall (H : N -> bytes -> bytes) sh sf th tf fl st,
  copy_chunks_f H sh sf th tf fl st <> None.
Proof. exact copy_chunks_f_total. Qed.
Print Assumptions C12_copy_total.

(** ** The scan's flags are NOT sound under short reads: counter-example.
    A read that returns fewer bytes than asked although the file has more ends the chunk
    (failed) but leaves the file position inside it, and the scan reads the following chunks
    from there.  File: chunks "ab" and "b", stored bytes "abx"; the read of "ab" returns 1
    byte.  Chunk 2 is then hashed over the byte 'b' of chunk 1 and flagged valid although the
    byte stored at its offset is 'x'.  (Return value -1: the call as a whole does not report
    success.)  Reproduced on the library: V scenario of harness/zh_c12.c, fault read:1:short:1. *)
Definition sx_h : header :=
  mkHeader false 3 10 20 (repeat 0 16%nat) (repeat 0 16%nat) 0 0 3 3
           [mkChunk (repeat 0 16%nat) None 0 0 0; mkChunk (toyH 3 [97; 98]) None 2 2 0;
            mkChunk (toyH 3 [98]) None 1 1 2] 0 0.
Definition sx_f : bytes := repeat 7 30%nat ++ [97; 98; 120].

Theorem C12_scan_flags_refuted_by_short_read :
  exists (H : N -> bytes -> bytes) h f fl st rs r,
    scan_wf h f /\ h_detached h = false /\
    validate_checksums_f H h f fl st rs [] false = Some r /\
    s_flags (f_res r) <> fl /\ ~ flags_sound H h f (s_flags (f_res r)).
Proof.
  exists toyH, sx_h, sx_f, [0; 0; 0]%Z, (opened sx_h), [RGive 1].
  eexists. split; [|split; [reflexivity|split; [vm_compute; reflexivity|split]]].
  - unfold scan_wf. split; [discriminate|]. split; [vm_compute; discriminate|]. cbn. repeat split; reflexivity.
  - cbn [f_res s_flags]. discriminate.
  - cbn [f_res s_flags]. intros Hs.
    specialize (Hs 2%nat (mkChunk (toyH 3 [98]) None 1 1 2) eq_refl eq_refl).
    vm_compute in Hs. discriminate Hs.
Qed.
Print Assumptions C12_scan_flags_refuted_by_short_read.

Example C12_ex_scan_short_read :
  (match validate_checksums_f toyH sx_h sx_f [0; 0; 0]%Z (opened sx_h) [RGive 1] [] false with
   | Some r => Some (s_ret (f_res r), s_flags (f_res r), f_err r) | None => None end) = Some ((-1)%Z, [1; -1; 1]%Z, false) /\
  (match validate_checksums_f toyH sx_h sx_f [0; 0; 0]%Z (opened sx_h) [] [] false with
   | Some r => Some (s_ret (f_res r), s_flags (f_res r), f_err r) | None => None end) = Some ((-1)%Z, [1; 1; -1]%Z, false).
Proof. vm_compute. split; reflexivity. Qed.
(** a read error: every later chunk failed, error state left, the position is not restored
    ([seek_data] returns -1, which the caller takes for success); a failing final lseek: 0 *)
Example C12_ex_scan_read_error :
  (match validate_checksums_f toyH sx_h sx_f [0; 0; 0]%Z (opened sx_h) [RErr] [] false with
   | Some r => Some (s_ret (f_res r), s_flags (f_res r), f_err r, f_ss r) | None => None end)
    = Some ((-1)%Z, [1; -1; -1]%Z, true, []) /\
  (match validate_checksums_f toyH sx_h sx_f [0; 0; 0]%Z (opened sx_h) [] [true; false] false with
   | Some r => Some (s_ret (f_res r), s_flags (f_res r), f_err r, r_pos (s_state (f_res r))) | None => None end)
    = Some (0%Z, [1; 1; -1]%Z, true, 33).
Proof. vm_compute. split; reflexivity. Qed.

(** local chunk reuse under faults: a read error is taken for success and the stale (zero)
    buffer is hashed and written — mismatch, zero-filled, failed; a short write that is
    completed by the retry is harmless; a short write whose retry fails leaves a prefix in
    the file and the flag untouched — and [zck_copy_chunks] still returns true, the failure
    being visible only in the target's error state *)
Definition cx_sh : header :=
  mkHeader false 3 10 20 (repeat 0 16%nat) (repeat 0 16%nat) 0 0 3 3
           [mkChunk (repeat 0 16%nat) None 0 0 0; mkChunk (toyH 3 [97; 98; 99]) None 3 3 0;
            mkChunk (toyH 3 [100; 101]) None 2 2 3] 0 0.
Definition cx_th : header :=
  mkHeader false 3 12 20 (repeat 0 16%nat) (repeat 0 16%nat) 0 0 3 3
           [mkChunk (repeat 0 16%nat) None 0 0 0; mkChunk (toyH 3 [100; 101]) None 2 2 0;
            mkChunk (toyH 3 [97; 98; 99]) None 3 3 2] 0 0.
Definition cx_sf : bytes := repeat 7 30%nat ++ [97; 98; 99; 100; 101].
Definition cx_tf : bytes := repeat 8 32%nat.
Definition cx_show (r : option (bool * list Z * bytes * bytes * cst)) :=
  match r with Some (ret, fl, tf, _, st) => Some (ret, fl, skipn 32 tf, k_serr st, k_terr st) | None => None end.
Example C12_ex_copy_faults :
  cx_show (copy_chunks_f toyH cx_sh cx_sf cx_th cx_tf [1; 0; 0]%Z clean)
    = Some (true, [1; 1; 1]%Z, [100; 101; 97; 98; 99], false, false) /\
  cx_show (copy_chunks_f toyH cx_sh cx_sf cx_th cx_tf [1; 0; 0]%Z (mkC [RErr] [] [] false false))
    = Some (true, [1; -1; 0]%Z, [0; 0], true, false) /\
  cx_show (copy_chunks_f toyH cx_sh cx_sf cx_th cx_tf [1; 0; 0]%Z (mkC [] [WShort 1] [] false false))
    = Some (true, [1; 1; 1]%Z, [100; 101; 97; 98; 99], false, false) /\
  cx_show (copy_chunks_f toyH cx_sh cx_sf cx_th cx_tf [1; 0; 0]%Z (mkC [] [WShort 1; WErr] [] false false))
    = Some (true, [1; 0; 0]%Z, [100], false, true) /\
  cx_show (copy_chunks_f toyH cx_sh cx_sf cx_th cx_tf [1; 0; 0]%Z (mkC [] [] [true; false] false false))
    = Some (true, [1; 0; 0]%Z, [], false, true).
Proof. vm_compute. repeat split; reflexivity. Qed.

(** ** The scan with the proposed fix (Io/ScanReseek.v: after a chunk that could not be read
    completely, lseek to the start of the next chunk; return 0 if that fails).
    It is still the scan of C09 without faults, success still means real success, and now the
    flags are sound under EVERY schedule: a flag 1 after the call is deserved, or it was 1
    before the call and the call returned before touching it. *)
Theorem C12_fixed_scan_faultfree : forall (H : N -> bytes -> bytes) h f fl st,
  scan_wf h f ->
  validate_checksums_r H h f fl st [] [] false =
  match validate_checksums H h f fl st with Some r => Some (mkF r [] [] false) | None => None end.
Proof. exact validate_checksums_r_faultfree. Qed.
Print Assumptions C12_fixed_scan_faultfree.

Theorem C12_fixed_scan_success_flags : forall (H : N -> bytes -> bytes) h f fl st rs ss err r,
  scan_wf h f -> h_detached h = false ->
  validate_checksums_r H h f fl st rs ss err = Some r -> s_ret (f_res r) = 1%Z ->
  expected_ret H h f = 1%Z /\ s_flags (f_res r) = expected_flags H h f /\ f_err r = false.
Proof. exact scan_r_success_full. Qed.
Print Assumptions C12_fixed_scan_success_flags.

Theorem C12_fixed_scan_flags_sound_every_schedule : forall (H : N -> bytes -> bytes) h f fl st rs ss err r,
  scan_wf h f -> h_detached h = false ->
  validate_checksums_r H h f fl st rs ss err = Some r ->
  flags_sound_or_old H h f fl (s_flags (f_res r)).
Proof. exact scan_r_flags_sound. Qed.
Print Assumptions C12_fixed_scan_flags_sound_every_schedule.

(** the counter-example schedule on the fixed scan: chunk 2 is read at its own offset -> failed;
    and when the re-seek itself fails the call returns 0 *)
Example C12_ex_fixed_scan_short_read :
  (match validate_checksums_r toyH sx_h sx_f [0; 0; 0]%Z (opened sx_h) [RGive 1] [] false with
   | Some r => Some (s_ret (f_res r), s_flags (f_res r), f_err r) | None => None end) = Some ((-1)%Z, [1; -1; -1]%Z, false) /\
  (match validate_checksums_r toyH sx_h sx_f [0; 0; 0]%Z (opened sx_h) [RGive 1] [true; false] false with
   | Some r => Some (s_ret (f_res r), s_flags (f_res r), f_err r) | None => None end) = Some (0%Z, [1; -1; 0]%Z, true).
Proof. vm_compute. split; reflexivity. Qed.


(** * T12.2 the reader under every schedule of read(2) outcomes (short counts and errors at any
    call): if open, the reads until one returns 0 and zck_close all report success, the output is
    the specification's content of the file - i.e. what the fault-free run delivers. *)
From ZV Require Import Format.ParseImpl Read.ReadSpec Read.CompRead Read.ReadProofs Io.ReadFaults Io.ReadFaultsProofs.
Theorem C12_reader_faults :
  forall (H : N -> bytes -> bytes) (zdecomp : option bytes -> bytes -> N -> option bytes) p f h fuel sched sizes out st' s' st2,
  wf_bytes f -> parse_impl H p f = POk h ->
  Forall (fun n => 0 < n) sizes ->
  read_all_f H zdecomp h fuel sched (open_state h f) sizes [] = (out, Some true, st', s') ->
  zck_close H h st' = (true, st2) ->
  spec_verify H h f = true /\ spec_decode zdecomp h f = Some out.
Proof.
  intros H zdecomp p f h fuel sched sizes out st' s' st2 Hwf Hp.
  destruct (header_facts H p f h Hwf Hp) as (A & B & C).
  exact (read_faults H zdecomp h f fuel sched sizes out st' s' st2 A B C).
Qed.
Print Assumptions C12_reader_faults.


(** * T12.4 the download callbacks under EVERY schedule of write(2)/lseek(2) outcomes on the target
    (Io/DlFaults.v: zck_header_cb / zck_write_chunk_cb -> multipart layer -> dl_write_range with
    write_data (one retry after a short write), seek_data and zero_chunk routed through the
    schedule), for every header line, fragment list and regex oracle.  The hash [H] and the regex
    are universally quantified. *)
From ZV Require Import Dl.DlWrite Dl.Multipart Dl.DlInv Io.DlFaults Io.DlFaultsProofs.

(** the empty schedule is the fault-free model of C05/C17 *)
Theorem C12_dl_faultfree : forall (H : bytes -> bytes) doff ridx rx_comp rx_exec frags x,
  feed_frags_F H doff ridx rx_comp rx_exec x ([], []) frags =
  (let '(x', rets, ok) := feed_frags H doff ridx rx_comp rx_exec x frags in (x', ([], []), rets, ok)).
Proof. exact feed_frags_F_ff. Qed.
Print Assumptions C12_dl_faultfree.

(** (1) a transfer that ends with no error recorded — whatever short counts and retries the
    schedule contained — has done exactly what the fault-free transfer does: same callback results,
    same file, same flags, same parser state (so the C05 placement/verification theorems apply) *)
Theorem C12_dl_no_error_is_faultfree : forall (H : bytes -> bytes) doff ridx rx_comp rx_exec frags x k x' k' rets ok,
  feed_frags_F H doff ridx rx_comp rx_exec x k frags = (x', k', rets, ok) -> d_err (x_dl x') = false ->
  feed_frags H doff ridx rx_comp rx_exec x frags = (x', rets, ok).
Proof. exact feed_frags_F_clean. Qed.
Print Assumptions C12_dl_no_error_is_faultfree.

(** ... and in single-range mode "every callback returned the full count" already implies that no
    error was recorded (in multipart mode see C12_dl_multipart_reports for the one exception) *)
Theorem C12_dl_plain_success_is_faultfree : forall (H : bytes -> bytes) doff ridx rx_comp rx_exec frags x k x' k' rets,
  x_boundary x = None -> d_err (x_dl x) = false -> Forall (fun fr => fr <> []) frags ->
  feed_frags_F H doff ridx rx_comp rx_exec x k frags = (x', k', rets, true) -> d_err (x_dl x') = false.
Proof. exact plain_success_clean. Qed.
Print Assumptions C12_dl_plain_success_is_faultfree.

(** (2) whatever the schedule: the state invariant (valid stays valid, write window inside the
    current target while no error is recorded), every chunk flagged valid by the transfer hashes
    to its digest in the file as it is, and no byte outside the extents of the requested, not yet
    valid chunks changes — a partial write or a partial zero fill only touches a prefix of what the
    complete one touches *)
Theorem C12_dl_invariants_every_schedule : forall (H : bytes -> bytes) doff ridx rx_comp rx_exec tab0 frags x k x' k' rets ok,
  disjoint_tab doff tab0 -> dl_wfF doff ridx tab0 (x_dl x) -> verified H doff tab0 (x_dl x) ->
  feed_frags_F H doff ridx rx_comp rx_exec x k frags = (x', k', rets, ok) ->
  dl_wfF doff ridx tab0 (x_dl x') /\ verified H doff tab0 (x_dl x') /\
  (forall off, (forall t c, nth_error tab0 t = Some c -> fillable ridx tab0 t -> ~ in_ext doff c off) ->
               fget (d_file (x_dl x')) off = fget (d_file (x_dl x)) off).
Proof. exact feed_frags_F_inv. Qed.
Print Assumptions C12_dl_invariants_every_schedule.

Theorem C12_dl_invariants_init : forall doff ridx tab0 fpos file,
  dl_wfF doff ridx tab0 (mkDl false 0 0 None None None fpos file tab0).
Proof. exact dl_wfF_init. Qed.
Print Assumptions C12_dl_invariants_init.

Theorem C12_dl_valid_chunks_kept : forall (H : bytes -> bytes) doff ridx rx_comp rx_exec tab0 frags x k x' k' rets ok t c,
  disjoint_tab doff tab0 -> dl_wfF doff ridx tab0 (x_dl x) ->
  feed_frags_F H doff ridx rx_comp rx_exec x k frags = (x', k', rets, ok) ->
  nth_error tab0 t = Some c -> c_valid c = VValid ->
  (exists c', nth_error (d_tab (x_dl x')) t = Some c' /\ c_valid c' = VValid /\
              c_start c' = c_start c /\ c_len c' = c_len c /\ c_digest c' = c_digest c) /\
  fread (d_file (x_dl x')) (doff + c_start c) (N.to_nat (c_len c)) =
  fread (d_file (x_dl x)) (doff + c_start c) (N.to_nat (c_len c)).
Proof. exact feed_frags_F_valid_kept. Qed.
Print Assumptions C12_dl_valid_chunks_kept.

(** (3) a fault is reported.  Single-range mode: the callback during which the error state got set
    returns a short count.  Every mode: once the error state is set the next callback refuses
    without touching anything.  Multipart mode: the callback that set the error returns 0, except
    (a) on the fault-free "no range found" exit (set_error + return l) and (b) when the error came
    from a dl_write_range call with NO bytes (a part announced with length 0), whose return value 0
    equals the requested 0 — then the next callback reports it. *)
Theorem C12_dl_plain_reports : forall (H : bytes -> bytes) doff ridx rx_comp rx_exec x k frag x' k' ok r,
  x_boundary x = None -> frag <> [] ->
  write_cb_F H doff ridx rx_comp rx_exec x k frag = (x', k', ok, r) -> d_err (x_dl x') = true -> ok = false.
Proof. exact plain_cb_reports. Qed.
Print Assumptions C12_dl_plain_reports.

Theorem C12_dl_error_state_refuses : forall (H : bytes -> bytes) doff ridx rx_comp rx_exec x k frag,
  d_err (x_dl x) = true -> frag <> [] ->
  exists r, write_cb_F H doff ridx rx_comp rx_exec x k frag = (x, k, false, r).
Proof. exact write_cb_F_after_error. Qed.
Print Assumptions C12_dl_error_state_refuses.

Theorem C12_dl_multipart_reports : forall (H : bytes -> bytes) doff ridx rx_comp rx_exec x k frag x' k' ok r bd,
  x_boundary x = Some bd -> frag <> [] -> d_err (x_dl x) = false ->
  write_cb_F H doff ridx rx_comp rx_exec x k frag = (x', k', ok, r) -> d_err (x_dl x') = true ->
  ok = false \/ r = MNoRange \/ zero_call_err H doff ridx.
Proof. exact mp_cb_reports. Qed.
Print Assumptions C12_dl_multipart_reports.

(** a failure without error state is a checksum mismatch with the chunk completely zero-filled *)
Theorem C12_dl_mismatch_zeroed : forall (H : bytes -> bytes) doff ridx s k bs s' k',
  dlw_F H doff ridx s k bs = (s', k', DFail) -> d_err s' = false ->
  exists t c, d_tgt s' = Some t /\ nth_error (d_tab s') t = Some c /\ c_valid c = VFailed /\
    fread (d_file s') (doff + c_start c) (N.to_nat (c_len c)) = repeat 0 (N.to_nat (c_len c)).
Proof. exact dlw_F_fail_zeroed. Qed.
Print Assumptions C12_dl_mismatch_zeroed.

(** Non-vacuity with concrete schedules (closed by vm_compute in Io/DlFaultsProofs.v, Module Ex):
    [short_write_retry] ([WShort 1; WFull]: the fault-free result), [write_fails_mid_chunk]
    ([WFull; WShort 1; WShort 0]), [write_error_mid_chunk] ([WFull; WErr]: DFail, error set, a prefix in
    the file, next call refused), [seek_fails] (([], [false])), [mismatch_zero_fill_fails],
    [zero_part_swallows] (the multipart exception above), [s0_wf] (the invariant hypotheses hold). *)
Example C12_ex_dl_write_error_mid_chunk :
  let '(s', k', r) := Ex.run Ex.s0 ([WFull; WErr], []) (Ex.dA ++ Ex.dB) in
  r = DFail /\ d_err s' = true /\ d_file s' = [8; 1; 2; 9; 9; 9; 7] /\
  map c_valid (d_tab s') = [VValid; VUnknown; VValid].
Proof. vm_compute. repeat split; reflexivity. Qed.
