(** C01 — round trip: anything written reads back byte-identical and fully valid.
    Library level: chunker (Chunk/Writer.v) -> header creation (Format/HeaderWrite.v) ->
    reader's header path (Format/ParseImpl.v) and the specification decoder (Read/ReadSpec.v).
    Tool level: the zck input scanner (Chunk/ZckTool.v).  The reader's data path is joined in
    through the reader completeness theorem (Read/ReadComplete.v) and C02's soundness theorems. *)
From ZV Require Import Base.Bytes Gen.GenConsts Format.Header Format.ParseImpl Format.HeaderWrite
     Format.HeaderWriteProofs Format.ParseExamples Format.HeaderWriteExamples Format.WriteRead Chunk.Buzhash Chunk.BuzhashProofs Chunk.Writer Chunk.WriterProofs
     Chunk.ZckTool Chunk.ZckToolProofs Read.ReadSpec Read.CompRead Read.ReadComplete Format.RoundTrip.
Local Open Scope N_scope.

(** T1.1 the write path always terminates: one zck_write call of any size under any legal
    min/max options (automatic chunking; the manual loop is structural). *)
Theorem C01_write_terminates : forall mn mx st src,
  legal_opts mn mx -> wf_bytes src -> buzstate_wf DEFAULT_BUZHASH_WIDTH (w_buz st) ->
  exists s', zck_write_model (comp_init_cfg false mn mx) st src = WOk s' /\
             buzstate_wf DEFAULT_BUZHASH_WIDTH (w_buz s').
Proof. exact comp_init_write_terminates. Qed.
Print Assumptions C01_write_terminates.

(** every sequence of write / end-chunk calls, manual or automatic, ends (at close) in a chunk
    list whose concatenation is exactly the bytes written: nothing lost, duplicated, reordered *)
Theorem C01_chunks_are_the_content : forall manual mn mx ops,
  legal_opts mn mx -> Forall (fun o => wf_bytes (op_bytes o)) ops ->
  exists F, write_file (comp_init_cfg manual mn mx) ops = Some F /\ concat F = concat (map op_bytes ops).
Proof. exact comp_init_file_total. Qed.
Print Assumptions C01_chunks_are_the_content.

Theorem C01_segmentation_irrelevant : forall manual mn mx frags,
  legal_opts mn mx ->
  write_file (comp_init_cfg manual mn mx) (map OpWrite frags) =
  write_file (comp_init_cfg manual mn mx) [OpWrite (concat frags)].
Proof. exact file_segmentation. Qed.
Print Assumptions C01_segmentation_irrelevant.

(** T1.2 (writer side of the round trip) for every hash type pair, compression none/zstd,
    with or without dictionary, with or without the uncompressed-source flag, every legal
    min/max, manual or automatic chunking and every op sequence: the file the writer emits
    opens (reader model and specification parser agree on the expected header), every chunk
    and the data checksum verify, and the specification decoder returns exactly the bytes
    written.  zstd enters through its round-trip contract only. *)
Theorem C01_written_file_verifies_and_decodes :
  forall (H : N -> bytes -> bytes) (zcomp : option bytes -> bytes -> bytes)
         (zdecomp : option bytes -> bytes -> N -> option bytes)
         (wc : wcfg) (dict : option bytes) manual mn mx (ops : list wop) (F : list bytes) ds cds,
  (forall t m d, dsize t = Some d -> len (H t m) = d) ->
  (forall t m, wf_bytes (H t m)) ->
  (forall d x, wf_bytes x -> wf_bytes (zcomp d x)) ->
  (forall d x, x <> [] -> zcomp d x <> []) ->
  dsize (w_hash wc) = Some ds -> dsize (w_chash wc) = Some cds ->
  (w_comp wc = ZCK_COMP_NONE \/ w_comp wc = ZCK_COMP_ZSTD) ->
  (w_comp wc = ZCK_COMP_NONE -> forall d x, zcomp d x = x) ->
  (w_comp wc = ZCK_COMP_ZSTD -> forall d x, zdecomp d (zcomp d x) (len x) = Some x) ->
  match dict with Some d => d <> [] /\ wf_bytes d | None => True end ->
  legal_opts mn mx -> Forall (fun o => wf_bytes (op_bytes o)) ops ->
  write_file (comp_init_cfg manual mn mx) ops = Some F ->
  wfile_ok wc (written_entries H zcomp wc dict F) = true ->
  let f := written_file H zcomp wc dict F in
  let h := expected_header H wc (written_entries H zcomp wc dict F) in
  parse_impl H no_pins f = POk h /\ parse_spec H f = Some h /\
  spec_verify H h f = true /\
  spec_decode zdecomp h f = Some (concat (map op_bytes ops)) /\
  spec_read H zdecomp h f = Some (concat (map op_bytes ops)).
Proof. exact roundtrip_from_chunker. Qed.
Print Assumptions C01_written_file_verifies_and_decodes.

(** T1.2 (complete round trip on the models): write D through any op sequence under any legal
    configuration, then open the written file and read it with ANY sequence of non-empty buffer
    sizes: no read fails; as soon as a read returns 0 the bytes handed out are exactly D and
    zck_close (data checksum) succeeds; and a read does return 0 once more buffers were offered
    than D has bytes.  [fuel_bound] iterations of the reader loop per call suffice. *)
Theorem C01_write_then_read_roundtrip :
  forall (H : N -> bytes -> bytes) (zcomp : option bytes -> bytes -> bytes)
         (zdecomp : option bytes -> bytes -> N -> option bytes)
         (wc : wcfg) (dict : option bytes) manual mn mx (ops : list wop) (F : list bytes) ds cds fuel sizes,
  (forall t m d, dsize t = Some d -> len (H t m) = d) ->
  (forall t m, wf_bytes (H t m)) ->
  (forall d x, wf_bytes x -> wf_bytes (zcomp d x)) ->
  (forall d x, x <> [] -> zcomp d x <> []) ->
  dsize (w_hash wc) = Some ds -> dsize (w_chash wc) = Some cds ->
  (w_comp wc = ZCK_COMP_NONE \/ w_comp wc = ZCK_COMP_ZSTD) ->
  (w_comp wc = ZCK_COMP_NONE -> forall d x, zcomp d x = x) ->
  (w_comp wc = ZCK_COMP_ZSTD -> forall d x, zdecomp d (zcomp d x) (len x) = Some x) ->
  match dict with Some d => d <> [] /\ wf_bytes d | None => True end ->
  legal_opts mn mx -> Forall (fun o => wf_bytes (op_bytes o)) ops ->
  write_file (comp_init_cfg manual mn mx) ops = Some F ->
  wfile_ok wc (written_entries H zcomp wc dict F) = true ->
  let f := written_file H zcomp wc dict F in
  let D := concat (map op_bytes ops) in
  exists h,
    parse_impl H no_pins f = POk h /\
    ((fuel_bound h f <= fuel)%nat -> Forall (fun n => 0 < n) sizes ->
     match read_all H zdecomp h fuel (open_state h f) sizes [] with
     | (out, e, st') =>
         e <> Some false /\
         (e = Some true -> out = D /\ fst (zck_close H h st') = true) /\
         (len D < N.of_nat (length sizes) -> e = Some true)
     end).
Proof. exact write_then_read_roundtrip. Qed.
Print Assumptions C01_write_then_read_roundtrip.

(** T1.3 the zck tool's input scanner, for every split string and every partition of the
    input into read() results: no crash (no negative or out-of-range length), the bytes handed
    to the library are exactly the input, chunks are cut in front of split-string occurrences,
    and a failing read ends in exit status 1, never in a close. *)
Theorem C01_tool_scan_no_crash : forall split blocks, zck_scan split blocks <> ScanCrash.
Proof. exact zck_scan_no_crash. Qed.
Print Assumptions C01_tool_scan_no_crash.

Theorem C01_tool_scan_preserves_content : forall split blocks ops,
  zck_scan split blocks = ScanOk ops -> payload ops = concat blocks.
Proof. exact zck_scan_preserves_content. Qed.
Print Assumptions C01_tool_scan_preserves_content.

Theorem C01_tool_scan_end_before_split : forall split blocks ops pre rest,
  zck_scan split blocks = ScanOk ops -> ops = pre ++ TEnd :: rest ->
  exists rest', rest = TWrite split :: rest'.
Proof. exact zck_scan_end_before_split. Qed.
Print Assumptions C01_tool_scan_end_before_split.

Theorem C01_tool_read_error_reported : forall split blocks,
  exists ops, zck_tool split blocks RFail = ToolExit1 ops.
Proof. exact zck_tool_read_error. Qed.
Print Assumptions C01_tool_read_error_reported.

(** RECORDED FINDING c01:index-over-int-max (known_findings.json), established here on every run: the property as stated
    ("closing successfully yields a file that opens") is false of the faithful model for files whose index is longer than
    INT_MAX bytes - the writer emits the index size as a size_t, the reader decodes it with compint_to_int.  The general
    form, and a witness of 2^27 empty-digest entries (needs no byte of content; not reachable by a run of the check). *)
Theorem C01_refuted_index_over_int_max : forall (H : N -> bytes -> bytes) cfg chunks ds,
  (forall t m d, dsize t = Some d -> len (H t m) = d) ->
  (forall t m, wf_bytes (H t m)) ->
  dsize (w_hash cfg) = Some ds ->
  (w_comp cfg = ZCK_COMP_NONE \/ w_comp cfg = ZCK_COMP_ZSTD) ->
  Forall wchunk_wf chunks ->
  lead_size cfg chunks + header_length cfg chunks + len (file_body chunks) <= SSIZE_MAX ->
  INT_MAX < index_size cfg chunks ->
  parse_impl H no_pins (file_create H cfg chunks) = PErr.
Proof. exact written_file_index_over_int_max_rejected. Qed.
Print Assumptions C01_refuted_index_over_int_max.

Theorem C01_refuted_index_over_int_max_witness : forall n : nat,
  N.of_nat n = big_n ->
  let cs := repeat big_entry n in
  lead_size exw_cfg cs + header_length exw_cfg cs + len (file_body cs) <= SSIZE_MAX /\
  INT_MAX < index_size exw_cfg cs /\
  parse_impl toyH no_pins (file_create toyH exw_cfg cs) = PErr.
Proof. exact big_index_written_but_rejected. Qed.
Print Assumptions C01_refuted_index_over_int_max_witness.
