(** C15 — a unit-decoded (zstd) chunk is verified before any of its bytes are released.
    Only statements; every proof is [exact lemma]. *)
From ZV Require Import Base.Bytes Gen.GenConsts Format.Compint Format.Header Format.ParseImpl Format.ParseProofs
                       Format.ParseExamples Read.ReadSpec Read.CompRead Read.ReadLemmas Read.ReadProofs Read.ReadExamples.
Local Open Scope N_scope.

(** T15.1 for every file, hash, decoder, fuel and every sequence of reads (all performed,
    whatever the earlier ones returned): the bytes handed out by the successful calls,
    preceded by the dictionary's data [dp], are a prefix of the decoded data of a prefix [pre]
    of the chunk table in which every stored chunk hashes to its index digest ([ver] checks
    [chunk_ok] entry by entry) - so no byte of a chunk failing its checksum, or of any chunk
    after it, is ever returned; and once a call has failed every later call fails with -1
    ([sticky]). *)
Theorem C15_only_verified_chunks_released :
  forall (H : N -> bytes -> bytes) (zdecomp : option bytes -> bytes -> N -> option bytes) p f h fuel sizes rs st',
  wf_bytes f -> parse_impl H p f = POk h -> is_zstd h = true ->
  Forall (fun n => 0 < n) sizes ->
  reads H zdecomp h fuel (open_state h f) sizes = (rs, st') -> ~ In RFuel rs ->
  (exists dv pre rest dp more,
      h_chunks h = pre ++ rest /\
      ver H zdecomp h f true dv pre = Some (dp ++ outs rs ++ more) /\
      Forall (fun c => c_clen c <> 0 -> H (h_chash h) (stored (body h f) c) = c_digest c) pre) /\
  sticky rs.
Proof.
  intros H zdecomp p f h fuel sizes rs st' Hwf Hp Hz Hpos E Hnf.
  destruct (header_facts H p f h Hwf Hp) as (A & B & C).
  destruct (verified_before_release H zdecomp h f A B Hz C fuel sizes rs st' Hpos E Hnf) as [(dv & pre & rest & dp & more & V1 & V2) S].
  split; [|exact S]. exists dv, pre, rest, dp, more. split; [exact V1|]. split; [exact V2|].
  exact (ver_hashes H zdecomp h f true dv pre _ V2).
Qed.
Print Assumptions C15_only_verified_chunks_released.

(** Non-vacuity: on the file with a changed byte in its second chunk the reads deliver the
    first chunk's bytes only as long as a call does not need the bad chunk, the read that needs it fails and so do all later ones. *)
Example C15_ex_bad_chunk :
  option_map (fun h => fst (reads toyH toyZ h 100 (open_state h exz_bad) [2; 2; 2; 2; 2])) (hdr_of exz_bad)
    = Some [ROk [1; 2]; RErr (-1); RErr (-1); RErr (-1); RErr (-1)] /\
  option_map (fun h => fst (reads toyH toyZ h 100 (open_state h exz_file) [2; 2; 2; 2; 2])) (hdr_of exz_file)
    = Some [ROk [1; 2]; ROk [3; 4]; ROk [5; 6]; ROk [7; 8]; ROk [9]].
Proof. vm_compute. split; reflexivity. Qed.
