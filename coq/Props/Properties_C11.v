(** C11 — Interrupted updates resume to the exact file; partial chunks never trusted.

    An interruption after any number of written bytes (of the header, of a range response,
    inside a chunk or inside a multipart part header: part headers are never written to
    the target) leaves a target in which every extent holds some bytes - a prefix of
    B's bytes followed by what was there before, zeros from an invalidated chunk, or
    nothing at all when the file ends earlier - and the header region holds some bytes.
    All of these are instances of the arbitrary [target] the C04 theorems quantify over
    ([wf_target]: an extent never holds more bytes than its length), and a restart with
    fresh contexts is [update] on that target (the flags of [T] are ignored: [find_valid]
    recomputes every one of them).  So the statements below are about EVERY target state,
    in particular every state reachable by interrupting [update] any number of times. *)
From ZV Require Import Base.Bytes Gen.GenConsts Dl.Update Dl.UpdateProofs.
Local Open Scope N_scope.

(** T11.1a restarting on any partially written target converges to B (exit code 0, target
    identical to B, all chunks valid, whole-data validation passing) - or a checksum
    collision exists. *)
Theorem C11_restart_converges :
  forall (Hc Hf : bytes -> bytes) (A : option oldfile) (B : newfile) (srv_limit : N) (crashed : target),
  wf_new Hc Hf B (t_slots crashed) -> wf_target crashed ->
  let o := update Hc Hf A B srv_limit crashed in
  ((exists e, o_status o = Done e) \/ (o_status o = EmptyRange /\ collision Hc)) /\
  (collision Hc \/
   (o_status o = Done 0 /\
    t_hdr (o_target o) = b_hdr B /\ t_extra (o_target o) = [] /\
    map s_cur (t_slots (o_target o)) = map s_srv (t_slots crashed) /\
    map s_chunk (t_slots (o_target o)) = map s_chunk (t_slots crashed) /\
    (1 <= srv_limit -> Forall (fun s => s_flag s = Valid) (t_slots (o_target o))) /\
    fst (validate_data Hc Hf B (t_slots (o_target o))) = true)).
Proof. exact update_converges. Qed.
Print Assumptions C11_restart_converges.

(** T11.1b partial chunks are never trusted: whatever the restart flags valid - after the
    validity scan, after the copy from A, at the end - is an extent that holds exactly
    the chunk's stored length of bytes and passes validate_chunk against the index digest. *)
Theorem C11_valid_means_complete_and_checksummed :
  forall (Hc Hf : bytes -> bytes) (A : option oldfile) (B : newfile) (srv_limit : N) (crashed : target),
  wf_new Hc Hf B (t_slots crashed) -> wf_target crashed ->
  let scanned := snd (find_valid Hc Hf B (t_slots (fetch_header B crashed))) in
  (forall s, In s scanned -> s_flag s = Valid -> chunk_ok Hc (s_chunk s) (s_cur s) = true) /\
  (forall s, In s (copy_chunks Hc A scanned) -> s_flag s = Valid -> chunk_ok Hc (s_chunk s) (s_cur s) = true) /\
  (forall s, In s (t_slots (o_target (update Hc Hf A B srv_limit crashed))) -> s_flag s = Valid ->
             chunk_ok Hc (s_chunk s) (s_cur s) = true).
Proof. exact restart_valid_sound. Qed.
Print Assumptions C11_valid_means_complete_and_checksummed.

(** [chunk_ok] is: all bytes there, and the checksum of these bytes is the index digest *)
Theorem C11_chunk_ok_meaning :
  forall (Hc : bytes -> bytes) (c : chunk) (d : bytes),
  chunk_ok Hc c d = true <-> len d = c_clen c /\ digest_ok Hc c d = true.
Proof. intros Hc c d. exact (chunk_ok_split Hc Hc c d). Qed.
Print Assumptions C11_chunk_ok_meaning.

(** T11.1c nothing completely and correctly written is fetched again: a chunk whose extent
    passes the validity test when the restart begins appears in no request (served or
    refused) ... *)
Theorem C11_valid_chunks_not_requested_again :
  forall (Hc Hf : bytes -> bytes) (A : option oldfile) (B : newfile) (srv_limit : N) (crashed : target)
         (i : nat) (s : slot),
  wf_new Hc Hf B (t_slots crashed) -> wf_target crashed -> 1 <= srv_limit ->
  nth_error (t_slots (fetch_header B crashed)) i = Some s -> chunk_ok Hc (s_chunk s) (s_cur s) = true ->
  collision Hc \/ ~ In i (asked_chunks (o_events (update Hc Hf A B srv_limit crashed))).
Proof. exact restart_no_refetch. Qed.
Print Assumptions C11_valid_chunks_not_requested_again.

(** ... in particular every extent that held B's bytes at the moment of the interruption *)
Theorem C11_written_chunks_not_requested_again :
  forall (Hc Hf : bytes -> bytes) (A : option oldfile) (B : newfile) (srv_limit : N) (crashed : target)
         (i : nat) (s : slot),
  wf_new Hc Hf B (t_slots crashed) -> wf_target crashed -> 1 <= srv_limit ->
  nth_error (t_slots crashed) i = Some s -> s_cur s = s_srv s ->
  collision Hc \/ ~ In i (asked_chunks (o_events (update Hc Hf A B srv_limit crashed))).
Proof. exact restart_no_refetch_written. Qed.
Print Assumptions C11_written_chunks_not_requested_again.

(** Interrupted runs leave targets.  The only steps of the procedure that write to the
    file are the header probe, the copy of a chunk from A, the placement of a downloaded
    chunk (or its zero-fill) and - when the process dies inside one of them - a prefix of
    such a write on top of what the extent held; each keeps every extent within its
    length, i.e. yields a [wf_target] again, to which the theorems above apply. *)
Theorem C11_interrupted_writes_leave_a_target :
  forall (Hc : bytes -> bytes),
  (forall p sl, Forall (srv_ok Hc) sl -> Forall fits sl -> Forall fits (write_prefix p sl)) /\
  (forall A sl, Forall fits sl -> Forall fits (copy_chunks Hc A sl)) /\
  (forall req i sl, Forall (srv_ok Hc) sl -> Forall fits sl -> Forall fits (fst (place Hc req i sl))) /\
  (forall s d n f, fits s -> len d <= c_clen (s_chunk s) ->
                   fits (set_cur s (firstn n d ++ skipn n (s_cur s)) f)).
Proof. intros Hc. exact (write_steps_keep_target_shape Hc Hc). Qed.
Print Assumptions C11_interrupted_writes_leave_a_target.

(* ---------------------------------------------------------------------------------- *)
(** Non-vacuity (toy checksum: sum of the bytes mod 251). *)
Definition toyH (d : bytes) : bytes := [fold_left N.add d 0 mod 251].
Definition ck (d : bytes) : chunk := mkChunk (toyH d) (len d) (len d).
Definition dict0 : chunk := mkChunk [0] 0 0.
Definition mkslots (l : list (chunk * bytes * bytes)) : list slot :=
  map (fun x => mkSlot (fst (fst x)) (snd (fst x)) (snd x) Missing) l.
Definition exB : newfile := mkB (repeat 7 100) 23 false (toyH [1;2;3;4;5;6;7;8;9]).

(** killed in the middle of chunk 2 of a single-range response for chunks 1-3: chunk 1
    complete, chunk 2 half written, chunk 3 untouched (file ends in chunk 2) *)
Definition crashed1 : target :=
  mkT (repeat 7 100) (mkslots [(dict0, [], []); (ck [1;2;3], [1;2;3], [1;2;3]); (ck [4;5], [4;5], [4]);
                               (ck [6;7;8;9], [6;7;8;9], [])]) [].

Example C11_ex_restart :
  let o := update toyH toyH None exB 1000 crashed1 in
  o_status o = Done 0 /\ o_events o = [Served [2; 3]%nat 1] /\
  map s_cur (t_slots (o_target o)) = [[]; [1;2;3]; [4;5]; [6;7;8;9]].
Proof. vm_compute. repeat split; reflexivity. Qed.

(** the half-written chunk is not trusted by the scan *)
Example C11_ex_partial_not_valid :
  map s_flag (snd (find_valid toyH toyH exB (t_slots (fetch_header exB crashed1)))) = [Valid; Valid; Failed; Failed].
Proof. vm_compute. reflexivity. Qed.

(** killed while the header was being written (header region holds 40 bytes), nothing else:
    with A providing chunk 1 *)
Definition crashed2 : target :=
  mkT (repeat 7 40) (mkslots [(dict0, [], []); (ck [1;2;3], [1;2;3], []); (ck [4;5], [4;5], []);
                              (ck [6;7;8;9], [6;7;8;9], [])]) [].
Example C11_ex_restart_header :
  let o := update toyH toyH (Some [(ck [1;2;3], [1;2;3])]) exB 1 crashed2 in
  o_status o = Done 0 /\ o_events o = [Served [2; 3]%nat 1] /\
  t_hdr (o_target o) = b_hdr exB /\
  map s_cur (t_slots (o_target o)) = [[]; [1;2;3]; [4;5]; [6;7;8;9]].
Proof. vm_compute. repeat split; reflexivity. Qed.
