(** C11 — Interrupted updates resume to the exact file; partial chunks never trusted.

    An interruption after any number of written bytes (of the header, of a range response,
    inside a chunk or inside a multipart part header: part headers are never written to
    the target) leaves a target in which every extent holds some bytes - a prefix of
    B's bytes followed by what was there before, zeros from an invalidated chunk, or
    nothing at all when the file ends earlier - and the header region holds some bytes.
    All of these are instances of the arbitrary [target] the C04 theorems quantify over
    ([wf_target]: an extent never holds more bytes than its length), and a restart with
    fresh contexts is [update] on that target (the flags of [T] are ignored: [find_valid]
    recomputes every one of them).  So the statements below are about EVERY target state,
    in particular every state reachable by interrupting [update] any number of times. *)
From ZV Require Import Base.Bytes Gen.GenConsts Dl.Update Dl.UpdateProofs.
Local Open Scope N_scope.

(** T11.1a restarting on any partially written target converges to B (exit code 0, target
    identical to B, all chunks valid, whole-data validation passing) - or a checksum
    collision exists. *)
Theorem C11_restart_converges :
  forall (Hc Hf : bytes -> bytes) (A : option oldfile) (B : newfile) (srv_limit : N) (crashed : target),
  wf_new Hc Hf B (t_slots crashed) -> wf_target crashed ->
  let o := update Hc Hf A B srv_limit crashed in
  ((exists e, o_status o = Done e) \/ (o_status o = EmptyRange /\ collision Hc)) /\
  (collision Hc \/
   (o_status o = Done 0 /\
    t_hdr (o_target o) = b_hdr B /\ t_extra (o_target o) = [] /\
    map s_cur (t_slots (o_target o)) = map s_srv (t_slots crashed) /\
    map s_chunk (t_slots (o_target o)) = map s_chunk (t_slots crashed) /\
    (1 <= srv_limit -> Forall (fun s => s_flag s = Valid) (t_slots (o_target o))) /\
    fst (validate_data Hc Hf B (t_slots (o_target o))) = true)).
Proof. exact update_converges. Qed.
Print Assumptions C11_restart_converges.

(** T11.1b partial chunks are never trusted: whatever the restart flags valid - after the
    validity scan, after the copy from A, at the end - is an extent that holds exactly
    the chunk's stored length of bytes and passes validate_chunk against the index digest. *)
Theorem C11_valid_means_complete_and_checksummed :
  forall (Hc Hf : bytes -> bytes) (A : option oldfile) (B : newfile) (srv_limit : N) (crashed : target),
  wf_new Hc Hf B (t_slots crashed) -> wf_target crashed ->
  let scanned := snd (find_valid Hc Hf B (t_slots (fetch_header B crashed))) in
  (forall s, In s scanned -> s_flag s = Valid -> chunk_ok Hc (s_chunk s) (s_cur s) = true) /\
  (forall s, In s (copy_chunks Hc A scanned) -> s_flag s = Valid -> chunk_ok Hc (s_chunk s) (s_cur s) = true) /\
  (forall s, In s (t_slots (o_target (update Hc Hf A B srv_limit crashed))) -> s_flag s = Valid ->
             chunk_ok Hc (s_chunk s) (s_cur s) = true).
Proof. exact restart_valid_sound. Qed.
Print Assumptions C11_valid_means_complete_and_checksummed.

(** [chunk_ok] is: all bytes there, and the checksum of these bytes is the index digest *)
Theorem C11_chunk_ok_meaning :
  forall (Hc : bytes -> bytes) (c : chunk) (d : bytes),
  chunk_ok Hc c d = true <-> len d = c_clen c /\ digest_ok Hc c d = true.
Proof. intros Hc c d. exact (chunk_ok_split Hc Hc c d). Qed.
Print Assumptions C11_chunk_ok_meaning.

(** T11.1c nothing completely and correctly written is fetched again: a chunk whose extent
    passes the validity test when the restart begins appears in no request (served or
    refused) ... *)
Theorem C11_valid_chunks_not_requested_again :
  forall (Hc Hf : bytes -> bytes) (A : option oldfile) (B : newfile) (srv_limit : N) (crashed : target)
         (i : nat) (s : slot),
  wf_new Hc Hf B (t_slots crashed) -> wf_target crashed -> 1 <= srv_limit ->
  nth_error (t_slots (fetch_header B crashed)) i = Some s -> chunk_ok Hc (s_chunk s) (s_cur s) = true ->
  collision Hc \/ ~ In i (asked_chunks (o_events (update Hc Hf A B srv_limit crashed))).
Proof. exact restart_no_refetch. Qed.
Print Assumptions C11_valid_chunks_not_requested_again.

(** ... in particular every extent that held B's bytes at the moment of the interruption *)
Theorem C11_written_chunks_not_requested_again :
  forall (Hc Hf : bytes -> bytes) (A : option oldfile) (B : newfile) (srv_limit : N) (crashed : target)
         (i : nat) (s : slot),
  wf_new Hc Hf B (t_slots crashed) -> wf_target crashed -> 1 <= srv_limit ->
  nth_error (t_slots crashed) i = Some s -> s_cur s = s_srv s ->
  collision Hc \/ ~ In i (asked_chunks (o_events (update Hc Hf A B srv_limit crashed))).
Proof. exact restart_no_refetch_written. Qed.
Print Assumptions C11_written_chunks_not_requested_again.

(** Interrupted runs leave targets.  The only steps of the procedure that write to the
    file are the header probe, the copy of a chunk from A, the placement of a downloaded
    chunk (or its zero-fill) and - when the process dies inside one of them - a prefix of
    such a write on top of what the extent held; each keeps every extent within its
    length, i.e. yields a [wf_target] again, to which the theorems above apply. *)
Theorem C11_interrupted_writes_leave_a_target :
  forall (Hc : bytes -> bytes),
  (forall p sl, Forall (srv_ok Hc) sl -> Forall fits sl -> Forall fits (write_prefix p sl)) /\
  (forall A sl, Forall fits sl -> Forall fits (copy_chunks Hc A sl)) /\
  (forall req i sl, Forall (srv_ok Hc) sl -> Forall fits sl -> Forall fits (fst (place Hc req i sl))) /\
  (forall s d n f, fits s -> len d <= c_clen (s_chunk s) ->
                   fits (set_cur s (firstn n d ++ skipn n (s_cur s)) f)).
Proof. intros Hc. exact (write_steps_keep_target_shape Hc Hc). Qed.
Print Assumptions C11_interrupted_writes_leave_a_target.

(* ---------------------------------------------------------------------------------- *)
(** Non-vacuity (toy checksum: sum of the bytes mod 251). *)
Definition toyH (d : bytes) : bytes := [fold_left N.add d 0 mod 251].
Definition ck (d : bytes) : chunk := mkChunk (toyH d) (len d) (len d).
Definition dict0 : chunk := mkChunk [0] 0 0.
Definition mkslots (l : list (chunk * bytes * bytes)) : list slot :=
  map (fun x => mkSlot (fst (fst x)) (snd (fst x)) (snd x) Missing) l.
Definition exB : newfile := mkB (repeat 7 100) 23 false (toyH [1;2;3;4;5;6;7;8;9]).

(** killed in the middle of chunk 2 of a single-range response for chunks 1-3: chunk 1
    complete, chunk 2 half written, chunk 3 untouched (file ends in chunk 2) *)
Definition crashed1 : target :=
  mkT (repeat 7 100) (mkslots [(dict0, [], []); (ck [1;2;3], [1;2;3], [1;2;3]); (ck [4;5], [4;5], [4]);
                               (ck [6;7;8;9], [6;7;8;9], [])]) [].

Example C11_ex_restart :
  let o := update toyH toyH None exB 1000 crashed1 in
  o_status o = Done 0 /\ o_events o = [Served [2; 3]%nat 1] /\
  map s_cur (t_slots (o_target o)) = [[]; [1;2;3]; [4;5]; [6;7;8;9]].
Proof. vm_compute. repeat split; reflexivity. Qed.

(** the half-written chunk is not trusted by the scan *)
Example C11_ex_partial_not_valid :
  map s_flag (snd (find_valid toyH toyH exB (t_slots (fetch_header exB crashed1)))) = [Valid; Valid; Failed; Failed].
Proof. vm_compute. reflexivity. Qed.

(** killed while the header was being written (header region holds 40 bytes), nothing else:
    with A providing chunk 1 *)
Definition crashed2 : target :=
  mkT (repeat 7 40) (mkslots [(dict0, [], []); (ck [1;2;3], [1;2;3], []); (ck [4;5], [4;5], []);
                              (ck [6;7;8;9], [6;7;8;9], [])]) [].
Example C11_ex_restart_header :
  let o := update toyH toyH (Some [(ck [1;2;3], [1;2;3])]) exB 1 crashed2 in
  o_status o = Done 0 /\ o_events o = [Served [2; 3]%nat 1] /\
  t_hdr (o_target o) = b_hdr exB /\
  map s_cur (t_slots (o_target o)) = [[]; [1;2;3]; [4;5]; [6;7;8;9]].
Proof. vm_compute. repeat split; reflexivity. Qed.

(* ==================================================================================== *)
(** * C11 at byte level (Dl/UpdateByteResume.v over the composed theorem of C04)

    [BF.byte_update] is the byte-level run of zck_dl.c assembled from the component models
    of the other verticals (see C04_byte_level_reconstructs_B).  [BRs.good_B H p h fb]: B
    ([fb]) is accepted by the header reader with record [h], is valid and ends with its data
    section.  [tf_crash] is ANY byte string - whatever an interruption after any number
    of written bytes, in the header, inside a chunk, inside a multipart part header (part
    headers are never written to the file), left at the target path; the flag list and the
    context state the restart starts with are arbitrary as well.  The statements therefore
    also cover a restart that is itself interrupted, any number of times. *)
From ZV Require Format.Header Format.ParseImpl Format.ParseExamples Read.Scan Dl.DlWrite
                Dl.UpdateLink Dl.UpdateByteRun Dl.UpdateByteFinal Dl.UpdateByteResume.
Module BRs := Dl.UpdateByteResume.
Module BF := Dl.UpdateByteFinal.
Module BR := Dl.UpdateByteRun.
Module L := Dl.UpdateLink.
Module Hd := Format.Header.
Module Sc := Read.Scan.
Module PI := Format.ParseImpl.

(** (a) the restart converges: the reader finds B's header in the target after the header
    fetch, and the run ends regularly with the target byte-identical to B and every flag 1 -
    or two different byte strings with the same chunk checksum exist. *)
Theorem C11_byte_level_restart_converges :
  forall (H : N -> bytes -> bytes) (p : PI.pins) (h : Hd.header) (fb : bytes),
  BRs.good_B H p h fb ->
  forall (old : option (Hd.header * bytes)) (serve : list Dl.DlWrite.rentry -> BR.resp) (srv : N)
         (tf_crash : bytes) (fl : list Z) (st : Sc.rstate),
  BF.old_ok h old -> 1 <= srv -> BF.serves_B h fb serve ->
  PI.parse_impl H p (BRs.after_fetch h fb tf_crash) = PI.POk h /\
  (collision (L.Hc_of H h) \/
   exists fl' ev, BF.byte_update H h fb old serve srv tf_crash fl st = Some (BR.BFinish, fl', fb, ev) /\
                  (forall i c, nth_error (Hd.h_chunks h) i = Some c -> nth i fl' 0%Z = 1%Z)).
Proof. exact BRs.restart_converges. Qed.
Print Assumptions C11_byte_level_restart_converges.

(** (b) nothing that is completely and correctly in the partial file is fetched again.  In the
    run from [tf_crash]: no chunk is served twice; every request - served or refused - asks
    only for chunks whose extent in the target after the header fetch does NOT pass the
    validity test (C09: inside the file and hashing to the index digest) and which the old
    file cannot supply; conversely a chunk whose extent lies inside that file and hashes to
    its digest appears in no request.  (Requests are lists of chunk indices; the byte ranges
    are the merged extents of these chunks: C04_link_missing_range / C10.) *)
Theorem C11_byte_level_no_refetch :
  forall (H : N -> bytes -> bytes) (p : PI.pins) (h : Hd.header) (fb : bytes),
  BRs.good_B H p h fb ->
  forall (old : option (Hd.header * bytes)) (serve : list Dl.DlWrite.rentry -> BR.resp) (srv : N)
         (tf_crash : bytes) (fl : list Z) (st : Sc.rstate),
  BF.old_ok h old -> 1 <= srv -> BF.serves_B h fb serve ->
  collision (L.Hc_of H h) \/
  exists fl' ev, BF.byte_update H h fb old serve srv tf_crash fl st = Some (BR.BFinish, fl', fb, ev) /\
    NoDup (served_chunks ev) /\
    (forall i, In i (asked_chunks ev) ->
       exists c, nth_error (Hd.h_chunks h) i = Some c /\
         Sc.present h (BRs.after_fetch h fb tf_crash) c &&
         Sc.digest_ok H h c (Sc.stored h (BRs.after_fetch h fb tf_crash) c) = false /\
         usable_in (L.Hc_of H h) (BF.old_abs old) (L.uchunk c) = false) /\
    (forall i c, nth_error (Hd.h_chunks h) i = Some c ->
       Sc.present h (BRs.after_fetch h fb tf_crash) c = true ->
       Sc.digest_ok H h c (Sc.stored h (BRs.after_fetch h fb tf_crash) c) = true ->
       ~ In i (asked_chunks ev)).
Proof. exact BRs.restart_no_refetch. Qed.
Print Assumptions C11_byte_level_no_refetch.

(** (c) partial chunks are never trusted: the validity scan of the restart (byte-level model
    of validate_checksums, any flags and context state before) terminates, leaves the file
    as it is, and flags a chunk 1 only if it is the empty first entry or its whole extent
    lies inside the file and its bytes hash to the index digest. *)
Theorem C11_byte_level_partial_never_trusted :
  forall (H : N -> bytes -> bytes) (p : PI.pins) (h : Hd.header) (fb : bytes),
  BRs.good_B H p h fb ->
  forall (tf_crash : bytes) (fl : list Z) (st : Sc.rstate),
  exists r, Sc.validate_checksums H h (BRs.after_fetch h fb tf_crash) fl st = Some r /\
    Sc.s_file r = BRs.after_fetch h fb tf_crash /\
    forall i c, nth_error (Hd.h_chunks h) i = Some c -> nth_error (Sc.s_flags r) i = Some 1%Z ->
      Sc.empty_first (Nat.eqb i 0) c = true \/
      (Sc.present h (BRs.after_fetch h fb tf_crash) c = true /\
       Sc.digest_ok H h c (Sc.stored h (BRs.after_fetch h fb tf_crash) c) = true).
Proof. exact BRs.restart_scan_sound. Qed.
Print Assumptions C11_byte_level_partial_never_trusted.

(** Non-vacuity: the sealed toy file of the C04 examples (empty dictionary entry, chunks "abc"
    and "de", header 99 bytes), interrupted (1) two bytes into "abc", (2) after "abc" and one
    byte of "de", (3) in the middle of the header. *)
Definition cx_z16 : bytes := repeat 0 16%nat.
Definition cx_c1 : bytes := [97; 98; 99].
Definition cx_c2 : bytes := [100; 101].
Definition cx_d (m : bytes) : bytes := Format.ParseExamples.toyH 3 m.
Definition cx_index : bytes :=
  [131; 131] ++ cx_z16 ++ [128; 128] ++ cx_d cx_c1 ++ [131; 131] ++ cx_d cx_c2 ++ [130; 130].
Definition cx_hdr : bytes := cx_d (cx_c1 ++ cx_c2) ++ [128; 128; 184] ++ cx_index ++ [128].
Definition cx_file : bytes :=
  Hd.magic_zck ++ [131; 204] ++ cx_d (Hd.magic_zck ++ [131; 204] ++ cx_hdr) ++ cx_hdr ++ cx_c1 ++ cx_c2.
Definition cx_h : Hd.header :=
  Hd.mkHeader false 3 23 76 (cx_d (Hd.magic_zck ++ [131; 204] ++ cx_hdr)) (cx_d (cx_c1 ++ cx_c2)) 0 0 3 3
    [Hd.mkChunk cx_z16 None 0 0 0; Hd.mkChunk (cx_d cx_c1) None 3 3 0; Hd.mkChunk (cx_d cx_c2) None 2 2 3] 19 56.

Example C11_ex_byte_level_good_B : BRs.good_B Format.ParseExamples.toyH PI.no_pins cx_h cx_file.
Proof.
  split; [vm_compute; reflexivity|]. split; [apply wf_bytesb_spec; vm_compute; reflexivity|].
  split; [reflexivity|]. split; [split; [repeat constructor|reflexivity]|].
  split; [vm_compute; reflexivity|]. split; [vm_compute; reflexivity|].
  split; [repeat constructor|intros _; vm_compute; reflexivity].
Qed.

(** (1) killed two bytes into chunk 1: the restart does not trust the partial chunk (flags after
    its scan: dictionary valid, the others failed) and fetches chunks 1 and 2 *)
Example C11_ex_byte_level_mid_chunk :
  let crash := firstn 101 cx_file in
  BF.byte_update Format.ParseExamples.toyH cx_h cx_file None (BF.plain_server cx_h cx_file) 1000 crash [] (Sc.opened cx_h)
    = Some (BR.BFinish, [1; 1; 1]%Z, cx_file, [Served [1; 2]%nat 1]) /\
  (match Sc.validate_checksums Format.ParseExamples.toyH cx_h (BRs.after_fetch cx_h cx_file crash) [] (Sc.opened cx_h) with
   | Some r => Sc.s_flags r | None => [] end) = [1; -1; -1]%Z.
Proof. vm_compute. split; reflexivity. Qed.

(** (2) killed after chunk 1 and one byte of chunk 2: chunk 1 is not requested again *)
Example C11_ex_byte_level_no_refetch :
  BF.byte_update Format.ParseExamples.toyH cx_h cx_file None (BF.plain_server cx_h cx_file) 1000
                 (firstn 103 cx_file) [] (Sc.opened cx_h)
    = Some (BR.BFinish, [1; 1; 1]%Z, cx_file, [Served [2]%nat 1]).
Proof. vm_compute. reflexivity. Qed.

(** (3) killed in the middle of the header, garbage behind it; then the restart is itself
    interrupted after chunk 1 (the state of (2)) and restarted once more *)
Example C11_ex_byte_level_header_then_again :
  BF.byte_update Format.ParseExamples.toyH cx_h cx_file None (BF.plain_server cx_h cx_file) 1
                 (firstn 40 cx_file ++ [7; 7; 7]) [] (Sc.opened cx_h)
    = Some (BR.BFinish, [1; 1; 1]%Z, cx_file, [Served [1; 2]%nat 1]) /\
  BF.byte_update Format.ParseExamples.toyH cx_h cx_file None (BF.plain_server cx_h cx_file) 1
                 (firstn 102 cx_file) [] (Sc.opened cx_h)
    = Some (BR.BFinish, [1; 1; 1]%Z, cx_file, [Served [2]%nat 1]).
Proof. vm_compute. split; reflexivity. Qed.
