(** C19 - independent contexts do not interfere when used from different threads.
    Only statements; every proof is [exact lemma].

    What is proved here: (T19.1) the interleaving argument - threads whose steps never write the
    shared store get, under every interleaving, the results of their serial runs; (T19.2) the
    obligation that makes T19.1 applicable to this working tree - every writable static of the
    compiled library (inventory regenerated from the object files on every run) is on the
    reviewed list "written only by the zck_set_log_* setup calls, or never"; (T19.3) the
    shared-buffer shape of the unchanged tree (D30) violates the conclusion, its repaired twin
    satisfies it.  What is NOT proved here: that the library's C code touches nothing but its
    own contexts and these statics (heap objects reachable from two contexts, libc/OpenSSL/zstd
    internals, the C memory model) - that part is the ThreadSanitizer + randomised/forced
    interleaving runs of tools/props/c19.py. *)
From Coq Require Import NArith List String Bool.
From ZV Require Import Gen.GenStatics Conc.Interleave Conc.InterleaveProofs Conc.Statics Conc.StaticsProofs.
Import ListNotations.

(** T19.1 non-interference, N threads (thread ids of any type with a correct equality test),
    every schedule that is an interleaving of the threads' step lists, no bound on lengths. *)
Theorem C19_noninterference :
  forall (P S O T : Type) (T_eqb : T -> T -> bool),
  (forall a b, T_eqb a b = true <-> a = b) ->
  forall (prog : T -> list (step P S O)) (sched : list (T * step P S O)) (c : cfg P S O T),
  is_interleaving T_eqb prog sched ->
  (forall i, Forall frame_ok (prog i)) ->
  shared (run T_eqb sched c) = shared c /\
  forall i,
    priv (run T_eqb sched c) i = fst (fst (run_thread (prog i) (priv c i) (shared c))) /\
    outs (run T_eqb sched c) i = outs c i ++ snd (run_thread (prog i) (priv c i) (shared c)).
Proof. exact noninterference. Qed.
Print Assumptions C19_noninterference.

(** T19.1 as the property words it: any interleaving = the threads run one after another. *)
Theorem C19_concurrent_equals_serial :
  forall (P S O T : Type) (T_eqb : T -> T -> bool),
  (forall a b, T_eqb a b = true <-> a = b) ->
  forall (prog : T -> list (step P S O)) (ids : list T) (sched : list (T * step P S O)) (c : cfg P S O T),
  NoDup ids -> (forall i, In i ids \/ prog i = []) ->
  is_interleaving T_eqb prog sched ->
  (forall i, Forall frame_ok (prog i)) ->
  shared (run T_eqb sched c) = shared (run T_eqb (serial_schedule ids prog) c) /\
  forall i, priv (run T_eqb sched c) i = priv (run T_eqb (serial_schedule ids prog) c) i /\
            outs (run T_eqb sched c) i = outs (run T_eqb (serial_schedule ids prog) c) i.
Proof. exact concurrent_equals_serial. Qed.
Print Assumptions C19_concurrent_equals_serial.

(** [interleavings a b] is exactly the set of interleavings of two threads ... *)
Theorem C19_interleavings_exact :
  forall (P S O : Type) (a b : list (step P S O)) (m : list (bool * step P S O)),
  In m (interleavings a b) <-> is_interleaving Bool.eqb (prog2 P S O a b) m.
Proof. exact interleavings_exact. Qed.
Print Assumptions C19_interleavings_exact.

(** ... and T19.1 over that enumeration (two threads) and over [interleavingsN] (N threads). *)
Theorem C19_noninterference_two :
  forall (P S O : Type) (a b : list (step P S O)) m (c : cfg P S O bool),
  Forall frame_ok a -> Forall frame_ok b -> In m (interleavings a b) ->
  shared (run Bool.eqb m c) = shared c /\
  priv (run Bool.eqb m c) true = fst (fst (run_thread a (priv c true) (shared c))) /\
  outs (run Bool.eqb m c) true = outs c true ++ snd (run_thread a (priv c true) (shared c)) /\
  priv (run Bool.eqb m c) false = fst (fst (run_thread b (priv c false) (shared c))) /\
  outs (run Bool.eqb m c) false = outs c false ++ snd (run_thread b (priv c false) (shared c)).
Proof. exact noninterference2. Qed.
Print Assumptions C19_noninterference_two.

Theorem C19_noninterference_N :
  forall (P S O : Type) (ts : list (list (step P S O))) m (c : cfg P S O nat),
  Forall (Forall frame_ok) ts -> In m (interleavingsN ts) ->
  shared (run Nat.eqb m c) = shared c /\
  forall i,
    priv (run Nat.eqb m c) i = fst (fst (run_thread (nth i ts []) (priv c i) (shared c))) /\
    outs (run Nat.eqb m c) i = outs c i ++ snd (run_thread (nth i ts []) (priv c i) (shared c)).
Proof. exact noninterferenceN. Qed.
Print Assumptions C19_noninterference_N.

(** T19.2 the inventory obligation on the GENERATED list of writable statics of this tree. *)
Theorem C19_inventory_allowed : forallb allowed statics = true.
Proof. exact inventory_allowed. Qed.
Print Assumptions C19_inventory_allowed.

(** ... every entry is a reviewed one whose only writers are zck_set_log_* setup calls ... *)
Theorem C19_every_static_reviewed : forall f s n,
  In (f, s, n) statics ->
  exists r, In r reviewed /\ r_file r = f /\ r_sym r = s /\ (n <= r_maxsize r)%N /\
            forall w, In w (r_writers r) -> setup_call w = true.
Proof. exact every_static_reviewed. Qed.
Print Assumptions C19_every_static_reviewed.

(** ... and the functions found (syntactically) to write them are among those setup calls. *)
Theorem C19_inventory_writers :
  same_keys statics static_writers = true /\ forallb writers_ok static_writers = true.
Proof. exact inventory_writers. Qed.
Print Assumptions C19_inventory_writers.

(** T19.3 the copy loop with its buffer in the shared store (the unchanged tree, D30): there is
    an interleaving (A reads, B reads, A writes) after which A's file holds B's bytes. *)
Theorem C19_shared_buffer_refuted :
  ~ (forall m, In m (interleavings (copy_shared 1) (copy_shared 1)) ->
       priv (run Bool.eqb m witness_start) true =
       fst (fst (run_thread (copy_shared 1) (priv witness_start true) (shared witness_start)))).
Proof. exact shared_buffer_refuted. Qed.
Print Assumptions C19_shared_buffer_refuted.

(** ... and the repaired twin (buffer in the private state): under every interleaving of two
    copy loops of any lengths each file is the copy of its own source. *)
Theorem C19_private_buffer_repaired : forall (bsA bsB : list block) m s0,
  In m (interleavings (copy_private (List.length bsA)) (copy_private (List.length bsB))) ->
  let c0 := mkcfg (fun t : bool => if t then mkcpriv' bsA [] [] else mkcpriv' bsB [] []) s0 (fun _ => []) in
  file' (priv (run Bool.eqb m c0) true) = List.concat bsA /\
  file' (priv (run Bool.eqb m c0) false) = List.concat bsB /\
  shared (run Bool.eqb m c0) = s0.
Proof. exact private_buffer_repaired. Qed.
Print Assumptions C19_private_buffer_repaired.

(** the witness, by computation *)
Example C19_witness_in : In witness_schedule (interleavings (copy_shared 1) (copy_shared 1)).
Proof. exact witness_is_interleaving. Qed.
Example C19_witness_serial : file (fst (fst (run_thread (copy_shared 1) (mkcpriv srcA []) []))) = [1; 2; 3]%nat.
Proof. vm_compute. reflexivity. Qed.
Example C19_witness_concurrent : file (priv (run Bool.eqb witness_schedule witness_start) true) = [7; 8; 9]%nat.
Proof. vm_compute. reflexivity. Qed.
Example C19_rd_shared_breaks_discipline : ~ frame_ok rd_shared.
Proof. exact rd_shared_not_frame_ok. Qed.
(** the inventory check rejects the buffers of the unchanged tree *)
Example C19_D30_rejected : allowed ("dl/dl.c", "buf", 32768%N)%string = false.
Proof. vm_compute. reflexivity. Qed.
Example C19_D31_rejected :
  allowed ("comp/comp.c", "unknown", 30%N)%string = false /\ allowed ("hash/hash.c", "unknown", 31%N)%string = false.
Proof. split; vm_compute; reflexivity. Qed.
