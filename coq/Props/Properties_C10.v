(** C10 — missing-range requests cover exactly the missing chunks.
    Only statements; every proof is [exact lemma]. *)
From ZV Require Import Base.Bytes Gen.GenConsts Dl.Range Dl.RangeProofs Dl.RangeChar Dl.RangeCharProofs.
Local Open Scope N_scope.

(** T10.1 the request is ascending, non-overlapping, non-adjacent, without empty items. *)
Theorem C10_separated : forall hdr l limit rs idx cnt,
  wf_table hdr l -> missing_range hdr l limit = (rs, idx, cnt) -> separated rs.
Proof. exact ranges_separated. Qed.
Print Assumptions C10_separated.

(** T10.2 / T10.3 / T10.5: for every well-formed table, validity marking and limit there is
    a prefix [cov] (file order) of the missing chunks that have bytes such that the bytes
    requested are exactly the bytes of the chunks of [cov]; [cov] is everything when the
    limit is negative and non-empty when anything is missing; with a limit there are at most
    max(limit, 1) ranges; the range index is [cov] as (number, stored size) in order and
    the count is the number of ranges. *)
Theorem C10_cover_prefix : forall hdr l limit rs idx cnt,
  wf_table hdr l -> missing_range hdr l limit = (rs, idx, cnt) ->
  exists cov suf,
    fetchable l = cov ++ suf /\
    (forall b, covers rs b <-> exists nc, In nc cov /\ in_ext hdr (snd nc) b) /\
    ((limit < 0)%Z -> suf = []) /\
    (fetchable l <> [] -> cov <> []) /\
    ((0 <= limit)%Z -> N.of_nat (length rs) <= N.max (Z.to_N limit) 1) /\
    idx = entries cov /\
    cnt = N.of_nat (length rs).
Proof. exact ranges_cover_prefix. Qed.
Print Assumptions C10_cover_prefix.

(** The same prefix read as a prefix of all missing chunks (those without bytes have an
    empty extent). *)
Theorem C10_prefix_of_missing : forall hdr l limit rs idx cnt,
  wf_table hdr l -> missing_range hdr l limit = (rs, idx, cnt) ->
  exists pre suf,
    missing l = pre ++ suf /\
    (forall b, covers rs b <-> exists nc, In nc pre /\ in_ext hdr (snd nc) b) /\
    idx = entries (filter has_bytes pre) /\
    ((limit < 0)%Z -> pre = missing l).
Proof. exact ranges_prefix_of_missing. Qed.
Print Assumptions C10_prefix_of_missing.

(** T10.4 no byte of the header and no byte of a chunk that is not missing is requested. *)
Theorem C10_confined : forall hdr l limit rs idx cnt b,
  wf_table hdr l -> missing_range hdr l limit = (rs, idx, cnt) -> covers rs b ->
  hdr <= b /\ forall c, In c l -> c_valid c <> 0%Z -> ~ in_ext hdr c b.
Proof. exact ranges_confined. Qed.
Print Assumptions C10_confined.

(** The implementation model computes the specification function. *)
Theorem C10_refines_spec : forall hdr l limit,
  wf_table hdr l -> missing_range hdr l limit = spec_missing_ranges hdr l limit.
Proof. exact missing_range_refines_spec. Qed.
Print Assumptions C10_refines_spec.

(** range_add always appends or merges with the last item: for a chunk behind everything
    requested so far the general insertion walk and the merge pass reduce to [snoc_merge],
    one index entry is appended and [count] stays the number of items. *)
Theorem C10_add_is_append_or_merge : forall hdr c num items idx,
  0 < hdr -> sep hdr items -> below items (hdr + c_start c) -> 0 < c_len c ->
  hdr + c_start c + c_len c < two64 ->
  range_add hdr c num (mkR items (N.of_nat (length items)) idx) =
  mkR (snoc_merge items (fst (ext hdr c)) (snd (ext hdr c)))
      (N.of_nat (length (snoc_merge items (fst (ext hdr c)) (snd (ext hdr c)))))
      ((num, c_len c) :: idx).
Proof. exact range_add_spec. Qed.
Print Assumptions C10_add_is_append_or_merge.

(** T10.6 the rendered string is the comma-separated start-end list, however often the
    buffer has to grow, for every text an [int]-sized buffer can hold
    ([RC_TEXT_MAX] = INT_MAX * 2 / 3 characters, i.e. any list of up to 34 087 042 ranges);
    the empty list gives the empty string without touching memory outside the buffer. *)
Theorem C10_range_string : forall ris,
  ris <> [] -> text_len ris <= RC_TEXT_MAX ->
  range_char ris = RcString (spec_range_string ris).
Proof. exact range_char_correct. Qed.
Print Assumptions C10_range_string.

Theorem C10_range_string_by_count : forall ris,
  ris <> [] -> N.of_nat (length ris) <= RC_TEXT_MAX / 42 ->
  range_char ris = RcString (spec_range_string ris).
Proof. exact range_char_correct_count. Qed.
Print Assumptions C10_range_string_by_count.

Theorem C10_range_string_empty : range_char [] = RcString [].
Proof. exact range_char_empty. Qed.
Print Assumptions C10_range_string_empty.

Theorem C10_range_string_safe : forall ris,
  text_len ris <= RC_TEXT_MAX -> exists s, range_char ris = RcString s.
Proof. exact range_char_safe. Qed.
Print Assumptions C10_range_string_safe.

Theorem C10_get_range : forall s e, get_range s e = RcString (show_range (s, e)).
Proof. exact get_range_correct. Qed.
Print Assumptions C10_get_range.

(** The digits denote the number. *)
Theorem C10_show_N_value : forall n, dec_value (show_N n) = u64 n.
Proof. exact show_N_value. Qed.
Print Assumptions C10_show_N_value.

(** Non-vacuity. *)
Definition ex_table : list chunk :=
  [mkChunk 0 0 0; mkChunk 0 10 0; mkChunk 10 20 1; mkChunk 30 5 0; mkChunk 35 0 0;
   mkChunk 35 7 0; mkChunk 42 9 (-1); mkChunk 51 3 0].
Example C10_ex_wf : wf_tableb 100 ex_table = true.
Proof. vm_compute. reflexivity. Qed.
Example C10_ex_unlimited :
  missing_range 100 ex_table (-1) = ([(100, 109); (130, 141); (151, 153)], [(1, 10); (3, 5); (5, 7); (7, 3)], 3).
Proof. vm_compute. reflexivity. Qed.
Example C10_ex_limit2 :
  missing_range 100 ex_table 2 = ([(100, 109); (130, 134)], [(1, 10); (3, 5)], 2).
Proof. vm_compute. reflexivity. Qed.
Example C10_ex_string :
  range_char [(100, 109); (130, 141); (151, 153)] =
  RcString [49;48;48;45;49;48;57;44;49;51;48;45;49;52;49;44;49;53;49;45;49;53;51].
Proof. vm_compute. reflexivity. Qed.
(** the general walk (a table the parser cannot produce): equal starts extend the item
    without a new index entry, and [count] still goes up *)
Example C10_ex_general_walk :
  missing_range 100 [mkChunk 50 10 0; mkChunk 20 10 0; mkChunk 20 30 0; mkChunk 0 100 0] (-1)
  = ([(100, 199)], [(0, 10); (1, 10); (3, 100)], 2).
Proof. vm_compute. reflexivity. Qed.
