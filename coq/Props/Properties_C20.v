(** C20 — compressed-integer codec: exact, bounded reads, overflow-rejecting.
    Only statements; every proof is [exact lemma]. *)
From ZV Require Import Base.Bytes Format.Compint Format.CompintProofs.
Local Open Scope N_scope.

(** T20.1 encode/decode round trip; at most ten bytes; exactly those bytes consumed. *)
Theorem C20_roundtrip : forall v post ln maxlen,
  v < two64 -> wf_bytes post -> ln + len (ci_from_size v) <= maxlen ->
  ci_to_size (ci_from_size v ++ post) ln maxlen = COk v (ln + len (ci_from_size v)) /\
  len (ci_from_size v) <= 10.
Proof. exact ci_roundtrip. Qed.
Print Assumptions C20_roundtrip.

(** T20.2 decoding never reads beyond the [maxlen] bytes of the buffer it was given. *)
Theorem C20_bounded_reads : forall suf ln maxlen,
  maxlen <= ln + len suf -> ci_to_size suf ln maxlen <> COOB.
Proof. exact ci_to_size_no_oob. Qed.
Print Assumptions C20_bounded_reads.

(** T20.3 a success is the exact mathematical value with its length. *)
Theorem C20_exact : forall suf ln maxlen v l',
  wf_bytes suf -> ci_to_size suf ln maxlen = COk v l' ->
  exists n, ci_value suf = Some (v, n) /\ l' = ln + N.of_nat n /\ v < two64 /\
            l' <= maxlen /\ (n <= 10)%nat.
Proof. exact ci_to_size_sound. Qed.
Print Assumptions C20_exact.

(** T20.4 complete decision: success iff terminated within the buffer, at most ten bytes,
    value below 2^64; a clean error otherwise. *)
Theorem C20_decides : forall suf ln maxlen,
  wf_bytes suf -> maxlen <= ln + len suf ->
  ci_to_size suf ln maxlen = ci_spec_decode suf ln maxlen.
Proof. exact ci_to_size_decides. Qed.
Print Assumptions C20_decides.

(** T20.5 the [int] destination: only values up to INT_MAX, larger ones rejected. *)
Theorem C20_int_exact : forall suf ln maxlen v l',
  wf_bytes suf -> ci_to_int suf ln maxlen = COk v l' ->
  exists n, ci_value suf = Some (v, n) /\ l' = ln + N.of_nat n /\ v <= INT_MAX /\ l' <= maxlen.
Proof. exact ci_to_int_sound. Qed.
Print Assumptions C20_int_exact.

Theorem C20_int_rejects_large : forall suf ln maxlen w n,
  wf_bytes suf -> maxlen <= ln + len suf ->
  ci_value suf = Some (w, n) -> INT_MAX < w -> ci_to_int suf ln maxlen = CErr.
Proof. exact ci_to_int_rejects_large. Qed.
Print Assumptions C20_int_rejects_large.

Theorem C20_int_bounded_reads : forall suf ln maxlen,
  maxlen <= ln + len suf -> ci_to_int suf ln maxlen <> COOB.
Proof. exact ci_to_int_no_oob. Qed.
Print Assumptions C20_int_bounded_reads.

(** Non-vacuity: concrete instances meeting the hypotheses. *)
Example C20_ex_roundtrip :
  ci_to_size (ci_from_size 18446744073709551615 ++ [7]) 3 13 = COk 18446744073709551615 13.
Proof. vm_compute. reflexivity. Qed.
Example C20_ex_overflow_rejected :
  ci_to_size [0;0;0;0;0;0;0;0;0;130] 0 10 = CErr /\ ci_value [0;0;0;0;0;0;0;0;0;130] = Some (2 * 2 ^ 63, 10%nat).
Proof. vm_compute. split; reflexivity. Qed.
Example C20_ex_unterminated :
  ci_to_size [1;2;3] 0 3 = CErr /\ ci_to_int [133;128;128;128;144] 0 5 = COk 5 1.
Proof. vm_compute. split; reflexivity. Qed.
