(** C03 — memory safety and termination on arbitrary file input: the part a proof carries.
    Every byte the modelled header parser reads goes through a bounds-checked accessor
    (outcome [POOB]); every loop runs on fuel (outcome [PFuel]).  Heap lifetime, allocator
    failure and library internals are covered by the sanitizer runs of the check, not here. *)
From ZV Require Import Base.Bytes Format.Header Format.ParseImpl Format.ParseLemmas Format.ParseProofs
     Format.ParseExamples.
Local Open Scope N_scope.

(** T3.1 for arbitrary bytes, arbitrary pins and an arbitrary hash function: no access of
    read_lead / read_header_from_file / read_preface / read_index / index_read / read_sig
    leaves its buffer, and the optional-element and index loops terminate within the fuel
    (header length resp. index size + 1) the model gives them. *)
Theorem C03_parser_memory_safe_and_terminates : forall (H : N -> bytes -> bytes) p f,
  parse_impl H p f <> POOB /\ parse_impl H p f <> PFuel.
Proof. exact parse_impl_total. Qed.
Print Assumptions C03_parser_memory_safe_and_terminates.

(** T3.2 what later API calls rely on after a successful open: at least one chunk (the
    dictionary entry: first-chunk dereferences, the divisor of zck_delta_size), the count
    equal to the list length, offsets exact prefix sums, everything representable as ssize_t. *)
Theorem C03_api_preconditions : forall (H : N -> bytes -> bytes) p f h,
  wf_bytes f -> parse_impl H p f = POk h ->
  h_count h = N.of_nat (length (h_chunks h)) /\ 1 <= h_count h /\
  starts_ok 0 (h_chunks h) /\
  h_lead h + h_hlen h + data_total (h_chunks h) <= SSIZE_MAX /\
  Forall (fun c => c_ulen c <= SSIZE_MAX) (h_chunks h).
Proof. exact parse_impl_count_starts. Qed.
Print Assumptions C03_api_preconditions.

Example C03_ex_open : exists h, parse_impl toyH no_pins ex1_file = POk h /\ length (h_chunks h) = 2%nat.
Proof. eexists. split; [vm_compute; reflexivity | reflexivity]. Qed.
