(** C09 — the validity scan classifies every chunk exactly and is side-effect free.
    Only statements; every proof is [exact lemma].  Model: Read/Scan.v (implementation
    model [validate_checksums] / [validate_data] / [run_ops], specification layer
    [chunk_good] / [expected_flags] / [expected_ret] / [spec_ops]); proofs: Read/ScanProofs.v.
    [H] (hash type -> message -> digest) is universally quantified; nothing is assumed of it. *)
From ZV Require Import Base.Bytes Gen.GenConsts Format.Header Format.ParseImpl Format.ParseProofs
                       Format.ParseExamples Read.Scan Read.ScanProofs.
Local Open Scope N_scope.

(** T9.1 + T9.2 + T9.3, complete file.  For every header whose offsets are running sums and
    every file that holds at least the header, whatever the flags and the context state
    before the call: the scan terminates, returns [expected_ret], leaves exactly
    [expected_flags] in the chunk table, leaves the file as it was, and the context at the
    start of the data section with a fresh data-hash accumulator. *)
Theorem C09_scan_exact : forall (H : N -> bytes -> bytes) h f fl st,
  scan_wf h f -> h_detached h = false ->
  exists ch, validate_checksums H h f fl st =
    Some (mkS (expected_ret H h f) (expected_flags H h f) (mkR (data_offset h) (HOpen []) ch) f).
Proof. exact validate_checksums_full. Qed.
Print Assumptions C09_scan_exact.

(** T9.1 chunk by chunk: [expected_flags] marks chunk i valid exactly when it is the empty
    first entry, or its whole extent [data_offset + start, + stored size) lies inside the
    file and (stored size > 0: the bytes there hash to the index digest; stored size = 0:
    the index digest is all zeros) — unless every chunk is good, the flag is not set and
    the data digest does not match: then every chunk is failed. *)
Theorem C09_flag_of_chunk : forall (H : N -> bytes -> bytes) h f i c,
  nth_error (h_chunks h) i = Some c ->
  nth_error (expected_flags H h f) i =
  Some (if all_true (classify H h f true (h_chunks h)) && negb (uflag h) && negb (data_good H h f)
        then (-1)%Z else flag_of (chunk_good H h f (i =? 0)%nat c)).
Proof. exact expected_flags_nth. Qed.
Print Assumptions C09_flag_of_chunk.

(** T9.2 the verdict is 1 exactly when every chunk is good and (uncompressed-source flag, or
    the data digest matches); otherwise it is -1 (never the error value 0). *)
Theorem C09_verdict : forall (H : N -> bytes -> bytes) h f,
  (expected_ret H h f = 1%Z <->
   (forall i c, nth_error (h_chunks h) i = Some c -> chunk_good H h f (i =? 0)%nat c = true) /\
   (uflag h = true \/ data_good H h f = true)) /\
  (expected_ret H h f = 1%Z \/ expected_ret H h f = (-1)%Z).
Proof. exact expected_ret_char. Qed.
Print Assumptions C09_verdict.

(** T9.1/T9.2 for a detached header: only the dictionary entry is classified, the other
    flags keep their values, the verdict is the dictionary's. *)
Theorem C09_scan_detached : forall (H : N -> bytes -> bytes) h f fl st,
  scan_wf h f -> h_detached h = true ->
  exists ch, validate_checksums H h f fl st =
    Some (mkS (flag_of (dict_good H h f)) (expected_flags_detached H h f fl)
              (mkR (data_offset h) (HOpen []) ch) f).
Proof. exact validate_checksums_detached. Qed.
Print Assumptions C09_scan_detached.

(** data-checksum validation (no uncompressed-source flag; with the flag it is the scan):
    1 exactly when all data is present and hashes to the data digest, flags untouched. *)
Theorem C09_validate_data : forall (H : N -> bytes -> bytes) h f fl st,
  scan_wf h f -> uflag h = false ->
  validate_data H h f fl st =
    Some (mkS (expected_data_ret H h f) fl (mkR (data_offset h) (HOpen []) (r_chunk st)) f).
Proof. exact validate_data_spec. Qed.
Print Assumptions C09_validate_data.

(** T9.3 + T9.4 for every sequence of validate-all / validate-data / find-valid calls, from any
    flags and any context state: every call terminates with the specified verdict and
    flags (which therefore do not depend on the calls before it), the file is unchanged
    after every call, and the reader-relevant state after every call — and at the end, if it
    was so at the start — is the state right after opening ([req]: file position at the data
    section, data hash fresh; [comp_read] re-initialises the chunk hash itself). *)
Theorem C09_any_sequence : forall (H : N -> bytes -> bytes) h f,
  scan_wf h f -> forall os fl st,
  exists rs fl' st',
    run_ops H h os f fl st = Some (rs, f, fl', st') /\
    map (fun r => (s_ret r, s_flags r)) rs = spec_ops H h f os fl /\
    Forall (fun r => s_file r = f /\ req (s_state r) (opened h)) rs /\
    (req st (opened h) -> req st' (opened h)).
Proof. exact run_ops_spec. Qed.
Print Assumptions C09_any_sequence.

(** the hypothesis [scan_wf] holds for every file the header reader (model, C13) accepts *)
Theorem C09_wf_of_parsed : forall (H : N -> bytes -> bytes) p f h,
  wf_bytes f -> parse_impl H p f = POk h -> scan_wf h f.
Proof. exact parse_impl_scan_wf. Qed.
Print Assumptions C09_wf_of_parsed.

(** * Non-vacuity (toy hash: sum of the message bytes, counted up) *)
Definition exd (m : bytes) : bytes := toyH 3 m.
Definition ex_c1 : bytes := [97; 98; 99].
Definition ex_c2 : bytes := [100; 101].
Definition ex_h (detached : bool) (flags : N) (dd : bytes) : header :=
  mkHeader detached 3 10 20 (repeat 0 16%nat) dd flags 0 3 3
           [mkChunk (repeat 0 16%nat) None 0 0 0; mkChunk (exd ex_c1) None 3 3 0; mkChunk (exd ex_c2) None 2 2 3] 0 0.
Definition ex_hdr_bytes : bytes := repeat 7 30%nat.
Definition ex_good : header := ex_h false 0 (exd (ex_c1 ++ ex_c2)).
Definition st0 := opened ex_good.

Example C09_ex_all_valid :
  validate_checksums toyH ex_good (ex_hdr_bytes ++ ex_c1 ++ ex_c2) [0; 0; 0]%Z st0 =
  Some (mkS 1 [1; 1; 1]%Z (mkR 30 (HOpen []) HClosed) (ex_hdr_bytes ++ ex_c1 ++ ex_c2)).
Proof. vm_compute. reflexivity. Qed.
(** garbage in the last chunk / last byte missing / file over-long *)
Example C09_ex_garbage :
  validate_checksums toyH ex_good (ex_hdr_bytes ++ ex_c1 ++ [100; 102]) [0; 0; 0]%Z st0 =
  Some (mkS (-1) [1; 1; -1]%Z (mkR 30 (HOpen []) HClosed) (ex_hdr_bytes ++ ex_c1 ++ [100; 102])).
Proof. vm_compute. reflexivity. Qed.
Example C09_ex_truncated :
  validate_checksums toyH ex_good (ex_hdr_bytes ++ ex_c1 ++ [100]) [1; 1; 1]%Z st0 =
  Some (mkS (-1) [1; 1; -1]%Z (mkR 30 (HOpen []) (HOpen [])) (ex_hdr_bytes ++ ex_c1 ++ [100])).
Proof. vm_compute. reflexivity. Qed.
Example C09_ex_overlong :
  validate_checksums toyH ex_good (ex_hdr_bytes ++ ex_c1 ++ ex_c2 ++ [1; 2; 3]) [0; 0; 0]%Z st0 =
  Some (mkS 1 [1; 1; 1]%Z (mkR 30 (HOpen []) HClosed) (ex_hdr_bytes ++ ex_c1 ++ ex_c2 ++ [1; 2; 3])).
Proof. vm_compute. reflexivity. Qed.
(** every chunk right, data digest wrong: all failed *)
Example C09_ex_data_digest_wrong :
  validate_checksums toyH (ex_h false 0 (repeat 1 16%nat)) (ex_hdr_bytes ++ ex_c1 ++ ex_c2) [0; 0; 0]%Z st0 =
  Some (mkS (-1) [-1; -1; -1]%Z (mkR 30 (HOpen []) HClosed) (ex_hdr_bytes ++ ex_c1 ++ ex_c2)).
Proof. vm_compute. reflexivity. Qed.
(** the same with the uncompressed-source flag: the data digest is not looked at *)
Example C09_ex_uflag :
  validate_checksums toyH (ex_h false 4 (repeat 1 16%nat)) (ex_hdr_bytes ++ ex_c1 ++ ex_c2) [0; 0; 0]%Z st0 =
  Some (mkS 1 [1; 1; 1]%Z (mkR 30 (HOpen []) HClosed) (ex_hdr_bytes ++ ex_c1 ++ ex_c2)).
Proof. vm_compute. reflexivity. Qed.
(** detached header (dictionary entry empty): only entry 0 is touched *)
Example C09_ex_detached :
  validate_checksums toyH (ex_h true 0 (repeat 1 16%nat)) ex_hdr_bytes [0; -1; 0]%Z st0 =
  Some (mkS 1 [1; -1; 0]%Z (mkR 30 (HOpen []) HClosed) ex_hdr_bytes).
Proof. vm_compute. reflexivity. Qed.
(** a chunk made of two identical 32 KiB blocks, file cut 5 bytes into the second block
    (the witness of the stale-buffer defect fixed in the tree): failed *)
Definition ex_xx : bytes := repeat 9 65536%nat.
Definition ex_big : header :=
  mkHeader false 3 10 20 (repeat 0 16%nat) (exd ex_xx) 0 0 3 2
           [mkChunk (repeat 0 16%nat) None 0 0 0; mkChunk (exd ex_xx) None 65536 65536 0] 0 0.
Example C09_ex_two_equal_blocks :
  (match validate_checksums toyH ex_big (ex_hdr_bytes ++ ex_xx) [0; 0]%Z st0 with
   | Some r => (s_ret r, s_flags r) | None => (0%Z, []) end) = (1%Z, [1; 1]%Z) /\
  (match validate_checksums toyH ex_big (ex_hdr_bytes ++ repeat 9 32773%nat) [0; 0]%Z st0 with
   | Some r => (s_ret r, s_flags r) | None => (0%Z, []) end) = ((-1)%Z, [1; -1]%Z).
Proof. vm_compute. split; reflexivity. Qed.
(** a sequence of calls on the truncated file: same answers every time, data validation -1 *)
Example C09_ex_sequence :
  (match run_ops toyH ex_good [OpValidate; OpData; OpFind; OpData] (ex_hdr_bytes ++ ex_c1 ++ [100]) [0; 0; 0]%Z st0 with
   | Some (rs, f', fl', st') => (map (fun r => (s_ret r, s_flags r)) rs, fl', r_pos st', r_full st')
   | None => ([], [], 0, HClosed) end) =
  ([((-1)%Z, [1; 1; -1]%Z); ((-1)%Z, [1; 1; -1]%Z); ((-1)%Z, [1; 1; -1]%Z); ((-1)%Z, [1; 1; -1]%Z)],
   [1; 1; -1]%Z, 30, HOpen []).
Proof. vm_compute. reflexivity. Qed.
(** [scan_wf] is satisfiable through the header reader: the sealed example header of C13 *)
Example C09_ex_parsed : scan_wf ex1_header ex1_file.
Proof.
  apply (parse_impl_scan_wf toyH no_pins).
  - apply wf_bytesb_spec. vm_compute. reflexivity.
  - vm_compute. reflexivity.
Qed.
