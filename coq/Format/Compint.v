(** Compressed-integer codec: specification and faithful model of
    /repo/src/lib/compint.c (compint_from_size, compint_to_size, compint_to_int). *)
From ZV Require Import Base.Bytes Gen.GenConsts.
Local Open Scope N_scope.

(** * Specification (zchunk_format.txt): little-endian base 128, the byte with the top
    bit set is the last one.  Exact value over unbounded [N], with the encoded length. *)
Fixpoint ci_value (l : bytes) : option (N * nat) :=
  match l with
  | [] => None
  | b :: r =>
      if 128 <=? b then Some (b - 128, 1%nat)
      else match ci_value r with
           | Some (v, n) => Some (b + 128 * v, S n)
           | None => None
           end
  end.

(** * compint_from_size: the [% 128], [/ 128] loop.  Ten iterations suffice for a size_t. *)
Fixpoint ci_from_fuel (fuel : nat) (v : N) : bytes :=
  match fuel with
  | O => []
  | S f =>
      let b := v mod 128 in
      let v' := (v - b) / 128 in
      if v' =? 0 then [b + 128] else b :: ci_from_fuel f v'
  end.
Definition ci_from_size (v : N) : bytes := ci_from_fuel (N.to_nat MAX_COMP_SIZE) v.

(** * compint_to_size.  [suf] is the memory readable from the pointer [compint] on (the
    rest of the allocation); [ln] is [*length] (cursor relative to the buffer base),
    [maxlen] the caller's [max_length].  Reading [i[0]] with [suf = []] is an
    out-of-bounds access: [COOB]. *)
Inductive cres := COk (v : N) (ln : N) | CErr | COOB.

Definition last_shift : N := 64 - 7 * (MAX_COMP_SIZE - 1).

Fixpoint ci_loop (suf : bytes) (ln maxlen val old count : N) : cres :=
  if maxlen <=? ln then CErr else
  match suf with
  | [] => COOB
  | b :: suf' =>
      let done := 128 <=? b in
      let c := if done then b - 128 else b in
      if (count =? MAX_COMP_SIZE - 1) && negb (N.shiftr c last_shift =? 0) then CErr else
      let c' := u64 (c * 128 ^ count) in
      let val' := u64 (val + c') in
      let count' := count + 1 in
      if done then COk val' (ln + 1)
      else if (MAX_COMP_SIZE <=? count') || (val' <? old) then CErr
      else ci_loop suf' (ln + 1) maxlen val' val' count'
  end.

Definition ci_to_size (suf : bytes) (ln maxlen : N) : cres := ci_loop suf ln maxlen 0 0 0.

(** compint_to_int: narrowing to a non-negative [int]. *)
Definition ci_to_int (suf : bytes) (ln maxlen : N) : cres :=
  match ci_to_size suf ln maxlen with
  | COk v l' => if INT_MAX <? v then CErr else COk v l'
  | r => r
  end.

(** compint_from_int: negative values are refused. *)
Definition ci_from_int (v : Z) : option bytes :=
  if (v <? 0)%Z then None else Some (ci_from_size (Z.to_N v)).
