(** Bridge between the chunker (Chunk/Writer.v, property C16), the header writer
    (Format/HeaderWrite.v) and the reader-side specification (Read/ReadSpec.v): the file
    that zck_close produces from the chunker's chunk list opens, verifies and decodes to
    the bytes that were written.  This is the form the round-trip theorem (C01) needs.

    The compressor and the decompressor are parameters.  What is assumed of them is stated
    as hypotheses of the theorems: for compression type 0 the stored bytes are the chunk
    ([zcomp] is the identity); for zstd the decoder inverts the encoder under the same
    dictionary ([zdecomp d (zcomp d x) (len x) = Some x]) and a non-empty chunk never
    compresses to nothing (a zstd frame has a header). *)
From ZV Require Import Base.Bytes Gen.GenConsts Format.Compint Format.CompintProofs
                       Format.Header Format.ParseImpl Format.ParseLemmas Format.ParseProofs
                       Format.HeaderWrite Format.HeaderWriteProofs
                       Chunk.Buzhash Chunk.Writer Chunk.WriterProofs Chunk.WriterChunks
                       Read.ReadSpec.
From Coq Require Import ZifyBool ZifyN ZifyNat.
Ltac Zify.zify_post_hook ::= Z.div_mod_to_equations.
Local Open Scope N_scope.

Section Entries.
Variable H : N -> bytes -> bytes.
Variable zcomp : option bytes -> bytes -> bytes.

(** entry 0 as comp_init makes it: without dictionary an entry without stored bytes, sizes
    0/0 and zeroed digests (index_finish_chunk on a chunk of length 0); with a dictionary
    the dictionary compressed WITHOUT dictionary, its digest over the stored bytes, and --
    the dictionary is never fed to work_index_hash_uncomp -- the digest of the empty
    message as "uncompressed" digest. *)
Definition dict_entry (wc : wcfg) (dict : option bytes) : wchunk :=
  match dict with
  | None => mkWchunk (zeros (digest_size (w_chash wc))) (zeros (digest_size (w_chash wc))) [] 0
  | Some d => mkWchunk (H (w_chash wc) (zcomp None d)) (H (w_chash wc) []) (zcomp None d) (len d)
  end.

(** a data chunk: what C16's [stored_chunk] says is stored, plus the digest of the
    uncompressed bytes (comp_write feeds work_index_hash_uncomp with the source) *)
Definition data_entry (wc : wcfg) (dict : option bytes) (ch : bytes) : wchunk :=
  let s := stored_chunk bytes zcomp (H (w_chash wc)) dict ch in
  mkWchunk (s_digest s) (H (w_chash wc) ch) (s_data s) (s_ulen s).

Definition written_entries (wc : wcfg) (dict : option bytes) (F : list bytes) : list wchunk :=
  dict_entry wc dict :: map (data_entry wc dict) F.

Definition written_file (wc : wcfg) (dict : option bytes) (F : list bytes) : bytes :=
  file_create H wc (written_entries wc dict F).
End Entries.

(** both are what index_finish_chunk computes *)
Lemma dict_entry_finish H zcomp wc dict :
  match dict with Some d => d <> [] | None => True end ->
  dict_entry H zcomp wc dict =
  match dict with
  | None => finish_chunk H (w_chash wc) [] [] 0
  | Some d => finish_chunk H (w_chash wc) (zcomp None d) [] (len d)
  end.
Proof.
  destruct dict as [d|]; intros Hd; unfold dict_entry, finish_chunk; [|reflexivity].
  destruct d as [|x d]; [contradiction|]. rewrite len_cons.
  destruct (N.ltb_spec 0 (1 + len d)); [reflexivity|lia].
Qed.

Lemma data_entry_finish H zcomp wc dict ch :
  ch <> [] ->
  data_entry H zcomp wc dict ch = finish_chunk H (w_chash wc) (zcomp dict ch) ch (len ch).
Proof.
  intros Hn. unfold data_entry, finish_chunk, stored_chunk. cbn [s_digest s_data s_ulen].
  destruct ch as [|x ch]; [contradiction|]. rewrite len_cons.
  destruct (N.ltb_spec 0 (1 + len ch)); [reflexivity|lia].
Qed.

Lemma wf_concat_inv (l : list bytes) : wf_bytes (concat l) -> Forall wf_bytes l.
Proof.
  induction l as [|x l IH]; cbn [concat]; intros Hw; constructor.
  - apply wf_app_inv in Hw. tauto.
  - apply IH. apply wf_app_inv in Hw. tauto.
Qed.

Lemma all_zero_zeros n : all_zero (zeros n) = true.
Proof.
  unfold all_zero, zeros. apply forallb_forall. intros x Hx. apply repeat_spec in Hx. subst. reflexivity.
Qed.

Lemma len_ne_0 (l : bytes) : l <> [] -> len l <> 0.
Proof. destruct l; [contradiction|]. intros _. rewrite len_cons. lia. Qed.

Section Bridge.
Variable H : N -> bytes -> bytes.
Variable zcomp : option bytes -> bytes -> bytes.
Variable zdecomp : option bytes -> bytes -> N -> option bytes.
Hypothesis H_len : forall t m d, dsize t = Some d -> len (H t m) = d.
Hypothesis H_wf : forall t m, wf_bytes (H t m).
Hypothesis zcomp_wf : forall d x, wf_bytes x -> wf_bytes (zcomp d x).
Hypothesis zcomp_ne : forall d x, x <> [] -> zcomp d x <> [].

Variables (wc : wcfg) (dict : option bytes) (F : list bytes) (ds cds : N).
Hypothesis Hds : dsize (w_hash wc) = Some ds.
Hypothesis Hcds : dsize (w_chash wc) = Some cds.
Hypothesis Hcomp : w_comp wc = ZCK_COMP_NONE \/ w_comp wc = ZCK_COMP_ZSTD.
(** compression type 0 stores the chunk itself; the zstd decoder inverts the encoder *)
Hypothesis Hnone : w_comp wc = ZCK_COMP_NONE -> forall d x, zcomp d x = x.
Hypothesis Hzstd : w_comp wc = ZCK_COMP_ZSTD ->
                   forall d x, zdecomp d (zcomp d x) (len x) = Some x.
(** comp_init refuses an empty dictionary *)
Hypothesis Hdict : match dict with Some d => d <> [] /\ wf_bytes d | None => True end.
Hypothesis HF : Forall (fun ch : bytes => ch <> [] /\ wf_bytes ch) F.

Let E := written_entries H zcomp wc dict F.
Let f := written_file H zcomp wc dict F.
Let h := expected_header H wc E.
Hypothesis Hok : wfile_ok wc E = true.

Lemma entries_wf : Forall wchunk_wf E.
Proof.
  unfold E, written_entries. constructor.
  - unfold dict_entry. destruct dict as [d|].
    + destruct Hdict as [_ Hw]. repeat split; cbn; try apply H_wf. apply zcomp_wf. exact Hw.
    + repeat split; cbn; try apply wf_zeros. constructor.
  - apply Forall_forall. intros w Hin. apply in_map_iff in Hin. destruct Hin as (ch & <- & Hin).
    rewrite Forall_forall in HF. destruct (HF ch Hin) as [_ Hw].
    repeat split; cbn; try apply H_wf. apply zcomp_wf. exact Hw.
Qed.

Lemma opens :
  parse_impl H no_pins f = POk h /\ parse_spec H f = Some h /\ wf_bytes f.
Proof.
  apply (written_file_opens H wc E ds cds H_len H_wf Hds Hcds Hcomp Hok entries_wf).
Qed.

Lemma body_eq : body h f = file_body E.
Proof.
  unfold body, dropN, h, expected_header. cbn [h_lead h_hlen].
  apply (written_body H wc E ds H_len H_wf Hds).
Qed.

Lemma h_facts :
  h_chunks h = chunk_table (w_uflag wc) 0 E /\ h_chash h = w_chash wc /\ h_hash h = w_hash wc /\
  uflag h = w_uflag wc /\ is_zstd h = (w_comp wc =? ZCK_COMP_ZSTD) /\
  h_ddigest h = full_digest wc (data_digest H wc E).
Proof.
  unfold h, expected_header, uflag, is_zstd. cbn [h_chunks h_chash h_hash h_flags h_comp h_ddigest].
  repeat split. unfold get_flags. destruct (w_uflag wc); reflexivity.
Qed.

(** every data entry verifies and decodes to its chunk *)
Lemma data_entries_ok b first : forall (chs : list bytes) (tb : list chunk),
  Forall (fun ch : bytes => ch <> [] /\ wf_bytes ch) chs ->
  Forall2 (entry_of (w_uflag wc) b) tb (map (data_entry H zcomp wc dict) chs) ->
  forallb (chunk_ok H h b first) tb = true /\
  decode_all zdecomp (is_zstd h) dict b tb = Some (concat chs).
Proof.
  destruct h_facts as (_ & Hch & _ & _ & Hz & _).
  induction chs as [|ch chs IH]; intros tb Hne Hf2; cbn [map] in Hf2.
  - inversion Hf2; subst. split; reflexivity.
  - inversion Hf2 as [|c w tb' ws Hc Hrest]; subst. clear Hf2.
    apply Forall_cons_iff in Hne. destruct Hne as [[Hn Hw] Hne'].
    destruct (IH tb' Hne' Hrest) as [IH1 IH2].
    destruct Hc as (Hdg & _ & Hcl & Hul & Hbd & Hsub).
    cbn [data_entry stored_chunk wc_digest wc_data wc_ulen s_digest s_data s_ulen] in Hdg, Hcl, Hul, Hsub.
    assert (Hcl0 : c_clen c <> 0) by (rewrite Hcl; apply len_ne_0, zcomp_ne, Hn).
    split.
    + cbn [forallb]. rewrite IH1, andb_true_r. unfold chunk_ok.
      destruct (N.leb_spec (c_start c + c_clen c) (len b)); [|lia].
      destruct (N.eqb_spec (c_clen c) 0); [contradiction|]. cbn [andb].
      unfold stored. rewrite Hsub, Hch, Hdg. apply bytes_eqb_refl.
    + cbn [decode_all]. rewrite IH2. unfold decode_chunk, stored. rewrite Hsub, Hz, Hul.
      destruct Hcomp as [Ec|Ec].
      * rewrite Ec. change (ZCK_COMP_NONE =? ZCK_COMP_ZSTD) with false.
        rewrite Hcl, (Hnone Ec), N.eqb_refl. reflexivity.
      * rewrite Ec, N.eqb_refl, (Hzstd Ec), N.eqb_refl. reflexivity.
Qed.

Theorem written_verifies_and_decodes :
  parse_impl H no_pins f = POk h /\ parse_spec H f = Some h /\
  spec_verify H h f = true /\ spec_decode zdecomp h f = Some (concat F).
Proof.
  destruct opens as (Hp & Hs & _). split; [exact Hp|]. split; [exact Hs|].
  destruct h_facts as (Htab & Hch & Hhh & Hu & Hz & Hdd).
  assert (Hdt : data_total (h_chunks h) = len (body h f))
    by (rewrite Htab, data_total_table, body_eq; reflexivity).
  pose proof (written_chunks_located (w_uflag wc) E) as Hloc. rewrite <- body_eq in Hloc.
  assert (Etab : h_chunks h = chunk_table (w_uflag wc) 0 E) by exact Htab.
  unfold E, written_entries in Hloc, Etab. cbn [chunk_table] in Hloc, Etab.
  set (e0 := dict_entry H zcomp wc dict) in *.
  set (c0 := mkChunk (wc_digest e0) _ _ _ 0) in *.
  set (tb := chunk_table (w_uflag wc) (0 + len (wc_data e0)) _) in *.
  assert (Hc0 : entry_of (w_uflag wc) (body h f) c0 e0) by (inversion Hloc; assumption).
  assert (Hrest : Forall2 (entry_of (w_uflag wc) (body h f)) tb (map (data_entry H zcomp wc dict) F))
    by (inversion Hloc; assumption).
  clear Hloc.
  destruct (data_entries_ok (body h f) false F tb HF Hrest) as [Hv Hd].
  destruct Hc0 as (Hdg & _ & Hcl & Hul & Hbd & Hsub).
  split.
  - unfold spec_verify, chunks_ok, data_ok. rewrite Hdt, Etab, Hv, andb_true_r.
    assert (Hc0ok : chunk_ok H h (body h f) true c0 = true).
    { unfold chunk_ok. destruct (N.leb_spec (c_start c0 + c_clen c0) (len (body h f))); [|lia].
      cbn [andb]. unfold e0, dict_entry in *. destruct dict as [d|].
      - cbn [wc_digest wc_data wc_ulen] in *. destruct Hdict as [Hn _].
        destruct (N.eqb_spec (c_clen c0) 0) as [E0|_].
        { exfalso. rewrite Hcl in E0. revert E0. apply len_ne_0, zcomp_ne, Hn. }
        unfold stored. rewrite Hsub, Hch, Hdg. apply bytes_eqb_refl.
      - cbn [wc_digest wc_data wc_ulen] in *. rewrite Hcl, Hul. reflexivity. }
    rewrite Hc0ok. cbn [andb].
    rewrite N.leb_refl. cbn [andb]. rewrite Hu. destruct (w_uflag wc) eqn:Eu; [reflexivity|].
    cbn [orb]. unfold takeN. rewrite firstn_all_len by lia.
    rewrite Hhh, Hdd. unfold full_digest. rewrite Eu. unfold data_digest. rewrite body_eq.
    apply bytes_eqb_refl.
  - unfold spec_decode, spec_dict. rewrite Etab. cbn [tl].
    unfold e0, dict_entry in *. destruct dict as [d|].
    + cbn [wc_digest wc_data wc_ulen] in *. destruct Hdict as [Hn Hw].
      destruct (N.eqb_spec (c_clen c0) 0) as [E0|_].
      { exfalso. rewrite Hcl in E0. revert E0. apply len_ne_0, zcomp_ne, Hn. }
      cbn [andb]. unfold decode_chunk at 1. unfold stored. rewrite !Hsub, Hz, Hul.
      destruct (N.eqb_spec (len d) 0) as [E0|_]; [exfalso; revert E0; apply len_ne_0, Hn|].
      rewrite Hz in Hd.
      destruct Hcomp as [Ec|Ec].
      * rewrite Ec in Hd |- *. change (ZCK_COMP_NONE =? ZCK_COMP_ZSTD) with false in Hd |- *.
        rewrite Hcl, (Hnone Ec), N.eqb_refl. exact Hd.
      * rewrite Ec, N.eqb_refl in Hd |- *. rewrite (Hzstd Ec), N.eqb_refl. exact Hd.
    + cbn [wc_digest wc_data wc_ulen] in *. rewrite Hcl, Hul. cbn [N.eqb andb]. exact Hd.
Qed.
End Bridge.

(** * From the chunker: the file written for a sequence of write / end-chunk operations *)
Theorem roundtrip_from_chunker
  (H : N -> bytes -> bytes) (zcomp : option bytes -> bytes -> bytes)
  (zdecomp : option bytes -> bytes -> N -> option bytes)
  (wc : wcfg) (dict : option bytes) manual mn mx (ops : list wop) (F : list bytes) ds cds :
  (forall t m d, dsize t = Some d -> len (H t m) = d) ->
  (forall t m, wf_bytes (H t m)) ->
  (forall d x, wf_bytes x -> wf_bytes (zcomp d x)) ->
  (forall d x, x <> [] -> zcomp d x <> []) ->
  dsize (w_hash wc) = Some ds -> dsize (w_chash wc) = Some cds ->
  (w_comp wc = ZCK_COMP_NONE \/ w_comp wc = ZCK_COMP_ZSTD) ->
  (w_comp wc = ZCK_COMP_NONE -> forall d x, zcomp d x = x) ->
  (w_comp wc = ZCK_COMP_ZSTD -> forall d x, zdecomp d (zcomp d x) (len x) = Some x) ->
  match dict with Some d => d <> [] /\ wf_bytes d | None => True end ->
  legal_opts mn mx -> Forall (fun o => wf_bytes (op_bytes o)) ops ->
  write_file (comp_init_cfg manual mn mx) ops = Some F ->
  wfile_ok wc (written_entries H zcomp wc dict F) = true ->
  let f := written_file H zcomp wc dict F in
  let h := expected_header H wc (written_entries H zcomp wc dict F) in
  parse_impl H no_pins f = POk h /\ parse_spec H f = Some h /\
  spec_verify H h f = true /\
  spec_decode zdecomp h f = Some (concat (map op_bytes ops)) /\
  spec_read H zdecomp h f = Some (concat (map op_bytes ops)).
Proof.
  intros Hl Hw Zw Zn Hds Hcds Hc Hn Hz Hd Hlo Hops Hwr Hok f h.
  destruct (comp_init_file_total manual mn mx ops Hlo Hops) as (F' & HF' & Hcat).
  assert (F' = F) by congruence. subst F'.
  assert (HFw : Forall wf_bytes F).
  { apply wf_concat_inv. rewrite Hcat. apply wf_concat.
    apply Forall_forall. intros x Hx. apply in_map_iff in Hx. destruct Hx as (o & <- & Ho).
    rewrite Forall_forall in Hops. apply Hops, Ho. }
  pose proof (write_file_chunks_nonempty manual mn mx ops F Hlo Hwr) as HFn.
  assert (HF : Forall (fun ch : bytes => ch <> [] /\ wf_bytes ch) F).
  { rewrite Forall_forall in *. intros x Hx. split; [apply HFn|apply HFw]; exact Hx. }
  destruct (written_verifies_and_decodes H zcomp zdecomp Hl Hw Zw Zn wc dict F ds cds
              Hds Hcds Hc Hn Hz Hd HF Hok) as (A & B & C & D).
  fold f h in A, B, C, D. rewrite Hcat in D.
  repeat split; try assumption. unfold spec_read. rewrite C. exact D.
Qed.
