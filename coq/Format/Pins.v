(** C07: the pin options of the reader.  Faithful model of hex_to_int,
    ascii_checksum_to_bin and the validation options of zck_set_soption / zck_set_ioption
    (src/lib/zck.c).  Characters are signed [char] values in [Z]. *)
From ZV Require Import Base.Bytes Gen.GenConsts Format.Header Format.ParseImpl.
Local Open Scope Z_scope.

(** specification: value of a hexadecimal digit *)
Definition hexval (c : Z) : option Z :=
  if (48 <=? c) && (c <=? 57) then Some (c - 48)
  else if (97 <=? c) && (c <=? 102) then Some (c - 87)
  else if (65 <=? c) && (c <=? 70) then Some (c - 55)
  else None.

(** hex_to_int as written in zck.c *)
Definition hex_to_int (c : Z) : Z :=
  if (48 <=? c) && (c <=? 57) then c - 48
  else if (97 <=? c) && (c <=? 102) then c - 97 + 10
  else if (65 <=? c) && (c <=? 70) then c - 65 + 10
  else -1.

(** ascii_checksum_to_bin: the loop with [buf] carried; NULL (None) on the first non-hex char *)
Fixpoint ascii_loop (s : list Z) (i : nat) (buf : Z) (acc : list N) : option (list N) :=
  match s with
  | [] => Some (rev acc)
  | c :: r =>
      let ck := hex_to_int c in
      if ck <? 0 then None
      else if Nat.even i then ascii_loop r (S i) ck acc
      else ascii_loop r (S i) buf (Z.to_N ((buf * 16 + ck) mod 256) :: acc)
  end.
Definition ascii_checksum_to_bin (s : list Z) : option bytes := ascii_loop s 0 0 [].

(** prepared validation state of a context + the sticky error state *)
Record prep := mkPrep { pr_type : Z; pr_digest : option bytes; pr_size : Z; pr_err : N }.
Definition prep_init := mkPrep (-1) None (-1) 0%N.

Inductive popt :=
| SetType (v : Z)            (* zck_set_ioption(ZCK_VAL_HEADER_HASH_TYPE, v) *)
| SetSize (v : Z)            (* zck_set_ioption(ZCK_VAL_HEADER_LENGTH, v) *)
| SetDigest (s : list Z)     (* zck_set_soption(ZCK_VAL_HEADER_DIGEST, s, length s) *)
| ClearErr.                  (* zck_clear_error: clears a recoverable error (state 1), refuses a fatal one (state 2) *)

(** returns the new state and the call's boolean result *)
Definition set_opt (st : prep) (o : popt) : prep * bool :=
  match o with
  | ClearErr => if (1 <? pr_err st)%N then (st, false)
                else (mkPrep (pr_type st) (pr_digest st) (pr_size st) 0%N, true)
  | _ =>
  if (0 <? pr_err st)%N then (st, false) else
  let fail e := (mkPrep (pr_type st) (pr_digest st) (pr_size st) e, false) in
  match o with
  | SetType v =>
      if v <? 0 then fail 1%N
      else if 2147483647 <? v then fail 1%N      (* the type is kept in an int (fix fc042ff: larger values are refused) *)
      else match pr_digest st with
           | Some _ => fail 1%N
           | None => (mkPrep v None (pr_size st) 0%N, true)
           end
  | SetSize v =>
      if v <? 0 then fail 1%N else (mkPrep (pr_type st) (pr_digest st) v 0%N, true)
  | SetDigest s =>
      if pr_type st <? 0 then fail 1%N else
      match dsize (Z.to_N (pr_type st)) with
      | None => fail 1%N
      | Some ds =>
          if negb (Z.of_N ds * 2 =? Z.of_nat (length s)) then fail 2%N
          else match ascii_checksum_to_bin s with
               | Some d => (mkPrep (pr_type st) (Some d) (pr_size st) 0%N, true)
               | None => (* prep_digest has already been overwritten with the NULL result *)
                         (mkPrep (pr_type st) None (pr_size st) 2%N, false)
               end
      end
  | ClearErr => (st, false)   (* not reached *)
  end
  end.

Definition set_opts (ops : list popt) : prep * list bool :=
  fold_left (fun '(st, rs) o => let '(st', r) := set_opt st o in (st', rs ++ [r])) ops (prep_init, []).

Definition pins_of (st : prep) : pins :=
  mkPins (if pr_type st <? 0 then None else Some (Z.to_N (pr_type st)))
         (pr_digest st)
         (if pr_size st <? 0 then None else Some (Z.to_N (pr_size st))).

(** specification of the digest string: right length, hex digits only, value by pairs *)
Definition is_hex (c : Z) : Prop := hexval c <> None.
Fixpoint unhex_spec (s : list Z) : option bytes :=
  match s with
  | [] => Some []
  | a :: b :: r =>
      match hexval a, hexval b, unhex_spec r with
      | Some x, Some y, Some t => Some (Z.to_N (x * 16 + y) :: t)
      | _, _, _ => None
      end
  | [_] => None
  end.
