(** What the writer emits is what the reader accepts (building block of C01).
    For every configuration and every non-empty list of finished index entries whose sizes
    the reader can represent ([wfile_ok]), the file made by [file_create] (header_create +
    write_header + chunks_from_temp) is opened by the faithful reader model [parse_impl]
    with exactly the intended metadata [expected_header]; hence also by the specification
    parser.  The body of the file is the concatenation of the stored chunks, and each
    chunk is found at its index offset. *)
From ZV Require Import Base.Bytes Gen.GenConsts Format.Compint Format.CompintProofs
                       Format.Header Format.ParseImpl Format.ParseLemmas Format.ParseProofs
                       Format.HeaderWrite.
From Coq Require Import ZifyBool ZifyN ZifyNat.
Ltac Zify.zify_post_hook ::= Z.div_mod_to_equations.
Local Open Scope N_scope.

(** * Small facts *)
Lemma from_int_eq v : from_int v = ci_from_size v.
Proof.
  unfold from_int, ci_from_int. destruct (Z.ltb_spec (Z.of_N v) 0) as [Hn|Hn]; [lia|].
  rewrite N2Z.id. reflexivity.
Qed.

Lemma len_zeros n : len (zeros n) = n.
Proof. unfold len, zeros. rewrite repeat_length. lia. Qed.

Lemma wf_zeros n : wf_bytes (zeros n).
Proof.
  unfold wf_bytes, zeros. apply Forall_forall. intros x Hx. apply repeat_spec in Hx. subst x. lia.
Qed.

Lemma wf_app a b : wf_bytes a -> wf_bytes b -> wf_bytes (a ++ b).
Proof. intros Ha Hb. apply Forall_app. split; assumption. Qed.

Lemma wf_app_inv a b : wf_bytes (a ++ b) -> wf_bytes a /\ wf_bytes b.
Proof. intros Hab. apply Forall_app in Hab. exact Hab. Qed.

Lemma wf_concat (l : list bytes) : Forall wf_bytes l -> wf_bytes (concat l).
Proof.
  induction 1 as [|x l Hx Hl IH]; cbn [concat]; [constructor|apply wf_app; assumption].
Qed.

(** the encoder always emits between one and ten well-formed bytes *)
Lemma ci_from_fuel_shape fuel : forall v,
  (1 <= length (ci_from_fuel (S fuel) v) <= S fuel)%nat /\ wf_bytes (ci_from_fuel (S fuel) v).
Proof.
  induction fuel as [|f IH]; intros v.
  - cbn [ci_from_fuel]. assert (Hb : v mod 128 < 128) by (apply N.mod_lt; discriminate).
    destruct ((v - v mod 128) / 128 =? 0); cbn [length].
    + split; [lia|]. constructor; [lia|constructor].
    + split; [lia|]. constructor; [lia|constructor].
  - remember (S f) as f1 eqn:Ef. cbn [ci_from_fuel].
    assert (Hb : v mod 128 < 128) by (apply N.mod_lt; discriminate).
    destruct ((v - v mod 128) / 128 =? 0); cbn [length].
    + split; [lia|]. constructor; [lia|constructor].
    + subst f1. destruct (IH ((v - v mod 128) / 128)) as [Hl Hw].
      split; [lia|]. constructor; [lia|exact Hw].
Qed.

Lemma ci_len v : 1 <= len (ci_from_size v) <= 10.
Proof.
  unfold ci_from_size, len. rewrite max_comp_size_10. change (N.to_nat 10) with 10%nat.
  pose proof (ci_from_fuel_shape 9 v) as [Hl _]. lia.
Qed.

Lemma ci_wf v : wf_bytes (ci_from_size v).
Proof.
  unfold ci_from_size. rewrite max_comp_size_10. change (N.to_nat 10) with 10%nat.
  apply (ci_from_fuel_shape 9 v).
Qed.

Lemma dsize_some_small t ds : dsize t = Some ds -> t <= 3.
Proof.
  unfold dsize.
  destruct (N.eqb_spec t ZCK_HASH_SHA1) as [->|_]; [intros _; vm_compute; discriminate|].
  destruct (N.eqb_spec t ZCK_HASH_SHA256) as [->|_]; [intros _; vm_compute; discriminate|].
  destruct (N.eqb_spec t ZCK_HASH_SHA512) as [->|_]; [intros _; vm_compute; discriminate|].
  destruct (N.eqb_spec t ZCK_HASH_SHA512_128) as [->|_]; [intros _; vm_compute; discriminate|].
  discriminate.
Qed.

Lemma digest_size_eq t ds : dsize t = Some ds -> digest_size t = ds.
Proof. unfold digest_size. intros ->. reflexivity. Qed.

(** * Cursors into a buffer *)
Lemma at_off_app_len A B : at_off (A ++ B) (len A) = B.
Proof.
  unfold at_off, len. rewrite Nat2N.id. rewrite skipn_app, skipn_all, Nat.sub_diag. reflexivity.
Qed.

Lemma at_next hb a X post : at_off hb a = X ++ post -> at_off hb (a + len X) = post.
Proof. intros E. rewrite <- at_off_add, E. apply at_off_app_len. Qed.

Lemma firstn_app_len (A B : bytes) : firstn (N.to_nat (len A)) (A ++ B) = A.
Proof.
  unfold len. rewrite Nat2N.id, firstn_app, Nat.sub_diag, firstn_all. cbn [firstn]. apply app_nil_r.
Qed.

Lemma sub_mid A B C : sub (A ++ B ++ C) (len A) (len B) = B.
Proof. rewrite sub_eq, at_off_app_len. apply firstn_app_len. Qed.

Lemma sub_at hb off B post : at_off hb off = B ++ post -> sub hb off (len B) = B.
Proof. intros E. rewrite sub_eq, E. apply firstn_app_len. Qed.

Lemma at_off_len_le hb off X : at_off hb off = X -> X <> [] -> off + len X <= len hb.
Proof.
  intros E Hne. pose proof (len_at_off hb off) as Hl. rewrite E in Hl.
  destruct X as [|x X]; [contradiction|]. rewrite len_cons in *. lia.
Qed.

Lemma rd_size_at hb base ln maxlen v post :
  wf_bytes hb -> at_off hb (base + ln) = ci_from_size v ++ post -> v < two64 ->
  ln + len (ci_from_size v) <= maxlen ->
  rd_size hb base ln maxlen = POk (v, ln + len (ci_from_size v)).
Proof.
  intros Hwf E Hv Hm. unfold rd_size. rewrite E.
  assert (Hp : wf_bytes post).
  { apply (wf_at_off hb (base + ln)) in Hwf. rewrite E in Hwf. apply wf_app_inv in Hwf. tauto. }
  destruct (ci_roundtrip v post ln maxlen Hv Hp Hm) as [-> _]. reflexivity.
Qed.

Lemma rd_int_at hb base ln maxlen v post :
  wf_bytes hb -> at_off hb (base + ln) = ci_from_size v ++ post -> v <= INT_MAX ->
  ln + len (ci_from_size v) <= maxlen ->
  rd_int hb base ln maxlen = POk (v, ln + len (ci_from_size v)).
Proof.
  intros Hwf E Hv Hm. unfold rd_int, ci_to_int. rewrite E.
  assert (Hp : wf_bytes post).
  { apply (wf_at_off hb (base + ln)) in Hwf. rewrite E in Hwf. apply wf_app_inv in Hwf. tauto. }
  assert (Hv64 : v < two64) by (unfold INT_MAX, two64 in *; lia).
  destruct (ci_roundtrip v post ln maxlen Hv64 Hp Hm) as [-> _].
  destruct (N.ltb_spec INT_MAX v); [lia|reflexivity].
Qed.

Lemma rd_bytes_at hb off B post :
  at_off hb off = B ++ post -> B <> [] -> rd_bytes hb off (len B) = POk B.
Proof.
  intros E Hne. unfold rd_bytes.
  assert (Hl : off + len (B ++ post) <= len hb).
  { apply at_off_len_le; [exact E|]. destruct B; [contradiction|discriminate]. }
  rewrite len_app in Hl.
  destruct (N.leb_spec (off + len B) (len hb)); [|lia].
  rewrite (sub_at _ _ _ _ E). reflexivity.
Qed.

(** reads through a bounded window [firstn k f] (read_lead works on the first 25 bytes) *)
Lemma rd_size_win f k base ln maxlen v post :
  wf_bytes f -> at_off f (base + ln) = ci_from_size v ++ post -> v < two64 ->
  ln + len (ci_from_size v) <= maxlen -> base + ln + len (ci_from_size v) <= k ->
  rd_size (firstn (N.to_nat k) f) base ln maxlen = POk (v, ln + len (ci_from_size v)).
Proof.
  intros Hwf E Hv Hm Hk.
  assert (Hp : wf_bytes post).
  { apply (wf_at_off f (base + ln)) in Hwf. rewrite E in Hwf. apply wf_app_inv in Hwf. tauto. }
  apply rd_size_at with (post := firstn (N.to_nat (k - (base + ln + len (ci_from_size v)))) post);
    try assumption; [apply wf_firstn; exact Hwf|].
  rewrite at_off_firstn, E, firstn_app, firstn_all2 by (unfold len in Hk; lia).
  f_equal. f_equal. unfold len in *. lia.
Qed.

Lemma rd_int_win f k base ln maxlen v post :
  wf_bytes f -> at_off f (base + ln) = ci_from_size v ++ post -> v <= INT_MAX ->
  ln + len (ci_from_size v) <= maxlen -> base + ln + len (ci_from_size v) <= k ->
  rd_int (firstn (N.to_nat k) f) base ln maxlen = POk (v, ln + len (ci_from_size v)).
Proof.
  intros Hwf E Hv Hm Hk.
  assert (Hp : wf_bytes post).
  { apply (wf_at_off f (base + ln)) in Hwf. rewrite E in Hwf. apply wf_app_inv in Hwf. tauto. }
  apply rd_int_at with (post := firstn (N.to_nat (k - (base + ln + len (ci_from_size v)))) post);
    try assumption; [apply wf_firstn; exact Hwf|].
  rewrite at_off_firstn, E, firstn_app, firstn_all2 by (unfold len in Hk; lia).
  f_equal. f_equal. unfold len in *. lia.
Qed.

(** * Shape of the written file *)
Definition lead_pre (cfg : wcfg) (chunks : list wchunk) : bytes :=
  magic_zck ++ ci_from_size (w_hash cfg) ++ ci_from_size (header_length cfg chunks).

(** * The index loop on written entries *)
Lemma file_body_cons c r : file_body (c :: r) = wc_data c ++ file_body r.
Proof. reflexivity. Qed.

Lemma idx_loop_written hb base size maxlen cds uflag hdrlen :
  wf_bytes hb -> size <= maxlen -> 1 <= cds ->
  forall cs fuel ln idx_loc count acc post,
    at_off hb (base + ln) = index_entries uflag cs ++ post ->
    ln + len (index_entries uflag cs) = size ->
    len (index_entries uflag cs) < N.of_nat fuel ->
    Forall (fun c => wchunk_ok cds uflag c = true) cs ->
    hdrlen + idx_loc + len (file_body cs) <= SSIZE_MAX ->
    idx_loop fuel hb base size maxlen cds uflag hdrlen ln idx_loc count acc =
      POk (count + N.of_nat (length cs), rev acc ++ chunk_table uflag idx_loc cs).
Proof.
  intros Hw Hsm Hcds cs.
  induction cs as [|c r IH]; intros fuel ln idx_loc count acc post Hat Hsz Hfu Hok Hfit.
  - cbn [index_entries flat_map] in Hsz. rewrite len_nil in Hsz.
    rewrite idx_loop_done by lia. destruct (N.eqb_spec ln size); [|lia].
    cbn [negb length chunk_table]. rewrite N.add_0_r, app_nil_r. reflexivity.
  - apply Forall_cons_iff in Hok. destruct Hok as [Hc Hr].
    unfold wchunk_ok in Hc. rewrite !andb_true_iff in Hc. destruct Hc as [[Hd Hu] Hul].
    apply N.eqb_eq in Hd. apply N.leb_le in Hul.
    rewrite file_body_cons, len_app in Hfit.
    pose proof (ci_len (len (wc_data c))) as Hc1. pose proof (ci_len (wc_ulen c)) as Hc2.
    assert (Hcl : len (wc_data c) < two64) by (unfold SSIZE_MAX, two64 in *; lia).
    assert (Hul64 : wc_ulen c < two64) by (unfold SSIZE_MAX, two64 in *; lia).
    assert (Hdne : wc_digest c <> []) by (intros E; rewrite E in Hd; cbn in Hd; lia).
    unfold index_entries in Hat, Hsz, Hfu. cbn [flat_map] in Hat, Hsz, Hfu.
    fold (index_entries uflag r) in Hat, Hsz, Hfu.
    unfold index_entry in Hat, Hsz, Hfu. rewrite <- !app_assoc in Hat. rewrite !len_app in Hsz, Hfu.
    destruct fuel as [|fuel]; [lia|].
    destruct uflag.
    + apply N.eqb_eq in Hu. rewrite Hd, Hu in Hsz, Hfu.
      assert (Hune : wc_udigest c <> []) by (intros E; rewrite E in Hu; cbn in Hu; lia).
      rewrite idx_loop_step by lia. cbv zeta.
      destruct (N.ltb_spec maxlen (ln + (cds + cds))) as [|_]; [lia|].
      pose proof (rd_bytes_at _ _ _ _ Hat Hdne) as Hb1. rewrite Hd in Hb1. rewrite Hb1. cbn [pbind].
      pose proof (at_next _ _ _ _ Hat) as A1. rewrite Hd, <- N.add_assoc in A1.
      pose proof (rd_bytes_at _ _ _ _ A1 Hune) as Hb2. rewrite Hu in Hb2. rewrite Hb2. cbn [pbind].
      pose proof (at_next _ _ _ _ A1) as A2. rewrite Hu, <- N.add_assoc in A2.
      rewrite (rd_size_at hb base _ maxlen _ _ Hw A2 Hcl) by lia. cbn [pbind].
      pose proof (at_next _ _ _ _ A2) as A3. rewrite <- N.add_assoc in A3.
      rewrite (rd_size_at hb base _ maxlen _ _ Hw A3 Hul64) by lia. cbn [pbind].
      pose proof (at_next _ _ _ _ A3) as A4. rewrite <- N.add_assoc in A4.
      destruct (N.ltb_spec SSIZE_MAX hdrlen) as [|_]; [lia|].
      destruct (N.ltb_spec (SSIZE_MAX - hdrlen) idx_loc) as [|_]; [lia|].
      destruct (N.ltb_spec (SSIZE_MAX - hdrlen - idx_loc) (len (wc_data c))) as [|_]; [lia|].
      destruct (N.ltb_spec SSIZE_MAX (wc_ulen c)) as [|_]; [lia|]. cbn [orb].
      rewrite (IH fuel _ _ _ _ post A4) by (assumption || lia).
      cbn [rev length chunk_table]. rewrite <- app_assoc. cbn [app]. f_equal. f_equal. lia.
    + clear Hu. cbn [app] in Hat. rewrite len_nil in Hsz, Hfu. rewrite Hd in Hsz, Hfu.
      rewrite idx_loop_step by lia. cbv zeta.
      destruct (N.ltb_spec maxlen (ln + cds)) as [|_]; [lia|].
      pose proof (rd_bytes_at _ _ _ _ Hat Hdne) as Hb1. rewrite Hd in Hb1. rewrite Hb1. cbn [pbind].
      pose proof (at_next _ _ _ _ Hat) as A2. rewrite Hd, <- N.add_assoc in A2.
      rewrite (rd_size_at hb base _ maxlen _ _ Hw A2 Hcl) by lia. cbn [pbind].
      pose proof (at_next _ _ _ _ A2) as A3. rewrite <- N.add_assoc in A3.
      rewrite (rd_size_at hb base _ maxlen _ _ Hw A3 Hul64) by lia. cbn [pbind].
      pose proof (at_next _ _ _ _ A3) as A4. rewrite <- N.add_assoc in A4.
      destruct (N.ltb_spec SSIZE_MAX hdrlen) as [|_]; [lia|].
      destruct (N.ltb_spec (SSIZE_MAX - hdrlen) idx_loc) as [|_]; [lia|].
      destruct (N.ltb_spec (SSIZE_MAX - hdrlen - idx_loc) (len (wc_data c))) as [|_]; [lia|].
      destruct (N.ltb_spec SSIZE_MAX (wc_ulen c)) as [|_]; [lia|]. cbn [orb].
      rewrite (IH fuel _ _ _ _ post A4) by (assumption || lia).
      cbn [rev length chunk_table]. rewrite <- app_assoc. cbn [app]. f_equal. f_equal. lia.
Qed.

Lemma entries_count u cs : N.of_nat (length cs) <= len (index_entries u cs).
Proof.
  unfold index_entries. induction cs as [|c r IH]; cbn [flat_map length]; [rewrite len_nil; lia|].
  unfold index_entry at 1. rewrite !len_app. pose proof (ci_len (wc_ulen c)). lia.
Qed.

Lemma len_preface cfg dd isz :
  len (preface_create cfg dd isz) =
  len dd + len (ci_from_size (get_flags cfg)) + len (ci_from_size (w_comp cfg)) +
  len (ci_from_size isz).
Proof. unfold preface_create. rewrite from_int_eq, !len_app. lia. Qed.

Lemma len_lead_pre cfg chunks :
  len (lead_pre cfg chunks) =
  5 + len (ci_from_size (w_hash cfg)) + len (ci_from_size (header_length cfg chunks)).
Proof. unfold lead_pre. rewrite !len_app. change (len magic_zck) with 5. lia. Qed.

Lemma wfile_ok_sz cfg chunks :
  wfile_ok cfg chunks = true ->
  lead_size cfg chunks + header_length cfg chunks + len (file_body chunks) <= SSIZE_MAX.
Proof.
  unfold wfile_ok. rewrite !andb_true_iff. intros [[_ H3] _]. apply N.leb_le in H3. exact H3.
Qed.

Section Main.
Variable H : N -> bytes -> bytes.
Hypothesis H_len : forall t m ds, dsize t = Some ds -> len (H t m) = ds.
Hypothesis H_wf : forall t m, wf_bytes (H t m).

Section Shape.
Variables (cfg : wcfg) (chunks : list wchunk) (ds : N).
Hypothesis Hds : dsize (w_hash cfg) = Some ds.

Lemma len_full_digest : len (full_digest cfg (data_digest H cfg chunks)) = ds.
Proof.
  unfold full_digest. rewrite (digest_size_eq _ _ Hds).
  destruct (w_uflag cfg); [apply len_zeros|apply H_len; exact Hds].
Qed.

Lemma wf_full_digest : wf_bytes (full_digest cfg (data_digest H cfg chunks)).
Proof. unfold full_digest. destruct (w_uflag cfg); [apply wf_zeros|apply H_wf]. Qed.

Lemma preface_size_eq :
  preface_size cfg chunks =
  ds + len (ci_from_size (get_flags cfg)) + len (ci_from_size (w_comp cfg)) +
  len (ci_from_size (index_size cfg chunks)).
Proof.
  unfold preface_size. rewrite len_preface, (digest_size_eq _ _ Hds), len_zeros. reflexivity.
Qed.

Lemma len_sig : len sig_create = 1.
Proof. reflexivity. Qed.

Lemma len_header_rest : len (header_rest H cfg chunks) = header_length cfg chunks.
Proof.
  unfold header_rest, header_length. rewrite !len_app, len_preface, len_full_digest, preface_size_eq.
  unfold index_size. lia.
Qed.

Lemma lead_size_eq : lead_size cfg chunks = len (lead_pre cfg chunks) + ds.
Proof.
  unfold lead_size, lead_create. cbn [fst]. fold (lead_pre cfg chunks).
  rewrite len_app, (digest_size_eq _ _ Hds), len_zeros. reflexivity.
Qed.

Lemma header_create_shape :
  header_create H cfg (data_digest H cfg chunks) chunks =
  lead_pre cfg chunks ++ header_digest H cfg chunks ++ header_rest H cfg chunks.
Proof.
  unfold header_create. cbv zeta.
  fold (index_size cfg chunks).
  set (preface := preface_create cfg _ _).
  assert (Hhl : len preface + index_size cfg chunks + len sig_create = header_length cfg chunks).
  { rewrite <- len_header_rest. unfold header_rest. fold preface. rewrite !len_app.
    unfold index_size. lia. }
  rewrite Hhl. unfold lead_create. fold (lead_pre cfg chunks).
  rewrite (digest_size_eq _ _ Hds).
  set (rest := preface ++ index_create cfg chunks ++ sig_create).
  assert (Hrest : rest = header_rest H cfg chunks) by reflexivity.
  rewrite firstn_app_len.
  assert (Hsub : sub ((lead_pre cfg chunks ++ zeros ds) ++ rest)
                     (len (lead_pre cfg chunks ++ zeros ds)) (header_length cfg chunks) = rest).
  { rewrite <- len_header_rest, <- Hrest. rewrite <- (app_nil_r rest) at 1. apply sub_mid. }
  rewrite Hsub.
  assert (Hdg : H (w_hash cfg) (lead_pre cfg chunks ++ rest) = header_digest H cfg chunks).
  { unfold header_digest, lead_pre. rewrite Hrest, <- !app_assoc. reflexivity. }
  rewrite Hdg.
  rewrite <- app_assoc, firstn_app_len.
  rewrite firstn_all_len by (unfold header_digest; rewrite (H_len _ _ _ Hds); lia).
  f_equal. f_equal.
  replace (len (lead_pre cfg chunks) + ds) with (len (lead_pre cfg chunks ++ zeros ds))
    by (rewrite len_app, len_zeros; reflexivity).
  rewrite app_assoc. change (skipn (N.to_nat ?n) ?l) with (at_off l n).
  rewrite at_off_app_len. exact Hrest.
Qed.

Lemma file_shape :
  file_create H cfg chunks =
  lead_pre cfg chunks ++ header_digest H cfg chunks ++ header_rest H cfg chunks ++ file_body chunks.
Proof.
  unfold file_create. rewrite header_create_shape, <- !app_assoc. reflexivity.
Qed.
End Shape.

(** * The reader on the written file *)
Definition wchunk_wf (c : wchunk) : Prop :=
  wf_bytes (wc_digest c) /\ wf_bytes (wc_udigest c) /\ wf_bytes (wc_data c).

Lemma wf_entries u cs : Forall wchunk_wf cs -> wf_bytes (index_entries u cs).
Proof.
  unfold index_entries. induction 1 as [|c r Hc Hr IH]; cbn [flat_map]; [constructor|].
  destruct Hc as (Hd & Hu & _). apply wf_app; [|exact IH].
  unfold index_entry. apply wf_app; [exact Hd|]. apply wf_app; [destruct u; [exact Hu|constructor]|].
  apply wf_app; apply ci_wf.
Qed.

Lemma wf_file_body cs : Forall wchunk_wf cs -> wf_bytes (file_body cs).
Proof.
  intros Hw. unfold file_body. apply wf_concat. induction Hw as [|c r Hc Hr IH]; cbn [map]; constructor.
  - apply Hc.
  - exact IH.
Qed.

Section Read.
Variables (cfg : wcfg) (chunks : list wchunk) (ds cds : N).
Hypothesis Hds : dsize (w_hash cfg) = Some ds.
Hypothesis Hcds : dsize (w_chash cfg) = Some cds.
Hypothesis Hcomp : w_comp cfg = ZCK_COMP_NONE \/ w_comp cfg = ZCK_COMP_ZSTD.
Hypothesis Hwfc : Forall wchunk_wf chunks.

Let PRE := lead_pre cfg chunks.
Let DG := header_digest H cfg chunks.
Let REST := header_rest H cfg chunks.
Let BODY := file_body chunks.
Let f := file_create H cfg chunks.
Let hlen := header_length cfg chunks.
(** the whole file fits an [ssize_t] (third conjunct of [wfile_ok]) *)
Hypothesis Hsz : lead_size cfg chunks + hlen + len BODY <= SSIZE_MAX.

Lemma Ef : f = PRE ++ DG ++ REST ++ BODY.
Proof. apply file_shape with (ds := ds). exact Hds. Qed.

Lemma ds_bounds : 16 <= ds <= 64.
Proof. apply (dsize_bounds _ _ Hds). Qed.
Lemma cds_bounds : 16 <= cds <= 64.
Proof. apply (dsize_bounds _ _ Hcds). Qed.

Lemma len_DG : len DG = ds.
Proof. unfold DG, header_digest. apply H_len. exact Hds. Qed.

Lemma len_REST : len REST = hlen.
Proof. apply len_header_rest with (ds := ds). exact Hds. Qed.

Lemma len_PRE : 7 <= len PRE <= 25.
Proof.
  unfold PRE. rewrite len_lead_pre.
  pose proof (ci_len (w_hash cfg)). pose proof (ci_len (header_length cfg chunks)). lia.
Qed.

Lemma hlen_ge : ds + 4 <= hlen.
Proof.
  unfold hlen, header_length. rewrite (preface_size_eq cfg chunks ds Hds), len_sig.
  pose proof (ci_len (get_flags cfg)). pose proof (ci_len (w_comp cfg)).
  pose proof (ci_len (index_size cfg chunks)). lia.
Qed.

Lemma len_f : len f = len PRE + ds + hlen + len BODY.
Proof. rewrite Ef, !len_app, len_DG, len_REST. lia. Qed.

Lemma lead_size_PRE : lead_size cfg chunks = len PRE + ds.
Proof. apply lead_size_eq. exact Hds. Qed.

Lemma wf_f : wf_bytes f.
Proof.
  rewrite Ef. apply wf_app.
  { unfold PRE, lead_pre. apply wf_app; [|apply wf_app; apply ci_wf].
    unfold magic_zck. repeat constructor. }
  apply wf_app; [apply H_wf|]. apply wf_app; [|apply wf_file_body; exact Hwfc].
  unfold REST, header_rest. apply wf_app.
  { unfold preface_create. rewrite from_int_eq.
    apply wf_app; [apply wf_full_digest|]. apply wf_app; [apply ci_wf|]. apply wf_app; apply ci_wf. }
  apply wf_app; [|apply ci_wf].
  unfold index_create. apply wf_app; [apply ci_wf|]. apply wf_app; [apply ci_wf|apply wf_entries; exact Hwfc].
Qed.

(** ** read_lead *)
Definition written_lead : lead :=
  mkLead false (w_hash cfg) ds hlen (len PRE) (len PRE + ds) (N.max 25 (len PRE + ds)) DG.

Lemma at_f_5 : at_off f 5 = ci_from_size (w_hash cfg) ++ ci_from_size hlen ++ DG ++ REST ++ BODY.
Proof.
  rewrite Ef. unfold PRE, lead_pre. rewrite <- !app_assoc.
  change 5 with (len magic_zck). apply at_off_app_len.
Qed.

Lemma at_f_dloc : at_off f (len PRE) = DG ++ REST ++ BODY.
Proof. rewrite Ef. apply at_off_app_len. Qed.

Lemma read_lead_written : read_lead no_pins f = POk written_lead.
Proof.
  pose proof len_f as Hlf. pose proof len_PRE as HP. pose proof ds_bounds as Hd.
  pose proof hlen_ge as Hh. pose proof Hsz as Hsz'.
  rewrite lead_size_PRE in Hsz'.
  pose proof (ci_len (w_hash cfg)) as Hc1. pose proof (ci_len hlen) as Hc2.
  assert (HPl : len PRE = 5 + len (ci_from_size (w_hash cfg)) + len (ci_from_size hlen))
    by apply len_lead_pre.
  unfold read_lead. rewrite LEAD_READ_25.
  destruct (N.ltb_spec (len f) 25) as [|_]; [lia|].
  change (firstn 5 (firstn (N.to_nat 25) f)) with (firstn 5 (firstn 25 f)).
  rewrite firstn_firstn. change (Nat.min 5 25) with 5%nat.
  assert (Hm : firstn 5 f = magic_zck).
  { rewrite Ef. unfold PRE, lead_pre. rewrite <- !app_assoc. reflexivity. }
  rewrite Hm. change (bytes_eqb magic_zck magic_zhr) with false.
  change (bytes_eqb magic_zck magic_zck) with true. cbn [orb negb].
  rewrite (rd_int_win f 25 0 5 25 (w_hash cfg) _ wf_f at_f_5)
    by (try (pose proof (dsize_some_small _ _ Hds); unfold INT_MAX); lia).
  cbn [pbind no_pins p_type p_digest p_size]. rewrite Hds.
  rewrite (rd_size_win f 25 0 (5 + len (ci_from_size (w_hash cfg))) 25 hlen (DG ++ REST ++ BODY) wf_f)
    by (try (apply (at_next _ _ _ _ at_f_5)); unfold two64, SSIZE_MAX in *; lia).
  cbn [pbind]. rewrite <- HPl.
  assert (Hld : 25 + (if 25 <? len PRE + ds then len PRE + ds - 25 else 0) = N.max 25 (len PRE + ds))
    by (destruct (N.ltb_spec 25 (len PRE + ds)); lia).
  rewrite Hld.
  destruct (N.ltb_spec (len f) (N.max 25 (len PRE + ds))) as [|_]; [lia|].
  unfold rd_bytes. rewrite len_firstn_le by lia.
  destruct (N.leb_spec (len PRE + ds) (N.max 25 (len PRE + ds))) as [_|]; [|lia].
  rewrite sub_firstn by lia.
  replace (sub f (len PRE) ds) with DG
    by (symmetry; rewrite <- len_DG; apply (sub_at _ _ _ _ at_f_dloc)).
  reflexivity.
Qed.

(** ** read_header_from_file: the checksum gate *)
Let HB := PRE ++ DG ++ REST.

Lemma len_HB : len HB = len PRE + ds + hlen.
Proof. unfold HB. rewrite !len_app, len_DG, len_REST. lia. Qed.

Lemma read_header_written : read_header_from_file H written_lead f = POk HB.
Proof.
  pose proof len_f as Hlf. pose proof len_PRE as HP. pose proof ds_bounds as Hd.
  pose proof hlen_ge as Hh. pose proof Hsz as Hsz'.
  rewrite lead_size_PRE in Hsz'. pose proof len_HB as HlHB.
  unfold read_header_from_file, written_lead.
  cbn [l_size l_hlen l_loaded l_dloc l_hash l_hdigest].
  destruct (N.eqb_spec (len PRE + ds) 0) as [|_]; [lia|].
  destruct (N.eqb_spec hlen 0) as [|_]; [lia|]. cbn [orb].
  rewrite u64_small by (unfold two64, SSIZE_MAX in *; lia).
  destruct (N.ltb_spec (len PRE + ds + hlen) (len PRE + ds)) as [|_]; [lia|].
  destruct (N.ltb_spec (len PRE + ds + hlen) hlen) as [|_]; [lia|]. cbn [orb].
  destruct (N.ltb_spec hlen (N.max 25 (len PRE + ds) - (len PRE + ds))) as [|_]; [lia|].
  destruct (N.ltb_spec (len f) (len PRE + ds + hlen)) as [|_]; [lia|].
  assert (Hfb : firstn (N.to_nat (len PRE + ds + hlen)) f = HB).
  { rewrite <- HlHB, Ef. unfold HB.
    replace (PRE ++ DG ++ REST ++ BODY) with ((PRE ++ DG ++ REST) ++ BODY)
      by (rewrite <- !app_assoc; reflexivity).
    apply firstn_app_len. }
  rewrite Hfb.
  assert (H1 : sub HB 5 (len PRE - 5) = ci_from_size (w_hash cfg) ++ ci_from_size hlen).
  { unfold HB, PRE at 1, lead_pre. fold hlen. rewrite <- !app_assoc.
    replace (len PRE - 5) with (len (ci_from_size (w_hash cfg) ++ ci_from_size hlen))
      by (unfold PRE; rewrite len_lead_pre, len_app; fold hlen; lia).
    change 5 with (len magic_zck).
    replace (magic_zck ++ ci_from_size (w_hash cfg) ++ ci_from_size hlen ++ DG ++ REST)
      with (magic_zck ++ (ci_from_size (w_hash cfg) ++ ci_from_size hlen) ++ DG ++ REST)
      by (rewrite <- !app_assoc; reflexivity).
    apply sub_mid. }
  assert (H2 : sub HB (len PRE + ds) hlen = REST).
  { unfold HB. rewrite <- len_DG, <- len_app, <- len_REST.
    replace (PRE ++ DG ++ REST) with ((PRE ++ DG) ++ REST ++ []) by (rewrite app_nil_r, <- app_assoc; reflexivity).
    apply sub_mid. }
  rewrite H1, H2.
  assert (Hc : H (w_hash cfg) (magic_zck ++ (ci_from_size (w_hash cfg) ++ ci_from_size hlen) ++ REST) = DG).
  { unfold DG, header_digest. rewrite <- !app_assoc. reflexivity. }
  rewrite Hc, bytes_eqb_refl. reflexivity.
Qed.

Lemma wf_HB : wf_bytes HB.
Proof.
  pose proof wf_f as Hw. rewrite Ef in Hw. unfold HB.
  replace (PRE ++ DG ++ REST ++ BODY) with ((PRE ++ DG ++ REST) ++ BODY) in Hw
    by (rewrite <- !app_assoc; reflexivity).
  apply wf_app_inv in Hw. tauto.
Qed.

(** ** read_preface *)
Let DD := full_digest cfg (data_digest H cfg chunks).
Let isz := index_size cfg chunks.
Let psz := preface_size cfg chunks.
Let INDEX := index_create cfg chunks.

Definition written_preface : preface := mkPreface DD (get_flags cfg) (w_comp cfg) psz isz.

Lemma len_DD : len DD = ds.
Proof. apply len_full_digest. exact Hds. Qed.

Lemma hlen_eq : hlen = psz + isz + 1.
Proof. reflexivity. Qed.

Lemma psz_eq : psz = ds + len (ci_from_size (get_flags cfg)) + len (ci_from_size (w_comp cfg)) +
                     len (ci_from_size isz).
Proof. apply preface_size_eq. exact Hds. Qed.

Lemma at_HB_rest : at_off HB (len PRE + ds) = REST.
Proof.
  unfold HB. rewrite <- len_DG, <- len_app, app_assoc. rewrite <- (app_nil_r REST) at 2.
  rewrite <- (app_nil_r REST) at 1. rewrite at_off_app_len. reflexivity.
Qed.

Lemma REST_eq :
  REST = DD ++ ci_from_size (get_flags cfg) ++ ci_from_size (w_comp cfg) ++ ci_from_size isz ++
         INDEX ++ sig_create.
Proof.
  unfold REST, header_rest, preface_create. rewrite from_int_eq, <- !app_assoc. reflexivity.
Qed.

Lemma flags_facts :
  (N.land (get_flags cfg) 1 =? 0) = true /\
  (N.land (get_flags cfg) (two64 - 1 - 7) =? 0) = true /\
  N.testbit (get_flags cfg) 1 = false /\ N.testbit (get_flags cfg) 2 = w_uflag cfg /\
  get_flags cfg < two64.
Proof. unfold get_flags. destruct (w_uflag cfg); repeat split; reflexivity. Qed.

Lemma read_preface_cases :
  read_preface written_lead HB = if isz <=? INT_MAX then POk written_preface else PErr.
Proof.
  pose proof ds_bounds as Hd. pose proof hlen_eq as Hhl. pose proof psz_eq as Hps.
  pose proof Hsz as Hsz'. rewrite lead_size_PRE in Hsz'.
  pose proof len_DD as HlDD. pose proof wf_HB as Hw.
  pose proof (ci_len (get_flags cfg)) as Hc1. pose proof (ci_len (w_comp cfg)) as Hc2.
  pose proof (ci_len isz) as Hc3.
  destruct flags_facts as (Fl1 & Fl2 & Fl3 & _ & Fl5).
  set (B := len PRE + ds).
  assert (A0 : at_off HB B = DD ++ ci_from_size (get_flags cfg) ++ ci_from_size (w_comp cfg) ++
                             ci_from_size isz ++ INDEX ++ sig_create)
    by (unfold B; rewrite at_HB_rest; apply REST_eq).
  assert (A1 : at_off HB (B + ds) = ci_from_size (get_flags cfg) ++ ci_from_size (w_comp cfg) ++
                             ci_from_size isz ++ INDEX ++ sig_create)
    by (rewrite <- HlDD; apply (at_next _ _ _ _ A0)).
  assert (A2 : at_off HB (B + (ds + len (ci_from_size (get_flags cfg)))) =
               ci_from_size (w_comp cfg) ++ ci_from_size isz ++ INDEX ++ sig_create)
    by (rewrite N.add_assoc; apply (at_next _ _ _ _ A1)).
  assert (A3 : at_off HB (B + (ds + len (ci_from_size (get_flags cfg)) + len (ci_from_size (w_comp cfg)))) =
               ci_from_size isz ++ INDEX ++ sig_create)
    by (rewrite N.add_assoc; apply (at_next _ _ _ _ A2)).
  assert (Hb : rd_bytes HB B ds = POk DD).
  { rewrite <- HlDD. apply (rd_bytes_at _ _ _ _ A0). intros E. rewrite E in HlDD. cbn in HlDD. lia. }
  assert (Hcc : (w_comp cfg =? ZCK_COMP_NONE) || (w_comp cfg =? ZCK_COMP_ZSTD) = true)
    by (destruct Hcomp as [->| ->]; reflexivity).
  assert (Hci : w_comp cfg <= INT_MAX) by (destruct Hcomp as [->| ->]; vm_compute; discriminate).
  unfold read_preface, written_lead. cbn [l_size l_hlen l_ds]. fold B.
  destruct (N.ltb_spec hlen ds) as [|_]; [lia|].
  rewrite Hb. cbn [pbind].
  rewrite (rd_size_at HB B ds hlen _ _ Hw A1 Fl5) by lia. cbn [pbind].
  rewrite Fl1, Fl2. cbn [negb].
  rewrite (rd_int_at HB B _ hlen _ _ Hw A2 Hci) by lia. cbn [pbind].
  rewrite Hcc, Fl3. cbn [negb pbind].
  destruct (N.leb_spec isz INT_MAX) as [Hisz|Hbig].
  - rewrite (rd_int_at HB B _ hlen _ _ Hw A3 Hisz) by lia. cbn [pbind].
    unfold written_preface. rewrite Hps. reflexivity.
  - (* the index size is written as a size_t and read back as an int *)
    unfold rd_int. rewrite A3.
    assert (Hi64 : isz < two64) by (unfold SSIZE_MAX, two64 in *; lia).
    destruct (ci_from_size_value isz (INDEX ++ sig_create) Hi64) as (Hcv & _ & _).
    rewrite (ci_to_int_rejects_large _ _ hlen isz _) with (3 := Hcv); [reflexivity| | |exact Hbig].
    + rewrite <- A3. apply wf_at_off, Hw.
    + rewrite !len_app. change (len sig_create) with 1. change (len INDEX) with isz. lia.
Qed.

Section Accept.
Hypothesis Hok : wfile_ok cfg chunks = true.

Lemma ok_parts :
  chunks <> [] /\
  Forall (fun c => wchunk_ok cds (w_uflag cfg) c = true) chunks /\
  lead_size cfg chunks + hlen + len BODY <= SSIZE_MAX /\
  index_size cfg chunks <= INT_MAX.
Proof.
  unfold wfile_ok in Hok. rewrite !andb_true_iff in Hok. destruct Hok as [[[H1 H2] H3] H4].
  split; [destruct chunks; [discriminate|discriminate]|].
  split; [rewrite (digest_size_eq _ _ Hcds) in H2; rewrite forallb_forall in H2;
          apply Forall_forall; exact H2|].
  split; [apply N.leb_le in H3; exact H3|apply N.leb_le in H4; exact H4].
Qed.

Lemma read_preface_written : read_preface written_lead HB = POk written_preface.
Proof.
  pose proof ok_parts as (_ & _ & _ & Hisz). fold isz in Hisz.
  rewrite read_preface_cases. destruct (N.leb_spec isz INT_MAX); [reflexivity|lia].
Qed.

(** ** read_index *)
Lemma len_preface_written : len (preface_create cfg DD isz) = psz.
Proof. rewrite len_preface, len_DD, psz_eq. reflexivity. Qed.

Lemma at_HB_index : at_off HB (len PRE + ds + psz) = INDEX ++ sig_create.
Proof.
  rewrite <- len_preface_written. apply at_next with (1 := at_HB_rest).
Qed.

Lemma at_HB_sig : at_off HB (len PRE + ds + psz + isz) = sig_create.
Proof. apply (at_next _ _ _ _ at_HB_index). Qed.

Lemma read_index_written :
  read_index written_lead written_preface HB =
  POk (w_chash cfg, N.of_nat (length chunks), chunk_table (w_uflag cfg) 0 chunks).
Proof.
  pose proof hlen_eq as Hhl. pose proof wf_HB as Hw. pose proof cds_bounds as Hcd.
  pose proof ok_parts as (Hne & Hoks & Hfit & Hisz). fold isz in Hisz.
  rewrite lead_size_PRE in Hfit.
  destruct flags_facts as (_ & _ & _ & Fl4 & _).
  pose proof (ci_len (w_chash cfg)) as Hc1. pose proof (ci_len (N.of_nat (length chunks))) as Hc2.
  pose proof (entries_count (w_uflag cfg) chunks) as Hcnt.
  set (B := len PRE + ds) in *.
  assert (Hidx : isz = len (ci_from_size (w_chash cfg)) + len (ci_from_size (N.of_nat (length chunks))) +
                       len (index_entries (w_uflag cfg) chunks)).
  { unfold isz, index_size, index_create. rewrite !len_app. lia. }
  assert (A0 : at_off HB (B + psz + 0) =
               ci_from_size (w_chash cfg) ++ ci_from_size (N.of_nat (length chunks)) ++
               index_entries (w_uflag cfg) chunks ++ sig_create).
  { rewrite N.add_0_r. unfold B. rewrite at_HB_index. unfold INDEX, index_create.
    rewrite <- !app_assoc. reflexivity. }
  pose proof (at_next _ _ _ _ A0) as A1. rewrite <- N.add_assoc in A1.
  pose proof (at_next _ _ _ _ A1) as A2. rewrite <- N.add_assoc in A2.
  assert (Hch : w_chash cfg <= INT_MAX)
    by (pose proof (dsize_some_small _ _ Hcds); unfold INT_MAX; lia).
  assert (Hcn : N.of_nat (length chunks) < two64) by (unfold INT_MAX, two64 in *; lia).
  unfold read_index, written_lead, written_preface.
  cbn [l_size l_hlen pf_size pf_indexsize pf_flags]. fold B.
  destruct (N.ltb_spec (B + hlen) (B + psz + isz)) as [|_]; [lia|].
  replace (B + hlen - (B + psz)) with (isz + 1) by lia.
  rewrite (rd_int_at HB _ 0 (isz + 1) _ _ Hw A0 Hch) by lia. cbn [pbind].
  rewrite Hcds.
  rewrite (rd_size_at HB _ _ (isz + 1) _ _ Hw A1 Hcn) by lia. cbn [pbind].
  rewrite Fl4.
  rewrite (idx_loop_written HB (B + psz) isz (isz + 1) cds (w_uflag cfg) (B + hlen) Hw
             ltac:(lia) ltac:(lia) chunks _ _ 0 0 [] sig_create A2)
    by (try exact Hoks; fold BODY; lia).
  cbn [pbind rev app].
  destruct (N.eqb_spec (0 + N.of_nat (length chunks)) 0) as [E|_].
  { destruct chunks; [contradiction|]. cbn [length] in E. lia. }
  rewrite N.eqb_refl. reflexivity.
Qed.

(** ** read_sig *)
Lemma read_sig_written : read_sig written_lead written_preface HB = POk tt.
Proof.
  pose proof hlen_eq as Hhl. pose proof wf_HB as Hw.
  unfold read_sig, written_lead, written_preface. cbn [l_size l_hlen pf_size pf_indexsize].
  assert (A0 : at_off HB (len PRE + ds + psz + isz + 0) = ci_from_size 0 ++ []).
  { rewrite N.add_0_r, at_HB_sig, app_nil_r. unfold sig_create. apply from_int_eq. }
  rewrite (rd_int_at HB _ 0 _ 0 [] Hw A0) by (change (len (ci_from_size 0)) with 1; unfold INT_MAX; lia).
  reflexivity.
Qed.

(** * T13.4: the reader opens what the writer wrote, with exactly the intended metadata *)
Theorem written_parses : parse_impl H no_pins f = POk (expected_header H cfg chunks).
Proof.
  unfold parse_impl. rewrite read_lead_written. cbn [pbind].
  rewrite read_header_written. cbn [pbind]. rewrite read_preface_written. cbn [pbind].
  rewrite read_index_written. cbn [pbind]. rewrite read_sig_written. cbn [pbind].
  unfold expected_header, written_lead, written_preface.
  cbn [l_detached l_hash l_size l_hlen l_hdigest pf_ddigest pf_flags pf_comp pf_size pf_indexsize].
  rewrite lead_size_PRE. reflexivity.
Qed.
End Accept.

(** ** The one asymmetry between writer and reader: preface_create emits index_size (a
    size_t) with compint_from_size, read_preface reads it with compint_to_int.  A file whose
    index is larger than INT_MAX bytes is written without complaint and refused by the
    reader. *)
Section Reject.
Hypothesis Hbig : INT_MAX < isz.

Theorem written_rejected : parse_impl H no_pins f = PErr.
Proof.
  unfold parse_impl. rewrite read_lead_written. cbn [pbind].
  rewrite read_header_written. cbn [pbind]. rewrite read_preface_cases.
  destruct (N.leb_spec isz INT_MAX); [lia|reflexivity].
Qed.
End Reject.
End Read.
End Main.

(** * Top-level statements (the section hypotheses are now explicit premises) *)

(** T13.4.  For every hash function returning well-formed digests of the advertised size,
    every configuration with known checksum types and a compression type the reader knows,
    and every non-empty entry list within the reader's limits: the written file is opened
    by the reader model with exactly the intended header, and by the specification parser. *)
Theorem written_file_opens (H : N -> bytes -> bytes) cfg chunks ds cds :
  (forall t m d, dsize t = Some d -> len (H t m) = d) ->
  (forall t m, wf_bytes (H t m)) ->
  dsize (w_hash cfg) = Some ds -> dsize (w_chash cfg) = Some cds ->
  (w_comp cfg = ZCK_COMP_NONE \/ w_comp cfg = ZCK_COMP_ZSTD) ->
  wfile_ok cfg chunks = true -> Forall wchunk_wf chunks ->
  parse_impl H no_pins (file_create H cfg chunks) = POk (expected_header H cfg chunks) /\
  parse_spec H (file_create H cfg chunks) = Some (expected_header H cfg chunks) /\
  wf_bytes (file_create H cfg chunks).
Proof.
  intros Hl Hw Hds Hcds Hc Hok Hwf.
  pose proof (wfile_ok_sz cfg chunks Hok) as Hsz.
  pose proof (written_parses H Hl Hw cfg chunks ds cds Hds Hcds Hc Hwf Hsz Hok) as Hp.
  pose proof (wf_f H Hl Hw cfg chunks ds Hds Hwf) as Hwff.
  split; [exact Hp|]. split; [|exact Hwff].
  apply (parse_impl_refines_spec H no_pins _ _ Hwff Hp).
Qed.

(** The only way a file within the [ssize_t] limits is written and then refused: its index
    is longer than INT_MAX bytes (preface_create writes index_size with compint_from_size,
    read_preface reads it with compint_to_int). *)
Theorem written_file_index_over_int_max_rejected (H : N -> bytes -> bytes) cfg chunks ds :
  (forall t m d, dsize t = Some d -> len (H t m) = d) ->
  (forall t m, wf_bytes (H t m)) ->
  dsize (w_hash cfg) = Some ds ->
  (w_comp cfg = ZCK_COMP_NONE \/ w_comp cfg = ZCK_COMP_ZSTD) ->
  Forall wchunk_wf chunks ->
  lead_size cfg chunks + header_length cfg chunks + len (file_body chunks) <= SSIZE_MAX ->
  INT_MAX < index_size cfg chunks ->
  parse_impl H no_pins (file_create H cfg chunks) = PErr.
Proof.
  intros Hl Hw Hds Hc Hwf Hsz Hbig.
  apply (written_rejected H Hl Hw cfg chunks ds ds Hds Hc Hwf Hsz Hbig).
Qed.

(** the body of the file: everything after lead + header is the stored chunks in order *)
Theorem written_body (H : N -> bytes -> bytes) cfg chunks ds :
  (forall t m d, dsize t = Some d -> len (H t m) = d) ->
  (forall t m, wf_bytes (H t m)) ->
  dsize (w_hash cfg) = Some ds ->
  skipn (N.to_nat (lead_size cfg chunks + header_length cfg chunks)) (file_create H cfg chunks) =
  file_body chunks.
Proof.
  intros Hl Hw Hds. rewrite (file_shape H Hl Hw cfg chunks ds Hds).
  assert (E : lead_size cfg chunks + header_length cfg chunks =
              len (lead_pre cfg chunks ++ header_digest H cfg chunks ++ header_rest H cfg chunks)).
  { rewrite !len_app, (lead_size_eq cfg chunks ds Hds), (len_header_rest H Hl Hw cfg chunks ds Hds).
    unfold header_digest. rewrite (Hl _ _ ds Hds). lia. }
  rewrite E.
  replace (lead_pre cfg chunks ++ header_digest H cfg chunks ++ header_rest H cfg chunks ++ file_body chunks)
    with ((lead_pre cfg chunks ++ header_digest H cfg chunks ++ header_rest H cfg chunks) ++ file_body chunks)
    by (rewrite <- !app_assoc; reflexivity).
  apply at_off_app_len.
Qed.

(** every index entry describes its chunk and locates its stored bytes in the body *)
Definition entry_of (u : bool) (body : bytes) (c : chunk) (w : wchunk) : Prop :=
  c_digest c = wc_digest w /\ c_udigest c = (if u then Some (wc_udigest w) else None) /\
  c_clen c = len (wc_data w) /\ c_ulen c = wc_ulen w /\
  c_start c + c_clen c <= len body /\
  sub body (c_start c) (c_clen c) = wc_data w.

Lemma chunk_table_located u cs : forall pre,
  Forall2 (entry_of u (pre ++ file_body cs)) (chunk_table u (len pre) cs) cs.
Proof.
  induction cs as [|c r IH]; intros pre; cbn [chunk_table]; constructor.
  - unfold entry_of. cbn [c_digest c_udigest c_clen c_ulen c_start].
    repeat split; rewrite file_body_cons; [rewrite !len_app; lia|apply sub_mid].
  - specialize (IH (pre ++ wc_data c)). rewrite len_app, <- app_assoc in IH. exact IH.
Qed.

Theorem written_chunks_located u cs :
  Forall2 (entry_of u (file_body cs)) (chunk_table u 0 cs) cs.
Proof. apply (chunk_table_located u cs []). Qed.

Lemma data_total_table u cs s : data_total (chunk_table u s cs) = len (file_body cs).
Proof.
  revert s. induction cs as [|c r IH]; intros s; cbn [chunk_table data_total fold_right]; [reflexivity|].
  fold (data_total (chunk_table u (s + len (wc_data c)) r)).
  rewrite IH, file_body_cons, len_app. reflexivity.
Qed.
