(** Concrete sealed headers under a toy hash, used by the non-vacuity [Example]s of the
    header-layer property files.  The toy hash is a byte sum (so permuting two bytes is a
    collision), expanded to the digest size of the checksum type. *)
From ZV Require Import Base.Bytes Gen.GenConsts Format.Compint Format.Header Format.ParseImpl.
Local Open Scope N_scope.

Definition toyH (t : N) (m : bytes) : bytes :=
  match dsize t with
  | Some ds => map (fun i => (fold_left N.add m 0 + N.of_nat i) mod 256) (seq 0 (N.to_nat ds))
  | None => []
  end.

Definition bseq (a n : nat) : bytes := map N.of_nat (seq a n).

(** ex1: "\0ZCK1", SHA-512/128 (type 3, 16-byte digests), no flags, no compression,
    two chunks (5 and 7 stored bytes), no signatures. *)
Definition ex1_hdr : bytes :=
  bseq 1 16 ++ [128; 128; 166] ++
  ([131; 130] ++ bseq 17 16 ++ [133; 133] ++ bseq 33 16 ++ [135; 137]) ++ [128].
Definition ex1_file : bytes :=
  magic_zck ++ [131; 186] ++ toyH 3 (magic_zck ++ [131; 186] ++ ex1_hdr) ++ ex1_hdr.

(** ex1 with the first two bytes of the data digest exchanged: another header, same sum *)
Definition ex1_hdr_swapped : bytes :=
  ([2; 1] ++ bseq 3 14) ++ [128; 128; 166] ++
  ([131; 130] ++ bseq 17 16 ++ [133; 133] ++ bseq 33 16 ++ [135; 137]) ++ [128].
Definition ex1_swapped : bytes :=
  magic_zck ++ [131; 186] ++ toyH 3 (magic_zck ++ [131; 186] ++ ex1_hdr) ++ ex1_hdr_swapped.

Definition ex1_lead : lead :=
  mkLead false 3 16 58 7 23 25 [51; 52; 53; 54; 55; 56; 57; 58; 59; 60; 61; 62; 63; 64; 65; 66].

Definition ex1_header : header :=
  mkHeader false 3 23 58 [51; 52; 53; 54; 55; 56; 57; 58; 59; 60; 61; 62; 63; 64; 65; 66]
           (bseq 1 16) 0 0 3 2
           [mkChunk (bseq 17 16) None 5 5 0; mkChunk (bseq 33 16) None 7 9 5] 19 38.

(** ex2: detached header "\0ZHR1", flags 6 (optional elements + uncompressed digests),
    zstd, one optional element of two bytes, a two-byte compressed integer (128) as the
    second stored size, three trailing bytes after the header. *)
Definition ex2_idx : bytes :=
  [131; 130] ++ bseq 17 16 ++ bseq 49 16 ++ [133; 133] ++ bseq 33 16 ++ bseq 65 16 ++ [0; 129; 137].
Definition ex2_hdr : bytes :=
  bseq 1 16 ++ [134; 130; 129; 128; 130; 7; 7] ++ [128 + len ex2_idx] ++ ex2_idx ++ [128].
Definition ex2_file : bytes :=
  magic_zhr ++ [131; 128 + len ex2_hdr] ++
  toyH 3 (magic_zck ++ [131; 128 + len ex2_hdr] ++ ex2_hdr) ++ ex2_hdr ++ [1; 2; 3].

Definition ex2_header : header :=
  mkHeader true 3 23 96 [29; 30; 31; 32; 33; 34; 35; 36; 37; 38; 39; 40; 41; 42; 43; 44]
           (bseq 1 16) 6 2 3 2
           [mkChunk (bseq 17 16) (Some (bseq 49 16)) 5 5 0;
            mkChunk (bseq 33 16) (Some (bseq 65 16)) 128 9 5] 24 71.
