(** Proofs for the pin options (C07). *)
From ZV Require Import Base.Bytes Gen.GenConsts Format.Header Format.ParseImpl Format.Pins.
From Coq Require Import ZifyBool ZifyN ZifyNat.
Local Open Scope Z_scope.

(** T7.1 finite, complete sweep over the 256 [char] values *)
Definition all_chars : list Z := map (fun k => Z.of_nat k - 128) (seq 0 256).

Lemma all_chars_complete c : -128 <= c <= 127 -> In c all_chars.
Proof.
  intros Hc. unfold all_chars. apply in_map_iff.
  exists (Z.to_nat (c + 128)). split; [lia|]. apply in_seq. lia.
Qed.

Definition hex_agree (c : Z) : bool :=
  match hexval c with Some v => hex_to_int c =? v | None => hex_to_int c =? -1 end.

Lemma hex_sweep : forallb hex_agree all_chars = true.
Proof. vm_compute. reflexivity. Qed.

Theorem hex_to_int_spec c : -128 <= c <= 127 ->
  hex_to_int c = match hexval c with Some v => v | None => -1 end.
Proof.
  intros Hc. pose proof hex_sweep as Hs. rewrite forallb_forall in Hs.
  specialize (Hs c (all_chars_complete c Hc)). unfold hex_agree in Hs.
  destruct (hexval c); apply Z.eqb_eq; exact Hs.
Qed.

Lemma hexval_range c v : hexval c = Some v -> 0 <= v <= 15.
Proof.
  unfold hexval.
  destruct ((48 <=? c) && (c <=? 57)) eqn:E1; [intros H; injection H as <-; lia|].
  destruct ((97 <=? c) && (c <=? 102)) eqn:E2; [intros H; injection H as <-; lia|].
  destruct ((65 <=? c) && (c <=? 70)) eqn:E3; [intros H; injection H as <-; lia|discriminate].
Qed.

(** valid for every [Z], not only the char range *)
Lemma hex_to_int_hexval c : hex_to_int c = match hexval c with Some v => v | None => -1 end.
Proof.
  unfold hex_to_int, hexval.
  destruct ((48 <=? c) && (c <=? 57)); [reflexivity|].
  destruct ((97 <=? c) && (c <=? 102)); [lia|].
  destruct ((65 <=? c) && (c <=? 70)); [lia|reflexivity].
Qed.

(** the index/parity loop equals a loop carrying the pending high nibble *)
Fixpoint ref_loop (s : list Z) (pend : option Z) (acc : list N) : option (list N) :=
  match s with
  | [] => Some (rev acc)
  | c :: r =>
      match hexval c with
      | None => None
      | Some v =>
          match pend with
          | None => ref_loop r (Some v) acc
          | Some b => ref_loop r None (Z.to_N ((b * 16 + v) mod 256) :: acc)
          end
      end
  end.

Lemma ascii_loop_ref s : forall i buf acc,
  ascii_loop s i buf acc = ref_loop s (if Nat.even i then None else Some buf) acc.
Proof.
  induction s as [|c r IH]; intros i buf acc; [destruct (Nat.even i); reflexivity|].
  cbn [ascii_loop ref_loop]. rewrite (hex_to_int_hexval c).
  destruct (hexval c) as [v|] eqn:Hv.
  - pose proof (hexval_range _ _ Hv) as Hr.
    destruct (v <? 0) eqn:E; [lia|].
    destruct (Nat.even i) eqn:Ei.
    + rewrite IH. rewrite Nat.even_succ, <- Nat.negb_even, Ei. reflexivity.
    + rewrite IH. rewrite Nat.even_succ, <- Nat.negb_even, Ei. reflexivity.
  - destruct (-1 <? 0) eqn:E; [|lia]. destruct (Nat.even i); reflexivity.
Qed.

Lemma pair_ind (P : list Z -> Prop) :
  P [] -> (forall a, P [a]) -> (forall a b r, P r -> P (a :: b :: r)) -> forall l, P l.
Proof.
  intros H0 H1 H2.
  fix IH 1. intros [|a [|b r]]; [exact H0|apply H1|apply H2, IH].
Qed.

Lemma ref_loop_unhex s : forall acc,
  Nat.even (length s) = true ->
  ref_loop s None acc = match unhex_spec s with Some t => Some (rev acc ++ t) | None => None end.
Proof.
  induction s as [|a|a b r IH] using pair_ind; intros acc Hev.
  - cbn. rewrite app_nil_r. reflexivity.
  - discriminate.
  - cbn [ref_loop unhex_spec].
    destruct (hexval a) as [x|] eqn:Ha; [|reflexivity].
    destruct (hexval b) as [y|] eqn:Hb; [|reflexivity].
    rewrite IH by exact Hev.
    pose proof (hexval_range _ _ Ha). pose proof (hexval_range _ _ Hb).
    rewrite Z.mod_small by lia.
    destruct (unhex_spec r) as [t|]; [|reflexivity].
    cbn [rev]. rewrite <- app_assoc. reflexivity.
Qed.

Theorem ascii_checksum_to_bin_spec s :
  Nat.even (length s) = true -> ascii_checksum_to_bin s = unhex_spec s.
Proof.
  intros Hev. unfold ascii_checksum_to_bin. rewrite ascii_loop_ref.
  change (Nat.even 0) with true. cbv iota. rewrite ref_loop_unhex by exact Hev.
  destruct (unhex_spec s); reflexivity.
Qed.

Lemma unhex_spec_some s t : unhex_spec s = Some t ->
  Forall is_hex s /\ length s = (2 * length t)%nat.
Proof.
  revert t. induction s as [|a|a b r IH] using pair_ind; intros t Hs.
  - injection Hs as <-. split; [constructor|reflexivity].
  - discriminate.
  - cbn [unhex_spec] in Hs.
    destruct (hexval a) eqn:Ha; [|discriminate].
    destruct (hexval b) eqn:Hb; [|discriminate].
    destruct (unhex_spec r) as [t'|] eqn:Hr; [|discriminate].
    injection Hs as <-. destruct (IH t' eq_refl) as [Hf Hl].
    split; [constructor; [unfold is_hex; congruence|constructor; [unfold is_hex; congruence|exact Hf]]|].
    cbn [length]. lia.
Qed.

Lemma unhex_spec_total s : Forall is_hex s -> Nat.even (length s) = true ->
  exists t, unhex_spec s = Some t.
Proof.
  induction s as [|a|a b r IH] using pair_ind; intros Hf Hev.
  - exists []. reflexivity.
  - discriminate.
  - inversion Hf as [|? ? Ha Hf1]; subst. inversion Hf1 as [|? ? Hb Hf2]; subst.
    destruct (IH Hf2 Hev) as [t Ht]. cbn [unhex_spec].
    unfold is_hex in Ha, Hb.
    destruct (hexval a); [|contradiction]. destruct (hexval b); [|contradiction].
    rewrite Ht. eexists. reflexivity.
Qed.

(** T7.2: the digest option is accepted iff the string has exactly twice the digest size
    of the pinned type and consists of hex digits only; the stored value is [unhex_spec]. *)
Theorem set_digest_iff st s d :
  pr_err st = 0%N ->
  (set_opt st (SetDigest s) = (mkPrep (pr_type st) (Some d) (pr_size st) 0%N, true)
   <->
   exists ds, 0 <= pr_type st /\ dsize (Z.to_N (pr_type st)) = Some ds /\
              length s = (2 * N.to_nat ds)%nat /\ Forall is_hex s /\ unhex_spec s = Some d).
Proof.
  intros He. unfold set_opt. rewrite He. change (0 <? 0)%N with false. cbv iota.
  split.
  - destruct (pr_type st <? 0) eqn:Et; [intros H; discriminate|].
    destruct (dsize (Z.to_N (pr_type st))) as [ds|] eqn:Hd; [|intros H; discriminate].
    destruct (Z.of_N ds * 2 =? Z.of_nat (length s)) eqn:El; cbn [negb]; [|intros H; discriminate].
    assert (Hev : Nat.even (length s) = true).
    { replace (length s) with (2 * N.to_nat ds)%nat by lia. apply Nat.even_spec. exists (N.to_nat ds). lia. }
    rewrite (ascii_checksum_to_bin_spec s Hev).
    destruct (unhex_spec s) as [t|] eqn:Hu; [|intros H; discriminate].
    intros H. assert (t = d) by congruence. subst t.
    exists ds. destruct (unhex_spec_some _ _ Hu) as [Hf _].
    repeat split; try assumption; lia.
  - intros (ds & Ht & Hd & Hl & Hf & Hu).
    destruct (pr_type st <? 0) eqn:Et; [lia|]. rewrite Hd.
    destruct (Z.of_N ds * 2 =? Z.of_nat (length s)) eqn:El; cbn [negb]; [|lia].
    assert (Hev : Nat.even (length s) = true).
    { rewrite Hl. apply Nat.even_spec. exists (N.to_nat ds). lia. }
    rewrite (ascii_checksum_to_bin_spec s Hev), Hu. reflexivity.
Qed.

(** the digest can only be set after the type, and the type cannot change afterwards *)
Theorem digest_needs_type st s :
  pr_type st < 0 -> snd (set_opt st (SetDigest s)) = false.
Proof.
  intros Ht. unfold set_opt. destruct (0 <? pr_err st)%N; [reflexivity|].
  destruct (pr_type st <? 0) eqn:E; [reflexivity|lia].
Qed.

Theorem type_frozen_after_digest st v d :
  pr_digest st = Some d -> snd (set_opt st (SetType v)) = false.
Proof.
  intros Hd. unfold set_opt. destruct (0 <? pr_err st)%N; [reflexivity|].
  destruct (v <? 0); [reflexivity|]. destruct (2147483647 <? v); [reflexivity|]. rewrite Hd. reflexivity.
Qed.
