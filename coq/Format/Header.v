(** Header layer, shared definitions and the SPECIFICATION parser derived from
    zchunk_format.txt (exact arithmetic over [N], regions sliced first, every integer a
    [ci_value]).  The hash function is a parameter [H : hash type -> message -> digest]. *)
From ZV Require Import Base.Bytes Gen.GenConsts Format.Compint.
Local Open Scope N_scope.

Definition SSIZE_MAX : N := 9223372036854775807.

(** digest size of a checksum type as [hash_setup] assigns it *)
Definition dsize (t : N) : option N :=
  if t =? ZCK_HASH_SHA1 then Some DIGEST_SIZE_SHA1
  else if t =? ZCK_HASH_SHA256 then Some DIGEST_SIZE_SHA256
  else if t =? ZCK_HASH_SHA512 then Some DIGEST_SIZE_SHA512
  else if t =? ZCK_HASH_SHA512_128 then Some DIGEST_SIZE_SHA512_128
  else None.

Definition magic_zck : bytes := [0; 90; 67; 75; 49].   (* "\0ZCK1" *)
Definition magic_zhr : bytes := [0; 90; 72; 82; 49].   (* "\0ZHR1" *)

Fixpoint bytes_eqb (a b : bytes) : bool :=
  match a, b with
  | [], [] => true
  | x :: a', y :: b' => (x =? y) && bytes_eqb a' b'
  | _, _ => false
  end.

Definition sub (f : bytes) (off n : N) : bytes := firstn (N.to_nat n) (skipn (N.to_nat off) f).

Record chunk := mkChunk {
  c_digest : bytes; c_udigest : option bytes; c_clen : N; c_ulen : N; c_start : N }.

Record header := mkHeader {
  h_detached : bool;
  h_hash : N;            (* overall checksum type *)
  h_lead : N;            (* lead length *)
  h_hlen : N;            (* header size field (header without the lead) *)
  h_hdigest : bytes;     (* header checksum *)
  h_ddigest : bytes;     (* data checksum *)
  h_flags : N;
  h_comp : N;
  h_chash : N;           (* chunk checksum type *)
  h_count : N;           (* chunk count field *)
  h_chunks : list chunk;
  h_prefsize : N; h_indexsize : N }.

(** the bytes the header checksum is computed over *)
Definition covered (f : bytes) (digest_loc lead hlen : N) : bytes :=
  magic_zck ++ sub f 5 (digest_loc - 5) ++ sub f lead hlen.

Section Spec.
Variable H : N -> bytes -> bytes.

(** one representable compressed integer: value, and the rest of the input *)
Definition spec_ci (l : bytes) : option (N * bytes) :=
  match ci_value l with
  | Some (v, n) => if (Nat.leb n 10) && (v <? two64) then Some (v, skipn n l) else None
  | None => None
  end.
Definition spec_ci_int (l : bytes) : option (N * bytes) :=
  match spec_ci l with
  | Some (v, r) => if v <=? INT_MAX then Some (v, r) else None
  | None => None
  end.
(** [n] raw bytes *)
Definition spec_take (n : N) (l : bytes) : option (bytes * bytes) :=
  if n <=? len l then Some (firstn (N.to_nat n) l, skipn (N.to_nat n) l) else None.

Fixpoint spec_opts (fuel : nat) (count : N) (l : bytes) : option bytes :=
  if count =? 0 then Some l else
  match fuel with
  | O => None
  | S fuel' =>
      match spec_ci l with
      | Some (_, l1) =>
          match spec_ci l1 with
          | Some (dsz, l2) =>
              match spec_take dsz l2 with
              | Some (_, l3) => spec_opts fuel' (count - 1) l3
              | None => None
              end
          | None => None
          end
      | None => None
      end
  end.

(** index entries: parse until the index region is used up exactly *)
Fixpoint spec_entries (fuel : nat) (ds : N) (uflag : bool) (start : N) (l : bytes)
  : option (list chunk) :=
  match l with
  | [] => Some []
  | _ =>
    match fuel with
    | O => None
    | S fuel' =>
      match spec_take ds l with
      | Some (dg, l1) =>
          match (if uflag then match spec_take ds l1 with
                               | Some (u, l2) => Some (Some u, l2) | None => None end
                 else Some (None, l1)) with
          | Some (ud, l2) =>
              match spec_ci l2 with
              | Some (clen, l3) =>
                  match spec_ci l3 with
                  | Some (ulen, l4) =>
                      match spec_entries fuel' ds uflag (start + clen) l4 with
                      | Some cs => Some (mkChunk dg ud clen ulen start :: cs)
                      | None => None
                      end
                  | None => None
                  end
              | None => None
              end
          | None => None
          end
      | None => None
      end
    end
  end.

Definition data_total (cs : list chunk) : N := fold_right (fun c a => c_clen c + a) 0 cs.

(** everything the API reports must fit an [ssize_t]: sizes, offsets, total length *)
Definition sizes_fit (hdr : N) (cs : list chunk) : bool :=
  (hdr + data_total cs <=? SSIZE_MAX) && forallb (fun c => c_ulen c <=? SSIZE_MAX) cs.

Definition parse_spec (f : bytes) : option header :=
  match spec_take 5 f with
  | Some (m, f1) =>
    if bytes_eqb m magic_zck || bytes_eqb m magic_zhr then
    match spec_ci_int f1 with
    | Some (ht, f2) =>
      match dsize ht with
      | Some ds =>
        match spec_ci f2 with
        | Some (hlen, f3) =>
          match spec_take ds f3 with
          | Some (hdg, f4) =>
            let digest_loc := len f - len f3 in
            let lead := len f - len f4 in
            match spec_take hlen f4 with
            | Some (hdr, _) =>
              if negb (hlen =? 0) && bytes_eqb (H ht (covered f digest_loc lead hlen)) hdg then
              (* preface *)
              match spec_take ds hdr with
              | Some (ddg, p1) =>
                match spec_ci p1 with
                | Some (flags, p2) =>
                  if (N.land flags 1 =? 0) && (flags <? 8) then
                  match spec_ci_int p2 with
                  | Some (comp, p3) =>
                    if (comp =? ZCK_COMP_NONE) || (comp =? ZCK_COMP_ZSTD) then
                    match (if N.testbit flags 1
                           then match spec_ci p3 with
                                | Some (oc, p4) => spec_opts (length p4) oc p4
                                | None => None end
                           else Some p3) with
                    | Some p5 =>
                      match spec_ci_int p5 with
                      | Some (isz, p6) =>
                        let prefsize := hlen - len p6 in
                        match spec_take isz p6 with
                        | Some (idx, p7) =>
                          match spec_ci_int idx with
                          | Some (cht, i1) =>
                            match dsize cht with
                            | Some cds =>
                              match spec_ci i1 with
                              | Some (count, i2) =>
                                match spec_entries (length i2) cds (N.testbit flags 2) 0 i2 with
                                | Some cs =>
                                  match spec_ci_int p7 with
                                  | Some (sigs, _) =>
                                    if (sigs =? 0) && (count =? N.of_nat (length cs)) && negb (count =? 0)
                                       && sizes_fit (lead + hlen) cs
                                    then Some (mkHeader (bytes_eqb m magic_zhr) ht lead hlen hdg ddg
                                                        flags comp cht count cs prefsize isz)
                                    else None
                                  | None => None
                                  end
                                | None => None
                                end
                              | None => None
                              end
                            | None => None
                            end
                          | None => None
                          end
                        | None => None
                        end
                      | None => None
                      end
                    | None => None
                    end
                    else None
                  | None => None
                  end
                  else None
                | None => None
                end
              | None => None
              end
              else None
            | None => None
            end
          | None => None
          end
        | None => None
        end
      | None => None
      end
    | None => None
    end
    else None
  | None => None
  end.
End Spec.
