(** T7.4: composition of the pin test with the header checksum gate. *)
From ZV Require Import Base.Bytes Format.Header Format.ParseImpl Format.ParseLemmas Format.ParseProofs.
Local Open Scope N_scope.

Theorem pinned_open_authenticates (H : N -> bytes -> bytes) p f f' h h' t d :
  p_type p = Some t -> p_digest p = Some d ->
  parse_impl H p f = POk h -> parse_impl H p f' = POk h' ->
  sub f 5 (h_lead h + h_hlen h - 5) = sub f' 5 (h_lead h' + h_hlen h' - 5) \/
  exists x y, x <> y /\ H t x = H t y.
Proof.
  intros Ht Hd E E'.
  destruct (parse_impl_ok H _ _ _ E) as (l & hb & pf & cht & count & cs & u & El & _ & _ & _ & _ & Eh).
  destruct (parse_impl_ok H _ _ _ E') as (l' & hb' & pf' & cht' & count' & cs' & u' & El' & _ & _ & _ & _ & Eh').
  destruct (open_implies_digest H _ _ _ E) as (l0 & El0 & Hdg & _ & Hlen).
  destruct (open_implies_digest H _ _ _ E') as (l0' & El0' & Hdg' & _ & Hlen').
  assert (l0 = l) by congruence. assert (l0' = l') by congruence. subst l0 l0'.
  apply read_lead_pins in El. apply read_lead_pins in El'.
  destruct El as (En & Pt & Pd & _). destruct El' as (En' & Pt' & Pd' & _).
  pose proof (Pt _ Ht) as T1. pose proof (Pt' _ Ht) as T2.
  pose proof (Pd _ Hd) as D1. pose proof (Pd' _ Hd) as D2.
  subst h h'. cbn [h_lead h_hlen].
  destruct (list_eq_dec N.eq_dec (sub f 5 (l_size l + l_hlen l - 5)) (sub f' 5 (l_size l' + l_hlen l' - 5))) as [Eq|Ne].
  - left. exact Eq.
  - right. rewrite T1.
    apply (same_digest_different_header_collides H f f' l l'); try assumption; congruence.
Qed.
