(** The header parser model [parse_impl] (faithful to header.c / index_read.c) against the
    format specification [parse_spec]: refinement, index invariants, totality (no
    out-of-bounds read, no fuel exhaustion), checksum gate, coverage of the checksum, pins.
    Everything is proved for an arbitrary hash function [H]. *)
From ZV Require Import Base.Bytes Gen.GenConsts Format.Compint Format.CompintProofs
                       Format.Header Format.ParseImpl Format.ParseLemmas.
From Coq Require Import ZifyBool ZifyN ZifyNat.
Ltac Zify.zify_post_hook ::= Z.div_mod_to_equations.
Local Open Scope N_scope.

(** start offsets are the exact running sum of the stored sizes *)
Fixpoint starts_ok (s : N) (cs : list chunk) : Prop :=
  match cs with
  | [] => True
  | c :: r => c_start c = s /\ starts_ok (s + c_clen c) r
  end.

Ltac pbind_pair H a b E :=
  match type of H with
  | pbind ?x _ = POk _ =>
      destruct x as [[a b]| | |] eqn:E; cbn [pbind] in H;
      [|discriminate H|discriminate H|discriminate H]
  end.
Ltac pbind_one H a E :=
  match type of H with
  | pbind ?x _ = POk _ =>
      destruct x as [a| | |] eqn:E; cbn [pbind] in H;
      [|discriminate H|discriminate H|discriminate H]
  end.
Ltac if_false H C :=
  match type of H with
  | (if ?c then _ else _) = POk _ => destruct c eqn:C; [discriminate H|]
  end.

(** * read_lead *)
Lemma read_lead_facts p f l :
  read_lead p f = POk l ->
  25 <= len f /\
  bytes_eqb (firstn 5 f) magic_zck || bytes_eqb (firstn 5 f) magic_zhr = true /\
  l_detached l = bytes_eqb (firstn 5 f) magic_zhr /\
  dsize (l_hash l) = Some (l_ds l) /\
  l_size l = l_dloc l + l_ds l /\
  l_loaded l = N.max 25 (l_size l) /\ l_loaded l <= len f /\
  l_hdigest l = sub f (l_dloc l) (l_ds l) /\
  exists l1, rd_int (firstn (N.to_nat 25) f) 0 5 25 = POk (l_hash l, l1) /\
             rd_size (firstn (N.to_nat 25) f) 0 l1 25 = POk (l_hlen l, l_dloc l).
Proof.
  unfold read_lead. rewrite LEAD_READ_25. intros E.
  destruct (N.ltb_spec (len f) 25) as [|Hlen]; [discriminate|].
  change (firstn 5 (firstn (N.to_nat 25) f)) with (firstn 5 (firstn 25 f)) in E.
  rewrite firstn_firstn in E. change (Nat.min 5 25) with 5%nat in E.
  if_false E Cm. apply negb_false_iff in Cm.
  pbind_pair E ht l1 E1.
  if_false E Ct.
  destruct (dsize ht) as [ds|] eqn:Eds; [|discriminate].
  pbind_pair E hlen l2 E2.
  if_false E Cl. apply N.ltb_ge in Cl.
  pbind_one E dg Edg.
  if_false E Cd. if_false E Cs.
  assert (El : l = mkLead (bytes_eqb (firstn 5 f) magic_zhr) ht ds hlen l2 (l2 + ds)
                 (25 + (if 25 <? l2 + ds then l2 + ds - 25 else 0)) dg) by congruence.
  subst l. cbn [l_detached l_hash l_ds l_hlen l_dloc l_size l_loaded l_hdigest].
  apply rd_bytes_ok in Edg. destruct Edg as [Hb ->].
  assert (Hld : 25 + (if 25 <? l2 + ds then l2 + ds - 25 else 0) = N.max 25 (l2 + ds))
    by (destruct (N.ltb_spec 25 (l2 + ds)); lia).
  rewrite Hld in Cl, Hb |- *.
  split; [exact Hlen|]. split; [rewrite orb_comm; exact Cm|]. split; [reflexivity|].
  split; [exact Eds|]. split; [reflexivity|]. split; [reflexivity|]. split; [exact Cl|].
  split; [apply sub_firstn; lia|].
  exists l1. split; [reflexivity|assumption].
Qed.

Lemma read_lead_bounds p f l :
  read_lead p f = POk l ->
  5 < l_dloc l /\ l_dloc l <= 25 /\ 16 <= l_ds l <= 64 /\ l_dloc l <= l_size l.
Proof.
  intros E. destruct (read_lead_facts _ _ _ E) as (_ & _ & _ & Hds & Hsz & _ & _ & _ & l1 & E1 & E2).
  apply rd_int_bounds in E1. apply rd_size_bounds in E2. pose proof (dsize_bounds _ _ Hds). lia.
Qed.

(** T7.3: the pins only filter; an accepted lead is the unpinned lead and equals the pins *)
Theorem read_lead_pins p f l :
  read_lead p f = POk l <->
  (read_lead no_pins f = POk l /\
   (forall t, p_type p = Some t -> t = l_hash l) /\
   (forall d, p_digest p = Some d -> d = l_hdigest l) /\
   (forall s, p_size p = Some s -> s = l_hlen l + l_size l)).
Proof.
  destruct p as [pt pd ps]. unfold read_lead. cbn [p_type p_digest p_size no_pins].
  assert (Hfail : forall (c : bool) (P : Prop),
             (if c then @PErr lead else PErr) = POk l <-> (@PErr lead = POk l /\ P)).
  { intros c P. split; [destruct c; discriminate|intros [X _]; discriminate]. }
  destruct (len f <? LEAD_READ); [split; [discriminate|intros [X _]; discriminate]|].
  destruct (negb _); [split; [discriminate|intros [X _]; discriminate]|].
  destruct (rd_int _ _ _ _) as [[ht l1]| | |]; cbn [pbind];
    try (split; [discriminate|intros [X _]; discriminate]).
  destruct (dsize ht) as [ds|]; [|apply Hfail].
  destruct (rd_size _ _ _ _) as [[hlen l2]| | |]; cbn [pbind];
    try (split; [destruct (match pt with Some _ => _ | None => _ end); discriminate
                |intros [X _]; discriminate]).
  destruct (len f <? _); [apply Hfail|].
  destruct (rd_bytes _ _ _) as [dg| | |]; cbn [pbind];
    try (split; [destruct (match pt with Some _ => _ | None => _ end); discriminate
                |intros [X _]; discriminate]).
  set (L := mkLead _ _ _ _ _ _ _ _).
  split.
  - intros E.
    destruct pt as [t|]; [destruct (N.eqb_spec t ht) as [->|]; cbn [negb] in E; [|discriminate]|];
    (destruct pd as [d|]; [destruct (bytes_eqb d dg) eqn:Ed; cbn [negb] in E; [|discriminate];
                           apply bytes_eqb_eq in Ed|]);
    (destruct ps as [s|]; [destruct (N.eqb_spec s (hlen + (l2 + ds))) as [Es|]; cbn [negb] in E;
                           [|discriminate]|]);
    (assert (l = L) by congruence; subst l; unfold L;
     cbn [l_hash l_hdigest l_hlen l_size];
     split; [reflexivity|]; repeat split; intros ? X; congruence).
  - intros (E & Ht & Hd & Hs). assert (l = L) by congruence. subst l. unfold L in Ht, Hd, Hs.
    cbn [l_hash l_hdigest l_hlen l_size] in Ht, Hd, Hs.
    destruct pt as [t|]; [rewrite (Ht t eq_refl), N.eqb_refl; cbn [negb]|];
    (destruct pd as [d|]; [rewrite (Hd d eq_refl), bytes_eqb_refl; cbn [negb]|]);
    (destruct ps as [s|]; [rewrite (Hs s eq_refl), N.eqb_refl; cbn [negb]|]); reflexivity.
Qed.

Lemma read_lead_clean p f : clean (read_lead p f).
Proof.
  unfold read_lead. rewrite LEAD_READ_25.
  destruct (N.ltb_spec (len f) 25) as [|Hlen]; [exact I|].
  destruct (negb _); [exact I|].
  assert (Hb : len (firstn (N.to_nat 25) f) = 25) by (apply len_firstn_le; exact Hlen).
  apply clean_bind; [apply rd_int_clean; lia|]. intros [ht l1] E1.
  destruct (match p_type p with Some _ => _ | None => _ end); [exact I|].
  destruct (dsize ht) as [ds|]; [|exact I].
  apply clean_bind; [apply rd_size_clean; lia|]. intros [hlen l2] E2.
  destruct (N.ltb_spec (len f) (25 + (if 25 <? l2 + ds then l2 + ds - 25 else 0))) as [|Hl]; [exact I|].
  apply clean_bind.
  - apply rd_bytes_clean. rewrite len_firstn_le by exact Hl.
    destruct (N.ltb_spec 25 (l2 + ds)); lia.
  - intros dg _. destruct (match p_digest p with Some _ => _ | None => _ end); [exact I|].
    destruct (match p_size p with Some _ => _ | None => _ end); exact I.
Qed.

(** * read_header_from_file *)
Section Header.
Variable H : N -> bytes -> bytes.

Lemma read_header_facts l f hb :
  read_header_from_file H l f = POk hb ->
  hb = firstn (N.to_nat (l_size l + l_hlen l)) f /\
  l_size l + l_hlen l <= len f /\ l_hlen l <> 0 /\ l_loaded l - l_size l <= l_hlen l /\
  H (l_hash l) (magic_zck ++ sub hb 5 (l_dloc l - 5) ++ sub hb (l_size l) (l_hlen l)) = l_hdigest l.
Proof.
  unfold read_header_from_file. intros E.
  if_false E C0. apply orb_false_iff in C0. destruct C0 as [_ C0]. apply N.eqb_neq in C0.
  if_false E C1. if_false E C2. apply N.ltb_ge in C2. if_false E C3. apply N.ltb_ge in C3.
  destruct (bytes_eqb _ _) eqn:Cd in E; [|discriminate]. apply bytes_eqb_eq in Cd.
  assert (hb = firstn (N.to_nat (l_size l + l_hlen l)) f) by congruence. subst hb.
  repeat split; assumption.
Qed.

Lemma read_header_clean l f : clean (read_header_from_file H l f).
Proof.
  unfold read_header_from_file.
  repeat match goal with |- clean (if ?c then _ else _) => destruct c; try exact I end.
Qed.

End Header.

Lemma covered_firstn f dloc size hlen :
  dloc <= size + hlen -> 5 <= dloc ->
  magic_zck ++ sub (firstn (N.to_nat (size + hlen)) f) 5 (dloc - 5) ++
    sub (firstn (N.to_nat (size + hlen)) f) size hlen = covered f dloc size hlen.
Proof.
  intros Hd H5. unfold covered. rewrite !sub_firstn by lia. reflexivity.
Qed.

(** * optional elements *)
Lemma spec_opts_0 sf l : spec_opts sf 0 l = Some l.
Proof. destruct sf; reflexivity. Qed.

Lemma spec_opts_S sf c l :
  c <> 0 ->
  spec_opts (S sf) c l =
  match spec_ci l with
  | Some (_, l1) =>
      match spec_ci l1 with
      | Some (dsz, l2) =>
          match spec_take dsz l2 with
          | Some (_, l3) => spec_opts sf (c - 1) l3
          | None => None
          end
      | None => None
      end
  | None => None
  end.
Proof. intros Hc. cbn [spec_opts]. destruct (N.eqb_spec c 0); [contradiction|reflexivity]. Qed.

Lemma opt_loop_spec hb base maxlen count :
  wf_bytes hb -> base + maxlen <= len hb ->
  forall fuel i ln l' sf,
    opt_loop fuel hb base maxlen i count ln = POk l' -> i <= count ->
    (N.to_nat (maxlen - ln) <= sf)%nat ->
    spec_opts sf (count - i) (at_off hb (base + ln)) = Some (at_off hb (base + l')).
Proof.
  intros Hwf Hlen. induction fuel as [|fuel IH]; intros i ln l' sf E Hi Hsf.
  - cbn [opt_loop] in E. destruct (N.leb_spec count i); [|discriminate].
    replace (count - i) with 0 by lia. rewrite spec_opts_0. congruence.
  - cbn [opt_loop] in E. destruct (N.leb_spec count i) as [Hc|Hc].
    + replace (count - i) with 0 by lia. rewrite spec_opts_0. congruence.
    + pbind_pair E x l1 E1. pbind_pair E dsz l2 E2.
      destruct (N.ltb_spec (maxlen - l2) dsz) as [|Hd]; [discriminate|].
      destruct (rd_size_spec _ _ _ _ _ _ Hwf E1) as (S1 & B1 & B1' & _).
      destruct (rd_size_spec _ _ _ _ _ _ Hwf E2) as (S2 & B2 & B2' & _).
      destruct sf as [|sf]; [lia|].
      rewrite spec_opts_S by lia. rewrite S1, S2, spec_take_at by lia.
      replace (count - i - 1) with (count - (i + 1)) by lia.
      rewrite <- N.add_assoc. apply (IH (i + 1) (l2 + dsz) l' sf E); lia.
Qed.

Lemma opt_loop_clean hb base maxlen count :
  base + maxlen <= len hb ->
  forall fuel i ln, (N.to_nat (maxlen - ln) < fuel)%nat ->
    clean (opt_loop fuel hb base maxlen i count ln).
Proof.
  intros Hlen. induction fuel as [|fuel IH]; intros i ln Hf; [lia|].
  cbn [opt_loop]. destruct (count <=? i); [exact I|].
  apply clean_bind; [apply rd_size_clean; exact Hlen|]. intros [x l1] E1.
  apply clean_bind; [apply rd_size_clean; exact Hlen|]. intros [dsz l2] E2.
  destruct (N.ltb_spec (maxlen - l2) dsz) as [|Hd]; [exact I|].
  apply rd_size_bounds in E1. apply rd_size_bounds in E2. apply IH. lia.
Qed.


(** * read_preface *)
Definition spec_optpart (flags : N) (p3 : bytes) : option bytes :=
  if N.testbit flags 1
  then match spec_ci p3 with
       | Some (oc, p4) => spec_opts (length p4) oc p4
       | None => None end
  else Some p3.

Lemma read_preface_facts l hb pf :
  wf_bytes hb -> len hb = l_size l + l_hlen l ->
  read_preface l hb = POk pf ->
  exists l1 l2 l3,
    spec_take (l_ds l) (at_off hb (l_size l)) =
      Some (pf_ddigest pf, at_off hb (l_size l + l_ds l)) /\
    spec_ci (at_off hb (l_size l + l_ds l)) = Some (pf_flags pf, at_off hb (l_size l + l1)) /\
    N.land (pf_flags pf) 1 = 0 /\ pf_flags pf < 8 /\
    spec_ci_int (at_off hb (l_size l + l1)) = Some (pf_comp pf, at_off hb (l_size l + l2)) /\
    (pf_comp pf =? ZCK_COMP_NONE) || (pf_comp pf =? ZCK_COMP_ZSTD) = true /\
    spec_optpart (pf_flags pf) (at_off hb (l_size l + l2)) = Some (at_off hb (l_size l + l3)) /\
    spec_ci_int (at_off hb (l_size l + l3)) =
      Some (pf_indexsize pf, at_off hb (l_size l + pf_size pf)) /\
    pf_size pf <= l_hlen l.
Proof.
  intros Hwf Hlen. unfold read_preface. intros E.
  if_false E C0. apply N.ltb_ge in C0.
  pbind_one E ddg Ed. pbind_pair E flags l1 E1.
  if_false E Cf1. apply negb_false_iff, N.eqb_eq in Cf1.
  if_false E Cf2. apply negb_false_iff, N.eqb_eq in Cf2.
  pbind_pair E comp l2 E2.
  if_false E Cc. apply negb_false_iff in Cc.
  pbind_one E l3 E3. pbind_pair E isz l4 E4.
  assert (pf = mkPreface ddg flags comp l4 isz) by congruence. subst pf.
  cbn [pf_ddigest pf_flags pf_comp pf_size pf_indexsize].
  apply rd_bytes_ok in Ed. destruct Ed as [Hd ->].
  destruct (rd_size_spec _ _ _ _ _ _ Hwf E1) as (S1 & B1 & B1' & V1).
  destruct (rd_int_spec _ _ _ _ _ _ Hwf E2) as (S2 & B2 & B2' & _).
  destruct (rd_int_spec _ _ _ _ _ _ Hwf E4) as (S4 & B4 & B4' & _).
  exists l1, l2, l3.
  split; [apply spec_take_at; exact Hd|]. split; [exact S1|]. split; [exact Cf1|].
  split; [apply unknown_flags_zero; assumption|]. split; [exact S2|]. split; [exact Cc|].
  split; [|split; [exact S4|exact B4']].
  unfold spec_optpart. destruct (N.testbit flags 1).
  - pbind_pair E3 oc lo Eo.
    destruct (rd_size_spec _ _ _ _ _ _ Hwf Eo) as (So & Bo & Bo' & _).
    rewrite So. replace oc with (oc - 0) at 1 by lia.
    apply (opt_loop_spec hb (l_size l) (l_hlen l) oc Hwf ltac:(lia) _ 0 lo l3 _ E3); [lia|].
    assert (Hl : len (at_off hb (l_size l + lo)) = l_hlen l - lo) by (rewrite len_at_off; lia).
    unfold len in Hl. lia.
  - congruence.
Qed.

Lemma read_preface_clean l hb :
  len hb = l_size l + l_hlen l -> clean (read_preface l hb).
Proof.
  intros Hlen. unfold read_preface.
  destruct (N.ltb_spec (l_hlen l) (l_ds l)); [exact I|].
  apply clean_bind; [apply rd_bytes_clean; lia|]. intros ddg _.
  apply clean_bind; [apply rd_size_clean; lia|]. intros [flags l1] E1.
  destruct (negb _); [exact I|]. destruct (negb _); [exact I|].
  apply clean_bind; [apply rd_int_clean; lia|]. intros [comp l2] E2.
  destruct (negb _); [exact I|].
  apply clean_bind.
  - destruct (N.testbit flags 1); [|exact I].
    apply clean_bind; [apply rd_size_clean; lia|]. intros [oc lo] Eo.
    apply opt_loop_clean; [lia|]. apply rd_size_bounds in Eo. lia.
  - intros l3 _. apply clean_bind; [apply rd_int_clean; lia|]. intros [isz l4] _. exact I.
Qed.

(** * the index loop *)
Lemma spec_entries_nil sf ds uflag start : spec_entries sf ds uflag start [] = Some [].
Proof. destruct sf; reflexivity. Qed.

Lemma spec_entries_S sf ds uflag start l :
  l <> [] ->
  spec_entries (S sf) ds uflag start l =
  match spec_take ds l with
  | Some (dg, l1) =>
      match (if uflag then match spec_take ds l1 with
                           | Some (u, l2) => Some (Some u, l2) | None => None end
             else Some (None, l1)) with
      | Some (ud, l2) =>
          match spec_ci l2 with
          | Some (clen, l3) =>
              match spec_ci l3 with
              | Some (ulen, l4) =>
                  match spec_entries sf ds uflag (start + clen) l4 with
                  | Some cs => Some (mkChunk dg ud clen ulen start :: cs)
                  | None => None
                  end
              | None => None
              end
          | None => None
          end
      | None => None
      end
  | None => None
  end.
Proof. destruct l; [contradiction|reflexivity]. Qed.

Lemma idx_loop_done fuel hb base size maxlen ds uflag hdrlen ln idx_loc count acc :
  size <= ln ->
  idx_loop fuel hb base size maxlen ds uflag hdrlen ln idx_loc count acc =
  if negb (ln =? size) then PErr else POk (count, rev acc).
Proof.
  intros Hs. destruct fuel; cbn [idx_loop]; destruct (N.leb_spec size ln); (reflexivity || lia).
Qed.

Lemma idx_loop_step fuel hb base size maxlen ds uflag hdrlen ln idx_loc count acc :
  ln < size ->
  idx_loop (S fuel) hb base size maxlen ds uflag hdrlen ln idx_loc count acc =
  let dsz := if uflag then ds + ds else ds in
  if maxlen <? ln + dsz then PErr else
  dg <- rd_bytes hb (base + ln) ds ;;
  let ln1 := ln + ds in
  '(ud, ln2) <- (if uflag then u <- rd_bytes hb (base + ln1) ds ;; POk (Some u, ln1 + ds)
                  else POk (None, ln1)) ;;
  '(clen, l3) <- rd_size hb base ln2 maxlen ;;
  '(ulen, l4) <- rd_size hb base l3 maxlen ;;
  if (SSIZE_MAX <? hdrlen) || (SSIZE_MAX - hdrlen <? idx_loc) ||
     (SSIZE_MAX - hdrlen - idx_loc <? clen) || (SSIZE_MAX <? ulen) then PErr else
  idx_loop fuel hb base size maxlen ds uflag hdrlen l4 (idx_loc + clen) (count + 1)
           (mkChunk dg ud clen ulen idx_loc :: acc).
Proof.
  intros Hs. cbn [idx_loop]. destruct (N.leb_spec size ln); [lia|reflexivity].
Qed.

Lemma idx_loop_le fuel hb base size maxlen ds uflag hdrlen ln idx_loc count acc r :
  idx_loop fuel hb base size maxlen ds uflag hdrlen ln idx_loc count acc = POk r -> ln <= size.
Proof.
  intros E. destruct (N.le_gt_cases size ln) as [Hs|Hs]; [|lia].
  rewrite idx_loop_done in E by exact Hs.
  destruct (N.eqb_spec ln size); cbn [negb] in E; [lia|discriminate].
Qed.

Lemma idx_loop_spec hb base size maxlen ds uflag hdrlen :
  wf_bytes hb -> base + size <= len hb -> 1 <= ds ->
  forall fuel ln idx_loc count acc n cs sf,
    idx_loop fuel hb base size maxlen ds uflag hdrlen ln idx_loc count acc = POk (n, cs) ->
    (N.to_nat (size - ln) <= sf)%nat ->
    exists cs',
      cs = rev acc ++ cs' /\ n = count + N.of_nat (length cs') /\
      spec_entries sf ds uflag idx_loc (reg hb base size ln) = Some cs' /\
      starts_ok idx_loc cs' /\
      (cs' = [] \/ hdrlen + idx_loc + data_total cs' <= SSIZE_MAX) /\
      Forall (fun c => c_ulen c <= SSIZE_MAX) cs'.
Proof.
  intros Hwf Hlen Hds.
  assert (Hdone : forall fuel ln idx_loc count acc n cs sf,
    size <= ln ->
    idx_loop fuel hb base size maxlen ds uflag hdrlen ln idx_loc count acc = POk (n, cs) ->
    exists cs',
      cs = rev acc ++ cs' /\ n = count + N.of_nat (length cs') /\
      spec_entries sf ds uflag idx_loc (reg hb base size ln) = Some cs' /\
      starts_ok idx_loc cs' /\
      (cs' = [] \/ hdrlen + idx_loc + data_total cs' <= SSIZE_MAX) /\
      Forall (fun c => c_ulen c <= SSIZE_MAX) cs').
  { intros fuel ln idx_loc count acc n cs sf Hs E. rewrite idx_loop_done in E by exact Hs.
    destruct (N.eqb_spec ln size); cbn [negb] in E; [|discriminate].
    exists []. rewrite app_nil_r. cbn [length starts_ok].
    split; [congruence|]. split; [assert (n = count) by congruence; lia|].
    split; [|split; [exact I|split; [left; reflexivity|constructor]]].
    unfold reg. replace (size - ln) with 0 by lia. rewrite sub_eq. cbn [N.to_nat firstn].
    apply spec_entries_nil. }
  induction fuel as [|fuel IH]; intros ln idx_loc count acc n cs sf E Hsf;
    destruct (N.le_gt_cases size ln) as [Hs|Hs]; try (apply (Hdone _ _ _ _ _ _ _ _ Hs E)).
  - cbn [idx_loop] in E. destruct (N.leb_spec size ln); [lia|discriminate].
  - rewrite idx_loop_step in E by exact Hs. cbv zeta in E.
    if_false E C0. pbind_one E dg Ed. pbind_pair E ud ln2 Eu.
    pbind_pair E clen l3 E3. pbind_pair E ulen l4 E4. if_false E Cc.
    pose proof (idx_loop_le _ _ _ _ _ _ _ _ _ _ _ _ _ E) as Hl4.
    pose proof (rd_size_bounds _ _ _ _ _ _ E3) as [B3 _].
    pose proof (rd_size_bounds _ _ _ _ _ _ E4) as [B4 _].
    apply rd_bytes_ok in Ed. destruct Ed as [Hd ->].
    destruct sf as [|sf]; [lia|].
    assert (Hne : reg hb base size ln <> []).
    { intros Z. pose proof (len_reg hb base size ln Hlen) as Hr. rewrite Z, len_nil in Hr. lia. }
    rewrite spec_entries_S by exact Hne.
    assert (Hud : ln + ds <= ln2 /\
                  (if uflag
                   then match spec_take ds (reg hb base size (ln + ds)) with
                        | Some (u, l2) => Some (Some u, l2) | None => None end
                   else Some (None, reg hb base size (ln + ds))) = Some (ud, reg hb base size ln2)).
    { destruct uflag.
      - pbind_one Eu u Eu1. apply rd_bytes_ok in Eu1. destruct Eu1 as [Hu ->].
        assert (ln2 = ln + ds + ds /\ ud = Some (sub hb (base + (ln + ds)) ds)) as [-> ->]
          by (split; congruence).
        split; [lia|]. rewrite spec_take_reg by lia. reflexivity.
      - assert (ln2 = ln + ds /\ ud = None) as [-> ->] by (split; congruence).
        split; [lia|reflexivity]. }
    destruct Hud as [Bu Hud].
    rewrite spec_take_reg by lia. rewrite Hud.
    rewrite (rd_size_reg _ _ size _ _ _ _ Hwf E3) by lia.
    rewrite (rd_size_reg _ _ size _ _ _ _ Hwf E4) by lia.
    destruct (IH _ _ _ _ _ _ sf E ltac:(lia)) as (cs' & -> & -> & Hsp & Hst & Htot & Hul).
    rewrite Hsp.
    apply orb_false_iff in Cc. destruct Cc as [Cc C4]. apply orb_false_iff in Cc.
    destruct Cc as [Cc C3]. apply orb_false_iff in Cc. destruct Cc as [C1 C2].
    apply N.ltb_ge in C1, C2, C3, C4.
    eexists. split; [|split; [|split; [reflexivity|]]].
    + cbn [rev]. rewrite <- app_assoc. reflexivity.
    + cbn [length]. lia.
    + cbn [starts_ok c_start c_clen]. split; [split; [reflexivity|exact Hst]|]. split.
      * right. cbn [data_total fold_right c_clen]. fold (data_total cs').
        destruct Htot as [->|Htot]; [cbn [data_total fold_right]|]; lia.
      * constructor; [cbn [c_ulen]; exact C4|exact Hul].
Qed.

Lemma idx_loop_clean hb base size maxlen ds uflag hdrlen :
  base + maxlen <= len hb ->
  forall fuel ln idx_loc count acc, (N.to_nat (size - ln) < fuel)%nat ->
    clean (idx_loop fuel hb base size maxlen ds uflag hdrlen ln idx_loc count acc).
Proof.
  intros Hlen. induction fuel as [|fuel IH]; intros ln idx_loc count acc Hf; [lia|].
  destruct (N.le_gt_cases size ln) as [Hs|Hs].
  - rewrite idx_loop_done by exact Hs. destruct (negb _); exact I.
  - rewrite idx_loop_step by exact Hs. cbv zeta.
    destruct (N.ltb_spec maxlen (ln + (if uflag then ds + ds else ds))) as [|Hm]; [exact I|].
    apply clean_bind; [apply rd_bytes_clean; destruct uflag; lia|]. intros dg _.
    apply clean_bind.
    + destruct uflag; [|exact I]. apply clean_bind; [apply rd_bytes_clean; lia|]. intros; exact I.
    + intros [ud ln2] Eu.
      assert (Bu : ln <= ln2).
      { destruct uflag; [pbind_one Eu u Eu1|]; assert (X : ln2 = ln + ds + ds \/ ln2 = ln + ds)
          by (first [left; congruence|right; congruence]); lia. }
      apply clean_bind; [apply rd_size_clean; exact Hlen|]. intros [clen l3] E3.
      apply clean_bind; [apply rd_size_clean; exact Hlen|]. intros [ulen l4] E4.
      destruct (_ || _); [exact I|].
      apply rd_size_bounds in E3. apply rd_size_bounds in E4. apply IH. lia.
Qed.

(** * read_index / read_sig *)
Lemma read_index_facts l pf hb cht count cs :
  wf_bytes hb -> len hb = l_size l + l_hlen l -> pf_size pf <= l_hlen l ->
  read_index l pf hb = POk (cht, count, cs) ->
  let base := l_size l + pf_size pf in
  let size := pf_indexsize pf in
  pf_size pf + size <= l_hlen l /\
  exists l1 l2 cds,
    spec_ci_int (reg hb base size 0) = Some (cht, reg hb base size l1) /\
    dsize cht = Some cds /\
    spec_ci (reg hb base size l1) = Some (count, reg hb base size l2) /\
    spec_entries (length (reg hb base size l2)) cds (N.testbit (pf_flags pf) 2) 0
                 (reg hb base size l2) = Some cs /\
    count = N.of_nat (length cs) /\ count <> 0 /\ starts_ok 0 cs /\
    l_size l + l_hlen l + data_total cs <= SSIZE_MAX /\
    Forall (fun c => c_ulen c <= SSIZE_MAX) cs.
Proof.
  intros Hwf Hlen Hps. unfold read_index. intros E. cbv zeta.
  if_false E C0. apply N.ltb_ge in C0.
  pbind_pair E cht' l1 E1.
  destruct (dsize cht') as [cds|] eqn:Eds; [|discriminate].
  pbind_pair E count' l2 E2.
  match type of E with
  | pbind ?x _ = POk _ => destruct x as [[n cs']| | |] eqn:El; cbn [pbind] in E;
                          [|discriminate E|discriminate E|discriminate E]
  end.
  if_false E Cn. apply orb_false_iff in Cn. destruct Cn as [Cn0 Cn1].
  apply N.eqb_neq in Cn0. apply negb_false_iff, N.eqb_eq in Cn1.
  assert (cht' = cht /\ count' = count /\ cs' = cs) as (-> & -> & ->) by (repeat split; congruence).
  split; [lia|].
  pose proof (idx_loop_le _ _ _ _ _ _ _ _ _ _ _ _ _ El) as Hl2.
  pose proof (rd_int_bounds _ _ _ _ _ _ E1) as [B1 _].
  pose proof (rd_size_bounds _ _ _ _ _ _ E2) as [B2 _].
  pose proof (dsize_bounds _ _ Eds) as Hcds.
  set (base := l_size l + pf_size pf) in *. set (size := pf_indexsize pf) in *.
  assert (Hbs : base + size <= len hb) by (unfold base, size; lia).
  destruct (idx_loop_spec hb base size _ cds _ _ Hwf Hbs ltac:(lia) _ _ _ _ _ _ _
              (length (reg hb base size l2)) El) as (cs' & Ecs & En & Hsp & Hst & Htot & Hul).
  { pose proof (len_reg hb base size l2 Hbs) as Hr. unfold len in Hr. lia. }
  cbn [rev app] in Ecs. subst cs'.
  exists l1, l2, cds.
  split; [apply (rd_int_reg _ _ size _ _ _ _ Hwf E1); lia|]. split; [exact Eds|].
  split; [apply (rd_size_reg _ _ size _ _ _ _ Hwf E2); lia|]. split; [exact Hsp|].
  split; [lia|]. split; [lia|]. split; [exact Hst|]. split; [|exact Hul].
  destruct Htot as [->|Htot]; [cbn [length] in En; lia|lia].
Qed.

Lemma read_index_clean l pf hb :
  len hb = l_size l + l_hlen l -> clean (read_index l pf hb).
Proof.
  intros Hlen. unfold read_index.
  destruct (N.ltb_spec (l_size l + l_hlen l) (l_size l + pf_size pf + pf_indexsize pf)); [exact I|].
  apply clean_bind; [apply rd_int_clean; lia|]. intros [cht l1] E1.
  destruct (dsize cht) as [cds|]; [|exact I].
  apply clean_bind; [apply rd_size_clean; lia|]. intros [count l2] E2.
  apply clean_bind; [apply idx_loop_clean; lia|]. intros [n cs] _.
  destruct (_ || _); exact I.
Qed.

Lemma read_sig_facts l pf hb u :
  wf_bytes hb -> read_sig l pf hb = POk u ->
  exists r, spec_ci_int (at_off hb (l_size l + pf_size pf + pf_indexsize pf)) = Some (0, r).
Proof.
  intros Hwf. unfold read_sig. intros E. pbind_pair E sigs l1 E1.
  destruct (N.ltb_spec 0 sigs); [discriminate|].
  destruct (rd_int_spec _ _ _ _ _ _ Hwf E1) as (S1 & _).
  rewrite N.add_0_r in S1. assert (sigs = 0) by lia. subst sigs. eexists. exact S1.
Qed.

Lemma read_sig_clean l pf hb :
  len hb = l_size l + l_hlen l -> pf_size pf + pf_indexsize pf <= l_hlen l ->
  clean (read_sig l pf hb).
Proof.
  intros Hlen Hb. unfold read_sig.
  apply clean_bind; [apply rd_int_clean; lia|]. intros [sigs l1] _. destruct (0 <? sigs); exact I.
Qed.

Lemma read_index_fits l pf hb r :
  read_index l pf hb = POk r -> pf_size pf + pf_indexsize pf <= l_hlen l.
Proof.
  unfold read_index. intros E. if_false E C0. apply N.ltb_ge in C0. lia.
Qed.

(** * The theorems *)
Section Main.
Variable H : N -> bytes -> bytes.

(** decomposition of an accepting run *)
Lemma parse_impl_ok p f h :
  parse_impl H p f = POk h ->
  exists l hb pf cht count cs u,
    read_lead p f = POk l /\ read_header_from_file H l f = POk hb /\
    read_preface l hb = POk pf /\ read_index l pf hb = POk (cht, count, cs) /\
    read_sig l pf hb = POk u /\
    h = mkHeader (l_detached l) (l_hash l) (l_size l) (l_hlen l) (l_hdigest l) (pf_ddigest pf)
                 (pf_flags pf) (pf_comp pf) cht count cs (pf_size pf) (pf_indexsize pf).
Proof.
  unfold parse_impl. intros E.
  pbind_one E l El. pbind_one E hb Eh. pbind_one E pf Ep.
  match type of E with
  | pbind ?x _ = POk _ => destruct x as [[[cht count] cs]| | |] eqn:Ei; cbn [pbind] in E;
                          [|discriminate E|discriminate E|discriminate E]
  end.
  pbind_one E u Es.
  exists l, hb, pf, cht, count, cs, u. repeat split; congruence.
Qed.

(** T3.1 *)
Theorem parse_impl_clean p f : clean (parse_impl H p f).
Proof.
  unfold parse_impl.
  apply clean_bind; [apply read_lead_clean|]. intros l El.
  apply clean_bind; [apply read_header_clean|]. intros hb Eh.
  apply read_header_facts in Eh. destruct Eh as (-> & Hlen & _).
  set (hb := firstn _ f).
  assert (Hhb : len hb = l_size l + l_hlen l) by (apply len_firstn_le; exact Hlen).
  apply clean_bind; [apply read_preface_clean; exact Hhb|]. intros pf Ep.
  apply clean_bind; [apply read_index_clean; exact Hhb|]. intros [[cht count] cs] Ei.
  apply read_index_fits in Ei.
  apply clean_bind; [apply read_sig_clean; assumption|]. intros u _. exact I.
Qed.

Theorem parse_impl_total p f : parse_impl H p f <> POOB /\ parse_impl H p f <> PFuel.
Proof. apply clean_iff, parse_impl_clean. Qed.

(** T6.1 *)
Theorem open_implies_digest p f h :
  parse_impl H p f = POk h ->
  exists l, read_lead p f = POk l /\
            H (l_hash l) (covered f (l_dloc l) (l_size l) (l_hlen l)) = l_hdigest l /\
            l_hdigest l = h_hdigest h /\ l_size l + l_hlen l <= len f.
Proof.
  intros E. destruct (parse_impl_ok _ _ _ E) as (l & hb & pf & cht & count & cs & u & El & Eh & _ & _ & _ & ->).
  exists l. split; [exact El|].
  destruct (read_header_facts _ _ _ _ Eh) as (-> & Hlen & _ & _ & Hd).
  pose proof (read_lead_bounds _ _ _ El) as (B1 & B2 & B3 & B4).
  rewrite covered_firstn in Hd by lia.
  split; [exact Hd|]. split; [reflexivity|exact Hlen].
Qed.

(** T13.1 and T13.2 from one analysis of the accepting run *)
Lemma parse_impl_analysis p f h :
  wf_bytes f -> parse_impl H p f = POk h ->
  parse_spec H f = Some h /\
  h_count h = N.of_nat (length (h_chunks h)) /\ 1 <= h_count h /\ starts_ok 0 (h_chunks h) /\
  h_lead h + h_hlen h + data_total (h_chunks h) <= SSIZE_MAX /\
  Forall (fun c => c_ulen c <= SSIZE_MAX) (h_chunks h).
Proof.
  intros Hwf E.
  destruct (parse_impl_ok _ _ _ E) as (l & hb & pf & cht & count & cs & u & El & Eh & Ep & Ei & Es & ->).
  cbn [h_count h_chunks h_lead h_hlen].
  destruct (read_lead_facts _ _ _ El) as (Hlen25 & Hmagic & Hdet & Hds & Hsize & Hloaded & Hll & Hhd & l1 & E1 & E2).
  pose proof (read_lead_bounds _ _ _ El) as (B1 & B2 & B3 & B4).
  destruct (read_header_facts _ _ _ _ Eh) as (Ehb & Hlen & Hh0 & Hhl & Hdig).
  assert (Hwfb : wf_bytes hb) by (subst hb; apply wf_firstn; exact Hwf).
  assert (Hhb : len hb = l_size l + l_hlen l) by (subst hb; apply len_firstn_le; exact Hlen).
  destruct (read_preface_facts _ _ _ Hwfb Hhb Ep)
    as (q1 & q2 & q3 & P1 & P2 & Pf1 & Pf2 & P3 & Pc & Po & P4 & Pb).
  destruct (read_index_facts _ _ _ _ _ _ Hwfb Hhb Pb Ei)
    as (Ifit & i1 & i2 & cds & I1 & Icds & I2 & I3 & Icnt & Icnt0 & Ist & Itot & Iul).
  destruct (read_sig_facts _ _ _ _ Hwfb Es) as (rs & S1).
  split; [|repeat split; try assumption; lia].
  (* lead: the integers read from the 25-byte window are the integers of the file *)
  set (buf := firstn (N.to_nat 25) f) in *.
  assert (Hwfbuf : wf_bytes buf) by (apply wf_firstn; exact Hwf).
  destruct (rd_int_value _ _ _ _ _ _ Hwfbuf E1) as (n1 & V1 & L1 & N1 & I1' & M1).
  destruct (rd_size_value _ _ _ _ _ _ Hwfbuf E2) as (n2 & V2 & L2 & N2 & I2' & M2).
  unfold buf in V1, V2. rewrite at_off_firstn in V1, V2.
  apply ci_value_firstn_inv in V1. apply ci_value_firstn_inv in V2.
  cbn [N.add] in V1. rewrite N.add_0_l in V2.
  pose proof (spec_ci_int_of_value _ _ _ V1 ltac:(lia) I1') as SL1.
  pose proof (spec_ci_of_value _ _ _ V2 ltac:(lia) I2') as SL2.
  rewrite skipn_at_off in SL1, SL2. rewrite <- L1 in SL1. rewrite <- L2 in SL2.
  (* the specification parser, step by step *)
  unfold parse_spec.
  assert (T0 : spec_take 5 f = Some (firstn 5 f, at_off f 5)).
  { unfold spec_take. destruct (N.leb_spec 5 (len f)); [reflexivity|lia]. }
  rewrite T0, Hmagic, SL1, Hds, SL2.
  rewrite (spec_take_at f (l_dloc l) (l_ds l)) by lia.
  rewrite <- Hsize. rewrite !len_at_off.
  replace (len f - (len f - l_dloc l)) with (l_dloc l) by lia.
  replace (len f - (len f - l_size l)) with (l_size l) by lia.
  cbv zeta.
  rewrite (spec_take_at f (l_size l) (l_hlen l)) by lia.
  rewrite <- Hhd.
  rewrite Ehb, covered_firstn in Hdig by lia.
  rewrite Hdig, bytes_eqb_refl.
  destruct (N.eqb_spec (l_hlen l) 0) as [|_]; [contradiction|]. cbn [negb andb].
  rewrite <- at_off_firstn_sub, <- Ehb.
  rewrite P1, P2, Pf1, N.eqb_refl.
  destruct (N.ltb_spec (pf_flags pf) 8) as [_|]; [|lia]. cbn [andb].
  rewrite P3, Pc.
  unfold spec_optpart in Po. rewrite Po, P4.
  rewrite (spec_take_at hb (l_size l + pf_size pf) (pf_indexsize pf)) by lia.
  rewrite <- reg_0, I1, Icds, I2, I3, S1.
  assert (Hfit : sizes_fit (l_size l + l_hlen l) cs = true).
  { unfold sizes_fit. apply andb_true_iff. split; [apply N.leb_le; exact Itot|].
    apply forallb_forall. intros c Hc. apply N.leb_le.
    rewrite Forall_forall in Iul. apply Iul. exact Hc. }
  rewrite Hfit, <- Icnt, !N.eqb_refl.
  destruct (N.eqb_spec count 0) as [|_]; [contradiction|]. cbn [negb andb].
  rewrite len_at_off, Hhb, <- Hdet.
  replace (l_hlen l - (l_size l + l_hlen l - (l_size l + pf_size pf))) with (pf_size pf) by lia.
  reflexivity.
Qed.

Theorem parse_impl_refines_spec p f h :
  wf_bytes f -> parse_impl H p f = POk h -> parse_spec H f = Some h.
Proof. intros Hwf E. apply (parse_impl_analysis p f h Hwf E). Qed.

Theorem parse_impl_count_starts p f h :
  wf_bytes f -> parse_impl H p f = POk h ->
  h_count h = N.of_nat (length (h_chunks h)) /\ 1 <= h_count h /\ starts_ok 0 (h_chunks h) /\
  h_lead h + h_hlen h + data_total (h_chunks h) <= SSIZE_MAX /\
  Forall (fun c => c_ulen c <= SSIZE_MAX) (h_chunks h).
Proof. intros Hwf E. apply (parse_impl_analysis p f h Hwf E). Qed.

End Main.

(** * T6.2 / T6.3: nothing in the header escapes the checksum *)
Lemma ci_to_size_prefix suf ln maxlen v l' t :
  ci_to_size suf ln maxlen = COk v l' ->
  ci_to_size (firstn (N.to_nat (l' - ln)) suf ++ t) ln maxlen = COk v l'.
Proof. apply ci_loop_prefix. Qed.

Lemma ci_to_int_prefix suf ln maxlen v l' t :
  ci_to_int suf ln maxlen = COk v l' ->
  ci_to_int (firstn (N.to_nat (l' - ln)) suf ++ t) ln maxlen = COk v l'.
Proof.
  unfold ci_to_int. intros E.
  destruct (ci_to_size suf ln maxlen) as [v0 l0| |] eqn:Ec; try discriminate.
  destruct (INT_MAX <? v0) eqn:Ei; [discriminate|].
  assert (l0 = l') by congruence. subst l0.
  rewrite (ci_to_size_prefix _ _ _ _ _ t Ec), Ei. exact E.
Qed.

(** the lead fields as a function of the bytes that follow the magic in the hash input *)
Definition lead_dec (X : bytes) : option (N * N * N) :=
  match ci_to_int X 5 25 with
  | COk ht l1 =>
      match ci_to_size (skipn (N.to_nat (l1 - 5)) X) l1 25 with
      | COk hlen l2 => Some (ht, hlen, l2)
      | _ => None
      end
  | _ => None
  end.

Lemma of_cres_ok r v l : of_cres r = POk (v, l) -> r = COk v l.
Proof. destruct r; cbn [of_cres]; congruence. Qed.

Lemma lead_dec_covered p f l B :
  read_lead p f = POk l ->
  lead_dec (sub f 5 (l_dloc l - 5) ++ B) = Some (l_hash l, l_hlen l, l_dloc l).
Proof.
  intros E.
  destruct (read_lead_facts _ _ _ E) as (Hlen & _ & _ & _ & _ & _ & _ & _ & l1 & E1 & E2).
  pose proof (rd_int_bounds _ _ _ _ _ _ E1) as [B1 B1'].
  pose proof (rd_size_bounds _ _ _ _ _ _ E2) as [B2 B2'].
  unfold rd_int in E1. unfold rd_size in E2.
  apply of_cres_ok in E1. apply of_cres_ok in E2.
  rewrite at_off_firstn in E1, E2. cbn [N.add] in E1. rewrite N.add_0_l in E2.
  set (Z := at_off f 5) in *.
  assert (EZ : at_off f l1 = skipn (N.to_nat (l1 - 5)) Z).
  { unfold Z. rewrite skipn_at_off. f_equal. lia. }
  assert (EX : sub f 5 (l_dloc l - 5) ++ B =
               firstn (N.to_nat (l1 - 5)) Z ++ (firstn (N.to_nat (l_dloc l - l1)) (at_off f l1) ++ B)).
  { rewrite sub_eq. fold Z.
    replace (N.to_nat (l_dloc l - 5)) with (N.to_nat (l1 - 5) + N.to_nat (l_dloc l - l1))%nat by lia.
    rewrite firstn_add, <- app_assoc, EZ. reflexivity. }
  rewrite EX. unfold lead_dec.
  apply (ci_to_int_prefix _ _ _ _ _ (firstn (N.to_nat (l_dloc l - l1)) (at_off f l1) ++ B)) in E1.
  rewrite firstn_firstn in E1.
  replace (Nat.min (N.to_nat (l1 - 5)) (N.to_nat (25 - 5))) with (N.to_nat (l1 - 5)) in E1 by lia.
  rewrite E1.
  assert (HlZ : length (firstn (N.to_nat (l1 - 5)) Z) = N.to_nat (l1 - 5)).
  { rewrite firstn_length. pose proof (len_at_off f 5) as HZ. fold Z in HZ. unfold len in HZ, Hlen. lia. }
  rewrite skipn_app, HlZ, Nat.sub_diag, skipn_all2 by lia. cbn [skipn app].
  apply (ci_to_size_prefix _ _ _ _ _ B) in E2.
  rewrite firstn_firstn in E2.
  replace (Nat.min (N.to_nat (l_dloc l - l1)) (N.to_nat (25 - l1))) with (N.to_nat (l_dloc l - l1)) in E2 by lia.
  rewrite E2. reflexivity.
Qed.

Lemma app_inj_len {A} (a a' b b' : list A) :
  length a = length a' -> a ++ b = a' ++ b' -> a = a' /\ b = b'.
Proof.
  revert a'. induction a as [|x a IH]; intros [|y a'] Hl E; cbn [length] in Hl; try discriminate.
  - split; [reflexivity|exact E].
  - cbn [app] in E. assert (x = y) by congruence. assert (E' : a ++ b = a' ++ b') by congruence.
    destruct (IH a' ltac:(lia) E') as [-> ->]. subst. split; reflexivity.
Qed.

Lemma header_region_split p f l :
  read_lead p f = POk l -> l_size l + l_hlen l <= len f ->
  sub f 5 (l_size l + l_hlen l - 5) =
  sub f 5 (l_dloc l - 5) ++ l_hdigest l ++ sub f (l_size l) (l_hlen l).
Proof.
  intros E Hlen.
  destruct (read_lead_facts _ _ _ E) as (_ & _ & _ & _ & Hsz & _ & _ & Hhd & _).
  pose proof (read_lead_bounds _ _ _ E) as (B1 & B2 & B3 & B4).
  replace (l_size l + l_hlen l - 5) with ((l_dloc l - 5) + (l_ds l + l_hlen l)) by lia.
  rewrite sub_split. replace (5 + (l_dloc l - 5)) with (l_dloc l) by lia.
  rewrite sub_split, Hhd, Hsz. reflexivity.
Qed.

Theorem covered_determines_header f f' l l' :
  read_lead no_pins f = POk l -> read_lead no_pins f' = POk l' ->
  l_size l + l_hlen l <= len f -> l_size l' + l_hlen l' <= len f' ->
  covered f (l_dloc l) (l_size l) (l_hlen l) = covered f' (l_dloc l') (l_size l') (l_hlen l') ->
  l_hdigest l = l_hdigest l' ->
  l_size l = l_size l' /\ l_hlen l = l_hlen l' /\
  sub f 5 (l_size l + l_hlen l - 5) = sub f' 5 (l_size l' + l_hlen l' - 5).
Proof.
  intros E E' Hlen Hlen' Hcov Hdg.
  unfold covered in Hcov. apply app_inv_head in Hcov.
  pose proof (lead_dec_covered _ _ _ (sub f (l_size l) (l_hlen l)) E) as D.
  pose proof (lead_dec_covered _ _ _ (sub f' (l_size l') (l_hlen l')) E') as D'.
  rewrite Hcov, D' in D.
  assert (l_hash l' = l_hash l /\ l_hlen l' = l_hlen l /\ l_dloc l' = l_dloc l)
    as (Eh & Ehl & Edl) by (repeat split; congruence).
  destruct (read_lead_facts _ _ _ E) as (H25 & _ & _ & Hds & Hsz & _ & _ & _ & _).
  destruct (read_lead_facts _ _ _ E') as (H25' & _ & _ & Hds' & Hsz' & _ & _ & _ & _).
  pose proof (read_lead_bounds _ _ _ E) as (B1 & B2 & B3 & B4).
  pose proof (read_lead_bounds _ _ _ E') as (B1' & B2' & B3' & B4').
  assert (Eds : l_ds l' = l_ds l) by (rewrite Eh in Hds'; congruence).
  assert (Esz : l_size l' = l_size l) by lia.
  split; [lia|]. split; [lia|].
  rewrite (header_region_split _ _ _ E Hlen), (header_region_split _ _ _ E' Hlen').
  apply app_inj_len in Hcov.
  - destruct Hcov as [-> ->]. rewrite Hdg. reflexivity.
  - pose proof (len_sub f 5 (l_dloc l - 5) ltac:(lia)) as L.
    pose proof (len_sub f' 5 (l_dloc l' - 5) ltac:(lia)) as L'.
    unfold len in L, L'. lia.
Qed.

Section Collision.
Variable H : N -> bytes -> bytes.

Theorem same_digest_different_header_collides f f' l l' :
  read_lead no_pins f = POk l -> read_lead no_pins f' = POk l' ->
  l_size l + l_hlen l <= len f -> l_size l' + l_hlen l' <= len f' ->
  l_hash l = l_hash l' ->
  H (l_hash l) (covered f (l_dloc l) (l_size l) (l_hlen l)) = l_hdigest l ->
  H (l_hash l') (covered f' (l_dloc l') (l_size l') (l_hlen l')) = l_hdigest l' ->
  l_hdigest l = l_hdigest l' ->
  sub f 5 (l_size l + l_hlen l - 5) <> sub f' 5 (l_size l' + l_hlen l' - 5) ->
  exists x y, x <> y /\ H (l_hash l) x = H (l_hash l) y.
Proof.
  intros E E' Hlen Hlen' Eh Hd Hd' Edg Hne.
  exists (covered f (l_dloc l) (l_size l) (l_hlen l)),
         (covered f' (l_dloc l') (l_size l') (l_hlen l')).
  split.
  - intros Ecov. apply Hne.
    apply (covered_determines_header f f' l l' E E' Hlen Hlen' Ecov Edg).
  - rewrite Hd, Eh, Hd'. exact Edg.
Qed.
End Collision.
