(** Faithful model of the reader's header path in /repo/src/lib/header.c and
    index/index_read.c: read_lead, read_header_from_file, read_preface, read_index /
    index_read, read_sig (as called by zck_init_read / zck_read_lead + zck_read_header).
    Every memory read goes through an accessor that yields [POOB] when it would leave the
    allocation; loops run on fuel with a distinct [PFuel] outcome. *)
From ZV Require Import Base.Bytes Gen.GenConsts Format.Compint Format.Header.
Local Open Scope N_scope.

Inductive pres (A : Type) : Type :=
| POk (a : A) | PErr | POOB | PFuel.
Arguments POk {A} a. Arguments PErr {A}. Arguments POOB {A}. Arguments PFuel {A}.

Definition pbind {A B} (x : pres A) (f : A -> pres B) : pres B :=
  match x with POk a => f a | PErr => PErr | POOB => POOB | PFuel => PFuel end.
Notation "x <- e ;; k" := (pbind e (fun x => k)) (at level 61, e at next level, right associativity).
Notation "' pat <- e ;; k" := (pbind e (fun x => match x with pat => k end))
  (at level 61, pat pattern, e at next level, right associativity).

Definition of_cres (r : cres) : pres (N * N) :=
  match r with COk v l => POk (v, l) | CErr => PErr | COOB => POOB end.

(** the buffer [hb] is the whole allocation; a read at [base + ln] sees the rest of it *)
Definition at_off (hb : bytes) (off : N) : bytes := skipn (N.to_nat off) hb.
Definition rd_size (hb : bytes) (base ln maxlen : N) : pres (N * N) :=
  of_cres (ci_to_size (at_off hb (base + ln)) ln maxlen).
Definition rd_int (hb : bytes) (base ln maxlen : N) : pres (N * N) :=
  of_cres (ci_to_int (at_off hb (base + ln)) ln maxlen).
(** memcpy of [n] bytes out of the buffer *)
Definition rd_bytes (hb : bytes) (off n : N) : pres bytes :=
  if off + n <=? len hb then POk (sub hb off n) else POOB.

(** caller-supplied pins (zck_set_ioption ZCK_VAL_HEADER_HASH_TYPE / _LENGTH,
    zck_set_soption ZCK_VAL_HEADER_DIGEST) *)
Record pins := mkPins { p_type : option N; p_digest : option bytes; p_size : option N }.
Definition no_pins := mkPins None None None.

Record lead := mkLead {
  l_detached : bool; l_hash : N; l_ds : N; l_hlen : N; l_dloc : N; l_size : N;
  l_loaded : N;          (* zck->header_size after read_lead: bytes already read *)
  l_hdigest : bytes }.

Definition LEAD_READ : N := 5 + 2 * MAX_COMP_SIZE.

Definition read_lead (p : pins) (f : bytes) : pres lead :=
  if len f <? LEAD_READ then PErr else                      (* "Short read" *)
  let buf := firstn (N.to_nat LEAD_READ) f in
  let m := firstn 5 buf in
  if negb (bytes_eqb m magic_zhr || bytes_eqb m magic_zck) then PErr else
  let detached := bytes_eqb m magic_zhr in
  '(ht, l1) <- rd_int buf 0 5 LEAD_READ ;;
  if match p_type p with Some t => negb (t =? ht) | None => false end then PErr else
  match dsize ht with
  | None => PErr
  | Some ds =>
    '(hlen, l2) <- rd_size buf 0 l1 LEAD_READ ;;
    let need := l2 + ds in
    let to_read := if LEAD_READ <? need then need - LEAD_READ else 0 in
    if len f <? LEAD_READ + to_read then PErr else          (* short read of the digest *)
    let loaded := LEAD_READ + to_read in
    let buf2 := firstn (N.to_nat loaded) f in
    dg <- rd_bytes buf2 l2 ds ;;
    if match p_digest p with Some d => negb (bytes_eqb d dg) | None => false end then PErr else
    if match p_size p with Some s => negb (s =? hlen + need) | None => false end then PErr else
    POk (mkLead detached ht ds hlen l2 need loaded dg)
  end.

Section Impl.
Variable H : N -> bytes -> bytes.

(** read_header_from_file: returns the header buffer (lead + header) after the checksum gate *)
Definition read_header_from_file (l : lead) (f : bytes) : pres bytes :=
  if (l_size l =? 0) || (l_hlen l =? 0) then PErr else
  if (u64 (l_size l + l_hlen l) <? l_size l) || (u64 (l_size l + l_hlen l) <? l_hlen l) then PErr else
  if l_hlen l <? l_loaded l - l_size l then PErr else       (* "Header size is too small" *)
  let total := l_size l + l_hlen l in
  if len f <? total then PErr else                           (* short read / allocation failure *)
  let hb := firstn (N.to_nat total) f in
  let cov := magic_zck ++ sub hb 5 (l_dloc l - 5) ++ sub hb (l_size l) (l_hlen l) in
  if bytes_eqb (H (l_hash l) cov) (l_hdigest l) then POk hb else PErr.

Fixpoint opt_loop (fuel : nat) (hb : bytes) (base maxlen i count ln : N) : pres N :=
  if count <=? i then POk ln else
  match fuel with
  | O => PFuel
  | S fuel' =>
      '(_, l1) <- rd_size hb base ln maxlen ;;
      '(dsz, l2) <- rd_size hb base l1 maxlen ;;
      if maxlen - l2 <? dsz then PErr else
      opt_loop fuel' hb base maxlen (i + 1) count (l2 + dsz)
  end.

Record preface := mkPreface {
  pf_ddigest : bytes; pf_flags : N; pf_comp : N; pf_size : N; pf_indexsize : N }.

Definition read_preface (l : lead) (hb : bytes) : pres preface :=
  let base := l_size l in
  let maxlen := l_hlen l in
  if maxlen <? l_ds l then PErr else
  ddg <- rd_bytes hb base (l_ds l) ;;
  '(flags, l1) <- rd_size hb base (l_ds l) maxlen ;;
  if negb (N.land flags 1 =? 0) then PErr else              (* streams unsupported *)
  if negb (N.land flags (two64 - 1 - 7) =? 0) then PErr else (* unknown flags *)
  '(comp, l2) <- rd_int hb base l1 maxlen ;;
  if negb ((comp =? ZCK_COMP_NONE) || (comp =? ZCK_COMP_ZSTD)) then PErr else
  l3 <- (if N.testbit flags 1 then
           '(oc, lo) <- rd_size hb base l2 maxlen ;;
           opt_loop (N.to_nat maxlen) hb base maxlen 0 oc lo
         else POk l2) ;;
  '(isz, l4) <- rd_int hb base l3 maxlen ;;
  POk (mkPreface ddg flags comp l4 isz).

Fixpoint idx_loop (fuel : nat) (hb : bytes) (base size maxlen ds : N) (uflag : bool)
         (hdrlen ln idx_loc count : N) (acc : list chunk) : pres (N * list chunk) :=
  if size <=? ln then
    (if negb (ln =? size) then PErr else POk (count, rev acc))
  else
  match fuel with
  | O => PFuel
  | S fuel' =>
      let dsz := if uflag then ds + ds else ds in
      if maxlen <? ln + dsz then PErr else
      dg <- rd_bytes hb (base + ln) ds ;;
      let ln1 := ln + ds in
      '(ud, ln2) <- (if uflag then u <- rd_bytes hb (base + ln1) ds ;; POk (Some u, ln1 + ds)
                      else POk (None, ln1)) ;;
      '(clen, l3) <- rd_size hb base ln2 maxlen ;;
      '(ulen, l4) <- rd_size hb base l3 maxlen ;;
      if (SSIZE_MAX <? hdrlen) || (SSIZE_MAX - hdrlen <? idx_loc) ||
         (SSIZE_MAX - hdrlen - idx_loc <? clen) || (SSIZE_MAX <? ulen) then PErr else
      idx_loop fuel' hb base size maxlen ds uflag hdrlen l4 (idx_loc + clen) (count + 1)
               (mkChunk dg ud clen ulen idx_loc :: acc)
  end.

Definition read_index (l : lead) (pf : preface) (hb : bytes) : pres (N * N * list chunk) :=
  let hsize := l_size l + l_hlen l in
  if hsize <? l_size l + pf_size pf + pf_indexsize pf then PErr else
  let base := l_size l + pf_size pf in
  let maxlen := hsize - base in
  '(cht, l1) <- rd_int hb base 0 maxlen ;;
  match dsize cht with
  | None => PErr
  | Some cds =>
    '(count, l2) <- rd_size hb base l1 maxlen ;;
    '(n, cs) <- idx_loop (N.to_nat (pf_indexsize pf) + 1) hb base (pf_indexsize pf) maxlen cds
                         (N.testbit (pf_flags pf) 2) hsize l2 0 0 [] ;;
    if (n =? 0) || negb (n =? count) then PErr else
    POk (cht, count, cs)
  end.

Definition read_sig (l : lead) (pf : preface) (hb : bytes) : pres unit :=
  let base := l_size l + pf_size pf + pf_indexsize pf in
  let maxlen := (l_size l + l_hlen l) - base in
  '(sigs, _) <- rd_int hb base 0 maxlen ;;
  if 0 <? sigs then PErr else POk tt.

Definition parse_impl (p : pins) (f : bytes) : pres header :=
  l <- read_lead p f ;;
  hb <- read_header_from_file l f ;;
  pf <- read_preface l hb ;;
  '(cht, count, cs) <- read_index l pf hb ;;
  _ <- read_sig l pf hb ;;
  POk (mkHeader (l_detached l) (l_hash l) (l_size l) (l_hlen l) (l_hdigest l) (pf_ddigest pf)
                (pf_flags pf) (pf_comp pf) cht count cs (pf_size pf) (pf_indexsize pf)).
End Impl.
