(** Auxiliary facts for the header-parser proofs: list slicing in [N], compressed-integer
    prefix stability, accessor-to-specification lemmas, flag masks, generated constants. *)
From ZV Require Import Base.Bytes Gen.GenConsts Format.Compint Format.CompintProofs
                       Format.Header Format.ParseImpl.
From Coq Require Import ZifyBool ZifyN ZifyNat.
Ltac Zify.zify_post_hook ::= Z.div_mod_to_equations.
Local Open Scope N_scope.

(** * Generated constants (a change of a scraped constant breaks these visibly) *)
Lemma LEAD_READ_25 : LEAD_READ = 25.
Proof. reflexivity. Qed.

Lemma dsize_bounds t ds : dsize t = Some ds -> 16 <= ds <= 64.
Proof.
  unfold dsize.
  destruct (t =? ZCK_HASH_SHA1); [intros E; injection E as <-; vm_compute; split; discriminate|].
  destruct (t =? ZCK_HASH_SHA256); [intros E; injection E as <-; vm_compute; split; discriminate|].
  destruct (t =? ZCK_HASH_SHA512); [intros E; injection E as <-; vm_compute; split; discriminate|].
  destruct (t =? ZCK_HASH_SHA512_128); [intros E; injection E as <-; vm_compute; split; discriminate|].
  discriminate.
Qed.

(** * Lists *)
Lemma skipn_add {A} (a b : nat) (l : list A) : skipn (a + b) l = skipn b (skipn a l).
Proof.
  revert l. induction a as [|a IH]; intros l; [reflexivity|].
  destruct l as [|x l]; cbn [Nat.add skipn]; [destruct b; reflexivity|apply IH].
Qed.

Lemma firstn_add {A} (a b : nat) (l : list A) :
  firstn (a + b) l = firstn a l ++ firstn b (skipn a l).
Proof.
  revert l. induction a as [|a IH]; intros l; [reflexivity|].
  destruct l as [|x l]; cbn [Nat.add firstn skipn app]; [destruct b; reflexivity|].
  f_equal. apply IH.
Qed.

Lemma wf_firstn n l : wf_bytes l -> wf_bytes (firstn n l).
Proof.
  unfold wf_bytes. rewrite !Forall_forall. intros H x Hx. apply H.
  rewrite <- (firstn_skipn n l). apply in_or_app. left. exact Hx.
Qed.

Lemma wf_skipn n l : wf_bytes l -> wf_bytes (skipn n l).
Proof.
  unfold wf_bytes. rewrite !Forall_forall. intros H x Hx. apply H.
  rewrite <- (firstn_skipn n l). apply in_or_app. right. exact Hx.
Qed.

Lemma wf_at_off hb off : wf_bytes hb -> wf_bytes (at_off hb off).
Proof. apply wf_skipn. Qed.

Lemma wf_sub f off n : wf_bytes f -> wf_bytes (sub f off n).
Proof. intros H. apply wf_firstn, wf_skipn, H. Qed.

Lemma len_at_off hb off : len (at_off hb off) = len hb - off.
Proof. unfold len, at_off. rewrite skipn_length. lia. Qed.

Lemma len_firstn k l : len (firstn (N.to_nat k) l) = N.min k (len l).
Proof. unfold len. rewrite firstn_length. lia. Qed.

Lemma len_firstn_le k l : k <= len l -> len (firstn (N.to_nat k) l) = k.
Proof. intros H. rewrite len_firstn. lia. Qed.

Lemma len_sub f off n : off + n <= len f -> len (sub f off n) = n.
Proof. intros H. unfold sub. fold (at_off f off). rewrite len_firstn, len_at_off. lia. Qed.

Lemma at_off_0 hb : at_off hb 0 = hb.
Proof. reflexivity. Qed.

Lemma at_off_add hb a b : at_off (at_off hb a) b = at_off hb (a + b).
Proof.
  unfold at_off. rewrite <- skipn_add. f_equal. lia.
Qed.

Lemma skipn_at_off hb a n : skipn n (at_off hb a) = at_off hb (a + N.of_nat n).
Proof.
  unfold at_off. rewrite <- skipn_add. f_equal. lia.
Qed.

Lemma at_off_firstn f k a :
  at_off (firstn (N.to_nat k) f) a = firstn (N.to_nat (k - a)) (at_off f a).
Proof.
  unfold at_off. rewrite skipn_firstn_comm. f_equal. lia.
Qed.

Lemma sub_eq f off n : sub f off n = firstn (N.to_nat n) (at_off f off).
Proof. reflexivity. Qed.

Lemma sub_firstn f k off n : off + n <= k -> sub (firstn (N.to_nat k) f) off n = sub f off n.
Proof.
  intros H. rewrite !sub_eq, at_off_firstn, firstn_firstn. f_equal. lia.
Qed.

Lemma at_off_firstn_sub f a b : at_off (firstn (N.to_nat (a + b)) f) a = sub f a b.
Proof. rewrite at_off_firstn, sub_eq. f_equal. lia. Qed.

Lemma firstn_all_len k (l : bytes) : len l <= k -> firstn (N.to_nat k) l = l.
Proof. intros H. apply firstn_all2. unfold len in H. lia. Qed.

(** splitting a slice *)
Lemma sub_split f off a b : sub f off (a + b) = sub f off a ++ sub f (off + a) b.
Proof.
  rewrite !sub_eq. replace (N.to_nat (a + b)) with (N.to_nat a + N.to_nat b)%nat by lia.
  rewrite firstn_add. f_equal. f_equal. rewrite skipn_at_off. f_equal. lia.
Qed.

Lemma bytes_eqb_eq a : forall b, bytes_eqb a b = true <-> a = b.
Proof.
  induction a as [|x a IH]; intros [|y b]; cbn [bytes_eqb]; try (split; [discriminate|congruence]).
  - split; reflexivity.
  - rewrite andb_true_iff, N.eqb_eq, IH. split; [intros [-> ->]; reflexivity|].
    intros E. split; congruence.
Qed.

Lemma bytes_eqb_refl a : bytes_eqb a a = true.
Proof. apply bytes_eqb_eq. reflexivity. Qed.

(** * [pres] plumbing *)
Definition clean {A} (r : pres A) : Prop :=
  match r with POOB | PFuel => False | _ => True end.

Lemma clean_iff {A} (r : pres A) : clean r <-> (r <> POOB /\ r <> PFuel).
Proof.
  destruct r; cbn [clean]; split; try tauto; try (intros; split; discriminate).
Qed.

Lemma clean_bind {A B} (x : pres A) (k : A -> pres B) :
  clean x -> (forall a, x = POk a -> clean (k a)) -> clean (pbind x k).
Proof. destruct x; cbn [pbind clean]; intros Hx Hk; try tauto. apply Hk. reflexivity. Qed.

Lemma clean_err {A} : clean (@PErr A).
Proof. exact I. Qed.
Lemma clean_ok {A} (a : A) : clean (POk a).
Proof. exact I. Qed.

(** destructs the head of a [pbind] chain in hypothesis [H : ... = POk _] *)
Ltac pstep H :=
  match type of H with
  | pbind ?x _ = POk _ =>
      let E := fresh "E" in
      destruct x eqn:E; cbn [pbind] in H; [|discriminate H|discriminate H|discriminate H]
  | (if ?c then _ else _) = POk _ =>
      let E := fresh "C" in destruct c eqn:E; [try discriminate H|try discriminate H]
  | match ?x with Some _ => _ | None => _ end = POk _ =>
      let E := fresh "E" in destruct x eqn:E; [|discriminate H]
  | match ?x with POk _ => _ | PErr => _ | POOB => _ | PFuel => _ end = POk _ =>
      let E := fresh "E" in
      destruct x eqn:E; [|discriminate H|discriminate H|discriminate H]
  | match ?x with (_, _) => _ end = POk _ => destruct x
  end.

(** * Compressed integers: what a decode depends on *)
Lemma ci_value_len l v n : ci_value l = Some (v, n) -> (1 <= n <= length l)%nat.
Proof.
  revert v n. induction l as [|b r IH]; intros v n; cbn [ci_value length]; [discriminate|].
  destruct (128 <=? b); [intros E; injection E as _ <-; lia|].
  destruct (ci_value r) as [[w m]|]; [|discriminate].
  intros E. injection E as _ <-. specialize (IH _ _ eq_refl). lia.
Qed.

Lemma ci_value_app a b v n : ci_value a = Some (v, n) -> ci_value (a ++ b) = Some (v, n).
Proof.
  revert v n. induction a as [|x a IH]; intros v n; cbn [ci_value app]; [discriminate|].
  destruct (128 <=? x); [trivial|].
  destruct (ci_value a) as [[w m]|]; [|discriminate].
  rewrite (IH _ _ eq_refl). trivial.
Qed.

Lemma ci_value_firstn l : forall k v n,
  ci_value l = Some (v, n) -> (n <= k)%nat -> ci_value (firstn k l) = Some (v, n).
Proof.
  induction l as [|b r IH]; intros k v n; cbn [ci_value]; [discriminate|].
  destruct (128 <=? b) eqn:Eb.
  - intros E Hk. injection E as <- <-. destruct k; [lia|]. cbn [firstn ci_value]. rewrite Eb. reflexivity.
  - destruct (ci_value r) as [[w m]|] eqn:Er; [|discriminate].
    intros E Hk. injection E as <- <-. destruct k; [lia|]. cbn [firstn ci_value]. rewrite Eb.
    rewrite (IH k w m eq_refl) by lia. reflexivity.
Qed.

Lemma ci_value_firstn_inv l k v n :
  ci_value (firstn k l) = Some (v, n) -> ci_value l = Some (v, n).
Proof.
  intros E. rewrite <- (firstn_skipn k l). apply ci_value_app. exact E.
Qed.

Lemma spec_ci_of_value l v n :
  ci_value l = Some (v, n) -> (n <= 10)%nat -> v < two64 -> spec_ci l = Some (v, skipn n l).
Proof.
  intros E Hn Hv. unfold spec_ci. rewrite E.
  destruct (Nat.leb_spec n 10); [|lia]. destruct (N.ltb_spec v two64); [|lia]. reflexivity.
Qed.

Lemma spec_ci_int_of_value l v n :
  ci_value l = Some (v, n) -> (n <= 10)%nat -> v <= INT_MAX -> spec_ci_int l = Some (v, skipn n l).
Proof.
  intros E Hn Hv. unfold spec_ci_int. rewrite (spec_ci_of_value l v n E Hn).
  - destruct (N.leb_spec v INT_MAX); [reflexivity|lia].
  - unfold INT_MAX, two64 in *. lia.
Qed.

(** accessors: a successful read is the specification's integer at that position *)
Lemma rd_size_value hb base ln maxlen v l' :
  wf_bytes hb -> rd_size hb base ln maxlen = POk (v, l') ->
  exists n, ci_value (at_off hb (base + ln)) = Some (v, n) /\ l' = ln + N.of_nat n /\
            (1 <= n <= 10)%nat /\ v < two64 /\ l' <= maxlen.
Proof.
  intros Hwf E. unfold rd_size in E.
  destruct (ci_to_size (at_off hb (base + ln)) ln maxlen) as [v0 l0| |] eqn:Ec;
    cbn [of_cres] in E; try discriminate.
  assert (v0 = v /\ l0 = l') as [-> ->] by (split; congruence).
  destruct (ci_to_size_sound _ _ _ _ _ (wf_at_off hb _ Hwf) Ec) as (n & Hcv & Hl & Hv & Hm & Hn).
  exists n. pose proof (ci_value_len _ _ _ Hcv). repeat split; try assumption; lia.
Qed.

Lemma rd_int_value hb base ln maxlen v l' :
  wf_bytes hb -> rd_int hb base ln maxlen = POk (v, l') ->
  exists n, ci_value (at_off hb (base + ln)) = Some (v, n) /\ l' = ln + N.of_nat n /\
            (1 <= n <= 10)%nat /\ v <= INT_MAX /\ l' <= maxlen.
Proof.
  intros Hwf E. unfold rd_int, ci_to_int in E.
  destruct (ci_to_size (at_off hb (base + ln)) ln maxlen) as [v0 l0| |] eqn:Ec;
    cbn [of_cres] in E; try discriminate.
  destruct (N.ltb_spec INT_MAX v0) as [Hi|Hi]; cbn [of_cres] in E; [discriminate|].
  assert (v0 = v /\ l0 = l') as [-> ->] by (split; congruence).
  destruct (ci_to_size_sound _ _ _ _ _ (wf_at_off hb _ Hwf) Ec) as (n & Hcv & Hl & Hv & Hm & Hn).
  exists n. pose proof (ci_value_len _ _ _ Hcv). repeat split; try assumption; lia.
Qed.

Lemma rd_size_spec hb base ln maxlen v l' :
  wf_bytes hb -> rd_size hb base ln maxlen = POk (v, l') ->
  spec_ci (at_off hb (base + ln)) = Some (v, at_off hb (base + l')) /\
  ln < l' /\ l' <= maxlen /\ v < two64.
Proof.
  intros Hwf E. destruct (rd_size_value _ _ _ _ _ _ Hwf E) as (n & Hcv & -> & Hn & Hv & Hm).
  rewrite (spec_ci_of_value _ _ _ Hcv) by (lia || assumption).
  rewrite skipn_at_off, N.add_assoc. repeat split; try lia; assumption.
Qed.

Lemma rd_int_spec hb base ln maxlen v l' :
  wf_bytes hb -> rd_int hb base ln maxlen = POk (v, l') ->
  spec_ci_int (at_off hb (base + ln)) = Some (v, at_off hb (base + l')) /\
  ln < l' /\ l' <= maxlen /\ v <= INT_MAX.
Proof.
  intros Hwf E. destruct (rd_int_value _ _ _ _ _ _ Hwf E) as (n & Hcv & -> & Hn & Hv & Hm).
  rewrite (spec_ci_int_of_value _ _ _ Hcv) by (lia || assumption).
  rewrite skipn_at_off, N.add_assoc. repeat split; try lia; assumption.
Qed.

Lemma rd_bytes_ok hb off n b :
  rd_bytes hb off n = POk b -> off + n <= len hb /\ b = sub hb off n.
Proof.
  unfold rd_bytes. destruct (N.leb_spec (off + n) (len hb)); [|discriminate].
  intros E. split; [assumption|congruence].
Qed.

Lemma spec_take_at hb off n :
  off + n <= len hb -> spec_take n (at_off hb off) = Some (sub hb off n, at_off hb (off + n)).
Proof.
  intros Hl. unfold spec_take. rewrite len_at_off.
  destruct (N.leb_spec n (len hb - off)); [|lia].
  rewrite sub_eq. do 2 f_equal. change (skipn (N.to_nat n) (at_off hb off)) with (at_off (at_off hb off) n).
  apply at_off_add.
Qed.

(** the bounded index region seen from cursor [ln]: bytes [base+ln, base+size) *)
Definition reg (hb : bytes) (base size ln : N) : bytes := sub hb (base + ln) (size - ln).

Lemma reg_0 hb base size : reg hb base size 0 = sub hb base size.
Proof. unfold reg. rewrite N.add_0_r, N.sub_0_r. reflexivity. Qed.

Lemma len_reg hb base size ln : base + size <= len hb -> len (reg hb base size ln) = size - ln.
Proof. intros Hl. unfold reg. rewrite sub_eq, len_firstn, len_at_off. lia. Qed.

Lemma skipn_reg hb base size ln n :
  skipn n (reg hb base size ln) = reg hb base size (ln + N.of_nat n).
Proof.
  unfold reg. rewrite !sub_eq, skipn_firstn_comm, skipn_at_off. f_equal; [lia|f_equal; lia].
Qed.

Lemma reg_value hb base size ln v n :
  ci_value (at_off hb (base + ln)) = Some (v, n) -> ln + N.of_nat n <= size ->
  ci_value (reg hb base size ln) = Some (v, n).
Proof.
  intros E Hl. unfold reg. rewrite sub_eq. apply ci_value_firstn; [exact E|lia].
Qed.

Lemma rd_size_reg hb base size ln maxlen v l' :
  wf_bytes hb -> rd_size hb base ln maxlen = POk (v, l') -> l' <= size ->
  spec_ci (reg hb base size ln) = Some (v, reg hb base size l').
Proof.
  intros Hwf E Hs. destruct (rd_size_value _ _ _ _ _ _ Hwf E) as (n & Hcv & -> & Hn & Hv & Hm).
  rewrite (spec_ci_of_value _ _ _ (reg_value _ _ _ _ _ _ Hcv Hs)) by (lia || assumption).
  rewrite skipn_reg. reflexivity.
Qed.

Lemma rd_int_reg hb base size ln maxlen v l' :
  wf_bytes hb -> rd_int hb base ln maxlen = POk (v, l') -> l' <= size ->
  spec_ci_int (reg hb base size ln) = Some (v, reg hb base size l').
Proof.
  intros Hwf E Hs. destruct (rd_int_value _ _ _ _ _ _ Hwf E) as (n & Hcv & -> & Hn & Hv & Hm).
  rewrite (spec_ci_int_of_value _ _ _ (reg_value _ _ _ _ _ _ Hcv Hs)) by (lia || assumption).
  rewrite skipn_reg. reflexivity.
Qed.

Lemma spec_take_reg hb base size ln n :
  base + size <= len hb -> ln + n <= size ->
  spec_take n (reg hb base size ln) = Some (sub hb (base + ln) n, reg hb base size (ln + n)).
Proof.
  intros Hl Hs. unfold spec_take. rewrite len_reg by exact Hl.
  destruct (N.leb_spec n (size - ln)); [|lia].
  replace (N.to_nat n) with (N.to_nat (N.of_nat (N.to_nat n))) at 2 by lia.
  rewrite skipn_reg. unfold reg at 1. rewrite !sub_eq, firstn_firstn.
  do 2 f_equal; [f_equal; lia|f_equal; lia].
Qed.

(** * Bounds of a decode that need no well-formedness of the bytes *)
Lemma ci_loop_bounds suf : forall ln maxlen val old count v l',
  ci_loop suf ln maxlen val old count = COk v l' -> ln < l' /\ l' <= maxlen.
Proof.
  induction suf as [|b suf IH]; intros ln maxlen val old count v l' E.
  - rewrite ci_loop_nil in E. destruct (maxlen <=? ln); discriminate.
  - rewrite ci_loop_cons in E. cbv zeta in E.
    destruct (N.leb_spec maxlen ln); [discriminate|].
    destruct ((count =? 9) && _); [discriminate|].
    destruct (128 <=? b).
    + assert (l' = ln + 1) by congruence. lia.
    + destruct ((10 <=? count + 1) || _); [discriminate|].
      apply IH in E. lia.
Qed.

Lemma rd_size_bounds hb base ln maxlen v l' :
  rd_size hb base ln maxlen = POk (v, l') -> ln < l' /\ l' <= maxlen.
Proof.
  unfold rd_size, ci_to_size. intros E.
  destruct (ci_loop _ _ _ _ _ _) as [v0 l0| |] eqn:Ec; cbn [of_cres] in E; try discriminate.
  apply ci_loop_bounds in Ec. assert (l0 = l') by congruence. subst. exact Ec.
Qed.

Lemma rd_int_bounds hb base ln maxlen v l' :
  rd_int hb base ln maxlen = POk (v, l') -> ln < l' /\ l' <= maxlen.
Proof.
  unfold rd_int, ci_to_int, ci_to_size. intros E.
  destruct (ci_loop _ _ _ _ _ _) as [v0 l0| |] eqn:Ec; cbn [of_cres] in E; try discriminate.
  destruct (INT_MAX <? v0); cbn [of_cres] in E; [discriminate|].
  apply ci_loop_bounds in Ec. assert (l0 = l') by congruence. subst. exact Ec.
Qed.

Lemma rd_size_clean hb base ln maxlen : base + maxlen <= len hb -> clean (rd_size hb base ln maxlen).
Proof.
  intros Hl. unfold rd_size.
  pose proof (ci_to_size_no_oob (at_off hb (base + ln)) ln maxlen) as Hn.
  rewrite len_at_off in Hn.
  destruct (ci_to_size _ _ _); cbn [of_cres clean]; try exact I. apply Hn; [lia|reflexivity].
Qed.

Lemma rd_int_clean hb base ln maxlen : base + maxlen <= len hb -> clean (rd_int hb base ln maxlen).
Proof.
  intros Hl. unfold rd_int.
  pose proof (ci_to_int_no_oob (at_off hb (base + ln)) ln maxlen) as Hn.
  rewrite len_at_off in Hn.
  destruct (ci_to_int _ _ _); cbn [of_cres clean]; try exact I. apply Hn; [lia|reflexivity].
Qed.

Lemma rd_bytes_clean hb off n : off + n <= len hb -> clean (rd_bytes hb off n).
Proof.
  intros Hl. unfold rd_bytes. destruct (N.leb_spec (off + n) (len hb)); [exact I|lia].
Qed.

(** the decode only looks at the bytes it consumes *)
Lemma ci_loop_prefix suf : forall ln maxlen val old count v l' t,
  ci_loop suf ln maxlen val old count = COk v l' ->
  ci_loop (firstn (N.to_nat (l' - ln)) suf ++ t) ln maxlen val old count = COk v l'.
Proof.
  induction suf as [|b suf IH]; intros ln maxlen val old count v l' t E.
  - rewrite ci_loop_nil in E. destruct (maxlen <=? ln); discriminate.
  - pose proof (ci_loop_bounds _ _ _ _ _ _ _ _ E) as [Hlt _].
    replace (N.to_nat (l' - ln)) with (S (N.to_nat (l' - (ln + 1)))) by lia.
    cbn [firstn app]. rewrite ci_loop_cons in E |- *. cbv zeta in E |- *.
    destruct (maxlen <=? ln); [discriminate|].
    destruct ((count =? 9) && _); [discriminate|].
    destruct (128 <=? b); [exact E|].
    destruct ((10 <=? count + 1) || _); [discriminate|].
    apply IH. exact E.
Qed.

(** * Flag masks *)
Lemma mask_unknown_flags : two64 - 1 - 7 = N.shiftl (N.ones 61) 3.
Proof. reflexivity. Qed.

Lemma unknown_flags_zero x : x < two64 -> N.land x (two64 - 1 - 7) = 0 -> x < 8.
Proof.
  intros Hx Hl. destruct (N.lt_ge_cases x 8) as [Hs|Hs]; [exact Hs|exfalso].
  assert (Hpos : 0 < x) by lia.
  assert (Hlo : 3 <= N.log2 x) by (apply (N.log2_le_pow2 x 3 Hpos); exact Hs).
  assert (Hhi : N.log2 x < 64) by (apply (N.log2_lt_pow2 x 64 Hpos); exact Hx).
  assert (Hb : N.testbit (N.land x (two64 - 1 - 7)) (N.log2 x) = true).
  { rewrite N.land_spec, N.bit_log2 by lia. rewrite mask_unknown_flags.
    rewrite N.shiftl_spec_high' by exact Hlo. rewrite N.ones_spec_low by lia. reflexivity. }
  rewrite Hl, N.bits_0 in Hb. discriminate.
Qed.
