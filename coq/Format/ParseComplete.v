(** Completeness of the header parser model: every file the format specification accepts
    is accepted by [parse_impl] (without pins) with the same record.  Together with
    [parse_impl_refines_spec] and [parse_impl_total] this makes the model an exact decision
    procedure for [parse_spec]. *)
From ZV Require Import Base.Bytes Gen.GenConsts Format.Compint Format.CompintProofs
                       Format.Header Format.ParseImpl Format.ParseLemmas Format.ParseProofs.
From Coq Require Import ZifyBool ZifyN ZifyNat.
Ltac Zify.zify_post_hook ::= Z.div_mod_to_equations.
Local Open Scope N_scope.

(** * Inversion of the specification combinators *)
Lemma spec_ci_inv l v r :
  spec_ci l = Some (v, r) ->
  exists n, ci_value l = Some (v, n) /\ (1 <= n <= 10)%nat /\ (n <= length l)%nat /\
            v < two64 /\ r = skipn n l.
Proof.
  unfold spec_ci. destruct (ci_value l) as [[w n]|] eqn:E; [|discriminate].
  destruct (Nat.leb_spec n 10); cbn [andb]; [|discriminate].
  destruct (N.ltb_spec w two64); [|discriminate].
  intros X. assert (w = v /\ skipn n l = r) as [-> <-] by (split; congruence).
  exists n. pose proof (ci_value_len _ _ _ E). repeat split; try lia; assumption.
Qed.

Lemma spec_ci_int_inv l v r :
  spec_ci_int l = Some (v, r) ->
  exists n, ci_value l = Some (v, n) /\ (1 <= n <= 10)%nat /\ (n <= length l)%nat /\
            v <= INT_MAX /\ r = skipn n l.
Proof.
  unfold spec_ci_int. destruct (spec_ci l) as [[w r']|] eqn:E; [|discriminate].
  destruct (N.leb_spec w INT_MAX); [|discriminate].
  intros X. assert (w = v /\ r' = r) as [-> ->] by (split; congruence).
  destruct (spec_ci_inv _ _ _ E) as (n & V & Hn & Hl & _ & ->).
  exists n. repeat split; try lia; assumption.
Qed.

Lemma spec_take_inv n l a r :
  spec_take n l = Some (a, r) ->
  n <= len l /\ a = firstn (N.to_nat n) l /\ r = skipn (N.to_nat n) l.
Proof.
  unfold spec_take. destruct (N.leb_spec n (len l)); [|discriminate].
  intros X. repeat split; [assumption|congruence|congruence].
Qed.

(** * Completeness of the accessors *)
Lemma rd_size_complete hb base ln maxlen v n :
  wf_bytes hb -> ci_value (at_off hb (base + ln)) = Some (v, n) -> (n <= 10)%nat ->
  v < two64 -> ln + N.of_nat n <= maxlen ->
  rd_size hb base ln maxlen = POk (v, ln + N.of_nat n).
Proof.
  intros Hwf V Hn Hv Hl. unfold rd_size.
  rewrite (ci_to_size_complete _ ln maxlen v n (wf_at_off _ _ Hwf) V Hn Hv Hl). reflexivity.
Qed.

Lemma rd_int_complete hb base ln maxlen v n :
  wf_bytes hb -> ci_value (at_off hb (base + ln)) = Some (v, n) -> (n <= 10)%nat ->
  v <= INT_MAX -> ln + N.of_nat n <= maxlen ->
  rd_int hb base ln maxlen = POk (v, ln + N.of_nat n).
Proof.
  intros Hwf V Hn Hv Hl. unfold rd_int, ci_to_int.
  assert (Hv2 : v < two64) by (unfold INT_MAX, two64 in *; lia).
  rewrite (ci_to_size_complete _ ln maxlen v n (wf_at_off _ _ Hwf) V Hn Hv2 Hl).
  destruct (N.ltb_spec INT_MAX v); [lia|reflexivity].
Qed.

(** reads inside a buffer that ends exactly at [base + maxlen] *)
Lemma rd_size_of_spec hb base ln maxlen v r :
  wf_bytes hb -> len hb = base + maxlen -> ln <= maxlen ->
  spec_ci (at_off hb (base + ln)) = Some (v, r) ->
  exists l', rd_size hb base ln maxlen = POk (v, l') /\ r = at_off hb (base + l') /\
             ln < l' /\ l' <= maxlen.
Proof.
  intros Hwf Hlen Hln S. destruct (spec_ci_inv _ _ _ S) as (n & V & Hn & Hl & Hv & ->).
  pose proof (len_at_off hb (base + ln)) as HL. unfold len in HL, Hlen.
  exists (ln + N.of_nat n). split; [apply rd_size_complete; (assumption || lia)|].
  rewrite skipn_at_off, N.add_assoc. repeat split; lia.
Qed.

Lemma rd_int_of_spec hb base ln maxlen v r :
  wf_bytes hb -> len hb = base + maxlen -> ln <= maxlen ->
  spec_ci_int (at_off hb (base + ln)) = Some (v, r) ->
  exists l', rd_int hb base ln maxlen = POk (v, l') /\ r = at_off hb (base + l') /\
             ln < l' /\ l' <= maxlen.
Proof.
  intros Hwf Hlen Hln S. destruct (spec_ci_int_inv _ _ _ S) as (n & V & Hn & Hl & Hv & ->).
  pose proof (len_at_off hb (base + ln)) as HL. unfold len in HL, Hlen.
  exists (ln + N.of_nat n). split; [apply rd_int_complete; (assumption || lia)|].
  rewrite skipn_at_off, N.add_assoc. repeat split; lia.
Qed.

(** reads inside the bounded index region *)
Lemma reg_value_inv hb base size ln v n :
  ci_value (reg hb base size ln) = Some (v, n) -> ci_value (at_off hb (base + ln)) = Some (v, n).
Proof. unfold reg. rewrite sub_eq. apply ci_value_firstn_inv. Qed.

Lemma rd_size_of_reg hb base size maxlen ln v r :
  wf_bytes hb -> base + size <= len hb -> size <= maxlen -> ln <= size ->
  spec_ci (reg hb base size ln) = Some (v, r) ->
  exists l', rd_size hb base ln maxlen = POk (v, l') /\ r = reg hb base size l' /\
             ln < l' /\ l' <= size.
Proof.
  intros Hwf Hlen Hm Hln S. destruct (spec_ci_inv _ _ _ S) as (n & V & Hn & Hl & Hv & ->).
  pose proof (len_reg hb base size ln Hlen) as HL. unfold len in HL.
  exists (ln + N.of_nat n).
  split; [apply rd_size_complete; try (assumption || lia); apply (reg_value_inv _ _ size), V|].
  rewrite skipn_reg. repeat split; lia.
Qed.

Lemma rd_int_of_reg hb base size maxlen ln v r :
  wf_bytes hb -> base + size <= len hb -> size <= maxlen -> ln <= size ->
  spec_ci_int (reg hb base size ln) = Some (v, r) ->
  exists l', rd_int hb base ln maxlen = POk (v, l') /\ r = reg hb base size l' /\
             ln < l' /\ l' <= size.
Proof.
  intros Hwf Hlen Hm Hln S. destruct (spec_ci_int_inv _ _ _ S) as (n & V & Hn & Hl & Hv & ->).
  pose proof (len_reg hb base size ln Hlen) as HL. unfold len in HL.
  exists (ln + N.of_nat n).
  split; [apply rd_int_complete; try (assumption || lia); apply (reg_value_inv _ _ size), V|].
  rewrite skipn_reg. repeat split; lia.
Qed.

Lemma rd_bytes_complete hb off n : off + n <= len hb -> rd_bytes hb off n = POk (sub hb off n).
Proof. intros Hl. unfold rd_bytes. destruct (N.leb_spec (off + n) (len hb)); [reflexivity|lia]. Qed.

(** the converse of [unknown_flags_zero] *)
Lemma known_flags_mask x : x < 8 -> N.land x (two64 - 1 - 7) = 0.
Proof.
  intros Hx.
  assert (D : x = 0 \/ x = 1 \/ x = 2 \/ x = 3 \/ x = 4 \/ x = 5 \/ x = 6 \/ x = 7) by lia.
  destruct D as [->|[->|[->|[->|[->|[->|[->| ->]]]]]]]; reflexivity.
Qed.

(** * read_lead *)
Lemma read_lead_complete f ht ds hlen f2 f3 hdg f4 :
  wf_bytes f -> 25 <= len f ->
  bytes_eqb (firstn 5 f) magic_zck || bytes_eqb (firstn 5 f) magic_zhr = true ->
  spec_ci_int (at_off f 5) = Some (ht, f2) -> dsize ht = Some ds ->
  spec_ci f2 = Some (hlen, f3) -> spec_take ds f3 = Some (hdg, f4) ->
  exists l2, 5 < l2 /\ l2 <= 25 /\ l2 + ds <= len f /\ f3 = at_off f l2 /\ f4 = at_off f (l2 + ds) /\
    read_lead no_pins f =
    POk (mkLead (bytes_eqb (firstn 5 f) magic_zhr) ht ds hlen l2 (l2 + ds)
                (25 + (if 25 <? l2 + ds then l2 + ds - 25 else 0)) hdg).
Proof.
  intros Hwf H25 Hm S1 Hds S2 T3.
  destruct (spec_ci_int_inv _ _ _ S1) as (n1 & V1 & N1 & _ & I1 & ->).
  rewrite skipn_at_off in S2.
  destruct (spec_ci_inv _ _ _ S2) as (n2 & V2 & N2 & _ & I2 & ->).
  rewrite skipn_at_off in T3 |- *.
  set (l1 := 5 + N.of_nat n1) in *. set (l2 := l1 + N.of_nat n2) in *.
  destruct (spec_take_inv _ _ _ _ T3) as (L3 & -> & ->). rewrite len_at_off in L3.
  pose proof (dsize_bounds _ _ Hds) as Bds.
  exists l2. split; [lia|]. split; [lia|]. split; [lia|]. split; [reflexivity|].
  split; [change (skipn (N.to_nat ds) (at_off f l2)) with (at_off (at_off f l2) ds);
          apply at_off_add|].
  unfold read_lead. rewrite LEAD_READ_25.
  destruct (N.ltb_spec (len f) 25); [lia|].
  change (firstn 5 (firstn (N.to_nat 25) f)) with (firstn 5 (firstn 25 f)).
  rewrite firstn_firstn. change (Nat.min 5 25) with 5%nat.
  rewrite orb_comm in Hm. rewrite Hm. cbn [negb].
  assert (Hwfb : wf_bytes (firstn (N.to_nat 25) f)) by (apply wf_firstn; exact Hwf).
  assert (W1 : ci_value (at_off (firstn (N.to_nat 25) f) (0 + 5)) = Some (ht, n1)).
  { rewrite at_off_firstn. apply ci_value_firstn; [exact V1|lia]. }
  rewrite (rd_int_complete _ 0 5 25 ht n1 Hwfb W1) by lia. cbn [pbind p_type no_pins].
  rewrite Hds. fold l1.
  assert (W2 : ci_value (at_off (firstn (N.to_nat 25) f) (0 + l1)) = Some (hlen, n2)).
  { rewrite at_off_firstn, N.add_0_l. apply ci_value_firstn; [exact V2|lia]. }
  rewrite (rd_size_complete _ 0 l1 25 hlen n2 Hwfb W2) by lia. cbn [pbind]. fold l2.
  set (loaded := 25 + (if 25 <? l2 + ds then l2 + ds - 25 else 0)).
  assert (Hld : loaded = N.max 25 (l2 + ds)) by (unfold loaded; destruct (N.ltb_spec 25 (l2 + ds)); lia).
  destruct (N.ltb_spec (len f) loaded); [lia|].
  rewrite rd_bytes_complete by (rewrite len_firstn_le; lia). cbn [pbind p_digest p_size no_pins].
  rewrite sub_firstn by lia. reflexivity.
Qed.

(** * read_header_from_file *)
Section HeaderC.
Variable H : N -> bytes -> bytes.

Lemma read_header_complete l f :
  l_size l <> 0 -> l_hlen l <> 0 -> l_size l + l_hlen l < two64 ->
  l_loaded l - l_size l <= l_hlen l -> l_size l + l_hlen l <= len f ->
  5 <= l_dloc l -> l_dloc l <= l_size l + l_hlen l ->
  H (l_hash l) (covered f (l_dloc l) (l_size l) (l_hlen l)) = l_hdigest l ->
  read_header_from_file H l f = POk (firstn (N.to_nat (l_size l + l_hlen l)) f).
Proof.
  intros Hs0 Hh0 H64 Hld Hlen H5 Hdl Hdg. unfold read_header_from_file.
  destruct (N.eqb_spec (l_size l) 0); [contradiction|].
  destruct (N.eqb_spec (l_hlen l) 0); [contradiction|]. cbn [orb].
  rewrite (u64_small _ H64).
  destruct (N.ltb_spec (l_size l + l_hlen l) (l_size l)); [lia|].
  destruct (N.ltb_spec (l_size l + l_hlen l) (l_hlen l)); [lia|]. cbn [orb].
  destruct (N.ltb_spec (l_hlen l) (l_loaded l - l_size l)); [lia|].
  destruct (N.ltb_spec (len f) (l_size l + l_hlen l)); [lia|].
  rewrite covered_firstn by lia. rewrite Hdg, bytes_eqb_refl. reflexivity.
Qed.
End HeaderC.

(** * optional elements *)
Lemma opt_loop_complete hb base maxlen count :
  wf_bytes hb -> len hb = base + maxlen ->
  forall fuel sf i ln r,
    spec_opts sf (count - i) (at_off hb (base + ln)) = Some r -> i <= count -> ln <= maxlen ->
    (N.to_nat (maxlen - ln) < fuel)%nat ->
    exists l', opt_loop fuel hb base maxlen i count ln = POk l' /\ r = at_off hb (base + l') /\
               l' <= maxlen.
Proof.
  intros Hwf Hlen. induction fuel as [|fuel IH]; intros sf i ln r S Hi Hln Hf; [lia|].
  cbn [opt_loop]. destruct (N.leb_spec count i) as [Hc|Hc].
  - replace (count - i) with 0 in S by lia. rewrite spec_opts_0 in S.
    exists ln. split; [reflexivity|]. split; [congruence|exact Hln].
  - destruct sf as [|sf].
    + cbn [spec_opts] in S. destruct (N.eqb_spec (count - i) 0); [lia|discriminate].
    + rewrite spec_opts_S in S by lia.
      destruct (spec_ci (at_off hb (base + ln))) as [[x r1]|] eqn:S1; [|discriminate].
      destruct (rd_size_of_spec _ _ _ _ _ _ Hwf Hlen Hln S1) as (l1 & E1 & -> & B1 & B1').
      destruct (spec_ci (at_off hb (base + l1))) as [[dsz r2]|] eqn:S2; [|discriminate].
      destruct (rd_size_of_spec _ _ _ _ _ _ Hwf Hlen B1' S2) as (l2 & E2 & -> & B2 & B2').
      destruct (spec_take dsz (at_off hb (base + l2))) as [[a r3]|] eqn:T3; [|discriminate].
      destruct (spec_take_inv _ _ _ _ T3) as (L3 & _ & ->). rewrite len_at_off in L3.
      rewrite E1. cbn [pbind]. rewrite E2. cbn [pbind].
      destruct (N.ltb_spec (maxlen - l2) dsz); [lia|].
      change (skipn (N.to_nat dsz) (at_off hb (base + l2))) with (at_off (at_off hb (base + l2)) dsz) in S.
      rewrite at_off_add, <- N.add_assoc in S.
      replace (count - i - 1) with (count - (i + 1)) in S by lia.
      apply (IH sf (i + 1) (l2 + dsz) r S); lia.
Qed.

(** * read_preface *)
Lemma read_preface_complete l hb ddg p1 flags p2 comp p3 p5 isz p6 :
  wf_bytes hb -> len hb = l_size l + l_hlen l ->
  spec_take (l_ds l) (at_off hb (l_size l)) = Some (ddg, p1) ->
  spec_ci p1 = Some (flags, p2) -> N.land flags 1 = 0 -> flags < 8 ->
  spec_ci_int p2 = Some (comp, p3) ->
  (comp =? ZCK_COMP_NONE) || (comp =? ZCK_COMP_ZSTD) = true ->
  spec_optpart flags p3 = Some p5 -> spec_ci_int p5 = Some (isz, p6) ->
  exists l4, read_preface l hb = POk (mkPreface ddg flags comp l4 isz) /\
             p6 = at_off hb (l_size l + l4) /\ l4 <= l_hlen l.
Proof.
  intros Hwf Hlen T1 S1 Hf1 Hf8 S2 Hc So S4.
  destruct (spec_take_inv _ _ _ _ T1) as (L1 & -> & ->). rewrite len_at_off in L1.
  change (skipn (N.to_nat (l_ds l)) (at_off hb (l_size l)))
    with (at_off (at_off hb (l_size l)) (l_ds l)) in S1.
  rewrite at_off_add in S1.
  assert (B0 : l_ds l <= l_hlen l) by lia.
  destruct (rd_size_of_spec _ _ _ _ _ _ Hwf Hlen B0 S1) as (l1 & E1 & -> & B1 & B1').
  destruct (rd_int_of_spec _ _ _ _ _ _ Hwf Hlen B1' S2) as (l2 & E2 & -> & B2 & B2').
  assert (Ho : exists l3,
    (if N.testbit flags 1 then
       '(oc, lo) <- rd_size hb (l_size l) l2 (l_hlen l) ;;
       opt_loop (N.to_nat (l_hlen l)) hb (l_size l) (l_hlen l) 0 oc lo
     else POk l2) = POk l3 /\ p5 = at_off hb (l_size l + l3) /\ l3 <= l_hlen l).
  { unfold spec_optpart in So. destruct (N.testbit flags 1).
    - destruct (spec_ci (at_off hb (l_size l + l2))) as [[oc p4]|] eqn:S3; [|discriminate].
      destruct (rd_size_of_spec _ _ _ _ _ _ Hwf Hlen B2' S3) as (lo & Eo & -> & Bo & Bo').
      rewrite Eo. cbn [pbind].
      replace oc with (oc - 0) in So at 1 by lia.
      apply (opt_loop_complete hb (l_size l) (l_hlen l) oc Hwf Hlen _ _ 0 lo p5 So); lia.
    - exists l2. split; [reflexivity|]. split; [congruence|exact B2']. }
  destruct Ho as (l3 & E3 & -> & B3).
  destruct (rd_int_of_spec _ _ _ _ _ _ Hwf Hlen B3 S4) as (l4 & E4 & -> & B4 & B4').
  exists l4. split; [|split; [reflexivity|exact B4']].
  unfold read_preface.
  destruct (N.ltb_spec (l_hlen l) (l_ds l)); [lia|].
  rewrite rd_bytes_complete by lia. cbn [pbind]. rewrite E1. cbn [pbind].
  rewrite Hf1, (known_flags_mask _ Hf8). cbn [N.eqb negb].
  rewrite E2. cbn [pbind]. rewrite Hc. cbn [negb].
  rewrite E3. cbn [pbind]. rewrite E4. cbn [pbind]. reflexivity.
Qed.

(** * the index *)
Lemma idx_loop_complete hb base size maxlen ds uflag hdrlen :
  wf_bytes hb -> base + size <= len hb -> size <= maxlen -> 1 <= ds ->
  forall fuel sf ln idx_loc count acc cs',
    spec_entries sf ds uflag idx_loc (reg hb base size ln) = Some cs' -> ln <= size ->
    (N.to_nat (size - ln) < fuel)%nat ->
    hdrlen + idx_loc + data_total cs' <= SSIZE_MAX ->
    Forall (fun c => c_ulen c <= SSIZE_MAX) cs' ->
    idx_loop fuel hb base size maxlen ds uflag hdrlen ln idx_loc count acc =
    POk (count + N.of_nat (length cs'), rev acc ++ cs').
Proof.
  intros Hwf Hlen Hm Hds.
  induction fuel as [|fuel IH]; intros sf ln idx_loc count acc cs' S Hln Hf Htot Hul; [lia|].
  destruct (N.eq_dec ln size) as [->|Hne].
  - unfold reg in S. rewrite N.sub_diag, sub_eq in S. cbn [N.to_nat firstn] in S.
    rewrite spec_entries_nil in S. assert (cs' = []) by congruence. subst cs'.
    rewrite idx_loop_done by lia. rewrite N.eqb_refl. cbn [negb length].
    rewrite app_nil_r. do 2 f_equal. lia.
  - assert (Hlt : ln < size) by lia.
    assert (Hnn : reg hb base size ln <> []).
    { intros Z. pose proof (len_reg hb base size ln Hlen) as Hr. rewrite Z, len_nil in Hr. lia. }
    destruct sf as [|sf].
    { destruct (reg hb base size ln); [contradiction|discriminate]. }
    rewrite spec_entries_S in S by exact Hnn.
    destruct (spec_take ds (reg hb base size ln)) as [[dg r1]|] eqn:T1; [|discriminate].
    destruct (spec_take_inv _ _ _ _ T1) as (L1 & _ & _). rewrite len_reg in L1 by exact Hlen.
    rewrite spec_take_reg in T1 by lia.
    assert (dg = sub hb (base + ln) ds /\ r1 = reg hb base size (ln + ds)) as [-> ->]
      by (split; congruence).
    assert (Hud : exists ud ln2 r2,
      (if uflag then match spec_take ds (reg hb base size (ln + ds)) with
                     | Some (u, l2) => Some (Some u, l2) | None => None end
       else Some (None, reg hb base size (ln + ds))) = Some (ud, r2) /\
      r2 = reg hb base size ln2 /\ ln2 <= size /\
      ln + (if uflag then ds + ds else ds) = ln2 /\
      (if uflag then u <- rd_bytes hb (base + (ln + ds)) ds ;; POk (Some u, ln + ds + ds)
       else POk (None, ln + ds)) = POk (ud, ln2)).
    { destruct uflag.
      - destruct (spec_take ds (reg hb base size (ln + ds))) as [[u r2]|] eqn:T2; [|discriminate].
        destruct (spec_take_inv _ _ _ _ T2) as (L2 & _ & _). rewrite len_reg in L2 by exact Hlen.
        rewrite spec_take_reg in T2 by lia.
        exists (Some u), (ln + ds + ds), r2. split; [reflexivity|].
        split; [congruence|]. split; [lia|]. split; [lia|].
        rewrite rd_bytes_complete by lia. cbn [pbind]. do 3 f_equal. congruence.
      - exists None, (ln + ds), (reg hb base size (ln + ds)).
        repeat split; (reflexivity || lia). }
    destruct Hud as (ud & ln2 & r2 & Hud & -> & Bu & Eln2 & Eu). rewrite Hud in S.
    destruct (spec_ci (reg hb base size ln2)) as [[clen r3]|] eqn:S3; [|discriminate].
    destruct (rd_size_of_reg _ _ _ maxlen _ _ _ Hwf Hlen Hm Bu S3) as (l3 & E3 & -> & B3 & B3').
    destruct (spec_ci (reg hb base size l3)) as [[ulen r4]|] eqn:S4; [|discriminate].
    destruct (rd_size_of_reg _ _ _ maxlen _ _ _ Hwf Hlen Hm B3' S4) as (l4 & E4 & -> & B4 & B4').
    destruct (spec_entries sf ds uflag (idx_loc + clen) (reg hb base size l4)) as [cs''|] eqn:S5;
      [|discriminate].
    assert (cs' = mkChunk (sub hb (base + ln) ds) ud clen ulen idx_loc :: cs'') by congruence.
    subst cs'. cbn [data_total fold_right c_clen] in Htot. fold (data_total cs'') in Htot.
    inversion Hul as [|c0 r0 Hu0 Hul']; subst c0 r0. cbn [c_ulen] in Hu0.
    rewrite idx_loop_step by exact Hlt. cbv zeta.
    destruct (N.ltb_spec maxlen (ln + (if uflag then ds + ds else ds))); [lia|].
    rewrite rd_bytes_complete by (destruct uflag; lia). cbn [pbind].
    rewrite Eu. cbn [pbind]. rewrite E3. cbn [pbind]. rewrite E4. cbn [pbind].
    destruct (N.ltb_spec SSIZE_MAX hdrlen); [lia|].
    destruct (N.ltb_spec (SSIZE_MAX - hdrlen) idx_loc); [lia|].
    destruct (N.ltb_spec (SSIZE_MAX - hdrlen - idx_loc) clen); [lia|].
    destruct (N.ltb_spec SSIZE_MAX ulen); [lia|]. cbn [orb].
    rewrite (IH sf l4 (idx_loc + clen) (count + 1) _ cs'' S5) by (assumption || lia).
    cbn [rev length]. rewrite <- app_assoc. cbn [app]. do 2 f_equal. lia.
Qed.

Lemma read_index_complete l pf hb cht i1 cds count i2 cs :
  wf_bytes hb -> len hb = l_size l + l_hlen l ->
  pf_size pf + pf_indexsize pf <= l_hlen l ->
  let base := l_size l + pf_size pf in
  let size := pf_indexsize pf in
  spec_ci_int (reg hb base size 0) = Some (cht, i1) -> dsize cht = Some cds ->
  spec_ci i1 = Some (count, i2) ->
  spec_entries (length i2) cds (N.testbit (pf_flags pf) 2) 0 i2 = Some cs ->
  count = N.of_nat (length cs) -> count <> 0 ->
  l_size l + l_hlen l + data_total cs <= SSIZE_MAX ->
  Forall (fun c => c_ulen c <= SSIZE_MAX) cs ->
  read_index l pf hb = POk (cht, count, cs).
Proof.
  intros Hwf Hlen Hfit base size S1 Hcds S2 S3 Hcnt Hc0 Htot Hul.
  assert (Hbs : base + size <= len hb) by (unfold base, size; lia).
  set (maxlen := l_size l + l_hlen l - base).
  assert (Hm : size <= maxlen) by (unfold maxlen, base, size; lia).
  destruct (rd_int_of_reg _ _ _ maxlen _ _ _ Hwf Hbs Hm (N.le_0_l size) S1) as (l1 & E1 & -> & B1 & B1').
  destruct (rd_size_of_reg _ _ _ maxlen _ _ _ Hwf Hbs Hm B1' S2) as (l2 & E2 & -> & B2 & B2').
  pose proof (dsize_bounds _ _ Hcds) as Bds.
  unfold read_index. fold base. fold size.
  destruct (N.ltb_spec (l_size l + l_hlen l) (base + size)); [unfold base, size in *; lia|].
  fold maxlen. rewrite E1. cbn [pbind]. rewrite Hcds, E2. cbn [pbind].
  rewrite (idx_loop_complete hb base size maxlen cds _ _ Hwf Hbs Hm ltac:(lia) _ _ l2 0 0 [] cs S3)
    by (assumption || lia).
  cbn [pbind rev app]. rewrite N.add_0_l, <- Hcnt, N.eqb_refl.
  destruct (N.eqb_spec count 0); [contradiction|]. reflexivity.
Qed.

Lemma read_sig_complete l pf hb r :
  wf_bytes hb -> len hb = l_size l + l_hlen l ->
  pf_size pf + pf_indexsize pf <= l_hlen l ->
  spec_ci_int (at_off hb (l_size l + pf_size pf + pf_indexsize pf)) = Some (0, r) ->
  read_sig l pf hb = POk tt.
Proof.
  intros Hwf Hlen Hfit S.
  set (base := l_size l + pf_size pf + pf_indexsize pf) in *.
  set (maxlen := l_size l + l_hlen l - base).
  assert (Hl : len hb = base + maxlen) by (unfold maxlen, base; lia).
  rewrite <- (N.add_0_r base) in S.
  destruct (rd_int_of_spec _ _ _ _ _ _ Hwf Hl (N.le_0_l maxlen) S) as (l1 & E1 & _).
  unfold read_sig. fold base. fold maxlen. rewrite E1. reflexivity.
Qed.

(** * The theorems *)
Ltac sstep2 E a b Eq :=
  match type of E with
  | match ?X with Some _ => _ | None => _ end = Some _ =>
      destruct X as [[a b]|] eqn:Eq; [|discriminate E]
  end.
Ltac sstep1 E a Eq :=
  match type of E with
  | match ?X with Some _ => _ | None => _ end = Some _ =>
      destruct X as [a|] eqn:Eq; [|discriminate E]
  end.
Ltac sif E C :=
  match type of E with
  | (if ?c then _ else _) = Some _ => destruct c eqn:C; [|discriminate E]
  end.

Section Complete.
Variable H : N -> bytes -> bytes.

Theorem parse_spec_implies_impl f h :
  wf_bytes f -> parse_spec H f = Some h -> parse_impl H no_pins f = POk h.
Proof.
  intros Hwf E. unfold parse_spec in E.
  sstep2 E m f1 T0. destruct (spec_take_inv _ _ _ _ T0) as (L0 & -> & ->).
  change (N.to_nat 5) with 5%nat in E. change (skipn 5 f) with (at_off f 5) in E.
  sif E Cm. sstep2 E ht f2 T1. sstep1 E ds Eds. sstep2 E hlen f3 T2. sstep2 E hdg f4 T3.
  cbv zeta in E.
  sstep2 E hdr hrest T4. sif E Cd. apply andb_true_iff in Cd. destruct Cd as [Ch0 Cdg].
  apply negb_true_iff, N.eqb_neq in Ch0. apply bytes_eqb_eq in Cdg.
  sstep2 E ddg p1 P1. sstep2 E flags p2 P2. sif E Cf.
  apply andb_true_iff in Cf. destruct Cf as [Cf1 Cf8]. apply N.eqb_eq in Cf1. apply N.ltb_lt in Cf8.
  sstep2 E comp p3 P3. sif E Cc. sstep1 E p5 Po. sstep2 E isz p6 P4. sstep2 E idx p7 T5.
  sstep2 E cht i1 I1. sstep1 E cds Ecds. sstep2 E count i2 I2. sstep1 E cs I3.
  sstep2 E sigs srest S1. sif E Cfin.
  apply andb_true_iff in Cfin. destruct Cfin as [Cfin Cfit].
  apply andb_true_iff in Cfin. destruct Cfin as [Cfin Cc0].
  apply andb_true_iff in Cfin. destruct Cfin as [Cs0 Ccnt].
  apply N.eqb_eq in Cs0, Ccnt. apply negb_true_iff, N.eqb_neq in Cc0. subst sigs.
  unfold sizes_fit in Cfit. apply andb_true_iff in Cfit. destruct Cfit as [Ctot Cul].
  apply N.leb_le in Ctot.
  assert (Hul : Forall (fun c => c_ulen c <= SSIZE_MAX) cs).
  { apply Forall_forall. intros c Hc. apply N.leb_le. rewrite forallb_forall in Cul. apply Cul, Hc. }
  (* sizes *)
  pose proof (dsize_bounds _ _ Eds) as Bds.
  destruct (spec_ci_int_inv _ _ _ T1) as (n1 & _ & N1 & _ & _ & Ef2).
  rewrite skipn_at_off in Ef2.
  destruct (spec_ci_inv _ _ _ T2) as (n2 & _ & N2 & _ & _ & Ef3).
  rewrite Ef2, skipn_at_off in Ef3.
  destruct (spec_take_inv _ _ _ _ T3) as (L3 & _ & Ef4).
  rewrite Ef3, len_at_off in L3.
  change (skipn (N.to_nat ds) f3) with (at_off f3 ds) in Ef4. rewrite Ef3, at_off_add in Ef4.
  destruct (spec_take_inv _ _ _ _ T4) as (L4 & Ehdr & _).
  rewrite Ef4, len_at_off in L4.
  destruct (spec_take_inv _ _ _ _ P1) as (L5 & _ & _).
  assert (Lhdr : len hdr = hlen).
  { rewrite Ehdr, len_firstn_le; [reflexivity|]. rewrite Ef4, len_at_off. lia. }
  rewrite Lhdr in L5.
  assert (H25 : 25 <= len f) by lia.
  (* lead *)
  destruct (read_lead_complete f ht ds hlen f2 f3 hdg f4 Hwf H25 Cm T1 Eds T2 T3)
    as (l2 & B5 & B25 & Bl & -> & -> & RL).
  set (L := mkLead _ _ _ _ _ _ _ _) in RL.
  rewrite !len_at_off in *.
  replace (len f - (len f - l2)) with l2 in * by lia.
  replace (len f - (len f - (l2 + ds))) with (l2 + ds) in * by lia.
  destruct (spec_take_inv _ _ _ _ T4) as (L4' & _ & _). rewrite len_at_off in L4'.
  (* header *)
  assert (RH : read_header_from_file H L f = POk (firstn (N.to_nat (l_size L + l_hlen L)) f)).
  { apply read_header_complete; unfold L; cbn [l_size l_hlen l_loaded l_dloc l_hash l_hdigest];
      try lia.
    - unfold SSIZE_MAX in Ctot. unfold two64. lia.
    - destruct (N.ltb_spec 25 (l2 + ds)); lia.
    - exact Cdg. }
  set (hb := firstn (N.to_nat (l_size L + l_hlen L)) f) in *.
  assert (Hwfb : wf_bytes hb) by (apply wf_firstn; exact Hwf).
  assert (Hhb : len hb = l_size L + l_hlen L)
    by (apply len_firstn_le; unfold L; cbn [l_size l_hlen]; lia).
  assert (Ehb : hdr = at_off hb (l_size L)).
  { unfold hb. rewrite at_off_firstn_sub. unfold L; cbn [l_size l_hlen]. exact Ehdr. }
  clear Ehdr. subst hdr.
  (* preface *)
  destruct (read_preface_complete L hb ddg p1 flags p2 comp p3 p5 isz p6 Hwfb Hhb P1 P2 Cf1 Cf8
              P3 Cc Po P4) as (l4 & RP & -> & B4).
  set (PF := mkPreface ddg flags comp l4 isz) in *.
  destruct (spec_take_inv _ _ _ _ T5) as (L6 & _ & _).
  rewrite len_at_off, Hhb in L6.
  assert (Hfit : pf_size PF + pf_indexsize PF <= l_hlen L)
    by (unfold PF, L in *; cbn [pf_size pf_indexsize l_hlen l_size] in *; lia).
  rewrite spec_take_at in T5 by (rewrite Hhb; unfold L in *; cbn [l_size l_hlen] in *; lia).
  assert (idx = reg hb (l_size L + pf_size PF) (pf_indexsize PF) 0 /\
          p7 = at_off hb (l_size L + pf_size PF + pf_indexsize PF)) as [-> ->]
    by (unfold PF; cbn [pf_size pf_indexsize]; rewrite reg_0; split; congruence).
  assert (RI : read_index L PF hb = POk (cht, count, cs)).
  { apply (read_index_complete L PF hb cht i1 cds count i2 cs Hwfb Hhb Hfit I1 Ecds I2 I3 Ccnt Cc0);
      [|exact Hul]. unfold L; cbn [l_size l_hlen]. exact Ctot. }
  pose proof (read_sig_complete L PF hb srest Hwfb Hhb Hfit S1) as RS.
  unfold parse_impl. rewrite RL. cbn [pbind]. rewrite RH. cbn [pbind]. rewrite RP. cbn [pbind].
  rewrite RI. cbn [pbind]. rewrite RS. cbn [pbind].
  unfold L, PF. cbn [l_detached l_hash l_size l_hlen l_hdigest pf_ddigest pf_flags pf_comp
                     pf_size pf_indexsize].
  rewrite len_at_off, Hhb in E. unfold L in E, B4. cbn [l_size l_hlen] in E, B4.
  replace (hlen - (l2 + ds + hlen - (l2 + ds + l4))) with l4 in E by lia.
  congruence.
Qed.

(** the model decides the specification *)
Theorem parse_impl_decides f :
  wf_bytes f ->
  parse_impl H no_pins f = match parse_spec H f with Some h => POk h | None => PErr end.
Proof.
  intros Hwf. destruct (parse_spec H f) as [h|] eqn:S.
  - apply parse_spec_implies_impl; assumption.
  - destruct (parse_impl H no_pins f) as [h| | |] eqn:E.
    + rewrite (parse_impl_refines_spec H no_pins f h Hwf E) in S. discriminate.
    + reflexivity.
    + exfalso. apply (proj1 (parse_impl_total H no_pins f)). exact E.
    + exfalso. apply (proj2 (parse_impl_total H no_pins f)). exact E.
Qed.

End Complete.
