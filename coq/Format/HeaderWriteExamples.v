(** Non-vacuity of the writer-side header theorems: concrete files under the toy hash of
    Format/ParseExamples.v, evaluated by [vm_compute]. *)
From ZV Require Import Base.Bytes Gen.GenConsts Format.Compint Format.Header Format.ParseImpl
                       Format.ParseExamples Format.HeaderWrite.
Local Open Scope N_scope.

(** three entries: the empty dictionary entry and two data chunks (5 and 200 stored bytes,
    the second with a two-byte compressed integer as its size) *)
Definition exw_cfg : wcfg := mkWcfg 1 3 0 false.          (* SHA-256 / SHA-512/128, no compression *)
Definition exw_chunks : list wchunk :=
  [ mkWchunk (zeros 16) (zeros 16) [] 0;
    mkWchunk (toyH 3 (bseq 1 5)) (toyH 3 (bseq 1 5)) (bseq 1 5) 5;
    mkWchunk (toyH 3 (bseq 7 200)) (toyH 3 (bseq 7 200)) (bseq 7 200) 200 ].

Example exw_ok : wfile_ok exw_cfg exw_chunks = true.
Proof. vm_compute. reflexivity. Qed.

Example exw_parses :
  parse_impl toyH no_pins (file_create toyH exw_cfg exw_chunks) =
  POk (expected_header toyH exw_cfg exw_chunks).
Proof. vm_compute. reflexivity. Qed.

Example exw_spec :
  parse_spec toyH (file_create toyH exw_cfg exw_chunks) =
  Some (expected_header toyH exw_cfg exw_chunks).
Proof. vm_compute. reflexivity. Qed.

(** the expected header is the intended one, in numbers *)
Example exw_numbers :
  let h := expected_header toyH exw_cfg exw_chunks in
  h_detached h = false /\ h_hash h = 1 /\ h_chash h = 3 /\ h_flags h = 0 /\ h_comp h = 0 /\
  h_count h = 3 /\ h_lead h = 39 /\ h_prefsize h = 35 /\ h_indexsize h = 58 /\ h_hlen h = 94 /\
  map c_clen (h_chunks h) = [0; 5; 200] /\ map c_ulen (h_chunks h) = [0; 5; 200] /\
  map c_start (h_chunks h) = [0; 0; 5] /\ map c_udigest (h_chunks h) = [None; None; None] /\
  len (file_create toyH exw_cfg exw_chunks) = 39 + 94 + 205.
Proof. vm_compute. repeat split. Qed.

(** the same with the uncompressed-source flag, zstd as compression type, a dictionary
    entry with stored bytes, SHA-256 chunk checksums; the data digest is zeroed *)
Definition exu_cfg : wcfg := mkWcfg 3 1 2 true.
Definition exu_chunks : list wchunk :=
  [ mkWchunk (toyH 1 (bseq 100 9)) (toyH 1 []) (bseq 100 9) 30;
    mkWchunk (toyH 1 (bseq 1 5)) (toyH 1 (bseq 50 11)) (bseq 1 5) 11;
    mkWchunk (toyH 1 (bseq 7 130)) (toyH 1 (bseq 60 140)) (bseq 7 130) 140 ].

Example exu_ok : wfile_ok exu_cfg exu_chunks = true.
Proof. vm_compute. reflexivity. Qed.

Example exu_parses :
  parse_impl toyH no_pins (file_create toyH exu_cfg exu_chunks) =
  POk (expected_header toyH exu_cfg exu_chunks).
Proof. vm_compute. reflexivity. Qed.

Example exu_spec :
  parse_spec toyH (file_create toyH exu_cfg exu_chunks) =
  Some (expected_header toyH exu_cfg exu_chunks).
Proof. vm_compute. reflexivity. Qed.

Example exu_numbers :
  let h := expected_header toyH exu_cfg exu_chunks in
  h_hash h = 3 /\ h_chash h = 1 /\ h_flags h = 4 /\ h_comp h = 2 /\ h_count h = 3 /\
  h_ddigest h = zeros 16 /\
  map c_clen (h_chunks h) = [9; 5; 130] /\ map c_ulen (h_chunks h) = [30; 11; 140] /\
  map c_start (h_chunks h) = [0; 9; 14] /\
  map c_udigest (h_chunks h) = [Some (toyH 1 []); Some (toyH 1 (bseq 50 11)); Some (toyH 1 (bseq 60 140))].
Proof. vm_compute. repeat split. Qed.

(** the precondition is not decoration: an empty entry list is refused by the reader *)
Example exw_empty_rejected :
  wfile_ok exw_cfg [] = false /\
  parse_impl toyH no_pins (file_create toyH exw_cfg []) = PErr.
Proof. vm_compute. split; reflexivity. Qed.

(** ... and so is a declared size above SSIZE_MAX *)
Example exw_huge_rejected :
  let cs := [mkWchunk (zeros 16) (zeros 16) [] 9223372036854775808] in
  wfile_ok exw_cfg cs = false /\ parse_impl toyH no_pins (file_create toyH exw_cfg cs) = PErr.
Proof. vm_compute. split; reflexivity. Qed.

(** * The bridge on a concrete run of the chunker (manual mode, no compression) *)
From ZV Require Import Chunk.Buzhash Chunk.Writer Read.ReadSpec Format.WriteRead.

Definition exb_ops : list wop := [OpWrite [1; 2; 3]; OpEnd; OpWrite [4; 5]; OpWrite []; OpEnd; OpWrite [6]].
Definition exb_id (d : option bytes) (x : bytes) : bytes := x.
Definition exb_nodec (d : option bytes) (s : bytes) (cap : N) : option bytes := None.

Example exb_chunks :
  write_file (comp_init_cfg true 0 0) exb_ops = Some [[1; 2; 3]; [4; 5]; [6]].
Proof. vm_compute. reflexivity. Qed.

Example exb_roundtrip :
  let F := [[1; 2; 3]; [4; 5]; [6]] in
  let E := written_entries toyH exb_id exw_cfg None F in
  let f := written_file toyH exb_id exw_cfg None F in
  let h := expected_header toyH exw_cfg E in
  wfile_ok exw_cfg E = true /\
  parse_impl toyH no_pins f = POk h /\
  spec_verify toyH h f = true /\
  spec_read toyH exb_nodec h f = Some [1; 2; 3; 4; 5; 6].
Proof. vm_compute. repeat split. Qed.

(** with a dictionary and the uncompressed-source flag *)
Example exb_roundtrip_dict :
  let F := [[1; 2; 3]; [4; 5]; [6]] in
  let wc := mkWcfg 1 1 0 true in
  let E := written_entries toyH exb_id wc (Some [9; 9; 9; 9]) F in
  let f := written_file toyH exb_id wc (Some [9; 9; 9; 9]) F in
  let h := expected_header toyH wc E in
  wfile_ok wc E = true /\
  parse_impl toyH no_pins f = POk h /\
  spec_verify toyH h f = true /\
  spec_read toyH exb_nodec h f = Some [1; 2; 3; 4; 5; 6] /\
  spec_chunk_data exb_nodec h f 0 = Some [9; 9; 9; 9].
Proof. vm_compute. repeat split. Qed.

(** * The index-size asymmetry is reachable: 2^27 entries of 18 bytes give an index of more
    than INT_MAX bytes in a file of about 2.4 GB, far below SSIZE_MAX.  The writer model
    produces it, the reader model refuses it (the list is never built: the sizes are
    computed symbolically). *)
From ZV Require Import Format.CompintProofs Format.ParseLemmas Format.HeaderWriteProofs.
From Coq Require Import ZifyBool ZifyN ZifyNat.

Lemma toyH_len t m d : dsize t = Some d -> len (toyH t m) = d.
Proof. intros E. unfold toyH, len. rewrite E, map_length, seq_length. lia. Qed.

Lemma toyH_wf t m : wf_bytes (toyH t m).
Proof.
  unfold toyH. destruct (dsize t); [|constructor]. apply Forall_forall. intros x Hx.
  apply in_map_iff in Hx. destruct Hx as (i & <- & _). apply N.mod_lt. discriminate.
Qed.

Definition big_entry : wchunk := mkWchunk (zeros 16) (zeros 16) [] 0.
Definition big_n : N := 134217728.

Lemma len_entries_repeat n :
  len (index_entries false (repeat big_entry n)) = 18 * N.of_nat n.
Proof.
  unfold index_entries. induction n as [|n IH]; [reflexivity|].
  cbn [repeat flat_map]. rewrite len_app, IH.
  change (len (index_entry false big_entry)) with 18. lia.
Qed.

Lemma body_repeat n : file_body (repeat big_entry n) = [].
Proof. unfold file_body. induction n as [|n IH]; [reflexivity|]. cbn [repeat map concat]. exact IH. Qed.

(** stated for any list length [n] with [N.of_nat n = 2^27] so that nothing ever evaluates
    the unary number *)
Theorem big_index_written_but_rejected (n : nat) :
  N.of_nat n = big_n ->
  let cs := repeat big_entry n in
  lead_size exw_cfg cs + header_length exw_cfg cs + len (file_body cs) <= SSIZE_MAX /\
  INT_MAX < index_size exw_cfg cs /\
  parse_impl toyH no_pins (file_create toyH exw_cfg cs) = PErr.
Proof.
  intros Hn cs.
  assert (Hds : dsize (w_hash exw_cfg) = Some 32) by reflexivity.
  assert (Hidx : 18 * big_n <= index_size exw_cfg cs <= 18 * big_n + 20).
  { unfold index_size, index_create. rewrite !len_app.
    change (w_uflag exw_cfg) with false. unfold cs. rewrite len_entries_repeat, Hn.
    pose proof (ci_len (w_chash exw_cfg)). pose proof (ci_len (N.of_nat (length (repeat big_entry n)))). lia. }
  assert (Hb : len (file_body cs) = 0) by (unfold cs; rewrite body_repeat; reflexivity).
  assert (Hsz : lead_size exw_cfg cs + header_length exw_cfg cs + len (file_body cs) <= SSIZE_MAX).
  { rewrite Hb, (lead_size_eq exw_cfg cs 32 Hds), len_lead_pre.
    unfold header_length at 2. rewrite (preface_size_eq exw_cfg cs 32 Hds).
    pose proof (ci_len (w_hash exw_cfg)). pose proof (ci_len (header_length exw_cfg cs)).
    pose proof (ci_len (get_flags exw_cfg)). pose proof (ci_len (w_comp exw_cfg)).
    pose proof (ci_len (index_size exw_cfg cs)).
    change (len sig_create) with 1.
    assert (18 * big_n + 20 <= 4294967296) by (vm_compute; discriminate).
    assert (4294967296 + 200 <= SSIZE_MAX) by (vm_compute; discriminate). lia. }
  assert (Hbig : INT_MAX < index_size exw_cfg cs).
  { assert (INT_MAX < 18 * big_n) by reflexivity. lia. }
  split; [exact Hsz|]. split; [exact Hbig|].
  apply (written_file_index_over_int_max_rejected toyH exw_cfg cs 32 toyH_len toyH_wf Hds);
    [left; reflexivity| |exact Hsz|exact Hbig].
  unfold cs. apply Forall_forall. intros x Hx. apply repeat_spec in Hx. subst x.
  unfold wchunk_wf, big_entry. cbn [wc_digest wc_udigest wc_data].
  repeat split; try apply wf_zeros. constructor.
Qed.

Corollary big_index_instance :
  exists cs : list wchunk,
    lead_size exw_cfg cs + header_length exw_cfg cs + len (file_body cs) <= SSIZE_MAX /\
    parse_impl toyH no_pins (file_create toyH exw_cfg cs) = PErr.
Proof.
  exists (repeat big_entry (N.to_nat big_n)).
  destruct (big_index_written_but_rejected (N.to_nat big_n) (N2Nat.id big_n)) as (A & _ & C).
  split; [exact A|exact C].
Qed.
