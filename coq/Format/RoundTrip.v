(** The full round trip of property C01 on the models: writer (chunker + header creation)
    followed by the reader (header parse + comp_read loop), for every buffer-size sequence.
    Composition of [roundtrip_from_chunker] (Format/WriteRead.v) with the reader completeness
    theorem [read_complete] (Read/ReadComplete.v). *)
From ZV Require Import Base.Bytes Gen.GenConsts Format.Header Format.ParseImpl Format.ParseProofs
     Format.HeaderWrite Format.HeaderWriteProofs Format.WriteRead Chunk.Writer Chunk.WriterProofs Chunk.WriterChunks
     Read.ReadSpec Read.CompRead Read.ReadProofs Read.ReadComplete.
Local Open Scope N_scope.

Theorem write_then_read_roundtrip
  (H : N -> bytes -> bytes) (zcomp : option bytes -> bytes -> bytes)
  (zdecomp : option bytes -> bytes -> N -> option bytes)
  (wc : wcfg) (dict : option bytes) manual mn mx (ops : list wop) (F : list bytes) ds cds fuel sizes :
  (forall t m d, dsize t = Some d -> len (H t m) = d) ->
  (forall t m, wf_bytes (H t m)) ->
  (forall d x, wf_bytes x -> wf_bytes (zcomp d x)) ->
  (forall d x, x <> [] -> zcomp d x <> []) ->
  dsize (w_hash wc) = Some ds -> dsize (w_chash wc) = Some cds ->
  (w_comp wc = ZCK_COMP_NONE \/ w_comp wc = ZCK_COMP_ZSTD) ->
  (w_comp wc = ZCK_COMP_NONE -> forall d x, zcomp d x = x) ->
  (w_comp wc = ZCK_COMP_ZSTD -> forall d x, zdecomp d (zcomp d x) (len x) = Some x) ->
  match dict with Some d => d <> [] /\ wf_bytes d | None => True end ->
  legal_opts mn mx -> Forall (fun o => wf_bytes (op_bytes o)) ops ->
  write_file (comp_init_cfg manual mn mx) ops = Some F ->
  wfile_ok wc (written_entries H zcomp wc dict F) = true ->
  let f := written_file H zcomp wc dict F in
  let D := concat (map op_bytes ops) in
  exists h,
    parse_impl H no_pins f = POk h /\
    ((fuel_bound h f <= fuel)%nat -> Forall (fun n => 0 < n) sizes ->
     match read_all H zdecomp h fuel (open_state h f) sizes [] with
     | (out, e, st') =>
         e <> Some false /\
         (e = Some true -> out = D /\ fst (zck_close H h st') = true) /\
         (len D < N.of_nat (length sizes) -> e = Some true)
     end).
Proof.
  intros Hl Hw Zw Zn Hds Hcds Hc Hn Hz Hd Hlo Hops Hwr Hok f D.
  destruct (roundtrip_from_chunker H zcomp zdecomp wc dict manual mn mx ops F ds cds
              Hl Hw Zw Zn Hds Hcds Hc Hn Hz Hd Hlo Hops Hwr Hok) as (Hp & _ & Hv & Hdec & _).
  eexists. split; [exact Hp|].
  intros Hfuel Hsizes.
  (* the chunks are non-empty and well-formed, hence so is the written file *)
  destruct (comp_init_file_total manual mn mx ops Hlo Hops) as (F' & HF' & Hcat).
  assert (F' = F) by congruence. subst F'.
  assert (HFw : Forall wf_bytes F).
  { apply wf_concat_inv. rewrite Hcat. apply wf_concat.
    apply Forall_forall. intros x Hx. apply in_map_iff in Hx. destruct Hx as (o & <- & Ho).
    rewrite Forall_forall in Hops. apply Hops, Ho. }
  pose proof (write_file_chunks_nonempty manual mn mx ops F Hlo Hwr) as HFn.
  assert (HF : Forall (fun ch : bytes => ch <> [] /\ wf_bytes ch) F).
  { rewrite Forall_forall in *. intros x Hx. split; [apply HFn|apply HFw]; exact Hx. }
  destruct (opens H zcomp Hl Hw Zw wc dict F ds cds Hds Hcds Hc Hd HF Hok) as (_ & _ & Hwf).
  destruct (header_facts H no_pins _ _ Hwf Hp) as (A & B & C).
  exact (read_complete H zdecomp _ _ D fuel sizes A B C Hv Hdec Hfuel Hsizes).
Qed.
