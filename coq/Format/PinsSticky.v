(** C07: an accepted digest pin cannot be lost by later calls on the same context.

    Over every sequence of option calls and zck_clear_error calls: as long as the context is usable (no fatal
    error), the prepared digest is the value of the last accepted digest option, or none if none was accepted.
    In particular a refused second digest attempt (wrong length, non-hex) can never leave a usable context
    without the pin that was accepted before: either the old pin is still there (recoverable refusals) or the
    context is dead for good (fatal refusals: [ClearErr] fails on them). *)
From ZV Require Import Base.Bytes Gen.GenConsts Format.Header Format.ParseImpl Format.Pins.
From Coq Require Import ZifyBool ZifyN ZifyNat.
Local Open Scope Z_scope.

Definition usable (st : prep) : Prop := (pr_err st <= 1)%N.

(** the digest an accepted call stores *)
Definition accepted_digest (o : popt) (r : bool) : option bytes :=
  match o with
  | SetDigest s => if r then ascii_checksum_to_bin s else None
  | _ => None
  end.

(** one call: on a context that is still usable afterwards, the prepared digest changes only by an accepted
    digest option, and then to exactly the decoded string *)
Lemma set_opt_digest_step st o :
  usable (fst (set_opt st o)) ->
  usable st /\
  pr_digest (fst (set_opt st o)) =
    match accepted_digest o (snd (set_opt st o)) with
    | Some d => Some d
    | None => pr_digest st
    end.
Proof.
  unfold usable, set_opt. destruct o as [v|v|s|].
  - destruct (0 <? pr_err st)%N eqn:He; cbn [fst snd accepted_digest].
    + intros H. split; [exact H|reflexivity].
    + destruct (v <? 0) eqn:Hv; cbn [fst snd pr_err pr_digest].
      * intros _. split; [lia|reflexivity].
      * destruct (2147483647 <? v) eqn:Hbig; cbn [fst snd pr_err pr_digest].
        { intros _. split; [lia|reflexivity]. }
        destruct (pr_digest st) eqn:Hd; cbn [fst snd pr_err pr_digest]; intros _; (split; [lia|]); congruence.
  - destruct (0 <? pr_err st)%N eqn:He; cbn [fst snd accepted_digest].
    + intros H. split; [exact H|reflexivity].
    + destruct (v <? 0) eqn:Hv; cbn [fst snd pr_err pr_digest]; intros _; (split; [lia|reflexivity]).
  - destruct (0 <? pr_err st)%N eqn:He; cbn [fst snd accepted_digest].
    + intros H. split; [exact H|reflexivity].
    + destruct (pr_type st <? 0) eqn:Ht; cbn [fst snd pr_err pr_digest accepted_digest].
      * intros _. split; [lia|reflexivity].
      * destruct (dsize (Z.to_N (pr_type st))) as [ds|] eqn:Hds; cbn [fst snd pr_err pr_digest accepted_digest].
        2:{ intros _. split; [lia|reflexivity]. }
        destruct (negb (Z.of_N ds * 2 =? Z.of_nat (length s))) eqn:Hl; cbn [fst snd pr_err pr_digest accepted_digest].
        { intros H. exfalso. lia. }
        destruct (ascii_checksum_to_bin s) as [d|] eqn:Hd; cbn [fst snd pr_err pr_digest accepted_digest].
        -- intros _. split; [lia|]. reflexivity.
        -- intros H. exfalso. lia.
  - destruct (1 <? pr_err st)%N eqn:He; cbn [fst snd pr_err pr_digest accepted_digest].
    + intros H. split; [exact H|reflexivity].
    + intros _. split; [lia|reflexivity].
Qed.

(** the last accepted digest of a run, given the results of the calls *)
Fixpoint last_accepted (ops : list popt) (rs : list bool) (acc : option bytes) : option bytes :=
  match ops, rs with
  | o :: ops', r :: rs' =>
      last_accepted ops' rs' (match accepted_digest o r with Some d => Some d | None => acc end)
  | _, _ => acc
  end.

Definition run_from (st : prep) (ops : list popt) : prep * list bool :=
  fold_left (fun '(st, rs) o => let '(st', r) := set_opt st o in (st', rs ++ [r])) ops (st, []).

Lemma fold_results_app ops : forall st rs0,
  fold_left (fun '(st, rs) o => let '(st', r) := set_opt st o in (st', rs ++ [r])) ops (st, rs0) =
  (fst (run_from st ops), rs0 ++ snd (run_from st ops)).
Proof.
  induction ops as [|o ops IH]; intros st rs0; cbn [fold_left run_from fst snd].
  - rewrite app_nil_r. reflexivity.
  - unfold run_from. cbn [fold_left]. destruct (set_opt st o) as [st' r] eqn:E.
    rewrite (IH st' (rs0 ++ [r])). rewrite (IH st' ([] ++ [r])). cbn [fst snd app].
    rewrite <- app_assoc. reflexivity.
Qed.

Lemma run_from_cons st o ops :
  run_from st (o :: ops) =
  (fst (run_from (fst (set_opt st o)) ops), snd (set_opt st o) :: snd (run_from (fst (set_opt st o)) ops)).
Proof.
  unfold run_from at 1. cbn [fold_left]. destruct (set_opt st o) as [st' r] eqn:E.
  rewrite fold_results_app. cbn [fst snd app]. reflexivity.
Qed.

(** a fatal error is final *)
Lemma fatal_sticky st o : ~ usable st -> ~ usable (fst (set_opt st o)).
Proof.
  intros Hn Hu. apply set_opt_digest_step in Hu. tauto.
Qed.

Lemma run_usable_back ops : forall st, usable (fst (run_from st ops)) -> usable st.
Proof.
  induction ops as [|o ops IH]; intros st Hu.
  - exact Hu.
  - rewrite run_from_cons in Hu. cbn [fst] in Hu. apply IH in Hu.
    apply set_opt_digest_step in Hu. tauto.
Qed.

Theorem pin_sticky_from ops : forall st,
  usable (fst (run_from st ops)) ->
  pr_digest (fst (run_from st ops)) = last_accepted ops (snd (run_from st ops)) (pr_digest st).
Proof.
  induction ops as [|o ops IH]; intros st Hu.
  - reflexivity.
  - rewrite run_from_cons in *. cbn [fst snd] in *. cbn [last_accepted].
    rewrite (IH _ Hu). f_equal.
    apply run_usable_back in Hu. apply set_opt_digest_step in Hu. destruct Hu as [_ Hd]. exact Hd.
Qed.

Lemma set_opts_run ops : set_opts ops = run_from prep_init ops.
Proof. reflexivity. Qed.

(** the statement for a fresh context *)
Theorem pin_sticky ops :
  usable (fst (set_opts ops)) ->
  pr_digest (fst (set_opts ops)) = last_accepted ops (snd (set_opts ops)) None.
Proof. rewrite set_opts_run. apply (pin_sticky_from ops prep_init). Qed.

(** corollary in the shape of the seeded change C07-6: pin accepted, any later calls (refused digest
    attempts, clear-error calls, ...) none of which is an accepted digest: the context is dead or the pin is
    still the accepted one *)
Fixpoint none_accepted (ops : list popt) (rs : list bool) : Prop :=
  match ops, rs with
  | o :: ops', r :: rs' => accepted_digest o r = None /\ none_accepted ops' rs'
  | _, _ => True
  end.

Lemma last_accepted_none ops : forall rs acc, none_accepted ops rs -> last_accepted ops rs acc = acc.
Proof.
  induction ops as [|o ops IH]; intros rs acc H; [reflexivity|].
  destruct rs as [|r rs]; [reflexivity|]. cbn [last_accepted none_accepted] in *.
  destruct H as [Ha Hr]. rewrite Ha. apply IH. exact Hr.
Qed.

Theorem pin_survives st d later :
  pr_digest st = Some d ->
  none_accepted later (snd (run_from st later)) ->
  usable (fst (run_from st later)) ->
  pr_digest (fst (run_from st later)) = Some d.
Proof.
  intros Hd Hn Hu. rewrite (pin_sticky_from later st Hu). rewrite last_accepted_none by exact Hn. exact Hd.
Qed.
