(** Writer side of the header layer: faithful model of header creation in
    /repo/src/lib/header.c (header_create, preface_create, sig_create, lead_create,
    get_flags) and /repo/src/lib/index/index_create.c (index_create), as called by
    zck_close in write mode, and of the file zck_close produces (write_header followed by
    chunks_from_temp).  Definitions only.

    What the writer has accumulated when zck_close runs is a configuration and the list of
    finished index entries; entry 0 is always the dictionary entry made by comp_init (the
    dictionary compressed without dictionary, or an entry without stored bytes, with sizes
    0/0 and an all-zero digest when no dictionary is set).

    The strings are built separately and concatenated by header_create, exactly as the C
    does; the header checksum is computed over the lead up to the digest position followed
    by the rest of the header, and then copied over the (zero-initialised) digest field. *)
From ZV Require Import Base.Bytes Gen.GenConsts Format.Compint Format.Header.
Local Open Scope N_scope.

(** the writer's configuration that reaches the header *)
Record wcfg := mkWcfg {
  w_hash : N;      (* zck->hash_type.type : overall checksum type *)
  w_chash : N;     (* zck->index.hash_type = zck->chunk_hash_type.type *)
  w_comp : N;      (* zck->comp.type : 0 (none) or 2 (zstd) *)
  w_uflag : bool   (* zck->has_uncompressed_source *)
}.

(** one finished index entry (zckChunk) and the bytes stored for it in the temp file *)
Record wchunk := mkWchunk {
  wc_digest : bytes;    (* item->digest, index.digest_size bytes *)
  wc_udigest : bytes;   (* item->digest_uncompressed *)
  wc_data : bytes;      (* the stored bytes; item->comp_length = len wc_data *)
  wc_ulen : N           (* item->length *)
}.

Definition zeros (n : N) : bytes := repeat 0 (N.to_nat n).

(** hash_type.digest_size as hash_setup assigns it *)
Definition digest_size (t : N) : N := match dsize t with Some d => d | None => 0 end.

(** index_finish_chunk: the entry of a finished chunk.  A chunk of (uncompressed) length 0
    gets zero-filled digests (zmalloc); otherwise the digest is the finalized hash of the
    stored bytes fed by index_add_to_chunk, and the uncompressed digest the finalized hash
    of what comp_write fed to work_index_hash_uncomp ([usrc]: the source bytes when
    has_uncompressed_source is set; nothing for the dictionary chunk, which comp_init
    passes to index_add_to_chunk directly). *)
Definition finish_chunk (H : N -> bytes -> bytes) (chash : N) (stored usrc : bytes) (ulen : N)
  : wchunk :=
  if 0 <? ulen then mkWchunk (H chash stored) (H chash usrc) stored ulen
  else mkWchunk (zeros (digest_size chash)) (zeros (digest_size chash)) stored ulen.

(** zck_set_ioption(ZCK_UNCOMP_HEADER): sets has_uncompressed_source and replaces a chunk
    checksum type of SHA-1 or SHA-512/128 by SHA-256 (a later ZCK_HASH_CHUNK_TYPE is not
    checked again) *)
Definition uncomp_header_option (chash : N) : N :=
  if (chash =? ZCK_HASH_SHA1) || (chash =? ZCK_HASH_SHA512_128) then ZCK_HASH_SHA256 else chash.

(** compint_from_int on a non-negative [int] field of the context (comp.type,
    sigs.count).  The refusing branch of compint_from_int cannot be taken for these
    values ([from_int_eq] in the proofs); it is kept so that the call is the model of
    compint.c, not a re-statement. *)
Definition from_int (v : N) : bytes :=
  match ci_from_int (Z.of_N v) with Some b => b | None => [] end.

(** get_flags: the writer never sets has_streams nor has_optional_elems *)
Definition get_flags (cfg : wcfg) : N := if w_uflag cfg then 4 else 0.

(** index_create, one iteration of the [while(tmp)] loop *)
Definition index_entry (uflag : bool) (c : wchunk) : bytes :=
  wc_digest c ++ (if uflag then wc_udigest c else []) ++
  ci_from_size (len (wc_data c)) ++ ci_from_size (wc_ulen c).

Definition index_entries (uflag : bool) (chunks : list wchunk) : bytes :=
  flat_map (index_entry uflag) chunks.

(** index_create: chunk checksum type, index.count, the entries *)
Definition index_create (cfg : wcfg) (chunks : list wchunk) : bytes :=
  ci_from_size (w_chash cfg) ++ ci_from_size (N.of_nat (length chunks)) ++
  index_entries (w_uflag cfg) chunks.

(** the data checksum as index_create leaves it in zck->full_hash_digest: the finalized
    running hash, overwritten with zeros when has_uncompressed_source is set *)
Definition full_digest (cfg : wcfg) (finalized : bytes) : bytes :=
  if w_uflag cfg then zeros (digest_size (w_hash cfg)) else finalized.

(** preface_create: data digest, flags, compression type, index size *)
Definition preface_create (cfg : wcfg) (ddigest : bytes) (index_size : N) : bytes :=
  ddigest ++ ci_from_size (get_flags cfg) ++ from_int (w_comp cfg) ++ ci_from_size index_size.

(** sig_create: the signature count (always 0; signatures are not implemented) *)
Definition sig_create : bytes := from_int 0.

(** lead_create: magic, overall checksum type, header length, and a digest field that
    zmalloc left zeroed.  Returns the lead string and hdr_digest_loc. *)
Definition lead_create (cfg : wcfg) (header_length : N) : bytes * N :=
  let pre := magic_zck ++ ci_from_size (w_hash cfg) ++ ci_from_size header_length in
  (pre ++ zeros (digest_size (w_hash cfg)), len pre).

Section Writer.
Variable H : N -> bytes -> bytes.

(** header_create.  [finalized] is hash_finalize(full_hash). *)
Definition header_create (cfg : wcfg) (finalized : bytes) (chunks : list wchunk) : bytes :=
  let index := index_create cfg chunks in
  let preface := preface_create cfg (full_digest cfg finalized) (len index) in
  let sig := sig_create in
  let header_length := len preface + len index + len sig in
  let '(lead, dloc) := lead_create cfg header_length in
  (* "Merge everything into one large string" *)
  let merged := lead ++ preface ++ index ++ sig in
  (* hash_update(lead_string, hdr_digest_loc); hash_update(preface_string, header_length) *)
  let dg := H (w_hash cfg) (firstn (N.to_nat dloc) lead ++
                            sub merged (len lead) header_length) in
  (* memcpy(lead_string + hdr_digest_loc, header_digest, digest_size) *)
  firstn (N.to_nat dloc) merged ++ firstn (N.to_nat (digest_size (w_hash cfg))) dg ++
  skipn (N.to_nat (dloc + digest_size (w_hash cfg))) merged.

(** the stored bytes in file order: chunks_from_temp copies the temp file, which received
    the stored bytes of every entry in order (comp_init, comp_write, comp_end_chunk) *)
Definition file_body (chunks : list wchunk) : bytes := concat (map wc_data chunks).

(** index_add_to_chunk feeds full_hash with the stored bytes of every entry, the
    dictionary entry included (not at all when has_uncompressed_source is set: the digest is
    zeroed anyway) *)
Definition data_digest (cfg : wcfg) (chunks : list wchunk) : bytes :=
  H (w_hash cfg) (file_body chunks).

(** zck_close: header_create, write_header, chunks_from_temp *)
Definition file_create (cfg : wcfg) (chunks : list wchunk) : bytes :=
  header_create cfg (data_digest cfg chunks) chunks ++ file_body chunks.
End Writer.

(** * What the reader is expected to report for such a file *)
Fixpoint chunk_table (uflag : bool) (start : N) (cs : list wchunk) : list chunk :=
  match cs with
  | [] => []
  | c :: r =>
      mkChunk (wc_digest c) (if uflag then Some (wc_udigest c) else None)
              (len (wc_data c)) (wc_ulen c) start
      :: chunk_table uflag (start + len (wc_data c)) r
  end.

(** sizes of the strings; they do not depend on the digests' values *)
Definition index_size (cfg : wcfg) (chunks : list wchunk) : N := len (index_create cfg chunks).
Definition preface_size (cfg : wcfg) (chunks : list wchunk) : N :=
  len (preface_create cfg (zeros (digest_size (w_hash cfg))) (index_size cfg chunks)).
Definition header_length (cfg : wcfg) (chunks : list wchunk) : N :=
  preface_size cfg chunks + index_size cfg chunks + len sig_create.
Definition lead_size (cfg : wcfg) (chunks : list wchunk) : N :=
  len (fst (lead_create cfg (header_length cfg chunks))).

Section Expected.
Variable H : N -> bytes -> bytes.

Definition header_rest (cfg : wcfg) (chunks : list wchunk) : bytes :=
  preface_create cfg (full_digest cfg (data_digest H cfg chunks)) (index_size cfg chunks) ++
  index_create cfg chunks ++ sig_create.

Definition header_digest (cfg : wcfg) (chunks : list wchunk) : bytes :=
  H (w_hash cfg)
    (magic_zck ++ ci_from_size (w_hash cfg) ++ ci_from_size (header_length cfg chunks) ++
     header_rest cfg chunks).

Definition expected_header (cfg : wcfg) (chunks : list wchunk) : header :=
  mkHeader false (w_hash cfg) (lead_size cfg chunks) (header_length cfg chunks)
           (header_digest cfg chunks)
           (full_digest cfg (data_digest H cfg chunks))
           (get_flags cfg) (w_comp cfg) (w_chash cfg) (N.of_nat (length chunks))
           (chunk_table (w_uflag cfg) 0 chunks)
           (preface_size cfg chunks) (index_size cfg chunks).
End Expected.

(** * The precondition under which the reader accepts the file: every size the reader
    stores in an [ssize_t] fits, and the index size fits the [int] it is read into. *)
Definition wchunk_ok (cds : N) (uflag : bool) (c : wchunk) : bool :=
  (len (wc_digest c) =? cds) && (if uflag then len (wc_udigest c) =? cds else true) &&
  (wc_ulen c <=? SSIZE_MAX).

Definition wfile_ok (cfg : wcfg) (chunks : list wchunk) : bool :=
  match chunks with [] => false | _ => true end &&
  forallb (wchunk_ok (digest_size (w_chash cfg)) (w_uflag cfg)) chunks &&
  (lead_size cfg chunks + header_length cfg chunks + len (concat (map wc_data chunks)) <=? SSIZE_MAX) &&
  (index_size cfg chunks <=? INT_MAX).
