(** Proofs about the compressed-integer codec model. *)
From ZV Require Import Base.Bytes Gen.GenConsts Format.Compint.
From Coq Require Import ZifyBool ZifyN ZifyNat.
Ltac Zify.zify_post_hook ::= Z.div_mod_to_equations.
Local Open Scope N_scope.

Lemma max_comp_size_10 : MAX_COMP_SIZE = 10.
Proof. reflexivity. Qed.

Lemma last_shift_1 : last_shift = 1.
Proof. reflexivity. Qed.

Lemma pow128_succ c : 128 ^ (c + 1) = 128 * 128 ^ c.
Proof. rewrite N.add_1_r, N.pow_succ_r'. reflexivity. Qed.

Lemma pow128_pos c : 1 <= 128 ^ c.
Proof. pose proof (N.pow_nonzero 128 c). lia. Qed.

Lemma pow128_le9 c : c <= 9 -> 128 ^ c <= 9223372036854775808.
Proof.
  intros H. change 9223372036854775808 with (128 ^ 9).
  apply N.pow_le_mono_r; [discriminate | exact H].
Qed.

Lemma pow128_9 : 128 ^ 9 = 9223372036854775808.
Proof. reflexivity. Qed.

Lemma shiftr1_zero c : (N.shiftr c 1 =? 0) = (c <? 2).
Proof.
  rewrite N.shiftr_div_pow2. change (2 ^ 1) with 2.
  destruct (N.ltb_spec c 2) as [H|H]; apply N.eqb_eq || apply N.eqb_neq; lia.
Qed.

(** One unfolding of the loop, with the generated constants replaced by their values. *)
Lemma ci_loop_cons b suf ln maxlen val old count :
  ci_loop (b :: suf) ln maxlen val old count =
  if maxlen <=? ln then CErr else
    let done := 128 <=? b in
    let c := if done then b - 128 else b in
    if (count =? 9) && negb (c <? 2) then CErr else
    let val' := u64 (val + u64 (c * 128 ^ count)) in
    if done then COk val' (ln + 1)
    else if (10 <=? count + 1) || (val' <? old) then CErr
    else ci_loop suf (ln + 1) maxlen val' val' (count + 1).
Proof.
  cbn [ci_loop]. rewrite last_shift_1, max_comp_size_10.
  change (10 - 1) with 9. rewrite shiftr1_zero. reflexivity.
Qed.

Lemma ci_loop_nil ln maxlen val old count :
  ci_loop [] ln maxlen val old count = if maxlen <=? ln then CErr else COOB.
Proof. reflexivity. Qed.

(** No wrap happens on the path that is not rejected. *)
Lemma step_no_wrap val c count :
  count <= 9 -> val < 128 ^ count -> c < 128 -> (count = 9 -> c < 2) ->
  u64 (val + u64 (c * 128 ^ count)) = val + c * 128 ^ count /\
  val + c * 128 ^ count < two64 /\
  (count < 9 -> val + c * 128 ^ count < 128 ^ (count + 1)).
Proof.
  intros Hc Hv Hc128 H9.
  pose proof (pow128_le9 count Hc) as Hp. pose proof (pow128_pos count) as Hp1.
  set (p := 128 ^ count) in *.
  assert (Hcp : c * p < two64).
  { destruct (N.eq_dec count 9) as [E|E].
    - specialize (H9 E). subst count. unfold p. rewrite pow128_9. unfold two64. nia.
    - assert (Hlt : count <= 8) by lia.
      assert (Hp8 : p <= 128 ^ 8) by (apply N.pow_le_mono_r; [discriminate | exact Hlt]).
      change (128 ^ 8) with 72057594037927936 in Hp8. unfold two64. nia. }
  rewrite (u64_small (c * p)) by exact Hcp.
  assert (Hs : val + c * p < two64).
  { destruct (N.eq_dec count 9) as [E|E].
    - specialize (H9 E). unfold two64 in *. nia.
    - assert (Hlt : count <= 8) by lia.
      assert (Hp8 : p <= 128 ^ 8) by (apply N.pow_le_mono_r; [discriminate | exact Hlt]).
      change (128 ^ 8) with 72057594037927936 in Hp8. unfold two64. nia. }
  rewrite (u64_small _ Hs). split; [reflexivity|]. split; [exact Hs|].
  intros _. rewrite pow128_succ. fold p. nia.
Qed.

(** Soundness: a successful decode returns the exact value and length. *)
Lemma ci_loop_sound suf : forall ln maxlen val old count v l',
  wf_bytes suf -> count <= 9 -> val < 128 ^ count ->
  ci_loop suf ln maxlen val old count = COk v l' ->
  exists w n, ci_value suf = Some (w, n) /\ v = val + 128 ^ count * w /\
              l' = ln + N.of_nat n /\ v < two64 /\ l' <= maxlen /\
              count + N.of_nat n <= 10.
Proof.
  induction suf as [|b suf IH]; intros ln maxlen val old count v l' Hwf Hc Hv Hr.
  - rewrite ci_loop_nil in Hr. destruct (maxlen <=? ln); discriminate.
  - rewrite ci_loop_cons in Hr. cbv zeta in Hr.
    inversion Hwf as [|? ? Hb Hwf']; subst.
    destruct (N.leb_spec maxlen ln) as [Hml|Hml]; [discriminate|].
    destruct (N.leb_spec 128 b) as [Hd|Hd].
    + (* last byte *)
      destruct (N.eqb_spec count 9) as [E9|E9]; cbn [andb] in Hr.
      * destruct (N.ltb_spec (b - 128) 2) as [Hc2|Hc2]; cbn [negb] in Hr; [|discriminate].
        destruct (step_no_wrap val (b - 128) count Hc Hv ltac:(lia) ltac:(lia)) as (E & Hlt & _).
        rewrite E in Hr. inversion Hr; subst v l'.
        exists (b - 128), 1%nat. cbn [ci_value].
        destruct (N.leb_spec 128 b); [|lia].
        repeat split; try lia.
      * destruct (step_no_wrap val (b - 128) count Hc Hv ltac:(lia) ltac:(lia)) as (E & Hlt & _).
        rewrite E in Hr. inversion Hr; subst v l'.
        exists (b - 128), 1%nat. cbn [ci_value].
        destruct (N.leb_spec 128 b); [|lia].
        repeat split; try lia.
    + (* continuation byte *)
      destruct (N.eqb_spec count 9) as [E9|E9]; cbn [andb] in Hr.
      * destruct (N.ltb_spec b 2) as [Hc2|Hc2]; cbn [negb] in Hr; [|discriminate].
        destruct (N.leb_spec 10 (count + 1)) as [H10|H10]; cbn [orb] in Hr; [discriminate|lia].
      * destruct (N.leb_spec 10 (count + 1)) as [H10|H10]; cbn [orb] in Hr; [discriminate|].
        destruct (step_no_wrap val b count Hc Hv Hd ltac:(lia)) as (E & Hlt & Hnext).
        rewrite E in Hr.
        destruct (N.ltb_spec (val + b * 128 ^ count) old) as [Ho|Ho]; [discriminate|].
        apply IH in Hr; [|exact Hwf'|lia|apply Hnext; lia].
        destruct Hr as (w & n & Hcv & Hvv & Hl & Hv64 & Hlm & Hcn).
        exists (b + 128 * w), (S n). cbn [ci_value].
        destruct (N.leb_spec 128 b); [lia|]. rewrite Hcv.
        repeat split; try lia.
        rewrite Hvv, pow128_succ. lia.
Qed.

Lemma ci_value_len_pos l w n : ci_value l = Some (w, n) -> (1 <= n)%nat.
Proof.
  destruct l as [|b r]; cbn [ci_value]; [discriminate|].
  destruct (128 <=? b); [intros H; injection H as _ Hn; lia|].
  destruct (ci_value r) as [[? ?]|]; [intros H; injection H as _ Hn; lia|discriminate].
Qed.

(** Completeness: every representable, terminated encoding inside the limit decodes. *)
Lemma ci_loop_complete suf : forall ln maxlen val old count w n,
  wf_bytes suf -> count <= 9 -> val < 128 ^ count -> old <= val ->
  ci_value suf = Some (w, n) -> count + N.of_nat n <= 10 ->
  val + 128 ^ count * w < two64 -> ln + N.of_nat n <= maxlen ->
  ci_loop suf ln maxlen val old count = COk (val + 128 ^ count * w) (ln + N.of_nat n).
Proof.
  induction suf as [|b suf IH]; intros ln maxlen val old count w n Hwf Hc Hv Ho Hcv Hcn H64 Hlm.
  - discriminate.
  - rewrite ci_loop_cons. cbv zeta.
    pose proof (ci_value_len_pos _ _ _ Hcv) as Hn1. cbn [ci_value] in Hcv.
    inversion Hwf as [|? ? Hb Hwf']; subst.
    destruct (N.leb_spec maxlen ln) as [Hml|Hml]; [lia|].
    pose proof (pow128_pos count) as Hp1.
    destruct (N.leb_spec 128 b) as [Hd|Hd].
    + assert (Hw : w = b - 128) by congruence.
      assert (Hn : n = 1%nat) by congruence. subst w n. clear Hcv.
      assert (H9 : count = 9 -> b - 128 < 2).
      { intros E. subst count. rewrite pow128_9 in H64. unfold two64 in H64. nia. }
      destruct (N.eqb_spec count 9) as [E9|E9]; cbn [andb].
      * destruct (N.ltb_spec (b - 128) 2) as [Hc2|Hc2]; cbn [negb]; [|specialize (H9 E9); lia].
        destruct (step_no_wrap val (b - 128) count Hc Hv ltac:(lia) H9) as (E & _ & _).
        rewrite E. f_equal; lia.
      * destruct (step_no_wrap val (b - 128) count Hc Hv ltac:(lia) H9) as (E & _ & _).
        rewrite E. f_equal; lia.
    + destruct (ci_value suf) as [[w' n']|] eqn:Hcv'; [|discriminate].
      assert (Hw : w = b + 128 * w') by congruence.
      assert (Hn : n = S n') by congruence. subst w n. clear Hcv.
      pose proof (ci_value_len_pos _ _ _ Hcv') as Hn'1.
      assert (E9 : count <> 9) by lia.
      destruct (N.eqb_spec count 9) as [E9'|_]; [contradiction|]. cbn [andb].
      destruct (N.leb_spec 10 (count + 1)) as [H10|H10]; [lia|]. cbn [orb].
      destruct (step_no_wrap val b count Hc Hv Hd ltac:(lia)) as (E & Hlt & Hnext).
      rewrite E.
      destruct (N.ltb_spec (val + b * 128 ^ count) old) as [Hold|Hold]; [lia|].
      assert (Hv' : val + b * 128 ^ count < 128 ^ (count + 1)) by (apply Hnext; lia).
      assert (H64' : val + b * 128 ^ count + 128 ^ (count + 1) * w' < two64).
      { rewrite pow128_succ.
        replace (val + b * 128 ^ count + 128 * 128 ^ count * w')
          with (val + 128 ^ count * (b + 128 * w')) by ring.
        exact H64. }
      rewrite (IH (ln + 1) maxlen (val + b * 128 ^ count) (val + b * 128 ^ count) (count + 1) w' n')
        by (assumption || reflexivity || lia).
      f_equal; [rewrite pow128_succ; ring | lia].
Qed.

(** Bounded reads: with [maxlen] bytes readable from the buffer base, no access leaves
    the buffer. *)
Lemma ci_loop_no_oob suf : forall ln maxlen val old count,
  maxlen <= ln + len suf -> ci_loop suf ln maxlen val old count <> COOB.
Proof.
  induction suf as [|b suf IH]; intros ln maxlen val old count Hm.
  - rewrite ci_loop_nil. rewrite len_nil in Hm.
    destruct (N.leb_spec maxlen ln); [discriminate|lia].
  - rewrite ci_loop_cons. cbv zeta. rewrite len_cons in Hm.
    destruct (maxlen <=? ln); [discriminate|].
    destruct ((count =? 9) && _); [discriminate|].
    destruct (128 <=? b); [discriminate|].
    destruct ((10 <=? count + 1) || _); [discriminate|].
    apply IH. lia.
Qed.

(** * Top-level statements *)

Theorem ci_to_size_no_oob suf ln maxlen :
  maxlen <= ln + len suf -> ci_to_size suf ln maxlen <> COOB.
Proof. intros H. apply ci_loop_no_oob. exact H. Qed.

Theorem ci_to_size_sound suf ln maxlen v l' :
  wf_bytes suf -> ci_to_size suf ln maxlen = COk v l' ->
  exists n, ci_value suf = Some (v, n) /\ l' = ln + N.of_nat n /\ v < two64 /\
            l' <= maxlen /\ (n <= 10)%nat.
Proof.
  intros Hwf H. unfold ci_to_size in H.
  apply ci_loop_sound in H; [|exact Hwf|lia|reflexivity].
  destruct H as (w & n & Hcv & Hv & Hl & H64 & Hm & Hn).
  exists n. change (128 ^ 0) with 1 in Hv. replace w with v in * by lia.
  repeat split; try assumption; lia.
Qed.

Theorem ci_to_size_complete suf ln maxlen w n :
  wf_bytes suf -> ci_value suf = Some (w, n) -> (n <= 10)%nat -> w < two64 ->
  ln + N.of_nat n <= maxlen -> ci_to_size suf ln maxlen = COk w (ln + N.of_nat n).
Proof.
  intros Hwf Hcv Hn Hw Hl. unfold ci_to_size.
  assert (H1 : 128 ^ 0 = 1) by reflexivity.
  rewrite (ci_loop_complete suf ln maxlen 0 0 0 w n)
    by (assumption || reflexivity || (rewrite ?H1; lia)).
  f_equal. rewrite H1. lia.
Qed.

(** Exact decision: success iff the encoding is terminated inside the limit, at most ten
    bytes long and denotes a value below 2^64; otherwise a clean error. *)
Definition ci_spec_decode (suf : bytes) (ln maxlen : N) : cres :=
  match ci_value suf with
  | Some (w, n) =>
      if (Nat.leb n 10) && (w <? two64) && (ln + N.of_nat n <=? maxlen)
      then COk w (ln + N.of_nat n) else CErr
  | None => CErr
  end.

Theorem ci_to_size_decides suf ln maxlen :
  wf_bytes suf -> maxlen <= ln + len suf ->
  ci_to_size suf ln maxlen = ci_spec_decode suf ln maxlen.
Proof.
  intros Hwf Hm. unfold ci_spec_decode.
  destruct (ci_to_size suf ln maxlen) as [v l'| |] eqn:Hr.
  - destruct (ci_to_size_sound _ _ _ _ _ Hwf Hr) as (n & Hcv & Hl & H64 & Hlm & Hn).
    rewrite Hcv.
    destruct (Nat.leb_spec n 10); [|lia].
    destruct (N.ltb_spec v two64); [|lia].
    destruct (N.leb_spec (ln + N.of_nat n) maxlen); [|lia].
    cbn [andb]. subst l'. reflexivity.
  - destruct (ci_value suf) as [[w n]|] eqn:Hcv; [|reflexivity].
    destruct (Nat.leb_spec n 10) as [Hn|Hn]; [|reflexivity].
    destruct (N.ltb_spec w two64) as [Hw|Hw]; [|reflexivity].
    destruct (N.leb_spec (ln + N.of_nat n) maxlen) as [Hl|Hl]; [|reflexivity].
    cbn [andb]. rewrite (ci_to_size_complete suf ln maxlen w n) in Hr by assumption.
    discriminate.
  - exfalso. exact (ci_to_size_no_oob suf ln maxlen Hm Hr).
Qed.

(** Encoder. *)
Lemma ci_from_fuel_value fuel : forall v post,
  v < 128 ^ N.of_nat (S fuel) ->
  ci_value (ci_from_fuel (S fuel) v ++ post) =
    Some (v, length (ci_from_fuel (S fuel) v)) /\
  (length (ci_from_fuel (S fuel) v) <= S fuel)%nat /\
  wf_bytes (ci_from_fuel (S fuel) v).
Proof.
  induction fuel as [|f IH]; intros v post Hv.
  - change (128 ^ N.of_nat 1) with 128 in Hv.
    cbn [ci_from_fuel]. rewrite (N.mod_small v 128) by exact Hv.
    replace ((v - v) / 128) with 0 by (rewrite N.sub_diag; reflexivity).
    cbn [N.eqb app ci_value length].
    destruct (N.leb_spec 128 (v + 128)); [|lia].
    split; [f_equal; f_equal; lia|]. split; [lia|].
    constructor; [lia|constructor].
  - remember (S f) as f1 eqn:Ef1.
    cbn [ci_from_fuel].
    set (b := v mod 128). set (v' := (v - b) / 128).
    assert (Hb : b < 128) by (apply N.mod_lt; discriminate).
    assert (Hvb : v = 128 * v' + b).
    { unfold v', b. lia. }
    destruct (N.eqb_spec v' 0) as [E0|E0].
    + cbn [app ci_value length].
      destruct (N.leb_spec 128 (b + 128)); [|lia].
      split; [f_equal; f_equal; lia|]. split; [lia|].
      constructor; [lia|constructor].
    + assert (Hv' : v' < 128 ^ N.of_nat f1).
      { replace (N.of_nat (S f1)) with (N.of_nat f1 + 1) in Hv by lia.
        rewrite pow128_succ in Hv. lia. }
      subst f1. destruct (IH v' post Hv') as (Hcv & Hlen & Hwf).
      cbn [app ci_value]. fold (ci_from_fuel (S f) v').
      destruct (N.leb_spec 128 b); [lia|].
      change (ci_from_fuel (S f) v' ++ post) with (ci_from_fuel (S f) v' ++ post).
      rewrite Hcv. cbn [length].
      split; [f_equal; f_equal; lia|]. split; [lia|].
      constructor; [lia|exact Hwf].
Qed.

Theorem ci_from_size_value v post :
  v < two64 ->
  ci_value (ci_from_size v ++ post) = Some (v, length (ci_from_size v)) /\
  (length (ci_from_size v) <= 10)%nat /\ wf_bytes (ci_from_size v).
Proof.
  intros Hv. unfold ci_from_size. rewrite max_comp_size_10.
  change (N.to_nat 10) with 10%nat.
  apply (ci_from_fuel_value 9 v post).
  change (128 ^ N.of_nat 10) with 1180591620717411303424. unfold two64 in Hv. lia.
Qed.

Theorem ci_roundtrip v post ln maxlen :
  v < two64 -> wf_bytes post -> ln + len (ci_from_size v) <= maxlen ->
  ci_to_size (ci_from_size v ++ post) ln maxlen = COk v (ln + len (ci_from_size v)) /\
  len (ci_from_size v) <= 10.
Proof.
  intros Hv Hpost Hl.
  destruct (ci_from_size_value v post Hv) as (Hcv & Hlen & Hwf).
  split; [|unfold len; lia].
  apply ci_to_size_complete; try assumption.
  apply Forall_app. split; assumption.
Qed.

(** compint_to_int *)
Theorem ci_to_int_sound suf ln maxlen v l' :
  wf_bytes suf -> ci_to_int suf ln maxlen = COk v l' ->
  exists n, ci_value suf = Some (v, n) /\ l' = ln + N.of_nat n /\ v <= INT_MAX /\ l' <= maxlen.
Proof.
  intros Hwf H. unfold ci_to_int in H.
  destruct (ci_to_size suf ln maxlen) as [v0 l0| |] eqn:Hr; try discriminate.
  destruct (N.ltb_spec INT_MAX v0) as [Hi|Hi]; [discriminate|].
  inversion H; subst v0 l0.
  destruct (ci_to_size_sound _ _ _ _ _ Hwf Hr) as (n & Hcv & Hl & _ & Hm & _).
  exists n. repeat split; assumption.
Qed.

Theorem ci_to_int_rejects_large suf ln maxlen w n :
  wf_bytes suf -> maxlen <= ln + len suf ->
  ci_value suf = Some (w, n) -> INT_MAX < w -> ci_to_int suf ln maxlen = CErr.
Proof.
  intros Hwf Hm Hcv Hw. unfold ci_to_int.
  rewrite (ci_to_size_decides suf ln maxlen Hwf Hm). unfold ci_spec_decode. rewrite Hcv.
  destruct (_ && _ && _); [|reflexivity].
  destruct (N.ltb_spec INT_MAX w); [reflexivity|lia].
Qed.

Theorem ci_to_int_no_oob suf ln maxlen :
  maxlen <= ln + len suf -> ci_to_int suf ln maxlen <> COOB.
Proof.
  intros Hm. unfold ci_to_int.
  pose proof (ci_to_size_no_oob suf ln maxlen Hm) as H.
  destruct (ci_to_size suf ln maxlen) as [v l'| |]; [|discriminate|contradiction].
  destruct (INT_MAX <? v); discriminate.
Qed.
