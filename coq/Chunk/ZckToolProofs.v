(** T1.3 for the [zck] tool's input scanner (model: ZckTool.v): for EVERY split string and
    EVERY list of read blocks the scan does not crash, hands exactly the input bytes to
    [zck_write] in order, and ends chunks only directly in front of a copy of the split
    string.  No bound on block sizes or count anywhere. *)
From ZV Require Import Base.Bytes Chunk.ZckTool.
Local Open Scope Z_scope.

(** * Lists and slices *)
Lemma payload_app a b : payload (a ++ b) = payload a ++ payload b.
Proof.
  induction a as [|[w|] a IH]; cbn [payload app]; [reflexivity | | exact IH].
  rewrite IH, app_assoc. reflexivity.
Qed.

Lemma firstn_plus {A} (a b : nat) (l : list A) :
  firstn (a + b) l = firstn a l ++ firstn b (skipn a l).
Proof.
  revert l. induction a as [|a IH]; intros l; [reflexivity|].
  destruct l as [|x l]; cbn [Nat.add firstn skipn app].
  - rewrite firstn_nil. reflexivity.
  - rewrite IH. reflexivity.
Qed.

Lemma skipn_plus {A} (a b : nat) (l : list A) : skipn (a + b) l = skipn b (skipn a l).
Proof.
  revert l. induction a as [|a IH]; intros l; [reflexivity|].
  destruct l as [|x l]; cbn [Nat.add skipn]; [rewrite skipn_nil; reflexivity | apply IH].
Qed.

Lemma skipn_len_app {A} (p r : list A) : skipn (length p) (p ++ r) = r.
Proof. induction p as [|x p IH]; [reflexivity | exact IH]. Qed.

Lemma zlen_nonneg b : 0 <= zlen b.
Proof. unfold zlen. lia. Qed.

Lemma zlen_app a b : zlen (a ++ b) = zlen a + zlen b.
Proof. unfold zlen. rewrite app_length. lia. Qed.

Lemma zlen_cons x b : zlen (x :: b) = 1 + zlen b.
Proof. unfold zlen. cbn [length]. lia. Qed.

Lemma slice_le0 buf off k : k <= 0 -> slice buf off k = [].
Proof. intros H. unfold slice. replace (Z.to_nat k) with 0%nat by lia. reflexivity. Qed.

(** [buf[off..off+k) = buf[off..off+k1) ++ buf[off+k1..off+k)] *)
Lemma slice_app buf off k k1 off2 k2 :
  0 <= off -> 0 <= k1 -> 0 <= k2 -> off2 = off + k1 -> k = k1 + k2 ->
  slice buf off k = slice buf off k1 ++ slice buf off2 k2.
Proof.
  intros H0 H1 H2 -> ->. unfold slice.
  replace (Z.to_nat (k1 + k2)) with (Z.to_nat k1 + Z.to_nat k2)%nat by lia.
  replace (Z.to_nat (off + k1)) with (Z.to_nat off + Z.to_nat k1)%nat by lia.
  rewrite firstn_plus, skipn_plus. reflexivity.
Qed.

Lemma slice_app' buf off k off1 k1 off2 k2 :
  0 <= off -> 0 <= k1 -> 0 <= k2 -> off1 = off -> off2 = off + k1 -> k = k1 + k2 ->
  slice buf off k = slice buf off1 k1 ++ slice buf off2 k2.
Proof. intros H0 H1 H2 -> E1 E2. apply slice_app; assumption. Qed.

Lemma slice_one pre c rest : slice (pre ++ c :: rest) (zlen pre) 1 = [c].
Proof.
  unfold slice, zlen. rewrite Nat2Z.id, skipn_len_app. reflexivity.
Qed.

Lemma slice_all buf : slice buf 0 (zlen buf) = buf.
Proof. unfold slice, zlen. rewrite Nat2Z.id. cbn [Z.to_nat skipn]. apply firstn_all. Qed.

Lemma slice_tail pre rest : slice (pre ++ rest) (zlen pre) (zlen rest) = rest.
Proof.
  unfold slice, zlen. rewrite !Nat2Z.id, skipn_len_app. apply firstn_all.
Qed.

Lemma zget_slice buf i :
  0 <= i < zlen buf -> exists s, zget buf i = Some s /\ slice buf i 1 = [s].
Proof.
  intros H. unfold zget. destruct (i <? 0) eqn:E; [lia|].
  destruct (nth_error buf (Z.to_nat i)) as [s|] eqn:N.
  - exists s. split; [reflexivity|].
    apply nth_error_split in N. destruct N as (l1 & l2 & -> & L).
    replace i with (zlen l1) by (unfold zlen; lia). apply slice_one.
  - apply nth_error_None in N. unfold zlen in H. lia.
Qed.

Lemma write_data_ok buf off k :
  0 <= k -> 0 <= off -> off + k <= zlen buf ->
  write_data buf off k = Some [TWrite (slice buf off k)].
Proof.
  intros H1 H2 H3. unfold write_data.
  destruct (k <? 0) eqn:E1; [lia|]. destruct (off <? 0) eqn:E2; [lia|].
  destruct (zlen buf <? off + k) eqn:E3; [lia|]. reflexivity.
Qed.

(** a guarded write: the payload is the slice whether or not the call is made *)
Lemma guarded_write buf off k :
  0 <= off -> off + k <= zlen buf ->
  exists w, (if 0 <? k then write_data buf off k else Some []) = Some w
            /\ payload w = slice buf off k /\ (w = [] \/ w = [TWrite (slice buf off k)]).
Proof.
  intros H1 H2. destruct (0 <? k) eqn:E.
  - exists [TWrite (slice buf off k)]. rewrite write_data_ok by lia.
    cbn [payload]. rewrite app_nil_r. auto.
  - exists []. rewrite slice_le0 by lia. auto.
Qed.

(** * "every end-of-chunk is directly followed by a write of the split string" *)
Inductive ends_ok (split : bytes) : list top -> Prop :=
| eo_nil : ends_ok split []
| eo_write b r : ends_ok split r -> ends_ok split (TWrite b :: r)
| eo_end r : ends_ok split r -> ends_ok split (TEnd :: TWrite split :: r).

Lemma ends_ok_app split a b : ends_ok split a -> ends_ok split b -> ends_ok split (a ++ b).
Proof.
  intros Ha Hb. induction Ha; cbn [app]; [exact Hb | constructor; exact IHHa | constructor; exact IHHa].
Qed.

Lemma ends_ok_writes split w : (w = [] \/ exists b, w = [TWrite b]) -> ends_ok split w.
Proof. intros [-> | (b & ->)]; repeat constructor. Qed.

Lemma ends_ok_spec split ops :
  ends_ok split ops ->
  forall pre rest, ops = pre ++ TEnd :: rest -> exists rest', rest = TWrite split :: rest'.
Proof.
  induction 1 as [|b r H IH|r H IH]; intros pre rest E.
  - destruct pre; discriminate.
  - destruct pre as [|x pre]; [discriminate|]. cbn [app] in E.
    injection E as _ E. exact (IH _ _ E).
  - destruct pre as [|x pre]; cbn [app] in E.
    + injection E as E. exists r. symmetry. exact E.
    + injection E as _ E. destruct pre as [|y pre]; [discriminate|]. cbn [app] in E.
      injection E as _ E. exact (IH _ _ E).
Qed.

(** * The inner loop *)
Section Block.
Variables split whole : bytes.

(** Invariant at index [l] of the block.  The bytes read so far and not yet written are
    [F ++ slice split 0 m]: [F] is ordinary data of this block, the rest is the partial
    match.  Either the partial match lies inside the block (A), or it began in an earlier
    block (B): then nothing of this block has been written, [start = 0], and the block so
    far is the continuation [split[m-l .. m)] of the carried [m - l] bytes. *)
Definition Inv (l start m : Z) (F : bytes) : Prop :=
  0 <= start <= l /\ 0 <= m < zlen split /\
  ((m <= l - start /\ F = slice whole start (l - start - m)
    /\ slice whole (l - m) m = slice split 0 m)
   \/ (l < m /\ start = 0 /\ F = [] /\ slice whole 0 l = slice split (m - l) l)).

Lemma scan_block_inv : forall rest pre l start m F,
  whole = pre ++ rest -> l = zlen pre -> Inv l start m F ->
  exists ops start' m' F',
    scan_block split whole rest l start m = Some (ops, start', m')
    /\ Inv (zlen whole) start' m' F'
    /\ payload ops ++ F' ++ slice split 0 m' = F ++ slice split 0 m ++ rest
    /\ ends_ok split ops.
Proof.
  induction rest as [|c rest IH]; intros pre l start m F Hw Hl HI.
  - exists [], start, m, F. cbn [scan_block payload app].
    rewrite Hw, app_nil_r, <- Hl. rewrite app_nil_r.
    split; [reflexivity|]. split; [exact HI|]. split; [reflexivity|constructor].
  - assert (Hw' : whole = (pre ++ [c]) ++ rest) by (rewrite <- app_assoc; exact Hw).
    assert (Hl' : l + 1 = zlen (pre ++ [c])) by (rewrite zlen_app, zlen_cons; unfold zlen at 2; cbn [length]; lia).
    assert (Hc : slice whole l 1 = [c]) by (rewrite Hw, Hl; apply slice_one).
    assert (Hn : l + 1 <= zlen whole).
    { rewrite Hw, zlen_app, zlen_cons. pose proof (zlen_nonneg rest). lia. }
    assert (Hl0 : 0 <= l) by (rewrite Hl; apply zlen_nonneg).
    destruct HI as (Hs & Hm & HI).
    destruct (zget_slice split m Hm) as (s & Hg & Hsl).
    cbn [scan_block]. rewrite Hg. cbn [obind].
    (* split[0..m) ++ split[m] = split[0..m+1) *)
    assert (Hext : slice split 0 m ++ [s] = slice split 0 (m + 1)).
    { rewrite <- Hsl. symmetry. apply slice_app'; lia. }
    destruct (N.eqb_spec c s) as [Ecs|Ecs].
    + (* the byte continues the match *)
      subst s.
      destruct (Z.eqb_spec (m + 1) (zlen split)) as [Efull|Efull].
      * (* complete match: write what is in front, end the chunk, write the split string *)
        assert (Hsplit : slice split 0 (m + 1) = split) by (rewrite Efull; apply slice_all).
        rewrite (write_data_ok split 0 (zlen split)) by (pose proof (zlen_nonneg split); lia).
        rewrite slice_all. cbn [obind].
        assert (Hfront : exists w1,
          (if 0 <? l - (start + (m + 1) - 1)
           then write_data whole start (l - (start + (m + 1) - 1)) else Some []) = Some w1
          /\ payload w1 = F /\ (w1 = [] \/ exists b, w1 = [TWrite b])).
        { destruct HI as [(Hle & HF & _)|(Hlt & Hst & HF & _)].
          - destruct (guarded_write whole start (l - (start + (m + 1) - 1))) as (w & E & Pw & Sw); [lia|lia|].
            exists w. split; [exact E|]. split.
            + rewrite Pw, HF. f_equal. lia.
            + destruct Sw as [-> | ->]; eauto.
          - exists []. subst start. destruct (0 <? l - (0 + (m + 1) - 1)) eqn:E; [lia|].
            rewrite HF. auto. }
        destruct Hfront as (w1 & -> & Pw1 & Sw1). cbn [obind].
        destruct (IH (pre ++ [c]) (l + 1) (l + 1) 0 []) as (ops & st' & m' & F' & E & HI' & HP & HE);
          [exact Hw' | exact Hl' | |].
        { split; [lia|]. split; [pose proof (zlen_nonneg split); lia|]. left.
          split; [lia|]. split; [symmetry; apply slice_le0; lia|].
          rewrite !slice_le0 by lia. reflexivity. }
        rewrite E. cbn [obind].
        exists (w1 ++ TEnd :: [TWrite split] ++ ops), st', m', F'.
        split; [reflexivity|]. split; [exact HI'|]. split.
        -- rewrite payload_app. cbn [payload app]. rewrite Pw1.
           rewrite <- !app_assoc. f_equal.
           rewrite HP. rewrite (slice_le0 split 0 0) by lia. cbn [app].
           change (c :: rest) with ([c] ++ rest). rewrite app_assoc, Hext, Hsplit. reflexivity.
        -- apply ends_ok_app; [apply ends_ok_writes; exact Sw1|].
           cbn [app]. constructor. exact HE.
      * (* partial match grows *)
        destruct (IH (pre ++ [c]) (l + 1) start (m + 1) F) as (ops & st' & m' & F' & E & HI' & HP & HE);
          [exact Hw' | exact Hl' | |].
        { split; [lia|]. split; [lia|].
          destruct HI as [(Hle & HF & Hsuf)|(Hlt & Hst & HF & Hpre)].
          - left. split; [lia|]. split; [rewrite HF; f_equal; lia|].
            rewrite <- Hext, <- Hsuf, <- Hc. apply slice_app'; lia.
          - right. split; [lia|]. split; [exact Hst|]. split; [exact HF|].
            rewrite (slice_app whole 0 (l + 1) l l 1) by lia. rewrite Hc, Hpre, <- Hsl.
            symmetry. replace (m + 1 - (l + 1)) with (m - l) by lia. apply slice_app'; lia. }
        exists ops, st', m', F'. split; [exact E|]. split; [exact HI'|]. split; [|exact HE].
        rewrite HP, <- Hext, <- !app_assoc. reflexivity.
    + (* mismatch *)
      destruct (0 <? m) eqn:Em.
      * destruct HI as [(Hle & HF & Hsuf)|(Hlt & Hst & HF & Hpre)].
        -- (* the failed match lies inside this block: nothing to write, it stays pending *)
           destruct (l <? m) eqn:El; [lia|]. cbn [obind].
           destruct (IH (pre ++ [c]) (l + 1) start 0 (F ++ slice split 0 m ++ [c]))
             as (ops & st' & m' & F' & E & HI' & HP & HE); [exact Hw' | exact Hl' | |].
           { split; [lia|]. split; [lia|]. left. split; [lia|]. split.
             - rewrite HF, <- Hsuf, <- Hc.
               rewrite (slice_app whole start (l + 1 - start - 0) (l - start - m) (l - m) (m + 1)) by lia.
               f_equal. symmetry. apply slice_app'; lia.
             - rewrite !slice_le0 by lia. reflexivity. }
           rewrite E. cbn [obind].
           exists ([] ++ ops), st', m', F'. split; [reflexivity|]. split; [exact HI'|]. split; [|exact HE].
           cbn [app]. rewrite HP. rewrite (slice_le0 split 0 0) by lia.
           rewrite <- !app_assoc. reflexivity.
        -- (* it began in an earlier block: write the withheld bytes from the split string *)
           destruct (l <? m) eqn:El; [|lia].
           rewrite (write_data_ok split 0 (m - l)) by lia. cbn [obind].
           subst start F.
           destruct (IH (pre ++ [c]) (l + 1) 0 0 (slice whole 0 (l + 1)))
             as (ops & st' & m' & F' & E & HI' & HP & HE); [exact Hw' | exact Hl' | |].
           { split; [lia|]. split; [lia|]. left. split; [lia|]. split; [f_equal; lia|].
             rewrite !slice_le0 by lia. reflexivity. }
           rewrite E. cbn [obind].
           exists ([TWrite (slice split 0 (m - l))] ++ ops), st', m', F'.
           split; [reflexivity|]. split; [exact HI'|]. split.
           ++ cbn [app payload]. rewrite <- app_assoc, HP. rewrite (slice_le0 split 0 0) by lia.
              cbn [app]. rewrite (slice_app whole 0 (l + 1) l l 1) by lia. rewrite Hc, Hpre.
              rewrite (slice_app split 0 m (m - l) (m - l) l) by lia.
              rewrite <- !app_assoc. reflexivity.
           ++ cbn [app]. constructor. exact HE.
      * (* no match in progress *)
        assert (m = 0) by lia. subst m.
        destruct HI as [(Hle & HF & Hsuf)|(Hlt & _)]; [|lia].
        destruct (IH (pre ++ [c]) (l + 1) start 0 (F ++ [c]))
          as (ops & st' & m' & F' & E & HI' & HP & HE); [exact Hw' | exact Hl' | |].
        { split; [lia|]. split; [lia|]. left. split; [lia|]. split.
          - rewrite HF, <- Hc. symmetry. apply slice_app'; lia.
          - rewrite !slice_le0 by lia. reflexivity. }
        exists ops, st', m', F'. split; [exact E|]. split; [exact HI'|]. split; [|exact HE].
        rewrite HP. rewrite (slice_le0 split 0 0) by lia. cbn [app].
        rewrite <- app_assoc. reflexivity.
Qed.

(** One [while] iteration: the bytes written plus the carried partial match are the
    partial match carried in plus the block. *)
Lemma scan_one_spec m :
  0 <= m -> (m < zlen split \/ (zlen split = 0 /\ m = 0)) ->
  exists ops m',
    scan_one split whole m = Some (ops, m')
    /\ 0 <= m' /\ (m' < zlen split \/ (zlen split = 0 /\ m' = 0))
    /\ payload ops ++ slice split 0 m' = slice split 0 m ++ whole
    /\ ends_ok split ops.
Proof.
  intros Hm0 Hm. unfold scan_one. destruct (0 <? zlen split) eqn:Es.
  - destruct Hm as [Hm|Hm]; [|lia].
    destruct (scan_block_inv whole [] 0 0 m []) as (ops & st' & m' & F' & E & HI' & HP & HE).
    + reflexivity.
    + reflexivity.
    + split; [lia|]. split; [lia|]. destruct (Z.eq_dec m 0) as [->|Hne].
      * left. split; [lia|]. rewrite !slice_le0 by lia. auto.
      * right. split; [lia|]. split; [reflexivity|]. split; [reflexivity|].
        rewrite !slice_le0 by lia. reflexivity.
    + rewrite E. cbn [obind].
      destruct HI' as (Hs & Hm' & HI').
      assert (Hw : exists w,
        (if 0 <? zlen whole - (st' + m')
         then write_data whole st' (zlen whole - (st' + m')) else Some []) = Some w
        /\ payload w = F' /\ (w = [] \/ exists b, w = [TWrite b])).
      { destruct HI' as [(Hle & HF & _)|(Hlt & Hst & HF & _)].
        - destruct (guarded_write whole st' (zlen whole - (st' + m'))) as (w & Ew & Pw & Sw); [lia|lia|].
          exists w. split; [exact Ew|]. split.
          + rewrite Pw, HF. f_equal. lia.
          + destruct Sw as [-> | ->]; eauto.
        - exists []. destruct (0 <? zlen whole - (st' + m')) eqn:E'; [lia|]. rewrite HF. auto. }
      destruct Hw as (w & -> & Pw & Sw). cbn [obind].
      exists (ops ++ w), m'. split; [reflexivity|]. split; [lia|]. split; [left; lia|]. split.
      * rewrite payload_app, Pw, <- app_assoc. exact HP.
      * apply ends_ok_app; [exact HE | apply ends_ok_writes; exact Sw].
  - (* no split string: one write per block *)
    assert (zlen split = 0) by (pose proof (zlen_nonneg split); lia).
    assert (m = 0) by lia. subst m. cbn [obind].
    destruct (guarded_write whole 0 (zlen whole - (0 + 0))) as (w & Ew & Pw & Sw); [lia|lia|].
    rewrite Ew. cbn [obind]. exists ([] ++ w), 0. split; [reflexivity|]. split; [lia|].
    split; [right; lia|]. split.
    + cbn [app]. rewrite Pw, (slice_le0 split 0 0) by lia. rewrite app_nil_r. cbn [app].
      replace (zlen whole - (0 + 0)) with (zlen whole) by lia. apply slice_all.
    + cbn [app]. apply ends_ok_writes. destruct Sw as [-> | ->]; eauto.
Qed.
End Block.

(** * The [while] loop *)
Lemma scan_loop_spec split : forall blocks m,
  0 <= m -> (m < zlen split \/ (zlen split = 0 /\ m = 0)) ->
  exists ops m',
    scan_loop split blocks m = Some (ops, m')
    /\ 0 <= m' /\ (m' < zlen split \/ (zlen split = 0 /\ m' = 0))
    /\ payload ops ++ slice split 0 m' = slice split 0 m ++ concat blocks
    /\ ends_ok split ops.
Proof.
  induction blocks as [|b bs IH]; intros m Hm0 Hm.
  - exists [], m. cbn [scan_loop payload concat app]. rewrite app_nil_r.
    repeat split; try assumption. constructor.
  - destruct (scan_one_spec split b m Hm0 Hm) as (ops1 & m1 & E1 & H10 & H1 & P1 & O1).
    destruct (IH m1 H10 H1) as (ops2 & m2 & E2 & H20 & H2 & P2 & O2).
    exists (ops1 ++ ops2), m2. cbn [scan_loop]. rewrite E1. cbn [obind]. rewrite E2. cbn [obind].
    split; [reflexivity|]. split; [exact H20|]. split; [exact H2|]. split.
    + rewrite payload_app, <- app_assoc, P2, app_assoc, P1, <- app_assoc. reflexivity.
    + apply ends_ok_app; assumption.
Qed.

Lemma zck_scan_spec split blocks :
  exists ops, zck_scan split blocks = ScanOk ops
              /\ payload ops = concat blocks /\ ends_ok split ops.
Proof.
  destruct (scan_loop_spec split blocks 0) as (ops & m & E & Hm0 & Hm & P & O).
  - lia.
  - pose proof (zlen_nonneg split). destruct (Z.eq_dec (zlen split) 0); [right|left]; lia.
  - unfold zck_scan. rewrite E. unfold scan_flush.
    destruct (guarded_write split 0 m) as (w & Ew & Pw & Sw); [lia|lia|].
    rewrite Ew. exists (ops ++ w). split; [reflexivity|]. split.
    + rewrite payload_app, Pw, P. rewrite slice_le0 by lia. reflexivity.
    + apply ends_ok_app; [exact O|]. apply ends_ok_writes. destruct Sw as [-> | ->]; eauto.
Qed.

(** * The exported theorems (T1.3) *)

(** No negative or out-of-range write length, no read outside the split string, for any
    split string and any sequence of read results. *)
Theorem zck_scan_no_crash : forall split blocks, zck_scan split blocks <> ScanCrash.
Proof.
  intros split blocks. destruct (zck_scan_spec split blocks) as (ops & E & _). rewrite E. discriminate.
Qed.

(** The bytes handed to [zck_write], concatenated in call order, are exactly the input:
    nothing lost, duplicated or reordered, whatever the segmentation into reads. *)
Theorem zck_scan_preserves_content : forall split blocks ops,
  zck_scan split blocks = ScanOk ops -> payload ops = concat blocks.
Proof.
  intros split blocks ops E. destruct (zck_scan_spec split blocks) as (ops' & E' & P & _).
  rewrite E in E'. injection E' as <-. exact P.
Qed.

(** Every [zck_end_chunk] is immediately followed by a [zck_write] of exactly the split
    string. *)
Theorem zck_scan_end_before_split : forall split blocks ops pre rest,
  zck_scan split blocks = ScanOk ops -> ops = pre ++ TEnd :: rest ->
  exists rest', rest = TWrite split :: rest'.
Proof.
  intros split blocks ops pre rest E. destruct (zck_scan_spec split blocks) as (ops' & E' & _ & O).
  rewrite E in E'. injection E' as <-. exact (ends_ok_spec split ops O pre rest).
Qed.

(** Hence chunks are cut only in front of an occurrence of the split string in the input:
    the input is (what was written before the cut) ++ split ++ (the rest). *)
Corollary zck_scan_cut_at_occurrence : forall split blocks ops pre rest,
  zck_scan split blocks = ScanOk ops -> ops = pre ++ TEnd :: rest ->
  exists tail, concat blocks = payload pre ++ split ++ tail.
Proof.
  intros split blocks ops pre rest E Hd.
  destruct (zck_scan_end_before_split split blocks ops pre rest E Hd) as (rest' & ->).
  exists (payload rest'). rewrite <- (zck_scan_preserves_content split blocks ops E), Hd.
  rewrite payload_app. reflexivity.
Qed.

(** Without a split string the tool makes one write per (non-empty) read result and never
    ends a chunk itself. *)
Theorem zck_scan_nosplit : forall blocks,
  Forall (fun b => b <> []) blocks ->
  zck_scan [] blocks = ScanOk (map TWrite blocks).
Proof.
  intros blocks H. unfold zck_scan.
  assert (L : scan_loop [] blocks 0 = Some (map TWrite blocks, 0)).
  { induction H as [|b bs Hb _ IH]; [reflexivity|].
    cbn [scan_loop map]. unfold scan_one. cbn [zlen length Z.of_nat Z.ltb Z.compare obind].
    replace (zlen b - (0 + 0)) with (zlen b) by lia.
    assert (0 < zlen b).
    { destruct b as [|x b']; [congruence|]. rewrite zlen_cons. pose proof (zlen_nonneg b'). lia. }
    destruct (0 <? zlen b) eqn:E; [|lia].
    rewrite write_data_ok by lia. rewrite slice_all. cbn [obind app]. rewrite IH. reflexivity. }
  rewrite L. cbn. rewrite app_nil_r. reflexivity.
Qed.

(** The statements in one: total correctness of the scanner. *)
Theorem zck_scan_correct : forall split blocks,
  exists ops, zck_scan split blocks = ScanOk ops
    /\ payload ops = concat blocks
    /\ forall pre rest, ops = pre ++ TEnd :: rest -> exists rest', rest = TWrite split :: rest'.
Proof.
  intros split blocks. destruct (zck_scan_spec split blocks) as (ops & E & P & O).
  exists ops. split; [exact E|]. split; [exact P|]. exact (ends_ok_spec split ops O).
Qed.

(** * End of input: exit status *)

(** End of file: the tool reaches [zck_close] having written exactly the input. *)
Theorem zck_tool_eof : forall split blocks,
  exists ops, zck_tool split blocks REof = ToolClose ops /\ zck_scan split blocks = ScanOk ops
              /\ payload ops = concat blocks.
Proof.
  intros split blocks. destruct (zck_scan_spec split blocks) as (ops & E & P & _).
  exists ops. split; [|split; [exact E | exact P]].
  unfold zck_tool. unfold zck_scan in E.
  destruct (scan_loop split blocks 0) as [[o m]|]; [|discriminate].
  destruct (scan_flush split m); [|discriminate].
  injection E as <-. reflexivity.
Qed.

(** A failing [read] never ends in [zck_close] (so never in exit status 0 with a truncated
    archive, D27): the tool exits with status 1, and does not crash on the way. *)
Theorem zck_tool_read_error : forall split blocks,
  exists ops, zck_tool split blocks RFail = ToolExit1 ops.
Proof.
  intros split blocks. unfold zck_tool.
  destruct (scan_loop_spec split blocks 0) as (ops & m & E & _).
  - lia.
  - pose proof (zlen_nonneg split). destruct (Z.eq_dec (zlen split) 0); [right|left]; lia.
  - rewrite E. eauto.
Qed.

(** * What the fixes repaired: the ORIGINAL loop on the design-phase reproducers *)
Definition txt_split : bytes := [60; 116; 101; 120; 116; 58]%N.          (* "<text:" *)

(** D21: [X<text:Y] in one block: the byte [X] (88) is never written. *)
Example zck_scan_orig_D21_refuted :
  zck_scan_orig txt_split [[88; 60; 116; 101; 120; 116; 58; 89]%N]
  = ScanOk [TEnd; TWrite txt_split; TWrite [89%N]]
  /\ zck_scan txt_split [[88; 60; 116; 101; 120; 116; 58; 89]%N]
  = ScanOk [TWrite [88%N]; TEnd; TWrite txt_split; TWrite [89%N]].
Proof. split; vm_compute; reflexivity. Qed.

(** D22: input [ab<te] ends in a proper prefix of the split string: [<te] is lost. *)
Example zck_scan_orig_D22_refuted :
  zck_scan_orig txt_split [[97; 98; 60; 116; 101]%N] = ScanOk [TWrite [97; 98]%N]
  /\ zck_scan txt_split [[97; 98; 60; 116; 101]%N]
     = ScanOk [TWrite [97; 98]%N; TWrite [60; 116; 101]%N].
Proof. split; vm_compute; reflexivity. Qed.

(** D23: blocks [13, 2, 5] of [aaaaaaaaaa<text:tail]: the 2-byte block lies inside the
    carried match, the write length is -1. *)
Example zck_scan_orig_D23_refuted :
  let blocks := [[97;97;97;97;97;97;97;97;97;97;60;116;101]; [120;116]; [58;116;97;105;108]]%N in
  zck_scan_orig txt_split blocks = ScanCrash
  /\ zck_scan txt_split blocks
     = ScanOk [TWrite [97;97;97;97;97;97;97;97;97;97]%N; TEnd; TWrite txt_split;
               TWrite [116;97;105;108]%N].
Proof. split; vm_compute; reflexivity. Qed.

(** The matcher is naive (not a defect for C01): [<<text:] is not split, no byte is lost. *)
Example zck_scan_naive_matcher :
  zck_scan txt_split [[60; 60; 116; 101; 120; 116; 58]%N]
  = ScanOk [TWrite [60; 60; 116; 101; 120; 116; 58]%N].
Proof. vm_compute. reflexivity. Qed.

Print Assumptions zck_scan_correct.
Print Assumptions zck_scan_nosplit.
Print Assumptions zck_tool_read_error.
