(** Facts about the rolling hash model used by the chunker theorems. *)
From ZV Require Import Base.Bytes Gen.GenConsts Gen.GenBuzTable Chunk.Buzhash.
Local Open Scope N_scope.

(** The trie lookup is the table lookup, for all 256 bytes (re-evaluated whenever the
    generated table changes). *)
Lemma table_length : length buzhash_table = 256%nat.
Proof. vm_compute. reflexivity. Qed.

Lemma tbl_agrees_b :
  forallb (fun b => tbl b =? nth (N.to_nat b) buzhash_table 0) all_bytes = true.
Proof. vm_compute. reflexivity. Qed.

Lemma all_bytes_spec b : b < 256 -> In b all_bytes.
Proof.
  intros Hb. unfold all_bytes.
  assert (G : forall n, (N.to_nat b < n)%nat -> In b (byte_range n)).
  { induction n as [|n IH]; intros Hn; [lia|].
    cbn [byte_range]. apply in_or_app.
    destruct (Nat.eq_dec (N.to_nat b) n) as [E|E].
    - right. left. subst n. apply N2Nat.id.
    - left. apply IH. lia. }
  apply G. lia.
Qed.

Lemma tbl_agrees b : b < 256 -> tbl b = nth (N.to_nat b) buzhash_table 0.
Proof.
  intros Hb. pose proof tbl_agrees_b as H. rewrite forallb_forall in H.
  apply N.eqb_eq. apply H. apply all_bytes_spec. exact Hb.
Qed.

Lemma table_ok_spec width bits b :
  table_ok width bits = true -> b < 256 -> refeed_ok width bits b = true.
Proof.
  unfold table_ok. rewrite forallb_forall. intros H Hb. apply H. apply all_bytes_spec. exact Hb.
Qed.

(** * Bits of a rotation by one *)
Lemma mask32_ones : mask32 = N.ones 32.
Proof. reflexivity. Qed.

Lemma rol32_1_bit v i : 1 <= i -> i < 32 -> N.testbit (rol32 v 1) i = N.testbit v (i - 1).
Proof.
  intros H1 H32. unfold rol32.
  change (1 mod 32) with 1. change (1 =? 0) with false. cbv iota.
  change (32 - 1) with 31.
  rewrite N.lor_spec, N.land_spec, N.shiftr_spec by apply N.le_0_l.
  rewrite N.shiftl_spec_high by (try apply N.le_0_l; exact H1).
  rewrite !N.land_spec. rewrite mask32_ones.
  rewrite (N.ones_spec_low 32 (i - 1)) by lia.
  rewrite (N.ones_spec_low 32 i) by lia.
  rewrite (N.ones_spec_high 32 (i + 31)) by lia.
  rewrite !andb_true_r, andb_false_r, orb_false_r. reflexivity.
Qed.

(** Two consecutive outputs with the low [bits] bits clear, the second obtained from the
    first by [rol32(h,1) ^ c1 ^ c2], force bits 1 .. bits-1 of [c1 ^ c2] to be clear. *)
Lemma double_trigger h c1 c2 bits :
  2 <= bits -> bits <= 32 ->
  N.land h (N.ones bits) = 0 ->
  N.land (N.lxor (N.lxor (rol32 h 1) c1) c2) (N.ones bits) = 0 ->
  N.land (N.shiftr (N.lxor c1 c2) 1) (N.ones (bits - 1)) = 0.
Proof.
  intros Hb2 Hb32 H1 H2. apply N.bits_inj. intros j.
  rewrite N.bits_0, N.land_spec, N.shiftr_spec by apply N.le_0_l.
  destruct (N.ltb_spec j (bits - 1)) as [Hj|Hj].
  - rewrite N.ones_spec_low by exact Hj. rewrite andb_true_r.
    assert (E1 : N.testbit h j = false).
    { pose proof (f_equal (fun x => N.testbit x j) H1) as E. cbv beta in E.
      rewrite N.land_spec, N.bits_0, N.ones_spec_low in E by lia.
      rewrite andb_true_r in E. exact E. }
    pose proof (f_equal (fun x => N.testbit x (j + 1)) H2) as E2. cbv beta in E2.
    rewrite N.land_spec, N.bits_0, N.ones_spec_low in E2 by lia.
    rewrite andb_true_r in E2. rewrite !N.lxor_spec in E2.
    rewrite rol32_1_bit in E2 by lia.
    replace (j + 1 - 1) with j in E2 by lia. rewrite E1 in E2.
    rewrite N.lxor_spec. rewrite xorb_false_l in E2. exact E2.
  - rewrite N.ones_spec_high by exact Hj. apply andb_false_r.
Qed.

Lemma one_land_ones bits : 1 <= bits -> N.land 1 (N.ones bits) = 1.
Proof.
  intros Hb. apply N.bits_inj. intros j. rewrite N.land_spec.
  destruct (N.eq_dec j 0) as [->|Hj].
  - rewrite N.ones_spec_low by lia. apply andb_true_r.
  - replace (N.testbit 1 j) with false; [reflexivity|].
    symmetry. change 1 with (2 ^ 0). apply N.pow2_bits_false. lia.
Qed.

(** * Shape of the state after an update *)
Definition buz_wf (width : N) (z : buz) : Prop :=
  N.of_nat (length (bw z)) = bfill z /\ bfill z <= width.

Definition buzstate_wf (width : N) (s : buzstate) : Prop :=
  match s with Some z => buz_wf width z | None => True end.

Lemma buz_fresh_wf width : buz_wf width buz_fresh.
Proof. split; cbn; [reflexivity|apply N.le_0_l]. Qed.

(** After any update: either the window is still filling and the output is 1, or it is
    full, the output is the hash, and the window ends with the byte just fed. *)
Lemma update_shape width s c z res :
  1 <= width -> buzstate_wf width s -> buzhash_update width s c = (z, res) ->
  buz_wf width z /\
  ((bfill z < width /\ res = 1) \/
   (bfill z = width /\ res = bh z /\ exists pre, bw z = pre ++ [c])).
Proof.
  intros Hw Hwf H. unfold buzhash_update in H.
  set (z0 := match s with Some z0 => z0 | None => buz_fresh end) in *.
  assert (Hz0 : buz_wf width z0).
  { subst z0. destruct s; [exact Hwf|apply buz_fresh_wf]. }
  destruct Hz0 as [Hl Hf].
  destruct (N.ltb_spec (bfill z0) width) as [Hlt|Hge].
  - destruct (N.ltb_spec (bfill z0 + 1) width) as [Hlt2|Hge2];
      inversion H; subst z res; clear H; unfold buz_wf; cbn [bw bfill bh].
    + split.
      * split; [rewrite app_length; cbn [length]; lia|lia].
      * left. split; [exact Hlt2|reflexivity].
    + split.
      * split; [rewrite app_length; cbn [length]; lia|lia].
      * right. split; [lia|]. split; [reflexivity|]. exists (bw z0). reflexivity.
  - inversion H; subst z res; clear H; unfold buz_wf; cbn [bw bfill bh].
    assert (Hfull : bfill z0 = width) by lia.
    split.
    + split; [|lia].
      rewrite app_length. cbn [length].
      destruct (bw z0) as [|x r] eqn:E; cbn [length tl] in *; lia.
    + right. split; [exact Hfull|]. split; [reflexivity|]. exists (tl (bw z0)). reflexivity.
Qed.

(** Update of a full window: the oldest byte leaves, the new one enters. *)
Lemma update_full width z c :
  bfill z = width ->
  buzhash_update width (Some z) c =
    (let h' := N.lxor (N.lxor (rol32 (bh z) 1) (rol32 (tbl (hd 0 (bw z))) width)) (tbl c) in
     ({| bw := tl (bw z) ++ [c]; bfill := bfill z; bh := h' |}, h')).
Proof.
  intros Hf. unfold buzhash_update. rewrite Hf, N.ltb_irrefl. reflexivity.
Qed.

(** First update after a reset, window wider than one byte: output 1. *)
Lemma update_reset width c :
  2 <= width -> snd (buzhash_update width None c) = 1.
Proof.
  intros Hw. unfold buzhash_update. cbn [buz_fresh bfill].
  destruct (N.ltb_spec 0 width); [|lia].
  change (0 + 1) with 1.
  destruct (N.ltb_spec 1 width); [|lia]. reflexivity.
Qed.

Lemma repeat_snoc {A} (x : A) n : repeat x n ++ [x] = repeat x (S n).
Proof. induction n as [|n IH]; cbn; [reflexivity|rewrite IH; reflexivity]. Qed.

Lemma tl_repeat_snoc {A} (x : A) n : (1 <= n)%nat -> tl (repeat x n) ++ [x] = repeat x n.
Proof.
  intros Hn. destruct n as [|n]; [lia|]. cbn [repeat tl]. apply repeat_snoc.
Qed.
