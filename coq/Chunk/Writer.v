(** Writer-side chunker: faithful model of comp_init (chunk limits), zck_write (manual and
    automatic loop, with the batching of the code), zck_end_chunk / comp_end_chunk and the
    final flush of zck_close in /repo/src/lib/comp/comp.c, zck.c.  Definitions only.

    A chunk is the list of its uncompressed bytes.  What is stored for a chunk (compressed
    bytes, digest) is a function of those bytes, of the compressor and of the dictionary
    ([stored_chunk] at the end), so "identical chunks" is equality of byte lists under the
    same configuration.  I/O and allocation failures are not modelled here (C12). *)
From ZV Require Import Base.Bytes Gen.GenConsts Chunk.Buzhash.
Local Open Scope N_scope.

(** * Configuration after comp_init *)
Record cfg := {
  c_manual : bool;      (* zck->manual_chunk *)
  c_min : N;            (* zck->chunk_min_size *)
  c_max : N;            (* zck->chunk_max_size *)
  c_auto_min : N;       (* zck->chunk_auto_min *)
  c_auto_max : N;       (* zck->chunk_auto_max *)
  c_width : N;          (* zck->buzhash_width *)
  c_bits : N;           (* zck->buzhash_match_bits *)
  c_mask : N            (* zck->buzhash_bitmask = 2^bits - 1 *)
}.

(** [comp_init] in write mode.  [min_opt], [max_opt] are the values of ZCK_CHUNK_MIN and
    ZCK_CHUNK_MAX as left by the option setter, 0 when unset.  Automatic mode computes the
    average [bitmask + 1], a quarter and four times of it, and clamps both into
    [chunk_min_size, chunk_max_size] (the code after the D26 fix: upper clamp first for the
    minimum, lower clamp first for the maximum).  In manual mode the automatic fields stay
    as zmalloc left them. *)
Definition comp_init_cfg (manual : bool) (min_opt max_opt : N) : cfg :=
  let mn := if min_opt =? 0 then CHUNK_DEFAULT_MIN else min_opt in
  let mx := if max_opt =? 0 then CHUNK_DEFAULT_MAX else max_opt in
  if manual then
    {| c_manual := true; c_min := mn; c_max := mx; c_auto_min := 0; c_auto_max := 0;
       c_width := 0; c_bits := 0; c_mask := 0 |}
  else
    let bits := DEFAULT_BUZHASH_BITS in
    let mask := N.ones bits in
    let a0 := (mask + 1) / 4 in
    let a1 := if mx <? a0 then mx else a0 in
    let amin := if a1 <? mn then mn else a1 in
    let b0 := (mask + 1) * 4 in
    let b1 := if b0 <? mn then mn else b0 in
    let amax := if mx <? b1 then mx else b1 in
    {| c_manual := false; c_min := mn; c_max := mx; c_auto_min := amin; c_auto_max := amax;
       c_width := DEFAULT_BUZHASH_WIDTH; c_bits := bits; c_mask := mask |}.

(** What the option setter ([comp_ioption]) lets through: ZCK_CHUNK_MIN needs
    [1 <= value <= chunk_max_size] (so the maximum has to be set first), ZCK_CHUNK_MAX needs
    [1 <= value] and [value >= chunk_min_size]. *)
Definition legal_opts (min_opt max_opt : N) : Prop :=
  min_opt = 0 \/ (1 <= min_opt /\ min_opt <= max_opt).

(** * Chunker state *)
Record wstate := {
  w_rdc : bytes;            (* uncompressed bytes of the current chunk, newest first *)
  w_sz : N;                 (* zck->comp.dc_data_size *)
  w_buz : buzstate;         (* zck->buzhash *)
  w_rdone : list bytes      (* finished chunks (each oldest byte first), newest chunk first *)
}.

Definition w_init : wstate := {| w_rdc := []; w_sz := 0; w_buz := None; w_rdone := [] |}.

(** Views in natural order ([rev_append l [] = rev l], without deep recursion when extracted). *)
Definition cur (st : wstate) : bytes := rev_append (w_rdc st) [].
Definition chunks (st : wstate) : list bytes := rev_append (w_rdone st) [].

Inductive wres := WOk (st : wstate) | WFuel.

Definition wbind (r : wres) (f : wstate -> wres) : wres :=
  match r with WOk s => f s | WFuel => WFuel end.

Definition set_buz (st : wstate) (z : buzstate) : wstate :=
  {| w_rdc := w_rdc st; w_sz := w_sz st; w_buz := z; w_rdone := w_rdone st |}.

(** [a ++ b] without deep recursion in the extracted program. *)
Definition app_tr (a b : bytes) : bytes := rev_append (rev_append a []) b.

(** [comp_write(zck, src, n)]: nothing for [n = 0]; otherwise the bytes join the current
    chunk and [dc_data_size += n].  Two entry points for the two ways the callers hold the
    source: newest byte first (the automatic loop's pending bytes) and in order. *)
Definition comp_write_rev (st : wstate) (pend : bytes) (n : N) : wstate :=
  if n =? 0 then st else
  {| w_rdc := app_tr pend (w_rdc st); w_sz := w_sz st + n; w_buz := w_buz st; w_rdone := w_rdone st |}.

Definition comp_write_fwd (st : wstate) (src : bytes) (n : N) : wstate :=
  if n =? 0 then st else
  {| w_rdc := rev_append src (w_rdc st); w_sz := w_sz st + n; w_buz := w_buz st; w_rdone := w_rdone st |}.

Section Chunker.
Variable c : cfg.

(** [comp_end_chunk(zck, final)]; [zck_end_chunk] is [final = false], [zck_close] uses
    [final = true] (the code after the D24 fix).  A chunk shorter than [chunk_min_size] is
    not ended unless it is the final one; otherwise the rolling hash is reset and a
    non-empty chunk is finished. *)
Definition end_chunk (final : bool) (st : wstate) : wstate :=
  if negb final && (w_sz st <? c_min c) then st
  else if w_sz st =? 0 then set_buz st buzhash_reset
  else {| w_rdc := []; w_sz := 0; w_buz := buzhash_reset;
          w_rdone := rev_append (w_rdc st) [] :: w_rdone st |}.

Definition end_chunk_model : wstate -> wstate := end_chunk false.
Definition close_model : wstate -> wstate := end_chunk true.

(** The boundary test of the automatic loop:
    [(buzhash_res & bitmask) == 0 || dc_data_size + i >= chunk_auto_max]. *)
Definition boundary (sz res : N) : bool :=
  (N.land res (c_mask c) =? 0) || (c_auto_max c <=? sz).

(** ** Automatic loop, as in the code.
    [for(i = 0; i < loc_size; )]: [pend] holds loc[0..i) newest first, [i] its length, the
    list argument is the buffer from loc[i] on.  One call of [feed] is one iteration of the
    C loop on the byte loc[i]:  the byte goes through buzhash_update; at a boundary the
    [i] pending bytes are written at once ([comp_write(loc, i)]), [i] becomes 0 and the chunk
    is ended or — below [chunk_auto_min] — the boundary is refused; either way the same byte
    is looked at again.  Otherwise [i++] ([cont] is the rest of the loop).  [k] bounds the
    number of consecutive iterations on one byte; when it runs out the result is [WFuel]
    (T1.1: never for a configuration made by comp_init from legal options). *)
Fixpoint feed (cont : wstate -> bytes -> N -> wres) (b : byte) (k : nat)
              (st : wstate) (pend : bytes) (i : N) {struct k} : wres :=
  match k with
  | O => WFuel
  | S k' =>
      let '(z, res) := buzhash_update (c_width c) (w_buz st) b in
      let st1 := set_buz st (Some z) in
      if boundary (w_sz st + i) res then
        let st2 := comp_write_rev st1 pend i in
        if w_sz st2 <? c_auto_min c then feed cont b k' st2 [] 0
        else feed cont b k' (end_chunk false st2) [] 0
      else cont st1 (b :: pend) (i + 1)
  end.

Fixpoint auto_loop (K : nat) (rest : bytes) (st : wstate) (pend : bytes) (i : N) {struct rest} : wres :=
  match rest with
  | [] => WOk (comp_write_rev st pend i)          (* the trailing comp_write(loc, loc_size) *)
  | b :: rest' => feed (auto_loop K rest') b K st pend i
  end.

(** Consecutive iterations allowed on one byte: [width + 2] (see T1.1). *)
Definition refeed_fuel : nat := N.to_nat (c_width c + 2).

(** ** Manual loop.
    [while(dc_data_size + loc_size > chunk_max_size)]: fill the chunk up to the maximum, end
    it.  [fuel] only has to be longer than the number of iterations (the caller passes the
    buffer itself plus two cells). *)
Fixpoint push_n (l : bytes) (n : N) (acc : bytes) : bytes * bytes :=
  match l with
  | [] => (acc, [])
  | x :: r => if n =? 0 then (acc, l) else push_n r (N.pred n) (x :: acc)
  end.

Fixpoint manual_loop (fuel : bytes) (st : wstate) (loc : bytes) (loc_size : N) {struct fuel} : wres :=
  if c_max c <? w_sz st + loc_size then
    match fuel with
    | [] => WFuel
    | _ :: fuel' =>
        let w := c_max c - w_sz st in
        let '(rdc', loc') := push_n loc w (w_rdc st) in
        let st1 := if w =? 0 then st else
                   {| w_rdc := rdc'; w_sz := w_sz st + w; w_buz := w_buz st; w_rdone := w_rdone st |} in
        manual_loop fuel' (end_chunk false st1) loc' (loc_size - w)
    end
  else WOk (comp_write_fwd st loc loc_size).

Fixpoint len_acc (l : bytes) (acc : N) : N :=
  match l with [] => acc | _ :: r => len_acc r (N.succ acc) end.

(** ** zck_write *)
Definition zck_write_model (st : wstate) (src : bytes) : wres :=
  match src with
  | [] => WOk st                                   (* src_size == 0 *)
  | _ =>
      if c_manual c then manual_loop (0 :: 0 :: src) st src (len_acc src 0)
      else auto_loop refeed_fuel src st [] 0
  end.

(** ** Operation sequences *)
Inductive wop := OpWrite (d : bytes) | OpEnd.

Definition wop_run (st : wstate) (o : wop) : wres :=
  match o with
  | OpWrite d => zck_write_model st d
  | OpEnd => WOk (end_chunk_model st)
  end.

Fixpoint run_ops (ops : list wop) (st : wstate) : wres :=
  match ops with
  | [] => WOk st
  | o :: r => wbind (wop_run st o) (run_ops r)
  end.

(** The chunk list of the file written by the operations followed by zck_close. *)
Definition write_file (ops : list wop) : option (list bytes) :=
  match run_ops ops w_init with
  | WOk s => Some (chunks (close_model s))
  | WFuel => None
  end.

(** ** The per-byte view (used by the theorems; T16.0 shows the loop above computes it).
    One byte: fed to the rolling hash; a boundary detected in front of it ends the current
    chunk or is refused, and the byte is fed again; otherwise it joins the current chunk. *)
Definition push (b : byte) (st : wstate) : wstate :=
  {| w_rdc := b :: w_rdc st; w_sz := w_sz st + 1; w_buz := w_buz st; w_rdone := w_rdone st |}.

Fixpoint step (k : nat) (st : wstate) (b : byte) {struct k} : wres :=
  match k with
  | O => WFuel
  | S k' =>
      let '(z, res) := buzhash_update (c_width c) (w_buz st) b in
      let st1 := set_buz st (Some z) in
      if boundary (w_sz st) res then
        if w_sz st <? c_auto_min c then step k' st1 b
        else step k' (end_chunk false st1) b
      else WOk (push b st1)
  end.

Fixpoint fold_step (k : nat) (l : bytes) (st : wstate) : wres :=
  match l with
  | [] => WOk st
  | b :: r => wbind (step k st b) (fold_step k r)
  end.

(** Manual mode per byte: a full chunk is ended in front of the byte. *)
Definition mstep (st : wstate) (b : byte) : wstate :=
  push b (if c_max c <? w_sz st + 1 then end_chunk false st else st).

End Chunker.

(** * What is stored for a chunk: a function of its bytes, the compressor and the dictionary *)
Section Stored.
Variable dictT : Type.
Variable zcomp : option dictT -> bytes -> bytes.   (* identity for ZCK_COMP_NONE *)
Variable H : bytes -> bytes.                        (* chunk digest *)

Record stored := { s_digest : bytes; s_data : bytes; s_ulen : N }.

Definition stored_chunk (d : option dictT) (ch : bytes) : stored :=
  let z := zcomp d ch in {| s_digest := H z; s_data := z; s_ulen := len ch |}.

Definition stored_file (d : option dictT) (chs : list bytes) : list stored :=
  map (stored_chunk d) chs.
End Stored.
