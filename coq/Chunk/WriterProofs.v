(** Theorems about the writer-side chunker model (Chunk/Writer.v). *)
From ZV Require Import Base.Bytes Gen.GenConsts Chunk.Buzhash Chunk.BuzhashProofs Chunk.Writer.
Local Open Scope N_scope.

(** * Normal forms *)
Lemma app_tr_eq a b : app_tr a b = a ++ b.
Proof.
  unfold app_tr. rewrite !rev_append_rev, app_nil_r, rev_involutive. reflexivity.
Qed.

Lemma cur_eq st : cur st = rev (w_rdc st).
Proof. unfold cur. rewrite rev_append_rev, app_nil_r. reflexivity. Qed.

Lemma chunks_eq st : chunks st = rev (w_rdone st).
Proof. unfold chunks. rewrite rev_append_rev, app_nil_r. reflexivity. Qed.

Lemma len_zero_nil (l : bytes) : len l = 0 -> l = [].
Proof. destruct l; [reflexivity|]. rewrite len_cons. lia. Qed.

Lemma len_rev (l : bytes) : len (rev l) = len l.
Proof. unfold len. rewrite rev_length. reflexivity. Qed.

(** The current chunk extended by [pend] (newest first). *)
Definition commit (st : wstate) (pend : bytes) : wstate :=
  {| w_rdc := pend ++ w_rdc st; w_sz := w_sz st + len pend; w_buz := w_buz st; w_rdone := w_rdone st |}.

Lemma commit_nil st : commit st [] = st.
Proof. destruct st as [r0 s0 z0 d0]. unfold commit. cbn [w_rdc w_sz w_buz w_rdone app]. rewrite len_nil, N.add_0_r. reflexivity. Qed.

Lemma commit_commit st p1 p2 : commit (commit st p1) p2 = commit st (p2 ++ p1).
Proof.
  unfold commit. cbn [w_rdc w_sz w_buz w_rdone]. rewrite app_assoc, len_app. f_equal. lia.
Qed.

Lemma comp_write_rev_eq st pend i : i = len pend -> comp_write_rev st pend i = commit st pend.
Proof.
  intros ->. unfold comp_write_rev. destruct (N.eqb_spec (len pend) 0) as [E|E].
  - apply len_zero_nil in E. subst pend. symmetry. apply commit_nil.
  - rewrite app_tr_eq. reflexivity.
Qed.

Lemma comp_write_fwd_eq st src n : n = len src -> comp_write_fwd st src n = commit st (rev src).
Proof.
  intros ->. unfold comp_write_fwd. destruct (N.eqb_spec (len src) 0) as [E|E].
  - apply len_zero_nil in E. subst src. symmetry. apply commit_nil.
  - rewrite rev_append_rev. unfold commit. rewrite len_rev. reflexivity.
Qed.

Lemma push_commit b st pend : push b (commit st pend) = commit st (b :: pend).
Proof.
  unfold push, commit. cbn [w_rdc w_sz w_buz w_rdone app]. rewrite len_cons. f_equal. lia.
Qed.

Lemma push_is_commit b st : push b st = commit st [b].
Proof. rewrite <- (commit_nil st) at 1. apply push_commit. Qed.

Lemma len_acc_eq l a : len_acc l a = a + len l.
Proof.
  revert a. induction l as [|x l IH]; intros a; cbn [len_acc].
  - rewrite len_nil. lia.
  - rewrite IH, len_cons. lia.
Qed.

Lemma wbind_ok r f s : wbind r f = WOk s -> exists s1, r = WOk s1 /\ f s1 = WOk s.
Proof. destruct r; cbn; intros H; [eauto|discriminate]. Qed.

Section Proofs.
Variable c : cfg.

(** * T16.0  batching is invisible: the loop of one zck_write call is the per-byte fold *)
Lemma feed_step cont cont2 b :
  (forall st pend i, i = len pend -> cont st pend i = cont2 (commit st pend)) ->
  forall k st pend i, i = len pend ->
  feed c cont b k st pend i = wbind (step c k (commit st pend) b) cont2.
Proof.
  intros Hc. induction k as [|k IH]; intros st pend i Hi; cbn [feed step]; [reflexivity|].
  change (w_buz (commit st pend)) with (w_buz st).
  destruct (buzhash_update (c_width c) (w_buz st) b) as [z res].
  change (w_sz (commit st pend)) with (w_sz st + len pend). subst i.
  destruct (boundary c (w_sz st + len pend) res).
  - rewrite comp_write_rev_eq by reflexivity.
    change (commit (set_buz st (Some z)) pend) with (set_buz (commit st pend) (Some z)).
    change (w_sz (set_buz (commit st pend) (Some z))) with (w_sz st + len pend).
    destruct (w_sz st + len pend <? c_auto_min c).
    + rewrite IH by reflexivity. rewrite commit_nil. reflexivity.
    + rewrite IH by reflexivity. rewrite commit_nil. reflexivity.
  - rewrite Hc by (rewrite len_cons; lia).
    change (commit (set_buz st (Some z)) (b :: pend)) with (set_buz (commit st (b :: pend)) (Some z)).
    cbn [wbind]. f_equal.
    change (set_buz (commit st pend) (Some z)) with (commit (set_buz st (Some z)) pend).
    rewrite push_commit. reflexivity.
Qed.

Theorem auto_loop_fold K rest : forall st pend i, i = len pend ->
  auto_loop c K rest st pend i = fold_step c K rest (commit st pend).
Proof.
  induction rest as [|b rest IH]; intros st pend i Hi; cbn [auto_loop fold_step].
  - rewrite comp_write_rev_eq by exact Hi. reflexivity.
  - apply feed_step; [|exact Hi]. exact IH.
Qed.

Theorem zck_write_auto st src :
  c_manual c = false -> zck_write_model c st src = fold_step c (refeed_fuel c) src st.
Proof.
  intros Hm. unfold zck_write_model. rewrite Hm. destruct src as [|b r]; [reflexivity|].
  rewrite auto_loop_fold by reflexivity. rewrite commit_nil. reflexivity.
Qed.

Lemma fold_step_app k a b st :
  fold_step c k (a ++ b) st = wbind (fold_step c k a st) (fold_step c k b).
Proof.
  revert st. induction a as [|x a IH]; intros st; cbn [app fold_step wbind]; [reflexivity|].
  destruct (step c k st x); cbn [wbind]; [apply IH|reflexivity].
Qed.

(** * T16.1 (automatic mode)  any segmentation into write calls is one write *)
Theorem write_segmentation_auto frags st :
  c_manual c = false ->
  run_ops c (map OpWrite frags) st = zck_write_model c st (concat frags).
Proof.
  intros Hm. rewrite zck_write_auto by exact Hm.
  revert st. induction frags as [|f frags IH]; intros st; cbn [map run_ops concat]; [reflexivity|].
  cbn [wop_run]. rewrite zck_write_auto by exact Hm. rewrite fold_step_app.
  destruct (fold_step c (refeed_fuel c) f st); cbn [wbind]; [apply IH|reflexivity].
Qed.

(** * Manual mode: the max-size loop is the per-byte fold of [mstep] *)
Definition manual_ok : Prop := 1 <= c_min c /\ c_min c <= c_max c.

Lemma push_n_spec : forall loc w acc, w <= len loc ->
  exists l1 l2, loc = l1 ++ l2 /\ len l1 = w /\ push_n loc w acc = (rev l1 ++ acc, l2).
Proof.
  induction loc as [|x loc IH]; intros w acc Hw.
  - rewrite len_nil in Hw. exists [], []. split; [reflexivity|]. split; [rewrite len_nil; lia|reflexivity].
  - cbn [push_n]. destruct (N.eqb_spec w 0) as [E|E].
    + subst w. exists [], (x :: loc). repeat split.
    + rewrite len_cons in Hw.
      destruct (IH (N.pred w) (x :: acc)) as (l1 & l2 & E1 & E2 & E3); [lia|].
      exists (x :: l1), l2. split; [cbn; rewrite E1; reflexivity|].
      split; [rewrite len_cons; lia|].
      rewrite E3. cbn [rev]. rewrite <- app_assoc. reflexivity.
Qed.

Lemma mfold_nobound : forall l st, w_sz st + len l <= c_max c ->
  fold_left (mstep c) l st = commit st (rev l).
Proof.
  induction l as [|b l IH]; intros st H; cbn [fold_left rev].
  - symmetry. apply commit_nil.
  - rewrite len_cons in H. unfold mstep at 2.
    destruct (N.ltb_spec (c_max c) (w_sz st + 1)); [lia|].
    rewrite IH by (unfold push; cbn [w_sz]; lia).
    rewrite push_is_commit, commit_commit. reflexivity.
Qed.

Lemma end_chunk_full st :
  manual_ok -> w_sz st = c_max c ->
  end_chunk c false st =
    {| w_rdc := []; w_sz := 0; w_buz := None; w_rdone := rev_append (w_rdc st) [] :: w_rdone st |}.
Proof.
  intros [H1 H2] Hs. unfold end_chunk. cbn [negb andb].
  destruct (N.ltb_spec (w_sz st) (c_min c)); [lia|].
  destruct (N.eqb_spec (w_sz st) 0); [lia|]. reflexivity.
Qed.

Lemma mstep_sz st b : manual_ok -> w_sz st <= c_max c -> w_sz (mstep c st b) <= c_max c.
Proof.
  intros Hok Hs. unfold mstep.
  destruct (N.ltb_spec (c_max c) (w_sz st + 1)).
  - rewrite end_chunk_full by (try exact Hok; lia). unfold push; cbn [w_sz]. destruct Hok. lia.
  - unfold push; cbn [w_sz]. lia.
Qed.

Lemma mfold_sz l : forall st, manual_ok -> w_sz st <= c_max c ->
  w_sz (fold_left (mstep c) l st) <= c_max c.
Proof.
  induction l as [|b l IH]; intros st Hok Hs; cbn [fold_left]; [exact Hs|].
  apply IH; [exact Hok|]. apply mstep_sz; assumption.
Qed.

Lemma manual_loop_fold : manual_ok -> forall fuel st loc,
  w_sz st <= c_max c ->
  (length loc + (if N.ltb (w_sz st) (c_max c) then 0 else 1) <= length fuel)%nat ->
  manual_loop c fuel st loc (len loc) = WOk (fold_left (mstep c) loc st).
Proof.
  intros Hok. induction fuel as [|f0 fuel IH]; intros st loc Hs Hf.
  - (* no fuel is only possible with an empty buffer that fits *)
    cbn [length] in Hf. assert (loc = []) by (destruct loc; [reflexivity|cbn in Hf; lia]). subst loc.
    destruct (N.ltb_spec (w_sz st) (c_max c)); [|lia].
    cbn [manual_loop]. rewrite len_nil, N.add_0_r.
    destruct (N.ltb_spec (c_max c) (w_sz st)); [lia|].
    rewrite comp_write_fwd_eq by (rewrite len_nil; reflexivity). cbn. rewrite commit_nil. reflexivity.
  - cbn [manual_loop].
    destruct (N.ltb_spec (c_max c) (w_sz st + len loc)) as [Hover|Hfit].
    + set (w := c_max c - w_sz st).
      destruct (push_n_spec loc w (w_rdc st)) as (l1 & l2 & E1 & E2 & E3); [subst w; lia|].
      rewrite E3.
      assert (Est1 : (if w =? 0 then st else
                {| w_rdc := rev l1 ++ w_rdc st; w_sz := w_sz st + w; w_buz := w_buz st; w_rdone := w_rdone st |})
               = commit st (rev l1)).
      { destruct (N.eqb_spec w 0) as [E|E].
        - rewrite E in E2. apply len_zero_nil in E2. subst l1. symmetry. apply commit_nil.
        - unfold commit. rewrite len_rev, E2. reflexivity. }
      rewrite Est1.
      assert (Hsz1 : w_sz (commit st (rev l1)) = c_max c).
      { unfold commit; cbn [w_sz]. rewrite len_rev, E2. subst w. lia. }
      assert (Hl2 : len loc - w = len l2).
      { rewrite E1, len_app, E2. lia. }
      rewrite Hl2.
      assert (Hne : l2 <> []).
      { intros ->. rewrite len_nil in Hl2. subst w. lia. }
      rewrite (end_chunk_full _ Hok Hsz1).
      rewrite IH.
      * f_equal. rewrite E1, fold_left_app.
        rewrite (mfold_nobound l1 st) by (rewrite E2; subst w; lia).
        destruct l2 as [|b l2]; [congruence|]. cbn [fold_left]. f_equal.
        unfold mstep. rewrite Hsz1. cbn [w_sz].
        destruct (N.ltb_spec (c_max c) (c_max c + 1)); [|lia].
        destruct (N.ltb_spec (c_max c) (0 + 1)); [destruct Hok; lia|].
        rewrite (end_chunk_full _ Hok Hsz1). reflexivity.
      * cbn [w_sz]. apply N.le_0_l.
      * cbn [w_sz length] in *.
        destruct (N.ltb_spec 0 (c_max c)); [|destruct Hok; lia].
        rewrite E1, app_length in Hf.
        destruct (N.ltb_spec (w_sz st) (c_max c)).
        -- assert (length l1 <> 0)%nat; [|lia].
           intros E0. destruct l1; [|discriminate]. rewrite len_nil in E2. subst w. lia.
        -- lia.
    + rewrite comp_write_fwd_eq by reflexivity. rewrite mfold_nobound by exact Hfit. reflexivity.
Qed.

Theorem zck_write_manual st src :
  c_manual c = true -> manual_ok -> w_sz st <= c_max c ->
  zck_write_model c st src = WOk (fold_left (mstep c) src st).
Proof.
  intros Hm Hok Hs. unfold zck_write_model. rewrite Hm. destruct src as [|b r]; [reflexivity|].
  rewrite len_acc_eq, N.add_0_l. apply manual_loop_fold; [exact Hok|exact Hs|].
  cbn [length]. destruct (w_sz st <? c_max c); lia.
Qed.

(** * T16.1 (manual mode) *)
Theorem write_segmentation_manual frags st :
  c_manual c = true -> manual_ok -> w_sz st <= c_max c ->
  run_ops c (map OpWrite frags) st = zck_write_model c st (concat frags).
Proof.
  intros Hm Hok Hs. rewrite (zck_write_manual st) by assumption.
  revert st Hs. induction frags as [|f frags IH]; intros st Hs; cbn [map run_ops concat]; [reflexivity|].
  cbn [wop_run]. rewrite zck_write_manual by assumption. cbn [wbind].
  rewrite IH by (apply mfold_sz; assumption). rewrite fold_left_app. reflexivity.
Qed.

(** * The per-byte step: elimination principle and primitive moves *)
Lemma step_elim (b : byte) (R : wstate -> wstate -> Prop) :
  (forall st z res, buzhash_update (c_width c) (w_buz st) b = (z, res) ->
     boundary c (w_sz st) res = false -> R st (push b (set_buz st (Some z)))) ->
  (forall st z res s', buzhash_update (c_width c) (w_buz st) b = (z, res) ->
     boundary c (w_sz st) res = true -> w_sz st < c_auto_min c ->
     R (set_buz st (Some z)) s' -> R st s') ->
  (forall st z res s', buzhash_update (c_width c) (w_buz st) b = (z, res) ->
     boundary c (w_sz st) res = true -> c_auto_min c <= w_sz st ->
     R (end_chunk c false (set_buz st (Some z))) s' -> R st s') ->
  forall k st s', step c k st b = WOk s' -> R st s'.
Proof.
  intros Ha Hr He. induction k as [|k IH]; intros st s' H; cbn [step] in H; [discriminate|].
  destruct (buzhash_update (c_width c) (w_buz st) b) as [z res] eqn:Eu.
  destruct (boundary c (w_sz st) res) eqn:Eb.
  - destruct (N.ltb_spec (w_sz st) (c_auto_min c)) as [Hlt|Hge].
    + eapply Hr; eauto.
    + eapply He; eauto.
  - inversion H; subst s'. eapply Ha; eauto.
Qed.

Lemma end_chunk_shape final st :
  end_chunk c final st = st \/ end_chunk c final st = set_buz st None \/
  (end_chunk c final st =
     {| w_rdc := []; w_sz := 0; w_buz := None; w_rdone := rev (w_rdc st) :: w_rdone st |}
   /\ w_sz st <> 0 /\ (final = true \/ c_min c <= w_sz st)).
Proof.
  unfold end_chunk.
  destruct (negb final && (w_sz st <? c_min c)) eqn:E1; [left; reflexivity|].
  destruct (N.eqb_spec (w_sz st) 0) as [E2|E2]; [right; left; reflexivity|].
  right. right. rewrite rev_append_rev, app_nil_r. split; [reflexivity|]. split; [exact E2|].
  destruct final; [left; reflexivity|right].
  cbn [negb andb] in E1. apply N.ltb_ge. exact E1.
Qed.

(** ** Size invariant: [dc_data_size] is the length of the current chunk *)
Definition inv_sz (st : wstate) : Prop := w_sz st = len (w_rdc st).

Lemma inv_sz_init : inv_sz w_init.
Proof. reflexivity. Qed.

Lemma inv_sz_push b st : inv_sz st -> inv_sz (push b st).
Proof. unfold inv_sz, push; cbn [w_sz w_rdc]. rewrite len_cons. lia. Qed.

Lemma inv_sz_end final st : inv_sz st -> inv_sz (end_chunk c final st).
Proof.
  intros H. destruct (end_chunk_shape final st) as [E|[E|[E _]]]; rewrite E; try exact H.
  reflexivity.
Qed.

Lemma inv_sz_commit st p : inv_sz st -> inv_sz (commit st p).
Proof. unfold inv_sz, commit; cbn [w_sz w_rdc]. rewrite len_app. lia. Qed.

(** ** Extension: finished chunks only grow, and the first new chunk continues the
    current one *)
Definition ext (st s' : wstate) : Prop :=
  (chunks s' = chunks st /\ exists m, cur s' = cur st ++ m) \/
  (exists m t, chunks s' = chunks st ++ (cur st ++ m) :: t).

Lemma ext_refl st : ext st st.
Proof. left. split; [reflexivity|]. exists []. rewrite app_nil_r. reflexivity. Qed.

Lemma ext_trans a b d : ext a b -> ext b d -> ext a d.
Proof.
  intros [[E1 [m1 C1]]|[m1 [t1 E1]]] [[E2 [m2 C2]]|[m2 [t2 E2]]].
  - left. split; [congruence|]. exists (m1 ++ m2). rewrite C2, C1, app_assoc. reflexivity.
  - right. exists (m1 ++ m2), t2. rewrite E2, E1, C1, app_assoc. reflexivity.
  - right. exists m1, t1. congruence.
  - right. exists m1, (t1 ++ (cur b ++ m2) :: t2). rewrite E2, E1, <- app_assoc. reflexivity.
Qed.

Lemma ext_set_buz st z : ext st (set_buz st z).
Proof. left. split; [reflexivity|]. exists []. rewrite app_nil_r. reflexivity. Qed.

Lemma ext_push b st : ext st (push b st).
Proof.
  left. split; [reflexivity|]. exists [b]. rewrite !cur_eq. reflexivity.
Qed.

Lemma ext_end final st : ext st (end_chunk c final st).
Proof.
  destruct (end_chunk_shape final st) as [E|[E|[E _]]]; rewrite E.
  - apply ext_refl.
  - apply ext_set_buz.
  - right. exists [], []. rewrite !chunks_eq, cur_eq. cbn [w_rdone rev]. rewrite app_nil_r. reflexivity.
Qed.

(** ** Conservation: finished chunks followed by the current one are the bytes written *)
Definition total (st : wstate) : bytes := concat (chunks st) ++ cur st.

Lemma total_push b st : total (push b st) = total st ++ [b].
Proof. unfold total. rewrite !cur_eq. cbn [push w_rdc rev]. rewrite app_assoc. reflexivity. Qed.

Lemma total_end final st : total (end_chunk c final st) = total st.
Proof.
  destruct (end_chunk_shape final st) as [E|[E|[E _]]]; rewrite E; try reflexivity.
  unfold total. rewrite !chunks_eq, !cur_eq. cbn [w_rdone w_rdc rev].
  rewrite concat_app. cbn [concat]. rewrite !app_nil_r. reflexivity.
Qed.

(** ** Facts about one step and about the fold *)
Lemma step_inv_sz b k st s' : step c k st b = WOk s' -> inv_sz st -> inv_sz s'.
Proof.
  revert k st s'. apply (step_elim b (fun st s' => inv_sz st -> inv_sz s')).
  - intros st z res _ _ H. apply inv_sz_push. exact H.
  - intros st z res s' _ _ _ IH H. apply IH. exact H.
  - intros st z res s' _ _ _ IH H. apply IH. apply inv_sz_end. exact H.
Qed.

Lemma step_ext b k st s' : step c k st b = WOk s' -> ext st s'.
Proof.
  revert k st s'. apply (step_elim b ext).
  - intros st z res _ _. eapply ext_trans; [apply ext_set_buz|apply ext_push].
  - intros st z res s' _ _ _ IH. eapply ext_trans; [apply ext_set_buz|exact IH].
  - intros st z res s' _ _ _ IH.
    eapply ext_trans; [apply ext_set_buz|]. eapply ext_trans; [apply ext_end|exact IH].
Qed.

Lemma step_total_bytes b k st s' : step c k st b = WOk s' -> total s' = total st ++ [b].
Proof.
  revert k st s'. apply (step_elim b (fun st s' => total s' = total st ++ [b])).
  - intros st z res _ _. rewrite total_push. reflexivity.
  - intros st z res s' _ _ _ IH. exact IH.
  - intros st z res s' _ _ _ IH. rewrite IH, total_end. reflexivity.
Qed.

Lemma fold_inv_sz k l : forall st s', fold_step c k l st = WOk s' -> inv_sz st -> inv_sz s'.
Proof.
  induction l as [|b l IH]; intros st s' H Hi; cbn [fold_step] in H.
  - inversion H; subst; exact Hi.
  - apply wbind_ok in H. destruct H as (s1 & H1 & H2).
    eapply IH; [exact H2|]. eapply step_inv_sz; eauto.
Qed.

Lemma fold_ext k l : forall st s', fold_step c k l st = WOk s' -> ext st s'.
Proof.
  induction l as [|b l IH]; intros st s' H; cbn [fold_step] in H.
  - inversion H; subst. apply ext_refl.
  - apply wbind_ok in H. destruct H as (s1 & H1 & H2).
    eapply ext_trans; [eapply step_ext; exact H1|eapply IH; exact H2].
Qed.

Lemma fold_total_bytes k l : forall st s', fold_step c k l st = WOk s' -> total s' = total st ++ l.
Proof.
  induction l as [|b l IH]; intros st s' H; cbn [fold_step] in H.
  - inversion H; subst. rewrite app_nil_r. reflexivity.
  - apply wbind_ok in H. destruct H as (s1 & H1 & H2).
    rewrite (IH _ _ H2), (step_total_bytes _ _ _ _ H1), <- app_assoc. reflexivity.
Qed.

(** * T16.2  prefix locality *)
Lemma ext_prefix st s' : ext st s' ->
  exists t, chunks s' = chunks st ++ t /\ (t = [] \/ exists m t', t = (cur st ++ m) :: t').
Proof.
  intros [[E _]|[m [t E]]].
  - exists []. rewrite app_nil_r. split; [exact E|left; reflexivity].
  - exists ((cur st ++ m) :: t). split; [exact E|right; eauto].
Qed.

Lemma concat_firstn_past (A : list bytes) x t n :
  (length A < n)%nat -> len (concat A) + len x <= len (concat (firstn n (A ++ x :: t))).
Proof.
  intros Hn. rewrite firstn_app. rewrite firstn_all2 by lia.
  destruct (n - length A)%nat as [|q] eqn:Eq; [lia|].
  cbn [firstn]. rewrite concat_app. cbn [concat]. rewrite !len_app. lia.
Qed.

(** Two inputs [P ++ x1], [P ++ x2] processed from the same state and closed: a chunk of the
    first file that ends strictly inside the common prefix [P] (its end offset, counted from
    the first byte ever written, is below the end of [P]) is, at the same index, a chunk of
    the second file. *)
Theorem prefix_locality k P x1 x2 st0 s1 s2 :
  fold_step c k (P ++ x1) st0 = WOk s1 ->
  fold_step c k (P ++ x2) st0 = WOk s2 ->
  forall j ch,
    nth_error (chunks (close_model c s1)) j = Some ch ->
    len (concat (firstn (S j) (chunks (close_model c s1)))) < len (total st0) + len P ->
    nth_error (chunks (close_model c s2)) j = Some ch.
Proof.
  intros H1 H2 j ch Hj Hoff.
  rewrite fold_step_app in H1, H2.
  apply wbind_ok in H1. destruct H1 as (sP & HP & H1).
  apply wbind_ok in H2. destruct H2 as (sP' & HP' & H2).
  rewrite HP in HP'. inversion HP'; subst sP'. clear HP'.
  assert (X1 : ext sP (close_model c s1)).
  { eapply ext_trans; [eapply fold_ext; exact H1|apply ext_end]. }
  assert (X2 : ext sP (close_model c s2)).
  { eapply ext_trans; [eapply fold_ext; exact H2|apply ext_end]. }
  apply ext_prefix in X1. destruct X1 as (t1 & E1 & T1).
  apply ext_prefix in X2. destruct X2 as (t2 & E2 & _).
  pose proof (fold_total_bytes _ _ _ _ HP) as Htot.
  assert (Hlt : (j < length (chunks sP))%nat).
  { destruct (Nat.lt_ge_cases j (length (chunks sP))) as [L|G]; [exact L|exfalso].
    destruct T1 as [->|(m & t' & ->)].
    - rewrite app_nil_r in E1. rewrite E1 in Hj.
      apply nth_error_None in G. rewrite Hj in G. discriminate.
    - rewrite E1 in Hoff.
      pose proof (concat_firstn_past (chunks sP) (cur sP ++ m) t' (S j)) as Hc.
      assert (Hb : len (total st0) + len P = len (concat (chunks sP)) + len (cur sP)).
      { rewrite <- len_app, <- Htot. unfold total. rewrite len_app. reflexivity. }
      specialize (Hc ltac:(lia)). rewrite (len_app (cur sP) m) in Hc.
      unfold bytes, byte in *. lia. }
  rewrite E1 in Hj. rewrite E2.
  rewrite nth_error_app1 in Hj by exact Hlt. rewrite nth_error_app1 by exact Hlt. exact Hj.
Qed.

(** * T16.3  resynchronisation: the run does not depend on the chunks already finished *)
Definition app_done (d : list bytes) (st : wstate) : wstate :=
  {| w_rdc := w_rdc st; w_sz := w_sz st; w_buz := w_buz st; w_rdone := w_rdone st ++ d |}.

Definition wmap (f : wstate -> wstate) (r : wres) : wres :=
  match r with WOk s => WOk (f s) | WFuel => WFuel end.

Lemma end_chunk_app_done d final st :
  end_chunk c final (app_done d st) = app_done d (end_chunk c final st).
Proof.
  unfold end_chunk. cbn [app_done w_sz w_rdc w_rdone].
  destruct (negb final && (w_sz st <? c_min c)); [reflexivity|].
  destruct (w_sz st =? 0); reflexivity.
Qed.

Lemma step_app_done d b k : forall st,
  step c k (app_done d st) b = wmap (app_done d) (step c k st b).
Proof.
  induction k as [|k IH]; intros st; cbn [step wmap]; [reflexivity|].
  change (w_buz (app_done d st)) with (w_buz st).
  change (w_sz (app_done d st)) with (w_sz st).
  destruct (buzhash_update (c_width c) (w_buz st) b) as [z res].
  destruct (boundary c (w_sz st) res).
  - destruct (w_sz st <? c_auto_min c).
    + change (set_buz (app_done d st) (Some z)) with (app_done d (set_buz st (Some z))). apply IH.
    + change (set_buz (app_done d st) (Some z)) with (app_done d (set_buz st (Some z))).
      rewrite end_chunk_app_done. apply IH.
  - reflexivity.
Qed.

Lemma fold_app_done d k l : forall st,
  fold_step c k l (app_done d st) = wmap (app_done d) (fold_step c k l st).
Proof.
  induction l as [|b l IH]; intros st; cbn [fold_step]; [reflexivity|].
  rewrite step_app_done. destruct (step c k st b); cbn [wmap wbind]; [apply IH|reflexivity].
Qed.

Lemma chunks_app_done d st : chunks (app_done d st) = rev d ++ chunks st.
Proof. rewrite !chunks_eq. cbn [app_done w_rdone]. apply rev_app_distr. Qed.

Definition core (st : wstate) : wstate :=
  {| w_rdc := w_rdc st; w_sz := w_sz st; w_buz := w_buz st; w_rdone := [] |}.

Lemma app_done_core st : app_done (w_rdone st) (core st) = st.
Proof. destruct st as [r0 s0 z0 d0]. reflexivity. Qed.

(** Two runs whose states agree on the current chunk, its size and the rolling hash (in
    particular: both just started a chunk, [w_rdc = []], [w_buz = None]) and that are given
    the same bytes from there finish the same chunks and end in the same state, whatever
    came before. *)
Theorem resync k S sA sB :
  w_rdc sA = w_rdc sB -> w_sz sA = w_sz sB -> w_buz sA = w_buz sB ->
  match fold_step c k S sA, fold_step c k S sB with
  | WOk a, WOk b =>
      exists t tc,
        chunks a = chunks sA ++ t /\ chunks b = chunks sB ++ t /\
        w_rdc a = w_rdc b /\ w_sz a = w_sz b /\ w_buz a = w_buz b /\
        chunks (close_model c a) = chunks sA ++ tc /\
        chunks (close_model c b) = chunks sB ++ tc
  | WFuel, WFuel => True
  | _, _ => False
  end.
Proof.
  intros E1 E2 E3.
  assert (Ec : core sA = core sB) by (unfold core; congruence).
  rewrite <- (app_done_core sA), <- (app_done_core sB), <- Ec.
  rewrite !fold_app_done.
  destruct (fold_step c k S (core sA)) as [s|]; cbn [wmap]; [|exact I].
  exists (chunks s), (chunks (close_model c s)).
  unfold close_model. rewrite !end_chunk_app_done, !chunks_app_done.
  rewrite !chunks_eq. cbn [core w_rdone rev]. rewrite !app_nil_r.
  repeat split; reflexivity.
Qed.

(** * T16.4  size bounds of the chunks ended by the automatic loop *)
Definition chunk_bounded (ch : bytes) : Prop := c_auto_min c <= len ch /\ len ch <= c_auto_max c.

Lemma step_bounds b k st s' :
  step c k st b = WOk s' -> inv_sz st -> w_sz st <= c_auto_max c ->
  w_sz s' <= c_auto_max c /\ exists t, w_rdone s' = t ++ w_rdone st /\ Forall chunk_bounded t.
Proof.
  revert k st s'.
  apply (step_elim b (fun st s' => inv_sz st -> w_sz st <= c_auto_max c ->
    w_sz s' <= c_auto_max c /\ exists t, w_rdone s' = t ++ w_rdone st /\ Forall chunk_bounded t)).
  - intros st z res _ Hb Hi Hs. unfold boundary in Hb. apply orb_false_iff in Hb. destruct Hb as [_ Hb].
    apply N.leb_gt in Hb. split; [unfold push, set_buz; cbn [w_sz]; lia|]. exists []. split; [reflexivity|constructor].
  - intros st z res s' _ _ _ IH Hi Hs. apply IH; assumption.
  - intros st z res s' _ _ Hge IH Hi Hs.
    destruct (end_chunk_shape false (set_buz st (Some z))) as [E|[E|[E _]]]; rewrite E in IH.
    + apply IH; assumption.
    + apply IH; assumption.
    + destruct IH as [IH1 (t & IH2 & IH3)]; [reflexivity|cbn [w_sz]; apply N.le_0_l|].
      split; [exact IH1|]. cbn [w_rdone set_buz w_rdc] in IH2.
      exists (t ++ [rev (w_rdc st)]). split; [rewrite IH2, <- app_assoc; reflexivity|].
      apply Forall_app. split; [exact IH3|]. constructor; [|constructor].
      unfold chunk_bounded. rewrite len_rev. unfold inv_sz in Hi. rewrite <- Hi. lia.
Qed.

Theorem fold_bounds k l : forall st s',
  fold_step c k l st = WOk s' -> inv_sz st -> w_sz st <= c_auto_max c ->
  w_sz s' <= c_auto_max c /\ inv_sz s' /\
  exists t, chunks s' = chunks st ++ t /\ Forall chunk_bounded t.
Proof.
  induction l as [|b l IH]; intros st s' H Hi Hs; cbn [fold_step] in H.
  - inversion H; subst. split; [exact Hs|]. split; [exact Hi|]. exists []. rewrite app_nil_r. split; [reflexivity|constructor].
  - apply wbind_ok in H. destruct H as (s1 & H1 & H2).
    destruct (step_bounds _ _ _ _ H1 Hi Hs) as (Hs1 & t1 & E1 & F1).
    pose proof (step_inv_sz _ _ _ _ H1 Hi) as Hi1.
    destruct (IH _ _ H2 Hi1 Hs1) as (Hs2 & Hi2 & t2 & E2 & F2).
    split; [exact Hs2|]. split; [exact Hi2|].
    exists (rev t1 ++ t2). split.
    + rewrite E2, !chunks_eq, E1, rev_app_distr, app_assoc. reflexivity.
    + apply Forall_app. split; [|exact F2]. apply Forall_rev. exact F1.
Qed.

(** * T1.1  termination of the automatic loop *)
(** What comp_init establishes for automatic chunking (see [comp_init_cfg_ok]). *)
Definition cfg_ok : Prop :=
  2 <= c_width c /\ c_mask c = N.ones (c_bits c) /\ 2 <= c_bits c /\ c_bits c <= 32 /\
  table_ok (c_width c) (c_bits c) = true /\
  1 <= c_min c /\ c_min c <= c_auto_min c /\ c_auto_min c <= c_auto_max c.

(** A chain of refused boundaries on the same byte [b]: the window is full, ends with [n]
    copies of [b] after [m] other bytes, and the last output had the low bits clear.  After
    at most [m] further refusals the window holds only [b]; then the next output is
    [rol32(h,1) ^ roll_const b] and cannot have the low bits clear again (table sweep). *)
Lemma refusal_chain b : cfg_ok -> b < 256 ->
  forall m k z pre n st, (m + 1 <= k)%nat ->
    w_buz st = Some z -> bfill z = c_width c -> bw z = pre ++ repeat b n -> (1 <= n)%nat ->
    length pre = m -> N.land (bh z) (c_mask c) = 0 -> w_sz st < c_auto_min c ->
    exists s', step c k st b = WOk s'.
Proof.
  intros (Hw & Hmask & Hb2 & Hb32 & Htab & Hmin & Hamin & Hamax) Hb.
  induction m as [|m IH]; intros k z pre n st Hk Hz Hfull Hwin Hn Hpre Htrig Hsz;
    (destruct k as [|k]; [lia|]); cbn [step]; rewrite Hz, (update_full _ _ _ Hfull); cbv zeta;
    unfold boundary;
    (destruct (N.leb_spec (c_auto_max c) (w_sz st)) as [Hbad|_]; [lia|]); rewrite orb_false_r.
  - destruct pre; [|discriminate]. cbn [app] in Hwin.
    destruct (N.eqb_spec (N.land (N.lxor (N.lxor (rol32 (bh z) 1)
               (rol32 (tbl (hd 0 (bw z))) (c_width c))) (tbl b)) (c_mask c)) 0) as [E|E].
    + exfalso. rewrite Hwin in E. destruct n as [|n]; [lia|]. cbn [repeat hd] in E.
      rewrite Hmask in E, Htrig.
      pose proof (double_trigger _ _ _ _ Hb2 Hb32 Htrig E) as D.
      pose proof (table_ok_spec _ _ _ Htab Hb) as T. unfold refeed_ok, roll_const in T.
      rewrite D in T. discriminate.
    + eauto.
  - destruct pre as [|x pre]; [discriminate|]. cbn [length] in Hpre.
    set (h' := N.lxor (N.lxor (rol32 (bh z) 1) (rol32 (tbl (hd 0 (bw z))) (c_width c))) (tbl b)).
    destruct (N.eqb_spec (N.land h' (c_mask c)) 0) as [E|E]; [|eauto].
    destruct (N.ltb_spec (w_sz st) (c_auto_min c)) as [_|Hbad]; [|lia].
    apply (IH k {| bw := tl (bw z) ++ [b]; bfill := bfill z; bh := h' |} pre (S n)
              (set_buz st (Some {| bw := tl (bw z) ++ [b]; bfill := bfill z; bh := h' |})));
      [lia|reflexivity|exact Hfull| |lia|lia|exact E|exact Hsz].
    cbn [bw]. rewrite Hwin. cbn [app tl]. rewrite <- app_assoc, repeat_snoc. reflexivity.
Qed.

Lemma step_buz_wf b k st s' :
  1 <= c_width c -> step c k st b = WOk s' ->
  buzstate_wf (c_width c) (w_buz st) -> buzstate_wf (c_width c) (w_buz s').
Proof.
  intros Hw. revert k st s'.
  apply (step_elim b (fun st s' => buzstate_wf (c_width c) (w_buz st) -> buzstate_wf (c_width c) (w_buz s'))).
  - intros st z res Eu _ Hwf. cbn [push set_buz w_buz].
    destruct (update_shape _ _ _ _ _ Hw Hwf Eu) as [H _]. exact H.
  - intros st z res s' Eu _ _ IH Hwf. apply IH. cbn [set_buz w_buz].
    destruct (update_shape _ _ _ _ _ Hw Hwf Eu) as [H _]. exact H.
  - intros st z res s' Eu _ _ IH Hwf. apply IH.
    destruct (update_shape _ _ _ _ _ Hw Hwf Eu) as [H _].
    destruct (end_chunk_shape false (set_buz st (Some z))) as [E|[E|[E _]]]; rewrite E; cbn [set_buz w_buz]; [exact H|exact I|exact I].
Qed.

(** One byte needs at most [width + 1] iterations. *)
Lemma step_terminates b k st :
  cfg_ok -> b < 256 -> buzstate_wf (c_width c) (w_buz st) -> (N.to_nat (c_width c) + 1 <= k)%nat ->
  exists s', step c k st b = WOk s'.
Proof.
  intros Hok Hb Hwf Hk.
  pose proof Hok as (Hw & Hmask & Hb2 & Hb32 & Htab & Hmin & Hamin & Hamax).
  destruct k as [|k]; [lia|]. cbn [step].
  destruct (buzhash_update (c_width c) (w_buz st) b) as [z res] eqn:Eu.
  assert (Hw1 : 1 <= c_width c) by lia.
  destruct (update_shape _ _ _ _ _ Hw1 Hwf Eu) as [Hz Hshape].
  destruct (boundary c (w_sz st) res) eqn:Eb; [|eauto].
  destruct (N.ltb_spec (w_sz st) (c_auto_min c)) as [Hlt|Hge].
  - (* refused: it was the hash, on a full window *)
    unfold boundary in Eb.
    destruct (N.leb_spec (c_auto_max c) (w_sz st)) as [Hbad|_]; [lia|]. rewrite orb_false_r in Eb.
    apply N.eqb_eq in Eb.
    destruct Hshape as [[_ ->]|(Hfull & -> & pre & Hwin)].
    + rewrite Hmask, one_land_ones in Eb by lia. discriminate.
    + assert (Hlen : (length pre + 1 <= k)%nat).
      { destruct Hz as [Hl _]. rewrite Hwin, app_length in Hl. cbn [length] in Hl. lia. }
      apply (refusal_chain b Hok Hb (length pre) k z pre 1%nat (set_buz st (Some z)));
        [exact Hlen|reflexivity|exact Hfull|exact Hwin|lia|reflexivity|exact Eb|exact Hlt].
  - (* the chunk is ended, the hash restarts: the byte is taken *)
    assert (E : end_chunk c false (set_buz st (Some z)) =
      {| w_rdc := []; w_sz := 0; w_buz := None; w_rdone := rev_append (w_rdc st) [] :: w_rdone st |}).
    { unfold end_chunk. cbn [negb andb set_buz w_sz w_rdc w_rdone].
      destruct (N.ltb_spec (w_sz st) (c_min c)); [lia|].
      destruct (N.eqb_spec (w_sz st) 0); [lia|]. reflexivity. }
    rewrite E. destruct k as [|k]; [lia|]. cbn [step w_buz w_sz].
    pose proof (update_reset (c_width c) b Hw) as Hr.
    destruct (buzhash_update (c_width c) None b) as [z2 res2]. cbn [snd] in Hr. subst res2.
    unfold boundary. rewrite Hmask, one_land_ones by lia.
    destruct (N.leb_spec (c_auto_max c) 0) as [Hbad|_]; [lia|]. cbn. eauto.
Qed.

Lemma fold_terminates k l : forall st,
  cfg_ok -> wf_bytes l -> buzstate_wf (c_width c) (w_buz st) -> (N.to_nat (c_width c) + 1 <= k)%nat ->
  exists s', fold_step c k l st = WOk s' /\ buzstate_wf (c_width c) (w_buz s').
Proof.
  induction l as [|b l IH]; intros st Hok Hl Hwf Hk; cbn [fold_step].
  - eauto.
  - inversion Hl as [|? ? Hb Hl']; subst.
    destruct (step_terminates b k st Hok Hb Hwf Hk) as [s1 H1]. rewrite H1. cbn [wbind].
    apply IH; try assumption.
    eapply step_buz_wf; [|exact H1|exact Hwf]. destruct Hok. lia.
Qed.

(** The automatic loop of a zck_write call on [n] bytes returns; every byte is looked at at
    most [width + 1 <= refeed_fuel] times, i.e. the loop makes at most [n * (width + 1)]
    iterations. *)
Theorem zck_write_terminates st src :
  c_manual c = false -> cfg_ok -> wf_bytes src -> buzstate_wf (c_width c) (w_buz st) ->
  exists s', zck_write_model c st src = WOk s' /\ buzstate_wf (c_width c) (w_buz s').
Proof.
  intros Hm Hok Hl Hwf. rewrite zck_write_auto by exact Hm.
  apply fold_terminates; try assumption. unfold refeed_fuel. lia.
Qed.

Lemma end_chunk_buz_wf final st :
  buzstate_wf (c_width c) (w_buz st) -> buzstate_wf (c_width c) (w_buz (end_chunk c final st)).
Proof.
  intros H. destruct (end_chunk_shape final st) as [E|[E|[E _]]]; rewrite E; [exact H|exact I|exact I].
Qed.

End Proofs.

(** * comp_init establishes the hypotheses, for every option pair the setter accepts *)
Lemma default_limits : CHUNK_DEFAULT_MIN = 1 /\ 1 <= CHUNK_DEFAULT_MAX.
Proof. split; [reflexivity|]. vm_compute. discriminate. Qed.

Lemma default_table_ok : table_ok DEFAULT_BUZHASH_WIDTH DEFAULT_BUZHASH_BITS = true.
Proof. vm_compute. reflexivity. Qed.

Lemma default_width_bits :
  2 <= DEFAULT_BUZHASH_WIDTH /\ 2 <= DEFAULT_BUZHASH_BITS /\ DEFAULT_BUZHASH_BITS <= 32.
Proof. vm_compute. repeat split; discriminate. Qed.

Ltac Zify.zify_post_hook ::= Z.div_mod_to_equations.

(** [1 <= chunk_min_size <= chunk_auto_min <= chunk_auto_max <= chunk_max_size] (D26 fix). *)
Theorem comp_init_limits mn mx :
  legal_opts mn mx ->
  let c := comp_init_cfg false mn mx in
  1 <= c_min c /\ c_min c <= c_auto_min c /\ c_auto_min c <= c_auto_max c /\ c_auto_max c <= c_max c.
Proof.
  intros Hl. destruct default_limits as [Dmin Dmax].
  unfold comp_init_cfg. cbn [c_min c_max c_auto_min c_auto_max]. rewrite Dmin.
  set (avg := N.ones DEFAULT_BUZHASH_BITS + 1).
  assert (Havg : avg / 4 <= avg * 4) by lia.
  generalize dependent (avg / 4). generalize dependent (avg * 4). intros hi lo Hlohi.
  destruct Hl as [->|[H1 H2]].
  - cbn [N.eqb].
    destruct (N.eqb_spec mx 0) as [->|Hmx];
      repeat match goal with |- context [?a <? ?b] => destruct (N.ltb_spec a b) end; lia.
  - destruct (N.eqb_spec mn 0) as [->|_]; [lia|].
    destruct (N.eqb_spec mx 0) as [->|_]; [lia|].
    repeat match goal with |- context [?a <? ?b] => destruct (N.ltb_spec a b) end; lia.
Qed.

Theorem comp_init_cfg_ok mn mx : legal_opts mn mx -> cfg_ok (comp_init_cfg false mn mx).
Proof.
  intros Hl. destruct (comp_init_limits mn mx Hl) as (H1 & H2 & H3 & _).
  destruct default_width_bits as (W & B1 & B2).
  unfold cfg_ok. repeat split; try assumption; try exact default_table_ok; reflexivity.
Qed.

Theorem comp_init_manual_ok mn mx : legal_opts mn mx -> manual_ok (comp_init_cfg true mn mx).
Proof.
  intros Hl. destruct default_limits as [Dmin Dmax].
  unfold manual_ok, comp_init_cfg. cbn [c_min c_max]. rewrite Dmin.
  destruct Hl as [->|[H1 H2]].
  - cbn [N.eqb]. destruct (N.eqb_spec mx 0); lia.
  - destruct (N.eqb_spec mn 0) as [->|_]; [lia|].
    destruct (N.eqb_spec mx 0) as [->|_]; lia.
Qed.

(** * Chunk starts: a step that finishes a chunk leaves a state that depends on the byte only *)
Section Starts.
Variable c : cfg.

Definition start_state (b : byte) (d : list bytes) : wstate :=
  {| w_rdc := [b]; w_sz := 1; w_buz := Some (fst (buzhash_update (c_width c) None b)); w_rdone := d |}.

Lemma step_fresh k d b : cfg_ok c ->
  step c (S k) {| w_rdc := []; w_sz := 0; w_buz := None; w_rdone := d |} b = WOk (start_state b d).
Proof.
  intros (Hw & Hmask & Hb2 & Hb32 & Htab & Hmin & Hamin & Hamax).
  cbn [step w_buz w_sz]. unfold start_state.
  pose proof (update_reset (c_width c) b Hw) as Hr.
  destruct (buzhash_update (c_width c) None b) as [z2 res2]. cbn [snd fst] in *. subst res2.
  unfold boundary. rewrite Hmask, one_land_ones by lia.
  destruct (N.leb_spec (c_auto_max c) 0) as [Hbad|_]; [lia|]. reflexivity.
Qed.

Lemma step_chunk_start b : cfg_ok c -> forall k st s',
  step c k st b = WOk s' -> w_rdone s' <> w_rdone st ->
  exists d, s' = start_state b d.
Proof.
  intros Hok. pose proof Hok as (Hw & Hmask & Hb2 & Hb32 & Htab & Hmin & Hamin & Hamax).
  induction k as [|k IH]; intros st s' H Hne; cbn [step] in H; [discriminate|].
  destruct (buzhash_update (c_width c) (w_buz st) b) as [z res] eqn:Eu.
  destruct (boundary c (w_sz st) res) eqn:Eb.
  - destruct (N.ltb_spec (w_sz st) (c_auto_min c)) as [Hlt|Hge].
    + apply (IH _ _ H). exact Hne.
    + assert (E : end_chunk c false (set_buz st (Some z)) =
        {| w_rdc := []; w_sz := 0; w_buz := None; w_rdone := rev_append (w_rdc st) [] :: w_rdone st |}).
      { unfold end_chunk. cbn [negb andb set_buz w_sz w_rdc w_rdone].
        destruct (N.ltb_spec (w_sz st) (c_min c)); [lia|].
        destruct (N.eqb_spec (w_sz st) 0); [lia|]. reflexivity. }
      rewrite E in H. destruct k as [|k]; [discriminate|].
      rewrite (step_fresh _ _ _ Hok) in H. inversion H. eauto.
  - inversion H; subst s'. exfalso. apply Hne. reflexivity.
Qed.

(** T16.3 as the property states it: when the step on the same byte of a shared suffix
    finishes a chunk in both runs (both outputs start a chunk there), the two runs produce
    the same chunks from there on, and the same final chunk at close. *)
Theorem resync_at_boundary b S k sA sB sA1 sB1 :
  cfg_ok c ->
  step c k sA b = WOk sA1 -> w_rdone sA1 <> w_rdone sA ->
  step c k sB b = WOk sB1 -> w_rdone sB1 <> w_rdone sB ->
  match fold_step c k S sA1, fold_step c k S sB1 with
  | WOk a, WOk b' =>
      exists t tc,
        chunks a = chunks sA1 ++ t /\ chunks b' = chunks sB1 ++ t /\
        chunks (close_model c a) = chunks sA1 ++ tc /\
        chunks (close_model c b') = chunks sB1 ++ tc
  | WFuel, WFuel => True
  | _, _ => False
  end.
Proof.
  intros Hok HA HAn HB HBn.
  destruct (step_chunk_start b Hok _ _ _ HA HAn) as [dA ->].
  destruct (step_chunk_start b Hok _ _ _ HB HBn) as [dB ->].
  pose proof (resync c k S (start_state b dA) (start_state b dB) eq_refl eq_refl eq_refl) as R.
  revert R.
  destruct (fold_step c k S (start_state b dA)), (fold_step c k S (start_state b dB)); intros R; try exact R.
  destruct R as (t & tc & R1 & R2 & _ & _ & _ & R3 & R4).
  exists t, tc. repeat split; assumption.
Qed.

End Starts.

(** * File level: operations from the initial state followed by zck_close *)
Lemma wbind_ret r : wbind r WOk = r.
Proof. destruct r; reflexivity. Qed.

Section File.
Variable c : cfg.

Lemma close_chunks st :
  chunks (close_model c st) = chunks st ++ (if w_sz st =? 0 then [] else [cur st]).
Proof.
  unfold close_model, end_chunk. cbn [negb andb].
  destruct (N.eqb_spec (w_sz st) 0).
  - rewrite app_nil_r. reflexivity.
  - rewrite !chunks_eq, cur_eq. cbn [w_rdone rev]. rewrite rev_append_rev, app_nil_r. reflexivity.
Qed.

Lemma close_content st : inv_sz st -> concat (chunks (close_model c st)) = total st.
Proof.
  intros Hi. rewrite close_chunks. unfold total. rewrite concat_app.
  destruct (N.eqb_spec (w_sz st) 0) as [E|E].
  - unfold inv_sz in Hi. rewrite E in Hi. symmetry in Hi. apply len_zero_nil in Hi.
    rewrite cur_eq, Hi. reflexivity.
  - cbn [concat]. rewrite app_nil_r. reflexivity.
Qed.

(** T16.1 at file level, automatic mode: no hypothesis at all. *)
Theorem file_segmentation_auto frags :
  c_manual c = false ->
  write_file c (map OpWrite frags) = write_file c [OpWrite (concat frags)].
Proof.
  intros Hm. unfold write_file. rewrite write_segmentation_auto by exact Hm.
  cbn [run_ops wop_run]. rewrite wbind_ret. reflexivity.
Qed.

Theorem file_segmentation_manual frags :
  c_manual c = true -> manual_ok c ->
  write_file c (map OpWrite frags) = write_file c [OpWrite (concat frags)].
Proof.
  intros Hm Hok. unfold write_file.
  rewrite write_segmentation_manual; [|exact Hm|exact Hok|cbn [w_init w_sz]; apply N.le_0_l].
  cbn [run_ops wop_run]. rewrite wbind_ret. reflexivity.
Qed.

(** Splitting or merging adjacent writes anywhere in an operation sequence (end-chunk
    operations included) changes nothing, automatic mode. *)
Theorem write_split_auto a b r st :
  c_manual c = false ->
  run_ops c (OpWrite a :: OpWrite b :: r) st = run_ops c (OpWrite (a ++ b) :: r) st.
Proof.
  intros Hm. cbn [run_ops wop_run].
  rewrite (zck_write_auto c st a), (zck_write_auto c st (a ++ b)) by exact Hm.
  rewrite fold_step_app. destruct (fold_step c (refeed_fuel c) a st) as [s1|]; cbn [wbind]; [|reflexivity].
  rewrite zck_write_auto by exact Hm. reflexivity.
Qed.

(** T16.2 at file level. *)
Theorem file_prefix_locality frags1 frags2 P x1 x2 F1 F2 :
  c_manual c = false ->
  concat frags1 = P ++ x1 -> concat frags2 = P ++ x2 ->
  write_file c (map OpWrite frags1) = Some F1 ->
  write_file c (map OpWrite frags2) = Some F2 ->
  forall j ch, nth_error F1 j = Some ch ->
    len (concat (firstn (S j) F1)) < len P ->
    nth_error F2 j = Some ch.
Proof.
  intros Hm E1 E2 H1 H2 j ch Hj Hoff.
  rewrite file_segmentation_auto in H1, H2 by exact Hm.
  unfold write_file in H1, H2. cbn [run_ops wop_run] in H1, H2.
  rewrite wbind_ret, zck_write_auto in H1, H2 by exact Hm.
  rewrite E1 in H1. rewrite E2 in H2.
  destruct (fold_step c (refeed_fuel c) (P ++ x1) w_init) as [s1|] eqn:R1; [|discriminate].
  destruct (fold_step c (refeed_fuel c) (P ++ x2) w_init) as [s2|] eqn:R2; [|discriminate].
  inversion H1; subst F1. inversion H2; subst F2.
  eapply (prefix_locality c _ P x1 x2 w_init s1 s2 R1 R2 j ch Hj).
  exact Hoff.
Qed.

(** T16.4 at file level: writes only (every chunk is ended by the automatic loop or by
    zck_close): all chunks but the last lie within the automatic limits, the last one is
    non-empty and not above the maximum. *)
Theorem file_size_bounds frags F :
  c_manual c = false ->
  write_file c (map OpWrite frags) = Some F ->
  exists t last, F = t ++ last /\ Forall (chunk_bounded c) t /\
    (last = [] \/ exists ch, last = [ch] /\ 1 <= len ch /\ len ch <= c_auto_max c).
Proof.
  intros Hm H. rewrite file_segmentation_auto in H by exact Hm.
  unfold write_file in H. cbn [run_ops wop_run] in H.
  rewrite wbind_ret, zck_write_auto in H by exact Hm.
  destruct (fold_step c (refeed_fuel c) (concat frags) w_init) as [s|] eqn:R; [|discriminate].
  inversion H; subst F. clear H.
  destruct (fold_bounds c _ _ _ _ R inv_sz_init (N.le_0_l _)) as (Hs & Hi & t & Et & Ft).
  rewrite close_chunks, Et. cbn [w_init chunks w_rdone rev_append app].
  exists t, (if w_sz s =? 0 then [] else [cur s]). split; [reflexivity|]. split; [exact Ft|].
  destruct (N.eqb_spec (w_sz s) 0) as [E|E]; [left; reflexivity|right].
  exists (cur s). split; [reflexivity|]. rewrite cur_eq, len_rev. unfold inv_sz in Hi. rewrite <- Hi. lia.
Qed.

(** Termination and content at file level, automatic mode: for a configuration satisfying
    [cfg_ok] every sequence of writes and end-chunks of well-formed bytes returns, and the
    chunks of the file concatenate to the bytes written. *)
Definition op_bytes (o : wop) : bytes := match o with OpWrite d => d | OpEnd => [] end.

Lemma run_ops_auto_total ops : forall st,
  c_manual c = false -> cfg_ok c -> Forall (fun o => wf_bytes (op_bytes o)) ops ->
  buzstate_wf (c_width c) (w_buz st) -> inv_sz st ->
  exists s, run_ops c ops st = WOk s /\ inv_sz s /\ total s = total st ++ concat (map op_bytes ops).
Proof.
  induction ops as [|o ops IH]; intros st Hm Hok Hf Hwf Hi; cbn [run_ops map concat].
  - exists st. rewrite app_nil_r. auto.
  - inversion Hf as [|? ? Ho Hf']; subst. destruct o as [d|]; cbn [wop_run op_bytes] in *.
    + destruct (zck_write_terminates c st d Hm Hok Ho Hwf) as (s1 & H1 & Hwf1).
      rewrite H1. cbn [wbind]. rewrite zck_write_auto in H1 by exact Hm.
      destruct (IH s1 Hm Hok Hf' Hwf1 (fold_inv_sz c _ _ _ _ H1 Hi)) as (s & R & Hi' & T).
      exists s. split; [exact R|]. split; [exact Hi'|].
      rewrite T, (fold_total_bytes c _ _ _ _ H1), <- app_assoc. reflexivity.
    + cbn [wbind]. unfold end_chunk_model.
      destruct (IH (end_chunk c false st) Hm Hok Hf' (end_chunk_buz_wf c false st Hwf) (inv_sz_end c false st Hi))
        as (s & R & Hi' & T).
      exists s. split; [exact R|]. split; [exact Hi'|]. rewrite T, total_end. reflexivity.
Qed.

Theorem file_auto_total ops :
  c_manual c = false -> cfg_ok c -> Forall (fun o => wf_bytes (op_bytes o)) ops ->
  exists F, write_file c ops = Some F /\ concat F = concat (map op_bytes ops).
Proof.
  intros Hm Hok Hf.
  destruct (run_ops_auto_total ops w_init Hm Hok Hf I inv_sz_init) as (s & R & Hi & T).
  unfold write_file. rewrite R. eexists. split; [reflexivity|].
  rewrite (close_content s Hi), T. reflexivity.
Qed.

End File.

(** * Manual mode at file level: termination and content *)
Section FileManual.
Variable c : cfg.

Lemma mstep_total st b : total (mstep c st b) = total st ++ [b].
Proof.
  unfold mstep. rewrite total_push. destruct (c_max c <? w_sz st + 1); [rewrite total_end|]; reflexivity.
Qed.

Lemma mstep_inv_sz st b : inv_sz st -> inv_sz (mstep c st b).
Proof.
  intros H. unfold mstep. apply inv_sz_push. destruct (c_max c <? w_sz st + 1); [apply inv_sz_end|]; exact H.
Qed.

Lemma mfold_facts l : forall st, inv_sz st ->
  inv_sz (fold_left (mstep c) l st) /\ total (fold_left (mstep c) l st) = total st ++ l.
Proof.
  induction l as [|b l IH]; intros st Hi; cbn [fold_left].
  - rewrite app_nil_r. auto.
  - destruct (IH (mstep c st b) (mstep_inv_sz st b Hi)) as [H1 H2]. split; [exact H1|].
    rewrite H2, mstep_total, <- app_assoc. reflexivity.
Qed.

Lemma end_chunk_sz_le final st : w_sz (end_chunk c final st) <= w_sz st.
Proof.
  destruct (end_chunk_shape c final st) as [E|[E|[E _]]]; rewrite E; cbn [set_buz w_sz]; lia.
Qed.

Lemma run_ops_manual_total ops : forall st,
  c_manual c = true -> manual_ok c -> w_sz st <= c_max c -> inv_sz st ->
  exists s, run_ops c ops st = WOk s /\ inv_sz s /\ total s = total st ++ concat (map op_bytes ops).
Proof.
  induction ops as [|o ops IH]; intros st Hm Hok Hs Hi; cbn [run_ops map concat].
  - exists st. rewrite app_nil_r. auto.
  - destruct o as [d|]; cbn [wop_run op_bytes].
    + rewrite zck_write_manual by assumption. cbn [wbind].
      destruct (mfold_facts d st Hi) as [Hi1 T1].
      destruct (IH _ Hm Hok (mfold_sz c d st Hok Hs) Hi1) as (s & R & Hi' & T).
      exists s. split; [exact R|]. split; [exact Hi'|]. rewrite T, T1, <- app_assoc. reflexivity.
    + cbn [wbind]. unfold end_chunk_model.
      destruct (IH (end_chunk c false st) Hm Hok) as (s & R & Hi' & T).
      * pose proof (end_chunk_sz_le false st). lia.
      * apply inv_sz_end. exact Hi.
      * exists s. split; [exact R|]. split; [exact Hi'|]. rewrite T, total_end. reflexivity.
Qed.

Theorem file_manual_total ops :
  c_manual c = true -> manual_ok c ->
  exists F, write_file c ops = Some F /\ concat F = concat (map op_bytes ops).
Proof.
  intros Hm Hok.
  destruct (run_ops_manual_total ops w_init Hm Hok (N.le_0_l _) inv_sz_init) as (s & R & Hi & T).
  unfold write_file. rewrite R. eexists. split; [reflexivity|].
  rewrite (close_content c s Hi), T. reflexivity.
Qed.
End FileManual.

(** * For every configuration comp_init can produce *)
Theorem file_segmentation manual mn mx frags :
  legal_opts mn mx ->
  write_file (comp_init_cfg manual mn mx) (map OpWrite frags) =
  write_file (comp_init_cfg manual mn mx) [OpWrite (concat frags)].
Proof.
  intros Hl. destruct manual.
  - apply file_segmentation_manual; [reflexivity|apply comp_init_manual_ok; exact Hl].
  - apply file_segmentation_auto. reflexivity.
Qed.

Theorem comp_init_write_terminates mn mx st src :
  legal_opts mn mx -> wf_bytes src -> buzstate_wf DEFAULT_BUZHASH_WIDTH (w_buz st) ->
  exists s', zck_write_model (comp_init_cfg false mn mx) st src = WOk s' /\
             buzstate_wf DEFAULT_BUZHASH_WIDTH (w_buz s').
Proof.
  intros Hl Hs Hwf.
  apply (zck_write_terminates (comp_init_cfg false mn mx) st src eq_refl (comp_init_cfg_ok mn mx Hl) Hs Hwf).
Qed.

Theorem comp_init_file_total manual mn mx ops :
  legal_opts mn mx -> Forall (fun o => wf_bytes (op_bytes o)) ops ->
  exists F, write_file (comp_init_cfg manual mn mx) ops = Some F /\ concat F = concat (map op_bytes ops).
Proof.
  intros Hl Hf. destruct manual.
  - apply file_manual_total; [reflexivity|apply comp_init_manual_ok; exact Hl].
  - apply file_auto_total; [reflexivity|apply comp_init_cfg_ok; exact Hl|exact Hf].
Qed.

(** * Identical chunk bytes give identical stored chunks (digest, stored bytes, length) *)
Lemma stored_same (D : Type) (zcomp : option D -> bytes -> bytes) (H : bytes -> bytes) (d : option D)
      (F1 F2 : list bytes) j ch :
  nth_error F1 j = Some ch -> nth_error F2 j = Some ch ->
  nth_error (stored_file D zcomp H d F1) j = Some (stored_chunk D zcomp H d ch) /\
  nth_error (stored_file D zcomp H d F2) j = Some (stored_chunk D zcomp H d ch).
Proof.
  intros H1 H2. unfold stored_file. split; apply map_nth_error; assumption.
Qed.
