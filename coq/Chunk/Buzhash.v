(** Rolling hash of the chunker: faithful model of /repo/src/lib/buzhash/buzhash.c
    (rol32, buzhash_table, buzhash_update, buzhash_reset).  Definitions only. *)
From ZV Require Import Base.Bytes Gen.GenConsts Gen.GenBuzTable.
Local Open Scope N_scope.

Definition mask32 : N := 4294967295.

(** [static uint32_t rol32(uint32_t v, uint32_t s)]: the conversion of the argument to
    [uint32_t] is the [land mask32]; [s %= 32; if(s == 0) return v;
    return (v << s) | (v >> (32 - s))] in 32-bit arithmetic. *)
Definition rol32 (v s : N) : N :=
  let v := N.land v mask32 in
  let s := s mod 32 in
  if s =? 0 then v
  else N.lor (N.land (N.shiftl v s) mask32) (N.shiftr v (32 - s)).

(** [buzhash_table[(uint8_t) c]].  The 256 generated entries are arranged once in a binary
    trie indexed by the bits of the byte, least significant first, so that a lookup costs
    eight steps in the extracted program; [tbl_agrees] (BuzhashProofs) shows by evaluation
    that [tbl b] is the [b]-th element of the generated list for all 256 bytes. *)
Inductive ttree := TLeaf (v : N) | TNode (l r : ttree).

Fixpoint evens (l : list N) : list N :=
  match l with x :: _ :: r => x :: evens r | [x] => [x] | [] => [] end.
Definition odds (l : list N) : list N := match l with [] => [] | _ :: r => evens r end.

Fixpoint tbuild (d : nat) (l : list N) : ttree :=
  match d with
  | O => TLeaf (hd 0 l)
  | S d' => TNode (tbuild d' (evens l)) (tbuild d' (odds l))
  end.

Fixpoint tleft (t : ttree) : N := match t with TLeaf v => v | TNode l _ => tleft l end.
Fixpoint tlook (t : ttree) (p : positive) : N :=
  match t with
  | TLeaf v => v
  | TNode l r =>
      match p with
      | xO q => tlook l q
      | xI q => tlook r q
      | xH => tleft r
      end
  end.

Definition buz_tree : ttree := tbuild 8 buzhash_table.
Definition tbl (b : byte) : N :=
  match b with N0 => tleft buz_tree | Npos p => tlook buz_tree p end.

(** [struct buzHash] with an allocated window.  The circular buffer [window] together with
    [window_loc] is kept as the queue of its contents, oldest byte first: while the window
    fills ([window_fill < window_size]) [window_loc] is 0 and the next byte goes to the end;
    afterwards the byte at [window_loc] is the oldest one, it is replaced and [window_loc]
    advances, i.e. the head is dropped and the new byte appended.  [window_size] is the
    [window] argument of every call (zck->buzhash_width, constant for a context), so the
    reallocation test [b->window_size != window] only ever fires on a NULL window. *)
Record buz := { bw : bytes; bfill : N; bh : N }.

(** [b->window == NULL] (fresh context, or after [buzhash_reset]) is [None]. *)
Definition buzstate := option buz.

Definition buz_fresh : buz := {| bw := []; bfill := 0; bh := 0 |}.

(** [buzhash_update(b, s, window, &output)]: the new state and [*output]. *)
Definition buzhash_update (width : N) (s : buzstate) (c : byte) : buz * N :=
  let z := match s with Some z => z | None => buz_fresh end in
  if bfill z <? width then
    let fill' := bfill z + 1 in
    if fill' <? width then
      let h' := N.lxor (bh z) (rol32 (tbl c) (width - fill')) in
      ({| bw := bw z ++ [c]; bfill := fill'; bh := h' |}, 1)
    else
      let h' := N.lxor (bh z) (tbl c) in
      ({| bw := bw z ++ [c]; bfill := fill'; bh := h' |}, h')
  else
    let out := hd 0 (bw z) in
    let h' := N.lxor (N.lxor (rol32 (bh z) 1) (rol32 (tbl out) width)) (tbl c) in
    ({| bw := tl (bw z) ++ [c]; bfill := bfill z; bh := h' |}, h').

(** [buzhash_reset]: the window is freed. *)
Definition buzhash_reset : buzstate := None.

(** The constant of the rolling step when the byte leaving the window equals the byte
    entering it: [rol32(T[c], width) ^ T[c]]. *)
Definition roll_const (width : N) (c : byte) : N := N.lxor (rol32 (tbl c) width) (tbl c).

(** The termination condition of the chunker's refused-boundary loop (see WriterProofs):
    no byte has all of bits 1 .. bits-1 of its roll constant clear. *)
Definition refeed_ok (width bits : N) (c : byte) : bool :=
  negb (N.land (N.shiftr (roll_const width c) 1) (N.ones (bits - 1)) =? 0).

Fixpoint byte_range (n : nat) : list byte :=
  match n with O => [] | S k => byte_range k ++ [N.of_nat k] end.
Definition all_bytes : list byte := byte_range 256.

Definition table_ok (width bits : N) : bool := forallb (refeed_ok width bits) all_bytes.
