(** One more invariant of the chunker model (Chunk/Writer.v), needed by the round trip
    (C01): no finished chunk is empty.  [comp_end_chunk] finishes a chunk only when
    [dc_data_size] is not 0, and [dc_data_size] is the length of the current chunk
    ([inv_sz]), so every chunk of the written file has at least one byte -- which is why
    index_finish_chunk computes a real digest for it (the all-zero digest is reserved for
    entries of length 0). *)
From ZV Require Import Base.Bytes Gen.GenConsts Chunk.Buzhash Chunk.BuzhashProofs Chunk.Writer
                       Chunk.WriterProofs.
Local Open Scope N_scope.

Section NonEmpty.
Variable c : cfg.

Definition ne_inv (st : wstate) : Prop :=
  inv_sz st /\ Forall (fun ch : bytes => ch <> []) (w_rdone st).

Lemma ne_init : ne_inv w_init.
Proof. split; [apply inv_sz_init|constructor]. Qed.

Lemma ne_set_buz st z : ne_inv st -> ne_inv (set_buz st z).
Proof. intros [Hi Hf]. split; assumption. Qed.

Lemma ne_push b st : ne_inv st -> ne_inv (push b st).
Proof. intros [Hi Hf]. split; [apply inv_sz_push; exact Hi|exact Hf]. Qed.

Lemma ne_end final st : ne_inv st -> ne_inv (end_chunk c final st).
Proof.
  intros [Hi Hf]. split; [apply inv_sz_end; exact Hi|].
  destruct (end_chunk_shape c final st) as [E|[E|[E [Hnz _]]]]; rewrite E; try exact Hf.
  cbn [w_rdone]. constructor; [|exact Hf].
  unfold inv_sz in Hi. intros Er. apply Hnz. rewrite Hi.
  destruct (w_rdc st) as [|x r]; [reflexivity|].
  cbn [rev] in Er. destruct (rev r); discriminate.
Qed.

Lemma ne_step b k st s' : step c k st b = WOk s' -> ne_inv st -> ne_inv s'.
Proof.
  revert k st s'. apply (step_elim c b (fun st s' => ne_inv st -> ne_inv s')).
  - intros st z res _ _ Hn. apply ne_push, ne_set_buz, Hn.
  - intros st z res s' _ _ _ IH Hn. apply IH, ne_set_buz, Hn.
  - intros st z res s' _ _ _ IH Hn. apply IH, ne_end, ne_set_buz, Hn.
Qed.

Lemma ne_fold k l : forall st s', fold_step c k l st = WOk s' -> ne_inv st -> ne_inv s'.
Proof.
  induction l as [|b l IH]; intros st s' Hr Hn; cbn [fold_step] in Hr.
  - inversion Hr; subst; exact Hn.
  - apply wbind_ok in Hr. destruct Hr as (s1 & H1 & H2).
    eapply IH; [exact H2|]. eapply ne_step; eauto.
Qed.

Lemma ne_mstep st b : ne_inv st -> ne_inv (mstep c st b).
Proof.
  intros Hn. unfold mstep. apply ne_push. destruct (c_max c <? w_sz st + 1); [apply ne_end|]; exact Hn.
Qed.

Lemma ne_mfold l : forall st, ne_inv st -> ne_inv (fold_left (mstep c) l st).
Proof.
  induction l as [|b l IH]; intros st Hn; cbn [fold_left]; [exact Hn|].
  apply IH, ne_mstep, Hn.
Qed.

Lemma ne_run_auto ops : forall st s,
  c_manual c = false -> run_ops c ops st = WOk s -> ne_inv st -> ne_inv s.
Proof.
  induction ops as [|o ops IH]; intros st s Hm Hr Hn; cbn [run_ops] in Hr.
  - inversion Hr; subst; exact Hn.
  - apply wbind_ok in Hr. destruct Hr as (s1 & H1 & H2).
    apply (IH s1 s Hm H2). destruct o as [d|]; cbn [wop_run] in H1.
    + rewrite zck_write_auto in H1 by exact Hm. eapply ne_fold; eauto.
    + inversion H1; subst. apply ne_end. exact Hn.
Qed.

Lemma ne_run_manual ops : forall st s,
  c_manual c = true -> manual_ok c -> w_sz st <= c_max c ->
  run_ops c ops st = WOk s -> ne_inv st -> ne_inv s.
Proof.
  induction ops as [|o ops IH]; intros st s Hm Hok Hs Hr Hn; cbn [run_ops] in Hr.
  - inversion Hr; subst; exact Hn.
  - apply wbind_ok in Hr. destruct Hr as (s1 & H1 & H2).
    destruct o as [d|]; cbn [wop_run] in H1.
    + rewrite zck_write_manual in H1 by assumption. inversion H1; subst s1.
      apply (IH _ s Hm Hok (mfold_sz c d st Hok Hs) H2). apply ne_mfold. exact Hn.
    + inversion H1; subst s1. unfold end_chunk_model in H2.
      apply (IH _ s Hm Hok) in H2; [exact H2| |apply ne_end; exact Hn].
      pose proof (end_chunk_sz_le c false st). lia.
Qed.

Lemma chunks_close_nonempty s :
  ne_inv s -> Forall (fun ch : bytes => ch <> []) (chunks (close_model c s)).
Proof.
  intros Hn. apply (ne_end true) in Hn. destruct Hn as [_ Hf].
  rewrite chunks_eq. apply Forall_rev. exact Hf.
Qed.
End NonEmpty.

(** every chunk of a written file has at least one byte *)
Theorem write_file_chunks_nonempty manual mn mx ops F :
  legal_opts mn mx ->
  write_file (comp_init_cfg manual mn mx) ops = Some F -> Forall (fun ch : bytes => ch <> []) F.
Proof.
  intros Hl Hw. unfold write_file in Hw.
  destruct (run_ops (comp_init_cfg manual mn mx) ops w_init) as [s|] eqn:Hr; [|discriminate].
  inversion Hw; subst F. apply chunks_close_nonempty.
  destruct manual.
  - apply (ne_run_manual (comp_init_cfg true mn mx) ops w_init s eq_refl
             (comp_init_manual_ok mn mx Hl) (N.le_0_l _) Hr (ne_init)).
  - apply (ne_run_auto (comp_init_cfg false mn mx) ops w_init s eq_refl Hr ne_init).
Qed.
