(** The input scanner of the [zck] command-line tool: faithful model of the read loop at
    the end of [main] in /repo/src/zck.c (the code AFTER the fixes of D21, D22, D23, D27),
    as a transducer from the successive [read()] results to the sequence of library calls
    [zck_write] / [zck_end_chunk] the tool makes.  Definitions only; the theorems are in
    ZckToolProofs.v.

    {v
    int split_size = 0; int matched = 0;
    if(arguments.split_string) split_size = strlen(arguments.split_string);
    while((in_size = read(in_fd, data, BUF_SIZE)) > 0) {
        ssize_t start = 0;
        if(split_size > 0) {
            for(int l=0; l<in_size; l++) {
                if(data[l] == arguments.split_string[matched]) {
                    matched++;
                    if(matched == split_size) {
                        if(l - (start + matched - 1) > 0)                       (* D21 *)
                            write_data(zck, data + start, l - (start + matched - 1));
                        if(zck_end_chunk(zck) < 0) exit(1);
                        write_data(zck, arguments.split_string, split_size);
                        start = l+1;
                        matched = 0;
                    }
                } else if(matched > 0) {
                    if(l < matched)
                        write_data(zck, arguments.split_string, matched - l);
                    matched = 0;
                }
            }
        }
        if(in_size - (start + matched) > 0)                                     (* D23 *)
            write_data(zck, data + start, in_size - (start + matched));
    }
    if(in_size < 0) { LOG_ERROR(...); perror(""); exit(1); }                    (* D27 *)
    if(matched > 0) write_data(zck, arguments.split_string, matched);           (* D22 *)
    close(in_fd);
    if(!zck_close(zck)) ... exit(1);
    v}

    Indices ([l], [start], [matched], lengths) are mathematical integers [Z]: [l < in_size
    <= BUF_SIZE = 32768] and [matched <= split_size < BUF_SIZE] (the option parser rejects
    longer split strings), so neither [int] nor [ssize_t] can overflow.  What the C code can
    get wrong is modelled explicitly: a [write_data] whose length is negative (it is
    converted to a huge [size_t]) or whose source range leaves the buffer, and a read of
    [split_string[matched]] outside the string, make the run a [Crash] ([None] below).

    The library calls are assumed to succeed (a failing [zck_write] / [zck_end_chunk] makes
    the tool [exit(1)]; what the calls do is the library half of C01). *)
From ZV Require Import Base.Bytes.
Local Open Scope Z_scope.

(** One library call made by the tool. *)
Inductive top := TWrite (b : bytes) | TEnd.

(** The bytes handed to [zck_write], in order. *)
Fixpoint payload (ops : list top) : bytes :=
  match ops with
  | [] => []
  | TWrite b :: r => b ++ payload r
  | TEnd :: r => payload r
  end.

Definition zlen (b : bytes) : Z := Z.of_nat (length b).

(** [buf[off .. off+n)] *)
Definition slice (buf : bytes) (off n : Z) : bytes :=
  firstn (Z.to_nat n) (skipn (Z.to_nat off) buf).

(** [write_data(zck, buf + off, n)]: [None] when the length is negative or the source range
    is not inside [buf] (undefined behaviour in C: the D23 crash). *)
Definition write_data (buf : bytes) (off n : Z) : option (list top) :=
  if (n <? 0) || (off <? 0) || (zlen buf <? off + n) then None
  else Some [TWrite (slice buf off n)].

(** [buf[i]], [None] outside the buffer *)
Definition zget (buf : bytes) (i : Z) : option byte :=
  if i <? 0 then None else nth_error buf (Z.to_nat i).

Definition obind {A B} (o : option A) (f : A -> option B) : option B :=
  match o with Some a => f a | None => None end.

(** * The inner [for] loop

    [whole] is the block ([data[0..in_size)]), [rest] its suffix from index [l] on
    ([rest = skipn l whole]); the result is the calls made from index [l] to the end of the
    block and the final values of [start] and [matched]. *)
Fixpoint scan_block (split whole rest : bytes) (l start matched : Z)
  : option (list top * Z * Z) :=
  match rest with
  | [] => Some ([], start, matched)
  | c :: rest' =>
    obind (zget split matched) (fun s =>
    if (c =? s)%N then
      let matched := matched + 1 in
      if matched =? zlen split then
        obind (if 0 <? l - (start + matched - 1)
               then write_data whole start (l - (start + matched - 1)) else Some []) (fun w1 =>
        obind (write_data split 0 (zlen split)) (fun w2 =>
        obind (scan_block split whole rest' (l + 1) (l + 1) 0) (fun '(ops, st', m') =>
        Some (w1 ++ TEnd :: w2 ++ ops, st', m'))))
      else scan_block split whole rest' (l + 1) start matched
    else if 0 <? matched then
      obind (if l <? matched then write_data split 0 (matched - l) else Some []) (fun w =>
      obind (scan_block split whole rest' (l + 1) start 0) (fun '(ops, st', m') =>
      Some (w ++ ops, st', m')))
    else scan_block split whole rest' (l + 1) start matched)
  end.

(** * One iteration of the [while] loop: a block [whole] (non-empty [read()] result) with
    [matched] carried in; returns the calls and the carried-out [matched]. *)
Definition scan_one (split whole : bytes) (matched : Z) : option (list top * Z) :=
  obind (if 0 <? zlen split then scan_block split whole whole 0 0 matched
         else Some ([], 0, matched)) (fun '(ops, start, matched) =>
  obind (if 0 <? zlen whole - (start + matched)
         then write_data whole start (zlen whole - (start + matched)) else Some []) (fun w =>
  Some (ops ++ w, matched))).

(** * The [while] loop over the successive read results *)
Fixpoint scan_loop (split : bytes) (blocks : list bytes) (matched : Z)
  : option (list top * Z) :=
  match blocks with
  | [] => Some ([], matched)
  | b :: bs =>
    obind (scan_one split b matched) (fun '(ops, m) =>
    obind (scan_loop split bs m) (fun '(ops', m') =>
    Some (ops ++ ops', m')))
  end.

(** the flush after the loop (D22 fix) *)
Definition scan_flush (split : bytes) (matched : Z) : option (list top) :=
  if 0 <? matched then write_data split 0 matched else Some [].

Inductive scan_result := ScanOk (ops : list top) | ScanCrash.

(** The whole scanner on an input that reaches end of file after [blocks]: the calls made
    before [zck_close].  [split = []] is "no split string" ([split_size = 0]). *)
Definition zck_scan (split : bytes) (blocks : list bytes) : scan_result :=
  match scan_loop split blocks 0 with
  | None => ScanCrash
  | Some (ops, m) =>
    match scan_flush split m with
    | None => ScanCrash
    | Some w => ScanOk (ops ++ w)
    end
  end.

(** * End of the input and exit status

    After the blocks, [read] returns either 0 (end of file) or -1 (error). *)
Inductive read_end := REof | RFail.

Inductive tool_outcome :=
| ToolClose (ops : list top)    (* the calls, then [zck_close]; exit status from it *)
| ToolExit1 (ops : list top)    (* [exit(1)] after these calls, [zck_close] not called *)
| ToolCrash.

Definition zck_tool (split : bytes) (blocks : list bytes) (e : read_end) : tool_outcome :=
  match scan_loop split blocks 0 with
  | None => ToolCrash
  | Some (ops, m) =>
    match e with
    | RFail => ToolExit1 ops
    | REof => match scan_flush split m with
              | None => ToolCrash
              | Some w => ToolClose (ops ++ w)
              end
    end
  end.

(** * The loop BEFORE the fixes (D21, D22, D23), kept for the [..._refuted] examples.

    A [write_data] of length 0 is a call the library ignores ([zck_write] returns at once
    for [src_size == 0]); it appears as [TWrite []]. *)
Fixpoint scan_block_orig (split whole rest : bytes) (l start matched : Z)
  : option (list top * Z * Z) :=
  match rest with
  | [] => Some ([], start, matched)
  | c :: rest' =>
    obind (zget split matched) (fun s =>
    if (c =? s)%N then
      let matched := matched + 1 in
      if matched =? zlen split then
        obind (if matched <? l      (* D21: [if(l > matched)] *)
               then write_data whole start (l - (start + matched - 1)) else Some []) (fun w1 =>
        obind (write_data split 0 (zlen split)) (fun w2 =>
        obind (scan_block_orig split whole rest' (l + 1) (l + 1) 0) (fun '(ops, st', m') =>
        Some (w1 ++ TEnd :: w2 ++ ops, st', m'))))
      else scan_block_orig split whole rest' (l + 1) start matched
    else if 0 <? matched then
      obind (if l <? matched then write_data split 0 (matched - l) else Some []) (fun w =>
      obind (scan_block_orig split whole rest' (l + 1) start 0) (fun '(ops, st', m') =>
      Some (w ++ ops, st', m')))
    else scan_block_orig split whole rest' (l + 1) start matched)
  end.

Definition scan_one_orig (split whole : bytes) (matched : Z) : option (list top * Z) :=
  obind (if 0 <? zlen split then scan_block_orig split whole whole 0 0 matched
         else Some ([], 0, matched)) (fun '(ops, start, matched) =>
  (* D23: unguarded *)
  obind (write_data whole start (zlen whole - (start + matched))) (fun w =>
  Some (ops ++ w, matched))).

Fixpoint scan_loop_orig (split : bytes) (blocks : list bytes) (matched : Z)
  : option (list top * Z) :=
  match blocks with
  | [] => Some ([], matched)
  | b :: bs =>
    obind (scan_one_orig split b matched) (fun '(ops, m) =>
    obind (scan_loop_orig split bs m) (fun '(ops', m') =>
    Some (ops ++ ops', m')))
  end.

(** D22: no flush after the loop *)
Definition zck_scan_orig (split : bytes) (blocks : list bytes) : scan_result :=
  match scan_loop_orig split blocks 0 with
  | None => ScanCrash
  | Some (ops, _) => ScanOk ops
  end.
