(** LINK between the byte-level component models and the chunk-level update model
    ([Dl/Update.v]): the abstraction of a byte-level file into a chunk-level [target], and,
    component by component, the proof that the byte-level model (as proved correct against
    its own specification by the other verticals) has exactly the per-chunk effect that
    [Update.v] writes down.

    This file: the abstraction [abs] and link (a), the validity scan
    ([Read/Scan.v] [validate_checksums], theorem C09_scan_exact  ==>  [Update.find_valid]).

    The byte-level models use a typed hash [H : type -> message -> digest] and compare
    [ds] = digest-size bytes ([memcmp]); the chunk-level model uses one function per
    role.  They are connected by  Hc m := first ds(chunk type) bytes of H chunk-type m,
    Hf m := first ds(overall type) bytes of H overall-type m,  for headers whose digests
    have the size of their type ([sized]: true for every parsed header). *)
From ZV Require Import Base.Bytes Gen.GenConsts Format.Header Format.ParseProofs Read.Scan Read.ScanProofs.
From ZV Require Dl.Update Dl.UpdateProofs.
Local Open Scope N_scope.

Module U := Dl.Update.
Module UP := Dl.UpdateProofs.

(* ------------------------------------------------------------------------------------ *)
(** * the abstraction *)

Definition uchunk (c : chunk) : U.chunk := U.mkChunk (c_digest c) (c_clen c) (c_ulen c).

(** zckChunk.valid as an integer -> flag *)
Definition flag_of_Z (z : Z) : U.flag :=
  if (z =? 1)%Z then U.Valid else if (z =? 0)%Z then U.Missing else U.Failed.

(** one slot per index entry: the entry, the bytes of the server's file at its extent, the
    bytes of the target file at its extent (fewer when the file ends inside or before it),
    its flag ([0] when the flag list is shorter) *)
Fixpoint abs_slots (doff : N) (cs : list chunk) (fb f : bytes) (fl : list Z) : list U.slot :=
  match cs with
  | [] => []
  | c :: r =>
      U.mkSlot (uchunk c) (sub fb (doff + c_start c) (c_clen c)) (sub f (doff + c_start c) (c_clen c))
               (flag_of_Z (hd 0%Z fl))
        :: abs_slots doff r fb f (tl fl)
  end.

(** [h]: the header of the new file B; [fb]: B as the server holds it; [f]: the target file;
    [fl]: the valid flags of the target context *)
Definition abs (h : header) (fb f : bytes) (fl : list Z) : U.target :=
  let doff := data_offset h in
  U.mkT (firstn (N.to_nat doff) f)
        (abs_slots doff (h_chunks h) fb f fl)
        (skipn (N.to_nat (doff + data_total (h_chunks h))) f).

Definition abs_new (h : header) (fb : bytes) : U.newfile :=
  U.mkB (firstn (N.to_nat (data_offset h)) fb) (h_lead h) (uflag h) (h_ddigest h).

(** every digest in the header has the size of its checksum type *)
Definition sized (h : header) : Prop :=
  Forall (fun c => len (c_digest c) = ds_of (h_chash h)) (h_chunks h) /\
  len (h_ddigest h) = ds_of (h_hash h).

Section Link.
Variable H : N -> bytes -> bytes.

Definition Hc_of (h : header) : bytes -> bytes := fun m => firstn (N.to_nat (ds_of (h_chash h))) (H (h_chash h) m).
Definition Hf_of (h : header) : bytes -> bytes := fun m => firstn (N.to_nat (ds_of (h_hash h))) (H (h_hash h) m).

(* ------------------------------------------------------------------------------------ *)
(** * comparisons *)

Lemma ubytes_eqb_same : forall a b, U.bytes_eqb a b = bytes_eqb a b.
Proof. reflexivity. Qed.   (* the two definitions are the same fixpoint *)

Lemma memcmp_sized n a b : len b = n -> memcmp_eq n a b = U.bytes_eqb (firstn (N.to_nat n) a) b.
Proof.
  intros L. unfold memcmp_eq.
  rewrite (firstn_all2 b) by (unfold len in L; lia). reflexivity.
Qed.

Lemma all_zero_rep : forall d, bytes_eqb (repeat 0 (length d)) d = U.all_zero d.
Proof.
  induction d as [|x d IH]; [reflexivity|]. cbn [length repeat bytes_eqb]. unfold U.all_zero in *.
  cbn [forallb]. rewrite IH, N.eqb_sym. reflexivity.
Qed.

Lemma all_zero_sized n d : len d = n -> all_zero n d = U.all_zero d.
Proof.
  intros L. unfold all_zero, memcmp_eq.
  assert (N.to_nat n = length d) as E by (unfold len in L; lia).
  rewrite E, (firstn_all2 d) by lia. rewrite firstn_all2 by (rewrite repeat_length; lia).
  apply all_zero_rep.
Qed.

Lemma len_sub (f : bytes) off n : len (sub f off n) = N.min n (len f - off).
Proof. unfold sub. rewrite len_firstn, len_skipn. lia. Qed.

(* ------------------------------------------------------------------------------------ *)
(** * one chunk *)

Section OneHeader.
Variable h : header.
Variable fb f : bytes.
Let doff := data_offset h.
Let Hc := Hc_of h.
Let Hf := Hf_of h.

Lemma complete_present c :
  U.complete (uchunk c) (stored h f c) = present h f c.
Proof.
  unfold U.complete, present, stored. cbn [uchunk U.c_clen]. rewrite len_sub.
  destruct (c_clen c =? 0) eqn:Z.
  - apply N.eqb_eq in Z. rewrite Z. cbn [orb]. apply N.eqb_eq. lia.
  - apply N.eqb_neq in Z. cbn [orb].
    destruct (data_offset h + c_start c + c_clen c <=? len f) eqn:P.
    + apply N.leb_le in P. apply N.eqb_eq. lia.
    + apply N.leb_gt in P. apply N.eqb_neq. lia.
Qed.

Lemma digest_ok_same c bs :
  len (c_digest c) = ds_of (h_chash h) ->
  U.digest_ok Hc (uchunk c) bs = digest_ok H h c bs.
Proof.
  intros L. unfold U.digest_ok, digest_ok. cbn [uchunk U.c_clen U.c_digest].
  destruct (c_clen c =? 0).
  - symmetry. apply all_zero_sized. exact L.
  - symmetry. unfold Hc, Hc_of. apply memcmp_sized. exact L.
Qed.

Lemma chunk_ok_same c :
  len (c_digest c) = ds_of (h_chash h) ->
  U.chunk_ok Hc (uchunk c) (stored h f c) = present h f c && digest_ok H h c (stored h f c).
Proof. intros L. unfold U.chunk_ok. rewrite complete_present, digest_ok_same by exact L. reflexivity. Qed.

Lemma skipped_same first c : U.skipped first (uchunk c) = empty_first first c.
Proof. reflexivity. Qed.

(** the scan's verdict on one chunk = the specification's [chunk_good] *)
Lemma scan_flag_same first c z :
  len (c_digest c) = ds_of (h_chash h) ->
  U.scan_flag Hc first (U.mkSlot (uchunk c) (sub fb (doff + c_start c) (c_clen c)) (stored h f c) z) =
  flag_of_Z (flag_of (chunk_good H h f first c)).
Proof.
  intros L. unfold U.scan_flag, chunk_good. cbn [U.s_chunk U.s_cur].
  rewrite skipped_same. destruct (empty_first first c); [reflexivity|]. cbn [orb].
  rewrite (chunk_ok_same c L).
  destruct (present h f c && digest_ok H h c (stored h f c)); reflexivity.
Qed.

(* ---------------------------------------------------------------------------------- *)
(** * the chunk list *)

Lemma abs_slots_flags : forall cs fl fl',
  map U.s_chunk (abs_slots doff cs fb f fl) = map U.s_chunk (abs_slots doff cs fb f fl') /\
  map U.s_srv (abs_slots doff cs fb f fl) = map U.s_srv (abs_slots doff cs fb f fl') /\
  map U.s_cur (abs_slots doff cs fb f fl) = map U.s_cur (abs_slots doff cs fb f fl').
Proof.
  induction cs as [|c cs IH]; intros fl fl'; [auto|].
  cbn [abs_slots map U.s_chunk U.s_srv U.s_cur].
  destruct (IH (tl fl) (tl fl')) as [A [B C]]. rewrite A, B, C. auto.
Qed.

Lemma scan_flags_same : forall cs first fl,
  Forall (fun c => len (c_digest c) = ds_of (h_chash h)) cs ->
  U.scan_flags Hc first (abs_slots doff cs fb f fl) =
  abs_slots doff cs fb f (map flag_of (classify H h f first cs)).
Proof.
  induction cs as [|c cs IH]; intros first fl S; [reflexivity|].
  inversion S as [|? ? S1 S2]; subst.
  cbn [abs_slots U.scan_flags classify map hd tl]. f_equal; [|apply IH; exact S2].
  unfold U.set_flag. cbn [U.s_chunk U.s_srv U.s_cur]. f_equal.
  apply (scan_flag_same first c _ S1).
Qed.

Lemma flag_of_Z_flag_of b : flag_of_Z (flag_of b) = if b then U.Valid else U.Failed.
Proof. destruct b; reflexivity. Qed.

Lemma all_valid_same : forall cs fb' l,
  length l = length cs ->
  U.all_valid (abs_slots doff cs fb' f (map flag_of l)) = all_true l.
Proof.
  induction cs as [|c cs IH]; intros fb' [|b l] E; try discriminate; [reflexivity|].
  cbn [abs_slots map hd tl]. unfold U.all_valid in *. cbn [forallb all_true U.s_flag].
  rewrite flag_of_Z_flag_of. cbn [length] in E.
  specialize (IH fb' l ltac:(lia)). unfold all_true in *. rewrite IH. destruct b; reflexivity.
Qed.

Lemma classify_length : forall cs first, length (classify H h f first cs) = length cs.
Proof. induction cs as [|c cs IH]; intros first; [reflexivity|]. cbn. rewrite IH. reflexivity. Qed.

(** the data hashed by the scan, when every chunk is good, is the data section *)
Lemma scanned_data_same : forall cs first fl start,
  starts_ok start cs ->
  all_true (classify H h f first cs) = true ->
  U.scanned_data first (abs_slots doff cs fb f fl) = sub f (doff + start) (data_total cs).
Proof.
  induction cs as [|c cs IH]; intros first fl start St A.
  - cbn [abs_slots U.scanned_data data_total fold_right]. rewrite sub_zero. reflexivity.
  - cbn [starts_ok] in St. destruct St as [Sc St].
    cbn [classify all_true forallb] in A. apply andb_true_iff in A. destruct A as [A1 A2].
    cbn [abs_slots U.scanned_data U.s_chunk U.s_cur data_total fold_right].
    change (fold_right (fun c a => c_clen c + a) 0 cs) with (data_total cs).
    rewrite (IH false (tl fl) (start + c_clen c) St A2).
    rewrite skipped_same. rewrite Sc. rewrite <- (sub_app H f (doff + start) (c_clen c) (data_total cs)).
    rewrite N.add_assoc. f_equal.
    unfold chunk_good in A1. destruct (empty_first first c) eqn:E.
    + unfold empty_first in E. apply andb_true_iff in E. destruct E as [_ E]. apply N.eqb_eq in E.
      rewrite E, sub_zero. reflexivity.
    + reflexivity.
Qed.

Lemma set_failed_same : forall cs fl,
  map (fun s => U.set_flag s U.Failed) (abs_slots doff cs fb f fl) =
  abs_slots doff cs fb f (map (fun _ => (-1)%Z) cs).
Proof.
  induction cs as [|c cs IH]; intros fl; [reflexivity|].
  cbn [abs_slots map hd tl]. f_equal. apply IH.
Qed.

Lemma map_const_len {X Y Z'} (l : list X) (l' : list Y) (z : Z') :
  length l = length l' -> map (fun _ => z) l = map (fun _ => z) l'.
Proof. revert l'. induction l as [|x l IH]; intros [|y l'] E; try discriminate; [reflexivity|]. cbn. f_equal. apply IH. cbn in E. lia. Qed.

(* ---------------------------------------------------------------------------------- *)
(** * (a) the validity scan *)

(** [Update.find_valid] on the abstraction computes exactly the verdict and the flags that
    the specification layer of C09 prescribes ... *)
Theorem find_valid_is_expected fl :
  starts_ok 0 (h_chunks h) -> sized h ->
  U.find_valid Hc Hf (abs_new h fb) (abs_slots doff (h_chunks h) fb f fl) =
  ((expected_ret H h f =? 1)%Z, abs_slots doff (h_chunks h) fb f (expected_flags H h f)).
Proof.
  intros St [Sc Sd]. unfold U.find_valid.
  rewrite (scan_flags_same (h_chunks h) true fl Sc).
  rewrite (all_valid_same (h_chunks h) fb _ (classify_length _ _)).
  unfold expected_ret, expected_flags. cbn [abs_new U.b_uncomp U.b_ddigest].
  set (cl := classify H h f true (h_chunks h)).
  destruct (all_true cl) eqn:A; cbn [andb].
  - destruct (uflag h) eqn:Uf; cbn [orb negb andb]; [reflexivity|].
    rewrite (scanned_data_same (h_chunks h) true fl 0 St A). rewrite N.add_0_r.
    assert (U.bytes_eqb (Hf (sub f doff (data_total (h_chunks h)))) (h_ddigest h) = data_good H h f) as Dg.
    { unfold data_good, Hf, Hf_of. symmetry. apply memcmp_sized. exact Sd. }
    rewrite Dg. destruct (data_good H h f); cbn [negb flag_of]; [reflexivity|].
    f_equal. rewrite set_failed_same. f_equal. apply map_const_len.
    unfold cl. rewrite classify_length. reflexivity.
  - reflexivity.
Qed.

(* ---------------------------------------------------------------------------------- *)
(** * (a') the final data-checksum validation (zck_validate_data_checksum, no flag) *)

Lemma all_complete_same : forall cs fl start,
  starts_ok start cs -> doff + start <= len f ->
  forallb (fun s => U.complete (U.s_chunk s) (U.s_cur s)) (abs_slots doff cs fb f fl) =
  (doff + start + data_total cs <=? len f).
Proof.
  induction cs as [|c cs IH]; intros fl start St Le.
  - cbn [abs_slots forallb data_total fold_right]. symmetry. apply N.leb_le. lia.
  - cbn [starts_ok] in St. destruct St as [Sc St].
    cbn [abs_slots forallb U.s_chunk U.s_cur data_total fold_right].
    change (fold_right (fun c a => c_clen c + a) 0 cs) with (data_total cs).
    fold (stored h f c). rewrite complete_present. unfold present. fold doff. rewrite Sc.
    destruct (c_clen c =? 0) eqn:Z; cbn [orb].
    + apply N.eqb_eq in Z. rewrite (IH (tl fl) (start + c_clen c) St) by lia. cbn [andb]. f_equal. lia.
    + destruct (doff + start + c_clen c <=? len f) eqn:P; cbn [andb].
      * apply N.leb_le in P. rewrite (IH (tl fl) (start + c_clen c) St) by lia. f_equal. lia.
      * apply N.leb_gt in P. symmetry. apply N.leb_gt. lia.
Qed.

Lemma concat_cur_same : forall cs fl start,
  starts_ok start cs -> doff + start + data_total cs <= len f ->
  concat (map U.s_cur (abs_slots doff cs fb f fl)) = sub f (doff + start) (data_total cs).
Proof.
  induction cs as [|c cs IH]; intros fl start St Le.
  - cbn [abs_slots map concat data_total fold_right]. rewrite sub_zero. reflexivity.
  - cbn [starts_ok] in St. destruct St as [Sc St].
    cbn [abs_slots map concat U.s_cur data_total fold_right] in *.
    change (fold_right (fun c a => c_clen c + a) 0 cs) with (data_total cs) in *.
    rewrite (IH (tl fl) (start + c_clen c) St) by lia.
    rewrite Sc, <- (sub_app H f (doff + start) (c_clen c) (data_total cs)), N.add_assoc. reflexivity.
Qed.

Theorem validate_data_is_expected fl :
  scan_wf h f -> sized h -> uflag h = false ->
  U.validate_data Hc Hf (abs_new h fb) (abs_slots doff (h_chunks h) fb f fl) =
  ((expected_data_ret H h f =? 1)%Z, abs_slots doff (h_chunks h) fb f fl).
Proof.
  intros [_ [Le St]] [_ Sd] Uf. unfold U.validate_data. cbn [abs_new U.b_uncomp U.b_ddigest]. rewrite Uf.
  f_equal. rewrite (all_complete_same (h_chunks h) fl 0 St) by (fold doff in Le; lia).
  unfold expected_data_ret. rewrite N.add_0_r. fold doff.
  destruct (doff + data_total (h_chunks h) <=? len f) eqn:P; cbn [andb]; [|reflexivity].
  apply N.leb_le in P. rewrite (concat_cur_same (h_chunks h) fl 0 St) by lia. rewrite N.add_0_r.
  assert (U.bytes_eqb (Hf (sub f doff (data_total (h_chunks h)))) (h_ddigest h) = data_good H h f) as Dg.
  { unfold data_good, Hf, Hf_of. symmetry. apply memcmp_sized. exact Sd. }
  rewrite Dg. destruct (data_good H h f); reflexivity.
Qed.

End OneHeader.

(** ... hence the byte-level scan ([validate_checksums], the model of hash.c proved exact in
    C09_scan_exact), run on any target file with any flags and any context state, and
    [Update.find_valid], run on the abstraction of that file, agree: same verdict, and the
    abstraction of (file after, flags after) is the slot list [find_valid] returns. *)
Theorem link_scan h fb f fl st :
  scan_wf h f -> h_detached h = false -> sized h ->
  exists r, validate_checksums H h f fl st = Some r /\
    s_file r = f /\
    U.find_valid (Hc_of h) (Hf_of h) (abs_new h fb) (U.t_slots (abs h fb f fl)) =
      ((s_ret r =? 1)%Z, U.t_slots (abs h fb (s_file r) (s_flags r))).
Proof.
  intros W D S. destruct (validate_checksums_full H h f fl st W D) as [ch E].
  eexists. split; [exact E|]. cbn [s_file s_ret s_flags]. split; [reflexivity|].
  unfold abs. cbn [U.t_slots]. destruct W as [_ [_ St]].
  apply find_valid_is_expected; assumption.
Qed.

(** the same for the final whole-data validation (C09_validate_data) *)
Theorem link_validate_data h fb f fl st :
  scan_wf h f -> sized h -> uflag h = false ->
  exists r, validate_data H h f fl st = Some r /\ s_file r = f /\ s_flags r = fl /\
    U.validate_data (Hc_of h) (Hf_of h) (abs_new h fb) (U.t_slots (abs h fb f fl)) =
      ((s_ret r =? 1)%Z, U.t_slots (abs h fb f fl)).
Proof.
  intros W S Uf. rewrite (validate_data_spec H h f fl st W Uf).
  eexists. split; [reflexivity|]. cbn [s_file s_flags s_ret]. split; [reflexivity|]. split; [reflexivity|].
  unfold abs. cbn [U.t_slots]. apply validate_data_is_expected; assumption.
Qed.

End Link.
