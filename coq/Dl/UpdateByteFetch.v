(** Agenda item 4: [Update.fetch_header] - the header region becomes B's header and, when the
    header is shorter than the probe, [write_prefix] overwrites the first extents with B's
    bytes - is the abstraction of the byte-level header fetch, the write of B's first
    max(probe, header) bytes (clamped to B's length) at offset 0 of the target file. *)
From ZV Require Import Base.Bytes Gen.GenConsts Format.Header Format.ParseProofs Read.Scan Read.ScanProofs
                       Dl.CopyProofs Dl.UpdateLink Dl.UpdateLinkCopy Dl.UpdateByteRun Dl.UpdateByteFinal.
Local Open Scope N_scope.

Lemma firstn_sub (f : bytes) off n k : k <= n -> firstn (N.to_nat k) (sub f off n) = sub f off k.
Proof. intros L. unfold sub. rewrite firstn_firstn. f_equal. lia. Qed.

Lemma skipn_sub (f : bytes) off n k : k <= n -> skipn (N.to_nat k) (sub f off n) = sub f (off + k) (n - k).
Proof.
  intros L. unfold sub. rewrite skipn_firstn_comm, skipn_add. f_equal; [lia|]. f_equal. lia.
Qed.

(** an extent inside the written region reads the written bytes *)
Lemma sub_in_write (tf w : bytes) off n :
  off + n <= len w -> sub (W.file_write tf 0 w) off n = sub w off n.
Proof.
  intros L. destruct (N.eq_dec n 0) as [Z|Z]; [subst n; reflexivity|].
  assert (Nw : w <> []) by (intros X; rewrite X in L; cbn in L; lia).
  apply sub_ext_eq.
  - intros x Hx. rewrite FL.fget_file_write.
    replace (0 <=? x) with true by (symmetry; apply N.leb_le; lia).
    replace (x <? 0 + len w) with true by (symmetry; apply N.ltb_lt; lia).
    cbn [andb]. unfold W.fget. rewrite N.sub_0_r. reflexivity.
  - pose proof (file_write_len_cover tf 0 w Nw). lia.
  - exact L.
Qed.

Section Fetch.
Variable H : N -> bytes -> bytes.
Variable h : header.
Variable fb : bytes.
Hypothesis Wf : scan_wf h fb.
Hypothesis Lb : len fb = data_offset h + data_total (h_chunks h).
Let doff := data_offset h.
Let P := fetch_bytes h fb.

Lemma lenP : len P = N.min (N.max U.min_download doff) (len fb).
Proof. unfold P, fetch_bytes. rewrite len_firstn. fold doff. lia. Qed.

Lemma subP off n : off + n <= len P -> sub P off n = sub fb off n.
Proof.
  intros L. unfold P, fetch_bytes in *. unfold sub.
  rewrite <- (firstn_skipn (N.to_nat (N.max U.min_download (data_offset h))) fb) at 2.
  rewrite skipn_app. rewrite firstn_app.
  set (F := firstn (N.to_nat (N.max U.min_download (data_offset h))) fb) in *.
  assert (N.to_nat off + N.to_nat n <= length F)%nat by (unfold len in L; lia).
  replace (N.to_nat n - length (skipn (N.to_nat off) F))%nat with O by (rewrite skipn_length; lia).
  cbn [firstn]. rewrite app_nil_r. reflexivity.
Qed.

(** one extent after the fetch: the first k bytes are B's, the rest is what was there *)
Lemma extent_after_fetch tf c :
  doff + c_start c + c_clen c <= len fb ->
  let lo := doff + c_start c in
  let k := N.min (U.min_download - lo) (c_clen c) in
  sub (W.file_write tf 0 P) lo (c_clen c) =
  firstn (N.to_nat k) (sub fb lo (c_clen c)) ++ skipn (N.to_nat k) (sub tf lo (c_clen c)).
Proof.
  intros Cb lo k. set (n := c_clen c) in *.
  assert (Md : U.min_download = 89) by reflexivity.
  assert (Kn : k <= n) by (unfold k; lia).
  assert (Esp : sub (W.file_write tf 0 P) lo n =
                sub (W.file_write tf 0 P) lo k ++ sub (W.file_write tf 0 P) (lo + k) (n - k)).
  { rewrite (sub_app H). f_equal. lia. }
  rewrite Esp.
  rewrite (firstn_sub fb lo n k Kn), (skipn_sub tf lo n k Kn).
  f_equal.
  - destruct (N.eq_dec k 0) as [Z|Z]; [rewrite Z; reflexivity|].
    assert (lo + k <= len P).
    { rewrite lenP. unfold k in *. fold doff. lia. }
    rewrite sub_in_write by assumption. apply subP. assumption.
  - destruct (N.eq_dec (n - k) 0) as [Z|Z]; [rewrite Z; reflexivity|].
    (* k < n: the probe ends inside or before this extent *)
    apply sub_write_other; [lia|]. right. rewrite lenP. unfold k in *. fold doff. lia.
Qed.

Lemma slots_after_fetch tf : forall cs fl start,
  starts_ok start cs -> Forall (fun c => doff + c_start c + c_clen c <= len fb) cs ->
  abs_slots doff cs fb (W.file_write tf 0 P) fl =
  U.write_prefix (U.min_download - (doff + start)) (abs_slots doff cs fb tf fl).
Proof.
  induction cs as [|c cs IH]; intros fl start St Bc; [reflexivity|].
  cbn [starts_ok] in St. destruct St as [Sc St]. inversion Bc as [|? ? B1 B2]; subst.
  cbn [abs_slots U.write_prefix].
  destruct (U.min_download - (doff + c_start c) =? 0) eqn:Pz.
  - (* the probe ends before this extent: nothing from here on changes *)
    apply N.eqb_eq in Pz. f_equal.
    + f_equal. apply sub_write_other; [lia|]. right. rewrite lenP.
      assert (U.min_download = 89) by reflexivity. fold doff. lia.
    + rewrite (IH (tl fl) (c_start c + c_clen c) St B2).
      replace (U.min_download - (doff + (c_start c + c_clen c))) with 0 by lia.
      destruct (abs_slots doff cs fb tf (tl fl)); reflexivity.
  - unfold U.set_cur. cbn [U.s_chunk U.s_srv U.s_cur U.s_flag].
    assert (Ls : len (sub fb (doff + c_start c) (c_clen c)) = c_clen c) by (apply sub_len; exact B1).
    rewrite Ls. f_equal.
    + f_equal. apply (extent_after_fetch tf c B1).
    + rewrite (IH (tl fl) (c_start c + c_clen c) St B2). f_equal. lia.
Qed.

(** [Update.fetch_header] on the abstraction = the abstraction after the byte-level fetch
    (header region and all slots) *)
Theorem link_fetch_header tf fl :
  let T1 := U.fetch_header (abs_new h fb) (abs h fb tf fl) in
  let A1 := abs h fb (W.file_write tf 0 P) fl in
  U.t_hdr A1 = U.t_hdr T1 /\ U.t_slots A1 = U.t_slots T1.
Proof.
  cbn zeta. unfold U.fetch_header, abs. cbn [U.t_hdr U.t_slots abs_new U.b_hdr]. fold doff.
  pose proof Wf as [Nz [Le St]]. fold doff in Nz, Le.
  split.
  - assert (Lp : doff <= len P) by (rewrite lenP; lia).
    assert (Ne : P <> []) by (intros X; rewrite X in Lp; cbn in Lp; lia).
    apply firstn_of_fget; [pose proof (file_write_len_cover tf 0 P Ne); lia | exact Le |].
    intros x Hx. rewrite FL.fget_file_write.
    replace (0 <=? x) with true by (symmetry; apply N.leb_le; lia).
    replace (x <? 0 + len P) with true by (symmetry; apply N.ltb_lt; lia).
    cbn [andb]. unfold P, fetch_bytes, W.fget. rewrite N.sub_0_r. apply FL.nth_firstn_lt.
    rewrite lenP in Lp. fold doff. lia.
  - rewrite (slots_after_fetch tf (h_chunks h) fl 0 St).
    + f_equal. rewrite len_firstn. lia.
    + apply Forall_forall. intros c Hin. destruct (starts_total _ 0 St c Hin) as [_ Hs].
      rewrite Lb. fold doff. lia.
Qed.

End Fetch.
