(** LINK (c) without [no_gap]: the byte-level copy abstracts to [Update.copy_chunks] up to
    the contents of non-valid extents ([eqv], Dl/UpdateByteEquiv.v).  Instead of [no_gap]
    the flags only have to be sound in the weakest sense: an extent that is flagged valid
    lies inside the file ([flags_inside]; what the validity scan establishes). *)
From ZV Require Import Base.Bytes Gen.GenConsts Format.Header Format.ParseProofs Read.Scan Read.ScanProofs
                       Dl.Copy Dl.CopyProofs Dl.UpdateLink Dl.UpdateLinkCopy.
From ZV Require Dl.UpdateByteEquiv.
Local Open Scope N_scope.

Module E := Dl.UpdateByteEquiv.

Definition flags_inside (th : header) (tcs : list chunk) (fl : list Z) (tf : bytes) : Prop :=
  forall i tc, nth_error tcs i = Some tc -> nth i fl 0%Z = 1%Z ->
               c_clen tc = 0 \/ ext_lo th tc + c_clen tc <= len tf.

Lemma sub_keep (f1 f2 : bytes) off n :
  (forall x, off <= x < off + n -> fget f2 x = fget f1 x) -> len f1 <= len f2 ->
  (n = 0 \/ off + n <= len f1) -> sub f2 off n = sub f1 off n.
Proof.
  intros Hx Hl [H0|Hb]; [subst n; reflexivity|].
  apply sub_ext_eq; [exact Hx|lia|exact Hb].
Qed.

Section Link.
Variable H : N -> bytes -> bytes.
Variables sh th : header.
Variables sf fb : bytes.
Hypothesis Ks : known (h_chash sh).
Hypothesis Kt : known (h_chash th).
Hypothesis Ss : sized sh.
Hypothesis Sc : src_complete sh sf.
Let doff := data_offset th.
Let A := abs_old sh sf.
Let Hc := Hc_of H th.

Notation slot_at := (slot_at th fb).

Lemma copy_one_step tc v tf v' tf1 :
  len (c_digest tc) = ds_of (h_chash th) ->
  copy_one H sh sf th tc v tf = Some (v', tf1) ->
  let r := U.copy_one Hc A (slot_at tc tf v) in
  U.s_chunk r = uchunk tc /\ U.s_srv r = sub fb (doff + c_start tc) (c_clen tc) /\
  U.s_flag r = flag_of_Z v' /\
  (v = 1%Z -> v' = 1%Z /\ tf1 = tf /\ r = slot_at tc tf v) /\
  (v <> 1%Z -> v' = 1%Z -> sub tf1 (ext_lo th tc) (c_clen tc) = U.s_cur r /\
                           (c_clen tc = 0 \/ ext_lo th tc + c_clen tc <= len tf1)) /\
  len tf <= len tf1 /\
  (forall x, ~ in_ext th tc x -> fget tf1 x = fget tf x).
Proof.
  intros Lt E r. subst r. rewrite ucopy_unfold. unfold copy_one in E.
  destruct (v =? 1)%Z eqn:Ev.
  - apply Z.eqb_eq in Ev. inversion E; subst. cbn [slot_at UpdateLinkCopy.slot_at U.s_flag flag_of_Z Z.eqb Pos.eqb U.s_chunk U.s_srv].
    repeat split; auto; try lia; try (intros X; contradiction).
  - apply Z.eqb_neq in Ev.
    assert (U.s_flag (slot_at tc tf v) <> U.Valid) as Nv.
    { cbn [UpdateLinkCopy.slot_at U.s_flag]. intros X. apply flag_valid_iff in X. contradiction. }
    assert (match U.s_flag (slot_at tc tf v) with U.Valid => slot_at tc tf v | _ => ucopy_body Hc A (slot_at tc tf v) end
            = ucopy_body Hc A (slot_at tc tf v)) as Eu.
    { destruct (U.s_flag (slot_at tc tf v)); [contradiction|reflexivity|reflexivity]. }
    rewrite Eu. clear Eu Nv.
    unfold ucopy_body. cbn [UpdateLinkCopy.slot_at U.s_chunk uchunk U.c_digest U.c_ulen U.c_clen].
    unfold A. rewrite (lookup_link H sh sf th tc Ss Lt).
    unfold match_for in E.
    destruct (lookup sh (ds_of (h_chash th)) (c_digest tc)) as [[i sc]|] eqn:El.
    2:{ inversion E; subst. cbv beta iota. cbn [U.s_chunk U.s_srv U.s_flag uchunk].
        repeat split; auto; try lia; intros; contradiction. }
    cbn [old_entry uchunk U.c_ulen U.c_clen U.c_digest].
    destruct ((c_ulen sc =? c_ulen tc) && (c_clen sc =? c_clen tc)) eqn:Es.
    2:{ inversion E; subst. cbn [U.s_chunk U.s_srv U.s_flag uchunk].
        repeat split; auto; try lia; intros; contradiction. }
    apply andb_prop in Es. destruct Es as [Eu Ecl]. apply N.eqb_eq in Ecl.
    destruct (lookup_spec _ _ _ _ _ El) as (L1 & L2 & L3 & _).
    assert (Cs : data_offset sh + c_start sc + c_clen sc <= len sf).
    { unfold src_complete in Sc. rewrite Forall_forall in Sc. apply Sc. eapply nth_error_In. exact L2. }
    rewrite (write_and_verify_full H sh sf th tf sc tc Cs) in E.
    set (data := sub sf (data_offset sh + c_start sc) (c_clen sc)) in *.
    assert (Ld : len data = c_clen tc) by (unfold data; rewrite sub_len by exact Cs; exact Ecl).
    assert (Et : h_chash sh = h_chash th) by (apply ds_of_inj; assumption).
    assert (Lsc : len (c_digest sc) = ds_of (h_chash sh)).
    { destruct Ss as [Sd _]. rewrite Forall_forall in Sd. apply Sd. eapply nth_error_In. exact L2. }
    assert (Eh : U.bytes_eqb (Hc data) (c_digest sc) =
                 memcmp_eq (ds_of (h_chash sh)) (H (h_chash sh) data) (c_digest sc)).
    { unfold Hc, Hc_of. rewrite <- Et. symmetry. apply (memcmp_sized H). exact Lsc. }
    rewrite Ld, Ecl, N.eqb_refl, Eh. cbn [andb].
    destruct (memcmp_eq (ds_of (h_chash sh)) (H (h_chash sh) data) (c_digest sc)).
    + inversion E; subst v' tf1. unfold U.set_cur. cbn [U.s_chunk U.s_srv U.s_flag U.s_cur uchunk flag_of_Z Z.eqb Pos.eqb].
      split; [reflexivity|]. split; [reflexivity|]. split; [reflexivity|].
      split; [intros X; contradiction|]. split.
      * intros _ _. split.
        -- rewrite <- Ld. apply sub_file_write_same.
        -- destruct (N.eq_dec (c_clen tc) 0) as [Z|Z]; [left; exact Z|right].
           rewrite <- Ld. apply file_write_len_cover. intros X. rewrite X in Ld. cbn in Ld. lia.
      * split; [apply file_write_len_ge|]. intros x Hx. apply fget_file_write_out.
        unfold in_ext in Hx. rewrite Ld. exact Hx.
    + inversion E; subst v' tf1. unfold U.set_cur. cbn [U.s_chunk U.s_srv U.s_flag U.s_cur uchunk].
      split; [reflexivity|]. split; [reflexivity|]. split; [reflexivity|].
      split; [intros X; contradiction|]. split; [intros _ X; discriminate X|].
      split.
      * eapply N.le_trans; [apply (file_write_len_ge tf (ext_lo th tc) data) | apply file_write_len_ge].
      * intros x Hx. rewrite fget_file_write_out.
        -- apply fget_file_write_out. unfold in_ext in Hx. rewrite Ld. exact Hx.
        -- unfold in_ext in Hx. rewrite len_repeat, Nnat.N2Nat.id. exact Hx.
Qed.

Lemma abs_slots_eqv (f1 f2 : bytes) : forall cs fl,
  (forall i c, nth_error cs i = Some c -> nth i fl 0%Z = 1%Z ->
     sub f1 (doff + c_start c) (c_clen c) = sub f2 (doff + c_start c) (c_clen c)) ->
  E.eqv (abs_slots doff cs fb f1 fl) (abs_slots doff cs fb f2 fl).
Proof.
  induction cs as [|c cs IH]; intros fl Hs; [constructor|].
  cbn [abs_slots]. constructor.
  - unfold E.slot_eqv. cbn [U.s_chunk U.s_srv U.s_flag U.s_cur]. repeat split; auto.
    intros V. apply flag_valid_iff in V. apply (Hs O c eq_refl). rewrite nth_hd. exact V.
  - apply IH. intros i c' Hn Hv. apply (Hs (S i) c' Hn). rewrite nth_tl. exact Hv.
Qed.

Lemma copy_loop_eqv : forall tcs start fl tf fl' tf',
  starts_ok start tcs ->
  Forall (fun c => len (c_digest c) = ds_of (h_chash th)) tcs ->
  flags_inside th tcs fl tf ->
  copy_loop H sh sf th tcs fl tf = Some (fl', tf') ->
  E.eqv (abs_slots doff tcs fb tf' fl') (map (U.copy_one Hc A) (abs_slots doff tcs fb tf fl)) /\
  len tf <= len tf' /\
  (forall x, x < doff + start -> fget tf' x = fget tf x) /\
  flags_inside th tcs fl' tf'.
Proof.
  induction tcs as [|tc tcs IH]; intros start fl tf fl' tf' St Sz Fi E0.
  - cbn [copy_loop] in E0. inversion E0; subst. cbn [abs_slots map].
    split; [constructor|]. split; [lia|]. split; [auto|]. intros i c Hn. destruct i; discriminate.
  - inversion Sz as [|? ? Sz1 Sz2]; subst. cbn [starts_ok] in St. destruct St as [Sc0 St].
    cbn [copy_loop] in E0.
    destruct (copy_one H sh sf th tc (hd 0%Z fl) tf) as [[v1 tf1]|] eqn:E1; [|discriminate].
    destruct (copy_loop H sh sf th tcs (tl fl) tf1) as [[r tf2]|] eqn:E2; [|discriminate].
    inversion E0; subst fl' tf'. clear E0.
    destruct (copy_one_step tc (hd 0%Z fl) tf v1 tf1 Sz1 E1) as [S1 [S2 [S3 [S4 [S5 [S6 S7]]]]]].
    assert (Elo : ext_lo th tc = doff + start) by (unfold ext_lo; fold doff; rewrite Sc0; reflexivity).
    assert (Fi1 : flags_inside th tcs (tl fl) tf1).
    { intros i c Hn Hv. specialize (Fi (S i) c Hn). rewrite nth_tl in Fi. destruct (Fi Hv); [left; assumption|right; lia]. }
    destruct (IH (start + c_clen tc) (tl fl) tf1 r tf2 St Sz2 Fi1 E2) as [I1 [I2 [I3 I4]]].
    (* the head extent, if valid at the end, is complete in tf1 and untouched afterwards *)
    assert (Hkeep : v1 = 1%Z -> (c_clen tc = 0 \/ ext_lo th tc + c_clen tc <= len tf1) /\
                    sub tf2 (ext_lo th tc) (c_clen tc) = sub tf1 (ext_lo th tc) (c_clen tc)).
    { intros V1.
      assert (Cm : c_clen tc = 0 \/ ext_lo th tc + c_clen tc <= len tf1).
      { destruct (Z.eq_dec (hd 0%Z fl) 1) as [V|V].
        - destruct (S4 V) as [_ [-> _]]. apply (Fi O tc eq_refl). rewrite nth_hd. exact V.
        - exact (proj2 (S5 V V1)). }
      split; [exact Cm|]. apply sub_keep; [|exact I2|exact Cm].
      intros x Hx. apply I3. rewrite Elo in Hx. lia. }
    split; [|split; [|split]].
    + cbn [abs_slots map hd tl]. constructor.
      * fold (UpdateLinkCopy.slot_at th fb tc tf (hd 0%Z fl)).
        unfold E.slot_eqv. cbn [U.s_chunk U.s_srv U.s_flag U.s_cur]. fold doff in S2.
        unfold UpdateLinkCopy.slot_at in S1, S2, S3, S4, S5. fold doff in S1, S2, S3, S4, S5.
        rewrite S1, S2, S3. split; [reflexivity|]. split; [reflexivity|]. split; [reflexivity|].
        intros V. apply flag_valid_iff in V. destruct (Hkeep V) as [_ K]. unfold ext_lo in K. fold doff in K.
        rewrite K. destruct (Z.eq_dec (hd 0%Z fl) 1) as [V0|V0].
        -- destruct (S4 V0) as [_ [-> ->]]. reflexivity.
        -- destruct (S5 V0 V) as [X _]. unfold ext_lo in X. fold doff in X. exact X.
      * eapply E.eqv_trans; [exact I1|]. apply E.eqv_map; [intros; apply E.copy_one_eqv; assumption|].
        apply abs_slots_eqv. intros i c Hn Hv.
        assert (Cm : c_clen c = 0 \/ ext_lo th c + c_clen c <= len tf).
        { apply (Fi (S i) c Hn). rewrite nth_tl. exact Hv. }
        pose proof (starts_ge H _ _ St i c Hn) as Ge.
        apply sub_keep; [|exact S6|exact Cm].
        intros x Hx. apply S7. unfold in_ext. rewrite Elo. intros [X1 X2].
        unfold ext_lo, doff in *. lia.
    + lia.
    + intros x Hx. rewrite I3 by lia. apply S7. unfold in_ext. rewrite Elo. lia.
    + intros i c Hn Hv. destruct i as [|i].
      * cbn [nth_error] in Hn. inversion Hn; subst c. cbn [nth] in Hv.
        destruct (Hkeep Hv) as [[Z|Cm] _]; [left; exact Z|right; lia].
      * cbn [nth_error] in Hn. cbn [nth] in Hv. exact (I4 i c Hn Hv).
Qed.

End Link.

(** (c) zck_copy_chunks, for every target file *)
Theorem link_copy_eqv (H : N -> bytes -> bytes) sh sf th fb tf fl :
  known (h_chash sh) -> known (h_chash th) -> sized sh -> sized th ->
  starts_ok 0 (h_chunks th) -> src_complete sh sf -> flags_inside th (h_chunks th) fl tf ->
  data_offset th <= len tf ->
  exists fl' tf',
    copy_chunks H sh sf th tf fl = Some (fl', tf', sf) /\
    E.eqv (U.t_slots (abs th fb tf' fl'))
          (U.copy_chunks (Hc_of H th) (Some (abs_old sh sf)) (U.t_slots (abs th fb tf fl))) /\
    U.t_hdr (abs th fb tf' fl') = U.t_hdr (abs th fb tf fl) /\
    len tf <= len tf' /\ flags_inside th (h_chunks th) fl' tf'.
Proof.
  intros Ks Kt Ss [St _] Sto Sc Fi Ld.
  pose proof (copy_chunks_total H sh sf th tf fl) as Tot. unfold copy_chunks in *.
  destruct (copy_loop H sh sf th (h_chunks th) fl tf) as [[fl' tf']|] eqn:E0; [|congruence].
  exists fl', tf'. split; [reflexivity|].
  destruct (copy_loop_eqv H sh th sf fb Ks Kt Ss Sc (h_chunks th) 0 fl tf fl' tf' Sto St Fi E0) as [C1 [C2 [C3 C4]]].
  unfold abs. cbn [U.t_slots U.t_hdr U.copy_chunks]. split; [exact C1|]. split; [|split; assumption].
  apply (nth_ext _ _ 0 0).
  - rewrite !firstn_length. unfold len in C2, Ld. lia.
  - intros i Hi. rewrite firstn_length in Hi. unfold len in C2, Ld.
    rewrite !FileLemmas.nth_firstn_lt by lia.
    specialize (C3 (N.of_nat i) ltac:(lia)). unfold fget in C3. rewrite Nnat.Nat2N.id in C3. exact C3.
Qed.
