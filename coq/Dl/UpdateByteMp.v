(** LINK (d) for multipart responses, complete: the two confinement facts (table shape kept,
    no byte outside the requested extents changed) hold for every transfer through the
    multipart extractor, because every write of [mpx] goes through [dlw] (lifting lemmas of
    Dl/SessionProofs.v over C05_confinement).  So a well-formed multipart response, in any
    fragmentation, abstracts to [Update.place] of the request - no residual hypothesis. *)
From ZV Require Import Base.Bytes.
From ZV Require Dl.DlWrite Dl.DlInv Dl.DlPlace Dl.Multipart Dl.MpGrammar Dl.MpPlace Dl.LiteralMatcher Dl.MpFinal
                Dl.Session Dl.SessionProofs Dl.Update Dl.UpdateLinkPlace Dl.UpdateLinkCompose.
From Coq Require Import Sorted.
Local Open Scope N_scope.

Module W := Dl.DlWrite.
Module I := Dl.DlInv.
Module M := Dl.Multipart.
Module SP := Dl.SessionProofs.
Module LP := Dl.UpdateLinkPlace.
Module LC := Dl.UpdateLinkCompose.

Section Conf.
Variable H : bytes -> bytes.
Variable doff : N.
Variable rx_comp : bytes -> bool.
Variable rx_exec : bytes -> bytes -> option ((N * N) * (N * N)).
Variable ridx : list W.rentry.
Variable tab0 : list W.chunk.
Variable file0 : bytes.

(** invariant of any transfer for the request [ridx], relative to table and file at its start *)
Definition conf_inv (s : W.dlstate) : Prop :=
  I.dl_wf doff ridx tab0 s /\
  (forall off, (forall t c, nth_error tab0 t = Some c -> I.fillable ridx tab0 t -> ~ I.in_ext doff c off) ->
               W.fget (W.d_file s) off = W.fget file0 off).

Lemma conf_err s : conf_inv s -> conf_inv (W.set_err s).
Proof. intros [Wf Cf]. split; [apply I.dl_wf_err; exact Wf | exact Cf]. Qed.

Lemma conf_dlw s bs s' r : conf_inv s -> W.dlw H doff ridx s bs = (s', r) -> conf_inv s'.
Proof.
  intros [Wf Cf] Run. destruct (I.dlw_confined H doff ridx tab0 s bs s' r Wf Run) as [Wf' Cf'].
  split; [exact Wf'|]. intros off Ho. rewrite (Cf' off Ho). exact (Cf off Ho).
Qed.

(** header lines and body fragments of ANY response (any regex oracle, broken off anywhere)
    keep the table's shape and touch no byte outside the extents of the requested chunks *)
Theorem transfer_confined hdrs frags fpos :
  let x1 := fold_left (M.header_cb rx_comp rx_exec) hdrs (Dl.MpFinal.x_start fpos file0 tab0) in
  let x' := fst (fst (M.feed_frags H doff ridx rx_comp rx_exec x1 frags)) in
  I.same_shape tab0 (W.d_tab (M.x_dl x')) /\
  (forall x, (forall t c, nth_error tab0 t = Some c -> In t (map W.r_tgt ridx) -> ~ LP.in_ext doff c x) ->
             W.fget (W.d_file (M.x_dl x')) x = W.fget file0 x).
Proof.
  intros x1 x'.
  assert (conf_inv (M.x_dl x')) as [[Sh _] Cf].
  { apply (SP.feed_frags_lift H doff rx_comp rx_exec ridx conf_inv conf_err conf_dlw).
    apply (SP.headers_lift rx_comp rx_exec conf_inv conf_err).
    split; [apply I.dl_wf_init | intros; reflexivity]. }
  split; [exact Sh|]. intros x Hx. apply Cf.
  intros t c Hc [c0 [e [Hc0 [Nv [Hin Et]]]]]. apply (Hx t c Hc).
  apply in_map_iff. exists e. split; assumption.
Qed.

End Conf.

(** (d), multipart responses *)
Theorem link_place_multipart :
  forall H ds ul doff fb ridx tab0 datas B parts fpos file pre quoted frags,
  Dl.DlPlace.req_ok doff ridx tab0 -> Dl.DlPlace.datas_ok H ridx tab0 datas ->
  Dl.MpPlace.wf_body B parts datas ->
  Forall (fun c => c <> 0) pre ->
  (forall k, (k < length pre)%nat ->
     Dl.LiteralMatcher.prefix_ic Dl.LiteralMatcher.kw_boundary (skipn k (pre ++ Dl.LiteralMatcher.kw_boundary)) = false) ->
  B <> [] -> (quoted = false -> hd 0 B <> 32 /\ hd 0 B <> 34) ->
  len (Dl.MpGrammar.ct_line pre B quoted) < two64 ->
  Forall (fun fr => fr <> []) frags -> concat frags = Dl.MpGrammar.mp_body B parts ->
  Forall (fun c => length (W.c_digest c) = ds) tab0 ->
  StronglySorted lt (map W.r_tgt ridx) ->
  LP.from_server doff fb ridx tab0 datas ->
  exists x' rets,
    M.feed_frags H doff ridx Dl.LiteralMatcher.lit_comp Dl.LiteralMatcher.lit_exec
      (M.header_cb Dl.LiteralMatcher.lit_comp Dl.LiteralMatcher.lit_exec
         (Dl.MpFinal.x_start fpos file tab0) (Dl.MpGrammar.ct_line pre B quoted)) frags = (x', rets, true) /\
    Dl.Update.place (LP.Hc H ds) (map W.r_tgt ridx) 0 (LP.absr ul doff fb 0 tab0 file) =
      (LP.absr ul doff fb 0 (W.d_tab (M.x_dl x')) (W.d_file (M.x_dl x')), true).
Proof.
  intros H ds ul doff fb ridx tab0 datas B parts fpos file pre quoted frags
         Rq Dt Wf Hpre Hfree Hne Hq Hlen Hfr Hcat Sz Srt Fs.
  destruct (LC.link_place_multipart H ds ul doff fb ridx tab0 datas B parts fpos file pre quoted frags
              Rq Dt Wf Hpre Hfree Hne Hq Hlen Hfr Hcat Sz Srt Fs) as [x' [rets [F K]]].
  exists x', rets. split; [exact F|].
  destruct (transfer_confined H doff Dl.LiteralMatcher.lit_comp Dl.LiteralMatcher.lit_exec ridx tab0 file
              [Dl.MpGrammar.ct_line pre B quoted] frags fpos) as [Sh Cf].
  cbn [fold_left] in Sh, Cf. rewrite F in Sh, Cf. cbn [fst] in Sh, Cf.
  apply K; assumption.
Qed.
