(** LINK (e): the header fetch.  The chunk-level procedure ([Dl/Update.v] [dl_header_fetch],
    [fetch_header]) asks for the probe of zck_get_min_download_size() bytes and then for
    the rest of the header, and assumes that afterwards the library knows B's index.
    The byte-level header reader is [Format/ParseImpl.v] [parse_impl] (read_lead,
    read_header_from_file, read_preface, read_index, read_sig; proved against the format
    specification in C13 / ParseComplete.v [parse_impl_decides]).  Here:
    - [parse_impl] looks at a file only through its first lead + header-size bytes: any file
      that starts with these bytes of B is parsed to B's header record ([parse_impl_prefix]);
    - the byte ranges of the chunk-level header fetch, concatenated, are a prefix of B that
      contains these bytes ([fetched]), and nothing else of the header is requested;
    - so the reader run on the target after the fetch returns B's header record, and the
      chunk table of the abstraction is B's parsed index. *)
From ZV Require Import Base.Bytes Gen.GenConsts Format.Compint Format.Header Format.ParseImpl Format.ParseProofs
                       Read.Scan Dl.UpdateLink.
Local Open Scope N_scope.

(* ------------------------------------------------------------------------------------ *)
(** * two files that start with the same bytes *)

Lemma agree_firstn {A} (k j : nat) (f g : list A) :
  firstn k g = firstn k f -> (j <= k)%nat -> firstn j g = firstn j f.
Proof.
  intros E L.
  assert (X : forall l : list A, firstn j l = firstn j (firstn k l)).
  { intros l. rewrite firstn_firstn. f_equal. lia. }
  rewrite (X g), (X f), E. reflexivity.
Qed.

Lemma agree_len (k : nat) (x : N) (f g : bytes) :
  firstn k g = firstn k f -> x <= N.of_nat k -> (len g <? x) = (len f <? x).
Proof.
  intros E L. apply (f_equal (@length N)) in E. rewrite !firstn_length in E.
  unfold len. destruct (N.of_nat (length g) <? x) eqn:A; destruct (N.of_nat (length f) <? x) eqn:B; try reflexivity.
  - apply N.ltb_lt in A. apply N.ltb_ge in B. lia.
  - apply N.ltb_ge in A. apply N.ltb_lt in B. lia.
Qed.

(* ------------------------------------------------------------------------------------ *)
(** * read_lead and the whole reader depend on a prefix only *)

Lemma read_lead_prefix p f g l :
  read_lead p f = POk l ->
  firstn (N.to_nat (l_loaded l)) g = firstn (N.to_nat (l_loaded l)) f ->
  LEAD_READ <= l_loaded l ->
  read_lead p g = POk l.
Proof.
  intros E Ag Lr. remember (l_loaded l) as L eqn:EL. unfold read_lead in *.
  destruct (len f <? LEAD_READ) eqn:T0; [discriminate|].
  rewrite (agree_len _ LEAD_READ f g Ag) by lia. rewrite T0.
  rewrite (agree_firstn _ (N.to_nat LEAD_READ) f g Ag) by lia.
  set (buf := firstn (N.to_nat LEAD_READ) f) in *.
  destruct (negb (bytes_eqb (firstn 5 buf) magic_zhr || bytes_eqb (firstn 5 buf) magic_zck)) eqn:Tm; [discriminate|].
  pbind_pair E ht l1 E1.
  destruct (match p_type p with Some t => negb (t =? ht) | None => false end) eqn:Tp; [discriminate|].
  destruct (dsize ht) as [ds|] eqn:Td; [|discriminate].
  pbind_pair E hlen l2 E2.
  destruct (len f <? LEAD_READ + (if LEAD_READ <? l2 + ds then l2 + ds - LEAD_READ else 0)) eqn:T1; [discriminate|].
  pbind_one E dg E3.
  destruct (match p_digest p with Some d => negb (bytes_eqb d dg) | None => false end) eqn:T2; [discriminate|].
  destruct (match p_size p with Some s => negb (s =? hlen + (l2 + ds)) | None => false end) eqn:T3; [discriminate|].
  injection E as <-.
  change (L = LEAD_READ + (if LEAD_READ <? l2 + ds then l2 + ds - LEAD_READ else 0)) in EL.
  set (to_read := if LEAD_READ <? l2 + ds then l2 + ds - LEAD_READ else 0) in *.
  cbn [pbind]. try rewrite Tm. try rewrite E1. cbn [pbind]. try rewrite Tp. try rewrite Td.
  try rewrite E2. cbn [pbind]. fold to_read.
  rewrite (agree_len _ (LEAD_READ + to_read) f g Ag) by lia. rewrite T1.
  rewrite (agree_firstn _ (N.to_nat (LEAD_READ + to_read)) f g Ag) by lia.
  rewrite E3. cbn [pbind]. rewrite T2, T3. reflexivity.
Qed.

Section Reader.
Variable H : N -> bytes -> bytes.

(** every file that begins with the first lead + header-size bytes of a file the reader
    accepts is accepted with the same header record *)
Theorem parse_impl_prefix p f g h :
  parse_impl H p f = POk h ->
  firstn (N.to_nat (data_offset h)) g = firstn (N.to_nat (data_offset h)) f ->
  parse_impl H p g = POk h.
Proof.
  intros E Ag.
  destruct (parse_impl_ok H p f h E) as (l & hb & pf & cht & count & cs & u & El & Eh & Ep & Ei & Es & Hh).
  assert (Dh : data_offset h = l_size l + l_hlen l) by (rewrite Hh; reflexivity).
  rewrite Dh in Ag.
  (* what read_header_from_file checked *)
  pose proof Eh as Eh'. unfold read_header_from_file in Eh'.
  destruct ((l_size l =? 0) || (l_hlen l =? 0)) eqn:T0; [discriminate|].
  destruct ((u64 (l_size l + l_hlen l) <? l_size l) || (u64 (l_size l + l_hlen l) <? l_hlen l)) eqn:T1; [discriminate|].
  destruct (l_hlen l <? l_loaded l - l_size l) eqn:T2; [discriminate|].
  destruct (len f <? l_size l + l_hlen l) eqn:T3; [discriminate|].
  apply N.ltb_ge in T2.
  assert (Ll : LEAD_READ <= l_loaded l).
  { unfold read_lead in El. destruct (len f <? LEAD_READ); [discriminate|].
    destruct (negb _); [discriminate|]. pbind_pair El ht l1 E1.
    destruct (match p_type p with Some t => negb (t =? ht) | None => false end); [discriminate|].
    destruct (dsize ht) as [ds|]; [|discriminate]. pbind_pair El hlen l2 E2.
    destruct (len f <? _); [discriminate|]. pbind_one El dg E3.
    destruct (match p_digest p with Some d => negb (bytes_eqb d dg) | None => false end); [discriminate|].
    destruct (match p_size p with Some s => negb (s =? hlen + (l2 + ds)) | None => false end); [discriminate|].
    injection El as <-.
    change (LEAD_READ <= LEAD_READ + (if LEAD_READ <? l2 + ds then l2 + ds - LEAD_READ else 0)). lia. }
  assert (El' : read_lead p g = POk l).
  { apply (read_lead_prefix p f g l El); [|exact Ll].
    apply (agree_firstn (N.to_nat (l_size l + l_hlen l))); [exact Ag|].
    destruct (read_lead_bounds _ _ _ El) as (_ & _ & _ & B4). lia. }
  assert (Eh2 : read_header_from_file H l g = POk hb).
  { unfold read_header_from_file. rewrite T0, T1. replace (l_hlen l <? l_loaded l - l_size l) with false by (symmetry; apply N.ltb_ge; exact T2).
    rewrite (agree_len _ (l_size l + l_hlen l) f g Ag) by lia. rewrite T3. rewrite Ag.
    unfold read_header_from_file in Eh. rewrite T0, T1 in Eh.
    replace (l_hlen l <? l_loaded l - l_size l) with false in Eh by (symmetry; apply N.ltb_ge; exact T2).
    rewrite T3 in Eh. exact Eh. }
  unfold parse_impl. rewrite El'. cbn [pbind]. rewrite Eh2. cbn [pbind]. rewrite Ep. cbn [pbind].
  rewrite Ei. cbn [pbind]. rewrite Es. cbn [pbind]. rewrite Hh. reflexivity.
Qed.

(* ---------------------------------------------------------------------------------- *)
(** * the bytes the chunk-level header fetch asks for *)

(** concatenation of the requested ranges of [fb] (each range clamped to the file, as a
    server does) *)
Definition range_bytes (fb : bytes) (r : N * N) : bytes := sub fb (fst r) (snd r + 1 - fst r).
Definition fetched (fb : bytes) (h : header) : bytes :=
  concat (map (range_bytes fb) (U.hf_requests (U.dl_header_fetch true (h_lead h) (h_hlen h)))).

Lemma fetched_is_prefix fb h :
  0 < data_offset h ->
  fetched fb h = firstn (N.to_nat (N.max U.min_download (data_offset h))) fb.
Proof.
  intros Hp. unfold fetched, U.dl_header_fetch, data_offset in *.
  assert (Md : U.min_download = 89) by reflexivity.
  destruct (U.min_download <? h_lead h + h_hlen h) eqn:E; cbn [U.hf_requests map concat]; unfold range_bytes; cbn [fst snd].
  - apply N.ltb_lt in E. rewrite app_nil_r.
    replace (U.min_download - 1 + 1 - 0) with U.min_download by lia.
    replace (h_lead h + h_hlen h - 1 + 1 - U.min_download) with (h_lead h + h_hlen h - U.min_download) by lia.
    replace (N.max U.min_download (h_lead h + h_hlen h)) with (U.min_download + (h_lead h + h_hlen h - U.min_download)) by lia.
    change (sub fb U.min_download (h_lead h + h_hlen h - U.min_download))
      with (sub fb (0 + U.min_download) (h_lead h + h_hlen h - U.min_download)).
    rewrite (Read.ScanProofs.sub_app H fb 0 U.min_download (h_lead h + h_hlen h - U.min_download)).
    reflexivity.
  - apply N.ltb_ge in E. rewrite app_nil_r.
    replace (U.min_download - 1 + 1 - 0) with U.min_download by lia.
    replace (N.max U.min_download (h_lead h + h_hlen h)) with U.min_download by lia.
    reflexivity.
Qed.

(** (e) For a file B that the reader accepts with header record [h]:
    - the ranges of the chunk-level header fetch are those of [dl_header_fetch] for the lead
      and header size of [h], and [header_fetch_of] of the abstraction of B is this fetch;
    - their concatenation is the prefix of B of length max(probe, lead + header size);
    - every target file that holds these bytes at offset 0 - whatever follows - is read
      by the byte-level reader to the same record [h];
    - the header bytes of the abstraction are exactly lead + header, and the chunk table of
      the abstraction of any such target is [h]'s parsed index. *)
Theorem link_header_fetch p fb h :
  parse_impl H p fb = POk h ->
  U.header_fetch_of (abs_new h fb) = U.dl_header_fetch true (h_lead h) (h_hlen h) /\
  fetched fb h = firstn (N.to_nat (N.max U.min_download (data_offset h))) fb /\
  len (U.b_hdr (abs_new h fb)) = data_offset h /\
  (forall rest, parse_impl H p (fetched fb h ++ rest) = POk h) /\
  (forall tf, firstn (N.to_nat (data_offset h)) tf = firstn (N.to_nat (data_offset h)) fb ->
              parse_impl H p tf = POk h /\
              forall fl, map U.s_chunk (U.t_slots (abs h fb tf fl)) = map uchunk (h_chunks h)).
Proof.
  intros E.
  destruct (parse_impl_ok H p fb h E) as (l & hb & pf & cht & count & cs & u & El & Eh & _ & _ & _ & Hh).
  assert (Dh : data_offset h = l_size l + l_hlen l) by (rewrite Hh; reflexivity).
  assert (Lf : data_offset h <= len fb /\ 0 < data_offset h).
  { unfold read_header_from_file in Eh.
    destruct ((l_size l =? 0) || (l_hlen l =? 0)) eqn:T0; [discriminate|].
    destruct ((u64 (l_size l + l_hlen l) <? l_size l) || (u64 (l_size l + l_hlen l) <? l_hlen l)); [discriminate|].
    destruct (l_hlen l <? l_loaded l - l_size l); [discriminate|].
    destruct (len fb <? l_size l + l_hlen l) eqn:T3; [discriminate|]. apply N.ltb_ge in T3.
    apply orb_false_iff in T0. destruct T0 as [T0 _]. apply N.eqb_neq in T0. lia. }
  destruct Lf as [Lf Pos].
  assert (Lh : len (U.b_hdr (abs_new h fb)) = data_offset h).
  { cbn [abs_new U.b_hdr]. rewrite Read.ScanProofs.len_firstn. lia. }
  split.
  { unfold U.header_fetch_of. rewrite Lh. cbn [abs_new U.b_lead]. f_equal. unfold data_offset. lia. }
  split; [apply fetched_is_prefix; exact Pos|].
  split; [exact Lh|].
  split.
  { intros rest. apply (parse_impl_prefix p fb _ h E).
    rewrite (fetched_is_prefix fb h Pos).
    rewrite firstn_app.
    assert (length (firstn (N.to_nat (N.max U.min_download (data_offset h))) fb) >= N.to_nat (data_offset h))%nat as G.
    { rewrite firstn_length. unfold len in Lf. lia. }
    replace (N.to_nat (data_offset h) - length (firstn (N.to_nat (N.max U.min_download (data_offset h))) fb))%nat with O by lia.
    cbn [firstn]. rewrite app_nil_r, firstn_firstn. f_equal. lia. }
  intros tf Ag. split; [apply (parse_impl_prefix p fb tf h E Ag)|].
  intros fl. unfold abs. cbn [U.t_slots].
  generalize (data_offset h). generalize fl. induction (h_chunks h) as [|c cs' IH]; intros fl' d; [reflexivity|].
  cbn [abs_slots map U.s_chunk]. f_equal. apply IH.
Qed.

End Reader.
