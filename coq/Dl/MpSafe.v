(** Memory safety of the multipart model (T17.1): for arbitrary input bytes and every regex
    oracle that obeys the [regexec] contract (group offsets are ordered and lie inside the
    string that was matched), [mpx], [get_boundary] and [write_cb] never produce the
    out-of-bounds outcome ([MOOB]/[GOOB]) and never run out of fuel.  Proof only; the
    models are in DlWrite.v and Multipart.v. *)
From ZV Require Import Base.Bytes Dl.DlWrite Dl.Multipart Dl.DlProofs Dl.MpStream.
Local Open Scope N_scope.

(** the contract of [regexec]: every reported group is a sub-range of the subject string *)
Definition rx_contract (rx_exec : bytes -> bytes -> option ((N * N) * (N * N))) : Prop :=
  forall pat str so1 eo1 so2 eo2, rx_exec pat str = Some ((so1, eo1), (so2, eo2)) ->
    so1 <= eo1 /\ eo1 <= len str /\ so2 <= eo2 /\ eo2 <= len str.

(** * Buffer readers *)
(** the scan never leaves the buffer when [rem] is the number of bytes left *)
Lemma scan_no_oob : forall (suf : bytes) (rem j : N),
  rem = len suf -> scan suf rem j <> ScanOOB.
Proof.
  induction suf as [|a t IH]; intros rem j Hr.
  - cbn [scan]. destruct (rem <=? 4) eqn:E; [discriminate|].
    apply N.leb_gt in E. subst rem. rewrite len_nil in E. lia.
  - rewrite scan_cons. destruct (rem <=? 4) eqn:E; [discriminate|].
    apply N.leb_gt in E.
    destruct t as [|b [|c [|d t']]].
    + exfalso. subst rem. unfold len in E. cbn [length] in E. lia.
    + exfalso. subst rem. unfold len in E. cbn [length] in E. lia.
    + exfalso. subst rem. unfold len in E. cbn [length] in E. lia.
    + destruct ((a =? 13) && (b =? 10) && (c =? 13) && (d =? 10)); [discriminate|].
      apply IH. subst rem. rewrite (len_cons a). lia.
Qed.

(** a NUL at index [len p] bounds the C string *)
Lemma cstr_nul (p q : bytes) : exists s, cstr (p ++ 0 :: q) = Some s /\ len s <= len p.
Proof.
  induction p as [|c t IH]; cbn [app cstr].
  - rewrite N.eqb_refl. exists []. split; [reflexivity|]. rewrite len_nil. lia.
  - destruct (c =? 0).
    + exists []. split; [reflexivity|]. rewrite len_nil. lia.
    + destruct IH as [s [Hs Hl]]. rewrite Hs. cbn [option_map].
      exists (c :: s). split; [reflexivity|]. rewrite !len_cons. lia.
Qed.

Lemma take_exact_some (l : bytes) (so n : N) :
  so + n <= len l -> exists r, take_exact l so n = Some r.
Proof.
  intros Hle. unfold take_exact. cbv zeta.
  assert (E : len (firstn (N.to_nat n) (skipn (N.to_nat so) l)) = n).
  { unfold len in *. rewrite firstn_length, skipn_length. lia. }
  rewrite E, N.eqb_refl. eexists. reflexivity.
Qed.

Lemma nth_error_some (l : bytes) (k : N) : k < len l -> exists c, nth_error l (N.to_nat k) = Some c.
Proof.
  intros Hk. destruct (nth_error l (N.to_nat k)) as [c|] eqn:E.
  - exists c. reflexivity.
  - apply nth_error_None in E. unfold len in Hk. lia.
Qed.

(** [(size_t)(eo - so)] does not exceed the mathematical difference *)
Lemma u64_diff_le (so eo : N) : so <= eo -> u64 (eo + two64 - so) <= eo - so.
Proof.
  intros Hle. unfold u64.
  replace (eo + two64 - so) with (eo - so + 1 * two64) by lia.
  rewrite N.mod_add by (unfold two64; lia).
  apply N.mod_le. unfold two64. lia.
Qed.

Section Safe.
Variable H : bytes -> bytes.
Variable doff : N.
Variable ridx : list rentry.
Variable rx_comp : bytes -> bool.
Variable rx_exec : bytes -> bytes -> option ((N * N) * (N * N)).

Hypothesis rx_ok : rx_contract rx_exec.

Notation loop := (mp_loop H doff ridx rx_exec).

(** * One iteration *)
Lemma hdr_step_safe pn pe dl mlen isuf r :
  hdr_step rx_exec pn pe dl mlen isuf = inl r -> snd r <> MOOB.
Proof.
  unfold hdr_step.
  destruct (scan isuf (len isuf) 0) as [j| |] eqn:Es.
  - pose proof (scan_found_len _ _ _ _ Es) as [_ Hj]. rewrite N.sub_0_r in Hj.
    destruct (cstr_nul (firstn (N.to_nat (j + 3)) isuf) (skipn (N.to_nat (j + 4)) isuf))
      as [s [Hs Hl]].
    set (mut := firstn (N.to_nat (j + 3)) isuf ++ 0 :: skipn (N.to_nat (j + 4)) isuf) in *.
    rewrite Hs.
    assert (Hp : len (firstn (N.to_nat (j + 3)) isuf) = j + 3).
    { unfold len. rewrite firstn_length. lia. }
    assert (Hm : j + 4 <= len mut).
    { unfold mut, len. rewrite app_length, firstn_length. cbn [length].
      rewrite skipn_length. lia. }
    destruct (rx_exec pn s) as [[[so1 eo1] [so2 eo2]]|] eqn:Erx.
    + destruct (rx_ok _ _ _ _ _ _ Erx) as (A & B & C & D).
      destruct (take_exact_some mut so1 (eo1 - so1)) as [d1 E1]; [lia|].
      destruct (take_exact_some mut so2 (eo2 - so2)) as [d2 E2]; [lia|].
      rewrite E1, E2. discriminate.
    + destruct (rx_exec pe s); intros E; inversion E; cbn [snd]; discriminate.
  - intros E; inversion E; cbn [snd]; discriminate.
  - exfalso. exact (scan_no_oob isuf (len isuf) 0 eq_refl Es).
Qed.

Lemma mp_step_safe pn pe dl st mlen isuf r :
  mp_step H doff ridx rx_exec pn pe dl st mlen isuf = inl r -> snd r <> MOOB.
Proof.
  destruct (nil_dec isuf) as [->|Hne].
  - rewrite mp_step_nil. intros E; inversion E; cbn [snd]; discriminate.
  - rewrite mp_step_ne by assumption. destruct st.
    + intros E. apply data_step_inl in E. rewrite E. discriminate.
    + apply hdr_step_safe.
Qed.

(** * The loop *)
Lemma loop_no_oob : forall f pn pe dl st mlen isuf,
  snd (loop f pn pe dl st mlen isuf) <> MOOB.
Proof.
  induction f as [|f IH]; intros pn pe dl st mlen isuf.
  - cbn [mp_loop snd]. discriminate.
  - rewrite mp_loop_S.
    destruct (mp_step H doff ridx rx_exec pn pe dl st mlen isuf)
      as [r|[[[dl' st'] mlen'] i']] eqn:E; cbn [mp_next].
    + eapply mp_step_safe; eassumption.
    + apply IH.
Qed.

Lemma loop_safe pn pe dl st mlen buf :
  snd (loop (2 * length buf + 4) pn pe dl st mlen buf) <> MOOB /\
  snd (loop (2 * length buf + 4) pn pe dl st mlen buf) <> MFuel.
Proof.
  split; [apply loop_no_oob|].
  apply mp_suff. unfold mp_meas. destruct st; lia.
Qed.

(** * T17.1 *)
Theorem mpx_safe : forall x b,
  snd (mpx H doff ridx rx_comp rx_exec x b) <> MOOB /\
  snd (mpx H doff ridx rx_comp rx_exec x b) <> MFuel.
Proof.
  intros x b. unfold mpx.
  destruct (d_err (x_dl x)); [cbn [snd]; split; discriminate|].
  cbv zeta.
  destruct (match x_rx x with
            | Some r => Some r
            | None => gen_regex rx_comp match x_boundary x with Some bd => bd | None => [] end
            end) as [[pn pe]|].
  - pose proof (loop_safe pn pe (x_dl x) (m_state (x_mp x)) (m_length (x_mp x))
                          (m_buf (x_mp x) ++ b)) as Hs.
    destruct (loop _ pn pe _ _ _ _) as [[dl' mp'] r].
    cbn [snd] in *. exact Hs.
  - cbn [snd]. split; discriminate.
Qed.

Theorem get_boundary_safe : forall x line,
  snd (get_boundary rx_comp rx_exec x line) <> GOOB.
Proof.
  intros x line. unfold get_boundary.
  destruct (d_err (x_dl x)); [cbn [snd]; discriminate|].
  destruct (negb (rx_comp pat_hdr)); [cbn [snd]; discriminate|].
  cbv zeta.
  destruct (cstr_nul line []) as [s [Hs Hl]].
  set (buf := line ++ [0]) in *.
  change (cstr buf = Some s) in Hs.
  assert (Hb : len buf = len line + 1).
  { unfold buf. rewrite len_app. reflexivity. }
  rewrite Hs.
  destruct (rx_exec pat_hdr s) as [[[so eo] [so2 eo2]]|] eqn:Erx; [|cbn [snd]; discriminate].
  destruct (rx_ok _ _ _ _ _ _ Erx) as (A & B & _ & _).
  pose proof (u64_diff_le so eo A) as Hbl.
  set (blen := u64 (eo + two64 - so)) in *.
  destruct (nth_error_some buf so) as [c0 E0]; [lia|]. rewrite E0.
  destruct ((c0 =? 34) && (2 <? blen)) eqn:Eq.
  - apply andb_true_iff in Eq. destruct Eq as [_ E2]. apply N.ltb_lt in E2.
    destruct (nth_error_some buf (so + blen - 1)) as [cl El]; [lia|]. rewrite El.
    destruct (cl =? 34).
    + destruct (take_exact_some buf (so + 1) (blen - 2)) as [bd Eb]; [lia|].
      rewrite Eb. cbn [snd]. discriminate.
    + destruct (take_exact_some buf so blen) as [bd Eb]; [lia|].
      rewrite Eb. cbn [snd]. discriminate.
  - destruct (take_exact_some buf so blen) as [bd Eb]; [lia|].
    rewrite Eb. cbn [snd]. discriminate.
Qed.

Theorem write_cb_safe : forall x frag,
  snd (write_cb H doff ridx rx_comp rx_exec x frag) <> MOOB /\
  snd (write_cb H doff ridx rx_comp rx_exec x frag) <> MFuel.
Proof.
  intros x frag. unfold write_cb.
  destruct (x_boundary x) as [bd|].
  - pose proof (mpx_safe x frag) as Hs.
    destruct (mpx H doff ridx rx_comp rx_exec x frag) as [x' r].
    cbn [snd] in *. exact Hs.
  - pose proof (dlw_total H doff ridx (x_dl x) frag) as Hd.
    destruct (dlw H doff ridx (x_dl x) frag) as [dl' r].
    cbn [snd] in *. destruct r; split; try discriminate. congruence.
Qed.

End Safe.

Print Assumptions mpx_safe.
Print Assumptions get_boundary_safe.
Print Assumptions write_cb_safe.
