(** [literal_matcher]: the MEANING of the three POSIX patterns zchunk builds, written as
    plain list functions — an instance of the regex oracle of Multipart.v.  Definitions only.

    Patterns (REG_EXTENDED | REG_ICASE, no REG_NEWLINE, "C" locale; the boundary is literal
    because the fixed add_boundary_to_regex escapes every ERE metacharacter):

      next:  \r?\n?--B\r\n.*content-range: *bytes *([0-9]+) *- *([0-9]+) */[0-9]+
      end:   \r\n--B--
      hdr:   boundary *= *(.*?) *\r

    Leftmost-longest semantics worked out (and compared with glibc on every string the
    correspondence run produces, see tools/props/c05.py):
    - next: "[.]" matches every byte, so the match starts at the first delimiter [--B CRLF]
      (case-insensitive, like everything else) and, being the longest one, ends with the LAST
      position where [content-range: *bytes *D+ *- *D+ */D+] parses; that occurrence must start
      at or after the end of the first delimiter.  The groups are the two digit runs of that
      last occurrence (each piece of it is forced: spaces, digits and the next literal are
      disjoint character classes).
    - hdr: in a POSIX ERE [.*?] is not lazy, it is [.*] made optional: the match starts at the first
      [boundary *=] after which some CR follows, the spaces after [=] are taken by the first
      [ *], and group 1 runs up to (excluding) the LAST CR of the string — trailing spaces and
      any ["; charset=..."] included.
    - end: a plain case-insensitive substring test. *)
From Coq Require Import String.
From ZV Require Import Base.Bytes Dl.DlWrite Dl.Multipart.
Local Open Scope N_scope.

Definition lower (c : byte) : byte := if (65 <=? c) && (c <=? 90) then c + 32 else c.

(** [p] is a prefix of [s], ASCII case-insensitively *)
Fixpoint prefix_ic (p s : bytes) : bool :=
  match p, s with
  | [], _ => true
  | a :: p', b :: s' => (lower a =? lower b) && prefix_ic p' s'
  | _ :: _, [] => false
  end.

Fixpoint span (f : byte -> bool) (s : bytes) : nat :=
  match s with
  | c :: t => if f c then S (span f t) else 0%nat
  | [] => 0%nat
  end.

Definition is_sp (c : byte) : bool := c =? 32.
Definition is_dg (c : byte) : bool := (48 <=? c) && (c <=? 57).

Definition kw_cr : bytes := Eval vm_compute in bytes_of_string "content-range:"%string.
Definition kw_bytes : bytes := Eval vm_compute in bytes_of_string "bytes"%string.
Definition kw_boundary : bytes := Eval vm_compute in bytes_of_string "boundary"%string.

(** [content-range: *bytes *([0-9]+) *- *([0-9]+) */[0-9]+] anchored at the head of [s]:
    offsets (relative to [s]) of the two digit runs *)
Definition cr_at (s : bytes) : option (nat * nat * nat * nat) :=
  if prefix_ic kw_cr s then
    let o1 := (14 + span is_sp (skipn 14 s))%nat in
    if prefix_ic kw_bytes (skipn o1 s) then
      let o2 := (o1 + 5 + span is_sp (skipn (o1 + 5) s))%nat in
      let d1 := span is_dg (skipn o2 s) in
      if (d1 =? 0)%nat then None else
      let o3 := (o2 + d1 + span is_sp (skipn (o2 + d1) s))%nat in
      match skipn o3 s with
      | 45 :: _ =>
        let o4 := (o3 + 1 + span is_sp (skipn (o3 + 1) s))%nat in
        let d2 := span is_dg (skipn o4 s) in
        if (d2 =? 0)%nat then None else
        let o5 := (o4 + d2 + span is_sp (skipn (o4 + d2) s))%nat in
        match skipn o5 s with
        | 47 :: r => if (span is_dg r =? 0)%nat then None else Some (o2, (o2 + d1)%nat, o4, (o4 + d2)%nat)
        | _ => None
        end
      | _ => None
      end
    else None
  else None.

(** the last position of [s] (absolute, [k] = offset of the head) where [cr_at] succeeds *)
Fixpoint last_cr (s : bytes) (k : nat) : option (nat * (nat * nat * nat * nat)) :=
  match s with
  | [] => None
  | _ :: t =>
      match last_cr t (S k) with
      | Some r => Some r
      | None => match cr_at s with Some g => Some (k, g) | None => None end
      end
  end.

(** first position where [p] occurs (case-insensitively) *)
Fixpoint find_ic (p s : bytes) (k : nat) : option nat :=
  if prefix_ic p s then Some k else
  match s with
  | [] => None
  | _ :: t => find_ic p t (S k)
  end.

Definition delim (boundary : bytes) : bytes := 45 :: 45 :: boundary ++ [13; 10].
Definition delim_end (boundary : bytes) : bytes := 13 :: 10 :: 45 :: 45 :: boundary ++ [45; 45].

Definition next_match (boundary str : bytes) : option ((N * N) * (N * N)) :=
  match last_cr str 0 with
  | Some (p, (a, b, c, d)) =>
      match find_ic (delim boundary) str 0 with
      | Some q =>
          if (q + length (delim boundary) <=? p)%nat
          then Some ((N.of_nat (p + a), N.of_nat (p + b)), (N.of_nat (p + c), N.of_nat (p + d)))
          else None
      | None => None
      end
  | None => None
  end.

Definition end_match (boundary str : bytes) : bool :=
  match find_ic (delim_end boundary) str 0 with Some _ => true | None => false end.

(** [boundary *= *(.*?) *\r] *)
Fixpoint last_index (x : byte) (s : bytes) (k : nat) : option nat :=
  match s with
  | [] => None
  | c :: t =>
      match last_index x t (S k) with
      | Some j => Some j
      | None => if c =? x then Some k else None
      end
  end.

Definition hdr_at (s : bytes) : option (nat * nat) :=
  if prefix_ic kw_boundary s then
    let o1 := (8 + span is_sp (skipn 8 s))%nat in
    match skipn o1 s with
    | 61 :: r =>
        match last_index 13 r 0 with
        | Some j => Some ((o1 + 1 + span is_sp r)%nat, (o1 + 1 + j)%nat)
        | None => None
        end
    | _ => None
    end
  else None.

Fixpoint hdr_first (s : bytes) (k : nat) : option (nat * nat) :=
  match s with
  | [] => None
  | _ :: t =>
      match hdr_at s with
      | Some (a, b) => Some ((k + a)%nat, (k + b)%nat)
      | None => hdr_first t (S k)
      end
  end.

Definition hdr_match (str : bytes) : option ((N * N) * (N * N)) :=
  match hdr_first str 0 with
  | Some (a, b) => Some ((N.of_nat a, N.of_nat b), (0, 0))
  | None => None
  end.

(** * Recognising which pattern was handed to the oracle *)
Fixpoint split_s (tmpl : bytes) : bytes * bytes :=
  match tmpl with
  | 37 :: 115 :: t => ([], t)
  | c :: t => let (a, b) := split_s t in (c :: a, b)
  | [] => ([], [])
  end.

Definition pre_next : bytes := Eval vm_compute in fst (split_s tmpl_next).
Definition suf_next : bytes := Eval vm_compute in snd (split_s tmpl_next).
Definition pre_end : bytes := Eval vm_compute in fst (split_s tmpl_end).
Definition suf_end : bytes := Eval vm_compute in snd (split_s tmpl_end).

Definition strip (pre suf pat : bytes) : option bytes :=
  let lp := length pre in
  let ls := length suf in
  let n := length pat in
  if (lp + ls <=? n)%nat && bytes_eqb (firstn lp pat) pre && bytes_eqb (skipn (n - ls) pat) suf
  then Some (firstn (n - lp - ls) (skipn lp pat)) else None.

Fixpoint unescape (b : bytes) : bytes :=
  match b with
  | 92 :: c :: t => c :: unescape t
  | c :: t => c :: unescape t
  | [] => []
  end.

Definition lit_comp (_ : bytes) : bool := true.

Definition lit_exec (pat str : bytes) : option ((N * N) * (N * N)) :=
  if bytes_eqb pat pat_hdr then hdr_match str else
  match strip pre_next suf_next pat with
  | Some e => next_match (unescape e) str
  | None =>
      match strip pre_end suf_end pat with
      | Some e => if end_match (unescape e) str then Some ((0, 0), (0, 0)) else None
      | None => None
      end
  end.
