(** C11 at byte level: restarting on whatever an interruption left behind.

    The composed theorem of Dl/UpdateByteFinal.v holds for EVERY initial target file, flag
    list and context state; an interruption of the byte-level run after any number of
    written bytes leaves SOME byte string at the target path (and fresh contexts start with
    arbitrary flags), so every crash state is covered - the theorems below quantify over all
    byte strings [tf_crash], which is stronger than quantifying over reachable ones, and
    apply again to whatever a second, third, ... interruption leaves.

    (a) the restart converges to B; (b) it requests only chunks whose extent in the partial
    file (after the header fetch) does not already pass the validity test and which the
    old file cannot supply, each once; (c) the scan of the restart flags a chunk valid only
    if its extent lies inside the file and hashes to the index digest. *)
From ZV Require Import Base.Bytes Gen.GenConsts Format.Header Format.ParseProofs Read.Scan Read.ScanProofs
                       Dl.UpdateLink Dl.UpdateByteRun Dl.UpdateByteFinal.
From ZV Require Format.ParseImpl Dl.Update Dl.UpdateProofs Dl.UpdateLinkCopy.
Local Open Scope N_scope.

(** B: accepted by the header reader, valid, ends with its data section *)
Definition good_B (H : N -> bytes -> bytes) (p : Format.ParseImpl.pins) (h : header) (fb : bytes) : Prop :=
  Format.ParseImpl.parse_impl H p fb = Format.ParseImpl.POk h /\ wf_bytes fb /\
  h_detached h = false /\ sized h /\
  len fb = data_offset h + data_total (h_chunks h) /\
  data_offset h + data_total (h_chunks h) < two64 /\
  UP.wf_new (Hc_of H h) (Hf_of H h) (abs_new h fb) (U.t_slots (abs h fb fb [])).

Section Resume.
Variable H : N -> bytes -> bytes.
Variable p : Format.ParseImpl.pins.
Variable h : header.
Variable fb : bytes.
Hypothesis GB : good_B H p h fb.

Let cs := h_chunks h.
Let Hc := Hc_of H h.

(** the target as the restart sees it after its header fetch *)
Definition after_fetch (tf : bytes) : bytes := W.file_write tf 0 (fetch_bytes h fb).

Lemma wf_of_good : scan_wf h fb.
Proof. destruct GB as [Pa [Wb _]]. exact (parse_impl_scan_wf H p fb h Wb Pa). Qed.

(** (a) *)
Theorem restart_converges old serve srv tf_crash fl st :
  old_ok h old -> 1 <= srv -> serves_B h fb serve ->
  Format.ParseImpl.parse_impl H p (after_fetch tf_crash) = Format.ParseImpl.POk h /\
  (UP.collision Hc \/
   exists fl' ev, byte_update H h fb old serve srv tf_crash fl st = Some (BFinish, fl', fb, ev) /\
                  (forall i c, nth_error cs i = Some c -> nth i fl' 0%Z = 1%Z)).
Proof.
  intros Ho Hs Sv. destruct GB as [Pa [Wb [Det [Sz [Lb [B64 Bv]]]]]].
  exact (byte_level_reconstructs H p h fb old serve srv tf_crash fl st Pa Wb Det Sz Lb B64 Bv Ho Hs Sv).
Qed.

(** what [needed_of] means in byte-level terms: the extent does not pass the validity test
    of C09 ([present]: inside the file, [digest_ok]: hashes to the index digest) and the
    old file has no usable chunk with that digest and sizes *)
Lemma needed_of_char old tf fl0 i :
  In i (needed_of H h fb old tf fl0) ->
  exists c, nth_error cs i = Some c /\
    present h (after_fetch tf) c && digest_ok H h c (stored h (after_fetch tf) c) = false /\
    U.usable_in Hc (old_abs old) (uchunk c) = false.
Proof.
  intros Hin. unfold needed_of in Hin.
  destruct (UP.needed_spec Hc (old_abs old) _ _ _ _ Hin) as [k [s [Ek [Hs [Hok Hus]]]]].
  cbn [Nat.add] in Ek. subst k.
  rewrite (nth_abs_slots h fb) in Hs.
  destruct (nth_error (h_chunks h) i) as [c|] eqn:Hn; [|discriminate]. cbn [option_map] in Hs.
  inversion Hs; subst s. cbn [U.s_chunk U.s_cur] in Hok, Hus.
  exists c. split; [exact Hn|]. split; [|exact Hus].
  assert (Lc : len (c_digest c) = ds_of (h_chash h)).
  { destruct GB as [_ [_ [_ [[Sc _] _]]]]. rewrite Forall_forall in Sc. apply Sc. eapply nth_error_In. exact Hn. }
  fold (stored h (after_fetch tf) c) in Hok. unfold after_fetch.
  rewrite <- (chunk_ok_same H h (W.file_write tf 0 (fetch_bytes h fb)) c Lc). exact Hok.
Qed.

(** (b) *)
Theorem restart_no_refetch old serve srv tf_crash fl st :
  old_ok h old -> 1 <= srv -> serves_B h fb serve ->
  UP.collision Hc \/
  exists fl' ev, byte_update H h fb old serve srv tf_crash fl st = Some (BFinish, fl', fb, ev) /\
    NoDup (U.served_chunks ev) /\
    (forall i, In i (U.asked_chunks ev) ->
       exists c, nth_error cs i = Some c /\
         present h (after_fetch tf_crash) c && digest_ok H h c (stored h (after_fetch tf_crash) c) = false /\
         U.usable_in Hc (old_abs old) (uchunk c) = false) /\
    (forall i c, nth_error cs i = Some c ->
       present h (after_fetch tf_crash) c = true -> digest_ok H h c (stored h (after_fetch tf_crash) c) = true ->
       ~ In i (U.asked_chunks ev)).
Proof.
  intros Ho Hs Sv. destruct GB as [_ [_ [Det [Sz [Lb [B64 Bv]]]]]].
  destruct (byte_update_full H h fb wf_of_good Det Sz Lb B64 Bv old serve srv tf_crash fl st Ho Hs Sv)
    as [C|[fl' [ev [E1 [_ [E3 E4]]]]]]; [left; exact C|right].
  exists fl', ev. split; [exact E1|]. split.
  { rewrite E3. unfold needed_of. apply UP.needed_nodup. }
  split.
  - intros i Hi. apply (needed_of_char old tf_crash fl). apply E4. exact Hi.
  - intros i c Hn Hp Hd Hi. destruct (needed_of_char old tf_crash fl i (E4 i Hi)) as [c' [Hn' [Hbad _]]].
    rewrite Hn in Hn'. inversion Hn'; subst c'. rewrite Hp, Hd in Hbad. discriminate Hbad.
Qed.

(** (c) the scan step of the restart (on any flags, any context state): a flag 1 means the
    chunk is the empty first entry, or its extent lies inside the file and its bytes hash to
    the index digest - a partially written chunk is never flagged valid *)
Theorem restart_scan_sound tf_crash fl st :
  exists r, validate_checksums H h (after_fetch tf_crash) fl st = Some r /\
    s_file r = after_fetch tf_crash /\
    forall i c, nth_error cs i = Some c -> nth_error (s_flags r) i = Some 1%Z ->
      empty_first (Nat.eqb i 0) c = true \/
      (present h (after_fetch tf_crash) c = true /\ digest_ok H h c (stored h (after_fetch tf_crash) c) = true).
Proof.
  destruct GB as [_ [_ [Det [Sz [Lb [B64 _]]]]]].
  destruct (fetched_file H h fb wf_of_good Lb B64 tf_crash) as [_ [_ W1]]. fold (after_fetch tf_crash) in W1.
  destruct (validate_checksums_full H h (after_fetch tf_crash) fl st W1 Det) as [ch E].
  eexists. split; [exact E|]. cbn [s_file s_flags]. split; [reflexivity|].
  intros i c Hn Hv. rewrite (expected_flags_nth H h (after_fetch tf_crash) i c Hn) in Hv.
  destruct (all_true _ && negb (uflag h) && negb (data_good H h (after_fetch tf_crash))); [discriminate Hv|].
  unfold chunk_good in Hv.
  destruct (empty_first (Nat.eqb i 0) c); [left; reflexivity|]. cbn [orb] in Hv. right.
  destruct (present h (after_fetch tf_crash) c); [|discriminate Hv].
  destruct (digest_ok H h c (stored h (after_fetch tf_crash) c)); [auto|discriminate Hv].
Qed.

End Resume.
