(** Streaming ("fragmentation independence") of [multipart_extract]: feeding [a ++ b] in one
    call is the same as feeding [a], then [b], provided the first call left by [break]
    ([MOk]) without raising the sticky error.  Proof only; the models are in DlWrite.v and
    Multipart.v.  The streaming law of [dl_write_range] is a section hypothesis (it is
    proved in DlProofs.v). *)
From ZV Require Import Base.Bytes Dl.DlWrite Dl.Multipart.
Local Open Scope N_scope.

(** * List helpers *)
Lemma nil_dec (l : bytes) : {l = []} + {l <> []}.
Proof. destruct l; [left; reflexivity | right; discriminate]. Qed.

Lemma app_ne_l (a b : bytes) : a <> [] -> a ++ b <> [].
Proof. destruct a; [contradiction | discriminate]. Qed.

Lemma to_nat_len (l : bytes) : N.to_nat (len l) = length l.
Proof. unfold len. apply Nat2N.id. Qed.

Lemma len_pos (l : bytes) : l <> [] -> 0 < len l.
Proof. destruct l; [contradiction|]. intros _. rewrite len_cons. lia. Qed.

Lemma firstn_app_le (n : nat) (a b : bytes) :
  (n <= length a)%nat -> firstn n (a ++ b) = firstn n a.
Proof.
  intros Hn. rewrite firstn_app. replace (n - length a)%nat with 0%nat by lia.
  cbn [firstn]. apply app_nil_r.
Qed.

Lemma skipn_app_le (n : nat) (a b : bytes) :
  (n <= length a)%nat -> skipn n (a ++ b) = skipn n a ++ b.
Proof.
  intros Hn. rewrite skipn_app. replace (n - length a)%nat with 0%nat by lia. reflexivity.
Qed.

Lemma firstn_app_ge (n : nat) (a b : bytes) :
  (length a <= n)%nat -> firstn n (a ++ b) = a ++ firstn (n - length a) b.
Proof. intros Hn. rewrite firstn_app. rewrite firstn_all2 by lia. reflexivity. Qed.

Lemma skipn_app_ge (n : nat) (a b : bytes) :
  (length a <= n)%nat -> skipn n (a ++ b) = skipn (n - length a) b.
Proof. intros Hn. rewrite skipn_app. rewrite skipn_all2 by lia. reflexivity. Qed.

Lemma firstn_ne (n : nat) (b : bytes) : (0 < n)%nat -> b <> [] -> firstn n b <> [].
Proof. destruct n; [lia|]. destruct b; [contradiction|]. intros _ _. discriminate. Qed.

(** * Buffer readers are stable under extension of the buffer *)
Lemma cstr_app (p q s : bytes) : cstr p = Some s -> cstr (p ++ q) = Some s.
Proof.
  revert s. induction p as [|c t IH]; intros s Hs; cbn [cstr app] in *.
  - discriminate.
  - destruct (c =? 0); [exact Hs|].
    destruct (cstr t) as [l|] eqn:E; cbn [option_map] in Hs; [|discriminate].
    rewrite (IH l eq_refl). cbn [option_map]. exact Hs.
Qed.

Lemma take_exact_app (p q : bytes) (so n : N) (r : bytes) :
  take_exact p so n = Some r -> take_exact (p ++ q) so n = Some r.
Proof.
  unfold take_exact. intros Hs.
  destruct (len (firstn (N.to_nat n) (skipn (N.to_nat so) p)) =? n) eqn:E; [|discriminate].
  pose proof E as E'. apply N.eqb_eq in E'. unfold len in E'. rewrite firstn_length in E'.
  rewrite skipn_app, firstn_app.
  replace (N.to_nat n - length (skipn (N.to_nat so) p))%nat with 0%nat by lia.
  cbn [firstn]. rewrite app_nil_r. rewrite E. exact Hs.
Qed.

Lemma scan_cons (a : byte) (t : bytes) (rem j : N) :
  scan (a :: t) rem j =
  if rem <=? 4 then ScanNone else
  match t with
  | b :: c :: d :: _ =>
      if (a =? 13) && (b =? 10) && (c =? 13) && (d =? 10) then ScanFound j
      else scan t (rem - 1) (j + 1)
  | _ => ScanOOB
  end.
Proof. reflexivity. Qed.

Lemma scan_app : forall (xs : bytes) (rem j k : N) (b : bytes) (extra : N),
  scan xs rem j = ScanFound k -> scan (xs ++ b) (rem + extra) j = ScanFound k.
Proof.
  induction xs as [|a t IH]; intros rem j k b extra Hs.
  - cbn [scan] in Hs. destruct (rem <=? 4); discriminate.
  - rewrite scan_cons in Hs. change ((a :: t) ++ b) with (a :: (t ++ b)). rewrite scan_cons.
    destruct (rem <=? 4) eqn:E; [discriminate|]. apply N.leb_gt in E.
    replace (rem + extra <=? 4) with false by (symmetry; apply N.leb_gt; lia).
    destruct t as [|b0 [|c [|d t']]]; try discriminate.
    cbn [app].
    destruct ((a =? 13) && (b0 =? 10) && (c =? 13) && (d =? 10)); [exact Hs|].
    replace (rem + extra - 1) with (rem - 1 + extra) by lia.
    exact (IH _ _ _ b extra Hs).
Qed.

Lemma scan_found_len : forall (xs : bytes) (rem j k : N),
  scan xs rem j = ScanFound k -> j <= k /\ (N.to_nat (k - j) + 4 <= length xs)%nat.
Proof.
  induction xs as [|a t IH]; intros rem j k Hs.
  - cbn [scan] in Hs. destruct (rem <=? 4); discriminate.
  - rewrite scan_cons in Hs.
    destruct (rem <=? 4); [discriminate|].
    destruct t as [|b0 [|c [|d t']]]; try discriminate.
    destruct ((a =? 13) && (b0 =? 10) && (c =? 13) && (d =? 10)).
    + inversion Hs; subst. cbn [length]. split; lia.
    + apply IH in Hs. destruct Hs as [H1 H2]. cbn [length] in *. split; lia.
Qed.

(** * dlw results *)
Lemma dret_dcomb_eqb (n k m : N) (r : dres) :
  0 < k -> m = n + k -> (dret (dcomb n r) =? m) = (dret r =? k).
Proof.
  intros Hk ->. destruct r as [w| |]; cbn [dret dcomb].
  - destruct (w =? k) eqn:E.
    + apply N.eqb_eq in E. apply N.eqb_eq. lia.
    + apply N.eqb_neq in E. apply N.eqb_neq. lia.
  - replace (0 =? k) with false by (symmetry; apply N.eqb_neq; lia).
    apply N.eqb_neq. lia.
  - replace (0 =? k) with false by (symmetry; apply N.eqb_neq; lia).
    apply N.eqb_neq. lia.
Qed.

Section WithOracles.
Variable H : bytes -> bytes.
Variable doff : N.
Variable ridx : list rentry.
Variable rx_comp : bytes -> bool.
Variable rx_exec : bytes -> bytes -> option ((N * N) * (N * N)).

Hypothesis dlw_law : dlw_app_law H doff ridx.

Notation loop := (mp_loop H doff ridx rx_exec).
Notation dlw' := (dlw H doff ridx).

(** ** One iteration of [mp_loop] as a function: a final result, or the next loop state *)
Definition dsize (mlen avail : N) : N := if mlen <=? avail then mlen else avail.
Definition dst (mlen avail : N) : bool := if mlen <=? avail then false else true.
Definition dmlen (mlen avail : N) : N := if mlen <=? avail then 0 else mlen - avail.

Definition mp_res : Type := ((dlstate * mpstate) * mstatus) + (dlstate * bool * N * bytes).

Definition data_step (dl : dlstate) (mlen : N) (isuf : bytes) : mp_res :=
  let (dl', r) := dlw' dl (firstn (N.to_nat (dsize mlen (len isuf))) isuf) in
  if dret r =? dsize mlen (len isuf)
  then inr (dl', dst mlen (len isuf), dmlen mlen (len isuf),
            skipn (N.to_nat (dsize mlen (len isuf))) isuf)
  else inl ((dl', mkMp (dst mlen (len isuf)) (dmlen mlen (len isuf)) []), MErr).

Definition hdr_step (pn pe : bytes) (dl : dlstate) (mlen : N) (isuf : bytes) : mp_res :=
  match scan isuf (len isuf) 0 with
  | ScanOOB => inl ((dl, mkMp false mlen []), MOOB)
  | ScanNone => inl ((dl, mkMp false mlen isuf), MOk)
  | ScanFound j =>
    match cstr (firstn (N.to_nat (j + 3)) isuf ++ 0 :: skipn (N.to_nat (j + 4)) isuf) with
    | None => inl ((dl, mkMp false mlen []), MOOB)
    | Some str =>
      match rx_exec pn str with
      | None =>
          match rx_exec pe str with
          | None => inl ((set_err dl, mkMp false mlen []), MNoRange)
          | Some _ => inl ((dl, mkMp false mlen []), MEnd)
          end
      | Some ((so1, eo1), (so2, eo2)) =>
          match take_exact (firstn (N.to_nat (j + 3)) isuf ++ 0 :: skipn (N.to_nat (j + 4)) isuf)
                           so1 (eo1 - so1),
                take_exact (firstn (N.to_nat (j + 3)) isuf ++ 0 :: skipn (N.to_nat (j + 4)) isuf)
                           so2 (eo2 - so2) with
          | Some d1, Some d2 =>
              inr (dl, true, u64 (parse_dec d2 + two64 - parse_dec d1 + 1),
                   skipn (N.to_nat (j + 4)) isuf)
          | _, _ => inl ((dl, mkMp false mlen []), MOOB)
          end
      end
    end
  end.

Definition mp_step (pn pe : bytes) (dl : dlstate) (st : bool) (mlen : N) (isuf : bytes) : mp_res :=
  match isuf with
  | [] => inl ((dl, mkMp st mlen []), MOk)
  | _ => if st then data_step dl mlen isuf else hdr_step pn pe dl mlen isuf
  end.

Definition mp_next (f : nat) (pn pe : bytes) (s : mp_res) : (dlstate * mpstate) * mstatus :=
  match s with
  | inl r => r
  | inr (dl', st', mlen', i') => loop f pn pe dl' st' mlen' i'
  end.

Lemma mp_loop_S f pn pe dl st mlen isuf :
  loop (S f) pn pe dl st mlen isuf = mp_next f pn pe (mp_step pn pe dl st mlen isuf).
Proof.
  unfold mp_next, mp_step.
  destruct st, isuf as [|b0 isuf]; try reflexivity.
  - unfold data_step, dsize, dst, dmlen. cbn [mp_loop].
    destruct (dlw' dl _) as [dl' r].
    destruct (dret r =? _); reflexivity.
  - unfold hdr_step. cbn [mp_loop].
    destruct (scan _ _ _); try reflexivity.
    destruct (cstr _); try reflexivity.
    destruct (rx_exec pn _) as [[[so1 eo1] [so2 eo2]]|].
    + destruct (take_exact _ so1 _); try reflexivity.
      destruct (take_exact _ so2 _); reflexivity.
    + destruct (rx_exec pe _); reflexivity.
Qed.

Lemma mp_step_nil pn pe dl st mlen :
  mp_step pn pe dl st mlen [] = inl ((dl, mkMp st mlen []), MOk).
Proof. reflexivity. Qed.

Lemma mp_step_ne pn pe dl st mlen isuf : isuf <> [] ->
  mp_step pn pe dl st mlen isuf =
  if st then data_step dl mlen isuf else hdr_step pn pe dl mlen isuf.
Proof. destruct isuf; [contradiction | reflexivity]. Qed.

(** ** Fuel *)
Lemma mp_mono : forall f pn pe dl st mlen isuf,
  snd (loop f pn pe dl st mlen isuf) <> MFuel ->
  forall f', (f <= f')%nat -> loop f' pn pe dl st mlen isuf = loop f pn pe dl st mlen isuf.
Proof.
  induction f as [|f IH]; intros pn pe dl st mlen isuf Hnf f' Hle.
  - cbn [mp_loop snd] in Hnf. congruence.
  - destruct f' as [|f']; [lia|].
    rewrite mp_loop_S in Hnf. rewrite !mp_loop_S.
    destruct (mp_step pn pe dl st mlen isuf) as [r|[[[dl' st'] mlen'] i']]; cbn [mp_next] in *.
    + reflexivity.
    + apply IH; [exact Hnf | lia].
Qed.

Lemma mp_mono2 f1 f2 pn pe dl st mlen isuf :
  snd (loop f1 pn pe dl st mlen isuf) <> MFuel ->
  snd (loop f2 pn pe dl st mlen isuf) <> MFuel ->
  loop f1 pn pe dl st mlen isuf = loop f2 pn pe dl st mlen isuf.
Proof.
  intros H1 H2. destruct (Nat.le_ge_cases f1 f2) as [Hle|Hle].
  - symmetry. apply mp_mono; assumption.
  - apply mp_mono; assumption.
Qed.

Lemma data_step_inl dl mlen isuf r : data_step dl mlen isuf = inl r -> snd r = MErr.
Proof.
  unfold data_step. destruct (dlw' dl _) as [dl' r0].
  destruct (dret r0 =? _); intros E; inversion E; reflexivity.
Qed.

Lemma hdr_step_inl pn pe dl mlen isuf r : hdr_step pn pe dl mlen isuf = inl r -> snd r <> MFuel.
Proof.
  unfold hdr_step.
  repeat match goal with
         | |- context[match ?x with _ => _ end] => destruct x
         end; intros E; inversion E; cbn [snd]; discriminate.
Qed.

Lemma mp_step_inl pn pe dl st mlen isuf r :
  mp_step pn pe dl st mlen isuf = inl r -> snd r <> MFuel.
Proof.
  destruct (nil_dec isuf) as [->|Hne].
  - rewrite mp_step_nil. intros E; inversion E; cbn [snd]; discriminate.
  - rewrite mp_step_ne by assumption. destruct st.
    + intros E. apply data_step_inl in E. rewrite E. discriminate.
    + apply hdr_step_inl.
Qed.

Definition mp_meas (st : bool) (isuf : bytes) : nat :=
  (2 * length isuf + (if st then 2 else 1))%nat.

Lemma mp_step_inr pn pe dl st mlen isuf dl' st' mlen' i' :
  mp_step pn pe dl st mlen isuf = inr (dl', st', mlen', i') ->
  (mp_meas st' i' < mp_meas st isuf)%nat.
Proof.
  destruct (nil_dec isuf) as [->|Hne].
  { rewrite mp_step_nil. discriminate. }
  assert (HL : (1 <= length isuf)%nat).
  { destruct isuf; [contradiction|]. cbn [length]. lia. }
  rewrite mp_step_ne by assumption. unfold mp_meas. destruct st.
  - unfold data_step. destruct (dlw' dl _) as [dl0 r0].
    destruct (dret r0 =? _); intros E; inversion E; subst.
    unfold dst, dsize. destruct (mlen <=? len isuf).
    + rewrite skipn_length. lia.
    + rewrite skipn_length, to_nat_len. lia.
  - unfold hdr_step.
    repeat match goal with
           | |- context[match ?x with _ => _ end] => destruct x
           end; intros E; inversion E; subst.
    rewrite skipn_length. lia.
Qed.

Lemma mp_suff : forall f pn pe dl st mlen isuf,
  (mp_meas st isuf <= f)%nat -> snd (loop f pn pe dl st mlen isuf) <> MFuel.
Proof.
  induction f as [|f IH]; intros pn pe dl st mlen isuf Hf.
  - unfold mp_meas in Hf. destruct st; lia.
  - rewrite mp_loop_S.
    destruct (mp_step pn pe dl st mlen isuf) as [r|[[[dl' st'] mlen'] i']] eqn:E; cbn [mp_next].
    + eapply mp_step_inl; eassumption.
    + apply IH. apply mp_step_inr in E. lia.
Qed.

(** ** The data iteration that straddles the end of the first fragment *)
Lemma dlw_split dl xs w dl' r :
  xs <> [] -> w <> [] -> dlw' dl xs = (dl', r) -> dret r = len xs ->
  dlw' dl (xs ++ w) = let (s'', r2) := dlw' dl' w in (s'', dcomb (len xs) r2).
Proof.
  intros Hxs Hw Ed Er.
  pose proof (len_pos xs Hxs) as Hp.
  destruct r as [n| |]; cbn [dret] in Er.
  - subst n. exact (dlw_law dl xs w dl' (len xs) Hxs Hw Ed).
  - lia.
  - lia.
Qed.

Lemma data_split_step pn pe dl mlen xs b dl' r :
  xs <> [] -> b <> [] -> len xs < mlen -> dlw' dl xs = (dl', r) -> dret r = len xs ->
  mp_step pn pe dl true mlen (xs ++ b) = mp_step pn pe dl' true (mlen - len xs) b.
Proof.
  intros Hxs Hb Hlt Ed Er.
  rewrite (mp_step_ne pn pe dl true mlen (xs ++ b)) by (apply app_ne_l; assumption).
  rewrite (mp_step_ne pn pe dl' true (mlen - len xs) b) by assumption.
  pose proof (len_pos b Hb) as Hpb.
  unfold data_step, dsize, dst, dmlen. rewrite len_app.
  destruct (mlen <=? len xs + len b) eqn:E1.
  - apply N.leb_le in E1.
    replace (mlen - len xs <=? len b) with true by (symmetry; apply N.leb_le; lia).
    rewrite firstn_app_ge, skipn_app_ge by (unfold len in *; lia).
    replace (N.to_nat mlen - length xs)%nat with (N.to_nat (mlen - len xs))
      by (unfold len in *; lia).
    rewrite (dlw_split dl xs _ dl' r Hxs) ; [ | | assumption | assumption].
    2:{ apply firstn_ne; [lia | assumption]. }
    destruct (dlw' dl' _) as [s'' r2].
    rewrite (dret_dcomb_eqb (len xs) (mlen - len xs) mlen r2) by lia.
    reflexivity.
  - apply N.leb_gt in E1.
    replace (mlen - len xs <=? len b) with false by (symmetry; apply N.leb_gt; lia).
    rewrite firstn_app_ge, skipn_app_ge by (unfold len in *; lia).
    replace (N.to_nat (len xs + len b) - length xs)%nat with (N.to_nat (len b))
      by (unfold len in *; lia).
    rewrite (dlw_split dl xs _ dl' r Hxs) ; [ | | assumption | assumption].
    2:{ apply firstn_ne; [unfold len in *; lia | assumption]. }
    destruct (dlw' dl' _) as [s'' r2].
    rewrite (dret_dcomb_eqb (len xs) (len b) (len xs + len b) r2) by lia.
    replace (mlen - (len xs + len b)) with (mlen - len xs - len b) by lia.
    reflexivity.
Qed.

(** ** Core: the loop on [xs ++ b] is the loop on [xs] followed by the loop on [saved ++ b] *)
Lemma mp_core : forall f pn pe dl st mlen xs dl1 st1 mlen1 c1 b,
  b <> [] ->
  loop f pn pe dl st mlen xs = ((dl1, mkMp st1 mlen1 c1), MOk) ->
  forall f1 f2,
  snd (loop f1 pn pe dl st mlen (xs ++ b)) <> MFuel ->
  snd (loop f2 pn pe dl1 st1 mlen1 (c1 ++ b)) <> MFuel ->
  loop f1 pn pe dl st mlen (xs ++ b) = loop f2 pn pe dl1 st1 mlen1 (c1 ++ b).
Proof.
  induction f as [|f IH]; intros pn pe dl st mlen xs dl1 st1 mlen1 c1 b Hb Hrun f1 f2 Hf1 Hf2.
  { cbn [mp_loop] in Hrun. discriminate. }
  rewrite mp_loop_S in Hrun.
  destruct (nil_dec xs) as [->|Hxs].
  { rewrite mp_step_nil in Hrun. cbn [mp_next] in Hrun. inversion Hrun; subst.
    apply mp_mono2; assumption. }
  rewrite mp_step_ne in Hrun by assumption.
  destruct f1 as [|f1]; [cbn [mp_loop snd] in Hf1; congruence|].
  assert (Hxb : xs ++ b <> []) by (apply app_ne_l; assumption).
  destruct st.
  - (* data state *)
    unfold data_step, dsize, dst, dmlen in Hrun.
    destruct (mlen <=? len xs) eqn:Em.
    + (* the rest of the part lies inside xs *)
      destruct (dlw' dl (firstn (N.to_nat mlen) xs)) as [dl' r] eqn:Ed.
      destruct (dret r =? mlen) eqn:Er; cbn [mp_next] in Hrun; [|discriminate].
      assert (Hs : loop (S f1) pn pe dl true mlen (xs ++ b)
                   = loop f1 pn pe dl' false 0 (skipn (N.to_nat mlen) xs ++ b)).
      { rewrite mp_loop_S, mp_step_ne by assumption.
        unfold data_step, dsize, dst, dmlen.
        apply N.leb_le in Em.
        replace (mlen <=? len (xs ++ b)) with true
          by (symmetry; apply N.leb_le; rewrite len_app; lia).
        rewrite firstn_app_le by (unfold len in Em; lia).
        rewrite skipn_app_le by (unfold len in Em; lia).
        rewrite Ed, Er. reflexivity. }
      rewrite Hs in Hf1 |- *. apply (IH _ _ _ _ _ _ _ _ _ _ _ Hb Hrun); assumption.
    + (* the part continues beyond xs *)
      apply N.leb_gt in Em.
      rewrite to_nat_len, firstn_all, skipn_all in Hrun.
      destruct (dlw' dl xs) as [dl' r] eqn:Ed.
      destruct (dret r =? len xs) eqn:Er; cbn [mp_next] in Hrun; [|discriminate].
      apply N.eqb_eq in Er.
      destruct f as [|f]; [discriminate|].
      rewrite mp_loop_S, mp_step_nil in Hrun. cbn [mp_next] in Hrun.
      inversion Hrun; subst dl1 st1 mlen1 c1. clear Hrun.
      cbn [app] in Hf2 |- *.
      destruct f2 as [|f2]; [cbn [mp_loop snd] in Hf2; congruence|].
      rewrite mp_loop_S in Hf1, Hf2. rewrite !mp_loop_S.
      rewrite (data_split_step pn pe dl mlen xs b dl' r Hxs Hb Em Ed Er) in Hf1 |- *.
      destruct (mp_step pn pe dl' true (mlen - len xs) b) as [res|[[[dl2 st2] mlen2] i2]];
        cbn [mp_next] in *.
      * reflexivity.
      * apply mp_mono2; assumption.
  - (* header state *)
    unfold hdr_step in Hrun.
    destruct (scan xs (len xs) 0) as [j| |] eqn:Es; cbn [mp_next] in Hrun.
    3:{ discriminate. }
    2:{ inversion Hrun; subst. apply mp_mono2; assumption. }
    pose proof (scan_found_len _ _ _ _ Es) as [_ Hj]. rewrite N.sub_0_r in Hj.
    set (mut := firstn (N.to_nat (j + 3)) xs ++ 0 :: skipn (N.to_nat (j + 4)) xs) in *.
    destruct (cstr mut) as [str|] eqn:Ec; [|discriminate].
    destruct (rx_exec pn str) as [[[so1 eo1] [so2 eo2]]|] eqn:Erx.
    2:{ destruct (rx_exec pe str); discriminate. }
    destruct (take_exact mut so1 (eo1 - so1)) as [d1|] eqn:Et1; [|discriminate].
    destruct (take_exact mut so2 (eo2 - so2)) as [d2|] eqn:Et2; [|discriminate].
    cbn [mp_next] in Hrun.
    assert (Hs : loop (S f1) pn pe dl false mlen (xs ++ b)
                 = loop f1 pn pe dl true (u64 (parse_dec d2 + two64 - parse_dec d1 + 1))
                        (skipn (N.to_nat (j + 4)) xs ++ b)).
    { rewrite mp_loop_S, mp_step_ne by assumption. unfold hdr_step.
      rewrite len_app. rewrite (scan_app _ _ _ _ b (len b) Es).
      rewrite firstn_app_le by lia. rewrite skipn_app_le by lia.
      replace (firstn (N.to_nat (j + 3)) xs ++ 0 :: skipn (N.to_nat (j + 4)) xs ++ b)
        with (mut ++ b) by (unfold mut; rewrite <- app_assoc; reflexivity).
      rewrite (cstr_app _ b _ Ec), Erx.
      rewrite (take_exact_app _ b _ _ _ Et1), (take_exact_app _ b _ _ _ Et2).
      reflexivity. }
    rewrite Hs in Hf1 |- *. apply (IH _ _ _ _ _ _ _ _ _ _ _ Hb Hrun); assumption.
Qed.

(** ** [multipart_extract] *)
Lemma mpx_loop_app pn pe dl st mlen buf0 a b dl1 st1 mlen1 c1 :
  b <> [] ->
  loop (2 * length (buf0 ++ a) + 4) pn pe dl st mlen (buf0 ++ a)
    = ((dl1, mkMp st1 mlen1 c1), MOk) ->
  loop (2 * length (buf0 ++ (a ++ b)) + 4) pn pe dl st mlen (buf0 ++ (a ++ b))
    = loop (2 * length (c1 ++ b) + 4) pn pe dl1 st1 mlen1 (c1 ++ b).
Proof.
  intros Hb Hrun. rewrite (app_assoc buf0 a b).
  apply (mp_core _ _ _ _ _ _ _ _ _ _ _ _ Hb Hrun).
  - apply mp_suff. unfold mp_meas. destruct st; lia.
  - apply mp_suff. unfold mp_meas. destruct st1; lia.
Qed.

Theorem mpx_app : forall x a b x1,
  a <> [] -> b <> [] ->
  mpx H doff ridx rx_comp rx_exec x a = (x1, MOk) ->
  d_err (x_dl x1) = false ->
  mpx H doff ridx rx_comp rx_exec x (a ++ b) = mpx H doff ridx rx_comp rx_exec x1 b.
Proof.
  intros x a b x1 Ha Hb Hrun Herr.
  unfold mpx in Hrun.
  destruct (d_err (x_dl x)) eqn:Ex; [discriminate|].
  cbv zeta in Hrun.
  destruct (x_rx x) as [[pn pe]|] eqn:Erx.
  - destruct (loop _ pn pe _ _ _ _) as [[dl1 [st1 mlen1 c1]] r] eqn:El.
    inversion Hrun; subst x1 r. clear Hrun.
    cbn [x_dl] in Herr.
    unfold mpx. rewrite Ex, Erx.
    cbn [x_dl x_mp x_boundary x_rx m_buf m_state m_length]. rewrite Herr.
    cbv zeta.
    rewrite (mpx_loop_app _ _ _ _ _ _ _ _ _ _ _ _ Hb El). reflexivity.
  - destruct (gen_regex rx_comp _) as [[pn pe]|] eqn:Eg; [|discriminate].
    destruct (loop _ pn pe _ _ _ _) as [[dl1 [st1 mlen1 c1]] r] eqn:El.
    inversion Hrun; subst x1 r. clear Hrun.
    cbn [x_dl] in Herr.
    unfold mpx. rewrite Ex, Erx, Eg.
    cbn [x_dl x_mp x_boundary x_rx m_buf m_state m_length]. rewrite Herr.
    cbv zeta.
    rewrite (mpx_loop_app _ _ _ _ _ _ _ _ _ _ _ _ Hb El). reflexivity.
Qed.

End WithOracles.

Print Assumptions mpx_app.
