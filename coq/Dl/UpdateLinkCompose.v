(** LINK, glue: (b) read on the abstraction of a byte-level file (the chunk table range.c
    sees is the header's table with the context's flags), and (d) for multipart responses
    (the placement facts of [transfer_lit]). *)
From ZV Require Import Base.Bytes Gen.GenConsts Format.Header Format.ParseProofs Read.Scan Read.ScanProofs.
From ZV Require Import Dl.UpdateLink.
From ZV Require Dl.UpdateLinkRange Dl.UpdateLinkPlace Dl.Range Dl.Update
                Dl.DlWrite Dl.DlInv Dl.DlPlace Dl.Multipart Dl.MpGrammar Dl.LiteralMatcher Dl.MpPlace Dl.MpFinal.
From Coq Require Import Sorted.
Local Open Scope N_scope.

Module LR := Dl.UpdateLinkRange.
Module LP := Dl.UpdateLinkPlace.
Module R := Dl.Range.
Module W := Dl.DlWrite.

(** the table zck_get_missing_range walks: start, stored size and flag of every index entry *)
Fixpoint htable (cs : list chunk) (fl : list Z) : list R.chunk :=
  match cs with
  | [] => []
  | c :: r => R.mkChunk (c_start c) (c_clen c) (LR.Z_of_flag (flag_of_Z (hd 0%Z fl))) :: htable r (tl fl)
  end.

Lemma rtable_abs doff fb f : forall cs fl start,
  starts_ok start cs -> LR.rtable start (abs_slots doff cs fb f fl) = htable cs fl.
Proof.
  induction cs as [|c cs IH]; intros fl start St; [reflexivity|].
  cbn [starts_ok] in St. destruct St as [Sc St].
  cbn [abs_slots LR.rtable htable U.s_chunk U.s_flag uchunk U.c_clen]. rewrite Sc. f_equal. apply IH. exact St.
Qed.

Lemma flag_norm z : (z = 0 \/ z = 1 \/ z = -1)%Z -> LR.Z_of_flag (flag_of_Z z) = z.
Proof. intros [->|[->| ->]]; reflexivity. Qed.

(** (b) on the abstraction: for the header [h] of B, any target file and any flags, the
    byte-level range computation on the header's table and [Update.missing_range] on the
    abstraction request the same chunks and count the same number of ranges. *)
Theorem link_missing_range_abs h fb f fl maxr :
  scan_wf h f -> data_offset h + R.total_len (htable (h_chunks h) fl) < two64 ->
  let sl := U.t_slots (abs h fb f fl) in
  exists cov,
    R.missing_range (data_offset h) (htable (h_chunks h) fl) (Z.of_N maxr) =
      (R.coalesce (R.extents (data_offset h) cov), R.entries cov, snd (U.missing_range maxr 0 0 None 0 sl)) /\
    map fst cov = map N.of_nat (fst (U.missing_range maxr 0 0 None 0 sl)) /\
    snd (U.missing_range maxr 0 0 None 0 sl) = N.of_nat (length (R.coalesce (R.extents (data_offset h) cov))).
Proof.
  intros [Nz [_ St]] H64 sl. unfold sl, abs. cbn [U.t_slots].
  pose proof (rtable_abs (data_offset h) fb f (h_chunks h) fl 0 St) as E.
  destruct (LR.link_missing_range (data_offset h) (abs_slots (data_offset h) (h_chunks h) fb f fl) maxr
              ltac:(lia) ltac:(rewrite E; exact H64)) as [cov [C1 [C2 [C3 _]]]].
  exists cov. rewrite <- E. auto.
Qed.

(** (d) for multipart responses: [transfer_lit] (Dl/MpFinal.v) provides, for every
    well-formed multipart body delivered in any non-empty fragments, the first two parts of
    the placement postcondition; with the other two (table shape, no byte outside the
    requested extents changed - proved for [dlw] in C05_confinement, not yet lifted to the
    multipart extractor) the state after the transfer abstracts to [Update.place]. *)
Theorem link_place_multipart :
  forall H ds ul doff fb ridx tab0 datas B parts fpos file pre quoted frags,
  Dl.DlPlace.req_ok doff ridx tab0 -> Dl.DlPlace.datas_ok H ridx tab0 datas ->
  Dl.MpPlace.wf_body B parts datas ->
  Forall (fun c => c <> 0) pre ->
  (forall k, (k < length pre)%nat ->
     Dl.LiteralMatcher.prefix_ic Dl.LiteralMatcher.kw_boundary (skipn k (pre ++ Dl.LiteralMatcher.kw_boundary)) = false) ->
  B <> [] -> (quoted = false -> hd 0 B <> 32 /\ hd 0 B <> 34) ->
  len (Dl.MpGrammar.ct_line pre B quoted) < two64 ->
  Forall (fun fr => fr <> []) frags -> concat frags = Dl.MpGrammar.mp_body B parts ->
  Forall (fun c => length (W.c_digest c) = ds) tab0 ->
  StronglySorted lt (map W.r_tgt ridx) ->
  LP.from_server doff fb ridx tab0 datas ->
  exists x' rets,
    Dl.Multipart.feed_frags H doff ridx Dl.LiteralMatcher.lit_comp Dl.LiteralMatcher.lit_exec
      (Dl.Multipart.header_cb Dl.LiteralMatcher.lit_comp Dl.LiteralMatcher.lit_exec
         (Dl.MpFinal.x_start fpos file tab0) (Dl.MpGrammar.ct_line pre B quoted)) frags = (x', rets, true) /\
    (Dl.DlInv.same_shape tab0 (W.d_tab (Dl.Multipart.x_dl x')) ->
     (forall x, (forall t c, nth_error tab0 t = Some c -> In t (map W.r_tgt ridx) -> ~ LP.in_ext doff c x) ->
                W.fget (W.d_file (Dl.Multipart.x_dl x')) x = W.fget file x) ->
     Dl.Update.place (LP.Hc H ds) (map W.r_tgt ridx) 0 (LP.absr ul doff fb 0 tab0 file) =
       (LP.absr ul doff fb 0 (W.d_tab (Dl.Multipart.x_dl x')) (W.d_file (Dl.Multipart.x_dl x')), true)).
Proof.
  intros H ds ul doff fb ridx tab0 datas B parts fpos file pre quoted frags
         Rq Dt Wf Hpre Hfree Hne Hq Hlen Hfr Hcat Sz Srt Fs.
  destruct (Dl.MpFinal.transfer_lit H doff ridx tab0 datas B parts fpos file pre quoted frags
              Rq Dt Wf Hpre Hfree Hne Hq Hlen Hfr Hcat) as [x' [rets [F [P1 P2]]]].
  exists x', rets. split; [exact F|]. intros Sh Cf.
  apply (LP.placed_is_place H ds ul doff fb ridx tab0 datas file); try assumption.
  constructor; assumption.
Qed.
