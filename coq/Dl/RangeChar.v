(** Rendering of a range list: specification (comma-separated start-end list) and faithful
    model of zck_get_range_char / zck_get_range in /repo/src/lib/dl/range.c: the
    [snprintf] return-value contract and the growing [int]-sized buffer.  Definitions only. *)
From ZV Require Import Base.Bytes Gen.GenConsts Dl.Range.
Local Open Scope N_scope.

(** * Specification *)

(** Decimal digits, most significant first.  ["%llu"] of [(long long unsigned) n]: the
    value is taken modulo 2^64 and has at most 20 digits. *)
Fixpoint show_fuel (fuel : nat) (n : N) (acc : bytes) : bytes :=
  match fuel with
  | O => acc
  | S f =>
      let acc' := (48 + n mod 10) :: acc in
      if n / 10 =? 0 then acc' else show_fuel f (n / 10) acc'
  end.
Definition SHOW_DIGITS : nat := 20.
Definition show_N (n : N) : bytes := show_fuel SHOW_DIGITS (u64 n) [].

Definition CH_MINUS : byte := 45.
Definition CH_COMMA : byte := 44.

(** "start-end" *)
Definition show_range (p : item) : bytes := show_N (fst p) ++ CH_MINUS :: show_N (snd p).

Fixpoint join_comma (l : list bytes) : bytes :=
  match l with
  | [] => []
  | x :: r => match r with [] => x | _ :: _ => x ++ CH_COMMA :: join_comma r end
  end.

(** The rendered request. *)
Definition spec_range_string (l : list item) : bytes := join_comma (map show_range l).

(** Value of a digit string (for the round trip of [show_N]). *)
Definition dec_value (l : bytes) : N := fold_left (fun v d => 10 * v + (d - 48)) l 0.

(** * Implementation model *)

(** What ["%llu-%llu,"] formats for one item. *)
Definition fmt_item (p : item) : bytes := show_range p ++ [CH_COMMA].

(** First [n] elements, counting in [N]. *)
Fixpoint take (n : N) (l : bytes) : bytes :=
  match l with
  | [] => []
  | x :: r => if n =? 0 then [] else x :: take (n - 1) r
  end.

(** C99 [snprintf(dst, room, ...)] producing the text [txt]: it stores at most [room - 1]
    characters followed by NUL (nothing when [room = 0]) and returns the length the
    complete text has, NUL excluded. *)
Definition snprintf (room : N) (txt : bytes) : bytes * N :=
  (if room =? 0 then [] else take (room - 1) txt ++ [0], len txt).

(** Bytes of a C string: up to the first NUL. *)
Fixpoint cstr (l : bytes) : bytes :=
  match l with
  | [] => []
  | x :: r => if x =? 0 then [] else x :: cstr r
  end.

Inductive rc_result :=
| RcString (s : bytes)     (* the returned C string *)
| RcFault                  (* store outside the allocation: output[-1] *)
| RcIntOvf                 (* (int)(buf_size * 1.5) does not fit an int *)
| RcFuel.                  (* model fuel exhausted - excluded by the theorem *)

(** After the loop: an empty range leaves [loc = 0] and gets [loc = 1]; then
    [output[loc-1] = '\0'] replaces the final comma and the buffer is cut to [loc] bytes.
    [out_rev] holds the [loc] bytes in front of the cursor, newest first. *)
Definition rc_finish (loc : N) (out_rev : bytes) : rc_result :=
  let loc' := if loc =? 0 then 1 else loc in
  if loc' =? 0 then RcFault
  else RcString (cstr (rev_append (0 :: tl out_rev) [])).

(** The [while(ri)] loop.  [size] is [buf_size], [loc] the cursor.  Each round formats the
    current item into the [size - loc] bytes that are left; when the reported length is not
    below that room ([length >= buf_size - loc]) the buffer grows to [(int)(buf_size * 1.5)]
    and the same item is formatted again; otherwise the [length] bytes just stored are kept
    and the cursor advances. *)
Fixpoint rc_loop (fuel : nat) (ris : list item) (size loc : N) (out_rev : bytes) {struct fuel}
  : rc_result :=
  match ris with
  | [] => rc_finish loc out_rev
  | ri :: rest =>
      match fuel with
      | O => RcFuel
      | S f =>
          let (written, length) := snprintf (size - loc) (fmt_item ri) in
          if size - loc <=? length then
            let size' := size * RANGE_GROW_NUM / RANGE_GROW_DEN in
            if INT_MAX <? size' then RcIntOvf else rc_loop f ris size' loc out_rev
          else rc_loop f rest size (loc + length) (rev_append (take length written) out_rev)
      end
  end.

(** Growth steps available to the model (far more than an [int] allows). *)
Definition RC_GROWTHS : nat := 64.

(** zck_get_range_char *)
Definition range_char (ris : list item) : rc_result :=
  rc_loop (length ris + RC_GROWTHS) ris BUF_SIZE 0 [].

(** zck_get_range(start, end): a one-item list on the stack. *)
Definition get_range (s e : N) : rc_result := range_char [(s, e)].

(** Length of the text of all items (each with its comma). *)
Fixpoint text_len (l : list item) : N :=
  match l with [] => 0 | p :: r => len (fmt_item p) + text_len r end.

(** Largest text for which [(int)(buf_size * 1.5)] cannot overflow: growth only happens
    while [buf_size <= text_len], and [RC_TEXT_MAX * 3 / 2 <= INT_MAX]. *)
Definition RC_TEXT_MAX : N := INT_MAX * RANGE_GROW_DEN / RANGE_GROW_NUM.
