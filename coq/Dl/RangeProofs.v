(** Proofs about the missing-range model (Dl/Range.v). *)
From ZV Require Import Base.Bytes Dl.Range.
Local Open Scope N_scope.
Ltac Zify.zify_post_hook ::= Z.to_euclidean_division_equations.

(** * size_t helpers *)

Lemma dec64_pos x : 0 < x -> x < two64 -> dec64 x = x - 1.
Proof.
  intros H0 _. unfold dec64. replace (x =? 0) with false by (symmetry; apply N.eqb_neq; lia).
  reflexivity.
Qed.

(** [dec64] is the [size_t] subtraction of one. *)
Lemma dec64_u64 x : x < two64 -> dec64 x = u64 (x + (two64 - 1)).
Proof.
  intros H. unfold dec64. destruct (x =? 0) eqn:E.
  - apply N.eqb_eq in E. subst x. rewrite u64_small; [reflexivity|unfold two64; lia].
  - apply N.eqb_neq in E. unfold u64.
    replace (x + (two64 - 1)) with ((x - 1) + 1 * two64) by (unfold two64 in *; lia).
    rewrite N.mod_add by (unfold two64; discriminate).
    symmetry. apply N.mod_small. lia.
Qed.

Lemma sub64_le a b : b <= a -> a < two64 -> sub64 a b = a - b.
Proof.
  intros Hle Ha. unfold sub64. rewrite (u64_small b) by lia. unfold u64.
  replace (a + (two64 - b)) with ((a - b) + 1 * two64) by (unfold two64 in *; lia).
  rewrite N.mod_add by (unfold two64; discriminate).
  apply N.mod_small. lia.
Qed.

(** * Lists of items: the invariant of the range list *)

Definition below (l : list item) (s : N) : Prop := Forall (fun p => snd p < s) l.

(** [sep lo l]: every item starts at or after [lo], is non-empty, and the next one starts at
    least two bytes after its end. *)
Fixpoint sep (lo : N) (l : list item) : Prop :=
  match l with
  | [] => True
  | p :: r => lo <= fst p /\ fst p <= snd p /\ sep (snd p + 2) r
  end.

Lemma sep_weaken : forall l lo lo', lo' <= lo -> sep lo l -> sep lo' l.
Proof. destruct l as [|p r]; cbn [sep]; intros; [exact I|]. intuition lia. Qed.

Lemma sep_separated : forall l lo, sep lo l -> separated l.
Proof.
  induction l as [|p r IH]; intros lo H; cbn [separated sep] in *; [exact I|].
  destruct H as (H1 & H2 & H3). split; [exact H2|]. split; [|eapply IH; exact H3].
  destruct r as [|q r']; [exact I|]. cbn [sep] in H3. lia.
Qed.

Lemma sep_lower : forall l lo p, sep lo l -> In p l -> lo <= fst p /\ fst p <= snd p.
Proof.
  induction l as [|q r IH]; intros lo p H Hin; [destruct Hin|].
  cbn [sep] in H. destruct H as (H1 & H2 & H3). destruct Hin as [->|Hin]; [lia|].
  specialize (IH _ _ H3 Hin). lia.
Qed.

(** Appending an extent that lies behind everything: the new item is merged into the last
    one when it touches it. *)
Fixpoint snoc_merge (l : list item) (s e : N) : list item :=
  match l with
  | [] => [(s, e)]
  | p :: r =>
      match r with
      | [] => if snd p + 1 =? s then [(fst p, e)] else [p; (s, e)]
      | _ :: _ => p :: snoc_merge r s e
      end
  end.

Fixpoint touches (l : list item) (s : N) : bool :=
  match l with
  | [] => false
  | p :: r => match r with [] => snd p + 1 =? s | _ :: _ => touches r s end
  end.

Lemma snoc_length : forall l s e,
  length (snoc_merge l s e) = if touches l s then length l else S (length l).
Proof.
  induction l as [|p r IH]; intros s e; [reflexivity|].
  destruct r as [|q r'].
  - cbn [snoc_merge touches]. destruct (snd p + 1 =? s); reflexivity.
  - change (snoc_merge (p :: q :: r') s e) with (p :: snoc_merge (q :: r') s e).
    change (touches (p :: q :: r') s) with (touches (q :: r') s).
    cbn [length]. rewrite IH. destruct (touches (q :: r') s); reflexivity.
Qed.

Lemma snoc_length_le l s e : (length (snoc_merge l s e) <= S (length l))%nat.
Proof. rewrite snoc_length. destruct (touches l s); lia. Qed.

Lemma snoc_sep : forall l lo s e,
  sep lo l -> below l s -> lo <= s -> s <= e -> sep lo (snoc_merge l s e).
Proof.
  induction l as [|p r IH]; intros lo s e Hs Hb Hlo Hse.
  - cbn [snoc_merge sep]. cbn [fst snd]. lia.
  - cbn [sep] in Hs. destruct Hs as (H1 & H2 & H3).
    pose proof (Forall_inv Hb) as Hp. pose proof (Forall_inv_tail Hb) as Hr. cbn beta in Hp.
    destruct r as [|q r'].
    + cbn [snoc_merge]. destruct (snd p + 1 =? s) eqn:E.
      * cbn [sep fst snd]. lia.
      * apply N.eqb_neq in E. cbn [sep fst snd]. lia.
    + change (snoc_merge (p :: q :: r') s e) with (p :: snoc_merge (q :: r') s e).
      cbn [sep]. split; [exact H1|]. split; [exact H2|].
      apply IH; try assumption.
      pose proof (Forall_inv Hr) as Hq. cbn beta in Hq. cbn [sep] in H3. lia.
Qed.

Lemma snoc_below : forall l s e s',
  below l s -> s <= e -> e < s' -> below (snoc_merge l s e) s'.
Proof.
  induction l as [|p r IH]; intros s e s' Hb Hse He.
  - cbn [snoc_merge]. constructor; [cbn [snd]; lia|constructor].
  - pose proof (Forall_inv Hb) as Hp. pose proof (Forall_inv_tail Hb) as Hr. cbn beta in Hp.
    destruct r as [|q r'].
    + cbn [snoc_merge]. destruct (snd p + 1 =? s).
      * constructor; [cbn [snd]; lia|constructor].
      * constructor; [lia|]. constructor; [cbn [snd]; lia|constructor].
    + change (snoc_merge (p :: q :: r') s e) with (p :: snoc_merge (q :: r') s e).
      constructor; [lia|]. apply IH; assumption.
Qed.

Lemma covers_cons p l b : covers (p :: l) b <-> (fst p <= b /\ b <= snd p) \/ covers l b.
Proof.
  unfold covers. split.
  - intros (q & [->|Hin] & H); [left; exact H|right; exists q; auto].
  - intros [H|(q & Hin & H)]; [exists p; split; [left; reflexivity|exact H]|exists q; split; [right; exact Hin|exact H]].
Qed.

Lemma covers_nil b : covers [] b <-> False.
Proof. unfold covers. split; [intros (q & [] & _)|intros []]. Qed.

Lemma snoc_covers : forall l s e b,
  below l s -> Forall (fun p => fst p <= snd p) l -> s <= e ->
  (covers (snoc_merge l s e) b <-> covers l b \/ (s <= b /\ b <= e)).
Proof.
  induction l as [|p r IH]; intros s e b Hb Hne Hse.
  - cbn [snoc_merge]. rewrite covers_cons, !covers_nil. cbn [fst snd]. tauto.
  - pose proof (Forall_inv Hb) as Hp. pose proof (Forall_inv_tail Hb) as Hr. cbn beta in Hp.
    pose proof (Forall_inv Hne) as Hp2. pose proof (Forall_inv_tail Hne) as Hr2. cbn beta in Hp2.
    destruct r as [|q r'].
    + cbn [snoc_merge]. destruct (snd p + 1 =? s) eqn:E.
      * apply N.eqb_eq in E. rewrite !covers_cons, !covers_nil. cbn [fst snd]. lia.
      * rewrite !covers_cons, !covers_nil. cbn [fst snd]. tauto.
    + change (snoc_merge (p :: q :: r') s e) with (p :: snoc_merge (q :: r') s e).
      rewrite covers_cons, (covers_cons p (q :: r')), IH by assumption. tauto.
Qed.

Lemma sep_nonempty_items : forall l lo, sep lo l -> Forall (fun p => fst p <= snd p) l.
Proof.
  induction l as [|p r IH]; intros lo H; [constructor|].
  cbn [sep] in H. destruct H as (H1 & H2 & H3). constructor; [exact H2|eapply IH; exact H3].
Qed.

(** * The walk and the merge pass reduce to [snoc_merge] *)

Lemma insert_walk_append : forall l lo s e,
  sep lo l -> below l s -> insert_walk s e l = (l ++ [(s, e)], true).
Proof.
  induction l as [|p r IH]; intros lo s e Hs Hb; [reflexivity|].
  cbn [sep] in Hs. destruct Hs as (H1 & H2 & H3).
  pose proof (Forall_inv Hb) as Hp. pose proof (Forall_inv_tail Hb) as Hr. cbn beta in Hp.
  cbn [insert_walk]. replace (fst p <? s) with true by (symmetry; apply N.ltb_lt; lia).
  rewrite (IH _ _ _ H3 Hr). reflexivity.
Qed.

Lemma merge_from_snoc : forall r p lo s e c,
  0 < lo -> sep lo (p :: r) -> below (p :: r) s -> s <= e -> s < two64 ->
  merge_from p (r ++ [(s, e)]) c =
  (snoc_merge (p :: r) s e, if touches (p :: r) s then c - 1 else c).
Proof.
  induction r as [|q r' IH]; intros p lo s e c Hlo Hs Hb Hse Hs64.
  - cbn [sep] in Hs. destruct Hs as (H1 & H2 & _).
    pose proof (Forall_inv Hb) as Hp. cbn beta in Hp.
    cbn [app merge_from fst snd snoc_merge touches].
    rewrite dec64_pos by lia.
    destruct (snd p + 1 =? s) eqn:E.
    + apply N.eqb_eq in E. replace (s - 1 <=? snd p) with true by (symmetry; apply N.leb_le; lia).
      replace (snd p <? e) with true by (symmetry; apply N.ltb_lt; lia). reflexivity.
    + apply N.eqb_neq in E. replace (s - 1 <=? snd p) with false by (symmetry; apply N.leb_gt; lia).
      reflexivity.
  - pose proof Hs as Hs0. cbn [sep] in Hs. destruct Hs as (H1 & H2 & H3 & H4 & H5).
    pose proof (Forall_inv Hb) as Hp. pose proof (Forall_inv_tail Hb) as Hr. cbn beta in Hp.
    pose proof (Forall_inv Hr) as Hq. cbn beta in Hq.
    change ((q :: r') ++ [(s, e)]) with (q :: (r' ++ [(s, e)])).
    cbn [merge_from].
    rewrite dec64_pos by lia.
    replace (fst q - 1 <=? snd p) with false by (symmetry; apply N.leb_gt; lia).
    rewrite (IH q (snd p + 2) s e c) by (try assumption; try lia; cbn [sep]; auto).
    reflexivity.
Qed.

Lemma merge_combined_snoc : forall l lo s e c,
  0 < lo -> sep lo l -> below l s -> lo <= s -> s <= e -> s < two64 ->
  merge_combined (l ++ [(s, e)]) c = (snoc_merge l s e, if touches l s then c - 1 else c).
Proof.
  intros [|p r] lo s e c Hlo Hs Hb Hls Hse Hs64; [reflexivity|].
  change ((p :: r) ++ [(s, e)]) with (p :: (r ++ [(s, e)])). cbn [merge_combined].
  eapply merge_from_snoc; eauto.
Qed.

(** * range_add on a chunk that lies behind everything requested so far *)

Lemma range_add_spec hdr c num items idx :
  0 < hdr -> sep hdr items -> below items (hdr + c_start c) -> 0 < c_len c ->
  hdr + c_start c + c_len c < two64 ->
  range_add hdr c num (mkR items (N.of_nat (length items)) idx) =
  mkR (snoc_merge items (fst (ext hdr c)) (snd (ext hdr c)))
      (N.of_nat (length (snoc_merge items (fst (ext hdr c)) (snd (ext hdr c)))))
      ((num, c_len c) :: idx).
Proof.
  intros Hh Hs Hb Hl H64. unfold range_add, ext. cbn [r_items r_count r_index_rev fst snd].
  assert (E1 : u64 (c_start c + hdr) = hdr + c_start c) by (rewrite u64_small; lia).
  rewrite E1.
  assert (E2 : dec64 (u64 (hdr + c_start c + c_len c)) = hdr + c_start c + c_len c - 1).
  { rewrite u64_small by lia. apply dec64_pos; lia. }
  rewrite E2.
  set (s := hdr + c_start c) in *. set (e := s + c_len c - 1).
  rewrite (insert_walk_append items hdr s e Hs Hb).
  rewrite (merge_combined_snoc items hdr s e) by (try assumption; subst s e; lia).
  rewrite sub64_le by (subst s e; lia).
  rewrite u64_small by (subst s e; lia).
  replace (e - s + 1) with (c_len c) by (subst s e; lia).
  rewrite snoc_length. destruct (touches items s); f_equal; lia.
Qed.

(** * The loop of zck_get_missing_range *)

Definition step_ext (hdr : N) (acc : list item) (nc : N * chunk) : list item :=
  snoc_merge acc (fst (ext hdr (snd nc))) (snd (ext hdr (snd nc))).

(** The range list for the covered chunks [cov] (file order). *)
Definition build (hdr : N) (cov : list (N * chunk)) : list item := fold_left (step_ext hdr) cov [].

Definition st_of (hdr : N) (cov : list (N * chunk)) : rstate :=
  mkR (build hdr cov) (N.of_nat (length (build hdr cov))) (rev (entries cov)).

Lemma build_snoc hdr cov nc : build hdr (cov ++ [nc]) = step_ext hdr (build hdr cov) nc.
Proof. unfold build. rewrite fold_left_app. reflexivity. Qed.

Lemma entries_snoc cov nc : rev (entries (cov ++ [nc])) = (fst nc, c_len (snd nc)) :: rev (entries cov).
Proof. unfold entries. rewrite map_app, rev_app_distr. reflexivity. Qed.

Definition fetch_from (num : N) (l : list chunk) : list (N * chunk) :=
  filter has_bytes (filter is_missing (number_from num l)).

Definition union_ok (hdr : N) (cov : list (N * chunk)) : Prop :=
  forall b, covers (build hdr cov) b <-> exists nc, In nc cov /\ in_ext hdr (snd nc) b.

Lemma union_ok_snoc hdr cov nc :
  0 < c_len (snd nc) -> sep hdr (build hdr cov) -> below (build hdr cov) (hdr + c_start (snd nc)) ->
  union_ok hdr cov -> union_ok hdr (cov ++ [nc]).
Proof.
  intros Hl Hs Hb Hu b. rewrite build_snoc. unfold step_ext.
  rewrite snoc_covers; [|exact Hb|eapply sep_nonempty_items; exact Hs|unfold ext; cbn [fst snd]; lia].
  rewrite (Hu b). unfold ext, in_ext. cbn [fst snd]. split.
  - intros [(x & Hin & Hx)|H].
    + exists x. split; [apply in_or_app; left; exact Hin|exact Hx].
    + exists nc. split; [apply in_or_app; right; left; reflexivity|lia].
  - intros (x & Hin & Hx). apply in_app_or in Hin. destruct Hin as [Hin|[<-|[]]].
    + left. exists x. split; assumption.
    + right. lia.
Qed.

Lemma fetch_from_cons num c r :
  fetch_from num (c :: r) =
  if ((c_valid c =? 0)%Z && negb (c_len c =? 0))%bool then (num, c) :: fetch_from (num + 1) r
  else fetch_from (num + 1) r.
Proof.
  unfold fetch_from. cbn [number_from filter]. unfold is_missing at 1. cbn [snd].
  destruct (c_valid c =? 0)%Z; cbn [andb]; [|reflexivity].
  cbn [filter]. unfold has_bytes at 1. cbn [snd]. destruct (c_len c =? 0); reflexivity.
Qed.

Ltac split7 := split; [|split; [|split; [|split; [|split; [|split]]]]].

Lemma loop_spec hdr limit : 0 < hdr ->
  forall l pos num done,
  wf_from pos l -> hdr + pos + total_len l < two64 ->
  sep hdr (build hdr done) -> below (build hdr done) (hdr + pos) -> union_ok hdr done ->
  ((0 <= limit)%Z -> build hdr done = [] \/ N.of_nat (length (build hdr done)) < Z.to_N limit) ->
  exists cov suf,
    fetch_from num l = cov ++ suf /\
    missing_loop hdr limit l num (st_of hdr done) = st_of hdr (done ++ cov) /\
    sep hdr (build hdr (done ++ cov)) /\
    union_ok hdr (done ++ cov) /\
    ((limit < 0)%Z -> suf = []) /\
    (fetch_from num l <> [] -> cov <> []) /\
    ((0 <= limit)%Z -> N.of_nat (length (build hdr (done ++ cov))) <= N.max (Z.to_N limit) 1).
Proof.
  intros Hh. induction l as [|c r IH]; intros pos num done Hwf H64 Hs Hb Hu Hc.
  - exists [], []. rewrite (app_nil_r done). cbn [missing_loop fetch_from number_from filter app].
    split7; auto.
    intros Hl. specialize (Hc Hl). destruct Hc as [->|Hc]; cbn [length]; lia.
  - cbn [wf_from] in Hwf. destruct Hwf as (Hst & Hwf). cbn [total_len] in H64.
    assert (Hb' : below (build hdr done) (hdr + (pos + c_len c))).
    { eapply Forall_impl; [|exact Hb]. cbn beta. intros; lia. }
    cbn [missing_loop]. rewrite fetch_from_cons.
    destruct (c_valid c =? 0)%Z eqn:Ev; cbn [negb andb].
    2:{ apply (IH (pos + c_len c) (num + 1) done); auto. lia. }
    destruct (c_len c =? 0) eqn:El; cbn [negb].
    { apply (IH (pos + c_len c) (num + 1) done); auto. lia. }
    apply N.eqb_neq in El.
    set (nc := (num, c)).
    assert (Est : range_add hdr c num (st_of hdr done) = st_of hdr (done ++ [nc])).
    { unfold st_of at 1.
      rewrite range_add_spec; try assumption; try lia; [|rewrite Hst; exact Hb].
      unfold st_of. rewrite build_snoc, entries_snoc. reflexivity. }
    rewrite Est.
    assert (Hs1 : sep hdr (build hdr (done ++ [nc]))).
    { rewrite build_snoc. unfold step_ext, ext. subst nc. cbn [fst snd]. apply snoc_sep; auto; try lia.
      rewrite Hst. exact Hb. }
    assert (Hb1 : below (build hdr (done ++ [nc])) (hdr + (pos + c_len c))).
    { rewrite build_snoc. unfold step_ext, ext. subst nc. cbn [fst snd]. rewrite Hst.
      apply snoc_below; auto; lia. }
    assert (Hu1 : union_ok hdr (done ++ [nc])).
    { apply union_ok_snoc; auto; subst nc; cbn [snd]; [lia|rewrite Hst; exact Hb]. }
    assert (Hlen : (length (build hdr (done ++ [nc])) <= S (length (build hdr done)))%nat).
    { rewrite build_snoc. apply snoc_length_le. }
    assert (Hne : build hdr (done ++ [nc]) <> []).
    { rewrite build_snoc. unfold step_ext. intros E.
      apply (f_equal (@length item)) in E. rewrite snoc_length in E.
      destruct (build hdr done) as [|p0 r0] eqn:Eb; [discriminate|].
      destruct (touches (p0 :: r0) (fst (ext hdr (snd nc)))); discriminate. }
    cbn [r_count st_of].
    destruct ((0 <=? limit)%Z && (Z.to_N limit <=? N.of_nat (length (build hdr (done ++ [nc])))))%bool eqn:Estop.
    + (* the limit is reached: stop *)
      apply andb_true_iff in Estop. destruct Estop as (E1 & E2).
      apply Z.leb_le in E1. apply N.leb_le in E2.
      exists [nc], (fetch_from (num + 1) r).
      split7; auto.
      * intros Hneg. lia.
      * discriminate.
      * intros Hl. specialize (Hc Hl). destruct Hc as [E0|Hc]; [rewrite E0 in Hlen; cbn [length] in Hlen|]; lia.
    + (* continue *)
      assert (Hc1 : (0 <= limit)%Z -> build hdr (done ++ [nc]) = [] \/
                    N.of_nat (length (build hdr (done ++ [nc]))) < Z.to_N limit).
      { intros Hl. right. apply andb_false_iff in Estop. destruct Estop as [E|E].
        - apply Z.leb_gt in E. lia.
        - apply N.leb_gt in E. exact E. }
      destruct (IH (pos + c_len c) (num + 1) (done ++ [nc]) Hwf ltac:(lia) Hs1 Hb1 Hu1 Hc1)
        as (cov & suf & F1 & F2 & F3 & F4 & F5 & F6 & F7).
      exists (nc :: cov), suf. rewrite <- app_assoc in *. cbn [app] in *.
      rewrite F1.
      split7; auto. discriminate.
Qed.

(** * Facts about well-formed tables *)

Lemma wf_fromb_spec : forall l s, wf_fromb s l = true <-> wf_from s l.
Proof.
  induction l as [|c r IH]; intros s; cbn [wf_fromb wf_from]; [tauto|].
  rewrite andb_true_iff, N.eqb_eq, IH. tauto.
Qed.

Lemma wf_tableb_spec hdr l : wf_tableb hdr l = true <-> wf_table hdr l.
Proof.
  unfold wf_tableb, wf_table. rewrite !andb_true_iff, N.ltb_lt, N.ltb_lt, wf_fromb_spec. tauto.
Qed.

Lemma wf_from_start_ge : forall l pos c, wf_from pos l -> In c l -> pos <= c_start c.
Proof.
  induction l as [|x r IH]; intros pos c Hwf Hin; [destruct Hin|].
  cbn [wf_from] in Hwf. destruct Hwf as (H1 & H2). destruct Hin as [->|Hin]; [lia|].
  specialize (IH _ _ H2 Hin). lia.
Qed.

(** Two chunks of a well-formed table that share a byte are the same entry. *)
Lemma wf_from_disjoint hdr : forall l pos c c' b,
  wf_from pos l -> In c l -> In c' l -> in_ext hdr c b -> in_ext hdr c' b -> c = c'.
Proof.
  induction l as [|x r IH]; intros pos c c' b Hwf Hc Hc' Hb Hb'; [destruct Hc|].
  cbn [wf_from] in Hwf. destruct Hwf as (H1 & H2). unfold in_ext in *.
  destruct Hc as [->|Hc], Hc' as [->|Hc'].
  - reflexivity.
  - pose proof (wf_from_start_ge _ _ _ H2 Hc'). lia.
  - pose proof (wf_from_start_ge _ _ _ H2 Hc). lia.
  - eapply IH; eauto.
Qed.

Lemma in_number_from : forall l n nc, In nc (number_from n l) -> In (snd nc) l.
Proof.
  induction l as [|x r IH]; intros n nc H; [destruct H|].
  cbn [number_from] in H. destruct H as [<-|H]; [left; reflexivity|right; eapply IH; exact H].
Qed.

Lemma fetchable_in l nc : In nc (fetchable l) ->
  In (snd nc) l /\ c_valid (snd nc) = 0%Z /\ 0 < c_len (snd nc).
Proof.
  unfold fetchable, missing, numbered. intros H.
  apply filter_In in H. destruct H as (H & Hb). apply filter_In in H. destruct H as (H & Hm).
  split; [eapply in_number_from; exact H|].
  unfold is_missing in Hm. unfold has_bytes in Hb. apply Z.eqb_eq in Hm.
  apply negb_true_iff, N.eqb_neq in Hb. split; [exact Hm|lia].
Qed.

(** * The theorems *)

(** Everything about a call at once: the covered chunks [cov] are a prefix of the chunks that
    are missing and have bytes; ranges, range index and count are determined by [cov]. *)
Theorem missing_range_main hdr l limit :
  wf_table hdr l ->
  exists cov suf,
    fetchable l = cov ++ suf /\
    missing_range hdr l limit = (build hdr cov, entries cov, N.of_nat (length (build hdr cov))) /\
    sep hdr (build hdr cov) /\
    union_ok hdr cov /\
    ((limit < 0)%Z -> suf = []) /\
    (fetchable l <> [] -> cov <> []) /\
    ((0 <= limit)%Z -> N.of_nat (length (build hdr cov)) <= N.max (Z.to_N limit) 1).
Proof.
  intros (Hh & Hwf & H64).
  destruct (loop_spec hdr limit Hh l 0 0 [] Hwf ltac:(lia)) as (cov & suf & F1 & F2 & F3 & F4 & F5 & F6 & F7).
  - exact I.
  - constructor.
  - intros b. unfold build. cbn [fold_left]. rewrite covers_nil. split; [tauto|intros (x & [] & _)].
  - intros _. left. reflexivity.
  - exists cov, suf. cbn [app] in *. split7; auto.
    unfold missing_range. change empty_range with (st_of hdr []). rewrite F2.
    unfold st_of. cbn [r_items r_index_rev r_count]. rewrite rev_append_rev, app_nil_r, rev_involutive. reflexivity.
Qed.

(** T10.1 *)
Theorem ranges_separated hdr l limit rs idx cnt :
  wf_table hdr l -> missing_range hdr l limit = (rs, idx, cnt) -> separated rs.
Proof.
  intros Hwf E. destruct (missing_range_main hdr l limit Hwf) as (cov & suf & F1 & F2 & F3 & _).
  rewrite F2 in E. injection E as <- _ _. eapply sep_separated; exact F3.
Qed.

(** T10.2, T10.3, T10.5 *)
Theorem ranges_cover_prefix hdr l limit rs idx cnt :
  wf_table hdr l -> missing_range hdr l limit = (rs, idx, cnt) ->
  exists cov suf,
    fetchable l = cov ++ suf /\
    (forall b, covers rs b <-> exists nc, In nc cov /\ in_ext hdr (snd nc) b) /\
    ((limit < 0)%Z -> suf = []) /\
    (fetchable l <> [] -> cov <> []) /\
    ((0 <= limit)%Z -> N.of_nat (length rs) <= N.max (Z.to_N limit) 1) /\
    idx = entries cov /\
    cnt = N.of_nat (length rs).
Proof.
  intros Hwf E. destruct (missing_range_main hdr l limit Hwf) as (cov & suf & F1 & F2 & F3 & F4 & F5 & F6 & F7).
  rewrite F2 in E. injection E as <- <- <-. exists cov, suf. repeat split; auto; apply F4.
Qed.

(** T10.4 *)
Theorem ranges_confined hdr l limit rs idx cnt b :
  wf_table hdr l -> missing_range hdr l limit = (rs, idx, cnt) -> covers rs b ->
  hdr <= b /\ forall c, In c l -> c_valid c <> 0%Z -> ~ in_ext hdr c b.
Proof.
  intros Hwf E Hcov.
  destruct (ranges_cover_prefix hdr l limit rs idx cnt Hwf E) as (cov & suf & F1 & F2 & _).
  apply F2 in Hcov. destruct Hcov as (nc & Hin & Hb).
  assert (Hf : In nc (fetchable l)) by (rewrite F1; apply in_or_app; left; exact Hin).
  apply fetchable_in in Hf. destruct Hf as (Hl & Hv & Hlen).
  split; [unfold in_ext in Hb; lia|].
  intros c Hc Hvc Hbc. destruct Hwf as (_ & Hwf & _).
  assert (c = snd nc) by (eapply wf_from_disjoint; eauto). subst c. contradiction.
Qed.

(** * The covered chunks as a prefix of all missing chunks *)

Lemma filter_app_inv {A} (f : A -> bool) : forall l a b,
  filter f l = a ++ b -> exists a' b', l = a' ++ b' /\ filter f a' = a /\ filter f b' = b.
Proof.
  induction l as [|x r IH]; intros a b H.
  - cbn [filter] in H. symmetry in H. apply app_eq_nil in H. destruct H as (-> & ->).
    exists [], []. repeat split.
  - cbn [filter] in H. destruct (f x) eqn:Ex.
    + destruct a as [|y a0].
      * exists [], (x :: r). cbn [app filter]. rewrite Ex. repeat split. exact H.
      * cbn [app] in H. injection H as <- H. destruct (IH _ _ H) as (a' & b' & -> & Ha & Hb).
        exists (x :: a'), b'. cbn [app filter]. rewrite Ex, Ha. repeat split. exact Hb.
    + destruct (IH _ _ H) as (a' & b' & -> & Ha & Hb).
      exists (x :: a'), b'. cbn [app filter]. rewrite Ex. repeat split; assumption.
Qed.

Theorem ranges_prefix_of_missing hdr l limit rs idx cnt :
  wf_table hdr l -> missing_range hdr l limit = (rs, idx, cnt) ->
  exists pre suf,
    missing l = pre ++ suf /\
    (forall b, covers rs b <-> exists nc, In nc pre /\ in_ext hdr (snd nc) b) /\
    idx = entries (filter has_bytes pre) /\
    ((limit < 0)%Z -> pre = missing l).
Proof.
  intros Hwf E.
  destruct (ranges_cover_prefix hdr l limit rs idx cnt Hwf E) as (cov & suf & F1 & F2 & F3 & _ & _ & F6 & _).
  assert (Hgen : forall pre, filter has_bytes pre = cov ->
            forall b, covers rs b <-> exists nc, In nc pre /\ in_ext hdr (snd nc) b).
  { intros pre Hp b. rewrite F2. split; intros (nc & Hin & Hb); exists nc; (split; [|exact Hb]).
    - rewrite <- Hp in Hin. apply filter_In in Hin. tauto.
    - rewrite <- Hp. apply filter_In. split; [exact Hin|].
      unfold has_bytes. apply negb_true_iff, N.eqb_neq. unfold in_ext in Hb. lia. }
  destruct (limit <? 0)%Z eqn:El.
  - apply Z.ltb_lt in El. specialize (F3 El). subst suf. rewrite app_nil_r in F1.
    exists (missing l), []. rewrite app_nil_r.
    split; [reflexivity|]. split; [apply Hgen; exact F1|]. split; [|auto].
    unfold fetchable in F1. rewrite F1. exact F6.
  - apply Z.ltb_ge in El. unfold fetchable in F1.
    destruct (filter_app_inv _ _ _ _ F1) as (pre & suf' & Hm & Hp & _).
    exists pre, suf'. split; [exact Hm|]. split; [apply Hgen; exact Hp|].
    split; [rewrite Hp; exact F6|]. intros; lia.
Qed.

(** * Refinement to the specification function *)

Lemma coalesce_snoc : forall l x,
  coalesce (l ++ [x]) = snoc_merge (coalesce l) (fst x) (snd x).
Proof.
  induction l as [|p r IH]; intros x.
  - destruct x; reflexivity.
  - change ((p :: r) ++ [x]) with (p :: (r ++ [x])). cbn [coalesce]. rewrite IH.
    destruct (coalesce r) as [|q r'] eqn:Ec.
    + cbn [snoc_merge fst snd]. destruct (snd p + 1 =? fst x); destruct x; reflexivity.
    + destruct r' as [|q2 r''].
      * cbn [snoc_merge]. destruct (snd q + 1 =? fst x) eqn:E2;
          destruct (snd p + 1 =? fst q) eqn:E1; cbn [snoc_merge fst snd];
          rewrite ?E1, ?E2; reflexivity.
      * change (snoc_merge (q :: q2 :: r'') (fst x) (snd x))
          with (q :: snoc_merge (q2 :: r'') (fst x) (snd x)).
        cbv beta iota.
        destruct (snd p + 1 =? fst q); reflexivity.
Qed.

Lemma build_coalesce hdr : forall cov, build hdr cov = coalesce (extents hdr cov).
Proof.
  intros cov. induction cov as [|nc cov IH] using rev_ind; [reflexivity|].
  rewrite build_snoc, IH. unfold extents. rewrite map_app. cbn [map].
  rewrite coalesce_snoc. reflexivity.
Qed.

(** [spec_take] with the covered chunks kept in order. *)
Fixpoint take_b (hdr : N) (limit : Z) (done rest : list (N * chunk)) : list (N * chunk) :=
  match rest with
  | [] => done
  | x :: r =>
      let t := done ++ [x] in
      if ((0 <=? limit)%Z && (Z.to_N limit <=? N.of_nat (length (build hdr t))))%bool
      then t else take_b hdr limit t r
  end.

Lemma take_b_spec hdr limit : forall rest done,
  take_b hdr limit done rest = spec_take hdr limit (rev done) rest.
Proof.
  induction rest as [|x r IH]; intros done; cbn [take_b spec_take].
  - rewrite rev_involutive. reflexivity.
  - cbn [rev]. rewrite rev_involutive, <- build_coalesce.
    destruct ((0 <=? limit)%Z && (Z.to_N limit <=? N.of_nat (length (build hdr (done ++ [x])))))%bool.
    + reflexivity.
    + rewrite IH, rev_unit. reflexivity.
Qed.

Lemma loop_take hdr limit : 0 < hdr ->
  forall l pos num done,
  wf_from pos l -> hdr + pos + total_len l < two64 ->
  sep hdr (build hdr done) -> below (build hdr done) (hdr + pos) ->
  missing_loop hdr limit l num (st_of hdr done) =
  st_of hdr (take_b hdr limit done (fetch_from num l)).
Proof.
  intros Hh. induction l as [|c r IH]; intros pos num done Hwf H64 Hs Hb; [reflexivity|].
  cbn [wf_from] in Hwf. destruct Hwf as (Hst & Hwf). cbn [total_len] in H64.
  assert (Hb' : below (build hdr done) (hdr + (pos + c_len c))).
  { eapply Forall_impl; [|exact Hb]. cbn beta. intros; lia. }
  cbn [missing_loop]. rewrite fetch_from_cons.
  destruct (c_valid c =? 0)%Z eqn:Ev; cbn [negb andb].
  2:{ apply (IH (pos + c_len c)); auto. lia. }
  destruct (c_len c =? 0) eqn:El; cbn [negb].
  { apply (IH (pos + c_len c)); auto. lia. }
  apply N.eqb_neq in El.
  set (nc := (num, c)).
  assert (Est : range_add hdr c num (st_of hdr done) = st_of hdr (done ++ [nc])).
  { unfold st_of at 1.
    rewrite range_add_spec; try assumption; try lia; [|rewrite Hst; exact Hb].
    unfold st_of. rewrite build_snoc, entries_snoc. reflexivity. }
  rewrite Est. cbn [take_b r_count st_of].
  destruct ((0 <=? limit)%Z && (Z.to_N limit <=? N.of_nat (length (build hdr (done ++ [nc])))))%bool;
    [reflexivity|].
  apply (IH (pos + c_len c)); auto; try lia.
  - rewrite build_snoc. unfold step_ext, ext. subst nc. cbn [fst snd]. apply snoc_sep; auto; try lia.
    rewrite Hst. exact Hb.
  - rewrite build_snoc. unfold step_ext, ext. subst nc. cbn [fst snd]. rewrite Hst.
    apply snoc_below; auto; lia.
Qed.

Theorem missing_range_refines_spec hdr l limit :
  wf_table hdr l -> missing_range hdr l limit = spec_missing_ranges hdr l limit.
Proof.
  intros (Hh & Hwf & H64).
  unfold missing_range, spec_missing_ranges, spec_covered.
  change empty_range with (st_of hdr []).
  rewrite (loop_take hdr limit Hh l 0 0 []); auto; try lia; [|exact I|constructor].
  rewrite take_b_spec. cbn [rev]. unfold st_of. cbn [r_items r_index_rev r_count].
  rewrite rev_append_rev, app_nil_r, rev_involutive, build_coalesce. reflexivity.
Qed.
