(** LINK (d): placement of a served request.  [Dl/DlWrite.v] [dlw] is the model of
    dl_write_range (single-range responses; multipart responses reach it through
    [Dl/Multipart.v] [mpx]); C05_placement / C05_any_partition (Dl/DlPlace.v) and
    [transfer_lit] (Dl/MpFinal.v) state what a well-formed response does to the byte-level
    state: every requested chunk flagged valid with its bytes in place, every other flag
    unchanged; C05_confinement (Dl/DlInv.v) adds: no byte outside the requested extents
    changes and the table keeps its shape.  Here: under exactly this postcondition
    ([placed]) the abstraction of the state after the transfer is [Update.place] applied to
    the abstraction of the state before, and [dlw] on a well-formed single-range payload
    establishes the postcondition.

    Abstraction used for this step: the extent of a chunk is read with [fread] (bytes behind
    the end of the file read as 0), so an extent always has its full length.  It coincides
    with the [sub]-based abstraction of [Dl/UpdateLink.v] on every extent that lies inside
    the file - in particular on all of them after the final ftruncate to B's length.  The
    placement theorems of C05 say nothing about the file length, which is why the link is
    stated for this reading. *)
From ZV Require Import Base.Bytes.
From ZV Require Dl.DlWrite Dl.FileLemmas Dl.DlInv Dl.DlPlace Dl.Update Dl.UpdateProofs.
From Coq Require Import Sorted.
Local Open Scope N_scope.

Module W := Dl.DlWrite.
Module FL := Dl.FileLemmas.
Module I := Dl.DlInv.
Module P := Dl.DlPlace.
Module U := Dl.Update.
Module UP := Dl.UpdateProofs.

Definition flag_of_v (v : W.vflag) : U.flag :=
  match v with W.VValid => U.Valid | W.VFailed => U.Failed | W.VUnknown => U.Missing end.

Lemma nth_error_ext_local {A} : forall (l l' : list A), (forall j, nth_error l j = nth_error l' j) -> l = l'.
Proof.
  induction l as [|x l IH]; intros [|y l'] E; [reflexivity| | |].
  - specialize (E O). discriminate.
  - specialize (E O). discriminate.
  - pose proof (E O) as E0. cbn in E0. inversion E0; subst. f_equal. apply IH. intros j. exact (E (S j)).
Qed.

Section Link.
Variable H : bytes -> bytes.      (* the chunk checksum function of the target, as in DlWrite *)
Variable ds : nat.                (* its digest size *)
Variable ul : nat -> N.           (* uncompressed sizes (not visible to the download code) *)
Variable doff : N.
Variable fb : bytes.              (* the file the server holds *)

Definition Hc : bytes -> bytes := fun m => firstn ds (H m).

Definition slot_of (i : nat) (c : W.chunk) (f : bytes) : U.slot :=
  U.mkSlot (U.mkChunk (W.c_digest c) (W.c_len c) (ul i))
           (W.fread fb (doff + W.c_start c) (N.to_nat (W.c_len c)))
           (W.fread f (doff + W.c_start c) (N.to_nat (W.c_len c)))
           (flag_of_v (W.c_valid c)).

Fixpoint absr (i : nat) (tab : list W.chunk) (f : bytes) : list U.slot :=
  match tab with
  | [] => []
  | c :: r => slot_of i c f :: absr (S i) r f
  end.

Lemma nth_absr : forall tab i f j,
  nth_error (absr i tab f) j = option_map (fun c => slot_of (i + j) c f) (nth_error tab j).
Proof.
  induction tab as [|c tab IH]; intros i f j; [destruct j; reflexivity|].
  destruct j as [|j]; cbn [absr nth_error option_map].
  - rewrite Nat.add_0_r. reflexivity.
  - rewrite IH. replace (S i + j)%nat with (i + S j)%nat by lia. reflexivity.
Qed.

(* ---------------------------------------------------------------------------------- *)
(** * [Update.place] on a request in file order *)

Fixpoint mark (req : list nat) (i : nat) (sl : list U.slot) : list U.slot :=
  match sl with
  | [] => []
  | s :: r => (if existsb (Nat.eqb i) req then U.set_cur s (U.s_srv s) U.Valid else s) :: mark req (S i) r
  end.

Lemma mark_nil : forall sl i, mark [] i sl = sl.
Proof. induction sl as [|s sl IH]; intros i; [reflexivity|]. cbn [mark existsb]. rewrite IH. reflexivity. Qed.

Lemma mark_ext : forall sl i req req',
  (forall k, (i <= k)%nat -> existsb (Nat.eqb k) req = existsb (Nat.eqb k) req') ->
  mark req i sl = mark req' i sl.
Proof.
  induction sl as [|s sl IH]; intros i req req' E; [reflexivity|].
  cbn [mark]. rewrite (E i (le_n i)). f_equal. apply IH. intros k Hk. apply E. lia.
Qed.

Lemma nth_mark : forall sl req i j,
  nth_error (mark req i sl) j =
  option_map (fun s => if existsb (Nat.eqb (i + j)) req then U.set_cur s (U.s_srv s) U.Valid else s) (nth_error sl j).
Proof.
  induction sl as [|s sl IH]; intros req i j; [destruct j; reflexivity|].
  destruct j as [|j]; cbn [mark nth_error option_map].
  - rewrite Nat.add_0_r. reflexivity.
  - rewrite IH. replace (S i + j)%nat with (i + S j)%nat by lia. reflexivity.
Qed.

Lemma place_mark : forall sl req i,
  StronglySorted lt req -> Forall (fun r => (i <= r)%nat) req ->
  (forall j s, nth_error sl j = Some s -> In (i + j)%nat req ->
               U.chunk_ok Hc (U.s_chunk s) (U.s_srv s) = true) ->
  U.place Hc req i sl = (mark req i sl, true).
Proof.
  induction sl as [|s sl IH]; intros req i Srt Ge Ok.
  - destruct req; reflexivity.
  - destruct req as [|r req']; [rewrite UP.place_nil, mark_nil; reflexivity|].
    inversion Srt as [|? ? Srt' Hlt]; subst. inversion Ge as [|? ? Hr Ge']; subst.
    cbn [U.place mark existsb].
    destruct (Nat.eqb r i) eqn:E.
    + apply Nat.eqb_eq in E. subst r. rewrite Nat.eqb_refl. cbn [orb].
      rewrite (Ok O s eq_refl) by (rewrite Nat.add_0_r; left; reflexivity).
      rewrite (IH req' (S i) Srt').
      * f_equal. f_equal. apply mark_ext. intros k Hk. cbn [existsb].
        replace (Nat.eqb k i) with false by (symmetry; apply Nat.eqb_neq; lia). reflexivity.
      * rewrite Forall_forall in Hlt |- *. intros x Hx. specialize (Hlt x Hx). lia.
      * intros j s' Hn Hin. apply (Ok (S j) s' Hn). right. replace (i + S j)%nat with (S i + j)%nat by lia. exact Hin.
    + apply Nat.eqb_neq in E.
      assert (existsb (Nat.eqb i) (r :: req') = false) as Ex.
      { cbn [existsb]. replace (Nat.eqb i r) with false by (symmetry; apply Nat.eqb_neq; lia). cbn [orb].
        apply not_true_is_false. intros X. apply existsb_exists in X. destruct X as [x [Hx Hx']].
        apply Nat.eqb_eq in Hx'. subst x. rewrite Forall_forall in Hlt. specialize (Hlt i Hx). lia. }
      cbn [existsb] in Ex. rewrite Ex.
      rewrite (IH (r :: req') (S i) Srt).
      * reflexivity.
      * constructor; [lia|]. rewrite Forall_forall in Hlt |- *. intros x Hx. specialize (Hlt x Hx). lia.
      * intros j s' Hn Hin. apply (Ok (S j) s' Hn). replace (i + S j)%nat with (S i + j)%nat by lia. exact Hin.
Qed.

(* ---------------------------------------------------------------------------------- *)
(** * the postcondition of a well-formed transfer, and its chunk-level reading *)

Definition in_ext (c : W.chunk) (x : N) : Prop :=
  doff + W.c_start c <= x < doff + W.c_start c + W.c_len c.

Record placed (ridx : list W.rentry) (tab0 : list W.chunk) (datas : list bytes)
              (file : bytes) (tab' : list W.chunk) (file' : bytes) : Prop := mkPlaced {
  (* C05_placement / transfer_lit, first part *)
  pl_req : forall k e d c, nth_error ridx k = Some e -> nth_error datas k = Some d ->
      nth_error tab0 (W.r_tgt e) = Some c ->
      (exists c', nth_error tab' (W.r_tgt e) = Some c' /\ W.c_valid c' = W.VValid) /\
      W.fread file' (doff + W.c_start c) (length d) = d;
  (* C05_placement / transfer_lit, second part *)
  pl_other : forall t, ~ In t (map W.r_tgt ridx) -> nth_error tab' t = nth_error tab0 t;
  (* C05_confinement *)
  pl_shape : I.same_shape tab0 tab';
  pl_conf : forall x, (forall t c, nth_error tab0 t = Some c -> In t (map W.r_tgt ridx) -> ~ in_ext c x) ->
                      W.fget file' x = W.fget file x }.

(** what the server sent for entry k is what it holds at that chunk's extent *)
Definition from_server (ridx : list W.rentry) (tab0 : list W.chunk) (datas : list bytes) : Prop :=
  forall k e d c, nth_error ridx k = Some e -> nth_error datas k = Some d ->
    nth_error tab0 (W.r_tgt e) = Some c ->
    d = W.fread fb (doff + W.c_start c) (N.to_nat (W.c_len c)).

Lemma digest_ok_link c d :
  length (W.c_digest c) = ds -> 0 < W.c_len c -> len d = W.c_len c ->
  W.chunk_digest_ok H c d = true ->
  U.chunk_ok Hc (U.mkChunk (W.c_digest c) (W.c_len c) 0) d = true.
Proof.
  intros L Pos Ld Ok. unfold U.chunk_ok, U.complete, U.digest_ok. cbn [U.c_clen U.c_digest].
  rewrite Ld, N.eqb_refl. cbn [andb].
  replace (W.c_len c =? 0) with false by (symmetry; apply N.eqb_neq; lia).
  unfold W.chunk_digest_ok in Ok.
  replace (W.c_len c =? 0) with false in Ok by (symmetry; apply N.eqb_neq; lia).
  rewrite L in Ok. exact Ok.
Qed.

Theorem placed_is_place ridx tab0 datas file tab' file' :
  P.req_ok doff ridx tab0 -> P.datas_ok H ridx tab0 datas ->
  Forall (fun c => length (W.c_digest c) = ds) tab0 ->
  StronglySorted lt (map W.r_tgt ridx) ->
  from_server ridx tab0 datas ->
  placed ridx tab0 datas file tab' file' ->
  U.place Hc (map W.r_tgt ridx) 0 (absr 0 tab0 file) = (absr 0 tab' file', true).
Proof.
  intros Rq Dt Sz Srt Fs Pl.
  destruct Rq as [Nd [St [Dj [Ne En]]]].
  assert (Hlen : length ridx = length datas) by (eapply P.Forall2_len; exact Dt).
  (* every target of the request: its entry, its data *)
  assert (Tg : forall t, In t (map W.r_tgt ridx) ->
            exists k e d c, nth_error ridx k = Some e /\ W.r_tgt e = t /\ nth_error datas k = Some d /\
                            nth_error tab0 t = Some c /\ W.c_valid c <> W.VValid /\ 0 < W.c_len c /\
                            len d = W.c_len c /\ W.chunk_digest_ok H c d = true).
  { intros t Hin. apply in_map_iff in Hin. destruct Hin as [e [Et Hin]].
    apply In_nth_error in Hin. destruct Hin as [k Hk].
    destruct (nth_error datas k) as [d|] eqn:Hd.
    2:{ apply nth_error_None in Hd. assert (k < length ridx)%nat by (apply nth_error_Some; congruence). lia. }
    destruct (P.Forall2_nth_error _ _ _ _ _ _ Dt Hk Hd) as [Ld [c [Hc0 Ok]]].
    destruct (En e (nth_error_In _ _ Hk)) as [c1 [Hc1 [Nv [Rl [Rd Pos]]]]].
    rewrite Hc1 in Hc0. inversion Hc0; subst c1.
    exists k, e, d, c. rewrite <- Et. repeat split; auto; lia. }
  rewrite place_mark.
  - f_equal. apply nth_error_ext_local. intros j.
    rewrite nth_mark, !nth_absr. cbn [Nat.add].
    destruct Pl as [P1 P2 [Sl Sh] Cf].
    destruct (nth_error tab0 j) as [c|] eqn:Hc0; cbn [option_map].
    2:{ apply nth_error_None in Hc0. assert (nth_error tab' j = None) as E by (apply nth_error_None; lia).
        rewrite E. reflexivity. }
    destruct (nth_error tab' j) as [c'|] eqn:Hc'.
    2:{ apply nth_error_None in Hc'. assert (j < length tab0)%nat by (apply nth_error_Some; congruence). lia. }
    destruct (Sh j c c' Hc0 Hc') as [S1 [S2 S3]]. cbn [option_map]. f_equal.
    destruct (existsb (Nat.eqb j) (map W.r_tgt ridx)) eqn:Ex.
    + (* requested *)
      apply existsb_exists in Ex. destruct Ex as [t [Hin Et]]. apply Nat.eqb_eq in Et. subst t.
      destruct (Tg j Hin) as [k [e [d [c1 [Hk [Et [Hd [Hc1 [Nv [Pos [Ld Ok]]]]]]]]]]].
      rewrite Hc0 in Hc1. inversion Hc1; subst c1.
      rewrite <- Et in Hc0. destruct (P1 k e d c Hk Hd Hc0) as [[c2 [Hc2 V2]] Rd].
      rewrite Et in Hc2. rewrite Hc' in Hc2. inversion Hc2; subst c2.
      pose proof (Fs k e d c Hk Hd Hc0) as Ed.
      unfold slot_of, U.set_cur. cbn [U.s_chunk U.s_srv]. rewrite S1, S2, S3, V2. cbn [flag_of_v].
      f_equal. rewrite <- Ed.
      assert (length d = N.to_nat (W.c_len c)) as Ll by (unfold len in Ld; lia).
      rewrite <- Ll. symmetry. exact Rd.
    + (* not requested: entry and bytes unchanged *)
      assert (~ In j (map W.r_tgt ridx)) as Nin.
      { intros Hin. assert (existsb (Nat.eqb j) (map W.r_tgt ridx) = true) as X.
        { apply existsb_exists. exists j. split; [exact Hin | apply Nat.eqb_refl]. }
        congruence. }
      pose proof (P2 j Nin) as E2. rewrite Hc', Hc0 in E2. inversion E2; subst c'.
      unfold slot_of. f_equal.
      apply FL.fread_ext. intros x Hx. symmetry. apply Cf. intros t ct Hct Hin Hext.
      apply (Dj j t c ct x); auto.
      * intros X. subst t. exact (Nin Hin).
      * unfold P.in_ext. lia.
  - exact Srt.
  - apply Forall_forall. intros; lia.
  - intros j s Hn Hin. cbn [Nat.add] in Hin.
    destruct (Tg j Hin) as [k [e [d [c [Hk [Et [Hd [Hc0 [Nv [Pos [Ld Ok]]]]]]]]]]].
    rewrite nth_absr, Hc0 in Hn. cbn [option_map] in Hn. inversion Hn; subst s.
    unfold slot_of. cbn [U.s_chunk U.s_srv].
    rewrite <- Et in Hc0. rewrite <- (Fs k e d c Hk Hd Hc0).
    assert (length (W.c_digest c) = ds) as L.
    { rewrite Forall_forall in Sz. apply Sz. eapply nth_error_In. exact Hc0. }
    pose proof (digest_ok_link c d L Pos Ld Ok) as X.
    unfold U.chunk_ok, U.complete, U.digest_ok in *. cbn [U.c_clen U.c_digest] in *. exact X.
Qed.

(** [dl_write_range] on the payload of a well-formed single-range response, fed in one call,
    establishes the postcondition (C05_placement + C05_confinement); by C05_any_partition
    every partition into non-empty callbacks ends in the very same state. *)
Theorem dlw_placed ridx tab0 datas fpos file :
  P.req_ok doff ridx tab0 -> P.datas_ok H ridx tab0 datas ->
  let s' := fst (W.dlw H doff ridx (P.init fpos file tab0) (concat datas)) in
  placed ridx tab0 datas file (W.d_tab s') (W.d_file s').
Proof.
  intros Rq Dt s'.
  destruct (P.dlw_place_oneshot H doff ridx tab0 datas fpos file s' Rq Dt eq_refl) as [_ [P1 P2]].
  destruct (W.dlw H doff ridx (P.init fpos file tab0) (concat datas)) as [s1 r] eqn:Run.
  cbn [fst] in s'. subst s'.
  destruct (I.dlw_confined H doff ridx tab0 _ _ _ _ (I.dl_wf_init doff ridx tab0 fpos file) Run) as [Wf Cf].
  constructor.
  - exact P1.
  - exact P2.
  - destruct Wf as [Sh _]. exact Sh.
  - intros x Hx. rewrite (Cf x); [reflexivity|].
    intros t c Hc [c0 [e [Hc0 [Nv [Hin Et]]]]]. apply (Hx t c Hc).
    apply in_map_iff. exists e. split; assumption.
Qed.

(** (d), single-range responses: the byte-level placement and [Update.place] agree *)
Theorem link_place_single ridx tab0 datas fpos file :
  P.req_ok doff ridx tab0 -> P.datas_ok H ridx tab0 datas ->
  Forall (fun c => length (W.c_digest c) = ds) tab0 ->
  StronglySorted lt (map W.r_tgt ridx) ->
  from_server ridx tab0 datas ->
  let s' := fst (W.dlw H doff ridx (P.init fpos file tab0) (concat datas)) in
  snd (W.dlw H doff ridx (P.init fpos file tab0) (concat datas)) = W.DOk (len (concat datas)) /\
  U.place Hc (map W.r_tgt ridx) 0 (absr 0 tab0 file) = (absr 0 (W.d_tab s') (W.d_file s'), true).
Proof.
  intros Rq Dt Sz Srt Fs s'. split.
  - exact (proj1 (P.dlw_place_oneshot H doff ridx tab0 datas fpos file _ Rq Dt eq_refl)).
  - apply (placed_is_place ridx tab0 datas file); try assumption. apply dlw_placed; assumption.
Qed.

End Link.
